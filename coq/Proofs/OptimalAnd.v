(* C20: merge_top_k_results_and (best-first search over index tuples) returns the k best elements
   of the product of the sorted lists, for EVERY tie-breaking policy `pick` of the heap.
   Frontier invariant: the set of inserted tuples contains the start tuple and every in-range
   successor of a popped tuple; hence every tuple that was not popped lies (pointwise) above a
   live candidate, and is therefore not better than it. *)
From Coq Require Import List ZArith Bool Lia Permutation.
From DD Require Import Model.Circuit Model.Optimal Proofs.Enum Proofs.Semantics Proofs.TopK
  Proofs.OptimalBridge Proofs.OptimalOr Proofs.OptimalTuples.
Import ListNotations.
Open Scope Z_scope.

(* ---------- pop_max ---------- *)

Lemma is_max_spec (H : list cand) x : is_max H x = true <-> forall y, In y H -> cand_val y <= cand_val x.
Proof.
  unfold is_max. rewrite forallb_forall. split; intros Hm y Hy; specialize (Hm y Hy).
  - now apply Z.leb_le. - now apply Z.leb_le.
Qed.

Lemma find_idx_some {A} (p : A -> bool) l j :
  find_idx p l = Some j -> exists x, nth_error l j = Some x /\ p x = true.
Proof.
  revert j. induction l as [|a l IH]; intros j H; [discriminate|]. cbn in H.
  destruct (p a) eqn:E.
  - inversion H; subst. exists a. now split.
  - destruct (find_idx p l) as [j'|]; [|discriminate]. cbn in H. inversion H; subst.
    destruct (IH j' eq_refl) as (x & Hx & Hp). exists x. now split.
Qed.

Lemma find_idx_none {A} (p : A -> bool) l : find_idx p l = None -> forall x, In x l -> p x = false.
Proof.
  induction l as [|a l IH]; intros H x Hx; [destruct Hx|]. cbn in H.
  destruct (p a) eqn:E; [discriminate|]. destruct (find_idx p l); [discriminate|].
  destruct Hx as [<-|Hx]; [exact E|now apply IH].
Qed.

Lemma exists_max (H : list cand) : H <> [] -> exists x, In x H /\ forall y, In y H -> cand_val y <= cand_val x.
Proof.
  induction H as [|a H IH]; intros Hne; [congruence|].
  destruct H as [|b H].
  - exists a. split; [now left|]. intros y [<-|[]]. lia.
  - destruct (IH ltac:(discriminate)) as (x & Hx & Hmax).
    destruct (Z_le_gt_dec (cand_val a) (cand_val x)).
    + exists x. split; [now right|]. intros y [<-|Hy]; [lia|now apply Hmax].
    + exists a. split; [now left|]. intros y [<-|Hy]; [lia|]. specialize (Hmax y Hy). lia.
Qed.

Lemma pop_max_spec (i : nat) (H : list cand) :
  H <> [] ->
  exists j x, pop_max i H = Some (x, remove_nth j H) /\ nth_error H j = Some x
              /\ forall y, In y H -> cand_val y <= cand_val x.
Proof.
  intros Hne.
  assert (Hfb : exists j x, (match find_idx (is_max H) H with
                             | Some j => match nth_error H j with Some x => Some (x, remove_nth j H) | None => None end
                             | None => None end) = Some (x, remove_nth j H)
                            /\ nth_error H j = Some x /\ forall y, In y H -> cand_val y <= cand_val x).
  { destruct (find_idx (is_max H) H) as [j|] eqn:E.
    - destruct (find_idx_some _ _ _ E) as (x & Hx & Hm). exists j, x. rewrite Hx.
      split; [reflexivity|]. split; [reflexivity|]. now apply is_max_spec.
    - exfalso. destruct (exists_max H Hne) as (x & Hx & Hm).
      pose proof (find_idx_none _ _ E x Hx) as Hf. apply is_max_spec in Hm. congruence. }
  unfold pop_max. destruct (nth_error H i) as [x|] eqn:Ei; [|exact Hfb].
  destruct (is_max H x) eqn:Em; [|exact Hfb].
  exists i, x. split; [reflexivity|]. split; [exact Ei|]. now apply is_max_spec.
Qed.

Lemma remove_nth_perm {A} (l : list A) j x :
  nth_error l j = Some x -> Permutation l (x :: remove_nth j l).
Proof.
  revert j. induction l as [|a l IH]; intros j H; [destruct j; discriminate|].
  destruct j as [|j]; cbn in *.
  - inversion H. reflexivity.
  - rewrite (IH j H) at 1. apply perm_swap.
Qed.

(* ---------- sub-multisets of a duplicate-free list ---------- *)

Lemma NoDup_incl_rest {A} (P U : list A) : NoDup P -> incl P U -> exists rest, Permutation (P ++ rest) U.
Proof.
  revert U. induction P as [|p P IH]; intros U Hnd Hincl; [exists U; reflexivity|].
  inversion Hnd as [|? ? Hp HndP]; subst.
  assert (HpU : In p U) by (apply Hincl; now left).
  apply in_split in HpU. destruct HpU as (U1 & U2 & ->).
  destruct (IH (U1 ++ U2) HndP) as (rest & Hperm).
  - intros q Hq. assert (HqU : In q (U1 ++ p :: U2)) by (apply Hincl; now right).
    apply in_app_iff in HqU. apply in_app_iff. destruct HqU as [HqU|[->|HqU]]; auto. contradiction.
  - exists rest. cbn. rewrite Hperm. apply Permutation_middle.
Qed.

Lemma NoDup_app_disj {A} (l1 l2 : list A) x : NoDup (l1 ++ l2) -> In x l1 -> In x l2 -> False.
Proof.
  induction l1 as [|a l1 IH]; intros Hnd H1 H2; [destruct H1|].
  cbn in Hnd. inversion Hnd; subst. destruct H1 as [->|H1].
  - apply H3. apply in_app_iff. now right.
  - now apply IH.
Qed.

Lemma NoDup_app_l {A} (l1 l2 : list A) : NoDup (l1 ++ l2) -> NoDup l1.
Proof.
  induction l1 as [|a l1 IH]; intros H; [constructor|]. cbn in H. inversion H; subst.
  constructor; [|now apply IH]. intros Hin. apply H2. apply in_app_iff. now left.
Qed.

Lemma pigeon (P U : list tuple) :
  NoDup U -> (length P < length U)%nat -> exists u, In u U /\ ~ In u P.
Proof.
  intros HndU Hlt.
  assert (Hdec : (exists u, In u U /\ ~ In u P) \/ incl U P).
  { clear. induction U as [|u U IH]; [right; intros x []|].
    destruct (tuple_in_dec u P) as [Hin|Hnin].
    - destruct IH as [(v & Hv & Hn)|Hincl]; [left; exists v; split; [now right|exact Hn]|].
      right. intros x [<-|Hx]; auto.
    - left. exists u. split; [now left|exact Hnin]. }
  destruct Hdec as [H|Hincl]; [exact H|].
  pose proof (NoDup_incl_length HndU Hincl). lia.
Qed.

(* ---------- the loop ---------- *)

Section AndMerge.
Variables (pick : picker) (Ls : list (list oc)).
Hypothesis Hdesc : Forall odesc Ls.
Hypothesis Hne : Forall (fun L => L <> []) Ls.
Let start : tuple := map (fun _ => O) Ls.

Record Inv (H : list cand) (seen popped : list tuple) (out : list oc) : Prop := {
  i_seen : forall t, In t seen <-> In t popped \/ In t (map fst H);
  i_nodup : NoDup (popped ++ map fst H);
  i_valid : forall t, In t seen -> valid Ls t;
  i_cand : forall t x, In (t, x) H -> x = cand_of Ls t;
  i_start : In start seen;
  i_closed : forall p j, In p popped -> (j < length Ls)%nat ->
                         (S (nth j p O) < length (nth j Ls []))%nat -> In (bump p j) seen;
  i_out : out = map (cand_of Ls) popped;
  i_desc : odesc (rev out);
  i_heap_le : forall y o, In y H -> In o out -> cand_val y <= snd o;
}.

Lemma dominated H seen popped out :
  Inv H seen popped out ->
  forall u, valid Ls u -> In u popped \/ exists h, In h (map fst H) /\ le_t h u.
Proof.
  intros HI u. remember (tsum u) as s eqn:Hs. revert u Hs.
  induction s as [s IH] using lt_wf_ind. intros u Hs Hu.
  pose proof (valid_length Ls u Hu) as Hlen.
  destruct (zero_or_pos u Ls Hlen) as [Hz|(j & Hj & Hp)].
  - fold start in Hz. subst u. pose proof (i_start _ _ _ _ HI) as Hst.
    apply (i_seen _ _ _ _ HI) in Hst. destruct Hst as [Hst|Hst]; [now left|].
    right. exists start. split; [exact Hst|apply le_t_refl].
  - pose proof (dec_valid Ls u j Hu) as Hu'.
    destruct (IH (tsum (dec u j)) ltac:(subst s; now apply dec_tsum) (dec u j) eq_refl Hu') as [Hpop|(h & Hh & Hle)].
    + assert (Hin : In (bump (dec u j) j) seen).
      { apply (i_closed _ _ _ _ HI); [exact Hpop|lia|].
        rewrite (dec_nth u j Hj Hp). apply valid_nth; [exact Hu|lia]. }
      rewrite (bump_dec u j Hj Hp) in Hin. apply (i_seen _ _ _ _ HI) in Hin.
      destruct Hin as [Hin|Hin]; [now left|]. right. exists u. split; [exact Hin|apply le_t_refl].
    + right. exists h. split; [exact Hh|]. eapply le_t_trans; [exact Hle|apply dec_le].
Qed.

Lemma successors_spec t u :
  In u (successors Ls t) <->
  exists j, (j < length Ls)%nat /\ (S (nth j t O) < length (nth j Ls []))%nat /\ u = bump t j.
Proof.
  unfold successors. rewrite in_map_iff. split.
  - intros (j & <- & Hj). apply filter_In in Hj. destruct Hj as [Hj Hc]. apply in_seq in Hj.
    apply Nat.ltb_lt in Hc. exists j. repeat split; auto. lia.
  - intros (j & Hj & Hc & ->). exists j. split; [reflexivity|]. apply filter_In. split; [apply in_seq; lia|].
    now apply Nat.ltb_lt.
Qed.

Lemma successors_NoDup t : length t = length Ls -> NoDup (successors Ls t).
Proof.
  intros Hl. unfold successors. apply NoDup_map_inj_on.
  - apply NoDup_filter. apply seq_NoDup.
  - intros x y Hx Hy. apply filter_In in Hx. apply filter_In in Hy. destruct Hx as [Hx _], Hy as [Hy _].
    apply in_seq in Hx. apply in_seq in Hy. apply bump_inj; lia.
Qed.

Lemma inv_step H seen popped out j t x :
  Inv H seen popped out ->
  nth_error H j = Some (t, x) -> (forall y, In y H -> cand_val y <= cand_val (t, x)) ->
  let news := filter (fun u => negb (seen_mem u seen)) (successors Ls t) in
  Inv (remove_nth j H ++ map (fun u => (u, cand_of Ls u)) news) (seen ++ news) (t :: popped) (x :: out).
Proof.
  intros HI Hnth Hmax news.
  pose proof (remove_nth_perm H j (t, x) Hnth) as HpH. set (H1 := remove_nth j H) in *.
  assert (HinH : In (t, x) H) by (apply (Permutation_in _ (Permutation_sym HpH)); now left).
  assert (Hx : x = cand_of Ls t) by now apply (i_cand _ _ _ _ HI).
  assert (Htseen : In t seen) by (apply (i_seen _ _ _ _ HI); right; apply in_map_iff; now exists (t, x)).
  assert (Htvalid : valid Ls t) by now apply (i_valid _ _ _ _ HI).
  assert (HfstH : Permutation (map fst H) (t :: map fst H1)) by (apply (Permutation_map fst) in HpH; exact HpH).
  assert (Hnews : forall u, In u news <-> In u (successors Ls t) /\ ~ In u seen).
  { intros u. unfold news. rewrite filter_In. split; intros [Hs Hm]; (split; [exact Hs|]).
    - intros Hin. apply seen_mem_In in Hin. rewrite Hin in Hm. discriminate.
    - apply negb_true_iff. destruct (seen_mem u seen) eqn:E; [|reflexivity].
      exfalso. apply Hm. now apply seen_mem_In. }
  assert (Hfstnew : map fst (map (fun u => (u, cand_of Ls u)) news) = news).
  { rewrite map_map. cbn. apply map_id. }
  assert (Hsuccvalid : forall u, In u (successors Ls t) -> valid Ls u /\ le_t t u).
  { intros u Hu. apply successors_spec in Hu. destruct Hu as (i & Hi & Hc & ->).
    split; [now apply bump_valid|apply bump_le]. }
  constructor.
  - intros u. rewrite map_app, Hfstnew, !in_app_iff. rewrite (i_seen _ _ _ _ HI u).
    split.
    + intros [[Hu|Hu]|Hu]; [left; now right| |right; now right].
      apply (Permutation_in _ HfstH) in Hu. destruct Hu as [<-|Hu]; [left; now left|right; now left].
    + intros [[<-|Hu]|[Hu|Hu]]; [left; right; apply (Permutation_in _ (Permutation_sym HfstH)); now left
                                |left; now left| |now right].
      left. right. apply (Permutation_in _ (Permutation_sym HfstH)). now right.
  - rewrite map_app, Hfstnew.
    assert (Hnd1 : NoDup ((t :: popped) ++ map fst H1)).
    { cbn. apply (Permutation_NoDup (l := popped ++ t :: map fst H1)).
      - symmetry. apply Permutation_middle.
      - apply (Permutation_NoDup (l := popped ++ map fst H)); [|apply (i_nodup _ _ _ _ HI)].
        now apply Permutation_app_head. }
    rewrite app_assoc. apply NoDup_app_intro; [exact Hnd1| |].
    + unfold news. apply NoDup_filter. apply successors_NoDup. now apply valid_length.
    + intros u Hu Hun. apply Hnews in Hun. destruct Hun as [_ Hun]. apply Hun.
      apply (i_seen _ _ _ _ HI). cbn in Hu. destruct Hu as [<-|Hu].
      * right. apply (Permutation_in _ (Permutation_sym HfstH)). now left.
      * apply in_app_iff in Hu. destruct Hu as [Hu|Hu]; [now left|].
        right. apply (Permutation_in _ (Permutation_sym HfstH)). now right.
  - intros u Hu. apply in_app_iff in Hu. destruct Hu as [Hu|Hu]; [now apply (i_valid _ _ _ _ HI)|].
    apply Hnews in Hu. now apply Hsuccvalid.
  - intros u y Hu. apply in_app_iff in Hu. destruct Hu as [Hu|Hu].
    + apply (i_cand _ _ _ _ HI). apply (Permutation_in _ (Permutation_sym HpH)). now right.
    + apply in_map_iff in Hu. destruct Hu as (u' & He & _). now inversion He.
  - apply in_app_iff. left. apply (i_start _ _ _ _ HI).
  - intros p i [<-|Hp] Hi Hc.
    + destruct (tuple_in_dec (bump t i) seen) as [Hin|Hnin]; apply in_app_iff; [now left|right].
      apply Hnews. split; [|exact Hnin]. apply successors_spec. now exists i.
    + apply in_app_iff. left. now apply (i_closed _ _ _ _ HI).
  - cbn. now rewrite Hx, (i_out _ _ _ _ HI).
  - cbn [rev]. apply desc_snoc; [apply (i_desc _ _ _ _ HI)|].
    intros o Ho. apply in_rev in Ho. apply (i_heap_le _ _ _ _ HI (t, x) o HinH Ho).
  - intros y o Hy Ho.
    assert (Hyx : cand_val y <= snd x).
    { apply in_app_iff in Hy. destruct Hy as [Hy|Hy].
      - apply (Hmax y). apply (Permutation_in _ (Permutation_sym HpH)). now right.
      - apply in_map_iff in Hy. destruct Hy as (u & <- & Hu). apply Hnews in Hu. destruct Hu as [Hu _].
        destruct (Hsuccvalid u Hu) as [Hv Hle]. unfold cand_val. cbn [snd]. rewrite Hx.
        now apply cand_mono. }
    destruct Ho as [<-|Ho]; [exact Hyx|].
    pose proof (i_heap_le _ _ _ _ HI (t, x) o HinH Ho) as Hxo. unfold cand_val in Hxo. cbn [snd] in Hxo. lia.
Qed.

Lemma inv_popped_bound H seen popped out :
  Inv H seen popped out -> (length popped < length (all_tuples Ls))%nat -> H <> [].
Proof.
  intros HI Hlt. destruct (pigeon popped (all_tuples Ls) (all_tuples_NoDup Ls) Hlt) as (u & Hu & Hn).
  apply in_all_tuples in Hu. destruct (dominated _ _ _ _ HI u Hu) as [Hp|(h & Hh & _)]; [contradiction|].
  intros ->. destruct Hh.
Qed.

Lemma and_loop_spec (f : nat) : forall H seen popped out,
  Inv H seen popped out -> (f + length popped <= length (all_tuples Ls))%nat ->
  exists H' seen' popped' out',
    and_loop pick Ls f H seen popped out = Done (rev out')
    /\ Inv H' seen' popped' out' /\ length popped' = (f + length popped)%nat.
Proof.
  induction f as [|f IH]; intros H seen popped out HI Hlen.
  - exists H, seen, popped, out. cbn. auto.
  - cbn [and_loop].
    assert (Hne' : H <> []) by (apply (inv_popped_bound _ _ _ _ HI); lia).
    destruct (pop_max_spec (pick Ls (rev popped) H) H Hne') as (j & [t x] & Hpop & Hnth & Hmax).
    rewrite Hpop. cbn [push_new].
    pose proof (inv_step _ _ _ _ j t x HI Hnth Hmax) as HI'. cbv zeta in HI'.
    destruct (IH _ _ _ _ HI' ltac:(cbn [length]; lia)) as (H' & seen' & popped' & out' & Heq & HI'' & Hl).
    exists H', seen', popped', out'. split; [exact Heq|]. split; [exact HI''|]. cbn [length] in Hl. lia.
Qed.

Lemma inv_final H seen popped out k :
  Inv H seen popped out -> length popped = Nat.min k (length (all_tuples Ls)) ->
  oTopK k (ocprod (rev Ls)) (rev out).
Proof.
  intros HI Hlen.
  assert (HndP : NoDup (rev popped)).
  { apply (Permutation_NoDup (l := popped)); [apply Permutation_rev|]. apply (NoDup_app_l _ _ (i_nodup _ _ _ _ HI)). }
  assert (Hincl : incl (rev popped) (all_tuples Ls)).
  { intros u Hu. apply in_rev in Hu. apply in_all_tuples. apply (i_valid _ _ _ _ HI).
    apply (i_seen _ _ _ _ HI). now left. }
  destruct (NoDup_incl_rest _ _ HndP Hincl) as (restT & Hperm).
  assert (Hout : rev out = map (cand_of Ls) (rev popped)) by (rewrite (i_out _ _ _ _ HI); symmetry; apply map_rev).
  split; [|split].
  - rewrite rev_length, (i_out _ _ _ _ HI), map_length, Hlen.
    now rewrite <- (all_tuples_cands Ls), map_length.
  - apply (i_desc _ _ _ _ HI).
  - exists (map (cand_of Ls) restT). split.
    + rewrite Hout, <- map_app, <- (all_tuples_cands Ls). now apply Permutation_map.
    + intros y r Hy Hr. apply in_map_iff in Hy. destruct Hy as (u & <- & Hu).
      assert (HuU : In u (all_tuples Ls)) by (apply (Permutation_in _ Hperm); apply in_app_iff; now right).
      assert (Hnp : ~ In u popped).
      { intros Hp. apply (NoDup_app_disj (rev popped) restT u); auto.
        - apply (Permutation_NoDup (Permutation_sym Hperm)). apply all_tuples_NoDup.
        - now apply -> in_rev. }
      apply in_all_tuples in HuU.
      destruct (dominated _ _ _ _ HI u HuU) as [Hp|(h & Hh & Hle)]; [contradiction|].
      apply in_map_iff in Hh. destruct Hh as ([h' xh] & <- & Hh). cbn [fst] in Hle.
      pose proof (i_cand _ _ _ _ HI h' xh Hh) as Hxh.
      assert (Hhv : valid Ls h').
      { apply (i_valid _ _ _ _ HI). apply (i_seen _ _ _ _ HI). right. apply in_map_iff. now exists (h', xh). }
      pose proof (cand_mono Ls h' u Hdesc Hhv HuU Hle) as Hmono.
      apply in_rev in Hr.
      pose proof (i_heap_le _ _ _ _ HI (h', xh) r Hh Hr) as Hhr. unfold cand_val in Hhr. cbn [snd] in Hhr.
      subst xh. lia.
Qed.

Lemma inv_init : Inv [(start, cand_of Ls start)] [start] [] [].
Proof.
  constructor; cbn.
  - intros t. tauto.
  - repeat constructor. intros [].
  - intros t [<-|[]]. now apply start_valid.
  - intros t x [He|[]]. now inversion He.
  - now left.
  - intros p j [].
  - reflexivity.
  - exact I.
  - intros y o _ [].
Qed.

End AndMerge.

(* ---------- the bound ---------- *)

Lemma sat_fold umax (lens : list Z) : 1 <= umax -> Forall (fun l => 1 <= l) lens ->
  forall a, 0 <= a <= umax ->
  fold_left (fun acc l => Z.min umax (acc * l)) lens a = Z.min umax (a * zprod lens).
Proof.
  intros Hu HF. induction HF as [|l lens Hl HF' IH]; intros a Ha.
  - cbn. change (zprod []) with 1. lia.
  - cbn [fold_left]. rewrite IH by lia. rewrite zprod_cons.
    assert (Hp : 1 <= zprod lens).
    { clear - HF'. induction HF' as [|x xs Hx _ IHx]; [cbn; lia|]. rewrite zprod_cons. nia. }
    destruct (Z_le_gt_dec (a * l) umax).
    + rewrite (Z.min_r umax (a * l)) by lia. f_equal. lia.
    + rewrite (Z.min_l umax (a * l)) by lia. rewrite !Z.min_l; nia.
Qed.

Lemma existsb_len0 (Ls : list (list oc)) :
  existsb (fun L => Nat.eqb (length L) 0) Ls = false -> Forall (fun L => L <> []) Ls.
Proof.
  intros H. apply Forall_forall. intros L HL ->.
  assert (existsb (fun L => Nat.eqb (length L) 0) Ls = true); [|congruence].
  apply existsb_exists. exists []. now split.
Qed.

Theorem merge_and_correct (umax : Z) (pick : picker) (k : nat) (Ls : list (list oc)) :
  1 <= umax -> Z.of_nat k <= umax -> Forall odesc Ls ->
  exists R, merge_and (bound_sat umax) pick k Ls = Done R /\ oTopK k (ocprod (rev Ls)) R.
Proof.
  intros Hu Hk Hdesc. unfold merge_and.
  destruct (existsb (fun L => Nat.eqb (length L) 0) Ls) eqn:Ex.
  - exists []. split; [reflexivity|]. rewrite ocprod_empty_factor; [apply TopK_nil|].
    apply existsb_exists in Ex. destruct Ex as (L & HL & H0). apply Nat.eqb_eq in H0.
    destruct L; [|discriminate]. now apply -> in_rev.
  - pose proof (existsb_len0 Ls Ex) as Hne. unfold bound_sat.
    rewrite sat_fold; [|exact Hu| |lia].
    2:{ apply Forall_forall. intros z Hz. apply in_map_iff in Hz. destruct Hz as (L & <- & HL).
        rewrite Forall_forall in Hne. specialize (Hne L HL). unfold zlen. destruct L; [congruence|cbn; lia]. }
    rewrite Z.mul_1_l, <- all_tuples_length.
    set (f := Z.to_nat (Z.min (Z.of_nat k) (Z.min umax (Z.of_nat (length (all_tuples Ls)))))).
    assert (Hf : f = Nat.min k (length (all_tuples Ls))) by (unfold f; lia).
    destruct (and_loop_spec pick Ls Hdesc f _ _ _ _ (inv_init pick Ls Hne) ltac:(cbn [length]; lia))
      as (H' & seen' & popped' & out' & Heq & HI & Hl).
    exists (rev out'). split; [exact Heq|].
    apply (inv_final Ls Hdesc H' seen' popped' out' k HI). cbn [length] in Hl. lia.
Qed.
