(* Basic facts about the CNF-export model: cache lookup, step inversion, run over a snoc. *)
From Coq Require Import List ZArith Bool Lia.
From DD Require Import Model.Circuit Model.ToCnf Proofs.PassLemmas.
Import ListNotations.
Open Scope Z_scope.

Lemma list_eqb_eq l1 l2 : list_eqb l1 l2 = true <-> l1 = l2.
Proof.
  revert l2. induction l1 as [|x l1 IH]; intros [|y l2]; cbn [list_eqb]; split; intros H;
    try reflexivity; try discriminate.
  - apply andb_true_iff in H. destruct H as [H1 H2]. apply Z.eqb_eq in H1. apply IH in H2. now subst.
  - inversion H; subst. apply andb_true_iff. split; [apply Z.eqb_refl|now apply IH].
Qed.

Lemma optype_eqb_eq a b : optype_eqb a b = true <-> a = b.
Proof. destruct a, b; cbn; split; intros H; try reflexivity; discriminate. Qed.

Definition entry_of (bc : bicond) : optype * list Z * Z := (b_op bc, b_lits bc, b_index bc).

Lemma cache_get_some (bics : list bicond) op lits v :
  cache_get (map entry_of bics) op lits = Some v -> In (mkBic v op lits) bics.
Proof.
  induction bics as [|bc bics IH]; cbn [map cache_get]; [discriminate|].
  unfold entry_of at 1.
  destruct (optype_eqb op (b_op bc) && list_eqb lits (b_lits bc)) eqn:E.
  - intros H. inversion H; subst. apply andb_true_iff in E. destruct E as [E1 E2].
    apply optype_eqb_eq in E1. apply list_eqb_eq in E2. subst. left. now destruct bc.
  - intros H. right. now apply IH.
Qed.

Lemma cache_get_none (bics : list bicond) op lits :
  cache_get (map entry_of bics) op lits = None ->
  forall bc, In bc bics -> ~ (b_op bc = op /\ b_lits bc = lits).
Proof.
  induction bics as [|bc0 bics IH]; cbn [map cache_get]; [intros _ bc []|].
  unfold entry_of at 1.
  destruct (optype_eqb op (b_op bc0) && list_eqb lits (b_lits bc0)) eqn:E; [discriminate|].
  intros H bc [<-|Hin].
  - intros [H1 H2]. subst. rewrite (proj2 (optype_eqb_eq _ _) eq_refl) in E.
    rewrite (proj2 (list_eqb_eq _ _) eq_refl) in E. discriminate.
  - now apply IH.
Qed.

(* ---------- run ---------- *)

Lemma run_app len (C D : circuit) st :
  run len (C ++ D) st =
  match run len C st with Fail p => Fail p | Done st' => run len D st' end.
Proof.
  revert st. induction C as [|nd C IH]; intros st; [reflexivity|].
  cbn [app run]. destruct (step len st nd) as [st'|p]; [apply IH|reflexivity].
Qed.

Lemma run_snoc_done len (C : circuit) nd st st' :
  run len (C ++ [nd]) st = Done st' ->
  exists st1, run len C st = Done st1 /\ step len st1 nd = Done st'.
Proof.
  rewrite run_app. destruct (run len C st) as [st1|p]; [|discriminate].
  cbn [run]. destruct (step len st1 nd) as [st2|p] eqn:E; [|discriminate].
  intros H. inversion H; subst. now exists st1.
Qed.

(* induction over the walk *)
Lemma run_ind len st0 (P : circuit -> tstate -> Prop) :
  P [] st0 ->
  (forall C st nd st', run len C st0 = Done st -> P C st -> step len st nd = Done st' ->
                       P (C ++ [nd]) st') ->
  forall C st, run len C st0 = Done st -> P C st.
Proof.
  intros H0 Hs C. induction C as [|nd C IH] using rev_ind; intros st H.
  - cbn in H. inversion H; subst. exact H0.
  - apply run_snoc_done in H. destruct H as [st1 [H1 H2]].
    apply (Hs C st1 nd st H1 (IH st1 H1) H2).
Qed.

(* ---------- step inversion ---------- *)

(* a constant is an operation without operands (repair F20) *)
Definition node_op (nd : ntype) : option (optype * list nat) :=
  match nd with
  | And cs => Some (OpAnd, cs)
  | Or cs => Some (OpOr, cs)
  | TrueN => Some (OpAnd, [])
  | FalseN => Some (OpOr, [])
  | Lit _ => None
  end.

Definition alloc (st : tstate) (op : optype) (lits : list Z) : tstate :=
  mkTs (ts_idx st + 1) (ts_bics st ++ [mkBic (ts_idx st) op lits]) (ts_lits st)
       (ts_cache st ++ [(op, lits, ts_idx st)]).

Definition lits_of_children (st : tstate) (cs : list nat) : list Z :=
  map (fun c => nth c (ts_lits st) 0) cs.

Inductive step_case (len : nat) (st : tstate) (nd : ntype) (st' : tstate) : Prop :=
| sc_lit l : nd = Lit l -> st' = set_literal l st -> step_case len st nd st'
| sc_single op c :
    node_op nd = Some (op, [c]) -> (c < len)%nat ->
    st' = set_literal (nth c (ts_lits st) 0) st -> step_case len st nd st'
| sc_hit op cs v :
    node_op nd = Some (op, cs) -> length cs <> 1%nat -> Forall (fun c => (c < len)%nat) cs ->
    cache_get (ts_cache st) op (lits_of_children st cs) = Some v ->
    st' = set_literal v st -> step_case len st nd st'
| sc_fresh op cs :
    node_op nd = Some (op, cs) -> length cs <> 1%nat -> Forall (fun c => (c < len)%nat) cs ->
    cache_get (ts_cache st) op (lits_of_children st cs) = None ->
    st' = set_literal (ts_idx st) (alloc st op (lits_of_children st cs)) ->
    step_case len st nd st'.

Lemma step_lits_inv len op cs st st' nd :
  node_op nd = Some (op, cs) -> Forall (fun c => (c < len)%nat) cs ->
  step_lits op (lits_of_children st cs) st = Done st' -> step_case len st nd st'.
Proof.
  intros Hnd HF. unfold step_lits, transform_operation.
  destruct cs as [|c1 [|c2 cs]].
  - cbn [lits_of_children map].
    change (@nil Z) with (lits_of_children st []) at 1 2 3.
    destruct (cache_get (ts_cache st) op (lits_of_children st [])) as [v|] eqn:Hc.
    + intros H. inversion H; subst. eapply sc_hit; [exact Hnd|cbn; lia|exact HF|exact Hc|reflexivity].
    + intros H. inversion H; subst. eapply sc_fresh; [exact Hnd|cbn; lia|exact HF|exact Hc|reflexivity].
  - cbn [lits_of_children map]. intros H. inversion H; subst.
    eapply sc_single; [exact Hnd| |reflexivity]. now inversion HF.
  - cbn [lits_of_children map].
    change (nth c1 (ts_lits st) 0 :: nth c2 (ts_lits st) 0 :: map (fun c => nth c (ts_lits st) 0) cs)
      with (lits_of_children st (c1 :: c2 :: cs)).
    destruct (cache_get (ts_cache st) op (lits_of_children st (c1 :: c2 :: cs))) as [v|] eqn:Hc.
    + intros H. inversion H; subst. eapply sc_hit; [exact Hnd|cbn; lia|exact HF|exact Hc|reflexivity].
    + intros H. inversion H; subst. eapply sc_fresh; [exact Hnd|cbn; lia|exact HF|exact Hc|reflexivity].
Qed.

Lemma step_op_inv len op cs st st' nd :
  node_op nd = Some (op, cs) ->
  step_op len op cs st = Done st' -> step_case len st nd st'.
Proof.
  intros Hnd. unfold step_op, nodes_to_literals.
  destruct (forallb (fun c => Nat.ltb c len) cs) eqn:Hall; [|discriminate].
  assert (HF : Forall (fun c => (c < len)%nat) cs).
  { apply Forall_forall. intros c Hc. rewrite forallb_forall in Hall. apply Nat.ltb_lt. now apply Hall. }
  change (map (fun c => nth c (ts_lits st) 0) cs) with (lits_of_children st cs).
  now apply step_lits_inv.
Qed.

Lemma step_inv len st nd st' : step len st nd = Done st' -> step_case len st nd st'.
Proof.
  destruct nd as [l|cs|cs| |]; cbn [step]; intros H.
  - inversion H; subst. now eapply sc_lit.
  - now apply (step_op_inv len OpAnd cs).
  - now apply (step_op_inv len OpOr cs).
  - apply (step_lits_inv len OpAnd [] st st' TrueN eq_refl (Forall_nil _) H).
  - apply (step_lits_inv len OpOr [] st st' FalseN eq_refl (Forall_nil _) H).
Qed.

(* the repaired walk stops only at a child index outside the vector *)
Lemma step_total len st nd :
  forallb (fun c => Nat.ltb c len) (children nd) = true -> exists st', step len st nd = Done st'.
Proof.
  assert (HL : forall op lits, exists st', step_lits op lits st = Done st').
  { intros op lits. unfold step_lits, transform_operation.
    destruct lits as [|l1 [|l2 lits]]; try (eexists; reflexivity);
      destruct (cache_get _ _ _); eexists; reflexivity. }
  destruct nd as [l|cs|cs| |]; cbn [step children]; intros H; try apply HL.
  - eexists; reflexivity.
  - unfold step_op, nodes_to_literals. rewrite H. apply HL.
  - unfold step_op, nodes_to_literals. rewrite H. apply HL.
Qed.
