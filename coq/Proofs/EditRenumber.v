(* Re-flattening (IntermediateGraph::rebuild as a DFS post-order over the vector):
   (1) renumbering a well-indexed vector along any order that lists every child before its
       parents commutes with every bottom-up pass whose node function is natural in the child
       indices (eval, count, vars, ...);
   (2) the fuelled DFS of Model/Edit.v produces such an order ending in the root. *)
From Coq Require Import List ZArith Bool Lia.
From DD Require Import Model.Circuit Model.Edit Proofs.PassLemmas Proofs.Semantics.
Import ListNotations.

(* ---------- index_of ---------- *)
Lemma index_of_lt c l : In c l -> (index_of c l < length l)%nat.
Proof.
  induction l as [|y l IH]; intros H; [destruct H|].
  cbn [index_of length]. destruct (Nat.eqb c y) eqn:E; [lia|].
  apply Nat.eqb_neq in E. destruct H as [->|H]; [congruence|]. specialize (IH H). lia.
Qed.

Lemma nth_index_of c l d : In c l -> nth (index_of c l) l d = c.
Proof.
  induction l as [|y l IH]; intros H; [destruct H|].
  cbn [index_of]. destruct (Nat.eqb c y) eqn:E.
  - apply Nat.eqb_eq in E. now subst.
  - apply Nat.eqb_neq in E. destruct H as [->|H]; [congruence|]. cbn. now apply IH.
Qed.

Lemma index_of_firstn c l k : In c (firstn k l) -> (index_of c l < k)%nat.
Proof.
  revert k. induction l as [|y l IH]; intros k H.
  - rewrite firstn_nil in H. destruct H.
  - destruct k as [|k]; [destruct H|]. cbn [firstn] in H. cbn [index_of].
    destruct (Nat.eqb c y) eqn:E; [lia|]. apply Nat.eqb_neq in E.
    destruct H as [->|H]; [congruence|]. specialize (IH k H). lia.
Qed.

(* ---------- orders that list children first ---------- *)
Record good_order (C : circuit) (ord : list nat) : Prop := {
  go_lt : forall x, In x ord -> (x < length C)%nat;
  go_closed : forall k, (k < length ord)%nat ->
              forall c, In c (children (nth (nth k ord O) C FalseN)) -> In c (firstn k ord);
}.

Lemma children_rename r nd : children (rename r nd) = map r (children nd).
Proof. destruct nd; reflexivity. Qed.

Lemma renumber_length ord C : length (renumber ord C) = length ord.
Proof. unfold renumber. apply map_length. Qed.

Lemma renumber_nth ord C k : (k < length ord)%nat ->
  nth k (renumber ord C) FalseN = rename (fun c => index_of c ord) (nth (nth k ord O) C FalseN).
Proof.
  intros Hk. unfold renumber.
  rewrite (nth_indep _ FalseN (rename (fun c => index_of c ord) (nth O C FalseN))) by (rewrite map_length; exact Hk).
  rewrite (map_nth (fun old => rename (fun c => index_of c ord) (nth old C FalseN)) ord O k).
  reflexivity.
Qed.

(* pointwise criterion for idx_ok *)
Lemma idx_ok_from_intro (C : circuit) : forall k,
  (forall i, (i < length C)%nat -> forall c, In c (children (nth i C FalseN)) -> (c < k + i)%nat) ->
  idx_ok_from k C = true.
Proof.
  induction C as [|nd C IH]; intros k H; [reflexivity|].
  cbn [idx_ok_from]. apply andb_true_iff. split.
  - apply forallb_forall. intros c Hc. apply Nat.ltb_lt.
    specialize (H O ltac:(cbn; lia) c Hc). lia.
  - apply IH. intros i Hi c Hc. specialize (H (S i) ltac:(cbn; lia) c Hc). lia.
Qed.

Lemma idx_ok_intro (C : circuit) :
  (forall i, (i < length C)%nat -> forall c, In c (children (nth i C FalseN)) -> (c < i)%nat) ->
  idx_ok C = true.
Proof. intros H. apply idx_ok_from_intro. exact H. Qed.

Lemma renumber_idx_ok C ord : good_order C ord -> idx_ok (renumber ord C) = true.
Proof.
  intros [Hlt Hcl]. apply idx_ok_intro. intros i Hi c Hc.
  rewrite renumber_length in Hi. rewrite (renumber_nth ord C i Hi), children_rename in Hc.
  apply in_map_iff in Hc. destruct Hc as [c0 [<- Hc0]].
  apply index_of_firstn. now apply (Hcl i Hi).
Qed.

(* node functions that only look at the values of the children, through their indices *)
Definition natural {A} (f : list A -> ntype -> A) (d : A) : Prop :=
  forall acc acc' nd r,
    (forall c, In c (children nd) -> nth (r c) acc' d = nth c acc d) ->
    f acc' (rename r nd) = f acc nd.

Lemma rename_id nd : rename (fun c => c) nd = nd.
Proof. destruct nd; cbn; try reflexivity; now rewrite map_id. Qed.

Lemma natural_local {A} (f : list A -> ntype -> A) d : natural f d -> local f d.
Proof.
  intros H acc acc' nd Hc. specialize (H acc' acc nd (fun c => c)).
  rewrite rename_id in H. apply H. intros c Hin. now apply Hc.
Qed.

Lemma map_nth_rename {A} (acc acc' : list A) d r cs :
  (forall c, In c cs -> nth (r c) acc' d = nth c acc d) ->
  map (fun c => nth c acc' d) (map r cs) = map (fun c => nth c acc d) cs.
Proof. intros H. rewrite map_map. now apply map_ext_in. Qed.

Lemma eval_node_natural s : natural (eval_node s) false.
Proof. intros acc acc' [l|cs|cs| |] r H; cbn in *; try reflexivity; now rewrite (map_nth_rename acc acc'). Qed.
Lemma count_node_natural : natural count_node 0%Z.
Proof. intros acc acc' [l|cs|cs| |] r H; cbn in *; try reflexivity; now rewrite (map_nth_rename acc acc'). Qed.
Lemma vars_node_natural : natural vars_node [].
Proof. intros acc acc' [l|cs|cs| |] r H; cbn in *; try reflexivity; now rewrite (map_nth_rename acc acc'). Qed.

(* the pass on the renumbered vector is the pass on the original, read through the order *)
Theorem pass_renumber {A} (f : list A -> ntype -> A) (d : A) (C : circuit) (ord : list nat) :
  natural f d -> idx_ok C = true -> good_order C ord ->
  forall k, (k < length ord)%nat ->
  nth k (pass f (renumber ord C)) d = nth (nth k ord O) (pass f C) d.
Proof.
  intros Hnat Hok Hgo.
  pose proof (renumber_idx_ok C ord Hgo) as Hok'.
  pose proof (natural_local f d Hnat) as Hloc.
  intros k Hk. rewrite <- (renumber_length ord C) in Hk. revert k Hk.
  apply (idx_induction (renumber ord C)
           (fun k => nth k (pass f (renumber ord C)) d = nth (nth k ord O) (pass f C) d) Hok').
  intros k Hk IH. pose proof Hk as Hk'. rewrite renumber_length in Hk'.
  assert (Hlt : (nth k ord O < length C)%nat) by (apply (go_lt C ord Hgo); now apply nth_In).
  rewrite (pass_unfold f d d (renumber ord C) k Hloc Hok' Hk).
  rewrite (pass_unfold f d d C (nth k ord O) Hloc Hok Hlt).
  rewrite (renumber_nth ord C k Hk').
  apply Hnat. intros c Hc.
  assert (Hin : In c (firstn k ord)) by now apply (go_closed C ord Hgo k Hk').
  assert (Hin' : In c ord) by (rewrite <- (firstn_skipn k ord); apply in_app_iff; now left).
  rewrite IH.
  - now rewrite nth_index_of.
  - rewrite (renumber_nth ord C k Hk'), children_rename. apply in_map_iff. now exists c.
Qed.

(* ---------- the DFS produces a good order that ends in the start node ---------- *)
Fixpoint closedR (C : circuit) (r : list nat) : Prop :=
  match r with
  | [] => True
  | x :: r' => (forall c, In c (children (nth x C FalseN)) -> In c r') /\ closedR C r'
  end.

Record Inv (C : circuit) (l : list nat) : Prop := {
  inv_closed : closedR C (rev l);
  inv_lt : forall x, In x l -> (x < length C)%nat;
  inv_nodup : NoDup l;
}.

Lemma memN_In x l : memN x l = true <-> In x l.
Proof.
  unfold memN. rewrite existsb_exists. split.
  - intros [y [Hy E]]. apply Nat.eqb_eq in E. now subst.
  - intros H. exists x. split; [exact H|apply Nat.eqb_refl].
Qed.

Lemma Inv_snoc C l i :
  Inv C l -> (i < length C)%nat -> (forall c, In c (children (nth i C FalseN)) -> In c l) ->
  ~ In i l -> Inv C (l ++ [i]).
Proof.
  intros [Hc Hl Hn] Hi Hch Hni. split.
  - rewrite rev_app_distr. cbn [rev app closedR]. split; [|exact Hc].
    intros c Hin. apply in_rev. rewrite rev_involutive. now apply Hch.
  - intros x Hx. apply in_app_iff in Hx. destruct Hx as [Hx|[<-|[]]]; [now apply Hl|exact Hi].
  - apply NoDup_app_intro; [exact Hn|repeat constructor; intros []|].
    intros x Hx [<-|[]]. contradiction.
Qed.

Lemma dfs_spec C (Hok : idx_ok C = true) : forall fuel i done,
  (i < length C)%nat -> (i < fuel)%nat -> Inv C done ->
  exists ext, dfs fuel C i done = done ++ ext /\ Inv C (done ++ ext) /\ In i (done ++ ext)
              /\ (forall x, In x ext -> (x <= i)%nat)
              /\ (~ In i done -> exists ext', ext = ext' ++ [i])
              /\ (forall x, In x ext -> x = i \/ exists y, In y ext /\ In x (children (nth y C FalseN))).
Proof.
  induction fuel as [|f IHf]; intros i done Hi Hfuel Hinv; [lia|].
  cbn [dfs]. destruct (memN i done) eqn:Em.
  - apply memN_In in Em. exists []. rewrite app_nil_r.
    split; [reflexivity|]. split; [exact Hinv|]. split; [exact Em|]. split; [intros x []|].
    split; [intros Hn; contradiction|intros x []].
  - assert (Hnot : ~ In i done) by (intros H; apply memN_In in H; congruence).
    (* the fold over the children *)
    assert (Hfold : forall cs done0,
               (forall c, In c cs -> (c < i)%nat) -> Inv C done0 ->
               exists ext, fold_left (fun acc c => dfs f C c acc) cs done0 = done0 ++ ext
                           /\ Inv C (done0 ++ ext) /\ (forall c, In c cs -> In c (done0 ++ ext))
                           /\ (forall x, In x ext -> (x < i)%nat)
                           /\ (forall x, In x ext -> In x cs \/
                                                      exists y, In y ext /\ In x (children (nth y C FalseN)))).
    { clear Hinv Hnot Em done.
      induction cs as [|c cs IHcs]; intros done0 Hcs Hinv0.
      - exists []. rewrite app_nil_r.
        split; [reflexivity|]. split; [exact Hinv0|]. split; [intros x []|]. split; intros x [].
      - cbn [fold_left].
        assert (Hc : (c < i)%nat) by (apply Hcs; now left).
        destruct (IHf c done0 ltac:(lia) ltac:(lia) Hinv0) as [e1 [E1 [I1 [In1 [B1 [_ Pa1]]]]]].
        rewrite E1.
        destruct (IHcs (done0 ++ e1) ltac:(intros c' Hc'; apply Hcs; now right) I1)
          as [e2 [E2 [I2 [In2 [B2 Pa2]]]]].
        exists (e1 ++ e2). rewrite app_assoc.
        split; [exact E2|]. split; [exact I2|]. split; [|split].
        + intros c' [<-|Hc']; [|now apply In2].
          rewrite <- app_assoc. apply in_app_iff in In1. rewrite !in_app_iff. tauto.
        + intros x Hx. apply in_app_iff in Hx. destruct Hx as [Hx|Hx]; [|now apply B2].
          specialize (B1 x Hx). lia.
        + intros x Hx. apply in_app_iff in Hx. destruct Hx as [Hx|Hx].
          * destruct (Pa1 x Hx) as [->|[y [Hy Hxy]]]; [left; now left|].
            right. exists y. split; [apply in_app_iff; now left|exact Hxy].
          * destruct (Pa2 x Hx) as [Hin|[y [Hy Hxy]]]; [left; now right|].
            right. exists y. split; [apply in_app_iff; now right|exact Hxy]. }
    destruct (Hfold (rev (children (nth i C FalseN))) done) as [ext [E [I [Inc [B Pa]]]]].
    + intros c Hc. apply in_rev in Hc. now apply (idx_ok_nth C i FalseN Hok Hi c Hc).
    + exact Hinv.
    + rewrite E. exists (ext ++ [i]). rewrite app_assoc. split; [reflexivity|]. split; [|split; [|split; [|split]]].
      * apply Inv_snoc; [exact I|exact Hi| |].
        -- intros c Hc. apply Inc. now apply in_rev in Hc.
        -- intros Hin. apply in_app_iff in Hin. destruct Hin as [Hin|Hin]; [contradiction|].
           specialize (B i Hin). lia.
      * apply in_app_iff. right. now left.
      * intros x Hx. apply in_app_iff in Hx. destruct Hx as [Hx|[<-|[]]]; [|lia].
        specialize (B x Hx). lia.
      * intros _. now exists ext.
      * intros x Hx. apply in_app_iff in Hx. destruct Hx as [Hx|[<-|[]]]; [|now left].
        right. destruct (Pa x Hx) as [Hin|[y [Hy Hxy]]].
        -- exists i. split; [apply in_app_iff; right; now left|now apply in_rev in Hin].
        -- exists y. split; [apply in_app_iff; now left|exact Hxy].
Qed.

Lemma closedR_prefix C l :
  closedR C (rev l) ->
  forall k, (k < length l)%nat ->
  forall c, In c (children (nth (nth k l O) C FalseN)) -> In c (firstn k l).
Proof.
  induction l as [|x l IH] using rev_ind; intros H k Hk c Hc; [cbn in Hk; lia|].
  rewrite rev_app_distr in H. cbn [rev app closedR] in H. destruct H as [Hx Hr].
  rewrite app_length in Hk. cbn in Hk.
  destruct (Nat.eq_dec k (length l)) as [->|Hne].
  - rewrite app_nth2, Nat.sub_diag in Hc by lia. cbn in Hc.
    rewrite firstn_app, Nat.sub_diag, firstn_all. cbn. rewrite app_nil_r.
    apply in_rev. now apply Hx.
  - assert (Hk' : (k < length l)%nat) by lia.
    rewrite app_nth1 in Hc by exact Hk'.
    rewrite firstn_app. replace (k - length l)%nat with O by lia. cbn. rewrite app_nil_r.
    now apply IH.
Qed.

Lemma post_order_spec C :
  C <> [] -> idx_ok C = true ->
  good_order C (post_order C) /\ (exists pre, post_order C = pre ++ [root C])
  /\ NoDup (post_order C)
  /\ (forall x, In x (post_order C) -> x = root C \/
                 exists y, In y (post_order C) /\ In x (children (nth y C FalseN))).
Proof.
  intros Hne Hok. unfold post_order.
  assert (Hr : (length C - 1 < length C)%nat) by (destruct C; [congruence|cbn; lia]).
  destruct (dfs_spec C Hok (length C) (length C - 1) [] Hr Hr) as [ext [E [I [_ [_ [Hl Pa]]]]]].
  { split; [exact I|intros x []|constructor]. }
  cbn [app] in E, I. rewrite E. split; [|split; [|split]].
  - split; [apply I|]. apply closedR_prefix. apply I.
  - destruct (Hl (fun H => H)) as [pre ->]. now exists pre.
  - apply I.
  - exact Pa.
Qed.

Theorem post_order_good C :
  C <> [] -> idx_ok C = true ->
  good_order C (post_order C) /\ exists pre, post_order C = pre ++ [root C].
Proof. intros Hne Hok. destruct (post_order_spec C Hne Hok) as [H1 [H2 _]]. now split. Qed.

(* ---------- reflatten preserves every natural pass at the root ---------- *)
Lemma reflatten_nonempty C : C <> [] -> idx_ok C = true -> reflatten C <> [].
Proof.
  intros Hne Hok. destruct (post_order_good C Hne Hok) as [_ [pre E]].
  unfold reflatten, renumber. rewrite E, map_app. cbn. intros H. now apply app_eq_nil in H as [_ H].
Qed.

Theorem pass_reflatten_root {A} (f : list A -> ntype -> A) (d : A) (C : circuit) :
  natural f d -> C <> [] -> idx_ok C = true ->
  nth (root (reflatten C)) (pass f (reflatten C)) d = nth (root C) (pass f C) d.
Proof.
  intros Hnat Hne Hok. destruct (post_order_good C Hne Hok) as [Hgo [pre E]].
  unfold reflatten. unfold root at 1. rewrite renumber_length.
  assert (Hk : (length (post_order C) - 1 < length (post_order C))%nat)
    by (rewrite E, app_length; cbn; lia).
  rewrite (pass_renumber f d C (post_order C) Hnat Hok Hgo _ Hk). f_equal.
  rewrite E, app_length. cbn [length]. replace (length pre + 1 - 1)%nat with (length pre) by lia.
  rewrite app_nth2, Nat.sub_diag by lia. reflexivity.
Qed.

Theorem reflatten_idx_ok C : C <> [] -> idx_ok C = true -> idx_ok (reflatten C) = true.
Proof. intros Hne Hok. apply renumber_idx_ok. apply (post_order_good C Hne Hok). Qed.

Theorem eval_root_reflatten s C : C <> [] -> idx_ok C = true ->
  eval_root s (reflatten C) = eval_root s C.
Proof.
  intros Hne Hok. rewrite !eval_root_nth.
  apply (pass_reflatten_root (eval_node s) false C (eval_node_natural s) Hne Hok).
Qed.

Theorem root_count_reflatten C : C <> [] -> idx_ok C = true ->
  root_count (reflatten C) = root_count C.
Proof.
  intros Hne Hok. rewrite !root_count_nth.
  apply (pass_reflatten_root count_node 0%Z C count_node_natural Hne Hok).
Qed.
