(* Completeness of the root's feature set.  The tables D (dead), TR (becomes a true node) and L
   (live features) of d4_conform are read against the second traversal: what pass 2 removes is
   dead in D, what it relabels to a true node is in TR, and a node that is not dead keeps every
   feature of L below it.  With `all_mentioned <= L[1]` and the triangles of the unmentioned
   features the root covers 1..n; the balancing steps keep feature sets; every feature of the
   graph is the feature of a literal leaf, hence <= n. *)
From Coq Require Import List ZArith Bool Lia Arith.
From DD Require Import Model.Circuit Model.Query Model.LexerD4 Model.LoadC2d Model.LoadD4 Spec.D4Sem Spec.D4Conform
  Proofs.PassLemmas Proofs.Renum Proofs.C10Load Proofs.LoadD4Graph Proofs.LoadD4Ops Proofs.LoadD4Fold
  Proofs.LoadD4Flat Proofs.LoadD4Iso Proofs.LoadD4Pass2 Proofs.LoadD4Pass2S Proofs.LoadD4Struct
  Proofs.LoadD4Pass3 Proofs.LoadD4Free Proofs.LoadD4Parse Proofs.LoadD4Sem Proofs.LoadD4Conf Proofs.LoadD4Vars
  Proofs.LoadD4Det Proofs.LoadD4Dec.
Import ListNotations.
Local Open Scope nat_scope.

Lemma gdead_and g x : gdead g x -> sg_label g x = Some GAnd.
Proof. intros [? ? H _ _|? ? H _ _]; exact H. Qed.

Lemma tid_of_kind_inj k k' : tid_of_kind k = tid_of_kind k' -> k = k'.
Proof. destruct k, k'; cbn; congruence. Qed.

Lemma gate_has g x t v c vc z : sg_label g x = Some t -> is_gate t = true -> GVs g x v ->
  In c (sg_out g x) -> GVs g c vc -> In z vc -> In z v.
Proof.
  intros Hl Ht Hv Hc Hvc Hz. destruct (GF_gate_inv hvars g x t v Hl Ht Hv) as [vs [Hvs ->]].
  destruct (Forall2_In_l _ _ _ _ Hvs Hc) as [vc' [Hin Hc']].
  rewrite (GF_det hvars g c vc vc' Hvc Hc') in Hz.
  assert (E : hvars t vs = concat vs) by (destruct t; try discriminate; reflexivity). rewrite E.
  apply in_concat. now exists vc'.
Qed.

Section Complete.
Variables (toks : list d4token) (n : nat).
Hypothesis Hconf : d4_conform toks n = true.
Variables (idx : list nat) (g1 g2 : sgraph).
Let K := nk toks.
Let HT := tabH toks.
Let D := tabD toks.
Let R := tabR toks.
Let L := tabL toks.

Hypothesis Hdecl1 : Forall2 (fun k x => sg_label g1 x = Some (tid_of_kind k)) (d4_decls toks) idx.
Hypothesis Hedges1 : forall i x, nth_error idx i = Some x ->
  Forall2 (edge_rep g1 idx) (rev (d4_edges_from toks (S i))) (sg_out g1 x).
Hypothesis Hstep : step_ok g1 g2.
Hypothesis Hdef2 : all_def g2.

Lemma decl_at i : 1 <= i <= K -> exists kd x, kind toks i = Some kd /\ nth_error idx (i - 1) = Some x /\
  sg_label g1 x = Some (tid_of_kind kd) /\ Forall2 (edge_rep g1 idx) (rev (edges toks i)) (sg_out g1 x).
Proof.
  intros Hi. destruct (cf_kind toks i Hi) as [kd Hkd]. pose proof Hkd as Hkd'. unfold kind in Hkd'.
  destruct (Forall2_nth_error_l _ _ _ _ _ Hdecl1 Hkd') as [x [Hx Hlx]]. exists kd, x.
  split; [exact Hkd|]. split; [exact Hx|]. split; [exact Hlx|].
  pose proof (Hedges1 (i - 1) x Hx) as He. replace (S (i - 1)) with i in He by lia. exact He.
Qed.

(* the declared kind of a node, from its label *)
Lemma decl_kind i x t : 1 <= i <= K -> nth_error idx (i - 1) = Some x -> sg_label g1 x = Some t ->
  exists kd, kind toks i = Some kd /\ t = tid_of_kind kd /\
    Forall2 (edge_rep g1 idx) (rev (edges toks i)) (sg_out g1 x).
Proof.
  intros Hi Hx Hl. destruct (decl_at i Hi) as [kd [x' [Hk [Hx' [Hl' He]]]]].
  assert (x' = x) by congruence. subst x'. exists kd. split; [exact Hk|]. split; [congruence|exact He].
Qed.

Lemma child_edge i x c : Forall2 (edge_rep g1 idx) (rev (edges toks i)) (sg_out g1 x) -> In c (sg_out g1 x) ->
  exists e, In e (edges toks i) /\ edge_rep g1 idx e c.
Proof.
  intros HF Hc. destruct (Forall2_In_r _ _ _ _ HF Hc) as [e [He Hr]]. exists e. split; [now apply in_rev in He|exact Hr].
Qed.

Lemma edge_child i x e : Forall2 (edge_rep g1 idx) (rev (edges toks i)) (sg_out g1 x) -> In e (edges toks i) ->
  exists c, In c (sg_out g1 x) /\ edge_rep g1 idx e c.
Proof.
  intros HF He. apply -> in_rev in He. destruct (Forall2_In_l _ _ _ _ HF He) as [c [Hc Hr]]. now exists c.
Qed.

(* ---------- what pass 2 deletes is dead in D ---------- *)
Lemma dead_D x : gdead g1 x ->
  (forall i, 1 <= i <= K -> nth_error idx (i - 1) = Some x -> get D i false = true) /\
  (forall lits tx to, exp_node g1 x lits tx -> 1 <= to <= K -> nth_error idx (to - 1) = Some tx ->
                      get D to false = true).
Proof.
  assert (Hfalse : forall to tx, 1 <= to <= K -> nth_error idx (to - 1) = Some tx -> sg_label g1 tx = Some GFalse ->
                     get D to false = true).
  { intros to tx Hto Htx Hl. destruct (decl_kind to tx _ Hto Htx Hl) as [kd [Hk [Ek _]]].
    assert (kd = KFalse) by (destruct kd; cbn in Ek; congruence). subst kd.
    unfold D. rewrite (cf_D toks n Hconf to Hto). now apply stepD_false. }
  induction 1 as [x c Hl Hc Hlc|x c Hl Hc Hdc [IH1 IH2]]; split.
  - intros i Hi Hx. destruct (decl_kind i x _ Hi Hx Hl) as [kd [Hk [Ek HF]]].
    assert (kd = KAnd) by (destruct kd; cbn in Ek; congruence). subst kd.
    destruct (child_edge i x c HF Hc) as [e [He [tx [Hto [Htx Hcase]]]]].
    unfold D. rewrite (cf_D toks n Hconf i Hi). apply (stepD_and toks _ i e Hk He).
    destruct Hcase as [[_ ->]|[_ [_ [Hla _]]]]; [|congruence].
    apply (Hfalse (snd e) tx); [exact (cf_edge_to toks n Hconf i e He)|exact Htx|exact Hlc].
  - intros lits tx to [_ [lns [Ho Hn]]] Hto Htx. rewrite Ho in Hc. destruct Hc as [<-|Hc].
    + now apply (Hfalse to tx).
    + apply in_rev in Hc. destruct (Forall2_In_r _ _ _ _ Hn Hc) as [l [_ Hll]]. congruence.
  - intros i Hi Hx. destruct (decl_kind i x _ Hi Hx Hl) as [kd [Hk [Ek HF]]].
    assert (kd = KAnd) by (destruct kd; cbn in Ek; congruence). subst kd.
    destruct (child_edge i x c HF Hc) as [e [He [tx [Hto [Htx Hcase]]]]].
    pose proof (cf_edge_to toks n Hconf i e He) as Hr.
    unfold D. rewrite (cf_D toks n Hconf i Hi). apply (stepD_and toks _ i e Hk He).
    destruct Hcase as [[_ ->]|[_ [_ Hexp]]].
    + exact (IH1 (snd e) Hr Htx).
    + exact (IH2 (fst e) tx (snd e) Hexp Hr Htx).
  - intros lits tx to [_ [lns [Ho Hn]]] Hto Htx. rewrite Ho in Hc. destruct Hc as [<-|Hc].
    + exact (IH1 to Hto Htx).
    + apply in_rev in Hc. destruct (Forall2_In_r _ _ _ _ Hn Hc) as [l [_ Hll]].
      pose proof (gdead_and _ _ Hdc). congruence.
Qed.

(* ---------- what pass 2 turns into a true node is in TR ---------- *)
Lemma exp_not_true y lits tx : exp_node g1 y lits tx -> sg_label g2 y <> Some GTrue.
Proof.
  intros [Hl _] Ht. assert (Ha : sg_alive g2 y = true) by (unfold sg_alive; now rewrite Ht).
  destruct (sh_label _ _ (so_sh _ _ Hstep) y Ha) as [E|[E _]]; congruence.
Qed.

Lemma true_R : forall k i x, get HT i 0 < k -> 1 <= i <= K -> nth_error idx (i - 1) = Some x ->
  sg_label g2 x = Some GTrue -> get R i false = true.
Proof.
  induction k as [|k IH]; intros i x Hk Hi Hx Ht; [lia|].
  assert (Ha : sg_alive g2 x = true) by (unfold sg_alive; now rewrite Ht).
  unfold R. rewrite (cf_R toks n Hconf i Hi).
  destruct (sh_label _ _ (so_sh _ _ Hstep) x Ha) as [E|[E _]].
  - rewrite Ht in E. symmetry in E. destruct (decl_kind i x _ Hi Hx E) as [kd [Hkd [Ek _]]].
    assert (kd = KTrue) by (destruct kd; cbn in Ek; congruence). subst kd. now apply stepTR_true.
  - destruct (decl_kind i x _ Hi Hx E) as [kd [Hkd [Ek HF]]].
    assert (kd = KOr) by (destruct kd; cbn in Ek; congruence). subst kd.
    destruct (s2_true _ _ (so_s2 _ _ Hstep) x E Ht) as [c [Hc Hct]].
    destruct (child_edge i x c HF Hc) as [e [He [tx [Hto [Htx Hcase]]]]].
    destruct Hcase as [[Hnil ->]|[_ [_ Hexp]]]; [|exfalso; exact (exp_not_true c _ _ Hexp Hct)].
    apply (stepTR_or toks _ i (snd e) Hkd).
    + destruct e as [fs to]. cbn [fst snd] in *. now subst fs.
    + apply (IH (snd e) tx); [|exact (cf_edge_to toks n Hconf i e He)|exact Htx|exact Hct].
      pose proof (cf_rank toks n Hconf i e Hi He). fold HT in H. lia.
Qed.

Lemma true_R' i x : 1 <= i <= K -> nth_error idx (i - 1) = Some x -> sg_label g2 x = Some GTrue -> get R i false = true.
Proof. intros Hi. apply (true_R (S (get HT i 0))); [lia|exact Hi]. Qed.

(* a node that is not dead survives *)
Lemma alive2_decl i x : 1 <= i <= K -> nth_error idx (i - 1) = Some x -> get D i false = false -> sg_alive g2 x = true.
Proof.
  intros Hi Hx Hd. destruct (sg_alive g2 x) eqn:Ha; [reflexivity|]. exfalso.
  destruct (decl_at i Hi) as [kd [x' [_ [Hx' [Hl _]]]]]. assert (x' = x) by congruence. subst x'.
  assert (Ha1 : sg_alive g1 x = true) by (unfold sg_alive; now rewrite Hl).
  pose proof (proj1 (dead_D x (s2_dead _ _ (so_s2 _ _ Hstep) x Ha1 Ha)) i Hi Hx). congruence.
Qed.

Lemma alive2_exp y lits tx to : exp_node g1 y lits tx -> 1 <= to <= K -> nth_error idx (to - 1) = Some tx ->
  get D to false = false -> sg_alive g2 y = true.
Proof.
  intros Hexp Hto Htx Hd. destruct (sg_alive g2 y) eqn:Ha; [reflexivity|]. exfalso.
  assert (Ha1 : sg_alive g1 y = true) by (destruct Hexp as [Hl _]; unfold sg_alive; now rewrite Hl).
  pose proof (proj2 (dead_D y (s2_dead _ _ (so_s2 _ _ Hstep) y Ha1 Ha)) lits tx to Hexp Hto Htx). congruence.
Qed.
(* ---------- a node that is not dead keeps the features of L ---------- *)
Lemma L_not_R i f : 1 <= i <= K -> In f (get L i []) -> get R i false = false.
Proof. intros Hi Hf. exact (proj1 (proj2 (stepL_In toks D R L i f (cf_L toks n Hconf i f Hi Hf)))). Qed.

Lemma live_L : forall k i x, get HT i 0 < k -> 1 <= i <= K -> nth_error idx (i - 1) = Some x ->
  get D i false = false -> exists v, GVs g2 x v /\ forall f, In f (get L i []) -> In (Z.of_nat f) v.
Proof.
  induction k as [|k IH]; intros i x Hk Hi Hx Hd; [lia|].
  pose proof (alive2_decl i x Hi Hx Hd) as Ha.
  destruct (GDef_vars g2 x (Hdef2 x Ha)) as [v Hv]. exists v. split; [exact Hv|]. intros f Hf.
  destruct (stepL_In toks D R L i f (cf_L toks n Hconf i f Hi Hf)) as [_ [Hr [Hkind [e [He [Hde Hfe]]]]]].
  pose proof (cf_edge_to toks n Hconf i e He) as Hto.
  assert (Hrank : get HT (snd e) 0 < k) by (pose proof (cf_rank toks n Hconf i e Hi He) as Hq; fold HT in Hq; lia).
  destruct (decl_at i Hi) as [kd [x' [Hkd [Hx' [Hl HF]]]]]. assert (x' = x) by congruence. subst x'.
  destruct (edge_child i x e HF He) as [y [Hy [tx [_ [Htx Hcase]]]]].
  pose proof (so_sh _ _ Hstep) as Hsh. pose proof (so_s2 _ _ Hstep) as Hs2.
  (* the label of x is kept *)
  assert (Hl2 : sg_label g2 x = Some (tid_of_kind kd)).
  { destruct (sh_label _ _ Hsh x Ha) as [E|[_ E]]; [congruence|].
    pose proof (true_R' i x Hi Hx E). congruence. }
  assert (Hg : is_gate (tid_of_kind kd) = true) by (destruct Hkind as [E|E]; rewrite Hkd in E; injection E as ->; reflexivity).
  (* the target, where it is needed, has the features of L *)
  assert (Htgt : In f (get L (snd e) []) -> exists vt, GVs g2 tx vt /\ In (Z.of_nat f) vt /\ sg_label g2 tx <> Some GTrue).
  { intros HfL. destruct (IH (snd e) tx Hrank Hto Htx Hde) as [vt [Hvt Hall]]. exists vt. split; [exact Hvt|].
    split; [now apply Hall|]. intros Ht. pose proof (true_R' (snd e) tx Hto Htx Ht).
    pose proof (L_not_R (snd e) f Hto HfL). congruence. }
  (* the child of the edge stays *)
  assert (Hy2 : In y (sg_out g2 x)).
  { destruct Hkind as [E|E]; rewrite Hkd in E; injection E as ->; cbn [tid_of_kind] in Hl2.
    - destruct (s2_and _ _ Hs2 x y Hl2 Hy) as [H|H]; [exact H|]. exfalso.
      destruct Hcase as [[Hnil ->]|[_ [_ Hexp]]]; [|exact (exp_not_true y _ _ Hexp H)].
      destruct Hfe as [Hfe|Hfe]; [rewrite Hnil in Hfe; destruct Hfe|].
      destruct (Htgt Hfe) as [_ [_ [_ Hnt]]]. contradiction.
    - destruct (s2_or _ _ Hs2 x y Hl2 Hy) as [H|[H|H]]; [exact H| |]; exfalso.
      + destruct Hcase as [[_ ->]|[_ [_ [Hla _]]]]; [|congruence].
        destruct (decl_kind (snd e) tx _ Hto Htx H) as [kd' [Hk' [Ek' _]]].
        assert (kd' = KFalse) by (destruct kd'; cbn in Ek'; congruence). subst kd'.
        unfold D in Hde. rewrite (cf_D toks n Hconf (snd e) Hto), (stepD_false toks _ _ Hk') in Hde. discriminate.
      + destruct Hcase as [[_ ->]|[_ [_ Hexp]]].
        * rewrite (alive2_decl (snd e) tx Hto Htx Hde) in H. discriminate.
        * rewrite (alive2_exp y _ tx (snd e) Hexp Hto Htx Hde) in H. discriminate. }
  assert (Hay : sg_alive g2 y = true) by exact (proj2 (out_alive g2 x y (proj1 (so_inv _ _ Hstep)) Hy2)).
  destruct (GDef_vars g2 y (Hdef2 y Hay)) as [vy Hvy].
  apply (gate_has g2 x _ v y vy _ Hl2 Hg Hv Hy2 Hvy).
  destruct Hcase as [[Hnil ->]|[_ [_ Hexp]]].
  - destruct Hfe as [Hfe|Hfe]; [rewrite Hnil in Hfe; destruct Hfe|].
    destruct (Htgt Hfe) as [vt [Hvt [Hin _]]]. now rewrite (GF_det hvars g2 tx vy vt Hvy Hvt).
  - (* the expansion node keeps its literal leaves and the target *)
    pose proof Hexp as [Hla [lns [Hoy Hlits]]].
    assert (Hla2 : sg_label g2 y = Some GAnd).
    { destruct (sh_label _ _ Hsh y Hay) as [E|[E _]]; congruence. }
    destruct Hfe as [Hfe|Hfe].
    + unfold lit_vars in Hfe. apply in_map_iff in Hfe. destruct Hfe as [l [El Hl']].
      destruct (Forall2_In_l _ _ _ _ Hlits Hl') as [z [Hz Hlz]].
      assert (Hlz2 : sg_label g2 z = Some (GLit l)) by (apply (sh_keep _ _ Hsh z _ Hlz); discriminate).
      assert (Hz1 : In z (sg_out g1 y)) by (rewrite Hoy; right; now apply -> in_rev).
      destruct (s2_and _ _ Hs2 y z Hla2 Hz1) as [Hz2|Hz2]; [|congruence].
      apply (gate_has g2 y GAnd vy z [Z.abs l] _ Hla2 eq_refl Hvy Hz2 (GF_leaf hvars g2 z _ Hlz2 eq_refl)).
      left. rewrite <- El. now rewrite Zabs2Nat.id_abs.
    + destruct (Htgt Hfe) as [vt [Hvt [Hin Hnt]]].
      assert (Ht1 : In tx (sg_out g1 y)) by (rewrite Hoy; now left).
      destruct (s2_and _ _ Hs2 y tx Hla2 Ht1) as [Ht2|Ht2]; [|contradiction].
      exact (gate_has g2 y GAnd vy tx vt _ Hla2 eq_refl Hvy Ht2 Hvt Hin).
Qed.

Lemma live_L' i x : 1 <= i <= K -> nth_error idx (i - 1) = Some x -> get D i false = false ->
  exists v, GVs g2 x v /\ forall f, In f (get L i []) -> In (Z.of_nat f) v.
Proof. intros Hi. apply (live_L (S (get HT i 0))); [lia|exact Hi]. Qed.

(* every mentioned feature is below node 1, which is neither dead nor a true node *)
Lemma mentioned_root x f : nth_error idx 0 = Some x -> In f (all_mentioned toks) ->
  exists v, GVs g2 x v /\ In (Z.of_nat f) v /\ sg_label g2 x <> Some GTrue.
Proof.
  intros Hx Hf. pose proof (cf_mentioned toks n Hconf f Hf) as HfL. fold L in HfL.
  assert (H1 : 1 <= 1 <= K) by (destruct (cf_split toks n Hconf) as [H1 _]; fold K in H1; lia).
  destruct (stepL_In toks D R L 1 f (cf_L toks n Hconf 1 f H1 HfL)) as [Hd [Hr _]].
  destruct (live_L' 1 x H1 Hx Hd) as [v [Hv Hall]]. exists v. split; [exact Hv|]. split; [now apply Hall|].
  intros Ht. pose proof (true_R' 1 x H1 Hx Ht). congruence.
Qed.
End Complete.

(* ---------- the declared nodes after the free-feature loop ---------- *)
Lemma decl_facts_free {P : Z -> Prop} {st : bool} toks n0 b root1 s1 : rep P st n0 toks b ->
  free_result (bs_ls b) root1 s1 ->
  Forall2 (fun k x => sg_label (ls_g s1) x = Some (tid_of_kind k)) (d4_decls toks) (bs_idx b) /\
  (forall i x, nth_error (bs_idx b) i = Some x ->
     Forall2 (edge_rep (ls_g s1) (bs_idx b)) (rev (d4_edges_from toks (S i))) (sg_out (ls_g s1) x)).
Proof.
  intros HR [[_ ->]|[Hd [Hl [He _]]]]; [split; [exact (rp_decl _ _ _ _ _ HR)|exact (rp_edges _ _ _ _ _ HR)]|].
  split.
  - eapply Forall2_impl; [|exact (rp_decl _ _ _ _ _ HR)]. intros k x Hx. exact (ext_label_some _ _ _ _ _ He Hx).
  - intros i x Hi.
    assert (Ha : sg_alive (ls_g (bs_ls b)) x = true) by (apply (idx_alive _ _ _ _ _ _ HR); now apply nth_error_In in Hi).
    rewrite (ex_out _ _ _ He x Ha) by (intros []).
    eapply Forall2_impl; [|exact (rp_edges _ _ _ _ _ HR i x Hi)]. intros e y Hey.
    apply (edge_rep_ext _ _ (bs_idx b) (bs_idx b) [] e y He); [intros ? []|auto|intros z Hz; now left|exact Hey].
Qed.

(* ---------- a balancing step keeps the feature set of every node ---------- *)
Lemma vars_step ord (Hperm : forall l f, In f (ord l) <-> In f l) {P : Z -> Prop} {st : bool} m s s' nx x v :
  tables_ok P st s -> p3step ord (P := P) (st := st) m s s' nx -> mexact (ls_g s) m ->
  GVs (ls_g s) x v -> exists v', GVs (ls_g s') x v' /\ seteq v' v.
Proof.
  intros Hok [[-> _]|[[-> _]|[Hnx [_ [Hok' [He [_ [cd [Hcd [ans [Hp [_ [Hans Hout]]]]]]]]]]]]] Hm Hv;
    try (exists v; split; [exact Hv|apply seteq_refl]).
  eapply (step_vars ord Hperm (P := P) (st := st) m s s' nx cd ans); eassumption.
Qed.

(* ---------- to the vector ---------- *)
Lemma inclb_from a b : (forall z, In z a -> In z b) -> inclb a b = true.
Proof.
  intros H. unfold inclb. apply forallb_forall. intros v Hv. unfold memZ. apply existsb_exists.
  exists v. split; [now apply H|apply Z.eqb_refl].
Qed.

Theorem iso_complete g root order C N v : iso g root order C -> GVs g root v ->
  (forall y l, sg_label g y = Some (GLit l) -> l <> 0%Z /\ Z.abs_nat l <= N) ->
  (forall f, 1 <= f <= N -> In (Z.of_nat f) v) -> complete C N = true.
Proof.
  intros HI Hv Hlit Hall. unfold complete.
  pose proof (iso_pass g root order C HI vars_node [] hvars vars_node_local vars_bridge) as Hp. fold (varss C) in Hp.
  assert (Hne : length C <> 0).
  { intros E. apply (iso_nonempty _ _ _ _ HI). now apply length_zero_iff_nil. }
  rewrite last_nth. unfold varss at 1 3. rewrite pass_length. fold (varss C).
  specialize (Hp (length C - 1) ltac:(lia)).
  assert (Er : nth (length C - 1) order 0 = root).
  { destruct (is_root _ _ _ _ HI) as [pre ->]. rewrite (is_len _ _ _ _ HI), app_length. cbn [length].
    rewrite app_nth2 by lia. replace (length pre + 1 - 1 - length pre) with 0 by lia. reflexivity. }
  rewrite Er in Hp. rewrite (GF_det hvars g root _ v Hp Hv).
  apply andb_true_iff. split; apply inclb_from; intros z Hz.
  - destruct Hv as [fu Hfu]. destruct (vars_from_lits g fu root v z Hfu Hz) as [y [l [Hl ->]]].
    destruct (Hlit y l Hl) as [Hnz Hle]. apply Semantics.zseq_In. lia.
  - apply Semantics.zseq_In in Hz. replace z with (Z.of_nat (Z.to_nat z)) by lia. apply Hall. lia.
Qed.
