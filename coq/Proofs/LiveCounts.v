(* The count under assumptions on the reachable part of the vector (Proofs/Live.v) and the core
   shortcuts of Model/Query.v: dropping core literals from a query (reduce_query) changes the
   count under the assumptions at no reachable node - it may change it inside dead branches,
   which the repaired core (F22) ignores. *)
From Coq Require Import List ZArith Bool Lia.
From DD Require Import Model.Circuit Model.Query Proofs.PassLemmas Proofs.Enum Proofs.Semantics
  Proofs.CountsA Proofs.Live.
Import ListNotations.
Open Scope Z_scope.

Section LiveCounts.
Variable C : circuit.
Hypothesis Hok : idx_ok C = true.

Lemma countsA_zero_of_count (A : cfg) (j : nat) :
  (j < length C)%nat -> nth j (counts C) 0 = 0 -> nth j (countsA A C) 0 = 0.
Proof. intros Hj Hz. pose proof (countsA_bounds A C Hok j Hj). lia. Qed.

Lemma count_of_countsA_nonzero (A : cfg) (j : nat) :
  (j < length C)%nat -> nth j (countsA A C) 0 <> 0 -> nth j (counts C) 0 <> 0.
Proof. intros Hj Hnz Hz. apply Hnz. now apply countsA_zero_of_count. Qed.

(* two assumption lists that zero the same LIVE leaves give the same count on every reachable node *)
Lemma countsA_reach_ext (A B : cfg) :
  (forall l, LiveLit C l -> memZ (- l) A = memZ (- l) B) ->
  forall j, (j < length C)%nat -> Reach C j ->
  nth j (countsA A C) 0 = nth j (countsA B C) 0.
Proof.
  intros HAB.
  apply (idx_induction C (fun j => Reach C j -> nth j (countsA A C) 0 = nth j (countsA B C) 0) Hok).
  intros j Hj IH HR.
  destruct (Z.eq_dec (nth j (counts C) 0) 0) as [Hz|Hnz].
  - now rewrite !countsA_zero_of_count.
  - rewrite !(countsA_unfold _ C j 0 Hok Hj).
    assert (Hch : forall c, In c (children (nth j C FalseN)) ->
                            nth c (countsA A C) 0 = nth c (countsA B C) 0).
    { intros c Hc. apply (IH c Hc). exact (reach_child C j c HR Hj Hnz Hc). }
    destruct (nth j C FalseN) as [l|cs|cs| |] eqn:E; cbn [countA_node children] in *.
    + rewrite (HAB l); [reflexivity|]. exists j. split; [exact Hj|]. split; [now split|exact E].
    + f_equal. apply map_ext_in. exact Hch.
    + f_equal. apply map_ext_in. exact Hch.
    + reflexivity.
    + reflexivity.
Qed.

End LiveCounts.

(* ---------- the core shortcuts ---------- *)
Section Core.
Variables (C : circuit) (n : nat).
Hypothesis Hok : idx_ok C = true.
Hypothesis Hne : C <> [].
Notation d := (build C n).

(* a live literal is not the complement of a core literal *)
Lemma live_not_opposed_by_core (l : Z) : LiveLit C l -> ~ In (- l) (calculate_core C n).
Proof.
  intros HL Hc. apply (live_lit_enum C Hok l Hne) in HL. destruct HL as [c [Hc1 Hc2]].
  apply (core_enum_spec C n (- l) Hok Hne Hc c Hc1). now rewrite Z.opp_involutive.
Qed.

Lemma reduce_memZ_live (A : cfg) (l : Z) :
  LiveLit C l -> memZ (- l) (reduce_query d A) = memZ (- l) A.
Proof.
  intros HL. apply eq_true_iff_eq. rewrite !memZ_In.
  unfold reduce_query. rewrite filter_In. split; [tauto|]. intros H. split; [exact H|].
  apply negb_true_iff. destruct (has_no_effect d (- l)) eqn:E; [|reflexivity]. exfalso.
  unfold has_no_effect in E. apply andb_true_iff in E. destruct E as [_ E].
  cbn [core build] in E. apply memZ_In in E. exact (live_not_opposed_by_core l HL E).
Qed.

Lemma reduce_countsA_reach (A : cfg) (j : nat) :
  (j < length C)%nat -> Reach C j ->
  nth j (countsA (reduce_query d A) C) 0 = nth j (countsA A C) 0.
Proof.
  intros Hj HR. apply (countsA_reach_ext C Hok); [|exact Hj|exact HR].
  intros l HL. now apply reduce_memZ_live.
Qed.

Lemma reduce_countsA_root (A : cfg) :
  nth (root C) (countsA (reduce_query d A) C) 0 = nth (root C) (countsA A C) 0.
Proof. apply reduce_countsA_reach; [now apply root_lt|apply reach_root]. Qed.

End Core.
