(* C13: number tokens and ranges of the stream line handler (Model/StreamMsg.v):
   zrange, the prefix lexer signed_number, parse_range on  a..b | a.. | a,  get_numbers on one range
   token, the bridge between the stdlib's decimal printing (zstr) and the model's dec_from, and
   words . join.  The model is not changed here. *)
From Coq Require Import List ZArith Bool String Ascii Lia Sorted.
From DD Require Import Model.Circuit Model.Query Model.Enumerate Model.StreamMsg Proofs.StreamMsgDefs.
From Coq Require Import DecimalString DecimalPos.
Import ListNotations. Open Scope Z_scope.

Definition is_num_text (s : string) : Prop :=
  exists ds, ds <> EmptyString /\ sall is_digit ds = true /\ (s = ds \/ s = String "-"%char ds).

(* ---------------------------------------------------------------- (1) zrange *)
Lemma zseq_In_l start len v : In v (zseq start len) <-> start <= v < start + Z.of_nat len.
Proof.
  revert start. induction len as [|len IH]; intros start; cbn [zseq In].
  - lia.
  - rewrite IH. lia.
Qed.

Lemma zseq_sorted start len : StronglySorted Z.lt (zseq start len).
Proof.
  revert start. induction len as [|len IH]; intros start; cbn [zseq]; constructor.
  - apply IH.
  - apply Forall_forall. intros v Hv. apply zseq_In_l in Hv. lia.
Qed.

Lemma zseq_len start len : length (zseq start len) = len.
Proof. revert start. induction len as [|len IH]; intros start; cbn [zseq length]; [reflexivity|]. now rewrite IH. Qed.

Theorem zrange_In : forall a b z, In z (zrange a b) <-> a <= z <= b.
Proof.
  intros a b z. unfold zrange. destruct (Z.ltb_spec b a) as [Hlt|Hge].
  - split; [intros []|lia].
  - rewrite zseq_In_l, Z2Nat.id by lia. lia.
Qed.

Theorem zrange_sorted : forall a b, StronglySorted Z.lt (zrange a b).
Proof.
  intros a b. unfold zrange. destruct (b <? a); [constructor|apply zseq_sorted].
Qed.

Theorem zrange_length : forall a b, a <= b -> Z.of_nat (length (zrange a b)) = b - a + 1.
Proof.
  intros a b Hab. unfold zrange. destruct (Z.ltb_spec b a) as [Hlt|Hge]; [lia|].
  rewrite zseq_len, Z2Nat.id by lia. reflexivity.
Qed.

Lemma zrange_empty a b : b < a -> zrange a b = [].
Proof. intros H. unfold zrange. destruct (Z.ltb_spec b a); [reflexivity|lia]. Qed.

(* ---------------------------------------------------------------- strings and characters *)
Lemma sapp_nil_r (s : string) : (s ++ "")%string = s.
Proof. induction s as [|c s IH]; cbn [append]; [reflexivity|now rewrite IH]. Qed.

Lemma sapp_assoc (a b c : string) : ((a ++ b) ++ c)%string = (a ++ (b ++ c))%string.
Proof. induction a as [|x a IH]; cbn [append]; [reflexivity|now rewrite IH]. Qed.

Lemma sany_app p (a b : string) : sany p (a ++ b)%string = sany p a || sany p b.
Proof. induction a as [|x a IH]; cbn [append sany]; [reflexivity|]. now rewrite IH, orb_assoc. Qed.

Ltac charb :=
  unfold is_digit, is_minus, is_alpha, is_dot, is_ws in *; cbv zeta in *;
  repeat rewrite ?andb_true_iff, ?orb_true_iff, ?andb_false_iff, ?orb_false_iff,
    ?Nat.leb_le, ?Nat.leb_gt, ?Nat.eqb_eq, ?Nat.eqb_neq in *; lia.

Lemma digit_not_minus c : is_digit c = true -> is_minus c = false.
Proof. intros H. charb. Qed.
Lemma digit_not_alpha c : is_digit c = true -> is_alpha c = false.
Proof. intros H. charb. Qed.

Lemma digits_no_alpha ds : sall is_digit ds = true -> sany is_alpha ds = false.
Proof.
  induction ds as [|c ds IH]; cbn [sall sany]; [reflexivity|].
  intros H. apply andb_true_iff in H. destruct H as [Hc Hd].
  now rewrite (digit_not_alpha _ Hc), (IH Hd).
Qed.

Lemma num_text_no_alpha s : is_num_text s -> sany is_alpha s = false.
Proof.
  intros [ds [Hne [Hd [Hs|Hs]]]]; subst s.
  - now apply digits_no_alpha.
  - cbn [sany]. rewrite (digits_no_alpha _ Hd). reflexivity.
Qed.

(* ---------------------------------------------------------------- (2) signed_number *)
Lemma take_digits_app ds rest :
  sall is_digit ds = true ->
  (match rest with EmptyString => True | String c _ => is_digit c = false end) ->
  take_digits (ds ++ rest)%string = (ds, rest).
Proof.
  intros Hd Hr. induction ds as [|c ds IH].
  - cbn [append]. destruct rest as [|c r]; cbn [take_digits]; [reflexivity|]. now rewrite Hr.
  - cbn [sall] in Hd. apply andb_true_iff in Hd. destruct Hd as [Hc Hd].
    cbn [append take_digits]. now rewrite Hc, (IH Hd).
Qed.

Theorem signed_number_app : forall s rest, is_num_text s ->
  (match rest with EmptyString => True | String c _ => is_digit c = false end) ->
  signed_number (s ++ rest)%string = LOk s rest.
Proof.
  intros s rest [ds [Hne [Hd Hs]]] Hr. destruct Hs as [Hs|Hs]; subst s.
  - destruct ds as [|c ds]; [congruence|].
    assert (Hc : is_digit c = true).
    { cbn [sall] in Hd. apply andb_true_iff in Hd. tauto. }
    pose proof (take_digits_app _ _ Hd Hr) as Ht.
    unfold signed_number. cbn [append] in *. rewrite (digit_not_minus _ Hc), Ht. reflexivity.
  - pose proof (take_digits_app _ _ Hd Hr) as Ht.
    unfold signed_number. cbn [append]. change (is_minus "-"%char) with true. cbv iota beta.
    rewrite Ht. destruct ds as [|c ds]; [congruence|]. reflexivity.
Qed.

Lemma signed_number_whole s : is_num_text s -> signed_number s = LOk s EmptyString.
Proof.
  intros H. pose proof (signed_number_app s EmptyString H I) as E.
  now rewrite sapp_nil_r in E.
Qed.

(* ---------------------------------------------------------------- (3) parse_range *)
Lemma strip_dotdot_lit r : strip_dotdot (".." ++ r)%string = Some r.
Proof. reflexivity. Qed.

Lemma signed_number_dots s r :
  is_num_text s -> signed_number (s ++ ".." ++ r)%string = LOk s (".." ++ r)%string.
Proof. intros H. apply signed_number_app; [exact H|reflexivity]. Qed.

Theorem range_closed : forall b sa sb x y, is_num_text sa -> is_num_text sb ->
  parse_i32 sa = Some x -> parse_i32 sb = Some y ->
  parse_range b (sa ++ ".." ++ sb)%string = inl (zrange x y).
Proof.
  intros b sa sb x y Ha Hb Hx Hy. unfold parse_range.
  rewrite (signed_number_dots sa sb Ha), strip_dotdot_lit, (signed_number_whole sb Hb), Hx, Hy.
  reflexivity.
Qed.

Theorem range_open : forall b sa x, is_num_text sa -> parse_i32 sa = Some x ->
  parse_range b (sa ++ "..")%string = inl (zrange x (as_i32 b)).
Proof.
  intros b sa x Ha Hx. unfold parse_range.
  change (sa ++ "..")%string with (sa ++ ".." ++ "")%string.
  rewrite (signed_number_dots sa EmptyString Ha), strip_dotdot_lit.
  change (signed_number "") with (LFail EmptyString). cbv iota beta.
  unfold alt_open. rewrite Hx. reflexivity.
Qed.

Theorem range_single : forall b sa x, is_num_text sa -> parse_i32 sa = Some x ->
  parse_range b sa = inl [x].
Proof.
  intros b sa x Ha Hx. unfold parse_range. rewrite (signed_number_whole sa Ha).
  change (strip_dotdot "") with (@None string). cbv iota beta.
  unfold alt_single. rewrite (signed_number_whole sa Ha), Hx. reflexivity.
Qed.

(* ---------------------------------------------------------------- (4) get_numbers on one range token *)
Lemma any_out_v1_false b l : (forall z, In z l -> Z.abs z <= b) -> any_out_v1 b l = false.
Proof.
  intros H. unfold any_out_v1. destruct (existsb (fun v => b <? Z.abs v) l) eqn:E; [|reflexivity].
  apply existsb_exists in E. destruct E as [z [Hin Hz]]. apply Z.ltb_lt in Hz.
  specialize (H z Hin). lia.
Qed.

Lemma gn_end dbg b numbers cnt :
  numbers <> [] -> any_out_v1 b numbers = false ->
  gn_loop V1 dbg b [] numbers cnt = ROk (numbers, cnt).
Proof.
  intros Hne Ho. cbn [gn_loop]. destruct numbers as [|z numbers]; [congruence|].
  unfold check_boundary. cbn [rbind]. rewrite Ho. reflexivity.
Qed.

Lemma range_within b x y : - b <= x -> y <= b ->
  any_out_v1 b (filter nonzero (zrange x y)) = false.
Proof.
  intros Hx Hy. apply any_out_v1_false. intros z Hz. apply filter_In in Hz.
  destruct Hz as [Hz _]. apply zrange_In in Hz. lia.
Qed.

Lemma range_tok_no_alpha sa r :
  is_num_text sa -> sany is_alpha r = false -> sany is_alpha (sa ++ ".." ++ r)%string = false.
Proof.
  intros Ha Hr. rewrite !sany_app, (num_text_no_alpha _ Ha), Hr. reflexivity.
Qed.

Theorem get_numbers_range : forall dbg b sa sb x y, tf_ok b -> is_num_text sa -> is_num_text sb ->
  parse_i32 sa = Some x -> parse_i32 sb = Some y ->
  - b <= x -> y <= b -> filter nonzero (zrange x y) <> [] ->
  get_numbers V1 dbg [(sa ++ ".." ++ sb)%string] b = ROk (filter nonzero (zrange x y), 1%nat).
Proof.
  intros dbg b sa sb x y Hb Ha Hsb Hx Hy Hlo Hhi Hne.
  unfold get_numbers. cbn [gn_loop].
  rewrite (range_tok_no_alpha sa sb Ha (num_text_no_alpha _ Hsb)), (range_closed b sa sb x y Ha Hsb Hx Hy).
  cbn [app]. apply gn_end; [exact Hne|]. now apply range_within.
Qed.

Lemma as_i32_tf b : tf_ok b -> as_i32 b = b.
Proof. intros [_ H]. unfold as_i32. destruct (Z.leb_spec b i32_max); [reflexivity|lia]. Qed.

Theorem get_numbers_range_open : forall dbg b sa x, tf_ok b -> is_num_text sa -> parse_i32 sa = Some x ->
  - b <= x -> filter nonzero (zrange x b) <> [] ->
  get_numbers V1 dbg [(sa ++ "..")%string] b = ROk (filter nonzero (zrange x b), 1%nat).
Proof.
  intros dbg b sa x Hb Ha Hx Hlo Hne.
  unfold get_numbers. cbn [gn_loop].
  rewrite (range_open b sa x Ha Hx), (as_i32_tf b Hb).
  change (sa ++ "..")%string with (sa ++ ".." ++ "")%string.
  rewrite (range_tok_no_alpha sa EmptyString Ha eq_refl).
  cbn [app]. apply gn_end; [exact Hne|]. apply range_within; lia.
Qed.

(* ---------------------------------------------------------------- (5) zstr: stdlib printing vs dec_from *)
Lemma uint_digits u : sall is_digit (NilEmpty.string_of_uint u) = true.
Proof. induction u; cbn [NilEmpty.string_of_uint sall]; [reflexivity|rewrite IHu; reflexivity ..]. Qed.

Lemma uint_nonempty u : u <> Decimal.Nil -> NilEmpty.string_of_uint u <> EmptyString.
Proof. destruct u; cbn [NilEmpty.string_of_uint]; congruence. Qed.

Lemma dec_from_uint_acc u : forall acc,
  dec_from (Z.pos acc) (NilEmpty.string_of_uint u) = Z.pos (Pos.of_uint_acc u acc).
Proof.
  induction u as [|u IH|u IH|u IH|u IH|u IH|u IH|u IH|u IH|u IH|u IH]; intros acc;
    cbn [NilEmpty.string_of_uint dec_from Pos.of_uint_acc]; [reflexivity|..];
    rewrite <- IH; f_equal.
  - change (digit_val "0"%char) with 0. lia.
  - change (digit_val "1"%char) with 1. lia.
  - change (digit_val "2"%char) with 2. lia.
  - change (digit_val "3"%char) with 3. lia.
  - change (digit_val "4"%char) with 4. lia.
  - change (digit_val "5"%char) with 5. lia.
  - change (digit_val "6"%char) with 6. lia.
  - change (digit_val "7"%char) with 7. lia.
  - change (digit_val "8"%char) with 8. lia.
  - change (digit_val "9"%char) with 9. lia.
Qed.

Lemma dec_from_of_uint u : dec_from 0 (NilEmpty.string_of_uint u) = Z.of_N (Pos.of_uint u).
Proof.
  induction u as [|u IH|u IH|u IH|u IH|u IH|u IH|u IH|u IH|u IH|u IH];
    cbn [NilEmpty.string_of_uint dec_from Pos.of_uint]; [reflexivity|exact IH|..];
    cbn [Z.of_N]; rewrite <- dec_from_uint_acc; reflexivity.
Qed.

Lemma dec_from_to_uint p : dec_from 0 (NilEmpty.string_of_uint (Pos.to_uint p)) = Z.pos p.
Proof. now rewrite dec_from_of_uint, DecimalPos.Unsigned.of_to. Qed.

Lemma num_val_digits ds : ds <> EmptyString -> sall is_digit ds = true -> num_val ds = dec_from 0 ds.
Proof.
  intros Hne Hd. destruct ds as [|c ds]; [congruence|].
  cbn [sall] in Hd. apply andb_true_iff in Hd. destruct Hd as [Hc _].
  unfold num_val. now rewrite (digit_not_minus _ Hc).
Qed.

Lemma num_val_neg ds : num_val (String "-"%char ds) = - dec_from 0 ds.
Proof. reflexivity. Qed.

Theorem zstr_num_text : forall x, is_num_text (zstr x).
Proof.
  intros [|p|p]; unfold zstr, Z.to_int, NilEmpty.string_of_int.
  - exists "0"%string. repeat split; [congruence|now left].
  - exists (NilEmpty.string_of_uint (Pos.to_uint p)). split; [|split].
    + apply uint_nonempty, DecimalPos.Unsigned.to_uint_nonnil.
    + apply uint_digits.
    + now left.
  - exists (NilEmpty.string_of_uint (Pos.to_uint p)). split; [|split].
    + apply uint_nonempty, DecimalPos.Unsigned.to_uint_nonnil.
    + apply uint_digits.
    + now right.
Qed.

Theorem zstr_value : forall x, num_val (zstr x) = x.
Proof.
  intros [|p|p]; unfold zstr, Z.to_int, NilEmpty.string_of_int.
  - reflexivity.
  - rewrite num_val_digits.
    + apply dec_from_to_uint.
    + apply uint_nonempty, DecimalPos.Unsigned.to_uint_nonnil.
    + apply uint_digits.
  - rewrite num_val_neg, dec_from_to_uint. reflexivity.
Qed.

Corollary zstr_parse_i32 : forall x, i32_min <= x <= i32_max -> parse_i32 (zstr x) = Some x.
Proof.
  intros x [Hlo Hhi]. unfold parse_i32. rewrite zstr_value.
  destruct (Z.leb_spec i32_min x); [|lia]. destruct (Z.leb_spec x i32_max); [|lia]. reflexivity.
Qed.

Corollary range_of_integers : forall bd a b, i32_min <= a <= i32_max -> i32_min <= b <= i32_max ->
  parse_range bd (zstr a ++ ".." ++ zstr b)%string = inl (zrange a b).
Proof.
  intros bd a b Ha Hb. apply range_closed; auto using zstr_num_text, zstr_parse_i32.
Qed.

(* ---------------------------------------------------------------- (6) words . join *)
Lemma split_ws_app_nows t : forall cur rest, sany is_ws t = false ->
  split_ws (t ++ rest)%string cur = split_ws rest (cur ++ t)%string.
Proof.
  induction t as [|c t IH]; intros cur rest H.
  - cbn [append]. now rewrite sapp_nil_r.
  - cbn [sany] in H. apply orb_false_iff in H. destruct H as [Hc Ht].
    cbn [append split_ws]. rewrite Hc, (IH _ _ Ht), sapp_assoc. reflexivity.
Qed.

Lemma sempty_false t : t <> EmptyString -> sempty t = false.
Proof. destruct t; [congruence|reflexivity]. Qed.

Theorem words_join : forall toks, Forall (fun t => t <> EmptyString /\ sany is_ws t = false) toks ->
  words (join " " toks) = toks.
Proof.
  intros toks H. induction H as [|t r [Hne Hws] Hr IH]; [reflexivity|].
  unfold words in *. destruct r as [|t2 r].
  - cbn [join]. rewrite <- (sapp_nil_r t) at 1. rewrite (split_ws_app_nows t _ _ Hws).
    cbn [append split_ws]. now rewrite (sempty_false _ Hne).
  - change (join " " (t :: t2 :: r)) with (t ++ " " ++ join " " (t2 :: r))%string.
    rewrite (split_ws_app_nows t _ _ Hws). cbn [append].
    change (" " ++ join " " (t2 :: r))%string with (String " "%char (join " " (t2 :: r))).
    cbn [split_ws]. change (is_ws " "%char) with true. cbv iota beta.
    rewrite (sempty_false _ Hne), IH. reflexivity.
Qed.

Print Assumptions range_of_integers.
Print Assumptions get_numbers_range.
Print Assumptions words_join.
