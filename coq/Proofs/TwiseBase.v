(* C09 pipeline: list-level facts used by the pipeline proofs - the interaction lists `tints`
   (= what TInteractionIter yields), set union, swap_remove, sub-list extension. *)
From Coq Require Import List ZArith Bool Arith Lia Permutation.
From DD Require Import Model.Circuit Model.Query Model.TIter Model.TwiseCfg
  Proofs.Semantics Proofs.TIterProof Proofs.C03Proof.
Import ListNotations.

(* ---------- tints is the output of the iterator model ---------- *)
Lemma tints_is_iterator dbg lits t fuel :
  (t <= length lits)%nat -> ~ In 0%Z lits -> (S (length (dec_tuples (length lits) t 0)) < fuel)%nat ->
  t_interactions dbg fuel lits t = (tints lits t, TDone).
Proof.
  intros Ht H0 Hf. destruct t as [|t].
  - unfold t_interactions.
    assert (E2 : existsb (Z.eqb 0) lits = false).
    { destruct (existsb (Z.eqb 0) lits) eqn:E; [|reflexivity]. apply existsb_exists in E.
      destruct E as [x [Hx Hz]]. apply Z.eqb_eq in Hz. subst. contradiction. }
    rewrite E2. cbn [Nat.ltb Nat.leb orb]. rewrite andb_false_r.
    rewrite titer_t0 by (cbn in Hf; lia). reflexivity.
  - rewrite tinter_correct; [reflexivity|lia|exact Ht|exact H0|lia].
Qed.

Lemma tints_in lits t o : In o (tints lits t) -> length o = t /\ incl o lits.
Proof.
  unfold tints. intros H. apply in_map_iff in H. destruct H as [x [<- Hx]].
  apply dec_tuples_in in Hx. destruct Hx as [Hl [_ Hf]]. split; [now rewrite map_length|].
  intros l Hl'. apply in_map_iff in Hl'. destruct Hl' as [i [<- Hi]].
  rewrite Forall_forall in Hf. apply nth_In. now apply Hf.
Qed.

Lemma tints_covers lits t I : NoDup I -> incl I lits -> length I = t ->
  exists o, In o (tints lits t) /\ Permutation o I.
Proof.
  intros Hnd Hincl Hlen.
  destruct (subset_indices lits I Hnd Hincl) as [J [HJ1 [HJ2 HJ3]]].
  exists (map (lit_at lits) (rev J)). split.
  - unfold tints. apply in_map. apply dec_tuples_in. repeat split.
    + rewrite rev_length. apply Permutation_length in HJ3. rewrite map_length in HJ3. lia.
    + now rewrite rev_involutive.
    + now apply Forall_rev.
  - rewrite map_rev. etransitivity; [symmetry; apply Permutation_rev|exact HJ3].
Qed.

(* ---------- small list facts ---------- *)
Lemma NoDup_map_on {A B} (f : A -> B) (l : list A) :
  NoDup l -> (forall x y, In x l -> In y l -> f x = f y -> x = y) -> NoDup (map f l).
Proof.
  induction l as [|a l IH]; intros Hnd Hinj; cbn; [constructor|].
  inversion Hnd; subst. constructor.
  - intros Hin. apply in_map_iff in Hin. destruct Hin as [y [Hy Hyl]].
    assert (y = a) by (apply Hinj; [now right|now left|exact Hy]). subst. contradiction.
  - apply IH; [assumption|]. intros x y Hx Hy. apply Hinj; now right.
Qed.

Lemma NoDup_map_sub {A B} (f : A -> B) (l J : list A) :
  NoDup (map f l) -> NoDup J -> incl J l -> NoDup (map f J).
Proof.
  intros Hl HJ Hinc. apply NoDup_map_on; [exact HJ|].
  intros x y Hx Hy E. apply (NoDup_map_inj_in f l x y Hl); auto.
Qed.

Lemma NoDup_same_length {A} (l1 l2 : list A) :
  NoDup l1 -> NoDup l2 -> (forall x, In x l1 <-> In x l2) -> length l1 = length l2.
Proof.
  intros H1 H2 H. apply Nat.le_antisymm; apply NoDup_incl_length; try assumption; intros x Hx; now apply H.
Qed.

Lemma NoDup_filter {A} (p : A -> bool) (l : list A) : NoDup l -> NoDup (filter p l).
Proof.
  induction l as [|a l IH]; intros H; cbn; [constructor|]. inversion H; subst.
  destruct (p a); [constructor|]; auto. intros Hin. apply filter_In in Hin. tauto.
Qed.

Lemma NoDup_map_filter {A B} (f : A -> B) (p : A -> bool) (l : list A) :
  NoDup (map f l) -> NoDup (map f (filter p l)).
Proof.
  induction l as [|a l IH]; intros H; cbn; [constructor|]. cbn in H. inversion H; subst.
  destruct (p a); cbn; [constructor|]; auto.
  intros Hin. apply in_map_iff in Hin. destruct Hin as [y [Hy Hyl]]. apply filter_In in Hyl.
  apply H2. apply in_map_iff. exists y. tauto.
Qed.

(* a duplicate-free sub-collection can be enlarged inside a duplicate-free list *)
Lemma extend_sub (I E : list Z) (k : nat) :
  NoDup I -> NoDup E -> incl I E -> (length I <= k <= length E)%nat ->
  exists J, NoDup J /\ incl I J /\ incl J E /\ length J = k.
Proof.
  remember (k - length I)%nat as g eqn:Hg. revert I Hg.
  induction g as [|g IH]; intros I Hg HI HE Hinc Hk.
  - exists I. repeat split; try assumption; [apply incl_refl|lia].
  - assert (Hex : exists x, In x E /\ ~ In x I).
    { destruct (forallb (fun x => memZ x I) E) eqn:Eall.
      - exfalso. rewrite forallb_forall in Eall.
        assert (incl E I) by (intros x Hx; apply memZ_In; now apply Eall).
        pose proof (NoDup_incl_length HE H). lia.
      - apply forallb_false_exists in Eall. destruct Eall as [x [Hx Hm]].
        exists x. split; [exact Hx|]. now apply memZ_false. }
    destruct Hex as [x [HxE HxI]].
    destruct (IH (x :: I)) as [J [HJ1 [HJ2 [HJ3 HJ4]]]].
    + cbn. lia.
    + now constructor.
    + exact HE.
    + intros y [<-|Hy]; [exact HxE|now apply Hinc].
    + cbn. lia.
    + exists J. repeat split; try assumption. intros y Hy. apply HJ2. now right.
Qed.

(* ---------- zunion ---------- *)
Lemma zunion_In a b x : In x (zunion a b) <-> In x a \/ In x b.
Proof.
  unfold zunion. rewrite in_app_iff, filter_In. split.
  - intros [H|[H _]]; auto.
  - intros [H|H]; [now left|]. destruct (memZ x a) eqn:E; [left; now apply memZ_In|right; now split].
Qed.

Lemma zunion_NoDup a b : NoDup a -> NoDup b -> NoDup (zunion a b).
Proof.
  intros Ha Hb. unfold zunion. apply NoDup_app_intro; [exact Ha|now apply NoDup_filter|].
  intros x Hx Hf. apply filter_In in Hf. destruct Hf as [_ Hf]. apply negb_true_iff, memZ_false in Hf. contradiction.
Qed.

Lemma zunion_nil_l b : zunion [] b = b.
Proof. unfold zunion. cbn. induction b as [|x b IH]; cbn; [reflexivity|now rewrite IH]. Qed.

Lemma zunion_disjoint_length a b : (forall x, In x a -> ~ In x b) ->
  length (zunion a b) = (length a + length b)%nat.
Proof.
  intros H. unfold zunion. rewrite app_length. f_equal.
  assert (E : filter (fun x => negb (memZ x a)) b = b); [|now rewrite E].
  clear - H. induction b as [|x b IH]; [reflexivity|]. cbn.
  assert (Hx : memZ x a = false) by (apply memZ_false; intros Ha; exact (H x Ha (or_introl eq_refl))).
  rewrite Hx. cbn. f_equal. apply IH. intros y Hy Hb. exact (H y Hy (or_intror Hb)).
Qed.

(* ---------- swap_remove, upd ---------- *)
Lemma upd_In {A} (i : nat) (x : A) (l : list A) y : In y (upd i x l) -> y = x \/ In y l.
Proof.
  revert i. induction l as [|a l IH]; intros i H; destruct i; cbn in H; try contradiction.
  - destruct H as [<-|H]; [now left|right; now right].
  - destruct H as [<-|H]; [right; now left|]. destruct (IH _ H); [now left|right; now right].
Qed.

Lemma removelast_In {A} (l : list A) y : In y (removelast l) -> In y l.
Proof.
  induction l as [|a l IH]; cbn; [auto|]. destruct l as [|b l]; [intros []|].
  intros [<-|H]; [now left|right; now apply IH].
Qed.

Lemma swap_remove_In {A} (i : nat) (l : list A) y : In y (swap_remove i l) -> In y l.
Proof.
  unfold swap_remove. cbv zeta. destruct (rev l) as [|x r] eqn:E; [auto|].
  assert (Hx : In x l) by (apply in_rev; rewrite E; now left).
  destruct (i =? length (removelast l))%nat.
  - apply removelast_In.
  - intros H. apply upd_In in H. destruct H as [->|H]; [exact Hx|now apply removelast_In].
Qed.

Lemma removelast_length {A} (l : list A) : length (removelast l) = (length l - 1)%nat.
Proof.
  induction l as [|a l IH]; [reflexivity|]. destruct l as [|b l]; [reflexivity|].
  change (removelast (a :: b :: l)) with (a :: removelast (b :: l)). cbn [length] in *. rewrite IH. lia.
Qed.

Lemma swap_remove_length {A} (i : nat) (l : list A) : l <> [] -> length (swap_remove i l) = (length l - 1)%nat.
Proof.
  intros Hne. unfold swap_remove. cbv zeta. destruct (rev l) as [|x r] eqn:E.
  - apply (f_equal (@rev A)) in E. rewrite rev_involutive in E. cbn in E. contradiction.
  - destruct (i =? length (removelast l))%nat; [|rewrite upd_length]; apply removelast_length.
Qed.

Lemma nth_error_upd_neq {A} (i j : nat) (x : A) (l : list A) : i <> j ->
  nth_error (upd i x l) j = nth_error l j.
Proof.
  revert i j. induction l as [|a l IH]; intros i j H; destruct i, j; cbn; try reflexivity; try congruence.
  apply IH. congruence.
Qed.

Lemma nth_error_upd_eq {A} (i : nat) (x : A) (l : list A) : (i < length l)%nat ->
  nth_error (upd i x l) i = Some x.
Proof.
  revert i. induction l as [|a l IH]; intros i H; [cbn in H; lia|]. destruct i; cbn; [reflexivity|].
  apply IH. cbn in H. lia.
Qed.

(* every element other than the removed one survives *)
Lemma swap_remove_keeps {A} (i : nat) (l : list A) (x y : A) :
  nth_error l i = Some x -> In y l -> y = x \/ In y (swap_remove i l).
Proof.
  intros Hi Hy. unfold swap_remove. cbv zeta.
  destruct (rev l) as [|z r] eqn:E.
  { apply (f_equal (@rev A)) in E. rewrite rev_involutive in E. cbn in E. subst. destruct Hy. }
  assert (Hl : l = rev r ++ [z]) by (rewrite <- (rev_involutive l), E; reflexivity).
  assert (Hrl : removelast l = rev r) by (rewrite Hl; apply removelast_last).
  rewrite Hrl. rewrite Hl in Hy, Hi. apply in_app_iff in Hy.
  destruct (Nat.eqb_spec i (length (rev r))) as [->|Hne].
  - rewrite nth_error_app2 in Hi by lia. rewrite Nat.sub_diag in Hi. cbn in Hi. injection Hi as <-.
    destruct Hy as [Hy|Hy]; [right; exact Hy|left; destruct Hy as [Hy|[]]; now subst].
  - assert (Hlt : (i < length (rev r))%nat).
    { assert (i < length (rev r ++ [z]))%nat by (apply nth_error_Some; congruence).
      rewrite app_length in H. cbn in H. lia. }
    rewrite nth_error_app1 in Hi by exact Hlt.
    destruct Hy as [Hy|[Hy|[]]]; [|subst y].
    + destruct (In_nth_error _ _ Hy) as [j Hj].
      destruct (Nat.eq_dec j i) as [->|Hji]; [left; congruence|].
      right. apply nth_error_In with (n := j).
      rewrite nth_error_upd_neq by congruence. exact Hj.
    + right. clear - Hlt. revert i Hlt. induction (rev r) as [|a l IH]; intros i Hlt; [cbn in Hlt; lia|].
      destruct i; cbn; [now left|right; apply IH; cbn in Hlt; lia].
Qed.
