(* Third traversal of build_d4_ddnnf (smoothing): nodes are only added, every node of the
   graph before the pass keeps its label and its value under every total assignment (`grow`):
   And(c, f1 or not f1, .., fk or not fk) = c. *)
From Coq Require Import List ZArith Bool Lia Arith.
From DD Require Import Model.Circuit Model.Query Model.LoadC2d Model.LoadD4 Proofs.LoadD4Graph
  Proofs.LoadD4Ops Proofs.LoadD4Pass2 Proofs.LoadD4Struct.
Import ListNotations.
Local Open Scope nat_scope.

Record grow (g g' : sgraph) : Prop := {
  gr_label : forall x, sg_alive g x = true -> sg_label g' x = sg_label g x;
  gr_val : forall a x b, GV g a x b -> GV g' a x b
}.

Lemma grow_refl g : grow g g.
Proof. constructor; auto. Qed.

Lemma grow_alive g g' x : grow g g' -> sg_alive g x = true -> sg_alive g' x = true.
Proof. intros H Ha. unfold sg_alive in *. now rewrite (gr_label _ _ H x Ha). Qed.

Lemma grow_trans g1 g2 g3 : grow g1 g2 -> grow g2 g3 -> grow g1 g3.
Proof.
  intros H12 H23. constructor.
  - intros x Ha. rewrite (gr_label _ _ H23 x (grow_alive _ _ _ H12 Ha)). now apply (gr_label _ _ H12).
  - intros a x b Hv. apply (gr_val _ _ H23), (gr_val _ _ H12), Hv.
Qed.

Lemma Forall2_kept (g g' : sgraph) a (keep : nat -> Prop) l bs :
  (forall c b, GV g a c b -> keep c) ->
  Forall2 (fun c b => GV g a c b /\ (keep c -> GV g' a c b)) l bs -> Forall2 (GV g' a) l bs.
Proof. intros Hk H. eapply Forall2_impl; [|exact H]. intros c b [H1 H2]. apply H2. now apply (Hk c b). Qed.

(* nothing old changed: values carry over *)
Lemma ext_nil_grow g g' : ext g g' [] -> grow g g'.
Proof.
  intros He. constructor; [apply (ex_label _ _ _ He)|].
  intros a x b Hv. apply (gv_transfer g g' a (fun y => sg_alive g y = true)).
  - intros y Hy. left. now apply (ex_label _ _ _ He).
  - intros y bs Hy _ _ H. rewrite (ex_out _ _ _ He y Hy) by (intros []). exists bs.
    split; [|split; reflexivity]. apply (Forall2_kept g g' a _ _ _ (fun c b Hc => GV_alive _ _ _ _ Hc) H).
  - now apply (GV_alive g a x b).
  - exact Hv.
Qed.

(* ---------- the table of get_literal_diffs ---------- *)
Lemma lookup_set_cons m k v k' :
  lookup_set ((k, v) :: m) k' = if Nat.eqb k k' then Some v else lookup_set m k'.
Proof. reflexivity. Qed.

Lemma union_nat_in a : forall b f, In f (union_nat a b) -> In f a \/ In f b.
Proof.
  induction a as [|x r IH]; intros b f H; cbn [union_nat] in H; [now right|].
  destruct (mem x b).
  - destruct (IH b f H) as [H1|H1]; [left; now right|now right].
  - destruct (IH (x :: b) f H) as [H1|[<-|H1]]; [left; now right|left; now left|now right].
Qed.

Lemma union_children_in m : forall cs acc v f, union_children m cs acc = Some v -> In f v ->
  In f acc \/ exists c w, lookup_set m c = Some w /\ In f w.
Proof.
  induction cs as [|c r IH]; intros acc v f H Hf; cbn [union_children] in H.
  - injection H as <-. now left.
  - destruct (lookup_set m c) as [w|] eqn:E; [|discriminate].
    destruct (IH _ _ _ H Hf) as [H1|H1]; [|now right].
    destruct (union_nat_in _ _ _ H1) as [H2|H2]; [right; now exists c, w|now left].
Qed.

Record diffs_ok (F : nat -> Prop) (g : sgraph) (m : list (nat * list nat)) : Prop := {
  do_alive : forall k v, lookup_set m k = Some v -> sg_alive g k = true;
  do_lit : forall k v l, lookup_set m k = Some v -> sg_label g k = Some (GLit l) -> v = [Z.abs_nat l];
  do_pos : forall k v f, lookup_set m k = Some v -> In f v -> F f
}.

Lemma lit_diffs_body_ok (F : nat -> Prop) g m nx m' :
  (forall z l, sg_label g z = Some (GLit l) -> F (Z.abs_nat l)) ->
  diffs_ok F g m -> lit_diffs_body g m nx = Some m' -> diffs_ok F g m'.
Proof.
  intros Hpos [H1 H2 H3] H. unfold lit_diffs_body in H.
  destruct (sg_label g nx) as [t|] eqn:Hl; [|discriminate].
  assert (Ha : sg_alive g nx = true) by (unfold sg_alive; now rewrite Hl).
  assert (Hgen : forall v, (forall f, In f v -> F f) -> (forall l, t = GLit l -> v = [Z.abs_nat l]) ->
                 diffs_ok F g ((nx, v) :: m)).
  { intros v Hv Hlit. constructor.
    - intros k w. rewrite lookup_set_cons. destruct (Nat.eqb_spec nx k) as [<-|Hne]; [intros _; exact Ha|apply H1].
    - intros k w l. rewrite lookup_set_cons. destruct (Nat.eqb_spec nx k) as [<-|Hne]; [|apply H2].
      intros E Hk. injection E as <-. apply Hlit. congruence.
    - intros k w f. rewrite lookup_set_cons. destruct (Nat.eqb_spec nx k) as [<-|Hne]; [|apply H3].
      intros E Hf. injection E as <-. now apply Hv. }
  destruct t as [l| | | |].
  - injection H as <-. apply Hgen.
    + intros f [<-|[]]. exact (Hpos nx l Hl).
    + intros l' E. now injection E as <-.
  - destruct (union_children m (sg_out g nx) []) as [v|] eqn:E; [|discriminate]. injection H as <-.
    apply Hgen; [|discriminate]. intros f Hf.
    destruct (union_children_in m _ _ _ f E Hf) as [[]|[c [w [Hc Hw]]]]. now apply (H3 c w).
  - destruct (union_children m (sg_out g nx) []) as [v|] eqn:E; [|discriminate]. injection H as <-.
    apply Hgen; [|discriminate]. intros f Hf.
    destruct (union_children_in m _ _ _ f E Hf) as [[]|[c [w [Hc Hw]]]]. now apply (H3 c w).
  - injection H as <-. apply Hgen; [intros f []|discriminate].
  - injection H as <-. apply Hgen; [intros f []|discriminate].
Qed.

Lemma get_literal_diffs_ok (F : nat -> Prop) g root m :
  (forall z l, sg_label g z = Some (GLit l) -> F (Z.abs_nat l)) ->
  get_literal_diffs g root = Some m -> diffs_ok F g m.
Proof.
  intros Hpos H. unfold get_literal_diffs in H.
  apply (dfs_fold_invariant _ _ (diffs_ok F g)) in H; [exact H| |].
  - intros m1 x m2 Hm Hb. now apply (lit_diffs_body_ok F g m1 x m2).
  - constructor; intros; discriminate.
Qed.

(* ---------- balancing nodes ---------- *)
(* `an` = And(child, triangles..), none of the triangles being the node nx under repair *)
Definition bal_node (g : sgraph) (nx an c : nat) : Prop :=
  an <> nx /\ sg_label g an = Some GAnd /\
  exists tris, sg_out g an = tris ++ [c] /\
               Forall (fun o => o <> nx /\ exists f, tri_node g f o) tris.

Lemma bal_node_ext g g' nx an c : ext g g' [nx] -> bal_node g nx an c -> bal_node g' nx an c.
Proof.
  intros He [Hne [Hl [tris [Ho Ht]]]]. split; [exact Hne|]. split; [exact (ext_label_some _ _ _ _ _ He Hl)|].
  exists tris. split.
  - rewrite (ex_out _ _ _ He an); [exact Ho|unfold sg_alive; now rewrite Hl|]. intros [E|[]]. now apply Hne.
  - eapply Forall_impl; [|exact Ht]. intros o [Hon [f Hf]]. split; [exact Hon|]. exists f.
    apply (tri_node_ext _ _ [nx] f o He); [|exact Hf]. intros [E|[]]. now apply Hon.
Qed.

Lemma forallb_true_app bs b : Forall (fun x => x = true) bs -> forallb id (bs ++ [b]) = b.
Proof.
  induction 1 as [|x bs -> _ IH]; cbn [app forallb id]; [now rewrite andb_true_r|exact IH].
Qed.

Lemma bal_node_val g nx an c a b : bal_node g nx an c -> GV g a c b -> GV g a an b.
Proof.
  intros [_ [Hl [tris [Ho Ht]]]] Hc.
  rewrite <- (forallb_true_app (map (fun _ => true) tris) b).
  - apply GV_and; [exact Hl|]. rewrite Ho. apply Forall2_app; [|repeat constructor; exact Hc].
    clear Ho. induction Ht as [|o tris [_ [f Hf]] _ IH]; cbn [map]; constructor; [|exact IH].
    now apply (tri_node_true g f o a).
  - clear. induction tris; cbn [map]; constructor; auto.
Qed.

Inductive subst_rel (g : sgraph) (nx : nat) : list nat -> list nat -> Prop :=
| sr_refl l : subst_rel g nx l l
| sr_step l l' an c : subst_rel g nx l l' -> In c l' -> bal_node g nx an c ->
    subst_rel g nx l (an :: remove1 c l').

Lemma subst_rel_ext g g' nx l l' : ext g g' [nx] -> subst_rel g nx l l' -> subst_rel g' nx l l'.
Proof.
  intros He. induction 1 as [|l l' an c _ IH Hc Hb]; [constructor|].
  constructor; [exact IH|exact Hc|]. now apply (bal_node_ext g g').
Qed.

Lemma Forall2_remove1_val (R : nat -> bool -> Prop) c bc l bs :
  (forall b, R c b -> b = bc) -> Forall2 R l bs -> In c l ->
  exists bs', Forall2 R (remove1 c l) bs' /\ existsb id (bc :: bs') = existsb id bs /\
              forallb id (bc :: bs') = forallb id bs.
Proof.
  intros Hc. induction 1 as [|y b l bs Hyb Hr IH]; intros Hin; [destruct Hin|].
  cbn [remove1]. destruct (Nat.eqb_spec y c) as [->|Hy].
  - exists bs. split; [exact Hr|]. rewrite (Hc b Hyb). split; reflexivity.
  - destruct Hin as [E|Hin]; [congruence|]. destruct (IH Hin) as [bs' [H1 [H2 H3]]].
    exists (b :: bs'). split; [now constructor|]. cbn [existsb forallb] in *.
    split.
    + rewrite <- H2. destruct (id bc), (id b); reflexivity.
    + rewrite <- H3. destruct (id bc), (id b); reflexivity.
Qed.

Lemma subst_rel_vals g nx a l l' bs : subst_rel g nx l l' -> Forall2 (GV g a) l bs ->
  exists bs', Forall2 (GV g a) l' bs' /\ existsb id bs' = existsb id bs.
Proof.
  induction 1 as [|l l' an c _ IH Hc Hb]; intros H; [now exists bs|].
  destruct (IH H) as [bs1 [H1 H2]].
  destruct (Forall2_In_l_ex _ _ _ _ H1 Hc) as [bc [_ Hbc]].
  destruct (Forall2_remove1_val (GV g a) c bc l' bs1) as [bs2 [H3 [H4 _]]];
    [intros b Hb'; exact (GV_det _ _ _ _ _ Hb' Hbc)|exact H1|exact Hc|].
  exists (bc :: bs2). split; [|now rewrite H4].
  constructor; [|exact H3]. now apply (bal_node_val g nx an c).
Qed.

(* the step at an or node nx: only nx's child list changed, by balancing substitutions *)
Lemma balance_grow g g' nx : sg_label g nx = Some GOr -> ext g g' [nx] ->
  subst_rel g' nx (sg_out g nx) (sg_out g' nx) -> grow g g'.
Proof.
  intros Hl He Hs. constructor; [apply (ex_label _ _ _ He)|].
  intros a x b Hv. apply (gv_transfer g g' a (fun y => sg_alive g y = true)).
  - intros y Hy. left. now apply (ex_label _ _ _ He).
  - intros y bs Hy _ Hly H.
    pose proof (Forall2_kept g g' a _ _ _ (fun c b Hc => GV_alive _ _ _ _ Hc) H) as H'.
    destruct (Nat.eq_dec y nx) as [->|Hne].
    + destruct (subst_rel_vals g' nx a _ _ bs Hs H') as [bs' [H1 H2]].
      exists bs'. split; [exact H1|]. split; [congruence|intros _; exact H2].
    + rewrite (ex_out _ _ _ He y Hy) by (intros [E|[]]; congruence). exists bs.
      split; [exact H'|split; reflexivity].
  - now apply (GV_alive g a x b).
  - exact Hv.
Qed.

Lemma subst_rel_trans g nx l1 l2 l3 : subst_rel g nx l1 l2 -> subst_rel g nx l2 l3 -> subst_rel g nx l1 l3.
Proof.
  intros H12. induction 1 as [|l l' an c _ IH Hc Hb]; [exact H12|].
  constructor; [now apply IH|exact Hc|exact Hb].
Qed.

Lemma remove1_In c l x : In x (remove1 c l) -> In x l.
Proof.
  induction l as [|y l IH]; [intros []|]. cbn [remove1]. destruct (Nat.eqb y c); [now right|].
  intros [<-|H]; [now left|right; now apply IH].
Qed.

(* ---------- diff ---------- *)
Lemma sort_nat_In l y : In y (sort_nat l) -> In y l.
Proof.
  induction l as [|a l IH]; [intros []|]. cbn [sort_nat fold_right]. fold (sort_nat l). intros H.
  assert (Hins : forall x l' y', In y' (insert_nat x l') -> y' = x \/ In y' l').
  { clear. intros x l'. induction l' as [|b l' IH]; cbn [insert_nat]; intros y' H.
    - destruct H as [<-|[]]. now left.
    - destruct (Nat.leb x b).
      + destruct H as [<-|H]; [now left|now right].
      + destruct H as [<-|H]; [right; now left|]. destruct (IH _ H) as [->|H']; [now left|right; now right]. }
  destruct (Hins _ _ _ H) as [->|H']; [now left|right; now apply IH].
Qed.

Lemma dedup_sorted_In' x l : In x (dedup_sorted l) -> In x l.
Proof.
  induction l as [|a l IH]; [intros []|].
  cbn [dedup_sorted]. destruct l as [|b l]; [tauto|].
  destruct (Nat.eqb a b).
  - intros H. right. now apply IH.
  - intros [<-|H]; [now left|right; now apply IH].
Qed.

Lemma canon_set_In x l : In x (canon_set l) -> In x l.
Proof. unfold canon_set. intros H. now apply sort_nat_In, dedup_sorted_In'. Qed.

Lemma diff_go_In post : forall pre c ms f, In (c, ms) (diff_go pre post) -> In f ms ->
  In c (map fst post) /\ exists cv, In cv (pre ++ post) /\ In f (snd cv).
Proof.
  induction post as [|[c0 s0] r IH]; intros pre c ms f H Hf; cbn [diff_go] in H; [destruct H|].
  assert (Hrec : In (c, ms) (diff_go (pre ++ [(c0, s0)]) r) ->
                 In c (map fst ((c0, s0) :: r)) /\ exists cv, In cv (pre ++ (c0, s0) :: r) /\ In f (snd cv)).
  { intros H'. destruct (IH _ _ _ _ H' Hf) as [H1 [cv [H2 H3]]]. split; [now right|].
    exists cv. split; [|exact H3]. rewrite <- app_assoc in H2. exact H2. }
  destruct (canon_set _) as [|m0 ms0] eqn:E; [now apply Hrec|].
  destruct H as [H|H]; [|now apply Hrec].
  injection H as <- <-. split; [now left|]. rewrite <- E in Hf.
  apply canon_set_In, filter_In in Hf. destruct Hf as [Hf _].
  apply in_concat in Hf. destruct Hf as [v [Hv Hfv]]. apply in_map_iff in Hv.
  destruct Hv as [cv [<- Hcv]]. exists cv. split; [|exact Hfv].
  apply in_app_or in Hcv. apply in_or_app. destruct Hcv as [Hcv|Hcv]; [now left|right; now right].
Qed.

Lemma diff_go_fst post : forall pre c ms, In (c, ms) (diff_go pre post) -> In c (map fst post).
Proof.
  induction post as [|[c0 s0] r IH]; intros pre c ms H; cbn [diff_go] in H; [destruct H|].
  destruct (canon_set _) as [|m0 ms0].
  - right. exact (IH _ _ _ H).
  - destruct H as [H|H]; [injection H as <- _; now left|right; exact (IH _ _ _ H)].
Qed.

Lemma children_diff_spec m : forall cs cd, children_diff m cs = Some cd ->
  map fst cd = cs /\ Forall (fun cv => lookup_set m (fst cv) = Some (snd cv)) cd.
Proof.
  induction cs as [|c r IH]; intros cd H; cbn [children_diff] in H.
  - injection H as <-. split; [reflexivity|constructor].
  - destruct (lookup_set m c) as [v|] eqn:E; [|discriminate].
    destruct (children_diff m r) as [vs|]; [|discriminate]. injection H as <-.
    destruct (IH vs eq_refl) as [H1 H2]. split; [cbn [map fst]; now rewrite H1|].
    constructor; [exact E|exact H2].
Qed.

Lemma diff_go_tri f n p : diff_go [] [(n, [f]); (p, [f])] = [].
Proof.
  cbn [diff_go app map snd concat].
  assert (E : canon_set (filter (fun f0 : nat => negb (mem f0 [f])) [f]) = []).
  { cbn [filter mem existsb]. rewrite Nat.eqb_refl. reflexivity. }
  now rewrite E.
Qed.

(* ---------- balance_or_children ---------- *)
Section Balance.
Variables (rc : bool) (ord : list nat -> list nat).
Hypothesis Hord : forall l f, In f (ord l) -> In f l.
Context {P : Z -> Prop} {st : bool}.
Hypothesis Pnz : forall l, P l -> l <> 0%Z.
Hypothesis Psym : forall l, P l -> P (- l)%Z.

(* what is known about a feature |l| of a literal leaf *)
Definition FOK (f : nat) : Prop := 1 <= f /\ @PF P f.

Lemma P_abs l : P l -> FOK (Z.abs_nat l).
Proof.
  intros H. pose proof (Pnz l H). split; [lia|]. unfold PF. rewrite Zabs2Nat.id_abs.
  destruct (Z.abs_spec l) as [[_ ->]|[_ ->]]; [split; [exact H|now apply Psym]|].
  split; [now apply Psym|]. now rewrite Z.opp_involutive.
Qed.

Definition not_in_table (s : lstate) (nx : nat) : Prop :=
  forall f o, lookup_nat (ls_tri s) f = Some o -> o <> nx.

Definition removes (cs l : list nat) : list nat := fold_left (fun l c => remove1 c l) cs l.

(* a balancing node: And(child, one triangle of the table per missing feature) *)
Definition balS (s : lstate) (an c : nat) (ms : list nat) : Prop :=
  sg_label (ls_g s) an = Some GAnd /\
  exists tris, sg_out (ls_g s) an = tris ++ [c] /\
    Forall2 (fun f o => lookup_nat (ls_tri s) f = Some o) (rev (ord ms)) tris.

(* what balance_or_children did, exactly *)
Definition bstruct (s s' : lstate) (nx : nat) (children : list (nat * list nat)) : Prop :=
  exists ans, lprov s s' ans /\ tri_grow s s' /\
    Forall2 (fun an cm => sg_alive (ls_g s) an = false /\ balS s' an (fst cm) (snd cm)) ans children /\
    sg_out (ls_g s') nx = rev ans ++ removes (map fst children) (sg_out (ls_g s) nx).

Lemma add_literal_nodes_S at_ : forall fs s s', add_literal_nodes rc fs at_ s = Some s' ->
  lprov s s' [] /\ tri_grow s s'.
Proof.
  induction fs as [|f r IH]; intros s s' H; cbn [add_literal_nodes] in H.
  - injection H as <-. split; [apply lprov_refl|apply tri_grow_refl].
  - destruct (add_literal_node rc f at_ s) as [s1|] eqn:E1; [|discriminate].
    destruct (add_literal_node_S rc _ _ _ _ E1) as [P1 G1]. destruct (IH _ _ H) as [P2 G2].
    split; [exact (lprov_trans _ _ _ [] [] P1 P2 G2)|exact (tri_grow_trans _ _ _ G1 G2)].
Qed.

Lemma removes_cons_notin cs : forall a l, ~ In a cs -> removes cs (a :: l) = a :: removes cs l.
Proof.
  induction cs as [|c cs IH]; intros a l Hn; [reflexivity|]. cbn [removes fold_left remove1].
  destruct (Nat.eqb_spec a c) as [->|Hne]; [exfalso; apply Hn; now left|].
  apply (IH a (remove1 c l)). intros Hin. apply Hn. now right.
Qed.

Lemma balance_spec nx : forall children s s',
  tables_ok P st s -> sg_label (ls_g s) nx = Some GOr -> not_in_table s nx ->
  (forall c ms f, In (c, ms) children -> In f ms -> FOK f) ->
  (forall c ms, In (c, ms) children -> sg_alive (ls_g s) c = true) ->
  balance_or_children rc ord nx children s = Some s' ->
  tables_ok P st s' /\ ext (ls_g s) (ls_g s') [nx] /\
  subst_rel (ls_g s') nx (sg_out (ls_g s) nx) (sg_out (ls_g s') nx) /\
  bstruct s s' nx children.
Proof.
  induction children as [|[child missing] r IH]; intros s s' Hok Hnx Hnt Hpos Hcal H; cbn [balance_or_children] in H.
  - injection H as <-. split; [exact Hok|]. split; [apply ext_refl|]. split; [constructor|].
    exists []. split; [apply lprov_refl|]. split; [apply tri_grow_refl|]. split; [constructor|reflexivity].
  - destruct (add_node rc GAnd (ls_g s)) as [an g1] eqn:Ha.
    destruct (negb (mem child (sg_out g1 nx))) eqn:Hmem; [discriminate|].
    set (s1 := with_g s (remove_edge nx child g1)) in H.
    destruct (ls_add_edge nx an s1) as [s2|] eqn:E2; [|discriminate].
    destruct (ls_add_edge an child s2) as [s3|] eqn:E3; [|discriminate].
    destruct (add_literal_nodes rc (ord missing) an s3) as [s4|] eqn:E4; [|discriminate].
    destruct Hok as [[HI Hl Hp Hj Hsr] Ht].
    set (g := ls_g s) in *.
    assert (Hax : sg_alive g nx = true) by (unfold sg_alive; now rewrite Hnx).
    pose proof (add_node_fresh rc _ _ _ _ HI Ha) as Hfresh.
    pose proof (add_node_label_new rc _ _ _ _ HI Ha) as Hlan1.
    pose proof (add_node_no_out rc _ _ _ _ HI Ha) as Han1.
    pose proof (add_node_ext rc _ _ _ _ [] HI Ha) as He01.
    assert (Hand : sg_alive g an = false) by (unfold sg_alive; now rewrite Hfresh).
    assert (Hne : an <> nx) by (intros ->; congruence).
    assert (Hchild : In child (sg_out g nx)).
    { apply negb_false_iff, mem_In in Hmem. now rewrite (add_node_out rc _ _ _ _ Ha) in Hmem. }
    (* s1: the node exists, the old edge is gone *)
    assert (He1 : ext g (ls_g s1) [nx]).
    { apply (ext_trans _ g1); [exact (ext_weaken _ _ [] _ (fun y Hy => match Hy with end) He01)|].
      apply remove_edge_ext. now left. }
    assert (Hc1 : core_ok P st s1).
    { constructor; cbn [s1 with_g ls_g ls_lits ls_tri].
      - apply remove_edge_Inv, (add_node_Inv rc _ _ _ _ HI Ha).
      - intros l z Hz. rewrite remove_edge_label. apply (ext_label_some _ _ _ _ _ He01). now apply Hl.
      - intros z l Hz. rewrite remove_edge_label in Hz. destruct (Nat.eq_dec z an) as [->|Hza]; [congruence|].
        rewrite (add_node_label_old rc _ _ _ _ Ha z Hza) in Hz. now apply (Hp z).
      - intros z l Hz. rewrite remove_edge_label in Hz. destruct (Nat.eq_dec z an) as [->|Hza]; [congruence|].
        rewrite (add_node_label_old rc _ _ _ _ Ha z Hza) in Hz. now apply (Hj z).
      - intros Hst. apply remove_edge_srcs. exact (add_node_srcs rc _ _ _ _ HI Ha (Hsr Hst)). }
    assert (Ho1 : sg_out (ls_g s1) nx = remove1 child (sg_out g nx)).
    { cbn [s1 with_g ls_g]. rewrite remove_edge_out_same. now rewrite (add_node_out rc _ _ _ _ Ha). }
    assert (Han1' : sg_out (ls_g s1) an = []).
    { cbn [s1 with_g ls_g]. rewrite remove_edge_out_other by exact Hne. exact Han1. }
    assert (Hlan1' : sg_label (ls_g s1) an = Some GAnd) by exact Hlan1.
    destruct (ls_add_edge_core nx an s1 s2 [nx] Hc1 (or_introl eq_refl) (fun _ => gate_at_ext _ _ _ _ He1 (gate_or _ _ Hnx)) E2) as [Hc2 [He12 [Htri2 [_ Ho2]]]].
    destruct (ls_add_edge_core an child s2 s3 [an] Hc2 (or_introl eq_refl) (fun _ => gate_at_ext _ _ _ _ He12 (gate_and _ _ Hlan1')) E3) as [Hc3 [He23 [Htri3 [_ Ho3]]]].
    assert (Hlan3 : sg_label (ls_g s3) an = Some GAnd)
      by exact (ext_label_some _ _ _ _ _ He23 (ext_label_some _ _ _ _ _ He12 Hlan1')).
    assert (He03 : ext g (ls_g s3) [nx]).
    { apply (ext_drop_dead _ _ _ an Hand). apply (ext_trans _ (ls_g s1)).
      - apply (ext_weaken _ _ [nx]); [intros y Hy; now right|exact He1].
      - apply (ext_trans _ (ls_g s2)).
        + apply (ext_weaken _ _ [nx]); [intros y Hy; now right|exact He12].
        + apply (ext_weaken _ _ [an]); [intros y [<-|[]]; now left|exact He23]. }
    assert (Ht3 : tris_ok s3).
    { intros f o Hfo. rewrite Htri3, Htri2 in Hfo. cbn [s1 with_g ls_tri] in Hfo.
      apply (tri_node_ext _ _ [nx] f o He03); [|now apply Ht]. intros [E|[]]. now apply (Hnt f o). }
    destruct (add_literal_nodes_spec rc an (ord missing) s3 s4 (conj Hc3 Ht3)) as [Hok4 [He34 [Hor34 [tris [Ho4 [Htris Hfeat]]]]]];
      [|exact Hlan3|exact E4|].
    { apply Forall_forall. intros f Hf. apply (Hpos child missing f); [now left|now apply Hord]. }
    (* facts about s4 *)
    assert (He04 : ext g (ls_g s4) [nx]).
    { apply (ext_drop_dead _ _ _ an Hand). apply (ext_trans _ (ls_g s3)).
      - apply (ext_weaken _ _ [nx]); [intros y Hy; now right|exact He03].
      - apply (ext_weaken _ _ [an]); [intros y [<-|[]]; now left|exact He34]. }
    assert (Hax2 : sg_alive (ls_g s2) nx = true)
      by exact (ext_alive _ _ _ _ He12 (ext_alive _ _ _ _ He1 Hax)).
    assert (Hax3 : sg_alive (ls_g s3) nx = true) by exact (ext_alive _ _ _ _ He23 Hax2).
    assert (Hnx4 : sg_out (ls_g s4) nx = an :: remove1 child (sg_out g nx)).
    { rewrite (ex_out _ _ _ He34 nx Hax3) by (intros [E|[]]; congruence).
      rewrite (ex_out _ _ _ He23 nx Hax2) by (intros [E|[]]; congruence).
      now rewrite Ho2, Ho1. }
    assert (Han3 : sg_out (ls_g s3) an = [child]).
    { rewrite Ho3. f_equal.
      rewrite (ex_out _ _ _ He12 an) by (try (unfold sg_alive; now rewrite Hlan1'); intros [E|[]]; congruence).
      exact Han1'. }
    assert (Hbal : bal_node (ls_g s4) nx an child).
    { split; [exact Hne|]. split; [exact (ext_label_some _ _ _ _ _ He34 Hlan3)|].
      exists tris. split; [now rewrite Ho4, Han3|].
      eapply Forall_impl; [|exact Htris]. intros o [Hto Hor]. split; [|exact Hto].
      destruct Hor as [[f Hf]|Hd].
      - rewrite Htri3, Htri2 in Hf. now apply (Hnt f o).
      - intros ->. congruence. }
    assert (Hnt4 : not_in_table s4 nx).
    { intros f o Hfo. destruct (Hor34 f o Hfo) as [H3|H3].
      - rewrite Htri3, Htri2 in H3. now apply (Hnt f o).
      - intros ->. congruence. }
    destruct (IH s4 s' Hok4 (ext_label_some _ _ _ _ _ He04 Hnx) Hnt4) as [Hok' [He4' [Hs4' [ansr [Pr [Gr [Fr Or]]]]]]]; [| |exact H|].
    { intros c ms f Hin. apply (Hpos c ms f). now right. }
    { intros c ms Hin. apply (ext_alive _ _ _ _ He04). apply (Hcal c ms). now right. }
    split; [exact Hok'|]. split; [exact (ext_trans _ _ _ _ He04 He4')|].
    split.
    { apply (subst_rel_trans _ _ _ (sg_out (ls_g s4) nx)); [|exact Hs4'].
      apply (subst_rel_ext (ls_g s4)); [exact He4'|]. rewrite Hnx4.
      constructor; [constructor|exact Hchild|exact Hbal]. }
    (* the exact description *)
    destruct (ls_add_edge_S _ _ _ _ E2) as [L2 T2]. destruct (ls_add_edge_S _ _ _ _ E3) as [L3 T3].
    destruct (add_literal_nodes_S an _ _ _ E4) as [P34 G34].
    assert (P03 : lprov s s3 [an]).
    { intros y t Hy. rewrite L3, L2 in Hy. cbn [s1 with_g ls_g] in Hy. rewrite remove_edge_label in Hy.
      destruct (add_node_label_cases rc _ _ _ _ _ _ Ha Hy) as [[-> ->]|[_ H0]]; [|now left].
      right. right. right. split; [reflexivity|now left]. }
    assert (G03 : tri_grow s s3) by (apply tri_grow_eq; rewrite T3, T2; reflexivity).
    exists (an :: ansr). split; [|split; [|split]].
    + exact (lprov_trans _ _ _ _ _ (lprov_trans _ _ _ _ _ P03 P34 G34) Pr Gr).
    + exact (tri_grow_trans _ _ _ (tri_grow_trans _ _ _ G03 G34) Gr).
    + constructor.
      * split; [exact Hand|]. cbn [fst snd]. split; [exact (ext_label_some _ _ _ _ _ He4' (ext_label_some _ _ _ _ _ He34 Hlan3))|].
        exists tris. split.
        -- rewrite (ex_out _ _ _ He4' an); [now rewrite Ho4, Han3| |intros [E|[]]; congruence].
           unfold sg_alive. now rewrite (ext_label_some _ _ _ _ _ He34 Hlan3).
        -- eapply Forall2_impl; [|exact Hfeat]. intros f o Hfo. now apply Gr.
      * eapply Forall2_impl; [|exact Fr]. intros a cm [Ha4 Hb4]. split; [|exact Hb4].
        change (sg_alive g a = false). destruct (sg_alive g a) eqn:E; [|reflexivity]. now rewrite (ext_alive _ _ _ _ He04 E) in Ha4.
    + rewrite Or, Hnx4. cbn [map fst rev removes fold_left].
      rewrite removes_cons_notin.
      * fold (removes (map fst r) (remove1 child (sg_out g nx))). now rewrite <- app_assoc.
      * intros Hin. apply in_map_iff in Hin. destruct Hin as [[c ms] [Ec Hin]]. cbn [fst] in Ec. subst c.
        rewrite (Hcal an ms (or_intror Hin)) in Hand. discriminate.
Qed.

(* ---------- the body of the third traversal ---------- *)
Lemma abs_nat_opp_of_nat f : Z.abs_nat (- Z.of_nat f) = f.
Proof. apply Nat2Z.inj. rewrite Zabs2Nat.id_abs. lia. Qed.

Lemma lookup_nat_In m f o : lookup_nat m f = Some o -> In (f, o) m.
Proof.
  induction m as [|[k v] m IH]; [discriminate|]. cbn [lookup_nat].
  destruct (Nat.eqb_spec k f) as [->|Hne]; [intros E; injection E as <-; now left|].
  intros H. right. now apply IH.
Qed.

Definition in_table (tri : list (nat * nat)) (nx : nat) : bool :=
  existsb (fun fo => match lookup_nat tri (fst fo) with Some o => Nat.eqb o nx | None => false end) tri.

Lemma in_table_true tri nx : in_table tri nx = true -> exists f, lookup_nat tri f = Some nx.
Proof.
  intros H. apply existsb_exists in H. destruct H as [[f o] [_ E]]. cbn [fst] in E.
  destruct (lookup_nat tri f) as [o'|] eqn:El; [|discriminate]. apply Nat.eqb_eq in E. subst. now exists f.
Qed.

Lemma in_table_false tri nx : in_table tri nx = false -> forall f o, lookup_nat tri f = Some o -> o <> nx.
Proof.
  intros H f o Hl ->. apply lookup_nat_In in Hl as Hin.
  assert (E : in_table tri nx = true).
  { apply existsb_exists. exists (f, nx). split; [exact Hin|]. cbn [fst]. rewrite Hl. apply Nat.eqb_refl. }
  congruence.
Qed.

(* what one iteration of the third traversal does *)
Definition p3step (m : list (nat * list nat)) (s s' : lstate) (nx : nat) : Prop :=
  (s' = s /\ sg_label (ls_g s) nx <> Some GOr) \/
  (s' = s /\ sg_label (ls_g s) nx = Some GOr /\ in_tab s nx) \/
  (sg_label (ls_g s) nx = Some GOr /\ not_in_table s nx /\ tables_ok P st s' /\
   ext (ls_g s) (ls_g s') [nx] /\
   subst_rel (ls_g s') nx (sg_out (ls_g s) nx) (sg_out (ls_g s') nx) /\
   exists cd, children_diff m (sg_out (ls_g s) nx) = Some cd /\ bstruct s s' nx (diff_go [] cd)).

Lemma pass3_body_step g0 m s nx s' :
  diffs_ok FOK g0 m -> tables_ok P st s -> grow g0 (ls_g s) ->
  pass3_body rc ord m s nx = Some s' -> p3step m s s' nx.
Proof.
  intros Hm Hok Hg H. unfold pass3_body in H.
  destruct (sg_label (ls_g s) nx) as [t|] eqn:Hnx; [|discriminate].
  destruct t; try (injection H as <-; left; split; [reflexivity|congruence]).
  destruct (children_diff m (sg_out (ls_g s) nx)) as [cd|] eqn:Ecd; [|discriminate].
  destruct (children_diff_spec m _ cd Ecd) as [Hfst Hcd].
  destruct (in_table (ls_tri s) nx) eqn:Etab.
  - (* nx is an or-triangle of the table: nothing is missing *)
    destruct (in_table_true _ _ Etab) as [f Hf].
    destruct (proj2 Hok f nx Hf) as [_ [_ [n [p [Ho [Hln Hlp]]]]]].
    rewrite Ho in Hfst.
    destruct cd as [|[n' vn] [|[p' vp] [|? ?]]]; try discriminate. cbn [map fst] in Hfst.
    injection Hfst as -> ->.
    inversion Hcd as [|? ? Hn Hcd']; subst. inversion Hcd' as [|? ? Hp _]; subst. cbn [fst snd] in Hn, Hp.
    assert (Hvn : vn = [f]).
    { pose proof (do_alive _ _ _ Hm n vn Hn) as Han.
      rewrite (do_lit _ _ _ Hm n vn (- Z.of_nat f)%Z Hn); [now rewrite abs_nat_opp_of_nat|].
      rewrite <- (gr_label _ _ Hg n Han). exact Hln. }
    assert (Hvp : vp = [f]).
    { pose proof (do_alive _ _ _ Hm p vp Hp) as Hap.
      rewrite (do_lit _ _ _ Hm p vp (Z.of_nat f) Hp); [now rewrite Zabs2Nat.id|].
      rewrite <- (gr_label _ _ Hg p Hap). exact Hlp. }
    subst vn vp. rewrite diff_go_tri in H. cbn [balance_or_children] in H. injection H as <-.
    right. left. split; [reflexivity|]. split; [exact Hnx|now exists f].
  - destruct (balance_spec nx (diff_go [] cd) s s' Hok Hnx (in_table_false _ _ Etab)) as [Hok' [He [Hs Hb]]]; [| |exact H|].
    { intros c ms f Hin Hf. destruct (diff_go_In cd [] c ms f Hin Hf) as [_ [cv [Hcv Hfv]]].
      cbn [app] in Hcv. rewrite Forall_forall in Hcd.
      exact (do_pos _ _ _ Hm (fst cv) (snd cv) f (Hcd cv Hcv) Hfv). }
    { intros c ms Hin. apply diff_go_fst in Hin. rewrite Hfst in Hin.
      exact (proj2 (out_alive _ _ _ (proj1 (co_inv _ _ _ (proj1 Hok))) Hin)). }
    right. right. split; [exact Hnx|]. split; [exact (in_table_false _ _ Etab)|]. split; [exact Hok'|].
    split; [exact He|]. split; [exact Hs|]. now exists cd.
Qed.

Lemma p3step_ok m s s' nx : tables_ok P st s -> p3step m s s' nx -> tables_ok P st s' /\ grow (ls_g s) (ls_g s').
Proof.
  intros Hok [[-> _]|[[-> _]|[Hnx [_ [Hok' [He [Hs _]]]]]]]; try (split; [exact Hok|apply grow_refl]).
  split; [exact Hok'|]. now apply (balance_grow _ _ nx).
Qed.

Lemma pass3_body_spec g0 m s nx s' :
  diffs_ok FOK g0 m -> tables_ok P st s -> grow g0 (ls_g s) ->
  pass3_body rc ord m s nx = Some s' -> tables_ok P st s' /\ grow (ls_g s) (ls_g s').
Proof. intros Hm Hok Hg H. exact (p3step_ok m s s' nx Hok (pass3_body_step g0 m s nx s' Hm Hok Hg H)). Qed.

(* an invariant of the steps is an invariant of the traversal *)
Theorem pass3_invariant (Q : lstate -> Prop) s root s' :
  tables_ok P st s -> pass3 rc ord s root = Some s' -> Q s ->
  (forall m s1 s2 nx, diffs_ok FOK (ls_g s) m -> tables_ok P st s1 -> grow (ls_g s) (ls_g s1) -> Q s1 ->
                      p3step m s1 s2 nx -> Q s2) ->
  Q s'.
Proof.
  intros Hok H HQ Hstep. unfold pass3 in H.
  destruct (get_literal_diffs (ls_g s) root) as [m|] eqn:Em; [|discriminate].
  pose proof (get_literal_diffs_ok FOK _ _ _ (fun z l Hz => P_abs l (co_pos _ _ _ (proj1 Hok) z l Hz)) Em) as Hm.
  apply (dfs_fold_invariant _ _ (fun s1 => (tables_ok P st s1 /\ grow (ls_g s) (ls_g s1)) /\ Q s1)) in H; [exact (proj2 H)| |].
  - intros s1 x s2 [[Hok1 Hg1] HQ1] Hb.
    pose proof (pass3_body_step (ls_g s) m s1 x s2 Hm Hok1 Hg1 Hb) as Hst.
    destruct (p3step_ok m s1 s2 x Hok1 Hst) as [Hok2 Hg2].
    split; [split; [exact Hok2|exact (grow_trans _ _ _ Hg1 Hg2)]|]. exact (Hstep m s1 s2 x Hm Hok1 Hg1 HQ1 Hst).
  - split; [split; [exact Hok|apply grow_refl]|exact HQ].
Qed.

(* the same with an invariant that may mention the table of get_literal_diffs *)
Theorem pass3_invariant_m (Q : list (nat * list nat) -> lstate -> Prop) s root s' :
  tables_ok P st s -> pass3 rc ord s root = Some s' ->
  (forall m, get_literal_diffs (ls_g s) root = Some m -> Q m s) ->
  (forall m s1 s2 nx, diffs_ok FOK (ls_g s) m -> tables_ok P st s1 -> grow (ls_g s) (ls_g s1) -> Q m s1 ->
                      p3step m s1 s2 nx -> Q m s2) ->
  exists m, get_literal_diffs (ls_g s) root = Some m /\ Q m s'.
Proof.
  intros Hok H HQ Hstep. unfold pass3 in H.
  destruct (get_literal_diffs (ls_g s) root) as [m|] eqn:Em; [|discriminate].
  exists m. split; [reflexivity|].
  pose proof (get_literal_diffs_ok FOK _ _ _ (fun z l Hz => P_abs l (co_pos _ _ _ (proj1 Hok) z l Hz)) Em) as Hm.
  apply (dfs_fold_invariant _ _ (fun s1 => (tables_ok P st s1 /\ grow (ls_g s) (ls_g s1)) /\ Q m s1)) in H; [exact (proj2 H)| |].
  - intros s1 x s2 [[Hok1 Hg1] HQ1] Hb.
    pose proof (pass3_body_step (ls_g s) m s1 x s2 Hm Hok1 Hg1 Hb) as Hst.
    destruct (p3step_ok m s1 s2 x Hok1 Hst) as [Hok2 Hg2].
    split; [split; [exact Hok2|exact (grow_trans _ _ _ Hg1 Hg2)]|]. exact (Hstep m s1 s2 x Hm Hok1 Hg1 HQ1 Hst).
  - split; [split; [exact Hok|apply grow_refl]|now apply HQ].
Qed.

(* the same over the traversal state (stack, discovered, finished) *)
Theorem pass3_invariant_st (Q : list (nat * list nat) -> lstate -> list nat -> list nat -> list nat -> Prop) s root s' :
  tables_ok P st s -> pass3 rc ord s root = Some s' ->
  (forall m, get_literal_diffs (ls_g s) root = Some m -> Q m s [root] [] []) ->
  (forall m s1 nx rest disc fin, tables_ok P st s1 -> grow (ls_g s) (ls_g s1) -> Q m s1 (nx :: rest) disc fin ->
     mem nx disc = false ->
     Q m s1 (push_undiscovered (nx :: disc) (nx :: rest) (sg_out (ls_g s1) nx)) (nx :: disc) fin) ->
  (forall m s1 nx rest disc fin, tables_ok P st s1 -> grow (ls_g s) (ls_g s1) -> Q m s1 (nx :: rest) disc fin ->
     mem nx disc = true -> mem nx fin = true -> Q m s1 rest disc fin) ->
  (forall m s1 s2 nx rest disc fin, diffs_ok FOK (ls_g s) m -> tables_ok P st s1 -> grow (ls_g s) (ls_g s1) ->
     Q m s1 (nx :: rest) disc fin -> mem nx disc = true -> mem nx fin = false ->
     p3step m s1 s2 nx -> Q m s2 rest disc (nx :: fin)) ->
  exists m disc' fin', get_literal_diffs (ls_g s) root = Some m /\ Q m s' [] disc' fin'.
Proof.
  intros Hok H HQ Hdisc Hpop Hstep. unfold pass3 in H.
  destruct (get_literal_diffs (ls_g s) root) as [m|] eqn:Em; [|discriminate].
  pose proof (get_literal_diffs_ok FOK _ _ _ (fun z l Hz => P_abs l (co_pos _ _ _ (proj1 Hok) z l Hz)) Em) as Hm.
  apply (dfs_fold_invariant_st _ _
           (fun s1 stack disc fin => (tables_ok P st s1 /\ grow (ls_g s) (ls_g s1)) /\ Q m s1 stack disc fin)) in H.
  - destruct H as [disc' [fin' [_ HQ']]]. now exists m, disc', fin'.
  - intros s1 nx rest disc fin [[Hok1 Hg1] HQ1] Ed. split; [now split|]. now apply Hdisc.
  - intros s1 nx rest disc fin [[Hok1 Hg1] HQ1] Ed Ef. split; [now split|]. now apply (Hpop m s1 nx).
  - intros s1 nx rest disc fin s2 [[Hok1 Hg1] HQ1] Ed Ef Hb.
    pose proof (pass3_body_step (ls_g s) m s1 nx s2 Hm Hok1 Hg1 Hb) as Hst.
    destruct (p3step_ok m s1 s2 nx Hok1 Hst) as [Hok2 Hg2].
    split; [split; [exact Hok2|exact (grow_trans _ _ _ Hg1 Hg2)]|]. exact (Hstep m s1 s2 nx rest disc fin Hm Hok1 Hg1 HQ1 Ed Ef Hst).
  - split; [split; [exact Hok|apply grow_refl]|now apply HQ].
Qed.

Theorem pass3_grow s root s' : tables_ok P st s -> pass3 rc ord s root = Some s' ->
  tables_ok P st s' /\ grow (ls_g s) (ls_g s').
Proof.
  intros Hok H. unfold pass3 in H.
  destruct (get_literal_diffs (ls_g s) root) as [m|] eqn:Em; [|discriminate].
  pose proof (get_literal_diffs_ok FOK _ _ _ (fun z l Hz => P_abs l (co_pos _ _ _ (proj1 Hok) z l Hz)) Em) as Hm.
  apply (dfs_fold_invariant _ _ (fun s1 => tables_ok P st s1 /\ grow (ls_g s) (ls_g s1))) in H; [exact H| |].
  - intros s1 x s2 [Hok1 Hg1] Hb. destruct (pass3_body_spec (ls_g s) m s1 x s2 Hm Hok1 Hg1 Hb) as [Hok2 Hg2].
    split; [exact Hok2|]. exact (grow_trans _ _ _ Hg1 Hg2).
  - split; [exact Hok|apply grow_refl].
Qed.
End Balance.
