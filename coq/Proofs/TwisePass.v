(* C09 pipeline: the bottom-up pass of TWiseSampler (partial_sample per node + remove_unneeded),
   generic in the mergers: for any node invariant NI that the literal / and / or / true / false cases
   establish from the children's invariants, the pass never fails an `expect` and ends with NI at
   every node whose sample is still stored - in particular at the root. *)
From Coq Require Import List ZArith Bool Arith Lia Permutation.
From DD Require Import Model.Circuit Model.Query Model.TwiseCfg Model.TwiseMerge Model.TwisePipeline
  Proofs.PassLemmas Proofs.Semantics Proofs.CountsA Proofs.QueryDefs Proofs.C03Proof Proofs.TwiseBase
  Proofs.TwiseSem Proofs.TwiseNode.
Import ListNotations.
Open Scope Z_scope.

Lemma uniq_nat_in l x : In x (uniq_nat l) <-> In x l.
Proof.
  induction l as [|a l IH]; cbn [uniq_nat]; [tauto|]. cbn [In]. rewrite filter_In, IH.
  destruct (Nat.eqb_spec a x) as [->|Hne]; cbn [negb]; [intuition congruence|intuition].
Qed.

Lemma uniq_nat_nodup l : NoDup (uniq_nat l).
Proof.
  induction l as [|a l IH]; cbn [uniq_nat]; [constructor|]. constructor; [|now apply NoDup_filter].
  intros H. apply filter_In in H. destruct H as [_ H]. now rewrite Nat.eqb_refl in H.
Qed.

Section Pass.
Variables (C : circuit) (n : nat).
Hypothesis HQ : WFQ C n.
Let d := build C n.

Variable NI : nat -> sres -> Prop.
Variable psample : nat -> list (option sres) -> option (sres * list (option sres)).
Variables andres orres : nat -> list sres -> sres.

Hypothesis Hps : forall i ps, psample i ps =
  match nth i C FalseN with
  | Lit l => Some (WithSample (s_from_literal n l), ps)
  | And cs =>
    match lookup ps cs with
    | None => None
    | Some rs => option_map (fun ps' => (andres i rs, ps')) (remove_unneeded d i cs ps)
    end
  | Or cs =>
    match lookup ps cs with
    | None => None
    | Some rs => option_map (fun ps' => (orres i rs, ps')) (remove_unneeded d i cs ps)
    end
  | TrueN => Some (Empty, ps)
  | FalseN => Some (Void, ps)
  end.
Hypothesis Hlit : forall i l, (i < length C)%nat -> nth i C FalseN = Lit l -> NI i (WithSample (s_from_literal n l)).
Hypothesis Hand : forall i cs rs, (i < length C)%nat -> nth i C FalseN = And cs -> Forall2 NI cs rs -> NI i (andres i rs).
Hypothesis Hor : forall i cs rs, (i < length C)%nat -> nth i C FalseN = Or cs -> Forall2 NI cs rs -> NI i (orres i rs).
Hypothesis Htrue : forall i, (i < length C)%nat -> nth i C FalseN = TrueN -> NI i Empty.
Hypothesis Hfalse : forall i, (i < length C)%nat -> nth i C FalseN = FalseN -> NI i Void.

Definition gstep (st : option (list (option sres))) (i : nat) : option (list (option sres)) :=
  match st with
  | None => None
  | Some ps =>
    match psample i ps with
    | None => None
    | Some (res, ps') => Some (upd i (Some res) ps')
    end
  end.

Definition PassInv (i : nat) (ps : list (option sres)) : Prop :=
  length ps = length C /\
  forall j, (j < i)%nat ->
    match nth j ps None with
    | Some r => NI j r
    | None => (exists q, (q < i)%nat /\ In j (children (nth q C FalseN))) /\
              (forall q, In q (nth j (parents C) []) -> (q < i)%nat)
    end.

Lemma lookup_ok i ps cs : (i < length C)%nat -> children (nth i C FalseN) = cs -> PassInv i ps ->
  forall cs', incl cs' cs -> exists rs, lookup ps cs' = Some rs /\ Forall2 NI cs' rs.
Proof.
  intros Hi Hcs [Hlen Hinv]. induction cs' as [|c cs' IH]; intros Hinc.
  - exists []. split; [reflexivity|constructor].
  - destruct IH as [rs [Hl HF]]; [intros x Hx; apply Hinc; now right|].
    assert (Hc : In c cs) by (apply Hinc; now left).
    assert (Hci : (c < i)%nat) by (apply (child_lt C n HQ i c Hi); now rewrite Hcs).
    cbn [lookup fold_right]. fold (lookup ps cs'). rewrite Hl.
    specialize (Hinv c Hci). destruct (nth c ps None) as [r|] eqn:En.
    + exists (r :: rs). split; [reflexivity|now constructor].
    + exfalso. destruct Hinv as [_ Hpar]. specialize (Hpar i).
      assert (i < i)%nat; [|lia]. apply Hpar. apply parents_spec; [lia|]. split; [exact Hi|now rewrite Hcs].
Qed.

Lemma remove_v0_ok i : forall cs ps, NoDup cs -> (forall c, In c cs -> (c < length ps)%nat) ->
  (forall c, In c cs -> nth c ps None <> None) ->
  exists ps', remove_unneeded_v0 d i cs ps = Some ps' /\ length ps' = length ps /\
  forall j, nth j ps' None = nth j ps None \/
            (nth j ps' None = None /\ In j cs /\ forall q, In q (nth j (parents C) []) -> (q <= i)%nat).
Proof.
  unfold remove_unneeded_v0. induction cs as [|c cs IH]; intros ps Hnd Hlt Hsome; cbn [fold_left].
  - exists ps. split; [reflexivity|]. split; [reflexivity|]. intros j. now left.
  - inversion Hnd as [|? ? Hnotin Hnd']; subst.
    change (pars d) with (parents C).
    destruct (forallb (fun p => (p <=? i)%nat) (nth c (parents C) [])) eqn:Eall.
    + destruct (nth c ps None) as [r|] eqn:En; [|exfalso; apply (Hsome c (or_introl eq_refl)); exact En].
      destruct (IH (upd c None ps) Hnd') as [ps' [H1 [H2 H3]]].
      * intros x Hx. rewrite upd_length. apply Hlt. now right.
      * intros x Hx. rewrite nth_upd_neq by (intros ->; contradiction). apply Hsome. now right.
      * exists ps'. split; [exact H1|]. split; [now rewrite H2, upd_length|].
        intros j. destruct (H3 j) as [E|[E1 [E2 E3]]].
        -- destruct (Nat.eq_dec c j) as [->|Hne].
           ++ right. split; [rewrite E; apply nth_upd_eq; apply Hlt; now left|]. split; [now left|].
              intros q Hq. rewrite forallb_forall in Eall. apply Nat.leb_le. now apply Eall.
           ++ left. rewrite E. now apply nth_upd_neq.
        -- right. split; [exact E1|]. split; [now right|exact E3].
    + destruct (IH ps Hnd') as [ps' [H1 [H2 H3]]].
      * intros x Hx. apply Hlt. now right.
      * intros x Hx. apply Hsome. now right.
      * exists ps'. split; [exact H1|]. split; [exact H2|].
        intros j. destruct (H3 j) as [E|[E1 [E2 E3]]]; [now left|right]. split; [exact E1|]. split; [now right|exact E3].
Qed.

(* after the repair F13 the children are de-duplicated first: no hypothesis on the child lists *)
Lemma remove_ok i cs ps : (forall c, In c cs -> (c < length ps)%nat) ->
  (forall c, In c cs -> nth c ps None <> None) ->
  exists ps', remove_unneeded d i cs ps = Some ps' /\ length ps' = length ps /\
  forall j, nth j ps' None = nth j ps None \/
            (nth j ps' None = None /\ In j cs /\ forall q, In q (nth j (parents C) []) -> (q <= i)%nat).
Proof.
  intros Hlt Hsome. unfold remove_unneeded.
  destruct (remove_v0_ok i (uniq_nat cs) ps (uniq_nat_nodup cs)) as [ps' [H1 [H2 H3]]].
  - intros c Hc. apply Hlt. now apply uniq_nat_in.
  - intros c Hc. apply Hsome. now apply uniq_nat_in.
  - exists ps'. split; [exact H1|]. split; [exact H2|]. intros j. destruct (H3 j) as [E|[E1 [E2 E3]]]; [now left|right].
    split; [exact E1|]. split; [now apply uniq_nat_in|exact E3].
Qed.

Lemma step_ok i ps : (i < length C)%nat -> PassInv i ps ->
  exists ps', gstep (Some ps) i = Some ps' /\ PassInv (S i) ps'.
Proof.
  intros Hi Hinv. pose proof Hinv as [Hlen Hj].
  assert (Hfin : forall res ps1, NI i res -> length ps1 = length ps ->
            (forall j, nth j ps1 None = nth j ps None \/
               (nth j ps1 None = None /\ In j (children (nth i C FalseN)) /\
                forall q, In q (nth j (parents C) []) -> (q <= i)%nat)) ->
            PassInv (S i) (upd i (Some res) ps1)).
  { intros res ps1 Hres Hl1 Hrel. split; [now rewrite upd_length, Hl1|].
    intros j Hjs. destruct (Nat.eq_dec i j) as [<-|Hne].
    - rewrite nth_upd_eq by lia. exact Hres.
    - rewrite nth_upd_neq by exact Hne. assert (Hji : (j < i)%nat) by lia. specialize (Hj j Hji).
      destruct (Hrel j) as [E|[E1 [E2 E3]]].
      + rewrite E. destruct (nth j ps None) as [r|]; [exact Hj|].
        destruct Hj as [[q [Hq1 Hq2]] Hpar]. split; [exists q; split; [lia|exact Hq2]|].
        intros q' Hq'. specialize (Hpar q' Hq'). lia.
      + rewrite E1. split; [exists i; split; [lia|exact E2]|]. intros q Hq. specialize (E3 q Hq). lia. }
  assert (Hsame : forall j : nat, nth j ps None = nth j ps None \/
               (nth j ps None = None /\ In j (children (nth i C FalseN)) /\
                forall q, In q (nth j (parents C) []) -> (q <= i)%nat)) by (intros j; now left).
  assert (Hnode : forall cs, children (nth i C FalseN) = cs ->
            exists rs ps1, lookup ps cs = Some rs /\ Forall2 NI cs rs /\ remove_unneeded d i cs ps = Some ps1 /\
              length ps1 = length ps /\
              (forall j, nth j ps1 None = nth j ps None \/
                 (nth j ps1 None = None /\ In j cs /\ forall q, In q (nth j (parents C) []) -> (q <= i)%nat))).
  { intros cs Ecs. destruct (lookup_ok i ps cs Hi Ecs Hinv cs (incl_refl _)) as [rs [Hl HF]].
    destruct (remove_ok i cs ps) as [ps1 [H1 [H2 H3]]].
    - intros c Hc. rewrite Hlen. assert (c < i)%nat by (apply (child_lt C n HQ i c Hi); now rewrite Ecs). lia.
    - intros c Hc Habs.
      assert (Hci : (c < i)%nat) by (apply (child_lt C n HQ i c Hi); now rewrite Ecs).
      specialize (Hj c Hci). rewrite Habs in Hj. destruct Hj as [_ Hpar].
      assert (i < i)%nat; [|lia]. apply Hpar. apply parents_spec; [lia|]. split; [exact Hi|now rewrite Ecs].
    - exists rs, ps1. auto. }
  unfold gstep. rewrite Hps.
  destruct (nth i C FalseN) as [l|cs|cs| |] eqn:E.
  - eexists. split; [reflexivity|]. apply Hfin; [now apply Hlit|reflexivity|exact Hsame].
  - destruct (Hnode cs eq_refl) as [rs [ps1 [Hl [HF [H1 [H2 H3]]]]]]. rewrite Hl, H1. cbn [option_map].
    eexists. split; [reflexivity|]. apply Hfin; [now apply (Hand i cs rs)|exact H2|exact H3].
  - destruct (Hnode cs eq_refl) as [rs [ps1 [Hl [HF [H1 [H2 H3]]]]]]. rewrite Hl, H1. cbn [option_map].
    eexists. split; [reflexivity|]. apply Hfin; [now apply (Hor i cs rs)|exact H2|exact H3].
  - eexists. split; [reflexivity|]. apply Hfin; [now apply Htrue|reflexivity|exact Hsame].
  - eexists. split; [reflexivity|]. apply Hfin; [now apply Hfalse|reflexivity|exact Hsame].
Qed.

Lemma pass_ok : forall m k ps, (k + m = length C)%nat -> PassInv k ps ->
  exists ps', fold_left gstep (seq k m) (Some ps) = Some ps' /\ PassInv (length C) ps'.
Proof.
  induction m as [|m IH]; intros k ps Hkm Hinv; cbn [seq fold_left].
  - exists ps. split; [reflexivity|]. now replace (length C) with k by lia.
  - destruct (step_ok k ps ltac:(lia) Hinv) as [ps1 [H1 H2]]. rewrite H1. apply IH; [lia|exact H2].
Qed.

(* the root's result is stored at the end and satisfies the invariant *)
Theorem pass_root : exists ps res,
  fold_left gstep (seq 0 (length C)) (Some (map (fun _ => None) C)) = Some ps /\
  nth (root C) ps None = Some res /\ NI (root C) res.
Proof.
  destruct (pass_ok (length C) 0%nat (map (fun _ => None) C)) as [ps [Hps' [Hlen Hinv]]]; [lia| |].
  { split; [apply map_length|]. intros j Hj. lia. }
  pose proof (root_lt' C n HQ) as Hr. specialize (Hinv (root C) Hr).
  destruct (nth (root C) ps None) as [res|] eqn:E.
  - exists ps, res. auto.
  - exfalso. destruct Hinv as [[q [Hq Hin]] _].
    pose proof (child_lt C n HQ q (root C) Hq Hin). unfold root in *. lia.
Qed.

End Pass.
