(* C06: the hypothesis exec_spec of the page theorems discharged with the C02 development
   (Proofs/ExecTemps.v), and the page / history theorems restated without it. *)
From Coq Require Import List ZArith Bool Lia Permutation.
From DD Require Import Model.Circuit Model.Query Model.Enumerate
     Proofs.PassLemmas Proofs.Enum Proofs.Semantics Proofs.CountsA Proofs.QueryDefs
     Proofs.C06Prefix Proofs.C06Machine Proofs.C06Node Proofs.C06Sort Proofs.C06Page
     Proofs.ExecTemps.
Import ListNotations.
Open Scope Z_scope.

Theorem exec_spec_holds C n A : WFQ C n -> in_range n A -> exec_spec C n A.
Proof.
  intros HQ HA s s1 s2 r Hcl Hpre Hq.
  pose proof (enum_key_In A) as HS.
  assert (HA' : in_range n (enum_key A)).
  { apply (in_range_same_set n A); [now apply same_set_sym|exact HA]. }
  assert (HAA : forall l, In l A <-> In l (enum_key A)) by (intros l; symmetry; apply HS).
  destruct (preprocess_execute C n HQ A (enum_key A) s s1 HA' HAA Hcl Hpre) as [H1 [H2 H3]].
  rewrite Hq in H1, H2, H3. cbn [fst snd] in H1, H2, H3.
  split; [|split; [|exact H2]].
  - rewrite H1. now apply MCA_same_set.
  - intros Hr. exact (H3 Hr).
Qed.

Lemma exec_spec_perm_holds C n A : WFQ C n -> in_range n A ->
  forall A', same_set A A' -> exec_spec C n A'.
Proof.
  intros HQ HA A' HS. apply exec_spec_holds; [exact HQ|]. now apply (in_range_same_set n A).
Qed.

Section Final.
Variables (C : circuit) (n : nat).
Hypothesis HQ : WFQ C n.
Hypothesis Hn : (0 < n)%nat.
Hypothesis Hor : or_no_true_child C = true.

Let HWF : WF C n := wfq_wf C n HQ.

Theorem enumerate_page_final A amount cur s :
  in_range n A -> Clean C s -> 0 < amount ->
  let c := MCA C n A in
  let p := cur_get cur (enum_key A) in
  let stop := Z.min c (p + amount) in
  0 < c -> 0 <= p < c ->
  exists s2, Clean C s2 /\
    enumerate (build C n) A amount cur s =
    (s2, cur_set cur (enum_key A) (stop mod c), Some (map sort_abs (slice p stop (EOr C A)))).
Proof.
  intros HA. exact (enumerate_page C n HWF Hn Hor A amount cur s HA (exec_spec_holds C n A HQ HA)).
Qed.

Theorem enumerate_page_cursor_final A amount cur s s2 cur2 r :
  in_range n A -> Clean C s -> 0 < amount ->
  let c := MCA C n A in
  let p := cur_get cur (enum_key A) in
  0 < c -> 0 <= p < c ->
  enumerate (build C n) A amount cur s = (s2, cur2, r) ->
  cur_get cur2 (enum_key A) = Z.min c (p + amount) mod c /\
  (forall k, k <> enum_key A -> cur_get cur2 k = cur_get cur k).
Proof.
  intros HA.
  exact (enumerate_page_cursor C n HWF Hn Hor A amount cur s s2 cur2 r HA
                               (exec_spec_holds C n A HQ HA)).
Qed.

Theorem enumerate_none_iff_final A amount cur s :
  (forall l, In l A -> l <> 0) -> Clean C s -> amount <> 0 ->
  (snd (enumerate (build C n) A amount cur s) = None <-> MCA C n A = 0 \/ out_of_range n A).
Proof.
  intros Hnz.
  exact (enumerate_none_iff C n HWF Hn A amount cur s Hnz (exec_spec_holds C n A HQ)).
Qed.

Theorem enumerate_none_unsat_final A amount cur s :
  in_range n A -> Clean C s -> amount <> 0 -> MCA C n A = 0 ->
  exists s2, Clean C s2 /\ enumerate (build C n) A amount cur s = (s2, cur, None).
Proof.
  intros HA.
  exact (enumerate_none_unsat C n HWF Hn A amount cur s HA (exec_spec_holds C n A HQ HA)).
Qed.

Theorem pages_cyclic_final A :
  in_range n A ->
  forall reqs cur s, Clean C s -> Forall (req_ok A) reqs -> 0 < MCA C n A ->
  let p := cur_get cur (enum_key A) in
  0 <= p < MCA C n A ->
  exists rs cur' s',
    run_pages (build C n) reqs cur s = (rs, cur', s') /\
    pages_of rs = map sort_abs (cyc (MCA C n A) (EOr C A) [] p
                                    (spec_total (MCA C n A) p (map snd reqs))) /\
    map (fun r => match r with Some l => Z.of_nat (length l) | None => -1 end) rs
      = spec_lens (MCA C n A) p (map snd reqs) /\
    0 <= cur_get cur' (enum_key A) < MCA C n A.
Proof.
  intros HA.
  exact (pages_cyclic C n A HWF Hn Hor HA (exec_spec_perm_holds C n A HQ HA)).
Qed.

Theorem pages_within_cycle_final A :
  in_range n A ->
  forall reqs cur s, Clean C s -> Forall (req_ok A) reqs -> 0 < MCA C n A ->
  cur_get cur (enum_key A) = 0 -> zsum (map snd reqs) <= MCA C n A ->
  exists rs cur' s',
    run_pages (build C n) reqs cur s = (rs, cur', s') /\
    pages_of rs = map sort_abs (firstn (Z.to_nat (zsum (map snd reqs))) (EOr C A)) /\
    NoDup (pages_of rs) /\
    cur_get cur' (enum_key A) = zsum (map snd reqs) mod MCA C n A.
Proof.
  intros HA.
  exact (pages_within_cycle C n A HWF Hn Hor HA (exec_spec_perm_holds C n A HQ HA)).
Qed.

Theorem pages_within_cycle_from_final A :
  in_range n A ->
  forall reqs cur s, Clean C s -> Forall (req_ok A) reqs -> 0 < MCA C n A ->
  let p := cur_get cur (enum_key A) in
  0 <= p < MCA C n A -> p + zsum (map snd reqs) <= MCA C n A ->
  exists rs cur' s',
    run_pages (build C n) reqs cur s = (rs, cur', s') /\
    pages_of rs = map sort_abs (slice p (p + zsum (map snd reqs)) (EOr C A)) /\
    NoDup (pages_of rs) /\
    cur_get cur' (enum_key A) = (p + zsum (map snd reqs)) mod MCA C n A.
Proof.
  intros HA.
  exact (pages_within_cycle_from C n A HWF Hn Hor HA (exec_spec_perm_holds C n A HQ HA)).
Qed.

Theorem pages_cycle_final A :
  in_range n A ->
  forall reqs cur s, Clean C s -> Forall (req_ok A) reqs -> 0 < MCA C n A ->
  cur_get cur (enum_key A) = 0 -> zsum (map snd reqs) = MCA C n A ->
  exists rs cur' s',
    run_pages (build C n) reqs cur s = (rs, cur', s') /\
    pages_of rs = map sort_abs (EOr C A) /\
    Permutation (pages_of rs) (ModelsA C n A) /\
    NoDup (pages_of rs) /\
    cur_get cur' (enum_key A) = 0.
Proof.
  intros HA.
  exact (pages_cycle C n A HWF Hn Hor HA (exec_spec_perm_holds C n A HQ HA)).
Qed.

(* F19: THE CURSOR KEY IS THE SET OF LITERALS.  A request spelled A' -- the literals of A in any
   order, any of them any number of times -- reads and writes the cursor entry of A and returns
   the page a request spelled A would have returned.  (Together with pages_*_final, whose requests
   are [req_ok A] = same set: all spellings page through ONE cycle.) *)
Theorem enumerate_same_set_final A A' amount cur s :
  in_range n A -> same_set A A' -> Clean C s -> 0 < amount ->
  let c := MCA C n A in
  let p := cur_get cur (enum_key A) in
  let stop := Z.min c (p + amount) in
  0 < c -> 0 <= p < c ->
  enum_key A' = enum_key A /\
  exists s2, Clean C s2 /\
    enumerate (build C n) A' amount cur s =
    (s2, cur_set cur (enum_key A) (stop mod c), Some (map sort_abs (slice p stop (EOr C A)))).
Proof.
  intros HA HS Hcl Ham c p stop Hc Hp.
  assert (HK : enum_key A' = enum_key A).
  { symmetry. apply enum_key_same_set; [now apply (sat_consistent C n)|exact HS]. }
  split; [exact HK|].
  assert (HA' : in_range n A') by (now apply (in_range_same_set n A)).
  assert (HcA : MCA C n A' = c) by (symmetry; now apply MCA_same_set).
  assert (HEA : EOr C A' = EOr C A) by (symmetry; now apply EO_same_set).
  destruct (enumerate_page_final A' amount cur s HA' Hcl Ham) as (s2 & Hcl2 & He).
  - rewrite HcA. exact Hc.
  - rewrite HK, HcA. exact Hp.
  - exists s2. split; [exact Hcl2|]. rewrite He, HK, HcA, HEA. reflexivity.
Qed.

End Final.

(* ---------- the code before F19 (finding K12): the key was the sorted LIST ---------- *)
Definition enumerate_v0 (d : ddnnf) (A : cfg) (amount : Z) (cur : cursor) (s : scratch)
  : scratch * cursor * option (list cfg) :=
  if amount =? 0 then (s, cur, Some [])
  else
    match preprocess d A s with
    | None => (s, cur, None)
    | Some s1 =>
      let A' := sort_abs A in
      let '(s2, r) := execute_query d A' s1 in
      if 0 <? r then
        let rtv := rt d s2 in
        let last_stop := cur_get cur A' in
        let stop := Z.min rtv (last_stop + amount) in
        let cur' := cur_set cur A' (stop mod rtv) in
        let page := enumerate_node d (temps s2) (length (circ d)) last_stop stop (rootn d) in
        (s2, cur', Some (map sort_abs page))
      else (s2, cur, None)
    end.

(* the two versions differ in nothing else: without a repeated feature they are the same function *)
Lemma enumerate_v0_nodup d A amount cur s :
  NoDup (map Z.abs A) -> enumerate_v0 d A amount cur s = enumerate d A amount cur s.
Proof. intros HN. unfold enumerate_v0, enumerate. now rewrite (enum_key_nodup A HN). Qed.

