(* C07 (3): uniform_random_sampling returns `amount` models that contain the assumptions, in
   feature order, for every choice stream that respects the contract; None iff unsatisfiable or
   a literal is out of range. *)
From Coq Require Import List ZArith Bool Lia Permutation.
From DD Require Import Model.Circuit Model.Query Model.Enumerate
     Proofs.PassLemmas Proofs.Enum Proofs.Semantics Proofs.CountsA Proofs.Live Proofs.C07Defs Proofs.C07Valid.
Import ListNotations.
Open Scope Z_scope.

(* ---------- sort_abs ---------- *)

Lemma insert_abs_perm x l : Permutation (insert_abs x l) (x :: l).
Proof.
  induction l as [|y l IH]; cbn [insert_abs]; [reflexivity|].
  destruct (Z.abs x <=? Z.abs y); [reflexivity|].
  transitivity (y :: x :: l); [now constructor|apply perm_swap].
Qed.

Lemma sort_abs_perm l : Permutation (sort_abs l) l.
Proof.
  induction l as [|x l IH]; [reflexivity|]. unfold sort_abs. cbn [fold_right].
  fold (sort_abs l). transitivity (x :: sort_abs l); [apply insert_abs_perm|now constructor].
Qed.

Fixpoint abs_sorted (l : cfg) : Prop :=
  match l with
  | [] => True
  | x :: l' => (forall y, In y l' -> Z.abs x <= Z.abs y) /\ abs_sorted l'
  end.

Lemma insert_abs_sorted x l : abs_sorted l -> abs_sorted (insert_abs x l).
Proof.
  induction l as [|y l IH]; intros Hs; cbn [insert_abs].
  - cbn. split; [intros y []|exact I].
  - destruct Hs as [Hy Hs]. destruct (Z.abs x <=? Z.abs y) eqn:E.
    + apply Z.leb_le in E. cbn [abs_sorted]. split; [|split; assumption].
      intros z [<-|Hz]; [exact E|]. specialize (Hy z Hz). lia.
    + apply Z.leb_gt in E. cbn [abs_sorted]. split; [|now apply IH].
      intros z Hz. apply (Permutation_in _ (insert_abs_perm x l)) in Hz.
      destruct Hz as [<-|Hz]; [lia|now apply Hy].
Qed.

Lemma sort_abs_sorted l : abs_sorted (sort_abs l).
Proof.
  induction l as [|x l IH]; [exact I|]. unfold sort_abs. cbn [fold_right].
  apply insert_abs_sorted. exact IH.
Qed.

Fixpoint lt_sorted (l : list Z) : Prop :=
  match l with
  | [] => True
  | x :: l' => (forall y, In y l' -> x < y) /\ lt_sorted l'
  end.

Lemma abs_sorted_lt m : abs_sorted m -> NoDup (map Z.abs m) -> lt_sorted (map Z.abs m).
Proof.
  induction m as [|x m IH]; intros Hs Hnd; [exact I|].
  destruct Hs as [Hx Hs]. cbn [map] in Hnd. inversion Hnd as [|? ? Hnotin Hnd']; subst.
  cbn [map lt_sorted]. split; [|now apply IH].
  intros y Hy. assert (Hy' := Hy). apply in_map_iff in Hy. destruct Hy as [z [<- Hz]].
  specialize (Hx z Hz). assert (Z.abs x <> Z.abs z) by (intros Heq; apply Hnotin; now rewrite Heq). lia.
Qed.

(* a strictly increasing list whose elements are exactly start .. start+len-1 *)
Lemma lt_sorted_range len : forall start L, lt_sorted L ->
  (forall v, In v L <-> start <= v < start + Z.of_nat len) -> L = zseq start len.
Proof.
  induction len as [|len IH]; intros start L Hs HL.
  - destruct L as [|x L]; [reflexivity|]. exfalso. specialize (proj1 (HL x) (or_introl eq_refl)). lia.
  - destruct L as [|x L].
    + exfalso. apply (proj2 (HL start)). lia.
    + destruct Hs as [Hx Hs].
      assert (Hxs : x = start).
      { assert (H1 : start <= x) by (specialize (proj1 (HL x) (or_introl eq_refl)); lia).
        assert (H2 : In start (x :: L)) by (apply HL; lia).
        destruct H2 as [H2|H2]; [exact H2|]. specialize (Hx start H2). lia. }
      subst x. cbn [zseq]. f_equal. apply IH; [exact Hs|].
      intros v. split.
      * intros Hv. specialize (Hx v Hv). specialize (proj1 (HL v) (or_intror Hv)). lia.
      * intros Hv. assert (H2 : In v (start :: L)) by (apply HL; lia).
        destruct H2 as [H2|H2]; [lia|exact H2].
Qed.

Lemma abs_table m : Forall2 (fun v l => l = v \/ l = - v) (map Z.abs m) m.
Proof. induction m as [|x m IH]; cbn [map]; constructor; [lia|exact IH]. Qed.

(* the abs-sorted version of a configuration over exactly 1..n is its canonical form *)
Lemma sort_abs_canon n s c V :
  Good c V -> range_set n V -> Permutation s c -> sort_abs s = canon_cfg n c.
Proof.
  intros HG HV Hp.
  assert (Hpm : Permutation c (sort_abs s)).
  { symmetry. transitivity s; [apply sort_abs_perm|exact Hp]. }
  destruct (Good_perm _ _ _ Hpm HG) as [Hnd Hcov].
  assert (Habs : map Z.abs (sort_abs s) = zseq 1 n).
  { apply lt_sorted_range.
    - apply abs_sorted_lt; [apply sort_abs_sorted|exact Hnd].
    - intros v. rewrite Hcov. rewrite (HV v). lia. }
  assert (Hin : In (sort_abs s) (all_cfgs n)).
  { unfold all_cfgs. apply in_all_cfgs_over. rewrite <- Habs. apply abs_table. }
  rewrite <- (canon_asg_of n _ Hin). unfold canon_cfg, canon. apply map_ext. intros v.
  assert (Heq : asg_of (sort_abs s) v = asg_of c v); [|now rewrite Heq].
  unfold asg_of. apply eq_true_iff_eq. rewrite !memZ_In.
  split; apply Permutation_in; [symmetry; exact Hpm|exact Hpm].
Qed.

(* ---------- preprocess ---------- *)

Definition out_of_range (n : nat) (A : cfg) : Prop := exists l, In l A /\ Z.of_nat n < Z.abs l.

Lemma preprocess_none C n A s :
  preprocess (build C n) A s = None <-> out_of_range n A.
Proof.
  unfold preprocess, out_of_range. cbn [nv build].
  destruct (existsb (fun f => Z.of_nat n <? Z.abs f) A) eqn:E.
  - split; [intros _|reflexivity]. apply existsb_exists in E. destruct E as [l [Hl Hlt]].
    exists l. split; [exact Hl|]. now apply Z.ltb_lt.
  - split; [discriminate|]. intros [l [Hl Hlt]]. exfalso.
    assert (existsb (fun f => Z.of_nat n <? Z.abs f) A = true); [|congruence].
    apply existsb_exists. exists l. split; [exact Hl|]. now apply Z.ltb_lt.
Qed.

Lemma in_range_not_out n A : in_range n A -> ~ out_of_range n A.
Proof. intros H [l [Hl Hlt]]. specialize (H l Hl). lia. Qed.

(* ---------- the hypothesis on execute_query (proved with the query algorithms, C02) ----------
   after preprocess, execute_query returns the number of models containing A and leaves the
   count under A in the temps of all nodes that are not true nodes *)
Definition exec_ok (C : circuit) (n : nat) (A : cfg) (s : scratch) : Prop :=
  forall s1, preprocess (build C n) A s = Some s1 ->
    snd (execute_query (build C n) A s1) = MCA C n A /\
    temps_ok A C (temps (fst (execute_query (build C n) A s1))).

Lemma root_not_true C n : WF C n -> (0 < n)%nat -> nth (root C) C FalseN <> TrueN.
Proof.
  intros HWF Hn E. pose proof (complete_range C n (wf_complete C n HWF)) as HV.
  assert (Hl : last (varss C) [] = nth (root C) (varss C) []).
  { unfold root. rewrite last_nth. unfold varss. now rewrite pass_length. }
  rewrite Hl, (varss_unfold C (wf_idx C n HWF) (root C) (root_lt C (wf_nonempty C n HWF))), E in HV.
  cbn [vars_node] in HV. apply (proj2 (HV 1)). lia.
Qed.

Section Urs.
Variables (C : circuit) (n : nat) (A : cfg) (s : scratch).
Hypothesis HWF : WF C n.
Hypothesis Hexec : exec_ok C n A s.
Notation d := (build C n).

(* None iff unsatisfiable under A or a literal is out of range *)
Theorem uniform_random_sampling_none amount chs :
  snd (fst (uniform_random_sampling d A amount chs s)) = None <->
  MCA C n A = 0 \/ out_of_range n A.
Proof.
  unfold uniform_random_sampling. pose proof (preprocess_none C n A s) as Hpre.
  destruct (preprocess d A s) as [s1|] eqn:Ep.
  - destruct (Hexec s1 Ep) as [Hr _].
    destruct (execute_query d A s1) as [s2 r]. cbn [snd] in Hr. subst r.
    assert (Hnn : 0 <= MCA C n A) by (unfold MCA; lia).
    destruct (0 <? MCA C n A) eqn:Epos.
    + apply Z.ltb_lt in Epos.
      destruct (sample_node d (temps s2) (length (circ d)) amount (rootn d) chs) as [[l rest] ok].
      cbn [fst snd]. split; [discriminate|]. intros [H|H]; [lia|]. apply Hpre in H. discriminate.
    + apply Z.ltb_ge in Epos. cbn [fst snd]. split; [intros _; left; lia|reflexivity].
  - cbn [fst snd]. split; [intros _; right; now apply Hpre|reflexivity].
Qed.

Hypothesis HA : in_range n A.
Hypothesis Hroot : nth (root C) C FalseN <> TrueN.

(* every sample of the root, abs-sorted, is a model that contains A *)
Lemma root_sample_model sm : Vp A C (root C) sm -> In (sort_abs sm) (ModelsA C n A).
Proof.
  intros [c [Hc Hp]]. apply filter_In in Hc. destruct Hc as [Hc Hokc].
  rewrite <- enum_root_nth in Hc.
  pose proof (root_good C n HWF c Hc) as HG.
  pose proof (complete_range C n (wf_complete C n HWF)) as HV.
  rewrite (sort_abs_canon n sm c _ HG HV Hp).
  unfold ModelsA. apply filter_In. split.
  - apply (Permutation_in _ (models_enum_perm C n HWF)). now apply in_map.
  - rewrite (contains_all_canon n c _ A HG HV HA). exact Hokc.
Qed.

Theorem uniform_random_sampling_valid amount chs :
  0 <= amount -> 0 < MCA C n A ->
  urs_choices_okb d A amount chs s = true ->
  exists L, snd (fst (uniform_random_sampling d A amount chs s)) = Some L /\
            length L = Z.to_nat amount /\
            Forall (fun m => In m (ModelsA C n A)) L.
Proof.
  intros Hamt Hsat Hch. unfold uniform_random_sampling. unfold urs_choices_okb in Hch.
  destruct (preprocess d A s) as [s1|] eqn:Ep.
  2:{ exfalso. apply (in_range_not_out n A HA). now apply (preprocess_none C n A s). }
  destruct (Hexec s1 Ep) as [Hr Hts].
  destruct (execute_query d A s1) as [s2 r]. cbn [fst snd] in Hr, Hts. subst r.
  assert (Epos : (0 <? MCA C n A) = true) by now apply Z.ltb_lt.
  rewrite Epos in *.
  pose proof (wf_idx C n HWF) as Hok. pose proof (root_lt C (wf_nonempty C n HWF)) as Hrl.
  destruct (sample_node_valid d A (temps s2) Hok Hts (length C) amount (root C) chs)
    as [l [rest [Hs [Hlen HV]]]]; try assumption.
  - apply reach_root.
  - right. split; [exact Hroot|]. rewrite (Hts (root C) Hrl Hroot (reach_root C)), (countsA_MCA C n A HWF HA). lia.
  - change (rootn d) with (root C). change (length (circ d)) with (length C). rewrite Hs.
    exists (map sort_abs l). cbn [fst snd]. split; [reflexivity|]. split; [now rewrite map_length|].
    apply Forall_forall. intros m Hm. apply in_map_iff in Hm. destruct Hm as [sm [<- Hsm]].
    rewrite Forall_forall in HV. apply root_sample_model. now apply HV.
Qed.

End Urs.

(* members of ModelsA are complete configurations over 1..n in feature order that contain A *)
Lemma ModelsA_shape C n A m : In m (ModelsA C n A) ->
  map Z.abs m = zseq 1 n /\ In m (Models C n) /\ (forall l, In l A -> In l m).
Proof.
  unfold ModelsA, Models. intros H. apply filter_In in H. destruct H as [Hm Hc].
  split; [|split; [exact Hm|]].
  - apply filter_In in Hm. destruct Hm as [Hm _]. unfold all_cfgs in Hm.
    apply in_all_cfgs_over in Hm. clear Hc.
    assert (Hpos : forall v, In v (zseq 1 n) -> 0 < v) by (intros v Hv; apply zseq_In in Hv; lia).
    induction Hm as [|v l vs m Hl Hm IH]; [reflexivity|]. cbn [map]. f_equal.
    + specialize (Hpos v (or_introl eq_refl)). lia.
    + apply IH. intros w Hw. apply Hpos. now right.
  - intros l Hl. unfold contains_all in Hc. rewrite forallb_forall in Hc. apply memZ_In. now apply Hc.
Qed.

(* the hypothesis "the root is not a true node" cannot be dropped: the one-node circuit [TrueN]
   over 0 features is well-formed and has one model (the empty configuration), but sampling
   returns no sample at all *)
Example urs_true_root_refuted :
  check_wf [TrueN] 0 = true /\ MCA [TrueN] 0 [] = 1 /\
  snd (fst (uniform_random_sampling (build [TrueN] 0) [] 3 [] (fresh_scratch [TrueN]))) = Some [].
Proof. vm_compute. repeat split. Qed.
