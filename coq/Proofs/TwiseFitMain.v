(* C09 pipeline, fitness variant: AttributeSimilarityMerger, the node invariant, the pass,
   complete_partial_configs_optimal and the theorem about ExtendedDdnnf::sample_t_wise for t <= n. *)
From Coq Require Import List ZArith Bool Arith Lia Permutation.
From DD Require Import Model.Circuit Model.Query Model.Optimal Model.TwiseCfg Model.TwiseMerge Model.TwisePipeline
  Model.TwiseFitness Spec.TwiseOk
  Proofs.PassLemmas Proofs.Enum Proofs.Semantics Proofs.CountsA Proofs.QueryDefs Proofs.C03Proof
  Proofs.TwiseOkProof Proofs.C09Pipeline Proofs.OptimalBridge Proofs.OptimalBest
  Proofs.TwiseBase Proofs.TwiseSem Proofs.TwiseCfgProof Proofs.TwiseInv Proofs.TwiseAnd Proofs.TwiseOr
  Proofs.TwiseShuffle Proofs.TwiseNode Proofs.TwisePass Proofs.TwiseMain Proofs.TwiseFitBase Proofs.TwiseFitMerge
  Proofs.Live Proofs.TwiseReach.
Import ListNotations.
Open Scope Z_scope.

Lemma s_add_lits S c : s_lits (s_add S c) = s_lits S.
Proof. unfold s_add. destruct (s_is_complete S c); reflexivity. Qed.

Section FitMain.
Variables (C : circuit) (n : nat) (t : nat) (vals : list Z).
Hypothesis HQ : WFQ C n.
Let d := build C n.

Notation valid := (valid C).
Notation V := (V C).
Notation CfgOK := (CfgOK C n).
Notation SampOK := (SampOK C n).
Notation CovAll := (CovAll C).
Notation LitsC := (LitsC C).
Notation LitsInv := (LitsInv C).

(* ================= AttributeSimilarityMerger ================= *)
Section OrFit.
Variables (p : nat) (W : list Z).
Hypothesis Hp : (p < length C)%nat.

Lemma or_fold : forall cands S, SampOK p W S -> Forall (CfgOK p W) cands ->
  let S' := fold_left (fun S0 c => if s_twise_covered t S0 c then S0 else s_add S0 c) cands S in
  SampOK p W S' /\ s_vars S' = s_vars S /\ s_lits S' = s_lits S /\
  (forall J, Covers S J -> Covers S' J) /\
  (forall c I, In c cands -> NoDup I -> length I = t -> incl I (c_decided c) -> Covers S' I) /\
  (cands <> [] -> s_iter S' <> []).
Proof.
  induction cands as [|c cands IH]; intros S HS Hc; cbn [fold_left]; cbv zeta.
  - split; [exact HS|]. split; [reflexivity|]. split; [reflexivity|]. split; [auto|]. split; [intros c I []|congruence].
  - inversion Hc as [|? ? Hok Hc']; subst.
    pose proof (ok_wf _ _ _ _ _ Hok) as Hwf.
    pose proof (dec_nodup n c Hwf) as Hndc.
    set (S1 := if s_twise_covered t S c then S else s_add S c).
    assert (HS1 : SampOK p W S1 /\ s_vars S1 = s_vars S /\ s_lits S1 = s_lits S /\
                  (forall J, Covers S J -> Covers S1 J) /\
                  (forall I, NoDup I -> length I = t -> incl I (c_decided c) -> Covers S1 I) /\ s_iter S1 <> []).
    { unfold S1. destruct (s_twise_covered t S c) eqn:Ecov.
      - unfold s_twise_covered in Ecov. rewrite forallb_forall in Ecov.
        assert (Hor : forall o, In o (tints (c_decided c) (Nat.min t (length (c_decided c)))) ->
                      forall l, In l o -> l <> 0 /\ inr n l).
        { intros o Ho l Hl. apply tints_in in Ho. destruct Ho as [_ Ho]. apply Ho in Hl.
          destruct (dec_inr n c l Hwf Hl). tauto. }
        split; [exact HS|]. split; [reflexivity|]. split; [reflexivity|]. split; [auto|]. split.
        + intros I HI Hlen Hinc. pose proof (NoDup_incl_length HI Hinc) as Hle.
          destruct (tints_covers (c_decided c) t I HI Hinc Hlen) as [o [Ho Hperm]].
          replace (Nat.min t (length (c_decided c))) with t in Ecov, Hor by lia.
          pose proof (Ecov o Ho) as Hcv. apply (s_covers_spec C n p W S o HS (Hor o Ho)) in Hcv.
          apply (Covers_mono S I o); [|exact Hcv]. intros l Hl. exact (Permutation_in l (Permutation_sym Hperm) Hl).
        + destruct (tints (c_decided c) (Nat.min t (length (c_decided c)))) as [|o l0] eqn:Et.
          * exfalso. apply (tints_nonempty (c_decided c) (Nat.min t (length (c_decided c))) Hndc); [lia|exact Et].
          * pose proof (Ecov o (or_introl eq_refl)) as Hcv. unfold s_covers in Hcv. apply existsb_exists in Hcv.
            destruct Hcv as [c0 [Hc0 _]]. intros E. rewrite E in Hc0. destruct Hc0.
      - split; [now apply s_add_ok|]. split; [apply s_add_vars|]. split; [apply s_add_lits|]. split; [|split].
        + intros J [x [Hx HJ]]. exists x. split; [apply s_add_iter; now right|exact HJ].
        + intros I _ _ Hinc. exists c. split; [apply s_add_iter; now left|exact Hinc].
        + intros E. assert (Hin : In c (s_iter (s_add S c))) by (apply s_add_iter; now left). rewrite E in Hin. destruct Hin. }
    destruct HS1 as [K1 [K2 [K3 [K4 [K5 K6]]]]].
    destruct (IH S1 K1 Hc') as [G1 [G2 [G3 [G4 [G5 G6]]]]]. cbv zeta in *.
    split; [exact G1|]. split; [now rewrite G2|]. split; [now rewrite G3|]. split; [auto|]. split.
    + intros c0 I [<-|Hc0] HI Hlen Hinc; [apply G4; now apply K5|now apply (G5 c0)].
    + intros _. destruct cands as [|c1 cands']; [exact K6|]. apply G6. discriminate.
Qed.

Lemma or_merge_fit_spec L R : SampOK p W L -> SampOK p W R -> s_iter L <> [] -> s_iter R <> [] ->
  let S' := or_merge_fit t vals L R in
  SampOK p W S' /\ s_iter S' <> [] /\
  (forall l, In l (s_lits S') <-> In l (s_lits L) \/ In l (s_lits R)) /\
  (forall I, NoDup I -> length I = t -> Covers L I \/ Covers R I -> Covers S' I).
Proof.
  intros HL HR HLn HRn. unfold or_merge_fit.
  assert (EL : s_is_empty L = false).
  { destruct (s_is_empty L) eqn:E; [|reflexivity]. apply s_is_empty_iter in E. congruence. }
  assert (ER : s_is_empty R = false).
  { destruct (s_is_empty R) eqn:E; [|reflexivity]. apply s_is_empty_iter in E. congruence. }
  rewrite EL, ER. cbv zeta.
  set (S0 := s_new_from [L; R]).
  assert (HS0 : SampOK p W S0).
  { constructor.
    - unfold S0. rewrite s_new_from2_vars. apply zunion_NoDup; [apply HL|apply HR].
    - intros v. unfold S0. rewrite s_new_from2_vars, zunion_In, (so_vars _ _ _ _ _ HL), (so_vars _ _ _ _ _ HR). tauto.
    - constructor.
    - intros c []. }
  set (cands := merge_sorted vals (merge_sorted vals (s_part L) (s_comp L)) (merge_sorted vals (s_part R) (s_comp R))).
  assert (Hcin : forall c, In c cands <-> In c (s_iter L) \/ In c (s_iter R)).
  { intros c. unfold cands, s_iter. rewrite !merge_sorted_in, !in_app_iff. tauto. }
  assert (Hcfgs : Forall (CfgOK p W) cands).
  { apply Forall_forall. intros c Hc. apply Hcin in Hc.
    pose proof (so_cfgs _ _ _ _ _ HL) as A. pose proof (so_cfgs _ _ _ _ _ HR) as B.
    rewrite Forall_forall in A, B. destruct Hc; auto. }
  destruct (or_fold cands S0 HS0 Hcfgs) as [G1 [G2 [G3 [G4 [G5 G6]]]]]. cbv zeta in *.
  split; [exact G1|]. split; [|split].
  - apply G6. intros Habs.
    assert (Hex : exists c0, In c0 (s_iter L)).
    { destruct (s_iter L) as [|c0 l0]; [congruence|exists c0; now left]. }
    destruct Hex as [c0 Hc0].
    assert (Hin : In c0 cands) by (apply Hcin; now left). rewrite Habs in Hin. destruct Hin.
  - intros l. rewrite G3. apply s_new_from2_lits.
  - intros I HI Hlen [[c [Hc Hi]]|[c [Hc Hi]]]; apply (G5 c I); auto; apply Hcin; auto.
Qed.

Definition AccF (Ss : list sample) (A : sample) : Prop :=
  (s_iter A = [] /\ Ss = [] /\ s_lits A = []) \/
  (SampOK p W A /\ s_iter A <> [] /\
   (forall S I, In S Ss -> NoDup I -> length I = t -> Covers S I -> Covers A I) /\
   (forall l, In l (s_lits A) <-> exists S, In S Ss /\ In l (s_lits S))).

Lemma or_merge_all_fit_spec : forall Ss done acc,
  Forall (fun S => SampOK p W S /\ s_iter S <> []) Ss -> AccF done acc ->
  AccF (done ++ Ss) (fold_left (or_merge_fit t vals) Ss acc).
Proof.
  induction Ss as [|S Ss IH]; intros done acc HSs Hacc; cbn [fold_left].
  - now rewrite app_nil_r.
  - inversion HSs as [|? ? [HS HSn] HSs']; subst.
    replace (done ++ S :: Ss) with ((done ++ [S]) ++ Ss) by (rewrite <- app_assoc; reflexivity).
    apply IH; [exact HSs'|].
    destruct Hacc as [[Ea [-> El]]|[Ha [Han [Hcov Hlits]]]].
    + unfold or_merge_fit. assert (E : s_is_empty acc = true) by now apply s_is_empty_iter. rewrite E.
      right. split; [exact HS|]. split; [exact HSn|]. split.
      * intros S0 I [<-|[]] _ _ H. exact H.
      * intros l. split; [intros H; exists S; split; [now left|exact H]|intros [S0 [[<-|[]] H]]; exact H].
    + destruct (or_merge_fit_spec acc S Ha HS Han HSn) as [G1 [G2 [G3 G4]]]. cbv zeta in *.
      right. split; [exact G1|]. split; [exact G2|]. split.
      * intros S0 I HS0 HI HIl Hc. apply in_app_iff in HS0. apply G4; auto.
        destruct HS0 as [HS0|[<-|[]]]; [left; now apply (Hcov S0 I)|now right].
      * intros l. rewrite G3, Hlits. split.
        -- intros [[S0 [H1 H2]]|H]; [exists S0; split; [apply in_app_iff; now left|exact H2]|
                                      exists S; split; [apply in_app_iff; right; now left|exact H]].
        -- intros [S0 [H1 H2]]. apply in_app_iff in H1. destruct H1 as [H1|[<-|[]]]; [left; now exists S0|now right].
Qed.

End OrFit.

(* ================= the node invariant ================= *)
Definition NodeInvF (i : nat) (res : sres) : Prop :=
  match res with
  | Void => cnt C i = 0
  | Empty => 0 < cnt C i /\ (forall v, ~ In v (V i))
  | WithSample sm =>
    0 < cnt C i /\ (exists v, In v (V i)) /\ s_iter sm <> [] /\ SampOK i (V i) sm /\
    ((t <= length (s_vars sm))%nat -> CovAll i (V i) t sm) /\ LitsInv i (V i) sm
  end.

Lemma lit_node_fit i l : (i < length C)%nat -> Reach C i -> nth i C FalseN = Lit l ->
  NodeInvF i (WithSample (s_from_literal n l)).
Proof.
  intros Hi HRi E. pose proof (lit_node C n t HQ i l Hi E) as H. cbn [NodeInv NodeInvF] in *.
  destruct H as [H1 [H2 [H3 [H4 H5]]]]. split; [exact H1|]. split; [exact H2|]. split; [exact H3|]. split; [exact H4|].
  pose proof (V_unfold C n HQ i Hi) as HV. rewrite E in HV. cbn [vars_node] in HV.
  assert (Hl : LiveLit C l).
  { exists i. split; [exact Hi|]. split; [|exact E]. split; [exact HRi|]. unfold cnt in H1. lia. }
  split.
  - intros Ht. cbn [s_from_literal s_vars length] in *. replace (Nat.min t 1) with t in H5 by lia. exact H5.
  - split; cbn [s_from_literal s_lits].
    + intros x [<-|[]]. split; [exact Hl|]. rewrite HV. now left.
    + intros x Hx Hv. rewrite HV in Hx. destruct Hx as [Hx|[]].
      assert (x = l \/ x = - l) as [->| ->] by lia; [now left|]. exfalso.
      unfold TwiseSem.valid in Hv. rewrite (cA_lit C n HQ [- l] i l Hi E) in Hv.
      assert (Em : memZ (- l) [- l] = true) by (apply memZ_In; now left). rewrite Em in Hv. lia.
Qed.

Lemma true_node_fit i : (i < length C)%nat -> nth i C FalseN = TrueN -> NodeInvF i Empty.
Proof.
  intros Hi E. cbn [NodeInvF]. split.
  - rewrite cnt_cA, (cA_true C n HQ [] i Hi E). lia.
  - intros v Hv. rewrite (V_unfold C n HQ i Hi), E in Hv. destruct Hv.
Qed.

Lemma false_node_fit i : (i < length C)%nat -> nth i C FalseN = FalseN -> NodeInvF i Void.
Proof. intros Hi E. cbn [NodeInvF]. rewrite cnt_cA. now apply (cA_false C n HQ). Qed.

Definition andres_fit (i : nat) (rs : list sres) : sres :=
  if existsb is_void rs then Void else sres_of (and_merge_all_fit d t vals i (samples_of rs)).
Definition orres_fit (i : nat) (rs : list sres) : sres :=
  if forallb is_void rs then Void else sres_of (or_merge_all_fit t vals (samples_of rs)).

Lemma results_split_fit (cs : list nat) (rs : list sres) :
  Forall2 NodeInvF cs rs -> existsb is_void rs = false ->
  Forall2 (fun c r => 0 < cnt C c /\ match r with
                                       | WithSample sm => NodeInvF c (WithSample sm)
                                       | _ => forall v, ~ In v (V c)
                                       end) cs rs.
Proof.
  induction 1 as [|c r cs rs Hcr HF IH]; intros Hv; [constructor|].
  cbn [existsb] in Hv. apply orb_false_iff in Hv. destruct Hv as [Hv1 Hv2]. constructor; [|now apply IH].
  destruct r as [| |S]; cbn [is_void NodeInvF] in *; [discriminate|tauto|tauto].
Qed.

Lemma and_node_fit i cs rs : (i < length C)%nat -> Reach C i -> nth i C FalseN = And cs ->
  Forall2 NodeInvF cs rs -> NodeInvF i (andres_fit i rs).
Proof.
  intros Hi HRi E HF. unfold andres_fit.
  assert (Hch : forall c, In c cs -> (c < length C)%nat).
  { intros c Hc. assert (c < i)%nat by (apply (child_lt C n HQ i c Hi); now rewrite E). lia. }
  destruct (existsb is_void rs) eqn:Ev.
  - cbn [NodeInvF]. apply existsb_exists in Ev. destruct Ev as [r [Hr Hv]]. destruct r; try discriminate.
    rewrite (cnt_and C n HQ i cs Hi E). apply zprod_zero.
    clear - HF Hr. induction HF as [|c r cs rs Hcr HF IH]; [destruct Hr|].
    destruct Hr as [->|Hr]; [left; cbn in Hcr; now symmetry|right; now apply IH].
  - pose proof (results_split_fit cs rs HF Ev) as HF'.
    assert (Hpos : 0 < cnt C i).
    { rewrite (cnt_and C n HQ i cs Hi E). apply zprod_pos_iff.
      - intros x Hx. apply in_map_iff in Hx. destruct Hx as [c [<- Hc]]. apply (cnt_nonneg C n HQ). now apply Hch.
      - intros x Hx. apply in_map_iff in Hx. destruct Hx as [c [<- Hc]].
        clear - HF' Hc. induction HF' as [|c0 r cs rs [Hp _] HF IH]; [destruct Hc|].
        destruct Hc as [<-|Hc]; [exact Hp|now apply IH]. }
    assert (Hcsnd : pairwise disjointb (map (fun c0 => nth c0 (varss C) []) cs) = true).
    { pose proof (wf_dec C n (wfq_wf C n HQ)) as Hdec. unfold decomposable in Hdec. rewrite forallb_forall in Hdec.
      specialize (Hdec _ (node_in C i Hi)). now rewrite E in Hdec. }
    assert (HVi : forall v, In v (V i) <-> exists c, In c cs /\ In v (V c)).
    { intros v. rewrite (V_unfold C n HQ i Hi), E. cbn [vars_node]. rewrite in_concat. split.
      - intros [L [HL Hv]]. apply in_map_iff in HL. destruct HL as [c [<- Hc]]. now exists c.
      - intros [c [Hc Hv]]. exists (nth c (varss C) []). split; [apply in_map_iff; now exists c|exact Hv]. }
    assert (Hgen : forall cs0 rs0, Forall2 (fun c r => 0 < cnt C c /\ match r with
                                     | WithSample sm => NodeInvF c (WithSample sm)
                                     | _ => forall v, ~ In v (V c)
                                     end) cs0 rs0 -> incl cs0 cs -> pairwise disjointb (map (fun c0 => nth c0 (varss C) []) cs0) = true ->
              Forall (GoodF C n t i cs) (samples_of rs0) /\ NoDup (flat_map s_vars (samples_of rs0)) /\
              (forall v, In v (flat_map s_vars (samples_of rs0)) <-> exists c, In c cs0 /\ In v (V c)) /\
              (samples_of rs0 <> [] -> exists c v, In c cs0 /\ In v (V c))).
    { induction 1 as [|c r cs0 rs0 [Hcp Hcr] HF0 IH]; intros Hinc Hnd0.
      - cbn. split; [constructor|]. split; [constructor|]. split; [|congruence].
        intros v. split; [intros []|intros [c [[] _]]].
      - cbn [map pairwise] in Hnd0. apply andb_true_iff in Hnd0. destruct Hnd0 as [Hnotin Hnd1].
        rewrite forallb_forall in Hnotin.
        destruct (IH (fun x Hx => Hinc x (or_intror Hx)) Hnd1) as [G1 [G2 [G3 G4]]].
        assert (Hc : In c cs) by (apply Hinc; now left).
        destruct r as [| |S]; cbn [samples_of flat_map app] in *.
        + split; [exact G1|]. split; [exact G2|]. split.
          * intros v. rewrite G3. split; [intros [c0 [H1 H2]]; exists c0; split; [now right|exact H2]|].
            intros [c0 [[<-|H1] H2]]; [exfalso; exact (Hcr v H2)|now exists c0].
          * intros Hne. destruct (G4 Hne) as [c0 [v [H1 H2]]]. exists c0, v. split; [now right|exact H2].
        + split; [exact G1|]. split; [exact G2|]. split.
          * intros v. rewrite G3. split; [intros [c0 [H1 H2]]; exists c0; split; [now right|exact H2]|].
            intros [c0 [[<-|H1] H2]]; [exfalso; exact (Hcr v H2)|now exists c0].
          * intros Hne. destruct (G4 Hne) as [c0 [v [H1 H2]]]. exists c0, v. split; [now right|exact H2].
        + cbn [NodeInvF] in Hcr. destruct Hcr as [_ [[v0 Hv0] [Hne [HS [HC HLI]]]]].
          assert (Hvs : forall v, In v (s_vars S) <-> In v (V c)) by apply HS.
          assert (Hlift : forall A, (forall l, In l A -> In (Z.abs l) (V c)) -> valid c A -> valid i A).
          { intros A HA. now apply (and_child_lift C n HQ i cs c A Hi E Hpos Hc HA). }
          split; [|split; [|split]].
          * constructor; [|exact G1]. right. split; [|split; [|split; [|split; [|split]]]].
            -- destruct (s_is_empty S) eqn:Ee; [|reflexivity]. apply s_is_empty_iter in Ee. congruence.
            -- apply (SampOK_ext C n i (V c)); [intros v; symmetry; apply Hvs|]. now apply (lift_samp C n c i).
            -- intros Htv I H1 H2 H3 H4. apply (HC Htv); try assumption.
               ++ intros l Hl. apply Hvs. now apply H2.
               ++ apply (proj1 (and_valid_iff C n HQ I i cs Hi E) H4 c Hc).
            -- destruct HLI as [HLs HLc]. split.
               ++ intros l Hl. destruct (HLs l Hl). split; [assumption|now apply Hvs].
               ++ intros l Hl Hv. apply HLc; [now apply Hvs|]. apply (proj1 (and_valid_iff C n HQ [l] i cs Hi E) Hv c Hc).
            -- intros c' Hc'. destruct (and_child_aligned C n HQ i cs c Hi E Hc c' Hc') as [A|A].
               ++ left. intros v Hv. apply Hvs. now apply A.
               ++ right. intros v Hv Hv'. apply Hvs in Hv'. exact (A v Hv Hv').
            -- intros v Hv. apply Hvs in Hv. exact (and_vars C n HQ i cs c Hi E Hc v Hv).
          * apply NoDup_app_intro; [apply HS|exact G2|].
            intros v Hv Hv'. apply Hvs in Hv. apply G3 in Hv'. destruct Hv' as [c0 [Hc0 Hv0']].
            assert (Hd0 : disjointb (nth c (varss C) []) (nth c0 (varss C) []) = true) by (apply Hnotin; exact (in_map (fun c1 => nth c1 (varss C) []) cs0 c0 Hc0)).
            exact (proj1 (disjointb_spec _ _) Hd0 v Hv Hv0').
          * intros v. rewrite in_app_iff, G3, Hvs. split.
            -- intros [H|[c0 [H1 H2]]]; [exists c; split; [now left|exact H]|exists c0; split; [now right|exact H2]].
            -- intros [c0 [[<-|H1] H2]]; [now left|right; now exists c0].
          * intros _. exists c, v0. split; [now left|exact Hv0]. }
    destruct (Hgen cs rs HF' (incl_refl cs) Hcsnd) as [Hg1 [Hg2 [Hg3' Hg4']]].
    assert (Hg3 : forall v, In v (flat_map s_vars (samples_of rs)) <-> In v (V i)).
    { intros v. rewrite Hg3', HVi. reflexivity. }
    destruct (and_merge_all_fit_good C n t vals HQ i cs Hi HRi E Hpos (samples_of rs) Hg1 Hg2) as [HR Hvars].
    cbv zeta in *. fold d in HR, Hvars.
    set (R := and_merge_all_fit d t vals i (samples_of rs)) in *.
    unfold sres_of. destruct HR as [[Ee [Ev' _]]|[Ee [HS [HC [HLI [_ _]]]]]]; rewrite Ee; cbn [NodeInvF].
    + split; [exact Hpos|]. intros v Hv. apply Hg3 in Hv. apply Hvars in Hv. rewrite Ev' in Hv. destruct Hv.
    + assert (Hvs : forall v, In v (s_vars R) <-> In v (V i)) by (intros v; rewrite Hvars; apply Hg3).
      assert (Hne : s_iter R <> []) by (intros Habs; apply s_is_empty_iter in Habs; congruence).
      split; [exact Hpos|]. split; [|split; [exact Hne|split; [|split]]].
      * destruct (Hg4') as [c [v [H1 H2]]]; [|exists v; apply HVi; now exists c].
        intros Habs. unfold R, and_merge_all_fit in Ee. rewrite Habs in Ee. cbn in Ee. discriminate.
      * now apply (SampOK_ext C n i (s_vars R)).
      * intros Htv. apply (CovAll_ext C i (s_vars R)); [intros v Hv; now apply Hvs|now apply HC].
      * now apply (LitsInv_ext C i (s_vars R)).
Qed.

Lemma or_node_fit i cs rs : (i < length C)%nat -> nth i C FalseN = Or cs -> Forall2 NodeInvF cs rs ->
  NodeInvF i (orres_fit i rs).
Proof.
  intros Hi E HF. unfold orres_fit.
  assert (Hch : forall c, In c cs -> (c < length C)%nat).
  { intros c Hc. assert (c < i)%nat by (apply (child_lt C n HQ i c Hi); now rewrite E). lia. }
  assert (Hnn : forall x, In x (map (cnt C) cs) -> 0 <= x).
  { intros x Hx. apply in_map_iff in Hx. destruct Hx as [c [<- Hc]]. apply (cnt_nonneg C n HQ). now apply Hch. }
  destruct (forallb is_void rs) eqn:Ev.
  - cbn [NodeInvF]. rewrite (cnt_or C n HQ i cs Hi E). apply (zsum_zero _ Hnn).
    intros x Hx. apply in_map_iff in Hx. destruct Hx as [c [<- Hc]].
    rewrite forallb_forall in Ev. clear - HF Hc Ev. induction HF as [|c0 r cs rs Hcr HF IH]; [destruct Hc|].
    destruct Hc as [<-|Hc].
    + specialize (Ev r (or_introl eq_refl)). destruct r; try discriminate. exact Hcr.
    + apply IH; [|exact Hc]. intros x Hx. apply Ev. now right.
  - assert (Hpos : 0 < cnt C i).
    { rewrite (cnt_or C n HQ i cs Hi E). apply (zsum_pos_iff _ Hnn).
      apply forallb_false_exists in Ev. destruct Ev as [r [Hr Hnv]].
      clear - HF Hr Hnv. induction HF as [|c0 r0 cs rs Hcr HF IH]; [destruct Hr|].
      destruct Hr as [->|Hr].
      + exists (cnt C c0). split; [now left|]. destruct r; cbn in *; [discriminate|tauto|tauto].
      + destruct IH as [x [Hx Hp]]; [exact Hr|]. exists x. split; [now right|exact Hp]. }
    assert (Hlift : forall c, In c cs -> forall A, valid c A -> valid i A).
    { intros c Hc A HA. apply (or_valid_iff C n HQ A i cs Hi E). now exists c. }
    assert (Hsamp : forall S, In S (samples_of rs) -> exists c, In c cs /\ NodeInvF c (WithSample S)).
    { clear - HF. induction HF as [|c r cs rs Hcr HF IH]; intros S HS; [destruct HS|].
      destruct r as [| |S0]; cbn [samples_of flat_map app] in HS.
      - destruct (IH S HS) as [c0 [H1 H2]]. exists c0. split; [now right|exact H2].
      - destruct (IH S HS) as [c0 [H1 H2]]. exists c0. split; [now right|exact H2].
      - destruct HS as [<-|HS]; [exists c; split; [now left|exact Hcr]|].
        destruct (IH S HS) as [c0 [H1 H2]]. exists c0. split; [now right|exact H2]. }
    assert (Hall : Forall (fun S => SampOK i (V i) S /\ s_iter S <> []) (samples_of rs)).
    { apply Forall_forall. intros S HS. destruct (Hsamp S HS) as [c [Hc Hinv]]. cbn [NodeInvF] in Hinv.
      destruct Hinv as [_ [_ [Hne [HSc _]]]]. split; [|exact Hne].
      apply (SampOK_ext C n i (V c)); [intros v; apply (or_vars_eq C n HQ i cs c Hi E Hc)|].
      apply (lift_samp C n c i); [|exact HSc]. intros A _. now apply Hlift. }
    pose proof (or_merge_all_fit_spec i (V i) Hi (samples_of rs) [] s_default Hall) as Hacc.
    cbn [app] in Hacc. specialize (Hacc (or_introl (conj eq_refl (conj eq_refl eq_refl)))).
    fold (or_merge_all_fit t vals (samples_of rs)) in Hacc.
    set (R := or_merge_all_fit t vals (samples_of rs)) in *.
    assert (Hinres : forall r, In r rs -> exists c, In c cs /\ NodeInvF c r).
    { clear - HF. induction HF as [|c0 r0 cs rs Hcr HF IH]; intros r Hr; [destruct Hr|].
      destruct Hr as [->|Hr]; [exists c0; split; [now left|exact Hcr]|].
      destruct (IH r Hr) as [c [H1 H2]]. exists c. split; [now right|exact H2]. }
    assert (Hsamp_in : forall S, In (WithSample S) rs -> In S (samples_of rs)).
    { clear. induction rs as [|r0 rs IH]; intros S Hr; [destruct Hr|]. cbn [samples_of flat_map].
      destruct Hr as [->|Hr]; [now left|]. apply in_app_iff. right. now apply IH. }
    unfold sres_of. destruct Hacc as [[Ee [Es _]]|[HS [Hne [Hcov Hlits]]]].
    + assert (Eemp : s_is_empty R = true) by now apply s_is_empty_iter. rewrite Eemp. cbn [NodeInvF].
      split; [exact Hpos|]. intros v Hv.
      apply forallb_false_exists in Ev. destruct Ev as [r [Hr Hnv]].
      destruct (Hinres r Hr) as [c [Hc Hinv]]. destruct r as [| |S]; [discriminate| |].
      * cbn [NodeInvF] in Hinv. destruct Hinv as [_ Hnov]. apply (Hnov v). now apply (or_vars_eq C n HQ i cs c Hi E Hc).
      * pose proof (Hsamp_in S Hr) as HinS. rewrite Es in HinS. destruct HinS.
    + assert (Eemp : s_is_empty R = false).
      { destruct (s_is_empty R) eqn:Ee; [|reflexivity]. apply s_is_empty_iter in Ee. congruence. }
      rewrite Eemp. cbn [NodeInvF].
      assert (HexS : exists S, In S (samples_of rs)).
      { destruct (samples_of rs) as [|S l] eqn:Es; [|exists S; now left].
        exfalso. unfold R, or_merge_all_fit in Hne. rewrite ?Es in Hne. cbn in Hne. congruence. }
      destruct HexS as [S0 HS0]. destruct (Hsamp S0 HS0) as [c0 [Hc0 Hinv0]]. cbn [NodeInvF] in Hinv0.
      destruct Hinv0 as [_ [[v0 Hv0] _]].
      (* a child in which a literal list is valid has a sample *)
      assert (Hchild : forall A, valid i A -> exists c S, In c cs /\ valid c A /\ In S (samples_of rs) /\
                         NodeInvF c (WithSample S)).
      { intros A Hv. apply (or_valid_iff C n HQ A i cs Hi E) in Hv. destruct Hv as [c [Hc Hvc]].
        pose proof (valid_live C n HQ c A (Hch c Hc) Hvc) as Hcpos.
        assert (Hres : exists r, In r rs /\ NodeInvF c r).
        { clear - HF Hc. induction HF as [|c1 r0 cs rs Hcr HF IH]; [destruct Hc|].
          destruct Hc as [<-|Hc]; [exists r0; split; [now left|exact Hcr]|].
          destruct (IH Hc) as [r [H1 H2]]. exists r. split; [now right|exact H2]. }
        destruct Hres as [r [Hr Hinv]].
        assert (Hvne : In v0 (V c)).
        { apply (or_vars_eq C n HQ i cs c Hi E Hc). now apply (or_vars_eq C n HQ i cs c0 Hi E Hc0). }
        destruct r as [| |S]; cbn [NodeInvF] in Hinv.
        - lia.
        - exfalso. exact (proj2 Hinv v0 Hvne).
        - exists c, S. split; [exact Hc|]. split; [exact Hvc|]. split; [now apply Hsamp_in|exact Hinv]. }
      split; [exact Hpos|]. split; [exists v0; now apply (or_vars_eq C n HQ i cs c0 Hi E Hc0)|].
      split; [exact Hne|]. split; [exact HS|]. split.
      * intros Htv I HI HIv Hlen Hv.
        destruct (Hchild I Hv) as [c [S [Hc [Hvc [HinS Hinv]]]]]. cbn [NodeInvF] in Hinv.
        destruct Hinv as [_ [_ [_ [HSc [HCc _]]]]].
        assert (Hsame : length (s_vars S) = length (s_vars R)).
        { apply NoDup_same_length; [apply HSc|apply HS|]. intros v.
          rewrite (so_vars _ _ _ _ _ HSc), (so_vars _ _ _ _ _ HS). apply (or_vars_eq C n HQ i cs c Hi E Hc). }
        apply (Hcov S I HinS); [apply (NoDup_map_inv Z.abs); exact HI|exact Hlen|].
        apply HCc; try assumption; [lia|].
        intros l Hl. apply (or_vars_eq C n HQ i cs c Hi E Hc). now apply HIv.
      * split.
        -- intros l Hl. apply Hlits in Hl. destruct Hl as [S [HinS Hl]].
           destruct (Hsamp S HinS) as [c [Hc Hinv]]. cbn [NodeInvF] in Hinv.
           destruct Hinv as [_ [_ [_ [_ [_ [HLs _]]]]]]. destruct (HLs l Hl) as [A B]. split; [exact A|].
           now apply (or_vars_eq C n HQ i cs c Hi E Hc).
        -- intros l Hl Hv. destruct (Hchild [l] Hv) as [c [S [Hc [Hvc [HinS Hinv]]]]]. cbn [NodeInvF] in Hinv.
           destruct Hinv as [_ [_ [_ [_ [_ [_ HLc]]]]]]. apply Hlits. exists S. split; [exact HinS|].
           apply HLc; [now apply (or_vars_eq C n HQ i cs c Hi E Hc)|exact Hvc].
Qed.

Lemma fit_root : exists ps res, partial_samples_fit d t vals = Some ps /\
  nth (root C) ps None = Some res /\ NodeInvF (root C) res.
Proof.
  apply (pass_root_reach C n HQ NodeInvF (partial_sample_fit d t vals) andres_fit orres_fit).
  - intros i ps. unfold partial_sample_fit. change (circ d) with C. change (nv d) with n.
    destruct (nth i C FalseN); reflexivity.
  - intros i rs. unfold andres_fit. destruct (existsb is_void rs); [reflexivity|apply sres_of_not_void].
  - intros i rs. unfold orres_fit. destruct (forallb is_void rs); [reflexivity|apply sres_of_not_void].
  - intros i Hz. exact Hz.
  - exact lit_node_fit.
  - exact and_node_fit.
  - intros i cs rs Hi _ E HF. exact (or_node_fit i cs rs Hi E HF).
  - intros i Hi _ E. now apply true_node_fit.
Qed.

(* ================= the root: trim, optimal completion ================= *)
Variable trim_pick : list (list Z) -> list bool.
Variable ord_shuf : list Z -> list Z.
Hypothesis Hord_shuf : forall l, Permutation (ord_shuf l) l.
Hypothesis Hn : (1 <= n)%nat.
Hypothesis Hrc : 0 < root_count C.
Hypothesis Htn : (t <= n)%nat.

Let r := root C.
Notation W := (V r).

Lemma best_complete c : CfgOK r W c ->
  exists oc, calc_best_config vals (c_decided c) C = Some oc /\
    let c' := c_from n (fst oc) in
    CfgOK r W c' /\ (forall v, In v (zseq 1 n) -> In v (c_decided c') \/ In (- v) (c_decided c')) /\
    incl (c_decided c) (c_decided c').
Proof.
  intros Hok. pose proof (root_lt' C n HQ) as Hr.
  pose proof (wf_idx C n (wfq_wf C n HQ)) as Hidx.
  pose proof (best_nodes vals (c_decided c) C Hidx (root C) Hr) as Hb. rewrite <- calc_best_root in Hb.
  fold r in Hr, Hb.
  destruct (valid_witness C n HQ r (c_decided c) Hr (ok_valid _ _ _ _ _ Hok)) as [e [He Hoke]].
  assert (HeEA : In e (EA (c_decided c) C r)) by (unfold EA; apply filter_In; split; [exact He|exact Hoke]).
  destruct (calc_best_config vals (c_decided c) C) as [x|]; cbn [best_ok] in Hb.
  2:{ rewrite Hb in HeEA. destruct HeEA. }
  destruct Hb as [[c0 [Hc0 ->]] _]. exists (tag vals c0). split; [reflexivity|]. cbn [tag fst]. cbv zeta.
  unfold EA in Hc0. apply filter_In in Hc0. destruct Hc0 as [Hc0 Hcomp].
  pose proof (enum_good C n HQ r c0 Hr Hc0) as [Hnd0 Hset0].
  assert (Hlits0 : forall l, In l c0 -> In l (lits_of C)) by (intros l Hl; exact (enum_lits C n HQ r Hr c0 l Hc0 Hl)).
  destruct (from_spec n c0) as [Hwf [Hdec Hst]].
  { intros l Hl. split; [exact (lits_of_nonzero C n HQ l (Hlits0 l Hl))|exact (lits_inr C n HQ l (Hlits0 l Hl))]. }
  { intros l Hl Hnl.
    assert (- l = l) by (apply (NoDup_map_inj_in Z.abs c0 (- l) l Hnd0 Hnl Hl); now rewrite Z.abs_opp).
    assert (l = 0) by lia. subst. exact (lits_of_nonzero C n HQ 0 (Hlits0 0 Hl) eq_refl). }
  split; [|split].
  - constructor.
    + exact Hwf.
    + intros l Hl. apply Hdec in Hl. apply Hset0. now apply in_map.
    + apply (incl_witness_valid C n HQ r _ c0 Hr Hc0). intros l Hl. now apply Hdec.
    + unfold StOK. now rewrite Hst.
  - intros v Hv. assert (Hin : In v (map Z.abs c0)).
    { apply Hset0. apply (root_vars C n HQ). apply zseq_In in Hv. lia. }
    apply in_map_iff in Hin. destruct Hin as [l [Habs Hl]].
    assert (Hvp : 0 < v) by (apply zseq_In in Hv; lia).
    assert (l = v \/ l = - v) as [->| ->] by lia; [left|right]; now apply Hdec.
  - intros l Hl. apply Hdec.
    exact (okA_incl (c_decided c) c0 W (conj Hnd0 Hset0) (ok_vars _ _ _ _ _ Hok) Hcomp l Hl).
Qed.

Lemma complete_optimal_ok : forall parts S0, (forall c, In c parts -> CfgOK r W c) ->
  exists S2, complete_optimal d vals parts S0 = Some S2 /\
    (forall x, In x (s_iter S0) -> In x (s_iter S2)) /\
    (forall x, In x (s_iter S2) -> In x (s_iter S0) \/
        (In (c_lits x) (Models C n) /\ exists c, In c parts /\ incl (c_decided c) (c_lits x))) /\
    (forall c, In c parts -> exists x, In x (s_iter S2) /\ In (c_lits x) (Models C n) /\ incl (c_decided c) (c_lits x)).
Proof.
  induction parts as [|c parts IH]; intros S0 Hall; cbn [complete_optimal].
  - exists S0. split; [reflexivity|]. split; [auto|]. split; [auto|intros c []].
  - change (circ d) with C. change (nv d) with n.
    destruct (best_complete c (Hall c (or_introl eq_refl))) as [oc [Hb [Hok [Hfull Hinc]]]]. cbv zeta in *.
    rewrite Hb. destruct (full_is_model C n HQ Hn _ Hok Hfull) as [Hm Hd].
    destruct (IH (s_add S0 (c_from n (fst oc))) (fun x Hx => Hall x (or_intror Hx))) as [S2 [H1 [H2 [H3 H4]]]].
    exists S2. split; [exact H1|]. split; [|split].
    + intros x Hx. apply H2. apply s_add_iter. now right.
    + intros x Hx. destruct (H3 x Hx) as [Hx'|[Hxm [c1 [Hc1 Hi1]]]].
      * apply s_add_iter in Hx'. destruct Hx' as [->|Hx']; [|now left].
        right. split; [exact Hm|]. exists c. split; [now left|]. now rewrite <- Hd.
      * right. split; [exact Hxm|]. exists c1. split; [now right|exact Hi1].
    + intros c1 [<-|Hc1]; [|now apply H4].
      exists (c_from n (fst oc)). split; [apply H2; apply s_add_iter; now left|]. split; [exact Hm|]. now rewrite <- Hd.
Qed.

(* ================= the theorem ================= *)
Theorem sample_t_wise_fit_covers :
  exists S, sample_t_wise_fit d t vals trim_pick ord_shuf = Some (WithSample S) /\
            twise_ok C n t (map c_lits (s_iter S)) = true.
Proof.
  pose proof (root_lt' C n HQ) as Hr. fold r in Hr.
  assert (Hrpos : 0 < cnt C r) by (unfold cnt, r; now rewrite <- root_count_nth).
  destruct fit_root as [ps [res [Hps [Hroot Hinv]]]]. fold r in Hroot, Hinv.
  destruct res as [| |S]; cbn [NodeInvF] in Hinv.
  { lia. }
  { exfalso. destruct Hinv as [_ Hnov]. apply (Hnov 1). apply (root_vars C n HQ). lia. }
  destruct Hinv as [_ [_ [Hne [HS [HC _]]]]].
  pose proof (vars_length C n HQ Hn S HS) as Hvl.
  assert (HR0 : RootOK C n t S).
  { split; [exact HS|]. replace (Nat.min t n) with t by lia. apply HC. lia. }
  pose proof (trim_ok C n t HQ trim_pick ord_shuf Hord_shuf Hn Hrc S HR0 Hne) as HR1. fold d r in HR1.
  set (S1 := trim_and_resample d t trim_pick ord_shuf r S) in *.
  destruct HR1 as [HS1 HC1]. replace (Nat.min t n) with t in HC1 by lia.
  pose proof (so_cfgs _ _ _ _ _ HS1) as Hall. rewrite Forall_forall in Hall.
  assert (Hcomp : forall c, In c (s_comp S1) -> In (c_lits c) (Models C n) /\ c_decided c = c_lits c).
  { intros c Hc. assert (Hok : CfgOK r W c) by (apply Hall; unfold s_iter; apply in_app_iff; now left).
    apply (full_is_model C n HQ Hn c Hok). intros v Hv.
    pose proof (comp_full C n r W S1 c HS1 Hc v ltac:(apply (root_vars C n HQ); apply zseq_In in Hv; lia)) as Hin.
    apply in_map_iff in Hin. destruct Hin as [l [Habs Hl]].
    assert (Hvp : 0 < v) by (apply zseq_In in Hv; lia).
    assert (l = v \/ l = - v) as [->| ->] by lia; auto. }
  destruct (complete_optimal_ok (rev (s_part S1)) (mkS (s_comp S1) [] (s_vars S1) (s_lits S1))) as [S2 [H1 [H2 [H3 H4]]]].
  { intros c Hc. apply Hall. unfold s_iter. apply in_app_iff. right. now apply in_rev. }
  exists S2. split.
  - unfold sample_t_wise_fit. rewrite Hps. change (length (circ d) - 1)%nat with r. rewrite Hroot.
    fold S1. now rewrite H1.
  - apply twise_ok_sound_complete. split.
    + intros x Hx. apply in_map_iff in Hx. destruct Hx as [x0 [<- Hx0]].
      destruct (H3 x0 Hx0) as [Hx'|[Hm _]]; [|exact Hm].
      unfold s_iter in Hx'. cbn [s_comp s_part] in Hx'. rewrite app_nil_r in Hx'. now apply Hcomp.
    + intros I [HI1 [HI2 [HI3 [m [Hm Hinc]]]]].
      assert (HIr : CountsA.in_range n I) by exact HI2.
      assert (Hv : valid r I).
      { unfold TwiseSem.valid, cA. unfold r.
        rewrite (countsA_MCA C n I (wfq_wf C n HQ) HIr). apply MCA_pos_iff. now exists m. }
      replace (Nat.min t n) with t in HI3 by lia.
      destruct (HC1 I HI1) as [c [Hc Hci]]; [intros l Hl; apply (root_vars C n HQ); now apply HI2|exact HI3|exact Hv|].
      unfold s_iter in Hc. apply in_app_iff in Hc. destruct Hc as [Hc|Hc].
      * exists (c_lits c). split.
        -- apply in_map. apply H2. unfold s_iter. cbn [s_comp s_part]. apply in_app_iff. now left.
        -- destruct (Hcomp c Hc) as [_ E]. now rewrite <- E.
      * destruct (H4 c ltac:(now apply -> in_rev)) as [x [Hx [_ Hsub]]].
        exists (c_lits x). split; [now apply in_map|]. intros l Hl. apply Hsub. now apply Hci.
Qed.

End FitMain.
