(* C12: the repaired clause cache refines the abstract clause-set machine.
   Coupling invariant R, one lemma per command, induction over the history. *)
From Coq Require Import List ZArith Bool Lia Sorted.
From DD Require Import Model.Circuit Spec.CnfMachine Model.ClauseCache Proofs.ClauseCacheSets.
Import ListNotations.
Open Scope Z_scope.

Definition set_eq (a b : list clause) : Prop := forall x, In x a <-> In x b.
Definition equiv_cnf (a b : list clause) : Prop := forall s : asg, cs_sat s a = cs_sat s b.

Lemma In_cdec (x : clause) l : In x l \/ ~ In x l.
Proof. destruct (in_dec clause_dec x l); [left|right]; assumption. Qed.

Lemma set_eq_equiv a b : set_eq a b -> equiv_cnf a b.
Proof. intros H s. apply cs_sat_set. exact H. Qed.

Lemma existsb_set {A} (p : A -> bool) a b : (forall x, In x a <-> In x b) -> existsb p a = existsb p b.
Proof.
  intros Heq. destruct (existsb p a) eqn:Ea; symmetry.
  - apply existsb_exists in Ea. destruct Ea as [x [Hx Hp]]. apply existsb_exists. exists x.
    split; [apply Heq; exact Hx|exact Hp].
  - destruct (existsb p b) eqn:Eb; [|reflexivity].
    apply existsb_exists in Eb. destruct Eb as [x [Hx Hp]].
    assert (existsb p a = true) as H by (apply existsb_exists; exists x; split; [apply Heq; exact Hx|exact Hp]).
    congruence.
Qed.

Lemma uses_above_set t a b : set_eq a b -> uses_above t a = uses_above t b.
Proof. intros H. unfold uses_above. apply existsb_set. exact H. Qed.

(* ---------- the part of the invariant that concerns the clause cache alone ----------
   cur / prev: the abstract current and previous clause sets.  edit_add / edit_rmv are the
   difference that leads back: prev = (cclauses \ edit_add) + edit_rmv, with edit_add inside
   and edit_rmv outside of (cclauses \ edit_add), both duplicate-free. *)
Record Inv (c : cache) (cur prev : list clause) : Prop := mkInv {
  inv_sorted : SS (cclauses c);
  inv_cur : set_eq (cclauses c) cur;
  inv_add_nodup : NoDup (edit_add c);
  inv_add_in : forall x, In x (edit_add c) -> In x (cclauses c);
  inv_back : forall x, In x prev <-> (In x (cclauses c) /\ ~ In x (edit_add c)) \/ In x (edit_rmv c);
  inv_rmv_nodup : NoDup (edit_rmv c);
  inv_rmv_out : forall x, In x (edit_rmv c) -> ~ In x (cclauses c) \/ In x (edit_add c);
}.

Lemma Inv_set_old c o cur prev : Inv c cur prev -> Inv (set_old c o) cur prev.
Proof. intros []. constructor; assumption. Qed.

(* what the two loops of setup_for_edit establish *)
Lemma edit_inv cl rm ad s1 s2 added tot otot o cur' prev' :
  SS cl -> remove_all rm cl = Some s1 -> insert_all ad s1 = (s2, added) ->
  (forall x, In x cur' <-> (In x cl /\ ~ In x rm) \/ In x ad) ->
  (forall x, In x prev' <-> In x cl) ->
  Inv (mkCache s2 added rm tot otot o) cur' prev'.
Proof.
  intros Hcl Hr Hi Hcur Hprev.
  destruct (remove_all_some rm cl s1 Hcl Hr) as [S1 [Nrm [Rin H1]]].
  pose proof (insert_all_spec ad s1 S1) as J. rewrite Hi in J. cbn [fst snd] in J.
  destruct J as [S2 [H2 [Nad H4]]].
  constructor; cbn [cclauses edit_add edit_rmv].
  - exact S2.
  - intros x. rewrite H2, H1, Hcur. tauto.
  - exact Nad.
  - intros x Hx. apply H4 in Hx. apply H2. right. apply Hx.
  - intros x. rewrite Hprev. split.
    + intros Hx. destruct (In_cdec x rm) as [Hm|Hm]; [right; exact Hm|left].
      assert (In x s1) as Hs1 by (apply H1; split; assumption).
      split; [apply H2; left; exact Hs1|]. intros Ha. apply H4 in Ha. exact (proj2 Ha Hs1).
    + intros [[Hx Hna]|Hx]; [|apply Rin; exact Hx].
      destruct (In_cdec x s1) as [Hs1|Hs1]; [apply H1 in Hs1; apply Hs1|].
      exfalso. apply Hna. apply H4. split; [|exact Hs1].
      apply H2 in Hx. destruct Hx as [Hx|Hx]; [exfalso; exact (Hs1 Hx)|exact Hx].
  - exact Nrm.
  - intros x Hx. assert (~ In x s1) as Hs1 by (intros H; apply H1 in H; exact (proj2 H Hx)).
    destruct (In_cdec x ad) as [Ha|Ha].
    + right. apply H4. split; assumption.
    + left. intros H. apply H2 in H. destruct H as [H|H]; [exact (Hs1 H)|exact (Ha H)].
Qed.

Section Refine.
Variable loadable : clause_set -> nat -> bool.

Notation upd := (cc_update false loadable).
Notation und := (cc_undo false).
Notation stp := (cc_step false loadable).
Notation runm := (cc_run false loadable).

(* the previous abstract state; without one the current state stands for it *)
Definition prev_of (m : mstate) : list clause * nat :=
  match m_prev m with Some p => p | None => (m_cs m, m_n m) end.

(* a live model compiled from (fst l, snd l) stands for the abstract (cs, n) *)
Definition live_ok (l : live) (cs : list clause) (n : nat) : Prop :=
  snd l = n /\ equiv_cnf (fst l) cs /\ loadable (fst l) (snd l) = true.

(* the coupling invariant *)
Definition R (d : dstate) (m : mstate) : Prop :=
  exists c, cached d = Some c /\
    Inv c (m_cs m) (fst (prev_of m)) /\
    total c = Some (m_n m) /\ old_total c = Some (snd (prev_of m)) /\
    live_ok (live_of d) (m_cs m) (m_n m) /\
    match m_prev m with
    | None => old c = None
    | Some (pcs, pn) => exists o, old c = Some o /\ live_ok o pcs pn
    end.

(* ---------- initial state ---------- *)
Lemma R_init raw n cs d :
  load_cnf loadable raw n = Some d ->
  equiv_cnf raw cs -> set_eq (stored_set raw) cs ->
  R d (m_init cs n).
Proof.
  unfold load_cnf. intros Hl Heq Hset.
  destruct (loadable raw n) eqn:El; [|discriminate]. inversion Hl; subst d; clear Hl.
  destruct (cs_of_list_spec (map mk_clause (simplify_clauses raw))) as [S1 _].
  fold (stored_set raw) in S1.
  exists (initialize (stored_set raw) n). cbn [cached live_of m_init m_cs m_n m_prev prev_of fst snd].
  split; [reflexivity|]. split.
  - constructor; cbn [initialize cclauses edit_add edit_rmv].
    + exact S1.
    + exact Hset.
    + constructor.
    + intros x [].
    + intros x. rewrite <- (Hset x). cbn [In]. tauto.
    + constructor.
    + intros x [].
  - split; [reflexivity|]. split; [reflexivity|]. split; [|reflexivity].
    split; [reflexivity|]. split; [exact Heq|exact El].
Qed.

(* for a non-empty stored set the loader before F9 is the same function *)
Lemma load_cnf_v0_nonempty raw n :
  stored_set raw <> [] -> load_cnf_v0 loadable raw n = load_cnf loadable raw n.
Proof.
  intros Hne. unfold load_cnf_v0, load_cnf. destruct (loadable raw n); [|reflexivity].
  destruct (stored_set raw) as [|c0 r0]; [exfalso; apply Hne; reflexivity|reflexivity].
Qed.

(* ---------- clause-update ---------- *)
Definition rmv_ok (m : mstate) (rmvN : list clause) : bool :=
  forallb (fun c => mem_clause c (m_cs m)) rmvN && nodup_clauses rmvN.

Definition m_after (m : mstate) (addN rmvN : list clause) (tot : nat) : mstate :=
  mkM (filter (fun c => negb (mem_clause c rmvN)) (m_cs m) ++ addN) tot (Some (m_cs m, m_n m)).

Lemma rmv_ok_iff m c rmvN : set_eq (cclauses c) (m_cs m) ->
  rmv_ok m rmvN = true <-> NoDup rmvN /\ forall x, In x rmvN -> In x (cclauses c).
Proof.
  intros Hs. unfold rmv_ok. rewrite andb_true_iff, nodup_clauses_NoDup, forallb_forall. split.
  - intros [H1 H2]. split; [exact H2|]. intros x Hx. apply Hs. apply mem_clause_In. apply H1. exact Hx.
  - intros [H1 H2]. split; [|exact H1]. intros x Hx. apply mem_clause_In. apply Hs. apply H2. exact Hx.
Qed.

Lemma update_refines d m addN rmvN tot : R d m ->
  match upd d addN rmvN tot with
  | (d', UTrue) => rmv_ok m rmvN = true /\ R d' (m_after m addN rmvN tot)
  | (d', UFalse) => rmv_ok m rmvN = false /\ d' = d
  | (d', UPanic) => rmv_ok m rmvN = true /\
                    loadable (canon_set (m_cs (m_after m addN rmvN tot))) tot = false
  end.
Proof.
  intros [c [Hc [HI [Ht [Hot [Hl Ho]]]]]].
  unfold cc_update. rewrite Hc. unfold apply_edits_and_replace. rewrite Ht.
  unfold setup_for_edit.
  pose proof (inv_sorted _ _ _ HI) as Scl. pose proof (inv_cur _ _ _ HI) as Hcur.
  destruct (remove_all rmvN (cclauses c)) as [s1|] eqn:Er.
  - destruct (remove_all_some rmvN _ s1 Scl Er) as [S1 [Nrm [Rin H1]]].
    destruct (insert_all addN s1) as [s2 added] eqn:Ei.
    assert (rmv_ok m rmvN = true) as Hok by (apply (rmv_ok_iff m c rmvN Hcur); split; assumption).
    assert (forall x, In x (m_cs (m_after m addN rmvN tot)) <->
                      (In x (cclauses c) /\ ~ In x rmvN) \/ In x addN) as Hnew.
    { intros x. cbn [m_after m_cs]. rewrite in_app_iff, filter_In, negb_true_iff, mem_clause_false.
      rewrite <- (Hcur x). tauto. }
    assert (forall o, Inv (mkCache s2 added rmvN (Some tot) (total c) o)
                          (m_cs (m_after m addN rmvN tot)) (m_cs m)) as HI'.
    { intros o. apply (edit_inv (cclauses c) rmvN addN s1 s2 added); try assumption.
      intros x. symmetry. apply Hcur. }
    pose proof (inv_sorted _ _ _ (HI' None)) as S2. cbn [cclauses] in S2.
    pose proof (inv_cur _ _ _ (HI' None)) as Hcur2. cbn [cclauses] in Hcur2.
    cbn [cclauses]. destruct (loadable s2 tot) eqn:El.
    + split; [exact Hok|].
      unfold do_swap. cbn [cached set_old old cclauses edit_add edit_rmv total old_total live_of].
      eexists. cbn [cached]. split; [reflexivity|].
      cbn [m_after m_cs m_n m_prev prev_of fst snd total old_total old live_of].
      split; [apply HI'|]. split; [reflexivity|]. split; [exact Ht|]. split.
      * split; [reflexivity|]. split; [apply set_eq_equiv; exact Hcur2|exact El].
      * exists (live_of d). split; [reflexivity|exact Hl].
    + split; [exact Hok|]. rewrite <- (canon_set_unique s2 _ S2 Hcur2). exact El.
  - split.
    + destruct (rmv_ok m rmvN) eqn:E; [|reflexivity]. exfalso.
      apply (remove_all_none rmvN _ Scl Er). apply (rmv_ok_iff m c rmvN Hcur). exact E.
    + destruct d as [l cc]. cbn [cached live_of] in *. subst cc. reflexivity.
Qed.

(* the stream level: clause-update [t tv] [add ..] [rmv ..] *)
Lemma accepts_unfold m t add rmv :
  m_accepts m t add rmv =
  (match t with
   | Some tv => (0 <? tv) && negb (uses_above (Z.to_nat tv) (m_cs m))
   | None => true
   end
   && negb (uses_above (m_target m t) (add ++ rmv))
   && rmv_ok m (map mk_clause rmv)).
Proof. unfold m_accepts, rmv_ok. rewrite andb_assoc. reflexivity. Qed.

(* what one clause-update may do, judged by the abstract machine *)
Definition update_ok (d : dstate) (m : mstate) (t : option Z) (add rmv : list (list Z))
           (d' : dstate) (a : cc_answer) : Prop :=
  match a with
  | AOk => m_accepts m t add rmv = true /\ R d' (m_update m t add rmv)
  | AErr _ => m_accepts m t add rmv = false /\ d' = d
  | APanic => m_accepts m t add rmv = true /\
              loadable (canon_set (m_cs (m_update m t add rmv))) (m_n (m_update m t add rmv)) = false
  | ASaved _ => False
  end.

Lemma m_update_accepted m t add rmv : m_accepts m t add rmv = true ->
  m_update m t add rmv = m_after m (map mk_clause add) (map mk_clause rmv) (m_target m t).
Proof. intros H. unfold m_update. rewrite H. reflexivity. Qed.

Lemma continue_refines d m t add rmv :
  R d m ->
  match t with
  | Some tv => (0 <? tv) && negb (uses_above (Z.to_nat tv) (m_cs m))
  | None => true
  end = true ->
  let '(d', a) := cu_continue false loadable d (m_target m t) add rmv in
  update_ok d m t add rmv d' a.
Proof.
  intros HR Ht. unfold cu_continue, update_ok.
  pose proof (accepts_unfold m t add rmv) as Hacc. rewrite Ht in Hacc. cbn [andb] in Hacc.
  destruct (uses_above (m_target m t) (add ++ rmv)) eqn:Eb.
  - cbn [negb andb] in Hacc. split; [exact Hacc|reflexivity].
  - cbn [negb andb] in Hacc.
    pose proof HR as [c [Hc _]]. rewrite Hc.
    pose proof (update_refines d m (map mk_clause add) (map mk_clause rmv) (m_target m t) HR) as HU.
    destruct (upd d (map mk_clause add) (map mk_clause rmv) (m_target m t)) as [d' r].
    destruct r; destruct HU as [Hok HU]; rewrite Hok in Hacc.
    + split; [exact Hacc|]. rewrite (m_update_accepted _ _ _ _ Hacc). exact HU.
    + split; [exact Hacc|exact HU].
    + split; [exact Hacc|]. rewrite (m_update_accepted _ _ _ _ Hacc). cbn [m_after m_n]. exact HU.
Qed.

Lemma clause_update_refines d m t add rmv : R d m ->
  let '(d', a) := clause_update false loadable d t add rmv in update_ok d m t add rmv d' a.
Proof.
  intros HR. unfold clause_update.
  pose proof HR as [c [Hc [HI [Ht [Hot [Hl Ho]]]]]].
  destruct t as [tv|].
  - rewrite Hc. destruct (0 <? tv) eqn:Etv.
    + unfold contains_conflicting_clauses.
      rewrite (uses_above_set (Z.to_nat tv) _ _ (inv_cur _ _ _ HI)).
      destruct (uses_above (Z.to_nat tv) (m_cs m)) eqn:Ec.
      * unfold update_ok. split; [|reflexivity]. rewrite accepts_unfold, Etv, Ec. reflexivity.
      * apply (continue_refines d m (Some tv) add rmv HR). rewrite Etv, Ec. reflexivity.
    + unfold update_ok. split; [|reflexivity]. rewrite accepts_unfold, Etv. reflexivity.
  - assert (live_n d = m_target m None) as -> by (unfold live_n; apply Hl).
    apply (continue_refines d m None add rmv HR). reflexivity.
Qed.

(* ---------- undo-update ---------- *)
Lemma undo_cache c cur prev : Inv c cur prev ->
  exists s2, setup_for_undo false c =
             (mkCache s2 (edit_rmv c) (edit_add c) (old_total c) (total c) (old c), true) /\
             Inv (mkCache s2 (edit_rmv c) (edit_add c) (old_total c) (total c) (old c)) prev cur.
Proof.
  intros HI. unfold setup_for_undo, setup_for_edit.
  pose proof (inv_sorted _ _ _ HI) as Scl.
  destruct (remove_all_complete (edit_add c) (cclauses c) Scl (inv_add_nodup _ _ _ HI) (inv_add_in _ _ _ HI))
    as [s1 Er].
  rewrite Er. destruct (remove_all_some _ _ s1 Scl Er) as [S1 [_ [_ H1]]].
  destruct (insert_all (edit_rmv c) s1) as [s2 added] eqn:Ei.
  assert (added = edit_rmv c) as Hadd.
  { pose proof (insert_all_fresh (edit_rmv c) s1 S1 (inv_rmv_nodup _ _ _ HI)) as HF.
    rewrite Ei in HF. cbn [snd] in HF. apply HF.
    intros x Hx Hs1. apply H1 in Hs1. destruct (inv_rmv_out _ _ _ HI x Hx) as [H|H]; tauto. }
  subst added. exists s2. split; [reflexivity|].
  apply (edit_inv (cclauses c) (edit_add c) (edit_rmv c) s1 s2 (edit_rmv c)); try assumption.
  - intros x. rewrite (inv_back _ _ _ HI x). tauto.
  - intros x. symmetry. apply (inv_cur _ _ _ HI).
Qed.

Lemma undo_refines d m : R d m ->
  snd (und d) = true /\ R (fst (und d)) (m_undo m).
Proof.
  intros [c [Hc [HI [Ht [Hot [Hl Ho]]]]]].
  unfold cc_undo. rewrite Hc. cbn [fst snd]. split; [reflexivity|].
  destruct (undo_cache c _ _ HI) as [s2 [Hs HI']]. rewrite Hs. cbn [fst].
  unfold do_swap, m_undo. cbn [cached old]. unfold prev_of in *.
  destruct (m_prev m) as [[pcs pn]|] eqn:Ep.
  - destruct Ho as [o [Ho1 Ho2]]. rewrite Ho1. cbn [fst snd] in *.
    eexists. cbn [cached]. split; [reflexivity|].
    unfold prev_of.
    cbn [m_cs m_n m_prev set_old cclauses edit_add edit_rmv total old_total old live_of fst snd].
    split; [rewrite Ho1 in HI'; apply (Inv_set_old _ (Some (live_of d))) in HI'; exact HI'|].
    split; [exact Hot|]. split; [exact Ht|]. split; [exact Ho2|].
    exists (live_of d). split; [reflexivity|exact Hl].
  - rewrite Ho. cbn [fst snd] in *. eexists. cbn [cached]. split; [reflexivity|].
    unfold prev_of. rewrite Ep. cbn [fst snd total old_total old live_of]. split; [rewrite Ho in HI'; exact HI'|].
    split; [exact Hot|]. split; [exact Ht|]. split; [exact Hl|reflexivity].
Qed.

(* ---------- save-cnf ---------- *)
Lemma save_refines d m : R d m -> save_cnf d = ASaved (m_save m).
Proof.
  intros [c [Hc [HI [Ht [Hot [Hl Ho]]]]]]. unfold save_cnf, m_save. rewrite Hc. f_equal.
  unfold live_n. rewrite (proj1 Hl). f_equal.
  apply canon_set_unique; [exact (inv_sorted _ _ _ HI)|exact (inv_cur _ _ _ HI)].
Qed.

(* ---------- one step, any command ---------- *)
Definition step_ok (d : dstate) (m : mstate) (c : cc_cmd) (d' : dstate) (a : cc_answer) : Prop :=
  match c with
  | CUpdate t add rmv => update_ok d m t add rmv d' a
  | CUndo => a = AOk /\ R d' (m_undo m)
  | CSave => a = ASaved (m_save m) /\ d' = d
  end.

Lemma step_refines d m c : R d m -> let '(d', a) := stp d c in step_ok d m c d' a.
Proof.
  intros HR. destruct c as [t add rmv| |]; cbn [cc_step step_ok].
  - apply clause_update_refines. exact HR.
  - unfold undo_update. destruct (undo_refines d m HR) as [H1 H2].
    destruct (und d) as [d' ok]. cbn [fst snd] in *. subst ok. split; [reflexivity|exact H2].
  - split; [apply save_refines; exact HR|reflexivity].
Qed.

Lemma step_ok_R d m c d' a : R d m -> step_ok d m c d' a -> a <> APanic -> R d' (m_step m c).
Proof.
  intros HR H Hnp. destruct c as [t add rmv| |]; cbn [step_ok m_step] in *.
  - unfold update_ok in H. destruct a; try tauto.
    destruct H as [Hacc ->]. unfold m_update. rewrite Hacc. exact HR.
  - apply H.
  - destruct H as [_ ->]. exact HR.
Qed.

(* ---------- histories ---------- *)
(* the answers, as far as the history got, are the ones the abstract machine prescribes *)
Fixpoint answers_ok (m : mstate) (cs : list cc_cmd) (ans : list cc_answer) : Prop :=
  match ans, cs with
  | [], [] => True
  | a :: ans', c :: cs' =>
    match a, c with
    | AOk, CUpdate t add rmv => m_accepts m t add rmv = true
    | AErr _, CUpdate t add rmv => m_accepts m t add rmv = false
    | AOk, CUndo => True
    | ASaved txt, CSave => txt = m_save m
    | APanic, CUpdate t add rmv =>
      (* K9: the only way to panic: an accepted update whose result cannot be loaded *)
      ans' = [] /\ m_accepts m t add rmv = true /\
      loadable (canon_set (m_cs (m_step m c))) (m_n (m_step m c)) = false
    | _, _ => False
    end /\ (a <> APanic -> answers_ok (m_step m c) cs' ans')
  | _, _ => False
  end.

Lemma run_refines cs : forall d m, R d m ->
  let '(d', ans) := runm d cs in
  answers_ok m cs ans /\ (~ In APanic ans -> R d' (m_run m cs)).
Proof.
  induction cs as [|c cs IH]; intros d m HR; cbn [cc_run].
  - split; [exact I|]. intros _. exact HR.
  - pose proof (step_refines d m c HR) as HS.
    destruct (stp d c) as [d1 a] eqn:Es.
    assert (a <> APanic -> R d1 (m_step m c)) as HR1 by (apply (step_ok_R d m c d1 a HR HS)).
    destruct a.
    + (* AOk *)
      specialize (IH d1 (m_step m c) (HR1 ltac:(discriminate))).
      destruct (runm d1 cs) as [d2 l]. destruct IH as [IH1 IH2].
      cbn [answers_ok]. split.
      * split; [|intros _; exact IH1].
        destruct c; cbn [step_ok update_ok] in HS; [apply HS|exact I|destruct HS; discriminate].
      * intros Hn. cbn [m_run fold_left]. apply IH2. intros H. apply Hn. right. exact H.
    + (* AErr *)
      specialize (IH d1 (m_step m c) (HR1 ltac:(discriminate))).
      destruct (runm d1 cs) as [d2 l]. destruct IH as [IH1 IH2].
      cbn [answers_ok]. split.
      * split; [|intros _; exact IH1].
        destruct c; cbn [step_ok update_ok] in HS; [apply HS|destruct HS; discriminate|destruct HS; discriminate].
      * intros Hn. cbn [m_run fold_left]. apply IH2. intros H. apply Hn. right. exact H.
    + (* ASaved *)
      specialize (IH d1 (m_step m c) (HR1 ltac:(discriminate))).
      destruct (runm d1 cs) as [d2 l]. destruct IH as [IH1 IH2].
      cbn [answers_ok]. split.
      * split; [|intros _; exact IH1].
        destruct c; cbn [step_ok update_ok] in HS; [destruct HS|destruct HS; discriminate|].
        destruct HS as [HS _]. inversion HS. reflexivity.
      * intros Hn. cbn [m_run fold_left]. apply IH2. intros H. apply Hn. right. exact H.
    + (* APanic *)
      cbn [answers_ok]. split.
      * split; [|intros H; exfalso; apply H; reflexivity].
        destruct c; cbn [step_ok update_ok] in HS; [|destruct HS; discriminate|destruct HS; discriminate].
        split; [reflexivity|]. cbn [m_step]. exact HS.
      * intros Hn. exfalso. apply Hn. left. reflexivity.
Qed.

(* ---------- undo twice ---------- *)
Lemma undo_twice d m : R d m -> fst (und (fst (und d))) = d.
Proof.
  intros [c [Hc [HI _]]].
  destruct d as [l cc]. cbn [cached] in Hc. subst cc.
  destruct (undo_cache c _ _ HI) as [s2 [Hs HI1]].
  assert (forall o, fst (setup_for_undo false
                           (mkCache s2 (edit_rmv c) (edit_add c) (old_total c) (total c) o)) =
                    mkCache (cclauses c) (edit_add c) (edit_rmv c) (total c) (old_total c) o) as H2.
  { intros o.
    assert (Inv (mkCache s2 (edit_rmv c) (edit_add c) (old_total c) (total c) o)
                (fst (prev_of m)) (m_cs m)) as HIo.
    { destruct HI1. constructor; assumption. }
    destruct (undo_cache _ _ _ HIo) as [s3 [Hs3 HI3]]. rewrite Hs3.
    cbn [fst cclauses edit_add edit_rmv total old_total old] in *.
    f_equal. apply SS_unique.
    - exact (inv_sorted _ _ _ HI3).
    - exact (inv_sorted _ _ _ HI).
    - intros x. rewrite (inv_cur _ _ _ HI3 x). symmetry. apply (inv_cur _ _ _ HI). }
  unfold cc_undo at 2. cbn [cached live_of fst]. rewrite Hs. cbn [fst].
  unfold do_swap. cbn [cached old live_of set_old cclauses edit_add edit_rmv total old_total].
  destruct (old c) as [o|] eqn:Eo.
  - unfold cc_undo. cbn [cached fst live_of]. unfold set_old. cbn [cclauses edit_add edit_rmv total old_total old]. rewrite (H2 (Some l)).
    unfold do_swap, set_old. cbn [cached old live_of cclauses edit_add edit_rmv total old_total].
    destruct c; cbn in *. subst. reflexivity.
  - unfold cc_undo. cbn [cached fst live_of]. rewrite (H2 None).
    unfold do_swap. cbn [cached old].
    destruct c; cbn in *. subst. reflexivity.
Qed.

End Refine.
