(* C14, further invariants of Model/StreamTS.v:
   (a) which lines are accepted: exactly the input lines before the first "exit";
   (b) no lost wakeup: whenever work is queued, some worker is runnable (not stopped, and not
       parked without a token) or the very next step of the main thread unparks a worker;
   (c) the refutation of all-answered for the unrepaired main thread (a concrete run). *)
From Coq Require Import List Bool Arith ZArith String Lia Permutation.
From DD Require Import Model.StreamTS Proofs.StreamStepf Proofs.StreamInv.
Import ListNotations.
Open Scope nat_scope.

Definition no_exit (l : list line) : Prop := Forall (fun x => String.eqb x exit_line = false) l.

Lemma before_exit_app_exit : forall a x r,
  no_exit a -> String.eqb x exit_line = true -> before_exit (a ++ x :: r) = a.
Proof.
  induction a as [|h t IH]; intros x r Hn Hx; cbn [app before_exit].
  - rewrite Hx. reflexivity.
  - inversion Hn; subst. rewrite H1. f_equal. apply IH; assumption.
Qed.

Lemma before_exit_no_exit : forall a, no_exit a -> before_exit a = a.
Proof.
  induction a as [|h t IH]; intros Hn; cbn [before_exit]; [reflexivity|].
  inversion Hn; subst. rewrite H1. f_equal. apply IH; assumption.
Qed.

Definition in_loop (p : mpc) : bool :=
  match p with MPrint | MRecv | MStdin | MPush _ | MUnpark _ => true | _ => false end.
Definition pending (p : mpc) : list line := match p with MPush l => [l] | _ => [] end.

Definition runnable (k : worker) : bool :=
  match w_pc k with WStopped => false | WParked => w_tok k | _ => true end.
Definition not_stopped (k : worker) : Prop := w_pc k <> WStopped.
Definition post_stop (p : mpc) : bool :=
  match p with MJoinU _ | MJoinW _ | MDone => true | _ => false end.

Lemma Exists_upd_new : forall (l : list worker) n k y,
  nth_error l n = Some k -> runnable y = true -> Exists (fun k => runnable k = true) (upd l n y).
Proof.
  intros l n k y H Hy. destruct (upd_split _ l n k y H) as (l1 & l2 & _ & -> & _).
  apply Exists_app. right. left. exact Hy.
Qed.

Lemma Forall_upd : forall (P : worker -> Prop) (l : list worker) n k y,
  nth_error l n = Some k -> Forall P l -> P y -> Forall P (upd l n y).
Proof.
  intros P l n k y H Hf Hy. destruct (upd_split _ l n k y H) as (l1 & l2 & -> & -> & _).
  apply Forall_app in Hf. destruct Hf as [H1 H2]. inversion H2; subst.
  apply Forall_app. split; [assumption|constructor; assumption].
Qed.

Section S.
Variable answer : line -> string.
Variable repaired : bool.
Notation step := (step answer repaired).
Notation reachable := (reachable answer repaired).
Notation Inv := (Inv answer repaired).

Ltac sim :=
  cbn [inp sch sclosed acc queue ws chan heap output_id next_id remaining printed pc stop
       set_inp set_sch set_sclosed set_acc set_queue set_ws set_chan set_heap set_output_id
       set_next_id set_remaining set_printed set_pc set_stop set_worker] in *.

(* ---- (a) accepted lines ---- *)
Record AccInv (input : list line) (s : state) : Prop := {
  A_loop : in_loop (pc s) = true ->
           input = acc s ++ pending (pc s) ++ sch s ++ inp s /\ no_exit (acc s ++ pending (pc s));
  A_after : in_loop (pc s) = false -> acc s = before_exit input;
  A_closed : sclosed s = true -> inp s = []
}.

Lemma acc_init : forall input n, AccInv input (init input n).
Proof.
  intros input n. constructor; unfold init; sim; cbn; try discriminate.
  intros _. split; [reflexivity|constructor].
Qed.

Lemma acc_step : forall input s e s', AccInv input s -> step s e s' -> AccInv input s'.
Proof.
  intros input s e s' [HL HA HC] Hs.
  destruct Hs; constructor; sim; try assumption;
    try solve [ destruct (pc s); cbn [print_pc after_print in_loop pending] in *; first [discriminate | assumption]
              | rewrite H in HL, HA; cbn [in_loop pending] in *;
                first [discriminate | assumption | intros _; apply HL; reflexivity | intros _; apply HA; reflexivity]
              | unfold after_loop; destruct repaired; discriminate ].
  - (* in_read *) intros Hp. destruct (HL Hp) as [E N]. split; [|exact N].
    rewrite E, H. rewrite <- !app_assoc. reflexivity.
  - intros E. rewrite H0 in E. discriminate.
  - (* in_close *) intros _. exact H.
  - (* stdin *) intros _. rewrite H in HL. destruct (HL eq_refl) as [E N]. cbn [pending app] in *.
    rewrite app_nil_r in N. rewrite H0 in E. split; [exact E|].
    apply Forall_app. split; [exact N|constructor; [exact H1|constructor]].
  - (* exit *) intros _. rewrite H in HL. destruct (HL eq_refl) as [E N]. cbn [pending app] in *.
    rewrite app_nil_r in N. rewrite E, H0. cbn [app]. symmetry. apply before_exit_app_exit; assumption.
  - (* eof *) intros _. rewrite H in HL. destruct (HL eq_refl) as [E N]. cbn [pending app] in *.
    rewrite app_nil_r in N. rewrite E, H0, (HC H1), !app_nil_r. symmetry. apply before_exit_no_exit. exact N.
  - (* push *) intros _. rewrite H in HL. destruct (HL eq_refl) as [E N]. cbn [pending app] in *.
    rewrite app_nil_r. split; [|exact N]. rewrite E, <- app_assoc. reflexivity.
Qed.

Lemma acc_reachable : forall input n s, reachable (init input n) s -> AccInv input s.
Proof.
  intros input n s R. induction R as [|s e s' R IH Hs]; [apply acc_init|eapply acc_step; eauto].
Qed.

Lemma accepted_spec : forall input n s,
  reachable (init input n) s -> in_loop (pc s) = false -> acc s = before_exit input.
Proof. intros input n s R H. apply (A_after _ _ (acc_reachable _ _ _ R) H). Qed.

(* ---- (b) no lost wakeup ---- *)
Record WakeInv (n : nat) (s : state) : Prop := {
  K_len : List.length (ws s) = n;
  K_stop : stop s = true -> post_stop (pc s) = true;
  K_stopped : stop s = false -> Forall not_stopped (ws s);
  K_wake : queue s <> [] ->
           Exists (fun k => runnable k = true) (ws s) \/ (pc s = MUnpark 0 /\ (0 < remaining s)%Z)
}.

Lemma wake_init : forall input n, WakeInv n (init input n).
Proof.
  intros input n. constructor; unfold init; sim.
  - apply repeat_length.
  - discriminate.
  - intros _. apply Forall_forall. intros k Hk. apply repeat_spec in Hk. subst. discriminate.
  - intros H. exfalso. apply H. reflexivity.
Qed.

Lemma queue_empty_when_drained : forall s, Inv s -> remaining s = 0%Z -> queue s = [].
Proof.
  intros s H Hr. pose proof (I_rem _ _ s H) as E. rewrite Hr in E.
  destruct (queue s); [reflexivity|cbn in E; lia].
Qed.

Lemma wake_step : forall n s e s', 1 <= n -> Inv s -> WakeInv n s -> step s e s' -> WakeInv n s'.
Proof.
  intros n s e s' Hn HI [KL KS KN KW] Hs.
  assert (forall p, pc s = p -> post_stop p = false -> stop s = false) as Hnostop.
  { intros p Hp Hps. destruct (stop s) eqn:E; [|reflexivity]. specialize (KS eq_refl). rewrite Hp in KS. congruence. }
  assert (post_stop (pc s) = true -> queue s = []) as Hq.
  { intros Hp. apply queue_empty_when_drained; [exact HI|]. apply (I_drained _ _ s HI).
    destruct (pc s); try discriminate; reflexivity. }
  destruct Hs; constructor; sim; rewrite ?upd_length; try assumption;
    try solve [ intros E; specialize (KS E); rewrite H in KS; discriminate
              | intros Hne; destruct (KW Hne) as [?|[E _]]; [left; assumption|congruence]
              | intros E; eapply Forall_upd; eauto; unfold not_stopped; cbn; discriminate
              | intros _; left; eapply Exists_upd_new; eauto
              | intros Hne; exfalso; apply Hne; apply Hq; rewrite H; reflexivity
              | intros _; reflexivity
              | discriminate ].
  - (* stop_seen *) intros E; congruence.
  - intros Hne. exfalso. apply Hne. apply Hq. apply KS. exact H1.
  - (* pull_none *) intros Hne. congruence.
  - (* print_done *) intros E. specialize (KS E). destruct (pc s); cbn in *; congruence.
  - intros Hne. destruct (KW Hne) as [?|[E _]]; [left; assumption|].
    rewrite E in H. discriminate.
  - (* push *) intros _. right. split; [reflexivity|]. pose proof (I_rem _ _ s HI). lia.
  - (* unpark *) intros E. eapply Forall_upd; eauto.
    pose proof (KN E) as F. eapply Forall_forall in F; [|eapply nth_error_In; exact H1]. exact F.
  - intros _. left. eapply Exists_upd_new; eauto.
    assert (Forall not_stopped (ws s)) as F by (apply KN; eapply Hnostop; eauto).
    eapply Forall_forall in F; [|eapply nth_error_In; exact H1].
    unfold runnable, not_stopped in *. cbn [w_pc w_tok]. destruct (w_pc wk); try reflexivity. congruence.
  - (* unpark_done *) intros Hne. destruct (KW Hne) as [?|[E Hr]]; [left; assumption|].
    rewrite E in H. inversion H; subst. destruct H0; lia.
  - (* join_unpark *) intros E. eapply Forall_upd; eauto.
    pose proof (KN E) as F. eapply Forall_forall in F; [|eapply nth_error_In; exact H0]. exact F.
Qed.

Lemma wake_reachable : forall input n s,
  1 <= n -> reachable (init input n) s -> WakeInv n s.
Proof.
  intros input n s Hn R. induction R as [|s e s' R IH Hs]; [apply wake_init|].
  eapply wake_step; eauto. eapply reachable_inv; eauto.
Qed.

Lemma no_lost_wakeup : forall input n s,
  1 <= n -> reachable (init input n) s -> queue s <> [] ->
  Exists (fun k => runnable k = true) (ws s) \/ (pc s = MUnpark 0 /\ (0 < remaining s)%Z).
Proof. intros input n s Hn R. apply (K_wake _ _ (wake_reachable _ _ _ Hn R)). Qed.

(* in the second case the next step of the main thread is enabled and makes worker 0 runnable *)
Lemma unpark_enabled : forall input n s,
  1 <= n -> reachable (init input n) s -> pc s = MUnpark 0 -> (0 < remaining s)%Z ->
  exists s', step s (EMUnpark 0) s' /\ Exists (fun k => runnable k = true) (ws s').
Proof.
  intros input n s Hn R Hp Hr. pose proof (wake_reachable _ _ _ Hn R) as [KL KS KN _].
  destruct (ws s) as [|wk t] eqn:Ew; [cbn in KL; lia|].
  eexists. split.
  - eapply S_m_unpark; eauto. rewrite Ew. reflexivity.
  - cbn [ws set_pc set_worker set_ws]. rewrite Ew. cbn [upd]. left.
    assert (stop s = false) as Es.
    { destruct (stop s) eqn:E; [|reflexivity]. specialize (KS eq_refl). rewrite Hp in KS. discriminate. }
    specialize (KN Es). inversion KN; subst.
    unfold runnable, not_stopped in *. cbn [w_pc w_tok]. destruct (w_pc wk); try reflexivity. congruence.
Qed.

(* ---- (c) the unrepaired main thread loses answers ---- *)
Definition lost_input : list line := ["count"%string].
Definition lost_trace : list event :=
  [ EInRead; EMPrintDone; EMRecvNone; EMStdin "count"%string; EMPush 0; EMUnpark 0; EMUnparkDone;
    EWStopNot 0; EWPull 0 0; EWSend 0 0; EInClose;
    (* the iteration that leaves the loop: receives the last result AND sees end of input *)
    EMPrintDone; EMRecv 0; EMEof;
    EMDrainDone; EMStop; EMJoinUnpark 0; EWStopSeen 0; EMJoin 0; EMFinish ].

End S.

Lemma refuted_lost_answer : forall answer,
  exists input n s,
    reachable answer false (init input n) s /\ terminated s /\ printed s <> map answer (acc s).
Proof.
  intros answer. exists lost_input, 1.
  destruct (run answer false (init lost_input 1) lost_trace) as [s|] eqn:E.
  - exists s. split; [eapply run_reachable; [apply R_init|exact E]|].
    vm_compute in E. inversion E; subst. split; [reflexivity|]. cbn. discriminate.
  - vm_compute in E. discriminate.
Qed.

(* the same schedule on the repaired main thread prints the answer in the added flush *)
Definition fixed_trace : list event :=
  [ EInRead; EMPrintDone; EMRecvNone; EMStdin "count"%string; EMPush 0; EMUnpark 0; EMUnparkDone;
    EWStopNot 0; EWPull 0 0; EWSend 0 0; EInClose;
    EMPrintDone; EMRecv 0; EMEof; EMPrint 0; EMPrintDone;
    EMDrainDone; EMStop; EMJoinUnpark 0; EWStopSeen 0; EMJoin 0; EMFinish ].

Lemma fixed_run : forall answer,
  exists s, reachable answer true (init lost_input 1) s /\ terminated s /\
            printed s = [answer "count"%string].
Proof.
  intros answer.
  destruct (run answer true (init lost_input 1) fixed_trace) as [s|] eqn:E.
  - exists s. split; [eapply run_reachable; [apply R_init|exact E]|].
    vm_compute in E. inversion E; subst. split; reflexivity.
  - vm_compute in E. discriminate.
Qed.
