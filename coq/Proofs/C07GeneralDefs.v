(* C07 (6): the idealised law of sample_node for EVERY amount, as a finite distribution over Q.

   dist X = list (X * Q): a finite list of (outcome, weight); dret / dbind are the usual monad,
   expect D g = sum of weight * g outcome.  Everything is executable (vm_compute on small instances).

   jointk d ts SL fuel a i lists ((choice stream, returned sample list), probability) for node i and
   requested amount a, for IDEAL random primitives:
     - at an Or node i asked for a samples the split vector is drawn from SL i a, an ARBITRARY law
       that is only required to be split_ideal: non-negative weights of total 1, every vector
       respects the contract split_ok (one entry per child, entries >= 0, sum = a, 0 on children with
       temp 0), and the expectation of the entry of every live child c is  a * temp_c / temp_i.
       Binomial(a, w0/(w0+w1)) on two live children and a independent draws of
       WeightedAliasIndex(weights ~ temp_c) on >= 3 live children are both instances
       (multi_split below is the law of a independent categorical draws, for any number of children);
     - every shuffle of a list of length m applies a permutation drawn from uperm m: all m!
       permutations of 0..m-1 with weight 1/m! each, independently of everything else (dbind = product);
     - the children of And / Or nodes draw from consecutive, disjoint parts of the stream (independent).
   Outside this model: Pcg32, the f64 weights child_count / parent_count * amount, rand_distr. *)
From Coq Require Import List ZArith QArith Bool.
From DD Require Import Model.Circuit Model.Query Model.Enumerate Proofs.Live Proofs.C07Defs Proofs.C07IdealDefs.
Import ListNotations.

(* ---------- finite distributions over Q ---------- *)

Notation dist X := (list (X * Q)).

Definition dret {X} (x : X) : dist X := [(x, 1%Q)].

Definition dbind {X Y} (D : dist X) (f : X -> dist Y) : dist Y :=
  flat_map (fun xw => map (fun yv => (fst yv, (snd xw * snd yv)%Q)) (f (fst xw))) D.

Definition expect {X} (D : dist X) (g : X -> Q) : Q :=
  qsum (map (fun xw => (snd xw * g (fst xw))%Q) D).

Definition total {X} (D : dist X) : Q := expect D (fun _ => 1%Q).

(* total with reduction after every addition (for computing on large laws) *)
Definition total_red {X} (D : dist X) : Q := fold_left (fun acc e => Qred (acc + snd e)) D 0%Q.

(* ---------- the uniform law on the permutations of a list ---------- *)

(* every way of taking one element out of a list *)
Fixpoint selects {X} (l : list X) : list (X * list X) :=
  match l with
  | [] => []
  | x :: r => (x, r) :: map (fun yr => (fst yr, x :: snd yr)) (selects r)
  end.

(* first element uniform among the remaining ones, then recursively: each permutation of l once,
   with weight 1 / (length l)! *)
Fixpoint uperm_f (fuel : nat) (l : list nat) : dist (list nat) :=
  match fuel with
  | O => dret []
  | S f =>
    dbind (map (fun xr => (xr, (1 / inject_Z (Z.of_nat (length l)))%Q)) (selects l))
          (fun xr => dbind (uperm_f f (snd xr)) (fun p => dret (fst xr :: p)))
  end.

Definition uperm (m : nat) : dist (list nat) := uperm_f m (seq 0 m).

(* ---------- the law of sample_node ---------- *)

(* (consumed choice stream, returned sample list) *)
Notation rs := (list choice * list cfg)%type.

(* child_sample_list.shuffle(rng) *)
Definition shuffled (J : dist rs) : dist rs :=
  dbind J (fun r => dbind (uperm (length (snd r)))
                          (fun p => dret (fst r ++ [Perm p], apply_perm p (snd r) []))).

(* And: next child, shuffled, stitched onto the accumulator *)
Definition and_stepK (J : nat -> dist rs) (acc : dist rs) (c : nat) : dist rs :=
  dbind acc (fun r0 => dbind (shuffled (J c))
                             (fun r1 => dret (fst r0 ++ fst r1, stitch (snd r0) (snd r1)))).

(* Or: the children with temp <> 0 in order, child at position k asked for nth k v samples *)
Fixpoint or_seq (ts : list Z) (J : Z -> nat -> dist rs) (v : list Z) (k : nat) (cs : list nat)
  : dist rs :=
  match cs with
  | [] => dret ([], [])
  | c :: cs' =>
    if (nth c ts 0 =? 0)%Z then or_seq ts J v (S k) cs'
    else dbind (J (nth k v 0%Z) c)
               (fun r1 => dbind (or_seq ts J v (S k) cs')
                                (fun r2 => dret (fst r1 ++ fst r2, snd r1 ++ snd r2)))
  end.

Definition pad (a : Z) (l : list cfg) : list cfg := l ++ repeat_n [] (Z.to_nat a - length l).

Fixpoint jointk (d : ddnnf) (ts : list Z) (SL : nat -> Z -> dist (list Z)) (fuel : nat) (a : Z)
         (i : nat) : dist rs :=
  match fuel with
  | O => []
  | S f =>
    if (a =? 0)%Z then dret ([], [])
    else
      match nth i (circ d) FalseN with
      | Lit l => dret ([], repeat_n [l] (Z.to_nat a))
      | And cs => fold_left (and_stepK (jointk d ts SL f a)) cs (dret ([], repeat_n [] (Z.to_nat a)))
      | Or cs =>
        dbind (SL i a) (fun v =>
        dbind (or_seq ts (fun a' c => jointk d ts SL f a' c) v 0 cs) (fun r =>
        dbind (uperm (length (pad a (snd r)))) (fun p =>
        dret (Split v :: fst r ++ [Perm p], apply_perm p (pad a (snd r)) []))))
      | _ => dret ([], [])
      end
  end.

(* ---------- what is assumed about the split law of an Or node ---------- *)

(* ts: temps, cs: children, ti: temp of the Or node, a: requested amount *)
Definition split_ideal (ts : list Z) (cs : list nat) (ti a : Z) (L : dist (list Z)) : Prop :=
  (forall v w, In (v, w) L -> (0 <= w)%Q /\ split_ok ts cs v a = true) /\
  (total L == 1)%Q /\
  (forall k, (k < length cs)%nat -> nth (nth k cs 0%nat) ts 0%Z <> 0%Z ->
     (expect L (fun v => inject_Z (nth k v 0%Z))
      == inject_Z a * inject_Z (nth (nth k cs 0%nat) ts 0%Z) / inject_Z ti)%Q).

(* every Or node that can be reached (reachable in the sense of Proofs/Live.v, temp <> 0) with a
   positive amount draws from an ideal law; inside a dead branch the temps may be stale and the
   sampler never gets there *)
Definition splits_ideal (C : circuit) (ts : list Z) (SL : nat -> Z -> dist (list Z)) : Prop :=
  forall i cs a, (i < length C)%nat -> nth i C FalseN = Or cs -> (1 <= a)%Z -> nth i ts 0%Z <> 0%Z ->
    Reach C i -> split_ideal ts cs (nth i ts 0%Z) a (SL i a).

(* executable form of split_ideal, for the examples *)
Definition split_idealb (ts : list Z) (cs : list nat) (ti a : Z) (L : dist (list Z)) : bool :=
  forallb (fun vw => Qle_bool 0 (snd vw) && split_ok ts cs (fst vw) a) L
  && Qeq_bool (total L) 1
  && forallb (fun k => (nth (nth k cs 0%nat) ts 0 =? 0)%Z
                       || Qeq_bool (expect L (fun v => inject_Z (nth k v 0%Z)))
                                   (inject_Z a * inject_Z (nth (nth k cs 0%nat) ts 0%Z) / inject_Z ti))
             (seq 0 (length cs)).

(* ---------- a concrete ideal split law: a independent categorical draws ---------- *)

(* one draw: the unit vector of the live child at position k with probability temp_k / ti *)
Fixpoint cat_draw (ts : list Z) (ti : Z) (pre : nat) (cs : list nat) : dist (list Z) :=
  match cs with
  | [] => []
  | c :: cs' =>
    (if (nth c ts 0 =? 0)%Z then []
     else [(unit_split pre (length cs'), (inject_Z (nth c ts 0%Z) / inject_Z ti)%Q)])
    ++ cat_draw ts ti (S pre) cs'
  end.

Fixpoint vadd (u v : list Z) : list Z :=
  match u, v with
  | x :: u', y :: v' => (x + y)%Z :: vadd u' v'
  | _, _ => []
  end.

Fixpoint multi_split (ts : list Z) (ti : Z) (cs : list nat) (m : nat) : dist (list Z) :=
  match m with
  | O => dret (repeat_n 0%Z (length cs))
  | S m' => dbind (cat_draw ts ti 0 cs)
                  (fun u => dbind (multi_split ts ti cs m') (fun v => dret (vadd u v)))
  end.

Definition SL_multi (C : circuit) (ts : list Z) (i : nat) (a : Z) : dist (list Z) :=
  match nth i C FalseN with
  | Or cs => multi_split ts (nth i ts 0%Z) cs (Z.to_nat a)
  | _ => []
  end.

(* ---------- the law of position j of the abs-sorted result ---------- *)

Definition margk (j : nat) (D : dist rs) : list (cfg * Q) :=
  map (fun e => (sort_abs (nth j (snd (fst e)) []), snd e)) D.

(* merges equal outcomes (for displaying small laws) *)
Fixpoint add_mass (x : cfg) (w : Q) (T : list (cfg * Q)) : list (cfg * Q) :=
  match T with
  | [] => [(x, Qred w)]
  | (y, v) :: T' => if cfg_eqb x y then (y, Qred (v + w)) :: T' else (y, v) :: add_mass x w T'
  end.
Definition collect (D : list (cfg * Q)) : list (cfg * Q) :=
  fold_left (fun T e => add_mass (fst e) (snd e) T) D [].
