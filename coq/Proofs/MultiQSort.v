(* C15, final phase: sorting results with pairwise distinct indices by the tuple order
   (index, query, result) yields the file order, whatever the arrival order and whatever the
   comparison on the result type is; hence the rendered bytes are those of the single-thread loop. *)
From Coq Require Import List ZArith Bool Lia Permutation Sorted String.
From DD Require Import Model.MultiQ.
Import ListNotations.

(* the work list in file order: strictly increasing indices (what parse_queries_file produces) *)
Definition mq_file_order (W : list mq_item) : Prop := StronglySorted Nat.lt (map fst W).

Lemma mq_enumerate_fst_ge : forall (A : Type) (l : list A) k x,
  In x (map fst (mq_enumerate k l)) -> k <= x.
Proof.
  intros A l. induction l as [|a l IH]; intros k x Hin; cbn [mq_enumerate map fst] in Hin.
  - destruct Hin.
  - destruct Hin as [Heq|Hin]; [lia|]. apply IH in Hin. lia.
Qed.

Lemma mq_enumerate_file_order : forall (l : list mq_query) k, mq_file_order (mq_enumerate k l).
Proof.
  unfold mq_file_order. intros l. induction l as [|a l IH]; intros k; cbn [mq_enumerate map fst].
  - constructor.
  - constructor; [apply IH|]. apply Forall_forall. intros x Hin.
    apply mq_enumerate_fst_ge in Hin. unfold Nat.lt. lia.
Qed.

Lemma mq_parse_lines_file_order : forall lines W,
  mq_parse_lines lines = Some W -> mq_file_order W.
Proof.
  intros lines W H. unfold mq_parse_lines in H.
  destruct (mq_all_some (map mq_parse_line lines)) as [qs|]; [|discriminate].
  injection H as <-. apply mq_enumerate_file_order.
Qed.

Lemma mq_enumerate_length : forall (A : Type) (l : list A) k,
  List.length (mq_enumerate k l) = List.length l.
Proof. intros A l. induction l as [|a l IH]; intros k; cbn [mq_enumerate List.length]; [reflexivity|now rewrite IH]. Qed.

Lemma mq_all_some_length : forall (A : Type) (l : list (option A)) r,
  mq_all_some l = Some r -> List.length r = List.length l.
Proof.
  intros A l. induction l as [|[x|] l IH]; intros r H; cbn [mq_all_some] in H.
  - injection H as <-. reflexivity.
  - destruct (mq_all_some l) as [r'|]; [|discriminate]. injection H as <-.
    cbn [List.length]. now rewrite (IH r' eq_refl).
  - discriminate.
Qed.

(* one query per line of the file, empty lines included *)
Lemma mq_parse_lines_length : forall lines W,
  mq_parse_lines lines = Some W -> List.length W = List.length lines.
Proof.
  intros lines W H. unfold mq_parse_lines in H.
  destruct (mq_all_some (map mq_parse_line lines)) as [qs|] eqn:E; [|discriminate].
  injection H as <-. rewrite mq_enumerate_length. apply mq_all_some_length in E.
  now rewrite E, map_length.
Qed.

Section Sort.
  Variable R : Type.
  Variable answer : mq_query -> R.
  Variable rcmp : R -> R -> comparison.
  Variable rshow : R -> string.
  Notation res := (nat * list Z * R)%type.

  Definition idx_le (a b : res) : bool := Nat.leb (mq_idx a) (mq_idx b).
  Definition idx_leP (a b : res) : Prop := mq_idx a <= mq_idx b.

  Lemma mq_tle_idx : forall a b : res, mq_tle rcmp a b = true -> mq_idx a <= mq_idx b.
  Proof.
    intros [[i1 q1] r1] [[i2 q2] r2]. unfold mq_tle, mq_tcmp, mq_idx. cbn [fst].
    destruct (Nat.compare_spec i1 i2) as [He|Hl|Hg]; intros Hc; try lia; discriminate.
  Qed.

  Lemma mq_tle_distinct : forall a b : res, mq_idx a <> mq_idx b -> mq_tle rcmp a b = idx_le a b.
  Proof.
    intros [[i1 q1] r1] [[i2 q2] r2]. unfold mq_tle, mq_tcmp, idx_le, mq_idx. cbn [fst].
    intros Hne. destruct (Nat.compare_spec i1 i2) as [He|Hl|Hg].
    - contradiction.
    - symmetry. apply Nat.leb_le. lia.
    - symmetry. apply Nat.leb_gt. lia.
  Qed.

  Lemma insert_agree : forall (le1 le2 : res -> res -> bool) x l,
    (forall y, In y l -> le1 x y = le2 x y) -> mq_insert le1 x l = mq_insert le2 x l.
  Proof.
    intros le1 le2 x l. induction l as [|y l IH]; intros H; cbn [mq_insert]; [reflexivity|].
    rewrite (H y (or_introl eq_refl)). rewrite IH; [reflexivity|].
    intros z Hz. apply H. now right.
  Qed.

  Lemma insert_perm : forall (le : res -> res -> bool) x l, Permutation (mq_insert le x l) (x :: l).
  Proof.
    intros le x l. induction l as [|y l IH]; cbn [mq_insert]; [apply Permutation_refl|].
    destruct (le x y); [apply Permutation_refl|].
    eapply perm_trans; [apply perm_skip, IH|apply perm_swap].
  Qed.

  Lemma sort_by_perm : forall (le : res -> res -> bool) l, Permutation (mq_sort_by le l) l.
  Proof.
    intros le l. induction l as [|x l IH]; cbn [mq_sort_by]; [constructor|].
    eapply perm_trans; [apply insert_perm|]. now apply perm_skip.
  Qed.

  (* with pairwise distinct indices every comparison the sort makes is decided by the index *)
  Lemma sort_agree : forall l : list res,
    NoDup (map mq_idx l) -> mq_sort rcmp l = mq_sort_by idx_le l.
  Proof.
    unfold mq_sort. intros l. induction l as [|x l IH]; intros Hnd; cbn [mq_sort_by]; [reflexivity|].
    cbn [map] in Hnd. inversion Hnd as [|? ? Hnotin Hnd']; subst.
    rewrite (IH Hnd'). apply insert_agree. intros y Hy. apply mq_tle_distinct.
    intros Heq. apply Hnotin. rewrite Heq. apply in_map.
    eapply Permutation_in; [apply sort_by_perm|exact Hy].
  Qed.

  Lemma insert_sorted : forall x l,
    StronglySorted idx_leP l -> StronglySorted idx_leP (mq_insert idx_le x l).
  Proof.
    intros x l. induction l as [|y l IH]; intros Hs; cbn [mq_insert].
    - constructor; constructor.
    - inversion Hs as [|? ? Hs' Hall]; subst. unfold idx_le at 1.
      destruct (Nat.leb_spec (mq_idx x) (mq_idx y)) as [Hle|Hgt].
      + constructor; [exact Hs|]. constructor; [exact Hle|].
        eapply Forall_impl; [|exact Hall]. unfold idx_leP. intros z Hz. lia.
      + constructor; [apply IH, Hs'|].
        apply Forall_forall. intros z Hz.
        apply (Permutation_in _ (insert_perm idx_le x l)) in Hz.
        destruct Hz as [<-|Hz]; [unfold idx_leP; lia|].
        rewrite Forall_forall in Hall. now apply Hall.
  Qed.

  Lemma sort_by_sorted : forall l, StronglySorted idx_leP (mq_sort_by idx_le l).
  Proof.
    intros l. induction l as [|x l IH]; cbn [mq_sort_by]; [constructor|now apply insert_sorted].
  Qed.

  Lemma nodup_idx_inj : forall (l : list res) a b,
    NoDup (map mq_idx l) -> In a l -> In b l -> mq_idx a = mq_idx b -> a = b.
  Proof.
    intros l. induction l as [|x l IH]; intros a b Hnd Ha Hb Heq; [destruct Ha|].
    cbn [map] in Hnd. inversion Hnd as [|? ? Hnotin Hnd']; subst.
    destruct Ha as [<-|Ha]; destruct Hb as [<-|Hb].
    - reflexivity.
    - exfalso. apply Hnotin. rewrite Heq. now apply in_map.
    - exfalso. apply Hnotin. rewrite <- Heq. now apply in_map.
    - now apply IH.
  Qed.

  (* a list with pairwise distinct indices has exactly one permutation that is sorted by index *)
  Lemma sorted_perm_unique : forall l1 l2 : list res,
    NoDup (map mq_idx l1) -> Permutation l1 l2 ->
    StronglySorted idx_leP l1 -> StronglySorted idx_leP l2 -> l1 = l2.
  Proof.
    intros l1. induction l1 as [|a l1 IH]; intros l2 Hnd Hp Hs1 Hs2.
    - apply Permutation_nil in Hp. now subst.
    - destruct l2 as [|b l2]; [apply Permutation_sym, Permutation_nil in Hp; discriminate|].
      assert (Hab : a = b).
      { assert (Ha : In a (b :: l2)) by (eapply Permutation_in; [exact Hp|now left]).
        assert (Hb : In b (a :: l1)) by (eapply Permutation_in; [apply Permutation_sym, Hp|now left]).
        destruct Ha as [Ha|Ha]; [now subst|]. destruct Hb as [Hb|Hb]; [now subst|].
        inversion Hs1 as [|? ? _ Hall1]; subst. inversion Hs2 as [|? ? _ Hall2]; subst.
        rewrite Forall_forall in Hall1, Hall2.
        specialize (Hall1 b Hb). specialize (Hall2 a Ha). unfold idx_leP in Hall1, Hall2.
        apply (nodup_idx_inj (a :: l1)); [exact Hnd|now left|now right|lia]. }
      subst b. f_equal. apply Permutation_cons_inv in Hp.
      cbn [map] in Hnd. inversion Hnd; subst. inversion Hs1; subst. inversion Hs2; subst.
      now apply IH.
  Qed.

  Lemma expected_idx : forall W : list mq_item, map mq_idx (mq_expected answer W) = map fst W.
  Proof.
    intros W. unfold mq_expected. rewrite map_map. apply map_ext. intros [i q]. reflexivity.
  Qed.

  Lemma file_order_nodup : forall W, mq_file_order W -> NoDup (map fst W).
  Proof.
    unfold mq_file_order. intros W. generalize (map fst W) as l. clear W.
    intros l. induction l as [|x l IH]; intros Hs; [constructor|].
    inversion Hs as [|? ? Hs' Hall]; subst. constructor; [|now apply IH].
    intros Hin. rewrite Forall_forall in Hall. specialize (Hall x Hin). unfold Nat.lt in Hall. lia.
  Qed.

  Lemma expected_sorted : forall W, mq_file_order W -> StronglySorted idx_leP (mq_expected answer W).
  Proof.
    unfold mq_file_order. intros W. induction W as [|[i q] W IH]; intros Hs;
      cbn [mq_expected map]; [constructor|].
    cbn [map fst] in Hs. inversion Hs as [|? ? Hs' Hall]; subst.
    constructor; [now apply IH|].
    apply Forall_forall. intros z Hz. apply in_map_iff in Hz. destruct Hz as [[i' q'] [<- Hin]].
    rewrite Forall_forall in Hall. assert (Hlt : Nat.lt i i') by (apply Hall; apply (in_map fst) in Hin; exact Hin).
    unfold idx_leP, mq_idx, mq_result_of, Nat.lt in *. cbn [fst]. lia.
  Qed.

  Lemma perm_expected_nodup : forall W (rs : list res),
    mq_file_order W -> Permutation rs (mq_expected answer W) -> NoDup (map mq_idx rs).
  Proof.
    intros W rs Hfo Hp. eapply Permutation_NoDup.
    - apply Permutation_sym, Permutation_map, Hp.
    - rewrite expected_idx. now apply file_order_nodup.
  Qed.

  Lemma render_expected : forall W, mq_render rshow (mq_expected answer W) = mq_render_single answer rshow W.
  Proof.
    intros W. unfold mq_render, mq_render_single, mq_expected. rewrite map_map. reflexivity.
  Qed.

  (* the model's sort puts any arrival order back into file order *)
  Lemma sort_results_expected : forall W (rs : list res),
    mq_file_order W -> Permutation rs (mq_expected answer W) ->
    mq_sort rcmp rs = mq_expected answer W.
  Proof.
    intros W rs Hfo Hp.
    assert (Hnd : NoDup (map mq_idx rs)) by (eapply perm_expected_nodup; eauto).
    rewrite (sort_agree rs Hnd).
    apply sorted_perm_unique.
    - eapply Permutation_NoDup; [apply Permutation_sym, Permutation_map, sort_by_perm|exact Hnd].
    - eapply perm_trans; [apply sort_by_perm|exact Hp].
    - apply sort_by_sorted.
    - now apply expected_sorted.
  Qed.

  Lemma sorted_output : forall W (rs : list res),
    mq_file_order W -> Permutation rs (mq_expected answer W) ->
    mq_render rshow (mq_sort rcmp rs) = mq_render_single answer rshow W.
  Proof.
    intros W rs Hfo Hp. rewrite (sort_results_expected W rs Hfo Hp). apply render_expected.
  Qed.

  (* independent of the sorting algorithm: whatever list `sort_unstable` leaves behind, if it is a
     permutation of the results whose neighbours are ordered by the tuple order, it is the file
     order (nothing is assumed about Ord on the result type) *)
  Lemma sorted_tle_idx : forall l : list res,
    Sorted (fun a b => mq_tle rcmp a b = true) l -> StronglySorted idx_leP l.
  Proof.
    intros l Hs. apply Sorted_StronglySorted.
    - unfold Relations_1.Transitive, idx_leP. intros x y z. lia.
    - induction Hs as [|a l Hs IH Hhd]; constructor; [exact IH|].
      destruct Hhd as [|b l Hab]; constructor. now apply mq_tle_idx.
  Qed.

  Lemma any_sort_output : forall W (rs sorted : list res),
    mq_file_order W -> Permutation rs (mq_expected answer W) ->
    Permutation sorted rs -> Sorted (fun a b => mq_tle rcmp a b = true) sorted ->
    mq_render rshow sorted = mq_render_single answer rshow W.
  Proof.
    intros W rs sorted Hfo Hp Hps Hs.
    assert (Hp' : Permutation sorted (mq_expected answer W)) by (eapply perm_trans; eauto).
    assert (sorted = mq_expected answer W) as ->.
    { apply sorted_perm_unique.
      - eapply perm_expected_nodup; eauto.
      - exact Hp'.
      - now apply sorted_tle_idx.
      - now apply expected_sorted. }
    apply render_expected.
  Qed.
End Sort.
