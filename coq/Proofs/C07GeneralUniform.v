(* C07 (6), part 2: with ideal random primitives (C07GeneralDefs.v) the law of EVERY position of the
   list returned by sample_node, for EVERY amount, is uniform on filter (okA A) (enum i).

   Invariant carried through the node vector (node_good f a i):  total mass 1, and for every
   position j < a and every test function g on configurations that does not depend on the order of
   the literals
        E[ g (sample j) ]  =  1 / countsA i  *  sum of g over filter (okA A) (enum i).
   (the list filter (okA A) (enum i) has countsA i entries; that they are pairwise different is only
   needed -- and known, models_enum_perm -- at the root).
     Or : sample j of the shuffled concatenation is a uniformly chosen element of the concatenation
          (uperm), so E = 1/a * E[ sum of g over the concatenation ] = 1/a * sum_c E[k_c] / cnt_c * S_c
          = 1/a * sum_c (a * t_c / t_i) / cnt_c * S_c = 1 / t_i * sum_c S_c   (linearity only: nothing
          but the EXPECTATION of the split vector enters);
     And: sample j is the concatenation of sample j of the (shuffled) children, which are
          independent (dbind of consecutive stream parts): iterated expectation. *)
From Coq Require Import List ZArith QArith Bool Lia Permutation.
From DD Require Import Model.Circuit Model.Query Model.Enumerate Proofs.Live Proofs.LiveCounts
     Proofs.PassLemmas Proofs.Enum Proofs.Semantics Proofs.CountsA
     Proofs.C07Defs Proofs.C07Valid Proofs.C07Urs Proofs.C07IdealDefs Proofs.C07Uniform Proofs.C07Align
     Proofs.C07GeneralDefs Proofs.C07GeneralDist Proofs.C07GeneralAlign.
Import ListNotations.
Open Scope Z_scope.

(* test functions that do not see the order of the literals *)
Definition respects (g : cfg -> Q) : Prop := forall x y, Permutation x y -> (g x == g y)%Q.

(* expectation of g at position j of the returned list *)
Definition posE (D : dist rs) (j : nat) (g : cfg -> Q) : Q :=
  expect D (fun r => g (nth j (snd r) [])).

Lemma nth_stitch acc : forall l j, (j < length acc)%nat ->
  nth j (stitch acc l) [] = nth j acc [] ++ nth j l [].
Proof.
  induction acc as [|x acc IH]; intros l j Hj; [cbn [length] in Hj; lia|].
  destruct l as [|y l].
  - cbn [stitch]. destruct j; cbn [nth]; now rewrite app_nil_r.
  - cbn [stitch]. destruct j as [|j]; [reflexivity|]. cbn [nth]. apply IH. cbn [length] in Hj. lia.
Qed.

Lemma map_fst_combine_seq {X} (l : list X) : forall k, map fst (combine l (seq k (length l))) = l.
Proof. induction l as [|x l IH]; intros k; [reflexivity|]. cbn [length seq combine map fst]. now rewrite IH. Qed.

Lemma in_combine_seq {X} (dflt : X) (l : list X) : forall k x k', In (x, k') (combine l (seq k (length l))) ->
  (k <= k' < k + length l)%nat /\ nth (k' - k) l dflt = x.
Proof.
  induction l as [|y l IH]; intros k x k' H; [destruct H|].
  cbn [length seq combine] in H. destruct H as [H|H].
  - injection H as <- <-. cbn [length]. split; [lia|]. now rewrite Nat.sub_diag.
  - destruct (IH (S k) x k' H) as [Hk Hn]. cbn [length]. split; [lia|].
    replace (k' - k)%nat with (S (k' - S k)) by lia. exact Hn.
Qed.

Lemma qz_of_to a : 0 <= a -> inject_Z (Z.of_nat (Z.to_nat a)) = inject_Z a.
Proof. intros H. now rewrite Z2Nat.id. Qed.

Section UniformK.
Variables (d : ddnnf) (A : cfg) (ts : list Z) (SL : nat -> Z -> dist (list Z)).
Notation C := (circ d).
Hypothesis Hok : idx_ok C = true.
Hypothesis Hts : temps_ok A C ts.
Hypothesis Hnt : forall i cs c, (i < length C)%nat -> nth i C FalseN = Or cs -> In c cs ->
                                nth c C FalseN <> TrueN.
Hypothesis HSL : splits_ideal C ts SL.

Notation F c := (filter (okA A) (nth c (enums C) [])).
Notation cnt c := (nth c (countsA A C) 0%Z).
Notation JK f a c := (jointk d ts SL f a c).

Definition node_good (f : nat) (a : Z) (c : nat) : Prop :=
  (total (JK f a c) == 1)%Q /\
  forall j, (j < Z.to_nat a)%nat -> forall g, respects g ->
    (posE (JK f a c) j g == 1 / inject_Z (cnt c) * qsumf g (F c))%Q.

(* the sum over all returned samples *)
Lemma node_sum f a c g :
  (c < length C)%nat -> (c < f)%nat -> 0 <= a -> nth c C FalseN <> TrueN -> Reach C c -> cnt c <> 0 ->
  node_good f a c -> respects g ->
  (expect (JK f a c) (fun r => qsumf g (snd r))
   == inject_Z a / inject_Z (cnt c) * qsumf g (F c))%Q.
Proof.
  intros Hc Hf Ha Hntc HRc Hcnt [_ Hm] Hg.
  rewrite (expect_ext _ _ (fun r => qsumf (fun j => g (nth j (snd r) [])) (seq 0 (Z.to_nat a)))).
  - rewrite (expect_qsumf_swap (JK f a c) (fun j r => g (nth j (snd r) [])) (seq 0 (Z.to_nat a))).
    rewrite (qsumf_ext _ (fun _ => 1 / inject_Z (cnt c) * qsumf g (F c))%Q).
    + rewrite qsumf_const, seq_length, (qz_of_to a Ha). field. now apply inject_Z_nonzero.
    + intros j Hj. apply in_seq in Hj. apply (Hm j); [lia|exact Hg].
  - intros r w Hr.
    destruct (jointk_valid d A ts SL Hok Hts HSL c f a r w Hc Hf Ha Hntc HRc Hcnt Hr) as [Hlen _].
    rewrite <- Hlen. apply qsumf_positions.
Qed.

(* ---------- And ---------- *)

(* a child after its shuffle: still uniform at every position *)
Lemma shuffled_good f a c :
  (c < length C)%nat -> (c < f)%nat -> 1 <= a -> Reach C c -> cnt c <> 0 -> node_good f a c ->
  (total (shuffled (JK f a c)) == 1)%Q /\
  forall j, (j < Z.to_nat a)%nat -> forall g, respects g ->
    (posE (shuffled (JK f a c)) j g == 1 / inject_Z (cnt c) * qsumf g (F c))%Q.
Proof.
  intros Hc Hf Ha HRc Hcnt Hgood. split.
  - unfold shuffled. rewrite total_bind; [apply Hgood|]. intros r w _.
    rewrite total_bind; [apply uperm_total|]. intros p w' _. apply total_ret.
  - intros j Hj g Hg. unfold posE, shuffled. rewrite expect_bind.
    destruct (nth c C FalseN) eqn:E.
    5:{ (* FalseN *) rewrite (countsA_unfold A C c 0 Hok Hc), E in Hcnt. cbn in Hcnt. congruence. }
    4:{ (* TrueN: no samples, nothing to shuffle *)
      destruct f as [|f]; [lia|]. rewrite jointk_S, E.
      replace (a =? 0) with false by (symmetry; apply Z.eqb_neq; lia).
      rewrite expect_ret. cbn [snd length]. change (uperm 0) with (dret (@nil nat)).
      rewrite expect_bind, expect_ret, expect_ret. cbn [snd apply_perm map].
      rewrite (true_cnt d A Hok c Hc E), (enums_unfold C Hok c Hc), E.
      cbn [enum_node filter okA forallb]. rewrite qsumf_cons, qsumf_nil.
      destruct j; cbn [nth]; field. }
    all: assert (Hntc : nth c C FalseN <> TrueN) by congruence.
    all: rewrite (expect_ext _ _ (fun r => 1 / inject_Z a * qsumf g (snd r))%Q);
      [rewrite expect_scale, (node_sum f a c g Hc Hf ltac:(lia) Hntc HRc Hcnt Hgood Hg); field;
       split; apply inject_Z_nonzero; [exact Hcnt|lia]|].
    all: intros r w Hr;
      destruct (jointk_valid d A ts SL Hok Hts HSL c f a r w Hc Hf ltac:(lia) Hntc HRc Hcnt Hr) as [Hlen _];
      rewrite expect_bind;
      rewrite (expect_ext _ _ (fun p => g (nth j (apply_perm p (snd r) []) [])))
        by (intros p w' _; rewrite expect_ret; reflexivity);
      rewrite shuffle_position by lia;
      rewrite Hlen, (qz_of_to a ltac:(lia)); reflexivity.
Qed.

Lemma and_foldK_good f a (cs : list nat) :
  1 <= a ->
  (forall c, In c cs -> (c < length C)%nat /\ (c < f)%nat /\ Reach C c /\ cnt c <> 0 /\ node_good f a c) ->
  forall done D,
    zprod (map (fun c => cnt c) done) <> 0 ->
    (total D == 1)%Q ->
    (forall r w, In (r, w) D -> length (snd r) = Z.to_nat a) ->
    (forall j, (j < Z.to_nat a)%nat -> forall g, respects g ->
       (posE D j g == 1 / inject_Z (zprod (map (fun c => cnt c) done))
                      * qsumf g (prod (rev (map (fun c => F c) done))))%Q) ->
    let D' := fold_left (and_stepK (jointk d ts SL f a)) cs D in
    (total D' == 1)%Q /\
    forall j, (j < Z.to_nat a)%nat -> forall g, respects g ->
       (posE D' j g == 1 / inject_Z (zprod (map (fun c => cnt c) (done ++ cs)))
                       * qsumf g (prod (rev (map (fun c => F c) (done ++ cs)))))%Q.
Proof.
  intros Ha. induction cs as [|c cs IH]; intros Hcs done D Hnz Htot Hlen Hpos.
  - cbn [fold_left]. rewrite app_nil_r. split; assumption.
  - cbn [fold_left].
    destruct (Hcs c (or_introl eq_refl)) as [Hc [Hf [HRc [Hcnt Hgood]]]].
    destruct (shuffled_good f a c Hc Hf Ha HRc Hcnt Hgood) as [HtotS HposS].
    replace (done ++ c :: cs) with ((done ++ [c]) ++ cs) by (rewrite <- app_assoc; reflexivity).
    assert (Hz : zprod (map (fun c0 => cnt c0) (done ++ [c])) = zprod (map (fun c0 => cnt c0) done) * cnt c).
    { rewrite map_app, zprod_app. cbn [map]. rewrite zprod_cons. change (zprod []) with 1. lia. }
    apply IH.
    + intros c0 Hc0. apply Hcs. now right.
    + rewrite Hz. nia.
    + unfold and_stepK. rewrite total_bind; [exact Htot|]. intros r0 w0 _.
      rewrite total_bind; [exact HtotS|]. intros r1 w1 _. apply total_ret.
    + intros r w Hr. unfold and_stepK in Hr.
      apply in_dbind in Hr. destruct Hr as [r0 [w0 [w' [Hr0 [Hr _]]]]].
      apply in_dbind in Hr. destruct Hr as [r1 [w1 [w2 [_ [Hr _]]]]].
      apply in_dret in Hr. destruct Hr as [-> _]. cbn [snd]. rewrite stitch_length.
      exact (Hlen r0 w0 Hr0).
    + intros j Hj g Hg. unfold posE, and_stepK. rewrite expect_bind.
      (* inner expectation, for a fixed accumulator *)
      rewrite (expect_ext _ _
                 (fun r0 => 1 / inject_Z (cnt c)
                            * qsumf (fun x => g (nth j (snd r0) [] ++ x)) (F c))%Q).
      * change (expect D (fun r0 => 1 / inject_Z (cnt c)
                                    * qsumf (fun x => g (nth j (snd r0) [] ++ x)) (F c))%Q)
          with (posE D j (fun y => 1 / inject_Z (cnt c) * qsumf (fun x => g (y ++ x)) (F c))%Q).
        rewrite Hpos; [|exact Hj|].
        -- rewrite Hz, map_app, rev_app_distr. cbn [map rev app prod].
           rewrite qsumf_flat_map. rewrite inject_Z_mult.
           rewrite (qsumf_ext (fun y => 1 / inject_Z (cnt c) * qsumf (fun x => g (y ++ x)) (F c))%Q
                              (fun y => 1 / inject_Z (cnt c) * qsumf (fun x => g (x ++ y)) (F c))%Q).
           ++ rewrite qsumf_scale.
              rewrite (qsumf_swap (fun y x => g (x ++ y))).
              rewrite (qsumf_ext (fun x => qsumf g (map (fun r => x ++ r) _))
                                 (fun x => qsumf (fun y => g (x ++ y)) (prod (rev (map (fun c0 => F c0) done))))).
              ** field. split; apply inject_Z_nonzero; [exact Hcnt|exact Hnz].
              ** intros x _. rewrite qsumf_map. reflexivity.
           ++ intros y _. apply Qmult_comp; [reflexivity|]. apply qsumf_ext. intros x _.
              apply Hg. apply Permutation_app_comm.
        -- intros y y' Hy. apply Qmult_comp; [reflexivity|]. apply qsumf_ext. intros x _.
           apply Hg. now apply Permutation_app_tail.
      * intros r0 w0 Hr0. rewrite expect_bind.
        rewrite (expect_ext _ _ (fun r1 => g (nth j (snd r0) [] ++ nth j (snd r1) []))).
        -- apply (HposS j Hj (fun x => g (nth j (snd r0) [] ++ x))).
           intros x x' Hx. apply Hg. now apply Permutation_app_head.
        -- intros r1 w1 _. rewrite expect_ret. cbn [snd].
           rewrite nth_stitch; [reflexivity|]. rewrite (Hlen r0 w0 Hr0). exact Hj.
Qed.

(* ---------- Or ---------- *)

Lemma dead_empty' c : (c < length C)%nat -> cnt c = 0 -> F c = [].
Proof.
  intros Hc H0. rewrite (countsA_filter A C Hok c Hc) in H0.
  destruct (F c); [reflexivity|cbn [length] in H0; lia].
Qed.

(* contribution of the child at position snd ck to the sum of g over the concatenated samples *)
Definition or_term (g : cfg -> Q) (v : list Z) (ck : nat * nat) : Q :=
  if nth (fst ck) ts 0 =? 0 then 0%Q
  else (inject_Z (nth (snd ck) v 0%Z) / inject_Z (cnt (fst ck)) * qsumf g (F (fst ck)))%Q.

(* number of samples the live children are asked for, from position k on *)
Fixpoint live_sum (v : list Z) (k : nat) (cs : list nat) : Z :=
  match cs with
  | [] => 0
  | c :: cs' => (if nth c ts 0 =? 0 then 0 else nth k v 0) + live_sum v (S k) cs'
  end.

Lemma live_sum_all (cs : list nat) : forall v,
  length v = length cs ->
  Forall (fun cx => nth (fst cx) ts 0 = 0 -> snd cx = 0) (combine cs v) ->
  forall pre, live_sum (pre ++ v) (length pre) cs = zsum v.
Proof.
  induction cs as [|c cs IH]; intros v Hlen Hz pre.
  - destruct v; [reflexivity|discriminate].
  - destruct v as [|x v]; [discriminate|]. cbn [combine] in Hz. inversion Hz as [|? ? Hx Hz']; subst.
    cbn [live_sum]. rewrite zsum_cons. rewrite nth_middle.
    replace (pre ++ x :: v) with ((pre ++ [x]) ++ v) by (rewrite <- app_assoc; reflexivity).
    replace (S (length pre)) with (length (pre ++ [x])) by (rewrite app_length; cbn; lia).
    rewrite IH; [|cbn [length] in Hlen; lia|exact Hz'].
    cbn [fst snd] in Hx. destruct (nth c ts 0 =? 0) eqn:Et; [|reflexivity].
    apply Z.eqb_eq in Et. rewrite (Hx Et). reflexivity.
Qed.

Section OrSeq.
Variables (f : nat) (v : list Z).
Hypothesis Hv : Forall (fun x => 0 <= x) v.

Lemma nth_v_nonneg k : 0 <= nth k v 0.
Proof.
  destruct (Nat.lt_ge_cases k (length v)) as [Hk|Hk].
  - rewrite Forall_forall in Hv. apply Hv. now apply nth_In.
  - rewrite nth_overflow by exact Hk. lia.
Qed.

Lemma live_sum_nonneg (cs : list nat) : forall k, 0 <= live_sum v k cs.
Proof.
  induction cs as [|c cs IH]; intros k; cbn [live_sum]; [lia|].
  specialize (IH (S k)). pose proof (nth_v_nonneg k). destruct (nth c ts 0 =? 0); lia.
Qed.

Lemma or_seq_good (cs : list nat) g :
  respects g ->
  (forall c, In c cs -> (c < length C)%nat /\ (c < f)%nat /\ nth c C FalseN <> TrueN /\ Reach C c /\
                        forall a, 0 <= a -> nth c ts 0 <> 0 -> node_good f a c) ->
  forall k,
    let D := or_seq ts (fun a' c => jointk d ts SL f a' c) v k cs in
    (total D == 1)%Q /\
    (forall r w, In (r, w) D -> length (snd r) = Z.to_nat (live_sum v k cs)) /\
    (expect D (fun r => qsumf g (snd r))
     == qsumf (or_term g v)
              (combine cs (seq k (length cs))))%Q.
Proof.
  intros Hg. induction cs as [|c cs IH]; intros Hcs k D; subst D.
  - cbn [or_seq length seq combine live_sum]. split; [apply total_ret|]. split.
    + intros r w Hr. apply in_dret in Hr. destruct Hr as [-> _]. reflexivity.
    + rewrite expect_ret. reflexivity.
  - destruct (IH (fun c0 Hc0 => Hcs c0 (or_intror Hc0)) (S k)) as [Htot [Hlen Hsum]].
    destruct (Hcs c (or_introl eq_refl)) as [Hc [Hf [Hntc [HRc Hgood]]]].
    cbn [or_seq length seq combine live_sum]. rewrite qsumf_cons. unfold or_term at 1. cbn [fst snd].
    destruct (nth c ts 0 =? 0) eqn:Et.
    + split; [exact Htot|]. split; [exact Hlen|]. rewrite Hsum. ring.
    + apply Z.eqb_neq in Et. pose proof (nth_v_nonneg k) as Hak.
      pose proof (live_cnt d A ts Hts c Hc Et Hntc HRc) as Hcnt.
      specialize (Hgood (nth k v 0) Hak Et). split; [|split].
      * rewrite total_bind; [apply Hgood|]. intros r1 w1 _.
        rewrite total_bind; [exact Htot|]. intros r2 w2 _. apply total_ret.
      * intros r w Hr.
        apply in_dbind in Hr. destruct Hr as [r1 [w1 [w' [Hr1 [Hr _]]]]].
        apply in_dbind in Hr. destruct Hr as [r2 [w2 [w3 [Hr2 [Hr _]]]]].
        apply in_dret in Hr. destruct Hr as [-> _]. cbn [snd]. rewrite app_length.
        destruct (jointk_valid d A ts SL Hok Hts HSL c f _ r1 w1 Hc Hf Hak Hntc HRc Hcnt Hr1) as [Hl1 _].
        rewrite Hl1, (Hlen r2 w2 Hr2). pose proof (live_sum_nonneg cs (S k)). lia.
      * rewrite expect_bind.
        rewrite (expect_ext _ _ (fun r1 => qsumf g (snd r1)
                   + qsumf (or_term g v)
                       (combine cs (seq (S k) (length cs))))%Q).
        -- rewrite expect_plus, expect_const.
           rewrite (node_sum f (nth k v 0) c g Hc Hf Hak Hntc HRc Hcnt Hgood Hg).
           destruct Hgood as [Ht1 _]. rewrite Ht1. ring.
        -- intros r1 w1 _. rewrite expect_bind.
           rewrite (expect_ext _ _ (fun r2 => qsumf g (snd r1) + qsumf g (snd r2))%Q).
           ++ rewrite expect_plus, expect_const, Htot, Hsum. ring.
           ++ intros r2 w2 _. rewrite expect_ret. cbn [snd]. apply qsumf_app.
Qed.

End OrSeq.

(* ---------- the induction ---------- *)

Lemma jointk_good : forall i, (i < length C)%nat ->
  forall f, (i < f)%nat -> Reach C i -> forall a, 0 <= a -> cnt i <> 0 -> node_good f a i.
Proof.
  apply (idx_induction C (fun i => forall f, (i < f)%nat -> Reach C i -> forall a, 0 <= a -> cnt i <> 0 ->
                                   node_good f a i) Hok).
  intros i Hi IH f Hif HR a Ha Hcnt. destruct f as [|f]; [lia|].
  pose proof (reach_children d A Hok i Hi HR Hcnt) as HRc.
  unfold node_good. rewrite jointk_S.
  destruct (a =? 0) eqn:Ea.
  { apply Z.eqb_eq in Ea. subst a. split; [apply total_ret|]. intros j Hj. cbn in Hj. lia. }
  apply Z.eqb_neq in Ea. assert (Ha1 : 1 <= a) by lia.
  pose proof (idx_ok_nth C i FalseN Hok Hi) as Hch.
  pose proof (countsA_unfold A C i 0 Hok Hi) as Hcu.
  pose proof (enums_unfold C Hok i Hi []) as Heu.
  destruct (nth i C FalseN) as [l|cs|cs| |] eqn:E; cbn [children countA_node enum_node] in *.
  - (* Lit *)
    split; [apply total_ret|]. intros j Hj g Hg. unfold posE. rewrite expect_ret. cbn [snd].
    rewrite Heu. cbn [filter okA forallb].
    destruct (memZ (- l) A); [congruence|]. cbn [negb andb]. rewrite Hcu.
    rewrite qsumf_cons, qsumf_nil.
    rewrite (nth_indep _ [] [l]) by (rewrite repeat_n_length; exact Hj). rewrite nth_repeat_n. field.
  - (* And *)
    destruct (and_foldK_good f a cs Ha1) with (done := @nil nat)
      (D := dret (@nil choice, repeat_n (@nil Z) (Z.to_nat a))) as [Htot Hpos].
    + intros c Hc. specialize (Hch c Hc).
      assert (Hcc : cnt c <> 0).
      { rewrite Hcu in Hcnt. apply (zprod_nonzero _ Hcnt). apply in_map_iff. now exists c. }
      split; [lia|]. split; [lia|]. split; [exact (HRc c Hc)|]. split; [exact Hcc|].
      apply IH; [exact Hc|lia|exact (HRc c Hc)|exact Ha|exact Hcc].
    + cbn. lia.
    + apply total_ret.
    + intros r w Hr. apply in_dret in Hr. destruct Hr as [-> _]. cbn [snd]. apply repeat_n_length.
    + intros j Hj g Hg. unfold posE. rewrite expect_ret. cbn [snd map rev prod zprod fold_right].
      rewrite nth_repeat_n, qsumf_cons, qsumf_nil. field.
    + cbn [app] in Htot, Hpos. split; [exact Htot|]. intros j Hj g Hg.
      rewrite (Hpos j Hj g Hg), Hcu, Heu.
      rewrite filter_prod; [|reflexivity|apply okA_app].
      rewrite <- !map_rev, map_map. reflexivity.
  - (* Or *)
    assert (Hti : nth i ts 0 = cnt i) by (apply Hts; [exact Hi|congruence|exact HR]).
    destruct (HSL i cs a Hi E Ha1 ltac:(congruence) HR) as [Hsup [HtotS Hexp]].
    assert (Hkids : forall c, In c cs -> (c < length C)%nat /\ (c < f)%nat /\ nth c C FalseN <> TrueN /\ Reach C c /\
                      forall a', 0 <= a' -> nth c ts 0 <> 0 -> node_good f a' c).
    { intros c Hc. specialize (Hch c Hc). split; [lia|]. split; [lia|].
      split; [exact (Hnt i cs c Hi E Hc)|]. split; [exact (HRc c Hc)|]. intros a' Ha' Ht.
      apply IH; [exact Hc|lia|exact (HRc c Hc)|exact Ha'|].
      apply (live_cnt d A ts Hts); [lia|exact Ht|exact (Hnt i cs c Hi E Hc)|exact (HRc c Hc)]. }
    (* facts about one split vector of the support *)
    assert (Hvec : forall v w, In (v, w) (SL i a) ->
              Forall (fun x => 0 <= x) v /\ live_sum v 0 cs = a).
    { intros v w Hv. destruct (Hsup v w Hv) as [_ Hsp].
      destruct (split_ok_spec ts cs v a Hsp) as [Hlv [Hnn [Hsum Hz]]]. split; [exact Hnn|].
      rewrite <- Hsum. exact (live_sum_all cs v Hlv Hz []). }
    split.
    + rewrite total_bind; [exact HtotS|]. intros v w Hv. destruct (Hvec v w Hv) as [Hnn _].
      rewrite total_bind; [apply (or_seq_good f v Hnn cs (fun _ => 0%Q)); [intros x y _; reflexivity|exact Hkids]|].
      intros r w' _. rewrite total_bind; [apply uperm_total|]. intros p w'' _. apply total_ret.
    + intros j Hj g Hg. unfold posE. rewrite expect_bind.
      rewrite (expect_ext _ _
        (fun v => 1 / inject_Z a *
                  qsumf (or_term g v)
                        (combine cs (seq 0 (length cs))))%Q).
      * rewrite expect_scale, expect_qsumf_swap.
        rewrite (qsumf_ext _ (fun ck => inject_Z a / inject_Z (cnt i) * qsumf g (F (fst ck)))%Q).
        -- rewrite qsumf_scale.
           rewrite <- (qsumf_map fst (fun c => qsumf g (F c))), map_fst_combine_seq.
           rewrite Heu, filter_concat, map_map, qsumf_concat, qsumf_map.
           field. split; apply inject_Z_nonzero; [exact Hcnt|exact Ea].
        -- intros [c k] Hck. unfold or_term. cbn [fst snd].
           destruct (in_combine_seq 0%nat cs 0 c k Hck) as [Hk Hnth]. rewrite Nat.sub_0_r in Hnth.
           assert (Hc : In c cs) by (rewrite <- Hnth; apply nth_In; lia).
           destruct (Hkids c Hc) as [Hcl [_ [Hntc [HRcc _]]]].
           destruct (nth c ts 0 =? 0) eqn:Et.
           ++ apply Z.eqb_eq in Et. rewrite expect_zero.
              rewrite dead_empty'; [rewrite qsumf_nil; ring|exact Hcl|].
              rewrite <- (Hts c Hcl Hntc HRcc). exact Et.
           ++ apply Z.eqb_neq in Et.
              rewrite (expect_ext _ _ (fun v => (1 / inject_Z (cnt c) * qsumf g (F c))
                                                * inject_Z (nth k v 0%Z))%Q)
                by (intros v w _; field; apply inject_Z_nonzero; apply (live_cnt d A ts Hts); assumption).
              rewrite expect_scale. rewrite (Hexp k ltac:(lia)); rewrite Hnth; [|exact Et].
              rewrite Hti, (Hts c Hcl Hntc HRcc). field.
              split; apply inject_Z_nonzero; [exact Hcnt|].
              apply (live_cnt d A ts Hts); assumption.
      * intros v w Hv. destruct (Hvec v w Hv) as [Hnn Hls].
        destruct (or_seq_good f v Hnn cs g Hg Hkids 0) as [_ [Hlen Hsum]].
        rewrite expect_bind. rewrite <- Hsum, <- expect_scale. apply expect_ext. intros r w' Hr.
        specialize (Hlen r w' Hr). rewrite Hls in Hlen.
        assert (Hpad : pad a (snd r) = snd r).
        { unfold pad. rewrite Hlen, Nat.sub_diag. cbn [repeat_n]. apply app_nil_r. }
        rewrite Hpad. rewrite expect_bind.
        rewrite (expect_ext _ _ (fun p => g (nth j (apply_perm p (snd r) []) [])))
          by (intros p w'' _; rewrite expect_ret; reflexivity).
        rewrite shuffle_position by lia. rewrite Hlen, (qz_of_to a Ha). reflexivity.
  - (* True *)
    split; [apply total_ret|]. intros j Hj g Hg. unfold posE. rewrite expect_ret. cbn [snd].
    rewrite Heu, Hcu. cbn [filter okA forallb]. rewrite qsumf_cons, qsumf_nil.
    destruct j; cbn [nth]; field.
  - congruence.
Qed.

End UniformK.
