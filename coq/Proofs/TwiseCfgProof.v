(* C09 pipeline: Config as data.  WFc = the literal vector has one slot per feature and slot i holds
   0, i+1 or -(i+1), n_decided_literals counts the non-zero slots.  Specifications of add / extend /
   from / from_disjoint / contains / covers / conflicts_with in terms of the SET of decided literals. *)
From Coq Require Import List ZArith Bool Arith Lia Permutation.
From DD Require Import Model.Circuit Model.Query Model.TwiseCfg Proofs.Semantics Proofs.C03Proof
  Proofs.TwiseBase.
Import ListNotations.
Open Scope Z_scope.

Definition nz (l : Z) : bool := negb (l =? 0).

Definition slot_ok (i : nat) (x : Z) : Prop := x = 0 \/ x = Z.of_nat (S i) \/ x = - Z.of_nat (S i).

(* slot k+i of a vector that starts at feature k+1 *)
Definition shape_from (k : nat) (l : list Z) : Prop :=
  forall i, (i < length l)%nat -> slot_ok (k + i) (nth i l 0).

Lemma shape_from_tl k a l : shape_from k (a :: l) -> slot_ok k a /\ shape_from (S k) l.
Proof.
  intros H. split.
  - specialize (H 0%nat ltac:(cbn; lia)). now rewrite Nat.add_0_r in H.
  - intros i Hi. specialize (H (S i) ltac:(cbn; lia)). cbn [nth] in H.
    now replace (S k + i)%nat with (k + S i)%nat by lia.
Qed.

Lemma shape_abs_lower k l : shape_from k l -> forall x, In x (filter nz l) -> Z.of_nat k < Z.abs x.
Proof.
  revert k. induction l as [|a l IH]; intros k H x Hx; [destruct Hx|].
  destruct (shape_from_tl k a l H) as [Ha Hl]. cbn [filter] in Hx.
  destruct (nz a) eqn:Ea.
  - destruct Hx as [<-|Hx].
    + unfold nz in Ea. apply negb_true_iff, Z.eqb_neq in Ea. destruct Ha as [->|[->| ->]]; lia.
    + specialize (IH (S k) Hl x Hx). lia.
  - specialize (IH (S k) Hl x Hx). lia.
Qed.

Lemma shape_nodup_abs k l : shape_from k l -> NoDup (map Z.abs (filter nz l)).
Proof.
  revert k. induction l as [|a l IH]; intros k H; [constructor|].
  destruct (shape_from_tl k a l H) as [Ha Hl]. cbn [filter].
  destruct (nz a) eqn:Ea; [|now apply (IH (S k))].
  cbn [map]. constructor; [|now apply (IH (S k))].
  intros Hin. apply in_map_iff in Hin. destruct Hin as [x [Habs Hx]].
  pose proof (shape_abs_lower (S k) l Hl x Hx) as Hlow.
  unfold nz in Ea. apply negb_true_iff, Z.eqb_neq in Ea. destruct Ha as [->|[->| ->]]; lia.
Qed.

(* length of the decided part after writing one slot *)
Lemma filter_nz_upd (i : nat) (x : Z) (l : list Z) : (i < length l)%nat -> x <> 0 ->
  length (filter nz (upd i x l)) =
  if nth i l 0 =? 0 then S (length (filter nz l)) else length (filter nz l).
Proof.
  revert i. induction l as [|a l IH]; intros i Hi Hx; [cbn in Hi; lia|].
  destruct i as [|i]; cbn [upd nth filter].
  - assert (Enx : nz x = true) by (unfold nz; apply negb_true_iff, Z.eqb_neq; exact Hx).
    assert (Ena : nz a = negb (a =? 0)) by reflexivity.
    rewrite Enx, Ena. destruct (a =? 0); cbn [negb length]; reflexivity.
  - cbn in Hi. destruct (nz a); cbn [length]; rewrite (IH i ltac:(lia) Hx);
      destruct (nth i l 0 =? 0); reflexivity.
Qed.

Section Cfg.
Variable n : nat.

Definition inr (l : Z) : Prop := 1 <= Z.abs l <= Z.of_nat n.

Record WFc (c : config) : Prop := {
  wfc_len : length (c_lits c) = n;
  wfc_slot : forall i, (i < n)%nat -> slot_ok i (nth i (c_lits c) 0);
  wfc_ndec : c_ndec c = length (c_decided c);
}.

Lemma lidx_lt l : inr l -> (lidx l < n)%nat.
Proof. unfold inr, lidx. intros H. lia. Qed.

Lemma lidx_abs l : inr l -> Z.of_nat (S (lidx l)) = Z.abs l.
Proof. unfold inr, lidx. intros H. lia. Qed.

Lemma lidx_opp l : lidx (- l) = lidx l.
Proof. unfold lidx. now rewrite Z.abs_opp. Qed.

Lemma slot_lidx i x : slot_ok i x -> x <> 0 -> (i < n)%nat -> inr x /\ lidx x = i.
Proof. unfold slot_ok, inr, lidx. intros [->|[->| ->]] H0 Hi; try congruence; split; lia. Qed.

Lemma decided_eq c : c_decided c = filter nz (c_lits c).
Proof. reflexivity. Qed.

Lemma dec_in c l : WFc c ->
  (In l (c_decided c) <-> l <> 0 /\ inr l /\ nth (lidx l) (c_lits c) 0 = l).
Proof.
  intros [Hlen Hslot _]. rewrite decided_eq, filter_In. unfold nz. rewrite negb_true_iff, Z.eqb_neq. split.
  - intros [Hin H0]. split; [exact H0|]. destruct (In_nth _ _ 0 Hin) as [i [Hi Hnth]].
    rewrite Hlen in Hi. pose proof (Hslot i Hi) as Hs. rewrite Hnth in Hs.
    destruct (slot_lidx i l Hs H0 Hi) as [Hr Hidx]. split; [exact Hr|]. now rewrite Hidx.
  - intros [H0 [Hr Hnth]]. split; [|exact H0]. rewrite <- Hnth. apply nth_In.
    rewrite Hlen. now apply lidx_lt.
Qed.

Lemma dec_inr c l : WFc c -> In l (c_decided c) -> inr l /\ l <> 0.
Proof. intros H Hl. apply (dec_in c l H) in Hl. tauto. Qed.

Lemma dec_nodup_abs c : WFc c -> NoDup (map Z.abs (c_decided c)).
Proof.
  intros [Hlen Hslot _]. rewrite decided_eq. apply (shape_nodup_abs 0).
  intros i Hi. rewrite Hlen in Hi. now apply Hslot.
Qed.

Lemma dec_nodup c : WFc c -> NoDup (c_decided c).
Proof. intros H. apply (NoDup_map_inv Z.abs). now apply dec_nodup_abs. Qed.

Lemma dec_consistent c l : WFc c -> In l (c_decided c) -> ~ In (- l) (c_decided c).
Proof.
  intros H Hl Hn. apply (dec_in c l H) in Hl. apply (dec_in c (- l) H) in Hn.
  destruct Hl as [H0 [_ H1]]. destruct Hn as [_ [_ H2]]. rewrite lidx_opp in H2. lia.
Qed.

Lemma contains_spec c l : WFc c -> l <> 0 -> inr l ->
  (c_contains c l = true <-> In l (c_decided c)).
Proof.
  intros H H0 Hr. unfold c_contains. rewrite Z.eqb_eq, (dec_in c l H). tauto.
Qed.

Lemma covers_spec c I : WFc c -> (forall l, In l I -> l <> 0 /\ inr l) ->
  (c_covers c I = true <-> incl I (c_decided c)).
Proof.
  intros H HI. unfold c_covers. rewrite forallb_forall. split.
  - intros Hall l Hl. destruct (HI l Hl) as [H0 Hr]. specialize (Hall l Hl).
    apply orb_true_iff in Hall. destruct Hall as [Hz|Hc]; [apply Z.eqb_eq in Hz; contradiction|].
    now apply (contains_spec c l H H0 Hr).
  - intros Hinc l Hl. destruct (HI l Hl) as [H0 Hr]. apply orb_true_iff. right.
    apply (contains_spec c l H H0 Hr). now apply Hinc.
Qed.

Lemma conflicts_false c I : WFc c -> (forall l, In l I -> l <> 0 /\ inr l) ->
  c_conflicts c I = false -> forall l, In l I -> ~ In (- l) (c_decided c).
Proof.
  intros H HI Hcf l Hl Hin. destruct (HI l Hl) as [H0 Hr].
  unfold c_conflicts in Hcf.
  assert (Hex : existsb (fun l0 => negb (l0 =? 0) && c_contains c (- l0)) I = true); [|congruence].
  apply existsb_exists. exists l. split; [exact Hl|]. apply andb_true_iff. split.
  - now apply negb_true_iff, Z.eqb_neq.
  - apply contains_spec; [exact H|lia|unfold inr in *; now rewrite Z.abs_opp|exact Hin].
Qed.

(* ---------- add / extend ---------- *)
Lemma add_spec c l : WFc c -> l <> 0 -> inr l -> ~ In (- l) (c_decided c) ->
  WFc (c_add c l) /\ (forall x, In x (c_decided (c_add c l)) <-> x = l \/ In x (c_decided c)) /\
  c_st (c_add c l) = st_incomplete (c_st c).
Proof.
  intros H H0 Hr Hno. pose proof H as [Hlen Hslot Hnd]. unfold c_add.
  assert (E0 : (l =? 0) = false) by now apply Z.eqb_neq. rewrite E0.
  pose proof (lidx_lt l Hr) as Hi. pose proof (lidx_abs l Hr) as Habs.
  assert (HW : WFc (mkCfg (upd (lidx l) l (c_lits c)) (st_incomplete (c_st c))
                          (if nth (lidx l) (c_lits c) 0 =? 0 then S (c_ndec c) else c_ndec c))).
  { constructor; cbn [c_lits c_ndec].
    - now rewrite upd_length.
    - intros i Hi'. destruct (Nat.eq_dec (lidx l) i) as [<-|Hne].
      + rewrite nth_upd_eq by lia. unfold slot_ok. lia.
      + rewrite nth_upd_neq by exact Hne. now apply Hslot.
    - unfold c_decided. cbn [c_lits]. fold nz. rewrite filter_nz_upd by (lia || assumption).
      rewrite Hnd. reflexivity. }
  split; [exact HW|]. split; [|reflexivity].
  intros x. rewrite (dec_in _ x HW), (dec_in c x H). cbn [c_lits].
  destruct (Nat.eq_dec (lidx x) (lidx l)) as [Eidx|Hne].
  - rewrite Eidx, nth_upd_eq by lia. split.
    + intros [_ [_ ->]]. now left.
    + intros [->|[Hx0 [Hxr Hx]]]; [auto|].
      assert (Hxl : x = l \/ x = - l).
      { pose proof (lidx_abs x Hxr). rewrite Eidx in H1. lia. }
      destruct Hxl as [->| ->]; [auto|]. exfalso. apply Hno. apply (dec_in c (- l) H). rewrite lidx_opp. tauto.
  - rewrite nth_upd_neq by (intros E; apply Hne; now symmetry). split.
    + intros Hx. now right.
    + intros [->|Hx]; [congruence|exact Hx].
Qed.

Lemma st_incomplete_idem s : st_incomplete (st_incomplete s) = st_incomplete s.
Proof. destruct s as [[m b]|]; reflexivity. Qed.

Definition consistent (I : cfg) : Prop := forall l, In l I -> ~ In (- l) I.

Lemma fold_add_spec : forall I c, WFc c ->
  (forall l, In l I -> l <> 0 /\ inr l) -> consistent I ->
  (forall l, In l I -> ~ In (- l) (c_decided c)) ->
  WFc (fold_left c_add I c) /\
  (forall x, In x (c_decided (fold_left c_add I c)) <-> In x I \/ In x (c_decided c)) /\
  (st_incomplete (c_st c) = c_st c -> c_st (fold_left c_add I c) = c_st c).
Proof.
  induction I as [|l I IH]; intros c H HI Hcons Hno; cbn [fold_left].
  - split; [exact H|]. split; [intros x; cbn; tauto|auto].
  - destruct (HI l (or_introl eq_refl)) as [H0 Hr].
    destruct (add_spec c l H H0 Hr (Hno l (or_introl eq_refl))) as [HW [Hdec Hst]].
    destruct (IH (c_add c l) HW) as [HW' [Hdec' Hst']].
    + intros x Hx. apply HI. now right.
    + intros x Hx Hn. apply (Hcons x); now right.
    + intros x Hx Hn. apply Hdec in Hn. destruct Hn as [Hn|Hn].
      * apply (Hcons l); [now left|]. replace (- l) with x by lia. now right.
      * apply (Hno x); [now right|exact Hn].
    + split; [exact HW'|]. split.
      * intros x. rewrite Hdec', Hdec. cbn [In]. intuition.
      * intros Hfix. rewrite Hst'; rewrite Hst; [exact Hfix|now rewrite st_incomplete_idem].
Qed.

Lemma extend_spec c I : WFc c ->
  (forall l, In l I -> l <> 0 /\ inr l) -> consistent I ->
  (forall l, In l I -> ~ In (- l) (c_decided c)) ->
  WFc (c_extend c I) /\
  (forall x, In x (c_decided (c_extend c I)) <-> In x I \/ In x (c_decided c)) /\
  c_st (c_extend c I) = st_incomplete (c_st c) /\ c_lits (c_extend c []) = c_lits c.
Proof.
  intros H HI Hcons Hno. unfold c_extend.
  set (c0 := mkCfg (c_lits c) (st_incomplete (c_st c)) (c_ndec c)).
  assert (H0 : WFc c0) by (destruct H; constructor; assumption).
  destruct (fold_add_spec I c0 H0 HI Hcons Hno) as [HW [Hdec Hst]].
  split; [exact HW|]. split; [exact Hdec|]. split; [|reflexivity].
  apply Hst. cbn [c_st c0]. apply st_incomplete_idem.
Qed.

Lemma empty_wf st : WFc (c_empty n st).
Proof.
  unfold c_empty. constructor; cbn [c_lits c_ndec].
  - apply repeat_length.
  - intros i Hi. left. clear Hi. revert i. induction n as [|k IH]; intros [|i]; cbn; auto.
  - unfold c_decided. cbn [c_lits]. induction n as [|k IH]; cbn; auto.
Qed.

Lemma empty_dec st : c_decided (c_empty n st) = [].
Proof. unfold c_decided, c_empty. cbn [c_lits]. induction n as [|k IH]; cbn; auto. Qed.

Lemma from_spec I : (forall l, In l I -> l <> 0 /\ inr l) -> consistent I ->
  WFc (c_from n I) /\ (forall x, In x (c_decided (c_from n I)) <-> In x I) /\ c_st (c_from n I) = None.
Proof.
  intros HI Hcons. unfold c_from.
  destruct (extend_spec (c_empty n None) I (empty_wf None) HI Hcons) as [HW [Hdec [Hst _]]].
  - intros l _. rewrite empty_dec. intros [].
  - split; [exact HW|]. split; [|exact Hst]. intros x. rewrite Hdec, empty_dec. cbn. tauto.
Qed.

Lemma from_disjoint_spec l r : WFc l -> WFc r ->
  (forall x, In x (c_decided l) -> ~ In (- x) (c_decided r)) ->
  let c := c_from_disjoint n l r in
  WFc c /\ (forall x, In x (c_decided c) <-> In x (c_decided l) \/ In x (c_decided r)) /\
  (c_st c = None \/
   exists m, c_st c = Some (m, false) /\
     ((exists b, c_st l = Some (m, b)) \/ (exists b, c_st r = Some (m, b)))).
Proof.
  intros Hl Hr Hdis. unfold c_from_disjoint.
  set (st := match c_st l, c_st r with
             | Some (sl, _), Some (sr, _) => if (c_ndec r <=? c_ndec l)%nat then Some (sl, false) else Some (sr, false)
             | Some (s, _), None | None, Some (s, _) => Some (s, false)
             | None, None => None
             end).
  destruct (extend_spec (c_empty n st) (c_decided l) (empty_wf st)) as [HW1 [Hd1 [Hs1 _]]].
  - intros x Hx. destruct (dec_inr l x Hl Hx). tauto.
  - intros x Hx. now apply dec_consistent.
  - intros x _. rewrite empty_dec. intros [].
  - destruct (extend_spec (c_extend (c_empty n st) (c_decided l)) (c_decided r) HW1) as [HW2 [Hd2 [Hs2 _]]].
    + intros x Hx. destruct (dec_inr r x Hr Hx). tauto.
    + intros x Hx. now apply dec_consistent.
    + intros x Hx Hn. apply Hd1 in Hn. rewrite empty_dec in Hn. destruct Hn as [Hn|[]].
      apply (Hdis (- x) Hn). now rewrite Z.opp_involutive.
    + cbv zeta. split; [exact HW2|]. split.
      * intros x. rewrite Hd2, Hd1, empty_dec. cbn. tauto.
      * rewrite Hs2, Hs1, st_incomplete_idem. cbn [c_st c_empty]. subst st.
        destruct (c_st l) as [[sl bl]|], (c_st r) as [[sr br]|]; cbn [st_incomplete].
        -- destruct (c_ndec r <=? c_ndec l)%nat; cbn [st_incomplete]; right; eexists; split; try reflexivity;
             [left|right]; eexists; reflexivity.
        -- right. eexists. split; [reflexivity|]. left. eexists. reflexivity.
        -- right. eexists. split; [reflexivity|]. right. eexists. reflexivity.
        -- now left.
Qed.

Lemma set_state_wf c m : WFc c -> WFc (c_set_state c m).
Proof. intros [H1 H2 H3]. constructor; assumption. Qed.

Lemma set_state_dec c m : c_decided (c_set_state c m) = c_decided c.
Proof. reflexivity. Qed.

End Cfg.
