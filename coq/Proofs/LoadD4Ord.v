(* C18 on the d4 loader model: the hash-set iteration order `ord` enters load_d4_gen only
   through `ord missing` in balance_or_children, and `missing` is always a canon_set (ascending,
   duplicate free).  Hence
   - two oracles that agree on canonical lists give the same loader (load_d4_gen_ext);
   - the repaired loader (sort after the hash order) does not depend on the oracle at all and
     equals load_d4;
   - the unrepaired loader does depend on it (vm_compute witness). *)
From Coq Require Import List ZArith Bool Lia Permutation Sorting.Sorted.
From DD Require Import Model.Circuit Model.Query Model.LexerD4 Model.LoadC2d Model.LoadD4
  Proofs.C18Proof.
Import ListNotations.
Local Open Scope nat_scope.

(* ---------- sort_nat on sorted lists ---------- *)
Lemma insert_nat_In x y l : In y (insert_nat x l) -> y = x \/ In y l.
Proof.
  induction l as [|a l IH]; cbn [insert_nat]; intros H.
  - destruct H as [<-|[]]. now left.
  - destruct (Nat.leb x a).
    + destruct H as [<-|H]; [now left|now right].
    + destruct H as [<-|H]; [right; now left|].
      destruct (IH H) as [->|H']; [now left|right; now right].
Qed.

Lemma insert_nat_SS x l : StronglySorted le l -> StronglySorted le (insert_nat x l).
Proof.
  induction 1 as [|a l Hs IH Ha]; cbn [insert_nat].
  - constructor; constructor.
  - destruct (Nat.leb x a) eqn:E.
    + apply Nat.leb_le in E. constructor; [constructor; assumption|].
      constructor; [exact E|]. rewrite Forall_forall in *. intros y Hy. specialize (Ha y Hy). lia.
    + apply Nat.leb_gt in E. constructor; [exact IH|].
      rewrite Forall_forall in *. intros y Hy.
      destruct (insert_nat_In _ _ _ Hy) as [->|Hy']; [lia|now apply Ha].
Qed.

Lemma sort_nat_SS l : StronglySorted le (sort_nat l).
Proof.
  induction l as [|a l IH]; [constructor|].
  cbn [sort_nat fold_right]. fold (sort_nat l). now apply insert_nat_SS.
Qed.

Lemma sort_nat_sorted_id l : StronglySorted le l -> sort_nat l = l.
Proof.
  induction 1 as [|a l Hs IH Ha]; [reflexivity|].
  cbn [sort_nat fold_right]. fold (sort_nat l). rewrite IH.
  destruct l as [|b l]; [reflexivity|]. cbn [insert_nat].
  inversion Ha as [|? ? Hab _]; subst. apply Nat.leb_le in Hab. now rewrite Hab.
Qed.

Lemma dedup_sorted_In x l : In x (dedup_sorted l) -> In x l.
Proof.
  induction l as [|a l IH]; [intros []|].
  cbn [dedup_sorted]. destruct l as [|b l]; [tauto|].
  destruct (Nat.eqb a b).
  - intros H. right. now apply IH.
  - intros [<-|H]; [now left|right; now apply IH].
Qed.

Lemma dedup_sorted_SS l : StronglySorted le l -> StronglySorted le (dedup_sorted l).
Proof.
  induction 1 as [|a l Hs IH Ha]; [constructor|].
  cbn [dedup_sorted]. destruct l as [|b l]; [constructor; constructor|].
  destruct (Nat.eqb a b); [exact IH|].
  constructor; [exact IH|]. rewrite Forall_forall in *. intros y Hy.
  apply Ha. now apply dedup_sorted_In.
Qed.

Lemma canon_set_SS l : StronglySorted le (canon_set l).
Proof. unfold canon_set. apply dedup_sorted_SS, sort_nat_SS. Qed.

Definition perm_oracle (ord : list nat -> list nat) : Prop := forall l, Permutation (ord l) l.

Lemma sort_after_oracle ord x : perm_oracle ord -> sort_nat (ord (canon_set x)) = canon_set x.
Proof.
  intros H. rewrite (sort_nat_perm _ _ (H (canon_set x))).
  apply sort_nat_sorted_id, canon_set_SS.
Qed.

(* ---------- extensionality in the oracle ---------- *)
Definition canonical (cm : nat * list nat) : Prop := exists x, snd cm = canon_set x.

Lemma diff_go_canonical post : forall pre, Forall canonical (diff_go pre post).
Proof.
  induction post as [|[c s] r IH]; intros pre; cbn [diff_go]; [constructor|].
  destruct (canon_set _) as [|m ms] eqn:E; [apply IH|].
  constructor; [|apply IH]. eexists. cbn [snd]. symmetry. exact E.
Qed.

Section Ext.
Variable rc : bool.
Variables o1 o2 : list nat -> list nat.
Hypothesis Ho : forall x, o1 (canon_set x) = o2 (canon_set x).

Lemma balance_ext from children : Forall canonical children -> forall s,
  balance_or_children rc o1 from children s = balance_or_children rc o2 from children s.
Proof.
  induction 1 as [|[child missing] r [x Hx] _ IH]; intros s; [reflexivity|].
  cbn [balance_or_children]. cbn [snd] in Hx. subst missing. rewrite Ho.
  destruct (add_node rc GAnd (ls_g s)) as [an g1].
  destruct (negb _); [reflexivity|].
  destruct (ls_add_edge _ _ _) as [s2|]; [|reflexivity].
  destruct (ls_add_edge _ _ s2) as [s3|]; [|reflexivity].
  destruct (add_literal_nodes _ _ _ _) as [s4|]; [|reflexivity].
  apply IH.
Qed.

Lemma pass3_body_ext m s nx : pass3_body rc o1 m s nx = pass3_body rc o2 m s nx.
Proof.
  unfold pass3_body. destruct (sg_label _ _) as [[]|]; try reflexivity.
  destruct (children_diff _ _); [|reflexivity]. apply balance_ext, diff_go_canonical.
Qed.

Lemma dfs_fold_ext {St} (nb : St -> nat -> list nat) (b1 b2 : St -> nat -> option St) :
  (forall s x, b1 s x = b2 s x) ->
  forall fuel s stack disc fin, dfs_fold nb b1 fuel s stack disc fin = dfs_fold nb b2 fuel s stack disc fin.
Proof.
  intros Hb. induction fuel as [|f IH]; intros s stack disc fin; [reflexivity|].
  cbn [dfs_fold]. destruct stack as [|nx rest]; [reflexivity|].
  destruct (negb _); [apply IH|]. destruct (mem nx fin); [apply IH|].
  rewrite Hb. destruct (b2 s nx); [apply IH|reflexivity].
Qed.

Lemma pass3_ext s root : pass3 rc o1 s root = pass3 rc o2 s root.
Proof.
  unfold pass3. destruct (get_literal_diffs _ _); [|reflexivity].
  apply dfs_fold_ext. intros. apply pass3_body_ext.
Qed.

Lemma build_d4_graph_ext toks n : build_d4_graph rc o1 toks n = build_d4_graph rc o2 toks n.
Proof.
  unfold build_d4_graph, build_d4_graph_with. destruct (d4_lines _ _ _); [|reflexivity].
  destruct (negb _); [reflexivity|].
  destruct (add_free _ _ _ _ _) as [[root s1]|]; [|reflexivity].
  destruct (pass2 _ _); [|reflexivity]. now rewrite pass3_ext.
Qed.

Theorem load_d4_gen_ext toks n : load_d4_gen rc o1 toks n = load_d4_gen rc o2 toks n.
Proof.
  unfold load_d4_gen, load_d4_gen_with. fold (build_d4_graph rc o1) (build_d4_graph rc o2).
  now rewrite build_d4_graph_ext.
Qed.
End Ext.

(* ---------- the three statements ---------- *)

(* the repaired loader: whatever order the hash set yields, the result is load_d4 *)
Theorem load_d4_h_is_load_d4 ord toks n : perm_oracle ord -> load_d4_h ord toks n = load_d4 toks n.
Proof.
  intros H. unfold load_d4_h, load_d4. apply load_d4_gen_ext.
  intros x. now apply sort_after_oracle.
Qed.

Theorem loader_function ord1 ord2 toks n :
  perm_oracle ord1 -> perm_oracle ord2 -> load_d4_h ord1 toks n = load_d4_h ord2 toks n.
Proof. intros H1 H2. now rewrite !load_d4_h_is_load_d4. Qed.

(* the file of finding F5 cut down to three features: o 1 0 / t 2 0 / 1 2 1 2 3 0 / 1 2 -1 0 *)
Definition f5_file : list d4token :=
  [DOr; DTrue; DEdge 1 2 [1; 2; 3]%Z; DEdge 1 2 [-1]%Z].

Theorem loader_v0_refuted : exists toks n ord1 ord2,
  perm_oracle ord1 /\ perm_oracle ord2 /\ load_d4_v0 ord1 toks n <> load_d4_v0 ord2 toks n.
Proof.
  exists f5_file, 3, (fun l => l), (@rev nat). split; [|split].
  - intros l. reflexivity.
  - intros l. symmetry. apply Permutation_rev.
  - vm_compute. discriminate.
Qed.
