(* C05: core / dead features (anomalies/core.rs).
   (A) the cached core (calculate_core, the repaired algorithm F22: live literals only) is exact
       for every WF circuit that has a model - dead branches or not; it is sound for every WF circuit;
   (A0) the syntactic core of the code before the repair (calculate_core_v0) is sound for every
       WF circuit and exact when no node is dead (no_dead) and every node is reachable;
   (B) without no_dead calculate_core_v0 is incomplete (finding K7, repaired by F22);
   (C) the with-assumptions loop, stated against the truth-table count MCA, reports exactly the
       literals fixed in all models that contain the assumptions; glue lemma to the algorithm
       under the hypothesis that execute_query computes MCA;
   (D) the per-candidate criterion. *)
From Coq Require Import List ZArith Bool Lia Permutation.
From DD Require Import Model.Circuit Model.Query Proofs.PassLemmas Proofs.Enum Proofs.Semantics
  Proofs.DetCert Proofs.CountsA Proofs.QueryDefs Proofs.Live.
Import ListNotations.
Open Scope Z_scope.

(* ================= lit_idx / has_lit ================= *)

Lemma lit_idx_from_notin (C : circuit) (i : nat) (l : Z) (acc : option nat) :
  ~ In (Lit l) C -> lit_idx_from i C l acc = acc.
Proof.
  revert i acc. induction C as [|nd C IH]; intros i acc Hn; [reflexivity|].
  cbn [lit_idx_from]. rewrite IH by (intros H; apply Hn; now right).
  destruct nd as [l'|cs|cs| |]; try reflexivity.
  destruct (l' =? l) eqn:E; [|reflexivity].
  apply Z.eqb_eq in E. subst l'. exfalso. apply Hn. now left.
Qed.

Lemma lit_idx_from_acc (C : circuit) (i : nat) (l : Z) (acc : option nat) :
  acc <> None -> lit_idx_from i C l acc <> None.
Proof.
  revert i acc. induction C as [|nd C IH]; intros i acc Ha; [exact Ha|].
  cbn [lit_idx_from]. apply IH.
  destruct nd as [l'|cs|cs| |]; try exact Ha.
  destruct (l' =? l); [discriminate|exact Ha].
Qed.

Lemma lit_idx_from_in (C : circuit) (i : nat) (l : Z) (acc : option nat) :
  In (Lit l) C -> lit_idx_from i C l acc <> None.
Proof.
  revert i acc. induction C as [|nd C IH]; intros i acc Hin; [destruct Hin|].
  cbn [lit_idx_from]. destruct Hin as [->|Hin].
  - rewrite Z.eqb_refl. apply lit_idx_from_acc. discriminate.
  - now apply IH.
Qed.

Lemma ntype_eq_dec (a b : ntype) : {a = b} + {a <> b}.
Proof. decide equality; try apply Z.eq_dec; apply list_eq_dec, Nat.eq_dec. Qed.

Lemma has_lit_In (C : circuit) (l : Z) : has_lit C l = true <-> In (Lit l) C.
Proof.
  unfold has_lit, lit_idx. split.
  - intros H. destruct (in_dec ntype_eq_dec (Lit l) C) as [Hin|Hn]; [exact Hin|].
    rewrite (lit_idx_from_notin C 0 l None Hn) in H. discriminate.
  - intros Hin. pose proof (lit_idx_from_in C 0 l None Hin) as Hne.
    destruct (lit_idx_from 0 C l None); [reflexivity|congruence].
Qed.

Lemma has_lit_false (C : circuit) (l : Z) : has_lit C l = false <-> ~ In (Lit l) C.
Proof. rewrite <- has_lit_In. destruct (has_lit C l); split; congruence. Qed.

Lemma calculate_core_v0_In (C : circuit) (n : nat) (l : Z) :
  In l (calculate_core_v0 C n) <->
  - Z.of_nat n <= l <= Z.of_nat n /\ In (Lit l) C /\ ~ In (Lit (- l)) C.
Proof.
  unfold calculate_core_v0. rewrite filter_In, zseq_In, andb_true_iff, negb_true_iff.
  rewrite has_lit_In, has_lit_false. split.
  - intros [Hr [H1 H2]]. split; [lia|tauto].
  - intros [Hr [H1 H2]]. split; [lia|tauto].
Qed.

(* ================= literals of enumerated configurations are leaves ================= *)

Lemma in_prod_lit (Ls : list (list cfg)) (c : cfg) (x : Z) :
  In c (prod Ls) -> In x c -> exists L y, In L Ls /\ In y L /\ In x y.
Proof.
  revert c. induction Ls as [|L0 Ls IH]; intros c Hc Hx.
  - cbn in Hc. destruct Hc as [<-|[]]. destruct Hx.
  - apply in_prod_cons in Hc. destruct Hc as [y [r [Hy [Hr ->]]]].
    apply in_app_iff in Hx. destruct Hx as [Hx|Hx].
    + exists L0, y. split; [now left|now split].
    + destruct (IH r Hr Hx) as [L [z [HL [Hz Hxz]]]].
      exists L, z. split; [now right|now split].
Qed.

Lemma enum_lits (C : circuit) :
  idx_ok C = true -> forall i, (i < length C)%nat ->
  forall c, In c (nth i (enums C) []) -> forall x, In x c -> In (Lit x) C.
Proof.
  intros Hok.
  apply (idx_induction C (fun i => forall c, In c (nth i (enums C) []) ->
                                   forall x, In x c -> In (Lit x) C) Hok).
  intros i Hi IH c Hc x Hx.
  rewrite (enums_unfold C Hok i Hi) in Hc.
  pose proof (node_in C i Hi) as Hin.
  destruct (nth i C FalseN) as [l|cs|cs| |] eqn:E; cbn [enum_node children] in *.
  - destruct Hc as [<-|[]]. destruct Hx as [<-|[]]. exact Hin.
  - destruct (in_prod_lit _ c x Hc Hx) as [L [y [HL [Hy Hxy]]]].
    apply in_rev in HL. apply in_map_iff in HL. destruct HL as [ch [<- Hch]].
    exact (IH ch Hch y Hy x Hxy).
  - apply in_concat in Hc. destruct Hc as [L [HL HcL]].
    apply in_map_iff in HL. destruct HL as [ch [<- Hch]].
    exact (IH ch Hch c HcL x Hx).
  - destruct Hc as [<-|[]]. destruct Hx.
  - destruct Hc.
Qed.

(* ================= complete configurations and their canonical image ================= *)

Lemma good_in_canon (n : nat) (c : cfg) (V : list Z) (x : Z) :
  Good c V -> range_set n V -> In x c -> In x (canon_cfg n c).
Proof.
  intros HG HV Hx. destruct (good_range_lits n c V HG HV) as [Hr H0].
  apply memZ_In. unfold canon_cfg. rewrite memZ_canon by now apply Hr.
  pose proof (sat_self c (proj1 HG) H0) as Hs. unfold sat_cfg in Hs.
  rewrite forallb_forall in Hs. now apply Hs.
Qed.

Lemma good_has_var (n : nat) (c : cfg) (V : list Z) (l : Z) :
  Good c V -> range_set n V -> 1 <= Z.abs l <= Z.of_nat n -> In l c \/ In (- l) c.
Proof.
  intros [_ Hcov] HV Hl.
  assert (Hin : In (Z.abs l) (map Z.abs c)) by (apply Hcov, HV, Hl).
  apply in_map_iff in Hin. destruct Hin as [x [Habs Hx]].
  assert (Hcase : x = l \/ x = - l) by lia.
  destruct Hcase as [->| ->]; [now left|now right].
Qed.

Lemma canon_In_range (n : nat) (s : asg) (x : Z) :
  In x (canon n s) -> 1 <= Z.abs x <= Z.of_nat n.
Proof.
  unfold canon. intros Hx. apply in_map_iff in Hx. destruct Hx as [v [Hv Hin]].
  apply zseq_In in Hin. destruct (s v); lia.
Qed.

Lemma canon_no_conflict (n : nat) (s : asg) (x : Z) :
  In x (canon n s) -> In (- x) (canon n s) -> False.
Proof.
  intros H1 H2. pose proof (canon_In_range n s x H1) as Hr.
  apply memZ_In in H1. apply memZ_In in H2.
  rewrite memZ_canon in H1 by exact Hr.
  rewrite memZ_canon in H2 by (rewrite Z.abs_opp; exact Hr).
  apply (lit_true_conflict s x); [lia|exact H1|exact H2].
Qed.

(* a row of the truth table contains exactly one of v, -v for 1 <= v <= n *)
Lemma table_memZ_opp (n : nat) (m : cfg) (v : Z) :
  In m (all_cfgs n) -> 1 <= v <= Z.of_nat n -> memZ (- v) m = negb (memZ v m).
Proof.
  intros Hm Hv. rewrite <- (canon_asg_of n m Hm).
  rewrite !memZ_canon by lia. unfold lit_true.
  replace (0 <? v) with true by (symmetry; apply Z.ltb_lt; lia).
  replace (0 <? - v) with false by (symmetry; apply Z.ltb_ge; lia).
  now rewrite Z.opp_involutive.
Qed.

Lemma Models_in_table (C : circuit) (n : nat) (m : cfg) :
  In m (Models C n) -> In m (all_cfgs n).
Proof. unfold Models. intros H. apply filter_In in H. apply H. Qed.

Lemma table_In_range (n : nat) (m : cfg) (x : Z) :
  In m (all_cfgs n) -> In x m -> 1 <= Z.abs x <= Z.of_nat n.
Proof. intros Hm Hx. rewrite <- (canon_asg_of n m Hm) in Hx. exact (canon_In_range n _ x Hx). Qed.

Lemma table_no_conflict (n : nat) (m : cfg) (x : Z) :
  In m (all_cfgs n) -> In x m -> In (- x) m -> False.
Proof.
  intros Hm H1 H2. rewrite <- (canon_asg_of n m Hm) in H1, H2.
  exact (canon_no_conflict n _ x H1 H2).
Qed.

(* models <-> root configurations *)
Lemma model_repr (C : circuit) (n : nat) (m : cfg) :
  WF C n -> In m (Models C n) -> exists c, In c (enum_root C) /\ m = canon_cfg n c.
Proof.
  intros HWF Hm. pose proof (models_enum_perm C n HWF) as HP.
  apply (Permutation_in m (Permutation_sym HP)) in Hm.
  apply in_map_iff in Hm. destruct Hm as [c [<- Hc]]. now exists c.
Qed.

Lemma repr_model (C : circuit) (n : nat) (c : cfg) :
  WF C n -> In c (enum_root C) -> In (canon_cfg n c) (Models C n).
Proof.
  intros HWF Hc. apply (Permutation_in _ (models_enum_perm C n HWF)). now apply in_map.
Qed.

(* ================= (A) soundness: needs WF only ================= *)

Theorem core_sound_WF_v0 (C : circuit) (n : nat) (l : Z) :
  WF C n -> In l (calculate_core_v0 C n) -> forall m, In m (Models C n) -> In l m.
Proof.
  intros HWF Hl m Hm.
  apply calculate_core_v0_In in Hl. destruct Hl as [Hr [Hpos Hneg]].
  assert (Hnz : l <> 0).
  { intros ->. apply Hneg. exact Hpos. }
  destruct (model_repr C n m HWF Hm) as [c [Hc ->]].
  pose proof (root_good C n HWF c Hc) as HG.
  pose proof (complete_range C n (wf_complete C n HWF)) as HV.
  apply (good_in_canon n c _ l HG HV).
  destruct (good_has_var n c _ l HG HV ltac:(lia)) as [Hin|Hin]; [exact Hin|].
  exfalso. apply Hneg.
  rewrite enum_root_nth in Hc.
  exact (enum_lits C (wf_idx C n HWF) (root C) (root_lt C (wf_nonempty C n HWF)) c Hc (- l) Hin).
Qed.

Theorem core_sound_v0 (C : circuit) (n : nat) (l : Z) :
  WFQ C n -> In l (calculate_core_v0 C n) -> forall m, In m (Models C n) -> In l m.
Proof. intros HQ. apply core_sound_WF_v0. apply HQ. Qed.

(* ================= upward extension (no_dead + all_reachable) ================= *)

Lemma prod_nonempty (Ls : list (list cfg)) :
  (forall L, In L Ls -> L <> []) -> exists r, In r (prod Ls).
Proof.
  induction Ls as [|L0 Ls IH]; intros Hne.
  - exists []. now left.
  - destruct IH as [r Hr]; [intros L HL; apply Hne; now right|].
    destruct L0 as [|y L1]; [exfalso; apply (Hne []); [now left|reflexivity]|].
    exists (y ++ r). apply in_prod_cons. exists y, r. split; [now left|now split].
Qed.

Lemma prod_extend (Ls : list (list cfg)) (L : list cfg) (x : cfg) :
  (forall L', In L' Ls -> L' <> []) -> In L Ls -> In x L ->
  exists c, In c (prod Ls) /\ incl x c.
Proof.
  induction Ls as [|L0 Ls IH]; intros Hne HL Hx; [destruct HL|].
  assert (Hne' : forall L', In L' Ls -> L' <> []) by (intros L' HL'; apply Hne; now right).
  destruct HL as [->|HL].
  - destruct (prod_nonempty Ls Hne') as [r Hr].
    exists (x ++ r). split; [|apply incl_appl, incl_refl].
    apply in_prod_cons. exists x, r. now repeat split.
  - destruct (IH Hne' HL Hx) as [r [Hr Hinc]].
    destruct L0 as [|y L1]; [exfalso; apply (Hne []); [now left|reflexivity]|].
    exists (y ++ r). split; [|apply incl_appr, Hinc].
    apply in_prod_cons. exists y, r. split; [now left|now split].
Qed.

Lemma has_parent_spec (C : circuit) (i : nat) :
  has_parent C i = true ->
  exists p, (p < length C)%nat /\ In i (children (nth p C FalseN)).
Proof.
  unfold has_parent. intros H. apply existsb_exists in H. destruct H as [nd [Hnd Hch]].
  apply existsb_exists in Hch. destruct Hch as [c [Hc Heq]]. apply Nat.eqb_eq in Heq. subst c.
  destruct (In_nth C nd FalseN Hnd) as [p [Hp Hnth]].
  exists p. split; [exact Hp|]. now rewrite Hnth.
Qed.

Lemma counts_length (C : circuit) : length (counts C) = length C.
Proof. apply pass_length. Qed.

Lemma no_dead_pos (C : circuit) (i : nat) :
  no_dead C = true -> (i < length C)%nat -> 0 < nth i (counts C) 0.
Proof.
  unfold no_dead. intros H Hi. rewrite forallb_forall in H.
  apply Z.ltb_lt. apply H. apply nth_In. now rewrite counts_length.
Qed.

Lemma no_dead_nonempty (C : circuit) (i : nat) :
  no_dead C = true -> (i < length C)%nat -> nth i (enums C) [] <> [].
Proof.
  intros H Hi Hnil. pose proof (no_dead_pos C i H Hi) as Hpos.
  rewrite <- enum_count_nth, Hnil in Hpos. cbn in Hpos. lia.
Qed.

Lemma step_up (C : circuit) (i p : nat) :
  idx_ok C = true -> no_dead C = true -> (p < length C)%nat ->
  In i (children (nth p C FalseN)) ->
  forall x, In x (nth i (enums C) []) ->
  exists y, In y (nth p (enums C) []) /\ incl x y.
Proof.
  intros Hok Hnd Hp Hch x Hx.
  rewrite (enums_unfold C Hok p Hp).
  pose proof (idx_ok_nth C p FalseN Hok Hp) as Hlt.
  destruct (nth p C FalseN) as [l|cs|cs| |] eqn:E; cbn [enum_node children] in *;
    try (now destruct Hch).
  - apply (prod_extend _ (nth i (enums C) []) x).
    + intros L' HL'. apply in_rev in HL'. apply in_map_iff in HL'.
      destruct HL' as [ch [<- Hc]]. apply no_dead_nonempty; [exact Hnd|].
      specialize (Hlt ch Hc). lia.
    + apply in_rev. rewrite rev_involutive. apply in_map_iff. now exists i.
    + exact Hx.
  - exists x. split; [|apply incl_refl].
    apply in_concat. exists (nth i (enums C) []). split; [|exact Hx].
    apply in_map_iff. now exists i.
Qed.

Lemma extends_to_root (C : circuit) :
  C <> [] -> idx_ok C = true -> no_dead C = true -> all_reachable C = true ->
  forall k i, (root C - i = k)%nat -> (i < length C)%nat ->
  forall x, In x (nth i (enums C) []) ->
  exists c, In c (enum_root C) /\ incl x c.
Proof.
  intros Hne Hok Hnd Hreach k.
  induction k as [k IH] using lt_wf_ind. intros i Hk Hi x Hx.
  destruct (Nat.eq_dec i (root C)) as [->|Hneq].
  - exists x. split; [now rewrite enum_root_nth|apply incl_refl].
  - assert (Hi' : (i < length C - 1)%nat) by (unfold root in *; lia).
    unfold all_reachable in Hreach. rewrite forallb_forall in Hreach.
    assert (Hpar : has_parent C i = true) by (apply Hreach; apply in_seq; lia).
    destruct (has_parent_spec C i Hpar) as [p [Hp Hch]].
    pose proof (idx_ok_nth C p FalseN Hok Hp i Hch) as Hip.
    destruct (step_up C i p Hok Hnd Hp Hch x Hx) as [y [Hy Hxy]].
    destruct (IH (root C - p)%nat ltac:(unfold root in *; lia) p eq_refl Hp y Hy) as [c [Hc Hyc]].
    exists c. split; [exact Hc|]. exact (incl_tran Hxy Hyc).
Qed.

(* every leaf literal occurs in some model *)
Lemma leaf_in_some_model (C : circuit) (n : nat) (x : Z) :
  WF C n -> no_dead C = true -> all_reachable C = true ->
  In (Lit x) C -> exists m, In m (Models C n) /\ In x m.
Proof.
  intros HWF Hnd Hreach Hin.
  destruct (In_nth C (Lit x) FalseN Hin) as [k [Hk Hnth]].
  assert (Hx : In [x] (nth k (enums C) [])).
  { rewrite (enums_unfold C (wf_idx C n HWF) k Hk), Hnth. now left. }
  destruct (extends_to_root C (wf_nonempty C n HWF) (wf_idx C n HWF) Hnd Hreach
              _ k eq_refl Hk [x] Hx) as [c [Hc Hinc]].
  exists (canon_cfg n c). split; [now apply repr_model|].
  apply (good_in_canon n c (last (varss C) [])).
  - now apply (root_good C n HWF).
  - apply complete_range. apply HWF.
  - apply Hinc. now left.
Qed.

Lemma no_dead_has_model (C : circuit) (n : nat) :
  WF C n -> no_dead C = true -> exists m, In m (Models C n).
Proof.
  intros HWF Hnd.
  pose proof (no_dead_nonempty C (root C) Hnd (root_lt C (wf_nonempty C n HWF))) as Hne.
  rewrite <- enum_root_nth in Hne.
  destruct (enum_root C) as [|c R] eqn:E; [congruence|].
  exists (canon_cfg n c). apply repr_model; [exact HWF|]. rewrite E. now left.
Qed.

(* ================= (A) completeness ================= *)

(* uses: WF, all_reachable, no_dead (not unique_leaves, not lits_nonzero) *)
Theorem core_complete_WF_v0 (C : circuit) (n : nat) (l : Z) :
  WF C n -> all_reachable C = true -> no_dead C = true ->
  (forall m, In m (Models C n) -> In l m) -> In l (calculate_core_v0 C n).
Proof.
  intros HWF Hreach Hnd Hall.
  destruct (no_dead_has_model C n HWF Hnd) as [m0 Hm0].
  pose proof (Models_in_table C n m0 Hm0) as Ht0.
  pose proof (table_In_range n m0 l Ht0 (Hall m0 Hm0)) as Hr.
  apply calculate_core_v0_In. split; [lia|]. split.
  - (* the leaf l exists: m0 comes from a root configuration that mentions |l| *)
    destruct (model_repr C n m0 HWF Hm0) as [c [Hc Heq]].
    pose proof (root_good C n HWF c Hc) as HG.
    pose proof (complete_range C n (wf_complete C n HWF)) as HV.
    destruct (good_has_var n c _ l HG HV Hr) as [Hin|Hin].
    + rewrite enum_root_nth in Hc.
      exact (enum_lits C (wf_idx C n HWF) (root C) (root_lt C (wf_nonempty C n HWF)) c Hc l Hin).
    + exfalso. apply (table_no_conflict n m0 l Ht0 (Hall m0 Hm0)).
      rewrite Heq. exact (good_in_canon n c _ (- l) HG HV Hin).
  - (* the leaf -l does not exist: otherwise some model contains -l *)
    intros Hin.
    destruct (leaf_in_some_model C n (- l) HWF Hnd Hreach Hin) as [m [Hm Hlm]].
    exact (table_no_conflict n m l (Models_in_table C n m Hm) (Hall m Hm) Hlm).
Qed.

Theorem core_syntactic_v0 (C : circuit) (n : nat) (l : Z) :
  WFQ C n -> no_dead C = true ->
  (In l (calculate_core_v0 C n) <-> (forall m, In m (Models C n) -> In l m)).
Proof.
  intros HQ Hnd. split.
  - apply core_sound_v0. exact HQ.
  - apply core_complete_WF_v0; [apply HQ|apply HQ|exact Hnd].
Qed.

(* ================= (A) the repaired core: exact whenever there is a model ================= *)

Lemma core_nonzero (C : circuit) (n : nat) (l : Z) : In l (calculate_core C n) -> l <> 0.
Proof. intros H ->. apply core_In_raw in H. destruct H as [_ [H1 H2]]. now apply H2. Qed.

Lemma core_range (C : circuit) (n : nat) (l : Z) :
  In l (calculate_core C n) -> 1 <= Z.abs l <= Z.of_nat n.
Proof.
  intros H. pose proof (core_nonzero C n l H) as Hnz.
  apply core_In_raw in H. destruct H as [Hr _]. lia.
Qed.

(* soundness needs WF only: without a model there is nothing to show, with a model the complement
   of a core literal occurs in no configuration of the root *)
Theorem core_sound_WF (C : circuit) (n : nat) (l : Z) :
  WF C n -> In l (calculate_core C n) -> forall m, In m (Models C n) -> In l m.
Proof.
  intros HWF Hl m Hm.
  pose proof (core_range C n l Hl) as Hr.
  pose proof (core_enum_spec C n l (wf_idx C n HWF) (wf_nonempty C n HWF) Hl) as Hneg.
  destruct (model_repr C n m HWF Hm) as [c [Hc ->]].
  pose proof (root_good C n HWF c Hc) as HG.
  pose proof (complete_range C n (wf_complete C n HWF)) as HV.
  apply (good_in_canon n c _ l HG HV).
  destruct (good_has_var n c _ l HG HV Hr) as [Hin|Hin]; [exact Hin|].
  exfalso. exact (Hneg c Hc Hin).
Qed.

Theorem core_sound (C : circuit) (n : nat) (l : Z) :
  WFQ C n -> In l (calculate_core C n) -> forall m, In m (Models C n) -> In l m.
Proof. intros HQ. apply core_sound_WF. apply HQ. Qed.

Lemma root_count_has_model (C : circuit) (n : nat) :
  WF C n -> 0 < root_count C -> exists c, In c (enum_root C) /\ In (canon_cfg n c) (Models C n).
Proof.
  intros HWF Hrc. rewrite <- enum_root_count in Hrc.
  destruct (enum_root C) as [|c R] eqn:E; [cbn [length] in Hrc; lia|].
  exists c. split; [now left|]. apply repr_model; [exact HWF|]. rewrite E. now left.
Qed.

(* completeness needs WF and a model: no hypothesis on dead nodes, reachability or unique leaves *)
Theorem core_complete_WF (C : circuit) (n : nat) (l : Z) :
  WF C n -> 0 < root_count C ->
  (forall m, In m (Models C n) -> In l m) -> In l (calculate_core C n).
Proof.
  intros HWF Hrc Hall.
  pose proof (wf_idx C n HWF) as Hok. pose proof (wf_nonempty C n HWF) as Hne.
  pose proof (complete_range C n (wf_complete C n HWF)) as HV.
  destruct (root_count_has_model C n HWF Hrc) as [c0 [Hc0 Hm0]].
  pose proof (Models_in_table C n _ Hm0) as Ht0.
  pose proof (table_In_range n _ l Ht0 (Hall _ Hm0)) as Hr.
  apply (core_live C n l Hok Hne); [lia|]. split; [lia|]. split.
  - (* l is live: the configuration c0 mentions |l|, and not as -l *)
    apply (live_lit_enum C Hok l Hne). exists c0. split; [exact Hc0|].
    pose proof (root_good C n HWF c0 Hc0) as HG.
    destruct (good_has_var n c0 _ l HG HV Hr) as [Hin|Hin]; [exact Hin|].
    exfalso. apply (table_no_conflict n _ l Ht0 (Hall _ Hm0)).
    exact (good_in_canon n c0 _ (- l) HG HV Hin).
  - (* -l is not live: otherwise some model contains -l *)
    intros HL. apply (live_lit_enum C Hok (- l) Hne) in HL. destruct HL as [c [Hc Hin]].
    pose proof (repr_model C n c HWF Hc) as Hm.
    apply (table_no_conflict n _ l (Models_in_table C n _ Hm) (Hall _ Hm)).
    exact (good_in_canon n c _ (- l) (root_good C n HWF c Hc) HV Hin).
Qed.

(* the cached core lists exactly the literals contained in every model *)
Theorem core_exact_WF (C : circuit) (n : nat) (l : Z) :
  WF C n -> 0 < root_count C ->
  (In l (calculate_core C n) <-> (forall m, In m (Models C n) -> In l m)).
Proof.
  intros HWF Hrc. split; [now apply core_sound_WF|now apply core_complete_WF].
Qed.

Theorem core_exact (C : circuit) (n : nat) (l : Z) :
  WFQ C n -> 0 < root_count C ->
  (In l (calculate_core C n) <-> (forall m, In m (Models C n) -> In l m)).
Proof. intros HQ. apply core_exact_WF. apply HQ. Qed.

(* representation: the sub-list of -n, ..., n (ascending, so duplicate-free) of the literals that
   every model contains *)
Definition in_all_models (C : circuit) (n : nat) (l : Z) : bool :=
  forallb (fun m => memZ l m) (Models C n).

Lemma in_all_models_spec (C : circuit) (n : nat) (l : Z) :
  in_all_models C n l = true <-> (forall m, In m (Models C n) -> In l m).
Proof.
  unfold in_all_models. rewrite forallb_forall. split; intros H m Hm.
  - apply memZ_In. now apply H.
  - apply memZ_In. now apply H.
Qed.

Lemma filter_ext_in' {A} (p q : A -> bool) (l : list A) :
  (forall x, In x l -> p x = q x) -> filter p l = filter q l.
Proof.
  induction l as [|a l IH]; intros H; [reflexivity|]. cbn [filter].
  rewrite (H a (or_introl eq_refl)), IH; [reflexivity|]. intros x Hx. apply H. now right.
Qed.

Theorem core_exact_list (C : circuit) (n : nat) :
  WF C n -> 0 < root_count C ->
  calculate_core C n = filter (in_all_models C n) (zseq (- Z.of_nat n) (2 * n + 1)).
Proof.
  intros HWF Hrc.
  assert (Hself : calculate_core C n =
                  filter (fun l => memZ l (calculate_core C n)) (zseq (- Z.of_nat n) (2 * n + 1))).
  { unfold calculate_core at 1. cbv zeta. apply filter_ext_in'. intros l Hl.
    apply eq_true_iff_eq. rewrite memZ_In. unfold calculate_core. cbv zeta. rewrite filter_In. tauto. }
  rewrite Hself. apply filter_ext_in'. intros l _. apply eq_true_iff_eq.
  rewrite memZ_In, in_all_models_spec. now apply core_exact_WF.
Qed.

(* without a model the cached core is the syntactic one (the behaviour of the code before F22) *)
Theorem core_unsat_is_v0 (C : circuit) (n : nat) :
  root_count C = 0 -> calculate_core C n = calculate_core_v0 C n.
Proof.
  intros Hz. unfold calculate_core, calculate_core_v0. cbv zeta. rewrite (live_literals_zero C Hz).
  apply filter_ext. intros f.
  assert (H : forall x, memZ x (lits_of C) = has_lit C x).
  { intros x. apply eq_true_iff_eq. now rewrite memZ_In, in_lits_of_iff, has_lit_In. }
  now rewrite !H.
Qed.

(* when no node is dead (and all are reachable) the repair changes nothing *)
Theorem core_no_dead_is_v0 (C : circuit) (n : nat) (l : Z) :
  WF C n -> all_reachable C = true -> no_dead C = true ->
  (In l (calculate_core C n) <-> In l (calculate_core_v0 C n)).
Proof.
  intros HWF Hreach Hnd.
  assert (Hrc : 0 < root_count C).
  { rewrite root_count_nth. apply no_dead_pos; [exact Hnd|apply root_lt; apply HWF]. }
  rewrite (core_exact_WF C n l HWF Hrc). split.
  - now apply core_complete_WF_v0.
  - now apply core_sound_WF_v0.
Qed.

(* the A = [] branch of the algorithm returns the cached core *)
Lemma core_dead_nil (C : circuit) (n : nat) (s : scratch) :
  core_dead_with_assumptions (build C n) [] s = (s, calculate_core C n).
Proof. reflexivity. Qed.

Theorem core_dead_nil_correct (C : circuit) (n : nat) (s : scratch) (l : Z) :
  WFQ C n -> 0 < root_count C ->
  (In l (snd (core_dead_with_assumptions (build C n) [] s)) <->
   (forall m, In m (Models C n) -> In l m)).
Proof. intros HQ Hrc. rewrite core_dead_nil. cbn [snd]. now apply core_exact. Qed.

(* ================= (B) refutation without no_dead (finding K7) ================= *)

Definition k7_circuit : circuit :=
  [Lit 1; FalseN; Lit 2; And [0; 1; 2]%nat; Lit (-1); And [4; 2]%nat; Or [3; 5]%nat].

Lemma k7_facts :
  check_wf k7_circuit 2 = true /\ no_dead k7_circuit = false /\
  Models k7_circuit 2 = [[-1; 2]] /\ calculate_core_v0 k7_circuit 2 = [2] /\
  calculate_core k7_circuit 2 = [-1; 2].
Proof. vm_compute. repeat split. Qed.

(* the code before F22 *)
Theorem core_refuted_without_no_dead :
  exists C n l, WFQ C n /\ (forall m, In m (Models C n) -> In l m) /\ ~ In l (calculate_core_v0 C n).
Proof.
  exists k7_circuit, 2%nat, (-1).
  destruct k7_facts as [Hwf [_ [HM [HC _]]]].
  split; [now apply check_wf_WFQ|]. split.
  - rewrite HM. intros m [<-|[]]. now left.
  - rewrite HC. intros [H|[]]. discriminate.
Qed.

(* ================= (C)/(D) with assumptions: truth-table level ================= *)

Lemma filter_filter {A} (p q : A -> bool) (l : list A) :
  filter q (filter p l) = filter (fun x => p x && q x) l.
Proof.
  induction l as [|x l IH]; [reflexivity|]. cbn [filter].
  destruct (p x); cbn [filter andb]; [destruct (q x)|]; now rewrite IH.
Qed.

Lemma filter_length_split {A} (p : A -> bool) (l : list A) :
  (length (filter p l) + length (filter (fun x => negb (p x)) l) = length l)%nat.
Proof.
  induction l as [|x l IH]; [reflexivity|]. cbn [filter].
  destruct (p x); cbn [negb length]; lia.
Qed.

Lemma filter_length_all {A} (p : A -> bool) (l : list A) :
  length (filter p l) = length l <-> forallb p l = true.
Proof.
  induction l as [|x l IH]; [cbn; tauto|]. cbn [filter forallb].
  destruct (p x); cbn [length andb].
  - rewrite <- IH. lia.
  - pose proof (filter_length_le' p l). split; [lia|discriminate].
Qed.

Lemma filter_length_zero {A} (p : A -> bool) (l : list A) :
  length (filter p l) = 0%nat <-> forallb (fun x => negb (p x)) l = true.
Proof.
  induction l as [|x l IH]; [cbn; tauto|]. cbn [filter forallb].
  destruct (p x); cbn [length negb andb]; [split; [lia|discriminate]|exact IH].
Qed.

Lemma contains_all_snoc (A : cfg) (x : Z) (m : cfg) :
  contains_all (A ++ [x]) m = contains_all A m && memZ x m.
Proof. unfold contains_all. rewrite forallb_app. cbn [forallb]. now rewrite andb_true_r. Qed.

Lemma contains_all_spec (A m : cfg) : contains_all A m = true <-> (forall a, In a A -> In a m).
Proof.
  unfold contains_all. rewrite forallb_forall. split; intros H a Ha.
  - apply memZ_In. now apply H.
  - apply memZ_In. now apply H.
Qed.

Lemma ModelsA_In (C : circuit) (n : nat) (A m : cfg) :
  In m (ModelsA C n A) <-> In m (Models C n) /\ (forall a, In a A -> In a m).
Proof. unfold ModelsA. now rewrite filter_In, contains_all_spec. Qed.

Lemma ModelsA_snoc (C : circuit) (n : nat) (A : cfg) (x : Z) :
  ModelsA C n (A ++ [x]) = filter (memZ x) (ModelsA C n A).
Proof.
  unfold ModelsA. rewrite filter_filter. apply filter_ext. intros m. apply contains_all_snoc.
Qed.

(* "l is fixed": every model that contains A contains l (decided over the finite table) *)
Definition fixedb (C : circuit) (n : nat) (A : cfg) (l : Z) : bool :=
  forallb (memZ l) (ModelsA C n A).

Lemma fixedb_spec (C : circuit) (n : nat) (A : cfg) (l : Z) :
  fixedb C n A l = true <-> (forall m, In m (ModelsA C n A) -> In l m).
Proof.
  unfold fixedb. rewrite forallb_forall. split; intros H m Hm.
  - apply memZ_In. now apply H.
  - apply memZ_In. now apply H.
Qed.

Lemma fixedb_unsat (C : circuit) (n : nat) (A : cfg) (l : Z) :
  MCA C n A = 0 -> fixedb C n A l = true.
Proof.
  unfold MCA, fixedb. intros H. destruct (ModelsA C n A); [reflexivity|cbn in H; lia].
Qed.

(* (D) per-candidate criterion, boolean and propositional form; no hypothesis on C, A or x *)
Lemma MCA_snoc_eq_fixedb (C : circuit) (n : nat) (A : cfg) (x : Z) :
  MCA C n (A ++ [x]) = MCA C n A <-> fixedb C n A x = true.
Proof.
  unfold MCA, fixedb. rewrite ModelsA_snoc, <- filter_length_all. lia.
Qed.

Theorem candidate_criterion (C : circuit) (n : nat) (A : cfg) (x : Z) :
  MCA C n (A ++ [x]) = MCA C n A <-> (forall m, In m (ModelsA C n A) -> In x m).
Proof. now rewrite MCA_snoc_eq_fixedb, fixedb_spec. Qed.

Lemma ModelsA_in_table (C : circuit) (n : nat) (A m : cfg) :
  In m (ModelsA C n A) -> In m (all_cfgs n).
Proof. intros H. apply ModelsA_In in H. apply (Models_in_table C n m), H. Qed.

Lemma MCA_snoc_zero_fixedb (C : circuit) (n : nat) (A : cfg) (v : Z) :
  1 <= v <= Z.of_nat n ->
  (MCA C n (A ++ [v]) = 0 <-> fixedb C n A (- v) = true).
Proof.
  intros Hv. unfold MCA, fixedb. rewrite ModelsA_snoc.
  rewrite <- Nat2Z.inj_0, Nat2Z.inj_iff, filter_length_zero, !forallb_forall.
  split; intros H m Hm.
  - rewrite (table_memZ_opp n m v (ModelsA_in_table C n A m Hm) Hv). now apply H.
  - rewrite <- (table_memZ_opp n m v (ModelsA_in_table C n A m Hm) Hv). now apply H.
Qed.

Theorem candidate_dead_criterion (C : circuit) (n : nat) (A : cfg) (v : Z) :
  1 <= v <= Z.of_nat n ->
  (MCA C n (A ++ [v]) = 0 <-> (forall m, In m (ModelsA C n A) -> In (- v) m)).
Proof. intros Hv. now rewrite (MCA_snoc_zero_fixedb C n A v Hv), fixedb_spec. Qed.

(* every model contains exactly one of v, -v *)
Theorem MCA_split (C : circuit) (n : nat) (A : cfg) (v : Z) :
  1 <= v <= Z.of_nat n ->
  MCA C n (A ++ [v]) + MCA C n (A ++ [- v]) = MCA C n A.
Proof.
  intros Hv. unfold MCA. rewrite !ModelsA_snoc.
  rewrite <- (filter_length_split (memZ v) (ModelsA C n A)), Nat2Z.inj_add.
  f_equal. f_equal. f_equal. apply filter_ext_in. intros m Hm.
  exact (table_memZ_opp n m v (ModelsA_in_table C n A m Hm) Hv).
Qed.

(* ---------- the loop of core_dead_with_assumptions over an abstract counting function ---------- *)

Definition core_dead_step (cnt : cfg -> Z) (A : cfg) (reference : Z) (out : cfg) (i : Z) : cfg :=
  let inter := cnt (A ++ [i]) in
  let out1 := if reference =? inter then out ++ [i] else out in
  if inter =? 0 then out1 ++ [- i] else out1.

Definition core_dead_spec (cnt : cfg -> Z) (n : nat) (A : cfg) : cfg :=
  fold_left (core_dead_step cnt A (cnt A)) (zseq 1 n) [].

(* the semantic answer, in the order the loop reports it *)
Definition core_dead_sem (C : circuit) (n : nat) (A : cfg) : cfg :=
  flat_map (fun i => (if fixedb C n A i then [i] else []) ++
                     (if fixedb C n A (- i) then [- i] else []))
           (zseq 1 n).

Lemma core_dead_fold_flat_map (cnt : cfg -> Z) (A : cfg) (r : Z) (L : list Z) (out : cfg) :
  fold_left (core_dead_step cnt A r) L out =
  out ++ flat_map (fun i => (if r =? cnt (A ++ [i]) then [i] else []) ++
                            (if cnt (A ++ [i]) =? 0 then [- i] else [])) L.
Proof.
  revert out. induction L as [|i L IH]; intros out; [cbn; now rewrite app_nil_r|].
  cbn [fold_left flat_map]. rewrite IH. unfold core_dead_step.
  destruct (r =? cnt (A ++ [i])), (cnt (A ++ [i]) =? 0); cbn [app];
    rewrite <- ?app_assoc; reflexivity.
Qed.

Lemma flat_map_ext_in' {A B} (f g : A -> list B) (l : list A) :
  (forall x, In x l -> f x = g x) -> flat_map f l = flat_map g l.
Proof.
  induction l as [|x l IH]; intros H; [reflexivity|]. cbn [flat_map].
  rewrite (H x (or_introl eq_refl)), IH; [reflexivity|]. intros y Hy. apply H. now right.
Qed.

(* (C) no hypothesis on C or A is needed at truth-table level (in particular A may be empty,
   out of range, contradictory or unsatisfiable: then both polarities of every feature) *)
Theorem core_dead_spec_correct_gen (C : circuit) (n : nat) (A : cfg) :
  core_dead_spec (MCA C n) n A = core_dead_sem C n A.
Proof.
  unfold core_dead_spec, core_dead_sem. rewrite core_dead_fold_flat_map. cbn [app].
  apply flat_map_ext_in'. intros i Hi. apply zseq_In in Hi.
  assert (Hv : 1 <= i <= Z.of_nat n) by lia.
  assert (E1 : (MCA C n A =? MCA C n (A ++ [i])) = fixedb C n A i).
  { apply eq_true_iff_eq. rewrite Z.eqb_eq, <- MCA_snoc_eq_fixedb. split; congruence. }
  assert (E2 : (MCA C n (A ++ [i]) =? 0) = fixedb C n A (- i)).
  { apply eq_true_iff_eq. rewrite Z.eqb_eq. exact (MCA_snoc_zero_fixedb C n A i Hv). }
  now rewrite E1, E2.
Qed.

Theorem core_dead_spec_correct (C : circuit) (n : nat) (A : cfg) :
  WF C n -> in_range n A -> A <> [] ->
  core_dead_spec (MCA C n) n A =
  flat_map (fun i => (if fixedb C n A i then [i] else []) ++
                     (if fixedb C n A (- i) then [- i] else []))
           (zseq 1 n).
Proof. intros _ _ _. apply core_dead_spec_correct_gen. Qed.

(* membership form *)
Lemma core_dead_sem_In (C : circuit) (n : nat) (A : cfg) (l : Z) :
  In l (core_dead_sem C n A) <->
  1 <= Z.abs l <= Z.of_nat n /\ (forall m, In m (ModelsA C n A) -> In l m).
Proof.
  unfold core_dead_sem. rewrite in_flat_map. rewrite <- fixedb_spec. split.
  - intros [i [Hi Hl]]. apply zseq_In in Hi. apply in_app_iff in Hl.
    destruct Hl as [Hl|Hl].
    + destruct (fixedb C n A i) eqn:E; [|destruct Hl]. destruct Hl as [<-|[]]. split; [lia|exact E].
    + destruct (fixedb C n A (- i)) eqn:E; [|destruct Hl]. destruct Hl as [<-|[]]. split; [lia|exact E].
  - intros [Hr Hf]. exists (Z.abs l). split; [apply zseq_In; lia|].
    apply in_app_iff. destruct (Z.abs_spec l) as [[Hs ->]|[Hs ->]].
    + left. rewrite Hf. now left.
    + right. rewrite Z.opp_involutive, Hf. now left.
Qed.

Corollary core_dead_spec_In (C : circuit) (n : nat) (A : cfg) (l : Z) :
  In l (core_dead_spec (MCA C n) n A) <->
  1 <= Z.abs l <= Z.of_nat n /\ (forall m, In m (ModelsA C n A) -> In l m).
Proof. rewrite core_dead_spec_correct_gen. apply core_dead_sem_In. Qed.

Corollary core_dead_spec_unsat (C : circuit) (n : nat) (A : cfg) :
  MCA C n A = 0 ->
  core_dead_spec (MCA C n) n A = flat_map (fun i => [i; - i]) (zseq 1 n).
Proof.
  intros H. rewrite core_dead_spec_correct_gen. unfold core_dead_sem.
  apply flat_map_ext. intros i. now rewrite !(fixedb_unsat C n A _ H).
Qed.

(* ================= glue: the algorithm over execute_query ================= *)

Definition cd_loop_step (d : ddnnf) (A : cfg) (reference : Z) (acc : scratch * cfg) (i : Z)
  : scratch * cfg :=
  let '(s', out) := acc in
  let '(s'', inter) := execute_query d (A ++ [i]) s' in
  let out1 := if reference =? inter then out ++ [i] else out in
  let out2 := if inter =? 0 then out1 ++ [- i] else out1 in
  (s'', out2).

Lemma core_dead_unfold (d : ddnnf) (A : cfg) (s : scratch) :
  A <> [] ->
  core_dead_with_assumptions d A s =
  let '(s0, reference) := execute_query d A s in
  fold_left (cd_loop_step d A reference) (zseq 1 (nv d)) (s0, []).
Proof. destruct A as [|a A]; [congruence|reflexivity]. Qed.

Lemma in_range_snoc (n : nat) (A : cfg) (i : Z) :
  in_range n A -> 1 <= i <= Z.of_nat n -> in_range n (A ++ [i]).
Proof.
  intros HA Hi l Hl. apply in_app_iff in Hl. destruct Hl as [Hl|[<-|[]]]; [now apply HA|lia].
Qed.

Section Glue.
Variables (C : circuit) (n : nat).
(* to be discharged by the (separately developed) correctness theorem of execute_query *)
Hypothesis H_exec : forall A s, in_range n A -> Clean C s ->
  exists s', execute_query (build C n) A s = (s', MCA C n A) /\ Clean C s'.

Lemma cd_loop_glue (A : cfg) (r : Z) (L : list Z) :
  in_range n A -> (forall i, In i L -> 1 <= i <= Z.of_nat n) ->
  forall s out, Clean C s ->
  exists s', fold_left (cd_loop_step (build C n) A r) L (s, out) =
             (s', fold_left (core_dead_step (MCA C n) A r) L out) /\ Clean C s'.
Proof.
  intros HA. induction L as [|i L IH]; intros HL s out Hcl.
  - exists s. split; [reflexivity|exact Hcl].
  - cbn [fold_left].
    destruct (H_exec (A ++ [i]) s (in_range_snoc n A i HA (HL i (or_introl eq_refl))) Hcl)
      as [s1 [He Hcl1]].
    destruct (IH (fun j Hj => HL j (or_intror Hj)) s1 (core_dead_step (MCA C n) A r out i) Hcl1)
      as [s2 [Hf Hcl2]].
    exists s2. split; [|exact Hcl2]. rewrite <- Hf. f_equal.
    unfold cd_loop_step. rewrite He. reflexivity.
Qed.

Theorem core_dead_glue (A : cfg) (s : scratch) :
  A <> [] -> in_range n A -> Clean C s ->
  exists s', core_dead_with_assumptions (build C n) A s = (s', core_dead_spec (MCA C n) n A)
             /\ Clean C s'.
Proof.
  intros Hne HA Hcl. rewrite (core_dead_unfold _ A s Hne).
  destruct (H_exec A s HA Hcl) as [s0 [He Hcl0]]. rewrite He.
  change (nv (build C n)) with n.
  apply (cd_loop_glue A (MCA C n A) (zseq 1 n) HA); [|exact Hcl0].
  intros i Hi. apply zseq_In in Hi. lia.
Qed.

Corollary core_dead_with_assumptions_correct (A : cfg) (s : scratch) :
  A <> [] -> in_range n A -> Clean C s ->
  exists s', core_dead_with_assumptions (build C n) A s = (s', core_dead_sem C n A)
             /\ Clean C s'.
Proof.
  intros Hne HA Hcl. destruct (core_dead_glue A s Hne HA Hcl) as [s' [He Hcl']].
  exists s'. split; [|exact Hcl']. now rewrite He, core_dead_spec_correct_gen.
Qed.

End Glue.
