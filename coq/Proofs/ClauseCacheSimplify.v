(* simplify_clauses (from_cnf.rs) - what Ddnnf::new stores for a CNF input - keeps the models of a
   SATISFIABLE clause list (unit propagation; the units are re-added), and can turn an
   unsatisfiable list into a satisfiable one (a clause emptied by propagation is dropped). *)
From Coq Require Import List ZArith Bool Lia Sorted.
From DD Require Import Model.Circuit Spec.CnfMachine Model.ClauseCache Proofs.ClauseCacheSets.
Import ListNotations.
Open Scope Z_scope.

Definition nzc (c : list Z) : Prop := forall l, In l c -> l <> 0.
Definition nzs (cs : list (list Z)) : Prop := forall c, In c cs -> nzc c.

Lemma lit_true_neg s l : l <> 0 -> lit_true s (- l) = negb (lit_true s l).
Proof.
  intros H. unfold lit_true. destruct (0 <? l) eqn:E1; destruct (0 <? - l) eqn:E2;
    try (apply Z.ltb_lt in E1); try (apply Z.ltb_lt in E2);
    try (apply Z.ltb_ge in E1); try (apply Z.ltb_ge in E2); try lia.
  - rewrite Z.opp_involutive. reflexivity.
  - rewrite negb_involutive. reflexivity.
Qed.

Lemma memZ_In x l : memZ x l = true <-> In x l.
Proof.
  unfold memZ. rewrite existsb_exists. split.
  - intros [y [Hy He]]. apply Z.eqb_eq in He. subst y. exact Hy.
  - intros H. exists x. split; [exact H|apply Z.eqb_refl].
Qed.

(* ---------- mk_clause keeps the literals ---------- *)
Lemma zinsert_In x l y : In y (zinsert x l) <-> y = x \/ In y l.
Proof.
  induction l as [|z l IH]; cbn [zinsert].
  - cbn [In]. split; intros [H|[]]; left; congruence.
  - destruct (x <? z); [cbn [In]; intuition congruence|].
    destruct (x =? z) eqn:E.
    + apply Z.eqb_eq in E. subst z. cbn [In]. intuition congruence.
    + cbn [In]. rewrite IH. intuition congruence.
Qed.

Lemma mk_clause_In c y : In y (mk_clause c) <-> In y c.
Proof.
  unfold mk_clause.
  assert (forall l acc, In y (fold_left (fun a x => zinsert x a) l acc) <-> In y acc \/ In y l) as G.
  { induction l as [|x l IH]; intros acc; cbn [fold_left In]; [tauto|].
    rewrite IH, zinsert_In. intuition congruence. }
  rewrite G. cbn [In]. tauto.
Qed.

Lemma clause_holds_ext s a b : (forall y, In y a <-> In y b) -> clause_holds s a = clause_holds s b.
Proof.
  intros H. unfold clause_holds.
  destruct (existsb (lit_true s) a) eqn:Ea; symmetry.
  - apply existsb_exists in Ea. destruct Ea as [x [Hx Hp]]. apply existsb_exists. exists x.
    split; [apply H; exact Hx|exact Hp].
  - destruct (existsb (lit_true s) b) eqn:Eb; [|reflexivity].
    apply existsb_exists in Eb. destruct Eb as [x [Hx Hp]].
    assert (existsb (lit_true s) a = true) as H' by (apply existsb_exists; exists x; split; [apply H; exact Hx|exact Hp]).
    congruence.
Qed.

Lemma tautology_holds s c : nzc c -> tautology c = true -> clause_holds s c = true.
Proof.
  intros Hnz H. unfold tautology in H. apply existsb_exists in H. destruct H as [l [Hl Hm]].
  apply memZ_In in Hm. unfold clause_holds. apply existsb_exists.
  destruct (lit_true s l) eqn:E; [exists l; split; assumption|].
  exists (- l). split; [exact Hm|]. rewrite lit_true_neg; [rewrite E; reflexivity|apply Hnz; exact Hl].
Qed.

(* step 1 + 2 of simplify_clauses: literal sets without the tautologies *)
Lemma prepare_sem s raw : nzs raw ->
  cs_sat s (filter (fun c => negb (tautology c)) (map mk_clause raw)) = cs_sat s raw.
Proof.
  induction raw as [|c raw IH]; intros Hnz; [reflexivity|].
  assert (nzs raw) as Hnz' by (intros x Hx; apply Hnz; right; exact Hx).
  assert (nzc (mk_clause c)) as Hc.
  { intros l Hl. apply (proj1 (mk_clause_In _ _)) in Hl. apply (Hnz c); [left; reflexivity|exact Hl]. }
  cbn [map filter cs_sat forallb]. fold (cs_sat s raw).
  rewrite <- (clause_holds_ext s (mk_clause c) c (mk_clause_In c)).
  destruct (tautology (mk_clause c)) eqn:Et; cbn [negb].
  - rewrite (tautology_holds s _ Hc Et). cbn [andb]. apply IH. exact Hnz'.
  - cbn [cs_sat forallb]. f_equal. apply IH. exact Hnz'.
Qed.

Lemma prepare_nz raw : nzs raw -> nzs (filter (fun c => negb (tautology c)) (map mk_clause raw)).
Proof.
  intros Hnz c Hc. apply filter_In in Hc. destruct Hc as [Hc _]. apply in_map_iff in Hc.
  destruct Hc as [r [<- Hr]]. intros l Hl. apply (proj1 (mk_clause_In _ _)) in Hl. exact (Hnz r Hr l Hl).
Qed.

(* ---------- one round of apply_decisions ---------- *)
Definition lits_true (s : asg) (ls : list Z) : bool := forallb (lit_true s) ls.
Definition sat_by (dec : list Z) (c : clause) : bool := existsb (fun v => memZ v dec) c.
Definition shrink (dec : list Z) (c : clause) : clause := filter (fun v => negb (memZ (- v) dec)) c.

Lemma sat_by_holds s dec c : lits_true s dec = true -> sat_by dec c = true -> clause_holds s c = true.
Proof.
  intros Hd H. apply existsb_exists in H. destruct H as [v [Hv Hm]]. apply memZ_In in Hm.
  apply existsb_exists. exists v. split; [exact Hv|].
  unfold lits_true in Hd. rewrite forallb_forall in Hd. apply Hd. exact Hm.
Qed.

Lemma shrink_holds s dec c : nzc c -> lits_true s dec = true ->
  clause_holds s (shrink dec c) = clause_holds s c.
Proof.
  intros Hnz Hd. unfold lits_true in Hd. rewrite forallb_forall in Hd.
  unfold clause_holds, shrink.
  destruct (existsb (lit_true s) c) eqn:Ec.
  - apply existsb_exists in Ec. destruct Ec as [v [Hv Ht]]. apply existsb_exists. exists v.
    split; [|exact Ht]. apply filter_In. split; [exact Hv|].
    destruct (memZ (- v) dec) eqn:Em; [|reflexivity].
    apply memZ_In in Em. apply Hd in Em. rewrite lit_true_neg in Em by (apply Hnz; exact Hv).
    rewrite Ht in Em. discriminate.
  - destruct (existsb (lit_true s) (filter (fun v => negb (memZ (- v) dec)) c)) eqn:Ef; [|reflexivity].
    apply existsb_exists in Ef. destruct Ef as [v [Hv Ht]]. apply filter_In in Hv.
    assert (existsb (lit_true s) c = true) as H by (apply existsb_exists; exists v; split; [apply Hv|exact Ht]).
    congruence.
Qed.

(* under an assignment that satisfies the decisions and the relevant clauses no clause is emptied *)
Lemma no_empty s dec rel : nzs rel -> lits_true s dec = true -> cs_sat s rel = true ->
  forall c, In c rel -> shrink dec c <> [].
Proof.
  intros Hnz Hd Hs c Hc He. unfold cs_sat in Hs. rewrite forallb_forall in Hs.
  specialize (Hs c Hc). rewrite <- (shrink_holds s dec c (Hnz c Hc) Hd), He in Hs. discriminate.
Qed.

Lemma reduce_round_sem s dec rel : nzs rel -> lits_true s dec = true ->
  (forall c, In c rel -> sat_by dec c = false -> shrink dec c <> []) ->
  cs_sat s (fst (reduce_round rel dec)) && lits_true s (snd (reduce_round rel dec)) = cs_sat s rel.
Proof.
  intros Hnz Hd. induction rel as [|c rel IH]; intros Hne; [reflexivity|].
  assert (nzs rel) as Hnz' by (intros x Hx; apply Hnz; right; exact Hx).
  specialize (IH Hnz' (fun x Hx => Hne x (or_intror Hx))).
  cbn [reduce_round]. destruct (reduce_round rel dec) as [red newd]. cbn [fst snd] in *.
  fold (sat_by dec c). fold (shrink dec c).
  cbn [cs_sat forallb]. fold (cs_sat s rel).
  destruct (sat_by dec c) eqn:Es.
  - cbn [fst snd]. rewrite (sat_by_holds s dec c Hd Es). cbn [andb]. exact IH.
  - pose proof (shrink_holds s dec c (Hnz c (or_introl eq_refl)) Hd) as Hsh.
    pose proof (Hne c (or_introl eq_refl) Es) as Hc'.
    destruct (shrink dec c) as [|u [|u2 r]] eqn:Esh; [exfalso; apply Hc'; reflexivity| |].
    + cbn [fst snd cs_sat forallb lits_true]. fold (cs_sat s red). fold (lits_true s newd).
      rewrite <- Hsh, <- IH. unfold clause_holds. cbn [existsb]. rewrite orb_false_r.
      destruct (lit_true s u); cbn [andb]; reflexivity.
    + cbn [fst snd cs_sat forallb]. fold (cs_sat s red).
      rewrite <- Hsh, <- IH. rewrite andb_assoc. reflexivity.
Qed.

Lemma reduce_round_nz dec rel : nzs rel ->
  nzs (fst (reduce_round rel dec)) /\ nzc (snd (reduce_round rel dec)).
Proof.
  intros Hnz. induction rel as [|c rel IH]; [split; intros x []|].
  assert (nzs rel) as Hnz' by (intros x Hx; apply Hnz; right; exact Hx).
  specialize (IH Hnz'). cbn [reduce_round]. destruct (reduce_round rel dec) as [red newd].
  cbn [fst snd] in *. destruct IH as [I1 I2].
  fold (shrink dec c).
  assert (nzc (shrink dec c)) as Hsc.
  { intros l Hl. apply filter_In in Hl. apply (Hnz c (or_introl eq_refl)). apply Hl. }
  destruct (existsb (fun v => memZ v dec) c); [split; assumption|].
  destruct (shrink dec c) as [|u [|u2 r]] eqn:Esh; cbn [fst snd].
  - split; assumption.
  - split.
    + intros x [<-|Hx]; [exact Hsc|exact (I1 x Hx)].
    + intros l [<-|Hl]; [apply Hsc; left; reflexivity|exact (I2 l Hl)].
  - split; [|exact I2]. intros x [<-|Hx]; [exact Hsc|exact (I1 x Hx)].
Qed.

(* ---------- the loop ---------- *)
Definition st_sat (s : asg) (rel : list clause) (acc dec : list Z) : bool :=
  cs_sat s rel && lits_true s acc && lits_true s dec.
Definition out_sat (s : asg) (r : list clause * list Z) : bool :=
  cs_sat s (fst r) && lits_true s (snd r).

Lemma lits_true_app s a b : lits_true s (a ++ b) = lits_true s a && lits_true s b.
Proof. unfold lits_true. apply forallb_app. Qed.

Lemma apply_decisions_sem fuel : forall rel acc dec s0,
  nzs rel -> nzc dec -> st_sat s0 rel acc dec = true ->
  forall s, out_sat s (apply_decisions fuel rel acc dec) = st_sat s rel acc dec.
Proof.
  induction fuel as [|k IH]; intros rel acc dec s0 Hnz Hnd H0 s.
  - destruct dec; cbn [apply_decisions]; unfold out_sat, st_sat; cbn [fst snd].
    + cbn [lits_true forallb]. rewrite andb_true_r. reflexivity.
    + rewrite lits_true_app, andb_assoc. reflexivity.
  - destruct dec as [|d0 dec'].
    + cbn [apply_decisions]. unfold out_sat, st_sat. cbn [fst snd lits_true forallb].
      rewrite andb_true_r. reflexivity.
    + set (dec := d0 :: dec') in *. cbn [apply_decisions]. fold dec.
      unfold st_sat in H0. apply andb_true_iff in H0. destruct H0 as [H0 H0d].
      apply andb_true_iff in H0. destruct H0 as [H0r H0a].
      assert (forall c, In c rel -> sat_by dec c = false -> shrink dec c <> []) as Hne.
      { intros c Hc _. exact (no_empty s0 dec rel Hnz H0d H0r c Hc). }
      destruct (reduce_round_nz dec rel Hnz) as [N1 N2].
      pose proof (reduce_round_sem s0 dec rel Hnz H0d Hne) as R0.
      destruct (reduce_round rel dec) as [red newd] eqn:Er. cbn [fst snd] in *.
      rewrite H0r in R0. apply andb_true_iff in R0. destruct R0 as [R0a R0b].
      rewrite (IH red (acc ++ dec) newd s0 N1 N2).
      * unfold st_sat. rewrite lits_true_app.
        destruct (lits_true s dec) eqn:Ed.
        -- pose proof (reduce_round_sem s dec rel Hnz Ed Hne) as Rs. rewrite Er in Rs. cbn [fst snd] in Rs.
           rewrite <- Rs. destruct (cs_sat s red), (lits_true s acc), (lits_true s newd); reflexivity.
        -- destruct (cs_sat s red), (lits_true s acc), (lits_true s newd), (cs_sat s rel); reflexivity.
      * unfold st_sat. rewrite lits_true_app, R0a, H0a, H0d, R0b. reflexivity.
Qed.

Lemma units_of_In cs u : In u (units_of cs) <-> In [u] cs.
Proof.
  unfold units_of. rewrite in_flat_map. split.
  - intros [c [Hc Hu]]. destruct c as [|x [|y r]]; cbn [In] in Hu; try tauto.
    destruct Hu as [<-|[]]. exact Hc.
  - intros H. exists [u]. split; [exact H|left; reflexivity].
Qed.

Lemma units_true s cs : cs_sat s cs = true -> lits_true s (units_of cs) = true.
Proof.
  intros H. unfold cs_sat in H. rewrite forallb_forall in H.
  apply forallb_forall. intros u Hu. apply units_of_In in Hu. specialize (H _ Hu).
  unfold clause_holds in H. cbn [existsb] in H. rewrite orb_false_r in H. exact H.
Qed.

Lemma cs_sat_app s a b : cs_sat s (a ++ b) = cs_sat s a && cs_sat s b.
Proof. unfold cs_sat. apply forallb_app. Qed.

Lemma cs_sat_units s l : cs_sat s (map (fun d => [d]) l) = lits_true s l.
Proof.
  induction l as [|d l IH]; [reflexivity|].
  cbn [map cs_sat forallb lits_true]. fold (cs_sat s (map (fun d => [d]) l)). fold (lits_true s l).
  rewrite IH. unfold clause_holds. cbn [existsb]. rewrite orb_false_r. reflexivity.
Qed.

(* MAIN: on a satisfiable clause list (no literal 0) simplify_clauses keeps every model and
   adds none *)
Theorem simplify_equiv raw s0 : nzs raw -> cs_sat s0 raw = true ->
  forall s, cs_sat s (simplify_clauses raw) = cs_sat s raw.
Proof.
  intros Hnz H0 s. unfold simplify_clauses.
  set (cs := filter (fun c => negb (tautology c)) (map mk_clause raw)).
  pose proof (prepare_nz raw Hnz) as Ncs. fold cs in Ncs.
  assert (cs_sat s0 cs = true) as H0c by (unfold cs; rewrite prepare_sem; assumption).
  assert (nzc (units_of cs)) as Nu.
  { intros u Hu. apply units_of_In in Hu. apply (Ncs _ Hu). left. reflexivity. }
  pose proof (apply_decisions_sem (S (List.length cs)) cs [] (units_of cs) s0 Ncs Nu) as HA.
  assert (st_sat s0 cs [] (units_of cs) = true) as Hst.
  { unfold st_sat. rewrite H0c, (units_true s0 cs H0c). reflexivity. }
  specialize (HA Hst s).
  destruct (apply_decisions (S (List.length cs)) cs [] (units_of cs)) as [rel acc].
  unfold out_sat in HA. cbn [fst snd] in HA.
  rewrite cs_sat_app, cs_sat_units, HA. unfold st_sat. cbn [lits_true forallb]. rewrite andb_true_r.
  rewrite <- (prepare_sem s raw Hnz). fold cs.
  destruct (cs_sat s cs) eqn:E; [|reflexivity]. rewrite (units_true s cs E). reflexivity.
Qed.

(* every model of the input is a model of the simplified list, satisfiable or not *)
Corollary simplify_keeps_models raw s : nzs raw -> cs_sat s raw = true ->
  cs_sat s (simplify_clauses raw) = true.
Proof. intros Hnz H. rewrite (simplify_equiv raw s Hnz H s). exact H. Qed.

(* ... but an unsatisfiable input can become satisfiable: the clause -1 2 is emptied by the
   decisions 1 and -2 and dropped *)
Lemma simplify_unsat_refuted :
  exists raw n, cnf_satisfiable raw n = false /\ cnf_satisfiable (simplify_clauses raw) n = true.
Proof. exists [[1]; [-1; 2]; [-2]], 2%nat. split; vm_compute; reflexivity. Qed.

(* the stored set is the simplified list up to order and repetition *)
Lemma stored_set_equiv raw s : cs_sat s (stored_set raw) = cs_sat s (simplify_clauses raw).
Proof.
  unfold stored_set.
  destruct (cs_of_list_spec (map mk_clause (simplify_clauses raw))) as [_ H].
  rewrite (cs_sat_set s _ _ H). clear H.
  induction (simplify_clauses raw) as [|c l IH]; [reflexivity|].
  cbn [map cs_sat forallb]. fold (cs_sat s l). fold (cs_sat s (map mk_clause l)).
  rewrite IH. f_equal. apply clause_holds_ext. apply mk_clause_In.
Qed.
