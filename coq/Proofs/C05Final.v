(* Discharging the execute_query hypothesis of the C05 glue lemmas with the C02 theorem. *)
From Coq Require Import List ZArith Bool Lia.
From DD Require Import Model.Circuit Model.Query Proofs.Semantics Proofs.CountsA Proofs.QueryDefs
  Proofs.C02Proof Proofs.C05Proof.
Import ListNotations.

Lemma exec_hyp (C : circuit) (n : nat) : WFQ C n ->
  forall A s, in_range n A -> Clean C s ->
  exists s', execute_query (build C n) A s = (s', MCA C n A) /\ Clean C s'.
Proof.
  intros HW A s HA Hcl. pose proof (execute_query_correct C n A s HW HA Hcl) as H.
  destruct (execute_query (build C n) A s) as [s' r]. destruct H as [-> Hcl'].
  exists s'. split; [reflexivity|exact Hcl'].
Qed.

Theorem core_dead_with_assumptions_final (C : circuit) (n : nat) (A : cfg) (s : scratch) :
  WFQ C n -> A <> [] -> in_range n A -> Clean C s ->
  exists s', core_dead_with_assumptions (build C n) A s = (s', core_dead_sem C n A) /\ Clean C s'.
Proof.
  intros HW. apply (core_dead_with_assumptions_correct C n (exec_hyp C n HW)).
Qed.
