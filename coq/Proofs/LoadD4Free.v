(* Free features: the fresh And root above node 0 with one or-triangle per feature that no edge
   mentions.  The new root has the value of node 0 under every total assignment; every old node
   keeps label, child list and value. *)
From Coq Require Import List ZArith Bool Lia Arith.
From DD Require Import Model.Circuit Model.LoadC2d Model.LoadD4 Proofs.LoadD4Graph Proofs.LoadD4Ops
  Proofs.LoadD4Pass2 Proofs.LoadD4Struct Proofs.LoadD4Pass3.
Import ListNotations.
Local Open Scope nat_scope.

Section Free.
Variable rc : bool.
Context {P : Z -> Prop} {st : bool}.

Definition tris_in (g : sgraph) (tris : list nat) : Prop :=
  Forall (fun o => exists f, tri_node g f o) tris.

Lemma tris_in_ext g g' root tris : ext g g' [root] -> sg_label g root = Some GAnd ->
  tris_in g tris -> tris_in g' tris.
Proof.
  intros He Hr H. eapply Forall_impl; [|exact H]. intros o [f Hf]. exists f.
  apply (tri_node_ext _ _ [root] f o He); [|exact Hf]. intros [<-|[]]. destruct Hf as [_ [Hl _]]. congruence.
Qed.

Lemma add_free_tail occ root : root <> 0 -> forall fs s root' s',
  tables_ok P st s -> Forall (fun f => 1 <= f /\ @PF P f) fs -> sg_label (ls_g s) root = Some GAnd ->
  add_free rc occ fs root s = Some (root', s') ->
  root' = root /\ tables_ok P st s' /\ ext (ls_g s) (ls_g s') [root] /\
  (exists tris, sg_out (ls_g s') root = tris ++ sg_out (ls_g s) root /\ tris_in (ls_g s') tris /\
     Forall2 (fun f o => lookup_nat (ls_tri s') f = Some o) (rev (filter (fun i => negb (mem i occ)) fs)) tris) /\
  lprov s s' [] /\ tri_grow s s'.
Proof.
  intros Hr0. induction fs as [|i r IH]; intros s root' s' Hok Hfs Hlr H; cbn [add_free] in H.
  - injection H as <- <-. split; [reflexivity|]. split; [exact Hok|]. split; [apply ext_refl|].
    split; [exists []; split; [reflexivity|split; constructor]|split; [apply lprov_refl|apply tri_grow_refl]].
  - inversion Hfs as [|? ? [Hi Hpi] Hr]; subst.
    cbn [filter]. destruct (mem i occ); [now apply IH|]. cbn [negb].
    apply Nat.eqb_neq in Hr0 as E0. rewrite E0 in H.
    destruct (add_literal_node rc i root s) as [s2|] eqn:E2; [|discriminate].
    destruct (add_literal_node_spec rc i root s s2 Hok Hi Hpi Hlr E2) as [Hok2 [He2 [_ [o [Ho [Hto [_ Hlk]]]]]]].
    destruct (IH s2 root' s' Hok2 Hr (ext_label_some _ _ _ _ _ He2 Hlr) H) as [-> [Hok' [He' [[tris [Ht1 [Ht2 Ht3]]] [Pr Gr]]]]].
    destruct (add_literal_node_S rc _ _ _ _ E2) as [P2 G2].
    split; [reflexivity|]. split; [exact Hok'|]. split; [exact (ext_trans _ _ _ _ He2 He')|].
    split; [|split; [exact (lprov_trans _ _ _ [] [] P2 Pr Gr)|exact (tri_grow_trans _ _ _ G2 Gr)]].
    exists (tris ++ [o]). split; [rewrite Ht1, Ho, <- app_assoc; reflexivity|].
    split; [|cbn [rev]; apply Forall2_app; [exact Ht3|repeat constructor; now apply Gr]].
    apply Forall_app. split; [exact Ht2|]. constructor; [|constructor]. exists i.
    apply (tri_node_ext _ _ [root] i o He'); [|exact Hto].
    intros [<-|[]]. destruct Hto as [_ [Hl _]]. rewrite (ext_label_some _ _ _ _ _ He2 Hlr) in Hl. discriminate.
Qed.

(* what add_free returns when it starts with the root at node 0 *)
Definition free_result (s : lstate) (root' : nat) (s' : lstate) : Prop :=
  (root' = 0 /\ s' = s) \/
  (sg_alive (ls_g s) root' = false /\ sg_label (ls_g s') root' = Some GAnd /\
   ext (ls_g s) (ls_g s') [] /\
   exists tris, sg_out (ls_g s') root' = tris ++ [0] /\ tris_in (ls_g s') tris).

(* the features of the triangles below the new root: those of fs that are not in occ *)
Definition free_feats (occ fs : list nat) (root' : nat) (s' : lstate) : Prop :=
  root' = 0 \/
  exists tris, sg_out (ls_g s') root' = tris ++ [0] /\
    Forall2 (fun f o => lookup_nat (ls_tri s') f = Some o) (rev (filter (fun i => negb (mem i occ)) fs)) tris.

Lemma add_free_spec occ : forall fs s root' s',
  tables_ok P st s -> sg_alive (ls_g s) 0 = true -> Forall (fun f => 1 <= f /\ @PF P f) fs ->
  add_free rc occ fs 0 s = Some (root', s') ->
  tables_ok P st s' /\ free_result s root' s' /\ lprov s s' [root'] /\ tri_grow s s' /\ free_feats occ fs root' s'.
Proof.
  induction fs as [|i r IH]; intros s root' s' Hok H0 Hfs H; cbn [add_free] in H.
  - injection H as <- <-. split; [exact Hok|]. split; [now left|].
    split; [apply (lprov_weaken _ _ []); [intros ? []|apply lprov_refl]|split; [apply tri_grow_refl|now left]].
  - inversion Hfs as [|? ? [Hi Hpi] Hr]; subst.
    unfold free_feats. cbn [filter]. destruct (mem i occ); [now apply IH|]. cbn [Nat.eqb negb] in *.
    destruct (add_node rc GAnd (ls_g s)) as [x g1] eqn:Ha.
    destruct (ls_add_edge x 0 (with_g s g1)) as [s1|] eqn:E1; [|discriminate]. cbn [option_map] in H.
    destruct (add_literal_node rc i x s1) as [s2|] eqn:E2; [|discriminate].
    destruct Hok as [[HI Hl Hp Hj Hsr] Ht].
    pose proof (add_node_fresh rc _ _ _ _ HI Ha) as Hfresh.
    pose proof (add_node_label_new rc _ _ _ _ HI Ha) as Hlx1.
    pose proof (add_node_no_out rc _ _ _ _ HI Ha) as Hox1.
    pose proof (add_node_ext rc _ _ _ _ [x] HI Ha) as He01.
    assert (Hxd : sg_alive (ls_g s) x = false) by (unfold sg_alive; now rewrite Hfresh).
    assert (Hx0 : x <> 0) by (intros ->; congruence).
    assert (Hc0 : core_ok P st (with_g s g1)).
    { constructor; cbn [with_g ls_g ls_lits ls_tri].
      - apply (add_node_Inv rc _ _ _ _ HI Ha).
      - intros l z Hz. apply (ext_label_some _ _ _ _ _ He01). now apply Hl.
      - intros z l Hz. destruct (Nat.eq_dec z x) as [->|Hzx]; [congruence|].
        rewrite (add_node_label_old rc _ _ _ _ Ha z Hzx) in Hz. now apply (Hp z).
      - intros z l Hz. destruct (Nat.eq_dec z x) as [->|Hzx]; [congruence|].
        rewrite (add_node_label_old rc _ _ _ _ Ha z Hzx) in Hz. now apply (Hj z).
      - intros Hst. exact (add_node_srcs rc _ _ _ _ HI Ha (Hsr Hst)). }
    destruct (ls_add_edge_core x 0 (with_g s g1) s1 [x] Hc0 (or_introl eq_refl) (fun _ => gate_and _ _ Hlx1) E1) as [Hc1 [He1 [Htri1 [_ Ho1]]]].
    cbn [with_g ls_g ls_tri] in He1, Htri1, Ho1.
    pose proof (ext_trans _ _ _ _ He01 He1) as He01'.
    assert (Ht1 : tris_ok s1).
    { intros f o Hfo. rewrite Htri1 in Hfo. apply (tri_node_ext _ _ [x] f o He01'); [|now apply Ht].
      intros [<-|[]]. destruct (Ht f x Hfo) as [_ [Hlo _]]. congruence. }
    assert (Hlx : sg_label (ls_g s1) x = Some GAnd) by exact (ext_label_some _ _ _ _ _ He1 Hlx1).
    destruct (add_literal_node_spec rc i x s1 s2 (conj Hc1 Ht1) Hi Hpi Hlx E2) as [Hok2 [He2 [_ [o [Ho [Hto [_ Hlk]]]]]]].
    destruct (add_free_tail occ x Hx0 r s2 root' s' Hok2 Hr (ext_label_some _ _ _ _ _ He2 Hlx) H)
      as [-> [Hok' [He' [[tris [Hr1 [Hr2 Hr3]]] [Pr Gr]]]]].
    destruct (ls_add_edge_S _ _ _ _ E1) as [L1 T1]. destruct (add_literal_node_S rc _ _ _ _ E2) as [P2 G2].
    assert (P01 : lprov s s1 [x]).
    { intros y t Hy. rewrite L1 in Hy. cbn [with_g ls_g] in Hy.
      destruct (add_node_label_cases rc _ _ _ _ _ _ Ha Hy) as [[-> ->]|[_ Hy0]]; [|now left].
      right. right. right. split; [reflexivity|now left]. }
    assert (G01 : tri_grow s s1) by (apply tri_grow_eq; exact T1).
    split; [exact Hok'|]. split; [|split; [|split; [exact (tri_grow_trans _ _ _ (tri_grow_trans _ _ _ G01 G2) Gr)|]]].
    3:{ right. exists (tris ++ [o]). split; [rewrite Hr1, Ho, Ho1, Hox1, <- app_assoc; reflexivity|].
        cbn [rev]. apply Forall2_app; [exact Hr3|repeat constructor; now apply Gr]. }
    2:{ apply (lprov_weaken _ _ (([x] ++ []) ++ [])); [intros y Hy; rewrite !app_nil_r in Hy; exact Hy|].
        exact (lprov_trans _ _ _ _ _ (lprov_trans _ _ _ _ _ P01 P2 G2) Pr Gr). }
    right.
    pose proof (ext_trans _ _ _ _ He01' (ext_trans _ _ _ _ He2 He')) as He.
    split; [exact Hxd|]. split; [exact (ext_label_some _ _ _ _ _ (ext_trans _ _ _ _ He2 He') Hlx)|].
    split; [exact (ext_drop_dead _ _ _ _ Hxd He)|].
    exists (tris ++ [o]). split.
    + rewrite Hr1, Ho, Ho1, Hox1, <- app_assoc. reflexivity.
    + apply Forall_app. split; [exact Hr2|]. constructor; [|constructor]. exists i.
      apply (tri_node_ext _ _ [x] i o He'); [|exact Hto].
      intros [<-|[]]. destruct Hto as [_ [Hlo _]]. rewrite (ext_label_some _ _ _ _ _ He2 Hlx) in Hlo. discriminate.
Qed.

(* the root stays node 0 only if every feature of the loop is mentioned *)
Lemma add_free_root_nz occ : forall fs root s root' s', root <> 0 ->
  add_free rc occ fs root s = Some (root', s') -> root' = root.
Proof.
  induction fs as [|i r IH]; intros root s root' s' Hr H; cbn [add_free] in H; [now injection H as <- _|].
  destruct (mem i occ); [exact (IH _ _ _ _ Hr H)|].
  destruct (Nat.eqb_spec root 0) as [E|_]; [contradiction|].
  destruct (add_literal_node rc i root s) as [s2|]; [|discriminate]. exact (IH _ _ _ _ Hr H).
Qed.

Lemma add_free_root0 occ : forall fs s s', Inv (ls_g s) -> sg_alive (ls_g s) 0 = true ->
  add_free rc occ fs 0 s = Some (0, s') -> forall f, In f fs -> mem f occ = true.
Proof.
  induction fs as [|i r IH]; intros s s' HI H0 H f Hf; [destruct Hf|]. cbn [add_free] in H.
  destruct (mem i occ) eqn:Ei.
  - destruct Hf as [<-|Hf]; [exact Ei|exact (IH s s' HI H0 H f Hf)].
  - exfalso. cbn [Nat.eqb] in H.
    destruct (add_node rc GAnd (ls_g s)) as [x g1] eqn:Ha.
    destruct (ls_add_edge x 0 (with_g s g1)) as [s1|]; [|discriminate]. cbn [option_map] in H.
    destruct (add_literal_node rc i x s1) as [s2|]; [|discriminate].
    pose proof (add_node_fresh rc _ _ _ _ HI Ha) as Hfresh.
    assert (Hx0 : x <> 0) by (intros ->; unfold sg_alive in H0; rewrite Hfresh in H0; discriminate).
    pose proof (add_free_root_nz occ r x s2 0 s' Hx0 H). congruence.
Qed.

(* the root after the free-feature loop has the value of node 0 *)
Lemma free_result_val s root' s' a b : free_result s root' s' ->
  GV (ls_g s) a 0 b -> GV (ls_g s') a root' b.
Proof.
  intros [[-> ->]|[_ [Hl [He [tris [Ho Ht]]]]]] Hv; [exact Hv|].
  pose proof (gr_val _ _ (ext_nil_grow _ _ He) a 0 b Hv) as Hv'.
  rewrite <- (forallb_true_app (map (fun _ => true) tris) b).
  - apply GV_and; [exact Hl|]. rewrite Ho. apply Forall2_app; [|repeat constructor; exact Hv'].
    clear Ho. induction Ht as [|o tris [f Hf] _ IH]; cbn [map]; constructor; [|exact IH].
    now apply (tri_node_true _ f o a).
  - clear. induction tris; cbn [map]; constructor; auto.
Qed.

Lemma free_result_grow s root' s' : free_result s root' s' -> grow (ls_g s) (ls_g s').
Proof.
  intros [[-> ->]|[_ [_ [He _]]]]; [apply grow_refl|now apply ext_nil_grow].
Qed.

End Free.
