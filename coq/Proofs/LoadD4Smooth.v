(* Smoothness.  After balance_or_children every child of the or node covers all the features of
   its siblings (smooth_at); this is stable under later steps; the third traversal reaches
   every or node that the root reaches (coverage invariant over the traversal state), so every
   or node of the rebuilt vector is smooth. *)
From Coq Require Import List ZArith Bool Lia Arith.
From DD Require Import Model.Circuit Model.Query Model.LexerD4 Model.LoadC2d Model.LoadD4 Spec.D4Sem Spec.D4Conform
  Proofs.PassLemmas Proofs.Renum Proofs.C10Load Proofs.LoadD4Ord Proofs.LoadD4Graph Proofs.LoadD4Ops Proofs.LoadD4Fold
  Proofs.LoadD4Flat Proofs.LoadD4Iso Proofs.LoadD4Pass2 Proofs.LoadD4Pass2S Proofs.LoadD4Struct
  Proofs.LoadD4Pass3 Proofs.LoadD4Free Proofs.LoadD4Parse Proofs.LoadD4Sem Proofs.LoadD4Conf Proofs.LoadD4Vars
  Proofs.LoadD4Det Proofs.LoadD4Dec.
Import ListNotations.
Local Open Scope nat_scope.

(* every child covers the features of all children *)
Definition smooth_at (g : sgraph) (x : nat) : Prop :=
  forall vs, Forall2 (GVs g) (sg_out g x) vs -> forall v, In v vs -> incl (concat vs) v.

Lemma tri_smooth g f o : tri_node g f o -> smooth_at g o.
Proof.
  intros Ht vs Hvs v Hv. destruct Ht as [Hf [_ [n [p [Ho [Hn Hp]]]]]]. rewrite Ho in Hvs.
  inversion Hvs as [|? vn ? vs1 Hvn Hr]; subst. inversion Hr as [|? vp ? vs2 Hvp Hr2]; subst. inversion Hr2; subst.
  rewrite (GF_leaf_inv hvars g n _ vn Hn eq_refl Hvn), (GF_leaf_inv hvars g p _ vp Hp eq_refl Hvp) in *.
  cbn [hvars concat app] in *. replace (Z.abs (- Z.of_nat f)) with (Z.of_nat f) in * by lia.
  replace (Z.abs (Z.of_nat f)) with (Z.of_nat f) in * by lia.
  intros z Hz. destruct Hv as [<-|[<-|[]]]; destruct Hz as [<-|[<-|[]]]; now left.
Qed.

(* ---------- canon_set and diff ---------- *)
Lemma insert_nat_In' x y l : In y l \/ y = x -> In y (insert_nat x l).
Proof.
  induction l as [|a l IH]; cbn [insert_nat]; intros H.
  - destruct H as [[]| ->]. now left.
  - destruct (Nat.leb x a); [destruct H as [H| ->]; [now right|now left]|].
    destruct H as [[<-|H]| ->]; [now left|right; apply IH; now left|right; apply IH; now right].
Qed.
Lemma sort_nat_In' y l : In y l -> In y (sort_nat l).
Proof.
  induction l as [|a l IH]; [intros []|]. cbn [sort_nat fold_right]. fold (sort_nat l).
  intros [<-|H]; apply insert_nat_In'; [now right|left; now apply IH].
Qed.
Lemma dedup_sorted_In'' x l : In x l -> In x (dedup_sorted l).
Proof.
  induction l as [|a l IH]; [intros []|]. cbn [dedup_sorted]. destruct l as [|b l]; [tauto|].
  destruct (Nat.eqb_spec a b) as [->|Hne].
  - intros [<-|H]; apply IH; [now left|exact H].
  - intros [<-|H]; [now left|right; now apply IH].
Qed.
Lemma canon_set_iff x l : In x (canon_set l) <-> In x l.
Proof. split; [apply canon_set_In|]. intros H. unfold canon_set. now apply dedup_sorted_In'', sort_nat_In'. Qed.

Definition others_have (cd : list (nat * list nat)) (c f : nat) : Prop :=
  exists c' S', In (c', S') cd /\ c' <> c /\ In f S'.

Lemma in_others pre r c0 f : ~ In c0 (map fst (pre ++ r)) ->
  (In f (concat (map snd (pre ++ r))) <-> forall s0, others_have (pre ++ (c0, s0) :: r) c0 f).
Proof.
  intros Hn. split.
  - intros Hf s0. apply in_concat in Hf. destruct Hf as [S' [HS Hf]]. apply in_map_iff in HS.
    destruct HS as [[c' S''] [E Hin]]. cbn [snd] in E. subst S''. exists c', S'. split; [|split; [|exact Hf]].
    + apply in_app_or in Hin. apply in_or_app. destruct Hin as [H|H]; [now left|right; now right].
    + intros ->. apply Hn. apply in_map_iff. now exists (c0, S').
  - intros H. destruct (H []) as [c' [S' [Hin [Hne Hf]]]]. apply in_concat. exists S'. split; [|exact Hf].
    apply in_map_iff. exists (c', S'). split; [reflexivity|]. apply in_app_or in Hin. apply in_or_app.
    destruct Hin as [Hin|[E|Hin]]; [now left|congruence|now right].
Qed.

Lemma diff_go_missing post : forall pre c ms, NoDup (map fst (pre ++ post)) -> In (c, ms) (diff_go pre post) ->
  exists S, In (c, S) post /\ forall f, In f ms <-> others_have (pre ++ post) c f /\ ~ In f S.
Proof.
  induction post as [|[c0 s0] r IH]; intros pre c ms Hnd H; cbn [diff_go] in H; [destruct H|].
  assert (Hn0 : ~ In c0 (map fst (pre ++ r))).
  { rewrite map_app in Hnd. cbn [map fst] in Hnd. apply NoDup_remove_2 in Hnd. now rewrite map_app. }
  assert (Hrec : In (c, ms) (diff_go (pre ++ [(c0, s0)]) r) ->
                 exists S, In (c, S) ((c0, s0) :: r) /\ forall f, In f ms <-> others_have (pre ++ (c0, s0) :: r) c f /\ ~ In f S).
  { intros H'. destruct (IH (pre ++ [(c0, s0)]) c ms) as [S [H1 H2]]; [now rewrite <- app_assoc|exact H'|].
    exists S. split; [now right|]. intros f. rewrite (H2 f). now rewrite <- app_assoc. }
  destruct (canon_set _) as [|m0 ms0] eqn:E; [now apply Hrec|].
  destruct H as [H|H]; [|now apply Hrec]. injection H as <- <-. exists s0. split; [now left|].
  intros f. rewrite <- E, canon_set_iff, filter_In, negb_true_iff. rewrite (in_others pre r c0 f Hn0).
  split.
  - intros [H1 H2]. split; [apply H1|now apply mem_notIn].
  - intros [H1 H2]. split; [|now apply mem_notIn]. intros s1. destruct H1 as [c' [S' [Hin [Hne Hf]]]].
    exists c', S'. split; [|split; assumption]. apply in_app_or in Hin. apply in_or_app.
    destruct Hin as [Hin|[E'|Hin]]; [now left|congruence|right; now right].
Qed.

Lemma diff_go_nothing post : forall pre c S, NoDup (map fst (pre ++ post)) -> In (c, S) post ->
  ~ In c (map fst (diff_go pre post)) -> forall f, others_have (pre ++ post) c f -> In f S.
Proof.
  induction post as [|[c0 s0] r IH]; intros pre c S Hnd Hin Hno f Hf; [destruct Hin|]. cbn [diff_go] in Hno.
  assert (Hn0 : ~ In c0 (map fst (pre ++ r))).
  { rewrite map_app in Hnd. cbn [map fst] in Hnd. apply NoDup_remove_2 in Hnd. now rewrite map_app. }
  destruct Hin as [E|Hin].
  - injection E as -> ->.
    destruct (canon_set (filter (fun f0 => negb (mem f0 S)) (concat (map snd (pre ++ r))))) as [|m0 ms0] eqn:E.
    + assert (Hin : In f (concat (map snd (pre ++ r)))).
      { apply (in_others pre r c f Hn0). intros s1. destruct Hf as [c' [S' [Hin [Hne Hf]]]].
        exists c', S'. split; [|split; assumption]. apply in_app_or in Hin. apply in_or_app.
        destruct Hin as [Hin|[E'|Hin]]; [now left|congruence|right; now right]. }
      destruct (mem f S) eqn:Em; [now apply mem_In|]. exfalso.
      assert (Hc : In f (canon_set (filter (fun f0 => negb (mem f0 S)) (concat (map snd (pre ++ r)))))).
      { apply canon_set_iff, filter_In. split; [exact Hin|now rewrite Em]. }
      rewrite E in Hc. destruct Hc.
    + exfalso. apply Hno. cbn [map fst]. now left.
  - apply (IH (pre ++ [(c0, s0)]) c S); [now rewrite <- app_assoc|exact Hin| |now rewrite <- app_assoc].
    intros Hc. apply Hno. destruct (canon_set _); [exact Hc|cbn [map fst]; now right].
Qed.

Lemma removes_notin cs : forall l x, NoDup l -> In x (removes cs l) -> ~ In x cs.
Proof.
  induction cs as [|c cs IH]; intros l x Hnd Hx; [intros []|]. cbn [removes fold_left] in Hx.
  fold (removes cs (remove1 c l)) in Hx.
  assert (Hnd' : NoDup (remove1 c l)) by (apply (sublist_NoDup _ l); [apply sublist_remove1|exact Hnd]).
  intros [->|Hin]; [|exact (IH _ _ Hnd' Hx Hin)].
  apply removes_In in Hx. clear -Hnd Hx. induction l as [|y l IHl]; [destruct Hx|]. cbn [remove1] in Hx.
  inversion Hnd; subst. destruct (Nat.eqb_spec y x) as [->|Hne]; [contradiction|].
  destruct Hx as [E|Hx]; [congruence|]. now apply IHl.
Qed.

(* ---------- one balancing step makes its node smooth ---------- *)
Section SStep.
Variable ord : list nat -> list nat.
Hypothesis Hperm : forall l f, In f (ord l) <-> In f l.
Context {P : Z -> Prop} {st : bool}.
Variables (m : list (nat * list nat)) (s s' : lstate) (nx : nat) (cd : list (nat * list nat)) (ans : list nat).
Let g := ls_g s.
Let g' := ls_g s'.
Let D := diff_go [] cd.
Hypothesis Hnx : sg_label g nx = Some GOr.
Hypothesis HI : Inv g.
Hypothesis Hok' : tables_ok P st s'.
Hypothesis He : ext g g' [nx].
Hypothesis Hcd : children_diff m (sg_out g nx) = Some cd.
Hypothesis Hm : mexact g m.
Hypothesis Hans : Forall2 (fun an cm => sg_alive g an = false /\ balS ord s' an (fst cm) (snd cm)) ans D.
Hypothesis Hout : sg_out g' nx = rev ans ++ removes (map fst D) (sg_out g nx).
Hypothesis Hdef : all_def g.
Hypothesis HndO : NoDup (sg_out g nx).

Let Hfst : map fst cd = sg_out g nx := cd_fst m s nx cd Hcd.

Lemma cd_entry c : In c (sg_out g nx) -> exists S v, In (c, S) cd /\ GVs g c v /\ seteq (zs S) v.
Proof.
  intros Hc. rewrite <- Hfst in Hc. apply in_map_iff in Hc. destruct Hc as [[c0 S] [E Hin]]. cbn [fst] in E. subst c0.
  pose proof (proj2 (children_diff_spec m _ cd Hcd)) as Hall. rewrite Forall_forall in Hall.
  specialize (Hall _ Hin). cbn [fst snd] in Hall. destruct (Hm c S Hall) as [v [Hv Hs]]. now exists S, v.
Qed.

Lemma cd_value c S v : In (c, S) cd -> GVs g c v -> seteq (zs S) v.
Proof.
  intros Hin Hv. pose proof (proj2 (children_diff_spec m _ cd Hcd)) as Hall. rewrite Forall_forall in Hall.
  specialize (Hall _ Hin). cbn [fst snd] in Hall. destruct (Hm c S Hall) as [v0 [Hv0 Hs]].
  now rewrite (GF_det hvars g c v v0 Hv Hv0).
Qed.

Lemma step_smooth : smooth_at g' nx.
Proof.
  intros vs' Hvs' v' Hv' z Hz.
  assert (Hndc : NoDup (map fst ([] ++ cd))) by (cbn [app]; now rewrite Hfst).
  (* the union over the new children is the union over the old ones *)
  destruct (Forall2_exists (fun c v => GVs g c v /\ (sg_alive g c = true -> exists v', GVs g' c v' /\ seteq v' v)) (sg_out g nx))
    as [vs Hvs].
  { intros c Hc. assert (Ha : sg_alive g c = true) by exact (proj2 (out_alive g nx c (proj1 HI) Hc)).
    destruct (GDef_vars g c (Hdef c Ha)) as [v Hv]. exists v. split; [exact Hv|]. intros _.
    exact (step_vars ord Hperm m s s' nx cd ans Hnx Hok' He Hcd Hm Hans Hout c v Hv). }
  destruct (step_union ord Hperm m s s' nx cd ans Hok' Hcd Hm Hans Hout vs Hvs) as [vs'' [H1 H2]].
  fold g' in H1. rewrite (Forall2_GF_det hvars g' _ vs' vs'' Hvs' H1) in *. apply H2 in Hz.
  assert (Hvs0 : Forall2 (GVs g) (sg_out g nx) vs) by (eapply Forall2_impl; [|exact Hvs]; intros c v [Hc _]; exact Hc).
  apply (concat_union g _ vs z Hvs0) in Hz. destruct Hz as [c0 [v0 [Hc0 [Hv0 Hz]]]].
  destruct (cd_entry c0 Hc0) as [S0 [v0' [Hin0 [Hv0' Hs0]]]]. rewrite (GF_det hvars g c0 v0' v0 Hv0' Hv0) in Hs0.
  apply Hs0 in Hz. unfold zs in Hz. apply in_map_iff in Hz. destruct Hz as [f [<- Hf]].
  destruct (Forall2_In_r _ _ _ _ H1 Hv') as [c' [Hc' Hcv']]. fold g' in Hc'. rewrite Hout in Hc'.
  apply in_app_or in Hc'. destruct Hc' as [Hc'|Hc'].
  - apply in_rev in Hc'. destruct (ans_pair ord s s' cd ans Hans c' Hc') as [c [ms [HinD Hb]]].
    assert (Hc : In c (sg_out g nx)) by exact (D_child m s nx cd Hcd c ms HinD).
    assert (Ha : sg_alive g c = true) by exact (proj2 (out_alive g nx c (proj1 HI) Hc)).
    destruct (old_value ord Hperm m s s' nx cd ans Hnx Hok' He Hcd Hm Hans Hout Hdef c Ha) as [v [vc' [G1 [G2 G3]]]].
    destruct (bal_val ord Hperm s' Hok' c' c ms vc' Hb G2) as [va [G4 G5]].
    rewrite (GF_det hvars g' c' v' va Hcv' G4). apply G5. apply in_or_app.
    destruct (diff_go_missing cd [] c ms Hndc HinD) as [S [HS Hchar]]. cbn [app] in Hchar.
    pose proof (cd_value c S v HS G1) as HsS.
    destruct (Nat.eq_dec c0 c) as [->|Hne].
    + right. apply G3. rewrite (GF_det hvars g c v v0 G1 Hv0). apply Hs0. now apply in_zs.
    + destruct (In_dec Nat.eq_dec f S) as [HfS|HfS].
      * right. apply G3, HsS. now apply in_zs.
      * left. apply in_zs. apply Hchar. split; [|exact HfS]. now exists c0, S0.
  - assert (Hno : ~ In c' (map fst D)) by exact (removes_notin _ _ _ HndO Hc').
    apply removes_In in Hc'. destruct (cd_entry c' Hc') as [S' [v [Hin' [Hv Hs']]]].
    assert (Ha : sg_alive g c' = true) by exact (proj2 (out_alive g nx c' (proj1 HI) Hc')).
    destruct (old_value ord Hperm m s s' nx cd ans Hnx Hok' He Hcd Hm Hans Hout Hdef c' Ha) as [v1 [v1' [G1 [G2 G3]]]].
    rewrite (GF_det hvars g c' v1 v G1 Hv) in G3. rewrite (GF_det hvars g' c' v' v1' Hcv' G2). apply G3.
    destruct (Nat.eq_dec c0 c') as [->|Hne].
    + rewrite (GF_det hvars g c' v v0 Hv Hv0). apply Hs0. now apply in_zs.
    + apply Hs'. apply in_zs. apply (diff_go_nothing cd [] c' S' Hndc Hin' Hno). cbn [app]. now exists c0, S0.
Qed.
End SStep.

(* a finished or node stays smooth under a later step *)
Section Stable.
Variable ord : list nat -> list nat.
Hypothesis Hperm : forall l f, In f (ord l) <-> In f l.
Context {P : Z -> Prop} {st : bool}.
Variables (m : list (nat * list nat)) (s s' : lstate) (nx : nat) (cd : list (nat * list nat)) (ans : list nat).
Let g := ls_g s.
Let g' := ls_g s'.
Let D := diff_go [] cd.
Hypothesis Hnx : sg_label g nx = Some GOr.
Hypothesis HI : Inv g.
Hypothesis Hok' : tables_ok P st s'.
Hypothesis He : ext g g' [nx].
Hypothesis Hcd : children_diff m (sg_out g nx) = Some cd.
Hypothesis Hm : mexact g m.
Hypothesis Hans : Forall2 (fun an cm => sg_alive g an = false /\ balS ord s' an (fst cm) (snd cm)) ans D.
Hypothesis Hout : sg_out g' nx = rev ans ++ removes (map fst D) (sg_out g nx).
Hypothesis Hdef : all_def g.

Lemma smooth_stable x : x <> nx -> sg_alive g x = true -> smooth_at g x -> smooth_at g' x.
Proof.
  intros Hne Ha Hs vs' Hvs' v' Hv' z Hz.
  rewrite (ex_out _ _ _ He x Ha) in Hvs' by (intros [E|[]]; congruence).
  destruct (Forall2_exists (GVs g) (sg_out g x)) as [vs Hvs].
  { intros c Hc. exact (GDef_vars g c (Hdef c (proj2 (out_alive g x c (proj1 HI) Hc)))). }
  assert (Hse : Forall2 seteq vs' vs).
  { refine (Forall2_zip (GVs g) (GVs g') (fun v' v => seteq v' v) _ _ _ _ Hvs Hvs').
    intros c v0 v0' _ Hv0 Hv0'.
    destruct (step_vars ord Hperm m s s' nx cd ans Hnx Hok' He Hcd Hm Hans Hout c v0 Hv0) as [v'' [H1 H2]].
    now rewrite (GF_det hvars g' c v0' v'' Hv0' H1). }
  destruct (Forall2_In_l _ _ _ _ Hse Hv') as [v [Hv Hvv]].
  apply Hvv. apply (Hs vs Hvs v Hv). now apply (concat_seteq vs' vs Hse).
Qed.
End Stable.

(* ---------- coverage: the traversal finishes every node the root reaches ---------- *)
Definition is_leafL (g : sgraph) (c : nat) : Prop := exists t, sg_label g c = Some t /\ is_gate t = false.

Lemma push_in disc succs : forall stack c, In c (push_undiscovered disc stack succs) -> In c stack \/ In c succs.
Proof.
  unfold push_undiscovered. induction succs as [|x succs IH]; intros stack c H; [now left|]. cbn [fold_left] in H.
  destruct (IH _ _ H) as [H1|H1]; [|right; now right].
  destruct (mem x disc); [now left|]. destruct H1 as [->|H1]; [right; now left|now left].
Qed.

Section Cover.
Variables (rc : bool) (ord : list nat -> list nat).
Hypothesis Hperm : forall l f, In f (ord l) <-> In f l.
Hypothesis Hndp : forall l, NoDup l -> NoDup (ord l).
Context {P : Z -> Prop}.
Variables (g0 : sgraph) (root : nat).
Hypothesis HI0 : Inv g0.
Hypothesis Hnd0 : forall x, sg_label g0 x = Some GOr -> NoDup (sg_out g0 x).

Definition cov (s : lstate) (stack disc : list nat) (c : nat) : Prop :=
  In c disc \/ In c stack \/ sg_alive g0 c = false \/ in_tab s c \/ is_leafL (ls_g s) c.

Record KInv (m : list (nat * list nat)) (s : lstate) (stack disc fin : list nat) : Prop := {
  k_vars : vars_inv m s;
  k_old : forall x, In x disc \/ In x stack -> sg_alive g0 x = true;
  k_fin : forall x, In x fin -> In x disc;
  k_disc : forall x, In x disc -> In x fin \/ In x stack;
  k_same : forall x, sg_alive g0 x = true -> ~ In x fin -> sg_out (ls_g s) x = sg_out g0 x;
  k_cov : forall x c, In x disc \/ sg_alive g0 x = false -> In c (sg_out (ls_g s) x) -> cov s stack disc c;
  k_smooth : forall x, In x fin -> sg_label (ls_g s) x = Some GOr -> smooth_at (ls_g s) x;
  k_newor : forall x, sg_alive g0 x = false -> sg_label (ls_g s) x = Some GOr -> in_tab s x;
  k_root : In root disc \/ In root stack
}.

Lemma cov_mono s s' stack stack' disc disc' c :
  (forall y, In y disc -> In y disc') -> (forall y, In y stack -> In y stack' \/ In y disc') ->
  tri_grow s s' -> (forall y, sg_alive (ls_g s) y = true -> sg_label (ls_g s') y = sg_label (ls_g s) y) ->
  cov s stack disc c -> cov s' stack' disc' c.
Proof.
  intros Hd Hs Ht Hl [H|[H|[H|[[f H]|[t [H1 H2]]]]]].
  - left. now apply Hd.
  - destruct (Hs c H) as [H'|H']; [right; now left|now left].
  - right. right. now left.
  - right. right. right. left. exists f. now apply Ht.
  - right. right. right. right. exists t. split; [|exact H2]. rewrite Hl; [exact H1|]. unfold sg_alive. now rewrite H1.
Qed.

Lemma K_discover m s nx rest disc fin : grow g0 (ls_g s) -> KInv m s (nx :: rest) disc fin -> mem nx disc = false ->
  KInv m s (push_undiscovered (nx :: disc) (nx :: rest) (sg_out (ls_g s) nx)) (nx :: disc) fin.
Proof.
  intros Hg K Ed. pose proof (mem_false_notIn _ _ Ed) as Hnd.
  assert (Hnf : ~ In nx fin) by (intros Hf; exact (Hnd (k_fin _ _ _ _ _ K nx Hf))).
  assert (Hnx0 : sg_alive g0 nx = true) by (apply (k_old _ _ _ _ _ K); right; now left).
  constructor.
  - exact (k_vars _ _ _ _ _ K).
  - intros x [[<-|Hx]|Hx]; [exact Hnx0|apply (k_old _ _ _ _ _ K); now left|].
    apply push_in in Hx. destruct Hx as [Hx|Hx]; [apply (k_old _ _ _ _ _ K); now right|].
    rewrite (k_same _ _ _ _ _ K nx Hnx0 Hnf) in Hx. exact (proj2 (out_alive g0 nx x (proj1 HI0) Hx)).
  - intros x Hx. right. exact (k_fin _ _ _ _ _ K x Hx).
  - intros x [<-|Hx]; [right; apply push_keeps; now left|].
    destruct (k_disc _ _ _ _ _ K x Hx) as [H|H]; [now left|right; now apply push_keeps].
  - exact (k_same _ _ _ _ _ K).
  - intros x c Hx Hc.
    assert (Hold : In x disc \/ sg_alive g0 x = false -> cov s (push_undiscovered (nx :: disc) (nx :: rest) (sg_out (ls_g s) nx)) (nx :: disc) c).
    { intros Hx'. apply (cov_mono s s (nx :: rest) _ disc (nx :: disc) c); [intros y Hy; now right| |apply tri_grow_refl|reflexivity|].
      - intros y Hy. left. now apply push_keeps.
      - exact (k_cov _ _ _ _ _ K x c Hx' Hc). }
    destruct Hx as [[<-|Hx]|Hx]; [|apply Hold; now left|apply Hold; now right].
    destruct (push_cover (nx :: disc) (sg_out (ls_g s) nx) (nx :: rest) c Hc) as [H|H].
    + left. now apply mem_true_In.
    + right. now left.
  - exact (k_smooth _ _ _ _ _ K).
  - exact (k_newor _ _ _ _ _ K).
  - destruct (k_root _ _ _ _ _ K) as [H|H]; [left; now right|right; now apply push_keeps].
Qed.

(* the top of the stack is discovered and leaves the stack; the state s' relates to s by `mono` *)
Lemma K_pop_cov s nx rest disc c : In nx disc -> cov s (nx :: rest) disc c -> cov s rest disc c.
Proof.
  intros Hnx H. apply (cov_mono s s (nx :: rest) rest disc disc c); [auto| |apply tri_grow_refl|reflexivity|exact H].
  intros y [<-|Hy]; [now right|now left].
Qed.

Lemma K_pop m s nx rest disc fin : KInv m s (nx :: rest) disc fin -> mem nx disc = true -> mem nx fin = true ->
  KInv m s rest disc fin.
Proof.
  intros K Ed Ef. pose proof (mem_true_In _ _ Ed) as Hd. pose proof (mem_true_In _ _ Ef) as Hf.
  constructor.
  - exact (k_vars _ _ _ _ _ K).
  - intros x [Hx|Hx]; apply (k_old _ _ _ _ _ K); [now left|right; now right].
  - exact (k_fin _ _ _ _ _ K).
  - intros x Hx. destruct (k_disc _ _ _ _ _ K x Hx) as [H|[<-|H]]; [now left|now left|now right].
  - exact (k_same _ _ _ _ _ K).
  - intros x c Hx Hc. apply (K_pop_cov s nx rest disc c); [exact Hd|]. exact (k_cov _ _ _ _ _ K x c Hx Hc).
  - exact (k_smooth _ _ _ _ _ K).
  - exact (k_newor _ _ _ _ _ K).
  - destruct (k_root _ _ _ _ _ K) as [H|[<-|H]]; [now left|now left|now right].
Qed.

(* a step that does not change the state *)
Lemma K_skip m s nx rest disc fin : KInv m s (nx :: rest) disc fin -> mem nx disc = true ->
  (sg_label (ls_g s) nx = Some GOr -> smooth_at (ls_g s) nx) -> KInv m s rest disc (nx :: fin).
Proof.
  intros K Ed Hsm. pose proof (mem_true_In _ _ Ed) as Hd.
  constructor.
  - exact (k_vars _ _ _ _ _ K).
  - intros x [Hx|Hx]; apply (k_old _ _ _ _ _ K); [now left|right; now right].
  - intros x [<-|Hx]; [exact Hd|exact (k_fin _ _ _ _ _ K x Hx)].
  - intros x Hx. destruct (k_disc _ _ _ _ _ K x Hx) as [H|[<-|H]]; [left; now right|left; now left|now right].
  - intros x Ha Hn. apply (k_same _ _ _ _ _ K x Ha). intros H. apply Hn. now right.
  - intros x c Hx Hc. apply (K_pop_cov s nx rest disc c); [exact Hd|]. exact (k_cov _ _ _ _ _ K x c Hx Hc).
  - intros x [<-|Hx] Hl; [now apply Hsm|exact (k_smooth _ _ _ _ _ K x Hx Hl)].
  - exact (k_newor _ _ _ _ _ K).
  - destruct (k_root _ _ _ _ _ K) as [H|[<-|H]]; [now left|now left|now right].
Qed.
Lemma K_step m s s' nx rest disc fin :
  tables_ok P true s -> grow g0 (ls_g s) -> KInv m s (nx :: rest) disc fin -> mem nx disc = true -> mem nx fin = false ->
  p3step ord (P := P) (st := true) m s s' nx -> KInv m s' rest disc (nx :: fin).
Proof.
  intros Hok Hg K Ed Ef Hst. pose proof Hst as Hst'.
  destruct Hst as [[-> Hl]|[[-> [Hl Ht]]|H3]].
  - apply K_skip; [exact K|exact Ed|]. intros E. contradiction.
  - apply K_skip; [exact K|exact Ed|]. intros _. destruct Ht as [f Hf]. exact (tri_smooth _ f nx (proj2 Hok f nx Hf)).
  - destruct H3 as [Hnx [Hnot [Hok' [He [Hsub [cd [Hcd [ans [Hprov [Htg [Hans Hout]]]]]]]]]]].
    pose proof (co_inv _ _ _ (proj1 Hok)) as HI. pose proof (co_inv _ _ _ (proj1 Hok')) as HI'.
    destruct (k_vars _ _ _ _ _ K) as [Hdef [Hdec Hm]].
    pose proof (mem_true_In _ _ Ed) as Hd. pose proof (mem_false_notIn _ _ Ef) as Hnf.
    assert (Hnx0 : sg_alive g0 nx = true) by (apply (k_old _ _ _ _ _ K); now left).
    pose proof (k_same _ _ _ _ _ K nx Hnx0 Hnf) as Hsame.
    assert (HndO : NoDup (sg_out (ls_g s) nx)).
    { rewrite Hsame. apply Hnd0. rewrite <- (gr_label _ _ Hg nx Hnx0). exact Hnx. }
    assert (Hnew : forall y, sg_alive (ls_g s) y = false -> sg_alive g0 y = false).
    { intros y Hy. destruct (sg_alive g0 y) eqn:E; [|reflexivity]. rewrite (grow_alive _ _ y Hg E) in Hy. discriminate. }
    assert (Hcovm : forall c, cov s (nx :: rest) disc c -> cov s' rest disc c).
    { intros c. apply cov_mono; [auto| |exact Htg|exact (ex_label _ _ _ He)].
      intros y [<-|Hy]; [now right|now left]. }
    constructor.
    + exact (vars_inv_step ord Hperm Hndp m s s' nx Hok Hst' (k_vars _ _ _ _ _ K)).
    + intros x [Hx|Hx]; apply (k_old _ _ _ _ _ K); [now left|right; now right].
    + intros x [<-|Hx]; [exact Hd|exact (k_fin _ _ _ _ _ K x Hx)].
    + intros x Hx. destruct (k_disc _ _ _ _ _ K x Hx) as [H|[<-|H]]; [left; now right|left; now left|now right].
    + intros x Ha Hn. rewrite (ex_out _ _ _ He x (grow_alive _ _ x Hg Ha)).
      * apply (k_same _ _ _ _ _ K x Ha). intros H. apply Hn. now right.
      * intros [E|[]]. apply Hn. now left.
    + intros x c Hx Hc. destruct (sg_alive (ls_g s) x) eqn:Hax.
      * destruct (Nat.eq_dec x nx) as [->|Hne].
        -- rewrite Hout in Hc. apply in_app_or in Hc. destruct Hc as [Hc|Hc].
           ++ apply in_rev in Hc. destruct (Forall2_In_l _ _ _ _ Hans Hc) as [cm [_ [Hdead _]]].
              right. right. left. now apply Hnew.
           ++ apply removes_In in Hc. apply Hcovm. apply (k_cov _ _ _ _ _ K nx c); [now left|exact Hc].
        -- rewrite (ex_out _ _ _ He x Hax) in Hc by (intros [E|[]]; congruence).
           apply Hcovm. exact (k_cov _ _ _ _ _ K x c Hx Hc).
      * destruct (sg_label (ls_g s') x) as [t|] eqn:Hl'.
        2:{ rewrite (vacant_no_out _ x (proj1 HI') Hl') in Hc. destruct Hc. }
        destruct (Hprov x t Hl') as [H|[[l ->]|[[-> Hit]|[-> Hin]]]].
        -- unfold sg_alive in Hax. rewrite H in Hax. discriminate.
        -- destruct (srcs_out_gate _ x c (co_src _ _ _ (proj1 Hok') eq_refl) Hc) as [t' [Hl'' Hgt]].
           rewrite Hl' in Hl''. injection Hl'' as <-. discriminate.
        -- destruct Hit as [f Hf]. destruct (proj2 Hok' f x Hf) as [_ [_ [n [p [Ho [Hn Hp]]]]]].
           rewrite Ho in Hc. right. right. right. right.
           destruct Hc as [<-|[<-|[]]]; eexists; (split; [eassumption|reflexivity]).
        -- destruct (ans_pair ord s s' cd ans Hans x Hin) as [c0 [ms [HinD [Hla [tris [Ho Htr]]]]]].
           rewrite Ho in Hc. apply in_app_or in Hc. destruct Hc as [Hc|[<-|[]]].
           ++ destruct (Forall2_In_r _ _ _ _ Htr Hc) as [f [_ Hf]]. right. right. right. left. now exists f.
           ++ apply Hcovm. apply (k_cov _ _ _ _ _ K nx c0); [now left|]. exact (D_child m s nx cd Hcd c0 ms HinD).
    + intros x [<-|Hx] Hl.
      * eapply (step_smooth ord Hperm (P := P) (st := true) m s s' nx cd ans); eassumption.
      * assert (Hne : x <> nx) by (intros ->; contradiction).
        assert (Ha : sg_alive (ls_g s) x = true).
        { apply (grow_alive _ _ x Hg). apply (k_old _ _ _ _ _ K). left. exact (k_fin _ _ _ _ _ K x Hx). }
        rewrite (ex_label _ _ _ He x Ha) in Hl.
        eapply (smooth_stable ord Hperm (P := P) (st := true) m s s' nx cd ans); try eassumption.
        exact (k_smooth _ _ _ _ _ K x Hx Hl).
    + intros x Hx0 Hl. destruct (Hprov x GOr Hl) as [H|[[l E]|[[_ Hit]|[E _]]]]; try discriminate; [|exact Hit].
      destruct (k_newor _ _ _ _ _ K x Hx0 H) as [f Hf]. exists f. now apply Htg.
    + destruct (k_root _ _ _ _ _ K) as [H|[<-|H]]; [now left|now left|now right].
Qed.
Hypothesis Pnz : forall l, P l -> l <> 0%Z.
Hypothesis Psym : forall l, P l -> P (- l)%Z.

(* what the traversal leaves behind: a set that contains the root, is closed under the edges of
   the final graph, and in which every or node is smooth *)
Theorem pass3_cover s0 s3 : ls_g s0 = g0 -> tables_ok P true s0 -> sg_alive g0 root = true ->
  all_def g0 -> dec_ok g0 -> pass3 rc ord s0 root = Some s3 ->
  exists S : nat -> Prop, S root /\
    (forall x c, S x -> In c (sg_out (ls_g s3) x) -> S c) /\
    (forall x, S x -> sg_label (ls_g s3) x = Some GOr -> smooth_at (ls_g s3) x).
Proof.
  intros E0 Hok0 Hr Hdef0 Hdec0 H3.
  assert (Hord : forall l f, In f (ord l) -> In f l) by (intros l f; apply Hperm).
  destruct (pass3_grow rc ord Hord Pnz Psym _ _ _ Hok0 H3) as [Hok3 Hg3]. rewrite E0 in Hg3.
  destruct (pass3_invariant_st rc ord Hord Pnz Psym (fun m s stack disc fin => KInv m s stack disc fin)
              s0 root s3 Hok0 H3) as [m [disc [fin [_ K]]]].
  - intros m Em. rewrite E0 in *. constructor.
    + split; [now rewrite E0|]. split; [now rewrite E0|]. rewrite E0. exact (get_literal_diffs_exact _ _ _ Em).
    + intros x [[]|[<-|[]]]. exact Hr.
    + intros x [].
    + intros x [].
    + intros x _ _. now rewrite E0.
    + intros x c [[]|Hx] Hc. rewrite E0 in Hc.
      destruct (out_alive g0 x c (proj1 HI0) Hc) as [Ha _]. congruence.
    + intros x [].
    + intros x Hx Hl. rewrite E0 in Hl. unfold sg_alive in Hx. rewrite Hl in Hx. discriminate.
    + right. now left.
  - intros m s1 nx rest disc fin Hok1 Hg1 K Ed. rewrite E0 in Hg1. now apply K_discover.
  - intros m s1 nx rest disc fin _ _ K Ed Ef. now apply (K_pop m s1 nx).
  - intros m s1 s2 nx rest disc fin _ Hok1 Hg1 K Ed Ef Hst. rewrite E0 in Hg1. now apply (K_step m s1 s2 nx).
  - (* the closed set *)
    pose proof (co_inv _ _ _ (proj1 Hok3)) as HI3.
    exists (fun x => sg_alive (ls_g s3) x = true /\
                     (In x fin \/ sg_alive g0 x = false \/ in_tab s3 x \/ is_leafL (ls_g s3) x)).
    assert (Hdf : forall x, In x disc -> In x fin).
    { intros x Hx. destruct (k_disc _ _ _ _ _ K x Hx) as [H|[]]. exact H. }
    assert (Hcov : forall c, cov s3 [] disc c -> In c fin \/ sg_alive g0 c = false \/ in_tab s3 c \/ is_leafL (ls_g s3) c).
    { intros c [H|[[]|[H|[H|H]]]]; [left; now apply Hdf|right; now left|right; right; now left|right; right; now right]. }
    split; [|split].
    + split; [exact (grow_alive _ _ root Hg3 Hr)|]. left. destruct (k_root _ _ _ _ _ K) as [H|[]]. now apply Hdf.
    + intros x c [Hax Hx] Hc. split; [exact (proj2 (out_alive _ x c (proj1 HI3) Hc))|].
      destruct Hx as [Hx|[Hx|[[f Hf]|[t [Hl Ht]]]]].
      * apply Hcov. apply (k_cov _ _ _ _ _ K x c); [left; exact (k_fin _ _ _ _ _ K x Hx)|exact Hc].
      * apply Hcov. apply (k_cov _ _ _ _ _ K x c); [now right|exact Hc].
      * destruct (proj2 Hok3 f x Hf) as [_ [_ [n [p [Ho [Hn Hp]]]]]]. rewrite Ho in Hc.
        right. right. right. destruct Hc as [<-|[<-|[]]]; eexists; (split; [eassumption|reflexivity]).
      * destruct (srcs_out_gate _ x c (co_src _ _ _ (proj1 Hok3) eq_refl) Hc) as [t' [Hl' Hgt]].
        rewrite Hl in Hl'. injection Hl' as <-. congruence.
    + intros x [Hax Hx] Hl. destruct Hx as [Hx|[Hx|[[f Hf]|[t [Hl' Ht]]]]].
      * exact (k_smooth _ _ _ _ _ K x Hx Hl).
      * destruct (k_newor _ _ _ _ _ K x Hx Hl) as [f Hf]. exact (tri_smooth _ f x (proj2 Hok3 f x Hf)).
      * exact (tri_smooth _ f x (proj2 Hok3 f x Hf)).
      * rewrite Hl in Hl'. injection Hl' as <-. discriminate.
Qed.
End Cover.

(* ---------- to the vector ---------- *)
Lemma iso_closed g root order C (S : nat -> Prop) : iso g root order C -> S root ->
  (forall x c, S x -> In c (sg_out g x) -> S c) -> forall x, In x order -> S x.
Proof.
  intros HI Hr Hcl.
  assert (H : forall k j, j < length order -> length order - j <= k -> S (nth j order 0)).
  { induction k as [|k IH]; intros j Hj Hk; [lia|].
    assert (Hin : In (nth j order 0) order) by (apply nth_In; exact Hj).
    destruct (is_parent _ _ _ _ HI _ Hin) as [->|[p [Hp [Hxp [t [Hlp Hgt]]]]]]; [exact Hr|].
    destruct (In_nth _ _ 0 Hp) as [jp [Hjp Ejp]].
    assert (HjpC : jp < length C) by (rewrite (is_len _ _ _ _ HI); exact Hjp).
    destruct (is_node _ _ _ _ HI jp HjpC) as [t' [cs [Hl' [_ HF]]]]. rewrite Ejp in Hl', HF.
    assert (t' = t) by congruence. subst t'.
    destruct (Forall2_In_l _ _ _ _ HF Hxp) as [c [_ [Hc [_ Hlt]]]]. specialize (Hlt Hgt).
    assert (c = j) by (apply (nth_order_inj g root order C HI); [lia|exact Hj|exact Hc]). subst c.
    apply (Hcl p); [|exact Hxp]. rewrite <- Ejp. apply IH; [exact Hjp|lia]. }
  intros x Hx. destruct (In_nth _ _ 0 Hx) as [j [Hj <-]]. apply (H (length order) j Hj). lia.
Qed.

Lemma incl_inclb a b : incl a b -> inclb a b = true.
Proof.
  intros H. unfold inclb. apply forallb_forall. intros v Hv. unfold memZ. apply existsb_exists.
  exists v. split; [now apply H|apply Z.eqb_refl].
Qed.

Theorem iso_smooth g root order C : iso g root order C ->
  (forall x, In x order -> sg_label g x = Some GOr -> smooth_at g x) -> smooth C = true.
Proof.
  intros HI Hs. unfold smooth. apply forallb_forall. intros nd Hnd.
  destruct (In_nth _ _ FalseN Hnd) as [j [Hj <-]].
  destruct (is_node _ _ _ _ HI j Hj) as [t [cs [Hl [E H]]]]. rewrite E.
  destruct t; cbn [flat_node smooth_node]; try reflexivity.
  pose proof (iso_pass g root order C HI vars_node [] hvars vars_node_local vars_bridge) as Hv. fold (varss C) in Hv.
  assert (Hin : In (nth j order 0) order) by (apply nth_In; rewrite <- (is_len _ _ _ _ HI); exact Hj).
  assert (Hvs : Forall2 (GVs g) (sg_out g (nth j order 0)) (map (fun c => nth c (varss C) []) cs)).
  { clear E. induction H as [|y c ys cs0 [Hy [_ Hlt]] _ IH]; cbn [map]; constructor; [|exact IH].
    rewrite <- Hy. apply Hv. specialize (Hlt eq_refl). lia. }
  apply forallb_forall. intros c Hc. apply incl_inclb.
  apply (Hs _ Hin Hl _ Hvs). apply in_map_iff. now exists c.
Qed.

(* ---------- no or node has a duplicate child before the third traversal ---------- *)
Definition or_nodup (g : sgraph) : Prop := forall x, sg_label g x = Some GOr -> NoDup (sg_out g x).

Lemma or_nodup_rep {P : Z -> Prop} {st : bool} toks n n0 b : d4_conform toks n = true -> rep P st n0 toks b ->
  or_nodup (ls_g (bs_ls b)).
Proof.
  intros Hconf HR x Hl.
  destruct (rp_class _ _ _ _ _ HR x _ Hl) as [Hin|[[l E]|E]]; try discriminate.
  destruct (idx_range toks n0 b HR x Hin) as [i [Hi Hx]].
  destruct (cf_kind toks i Hi) as [kd Hkd]. pose proof Hkd as Hkd'. unfold kind in Hkd'.
  destruct (Forall2_nth_error_l _ _ _ _ _ (rp_decl _ _ _ _ _ HR) Hkd') as [x' [Hx' Hlx]].
  assert (x' = x) by congruence. subst x'.
  assert (kd = KOr) by (destruct kd; cbn [tid_of_kind] in Hlx; congruence). subst kd.
  pose proof (or_ok_nodup toks i (cf_or toks n Hconf i Hi Hkd)) as Hnd.
  pose proof (rp_ndout _ _ _ _ _ HR (i - 1) x Hx) as H. replace (S (i - 1)) with i in H by lia.
  exact (H Hnd).
Qed.

Lemma or_nodup_free {P : Z -> Prop} {st : bool} s root1 s1 : free_result s root1 s1 -> lprov s s1 [root1] ->
  tables_ok P st s1 -> or_nodup (ls_g s) -> or_nodup (ls_g s1).
Proof.
  intros [[_ ->]|[Hd [Hl1 [He _]]]] Hprov Hok H0 x Hl; [now apply H0|].
  destruct (Hprov x _ Hl) as [H|[[l E]|[[_ [f Hf]]|[E _]]]]; try discriminate.
  - assert (Ha : sg_alive (ls_g s) x = true) by (unfold sg_alive; now rewrite H).
    rewrite (ex_out _ _ _ He x Ha) by (intros []). now apply H0.
  - destruct (proj2 Hok f x Hf) as [Hf1 [_ [n [p [Ho [Hn Hp]]]]]]. rewrite Ho.
    constructor; [|constructor; [intros []|constructor]]. intros [E|[]]. subst p.
    rewrite Hn in Hp. injection Hp as Hp. lia.
Qed.

Lemma or_nodup_shrink g g' : step_ok g g' -> or_nodup g -> or_nodup g'.
Proof.
  intros Hs H0 x Hl.
  apply (sublist_NoDup _ (sg_out g x)); [exact (s2_sub _ _ (so_s2 _ _ Hs) x)|]. apply H0.
  apply (shrink_label_back g g' x GOr (so_sh _ _ Hs) Hl). discriminate.
Qed.
