(* C02: the marking phase (counting/marking.rs mark_assumptions / mark_nodes).
   Result: after marking from a state satisfying the invariant, the marked set is upward closed,
   md holds only marked inner nodes, every marked node is in md or among the start indexes. *)
From Coq Require Import List ZArith Bool Lia.
From DD Require Import Model.Circuit Model.Query Proofs.PassLemmas Proofs.Semantics
  Proofs.CountsA Proofs.QueryDefs Proofs.C02Basics.
Import ListNotations.
Open Scope Z_scope.

Section Marking.
Variables (C : circuit) (n : nat).
Hypothesis Hok : idx_ok C = true.
Notation d := (build C n).

(* inner node = node with at least one child *)
Definition Inner (i : nat) : Prop := exists c, In c (children (nth i C FalseN)).

Lemma Inner_lt i : Inner i -> (i < length C)%nat.
Proof.
  intros [c Hc]. destruct (Nat.lt_ge_cases i (length C)) as [H|H]; [exact H|].
  rewrite nth_overflow in Hc by exact H. destruct Hc.
Qed.

(* upward closure except on the gray set G *)
Definition Closed (ms : list bool) (G : nat -> Prop) : Prop :=
  forall j p, nth j ms false = true -> ~ G j ->
              In j (children (nth p C FalseN)) -> nth p ms false = true.

Definition mono (ms ms' : list bool) : Prop :=
  forall j, nth j ms false = true -> nth j ms' false = true.

Lemma mono_refl ms : mono ms ms.
Proof. intros j H. exact H. Qed.
Lemma mono_trans ms1 ms2 ms3 : mono ms1 ms2 -> mono ms2 ms3 -> mono ms1 ms3.
Proof. intros H1 H2 j H. apply H2, H1, H. Qed.

Lemma mono_upd ms i : mono ms (upd i true ms).
Proof.
  intros j H. destruct (Nat.eq_dec i j) as [->|Hne].
  - rewrite nth_upd_eq; [reflexivity|].
    destruct (Nat.lt_ge_cases j (length ms)) as [Hl|Hl]; [exact Hl|].
    rewrite nth_overflow in H by exact Hl. discriminate H.
  - now rewrite nth_upd_neq.
Qed.

Variable X : nat -> Prop.   (* the start indexes (leaves whose temp is zeroed) *)

Definition MInv (ms : list bool) (md : list nat) (G : nat -> Prop) : Prop :=
  length ms = length C /\
  (forall j, In j md -> nth j ms false = true /\ Inner j) /\
  (forall j, nth j ms false = true -> In j md \/ X j) /\
  Closed ms G.

(* the loop over the parents, for an arbitrary recursive call F satisfying the specification *)
Lemma fold_marks_spec
  (F : nat -> list bool * list nat -> list bool * list nat) (G : nat -> Prop) (Q : nat -> Prop)
  (HF : forall p ms md, Q p -> MInv ms md G ->
        MInv (fst (F p (ms, md))) (snd (F p (ms, md))) G /\
        mono ms (fst (F p (ms, md))) /\ nth p (fst (F p (ms, md))) false = true) :
  forall ps ms md, (forall p, In p ps -> Q p) -> MInv ms md G ->
  let st' := fold_left (fun st' p => if nth p (fst st') false then st' else F p st') ps (ms, md) in
  MInv (fst st') (snd st') G /\ mono ms (fst st') /\
  forall p, In p ps -> nth p (fst st') false = true.
Proof.
  induction ps as [|a ps IH]; intros ms md HQ HI.
  - cbn. split; [exact HI|]. split; [apply mono_refl|intros p []].
  - cbn [fold_left fst]. destruct (nth a ms false) eqn:Ea.
    + destruct (IH ms md (fun p Hp => HQ p (or_intror Hp)) HI) as [H1 [H2 H3]].
      split; [exact H1|]. split; [exact H2|].
      intros p [<-|Hp]; [now apply H2|now apply H3].
    + destruct (HF a ms md (HQ a (or_introl eq_refl)) HI) as [F1 [F2 F3]].
      destruct (F a (ms, md)) as [ms1 md1] eqn:EF. cbn [fst snd] in F1, F2, F3.
      destruct (IH ms1 md1 (fun p Hp => HQ p (or_intror Hp)) F1) as [H1 [H2 H3]].
      split; [exact H1|]. split; [eapply mono_trans; eassumption|].
      intros p [<-|Hp]; [now apply H2|now apply H3].
Qed.

(* marking node i: the invariant after setting the marker, with i added to the gray set *)
Lemma MInv_mark ms md G i :
  MInv ms md G -> Inner i ->
  MInv (upd i true ms) (md ++ [i]) (fun j => G j \/ j = i).
Proof.
  intros [HL [Hmd [Hmk Hcl]]] Hin. pose proof (Inner_lt i Hin) as Hi.
  split; [now rewrite upd_length|]. split; [|split].
  - intros j Hj. apply in_app_iff in Hj. destruct Hj as [Hj|[<-|[]]].
    + destruct (Hmd j Hj) as [H1 H2]. split; [now apply mono_upd|exact H2].
    + split; [apply nth_upd_eq; lia|exact Hin].
  - intros j Hj. destruct (Nat.eq_dec i j) as [->|Hne].
    + left. apply in_app_iff. right. now left.
    + rewrite nth_upd_neq in Hj by exact Hne. destruct (Hmk j Hj) as [H|H]; [|now right].
      left. apply in_app_iff. now left.
  - intros j p Hj HG Hc. apply mono_upd.
    assert (Hne : i <> j) by (intros ->; apply HG; now right).
    rewrite nth_upd_neq in Hj by exact Hne.
    apply (Hcl j p Hj); [|exact Hc]. intros HGj. apply HG. now left.
Qed.

Lemma MInv_mark_start ms md G i :
  MInv ms md G -> (i < length C)%nat -> X i ->
  MInv (upd i true ms) md (fun j => G j \/ j = i).
Proof.
  intros [HL [Hmd [Hmk Hcl]]] Hi HX.
  split; [now rewrite upd_length|]. split; [|split].
  - intros j Hj. destruct (Hmd j Hj) as [H1 H2]. split; [now apply mono_upd|exact H2].
  - intros j Hj. destruct (Nat.eq_dec i j) as [->|Hne]; [now right|].
    rewrite nth_upd_neq in Hj by exact Hne. now apply Hmk.
  - intros j p Hj HG Hc. apply mono_upd.
    assert (Hne : i <> j) by (intros ->; apply HG; now right).
    rewrite nth_upd_neq in Hj by exact Hne.
    apply (Hcl j p Hj); [|exact Hc]. intros HGj. apply HG. now left.
Qed.

(* once all parents of i are marked, i leaves the gray set *)
Lemma MInv_ungray ms md G i :
  MInv ms md (fun j => G j \/ j = i) ->
  (forall p, In p (nth i (parents C) []) -> nth p ms false = true) ->
  (i < length C)%nat ->
  MInv ms md G.
Proof.
  intros [HL [Hmd [Hmk Hcl]]] Hpar Hi. split; [exact HL|]. split; [exact Hmd|]. split; [exact Hmk|].
  intros j p Hj HG Hc. destruct (Nat.eq_dec j i) as [->|Hne].
  - apply Hpar. apply parents_spec; [exact Hi|]. split; [|exact Hc].
    apply Inner_lt. now exists i.
  - apply (Hcl j p Hj); [|exact Hc]. intros [H|H]; [now apply HG|contradiction].
Qed.

Lemma parent_facts i p : (i < length C)%nat -> In p (nth i (parents C) []) ->
  Inner p /\ (i < p)%nat.
Proof.
  intros Hi Hp. apply parents_spec in Hp; [|exact Hi]. destruct Hp as [Hp Hc].
  split; [now exists i|]. now apply (idx_ok_nth C p FalseN Hok Hp i Hc).
Qed.

Lemma mark_nodes_spec : forall fuel i ms md G,
  Inner i -> (length C <= i + fuel)%nat -> MInv ms md G ->
  MInv (fst (mark_nodes d fuel i (ms, md))) (snd (mark_nodes d fuel i (ms, md))) G /\
  mono ms (fst (mark_nodes d fuel i (ms, md))) /\
  nth i (fst (mark_nodes d fuel i (ms, md))) false = true.
Proof.
  induction fuel as [|f IH]; intros i ms md G Hin Hfuel HI.
  - apply Inner_lt in Hin. lia.
  - pose proof (Inner_lt i Hin) as Hi.
    cbn [mark_nodes fst snd pars build].
    pose proof (MInv_mark ms md G i HI Hin) as HI0.
    destruct (fold_marks_spec (mark_nodes d f) (fun j => G j \/ j = i)
                (fun p => Inner p /\ (length C <= p + f)%nat)
                (fun p ms' md' HQ HI' => IH p ms' md' _ (proj1 HQ) (proj2 HQ) HI')
                (nth i (parents C) []) (upd i true ms) (md ++ [i])) as [H1 [H2 H3]].
    + intros p Hp. destruct (parent_facts i p Hi Hp) as [Hp1 Hp2]. split; [exact Hp1|lia].
    + exact HI0.
    + split; [|split].
      * apply (MInv_ungray _ _ G i); [exact H1|exact H3|exact Hi].
      * eapply mono_trans; [apply mono_upd|exact H2].
      * apply H2. apply nth_upd_eq. destruct HI as [HL _]. lia.
Qed.

Definition NoG : nat -> Prop := fun _ => False.

Lemma mark_nodes_start_spec i ms md :
  (i < length C)%nat -> X i -> MInv ms md NoG ->
  MInv (fst (mark_nodes_start d i (ms, md))) (snd (mark_nodes_start d i (ms, md))) NoG /\
  mono ms (fst (mark_nodes_start d i (ms, md))) /\
  nth i (fst (mark_nodes_start d i (ms, md))) false = true.
Proof.
  intros Hi HX HI. unfold mark_nodes_start. cbn [fst snd pars build circ].
  pose proof (MInv_mark_start ms md NoG i HI Hi HX) as HI0.
  destruct (fold_marks_spec (mark_nodes d (length C)) (fun j => NoG j \/ j = i)
              (fun p => Inner p /\ (length C <= p + length C)%nat)
              (fun p ms' md' HQ HI' => mark_nodes_spec (length C) p ms' md' _ (proj1 HQ) (proj2 HQ) HI')
              (nth i (parents C) []) (upd i true ms) md) as [H1 [H2 H3]].
  - intros p Hp. destruct (parent_facts i p Hi Hp) as [Hp1 Hp2]. split; [exact Hp1|lia].
  - exact HI0.
  - split; [|split].
    + apply (MInv_ungray _ _ NoG i); [exact H1|exact H3|exact Hi].
    + eapply mono_trans; [apply mono_upd|exact H2].
    + apply H2. apply nth_upd_eq. destruct HI as [HL _]. lia.
Qed.

Lemma mark_all_spec : forall idxs ms md,
  (forall i, In i idxs -> (i < length C)%nat /\ X i) -> MInv ms md NoG ->
  let st' := fold_left (fun st idx => mark_nodes_start d idx st) idxs (ms, md) in
  MInv (fst st') (snd st') NoG /\ mono ms (fst st') /\
  forall i, In i idxs -> nth i (fst st') false = true.
Proof.
  induction idxs as [|a idxs IH]; intros ms md HX HI.
  - cbn. split; [exact HI|]. split; [apply mono_refl|intros i []].
  - cbn [fold_left].
    destruct (HX a (or_introl eq_refl)) as [Ha HXa].
    destruct (mark_nodes_start_spec a ms md Ha HXa HI) as [F1 [F2 F3]].
    destruct (mark_nodes_start d a (ms, md)) as [ms1 md1] eqn:EF. cbn [fst snd] in F1, F2, F3.
    destruct (IH ms1 md1 (fun i Hi => HX i (or_intror Hi)) F1) as [H1 [H2 H3]].
    split; [exact H1|]. split; [eapply mono_trans; eassumption|].
    intros i [<-|Hi]; [now apply H2|now apply H3].
Qed.

(* mark_assumptions as two independent folds *)
Lemma fold_pair_split {T S} (f : T -> nat -> T) (g : nat -> S -> S) (l : list nat) (t : T) (s : S) :
  fold_left (fun (acc : T * S) idx => let '(ts, st) := acc in (f ts idx, g idx st)) l (t, s) =
  (fold_left f l t, fold_left (fun st idx => g idx st) l s).
Proof.
  revert t s. induction l as [|a l IH]; intros t s; [reflexivity|].
  cbn [fold_left]. apply IH.
Qed.

Lemma mark_assumptions_eq idxs s :
  mark_assumptions d idxs s =
  {| temps := fold_left (fun ts idx => upd idx 0 ts) idxs (temps s);
     marks := fst (fold_left (fun st idx => mark_nodes_start d idx st) idxs (marks s, mdl s));
     pds := pds s;
     mdl := sort_nat (snd (fold_left (fun st idx => mark_nodes_start d idx st) idxs (marks s, mdl s))) |}.
Proof.
  unfold mark_assumptions.
  rewrite (fold_pair_split (fun ts idx => upd idx 0 ts) (mark_nodes_start d) idxs (temps s) (marks s, mdl s)).
  destruct (fold_left (fun st idx => mark_nodes_start d idx st) idxs (marks s, mdl s)) as [ms md].
  reflexivity.
Qed.

(* the state after mark_assumptions from a clean state *)
Lemma mark_assumptions_spec idxs s :
  Clean C s -> (forall i, In i idxs -> (i < length C)%nat /\ X i) ->
  let s1 := mark_assumptions d idxs s in
  length (temps s1) = length C /\ pds s1 = pds s /\
  (forall i, In i idxs -> nth i (temps s1) 0 = 0) /\
  (forall i, In i idxs -> nth i (marks s1) false = true) /\
  asc (mdl s1) /\ MInv (marks s1) (mdl s1) NoG.
Proof.
  intros HC HX. rewrite mark_assumptions_eq. cbn [temps marks pds mdl].
  assert (HI : MInv (marks s) (mdl s) NoG).
  { split; [apply HC|]. split; [|split].
    - rewrite (cl_md C s HC). intros j [].
    - intros j Hj. rewrite (Forall_false_nth _ j (cl_unmarked C s HC)) in Hj. discriminate Hj.
    - intros j p Hj. rewrite (Forall_false_nth _ j (cl_unmarked C s HC)) in Hj. discriminate Hj. }
  destruct (mark_all_spec idxs (marks s) (mdl s) HX HI) as [H1 [H2 H3]].
  split; [rewrite fold_upd_length; apply HC|]. split; [reflexivity|]. split; [|split; [exact H3|]].
  - intros i Hi. apply fold_upd_nth_in; [exact Hi|]. rewrite (cl_temps C s HC). now apply HX.
  - split; [apply sort_nat_asc|].
    destruct H1 as [HL [Hmd [Hmk Hcl]]]. split; [exact HL|]. split; [|split; [|exact Hcl]].
    + intros j Hj. apply Hmd. now apply sort_nat_in.
    + intros j Hj. destruct (Hmk j Hj) as [H|H]; [left; now apply sort_nat_in|now right].
Qed.

End Marking.
