(* Generic bottom-up evaluation on the StableGraph model: gfold h = value of a node computed from
   its label and the values of its children (in child-list order), fuelled; leaves do not look at
   their child list.  GF = "has the value".  Instances: feature sets, forced literals, counts.
   gf_transfer: values of kept nodes carry over from g to g' up to a relation R. *)
From Coq Require Import List ZArith Bool Lia Arith.
From DD Require Import Model.Circuit Model.LoadC2d Model.LoadD4 Proofs.LoadD4Graph Proofs.LoadD4Ops.
Import ListNotations.
Local Open Scope nat_scope.

Section Fold.
Context {A : Type}.
Variable h : tid -> list A -> A.

Fixpoint gfold (fuel : nat) (g : sgraph) (x : nat) : option A :=
  match fuel with
  | O => None
  | S f =>
    match sg_label g x with
    | None => None
    | Some t =>
      if is_gate t then option_map (h t) (map_opt (gfold f g) (sg_out g x))
      else Some (h t [])
    end
  end.

Definition GF (g : sgraph) (x : nat) (v : A) : Prop := exists f, gfold f g x = Some v.

Lemma gfold_mono g : forall f f' x v, f <= f' -> gfold f g x = Some v -> gfold f' g x = Some v.
Proof.
  induction f as [|f IH]; intros f' x v Hle H; [discriminate|].
  destruct f' as [|f']; [lia|]. cbn [gfold] in *.
  destruct (sg_label g x) as [t|]; [|discriminate]. destruct (is_gate t); [|exact H].
  destruct (map_opt (gfold f g) (sg_out g x)) as [vs|] eqn:E; [|discriminate].
  apply map_opt_Forall2_iff in E.
  assert (E' : map_opt (gfold f' g) (sg_out g x) = Some vs).
  { apply map_opt_Forall2_iff. eapply Forall2_impl; [|exact E]. intros c vc Hc. apply (IH f'); [lia|exact Hc]. }
  now rewrite E'.
Qed.

Lemma GF_det g x v v' : GF g x v -> GF g x v' -> v = v'.
Proof.
  intros [f Hf] [f' Hf'].
  pose proof (gfold_mono g f (Nat.max f f') x v (Nat.le_max_l _ _) Hf) as H1.
  pose proof (gfold_mono g f' (Nat.max f f') x v' (Nat.le_max_r _ _) Hf') as H2.
  congruence.
Qed.

Lemma GF_alive g x v : GF g x v -> sg_alive g x = true.
Proof.
  intros [[|f] Hf]; [discriminate|]. cbn [gfold] in Hf. unfold sg_alive.
  destruct (sg_label g x); [reflexivity|discriminate].
Qed.

Lemma GF_list g (l : list nat) (vs : list A) :
  Forall2 (GF g) l vs -> exists f, map_opt (gfold f g) l = Some vs.
Proof.
  induction 1 as [|x v l vs [f Hf] _ [f' IH]].
  - exists 0. reflexivity.
  - exists (Nat.max f f'). cbn [map_opt].
    rewrite (gfold_mono g f _ x v (Nat.le_max_l _ _) Hf).
    apply map_opt_Forall2_iff in IH.
    assert (E : map_opt (gfold (Nat.max f f') g) l = Some vs).
    { apply map_opt_Forall2_iff. eapply Forall2_impl; [|exact IH].
      intros c vc Hc. apply (gfold_mono g f'); [apply Nat.le_max_r|exact Hc]. }
    now rewrite E.
Qed.

Lemma GF_leaf g x t : sg_label g x = Some t -> is_gate t = false -> GF g x (h t []).
Proof. intros Hl Ht. exists 1. cbn [gfold]. now rewrite Hl, Ht. Qed.

Lemma GF_gate g x t vs : sg_label g x = Some t -> is_gate t = true ->
  Forall2 (GF g) (sg_out g x) vs -> GF g x (h t vs).
Proof.
  intros Hl Ht H. destruct (GF_list g _ _ H) as [f Hf]. exists (S f). cbn [gfold]. now rewrite Hl, Ht, Hf.
Qed.

Lemma GF_gate_inv g x t v : sg_label g x = Some t -> is_gate t = true -> GF g x v ->
  exists vs, Forall2 (GF g) (sg_out g x) vs /\ v = h t vs.
Proof.
  intros Hl Ht [[|f] Hf]; [discriminate|]. cbn [gfold] in Hf. rewrite Hl, Ht in Hf.
  destruct (map_opt _ _) as [vs|] eqn:E; [|discriminate]. injection Hf as <-.
  exists vs. split; [|reflexivity]. apply map_opt_Forall2_iff in E.
  eapply Forall2_impl; [|exact E]. intros c vc Hc. now exists f.
Qed.

Lemma GF_leaf_inv g x t v : sg_label g x = Some t -> is_gate t = false -> GF g x v -> v = h t [].
Proof. intros Hl Ht H. exact (GF_det _ _ _ _ H (GF_leaf g x t Hl Ht)). Qed.

(* a gate with an edge to itself has no value *)
Lemma gfold_self_loop g x t : sg_label g x = Some t -> is_gate t = true -> In x (sg_out g x) ->
  forall f, gfold f g x = None.
Proof.
  intros Hl Ht Hin. induction f as [|f IH]; [reflexivity|]. cbn [gfold]. rewrite Hl, Ht.
  assert (E : map_opt (gfold f g) (sg_out g x) = None).
  { destruct (map_opt _ _) as [vs|] eqn:E; [|reflexivity]. apply map_opt_Forall2_iff in E.
    destruct (Forall2_In_l_ex _ _ _ _ E Hin) as [y [_ Hy]]. congruence. }
  now rewrite E.
Qed.

(* the children of a gate that has a value have values *)
Lemma GF_child g x t v c : sg_label g x = Some t -> is_gate t = true -> GF g x v ->
  In c (sg_out g x) -> exists vc, GF g c vc.
Proof.
  intros Hl Ht Hv Hc. destruct (GF_gate_inv g x t v Hl Ht Hv) as [vs [Hvs _]].
  destruct (Forall2_In_l_ex _ _ _ _ Hvs Hc) as [vc [_ H]]. now exists vc.
Qed.

(* ---------- transfer up to a relation ---------- *)
Section Transfer.
Variables (g g' : sgraph) (keep : nat -> Prop) (R : A -> A -> Prop).
(* a kept node keeps its label, or becomes a leaf whose value is R-related to every old value *)
Hypothesis Hlabel : forall x, keep x -> sg_label g' x = sg_label g x \/
  (exists t', sg_label g' x = Some t' /\ is_gate t' = false /\ forall v, GF g x v -> R (h t' []) v).
Hypothesis Hleaf : forall t, is_gate t = false -> R (h t []) (h t []).
Hypothesis Hkids : forall x t vs, keep x -> sg_label g' x = Some t -> sg_label g x = Some t -> is_gate t = true ->
  Forall2 (fun c v => GF g c v /\ (keep c -> exists v', GF g' c v' /\ R v' v)) (sg_out g x) vs ->
  exists vs', Forall2 (GF g') (sg_out g' x) vs' /\ R (h t vs') (h t vs).

Lemma gf_transfer_fuel : forall f x v, keep x -> gfold f g x = Some v -> exists v', GF g' x v' /\ R v' v.
Proof.
  induction f as [|f IH]; intros x v Hk H; [discriminate|].
  destruct (Hlabel x Hk) as [Hl'|[t' [Hl' [Ht' HR]]]].
  2:{ exists (h t' []). split; [now apply GF_leaf|]. apply HR. now exists (S f). }
  cbn [gfold] in H.
  destruct (sg_label g x) as [t|] eqn:Hl; [|discriminate].
  destruct (is_gate t) eqn:Ht.
  - destruct (map_opt _ _) as [vs|] eqn:E; [|discriminate]. injection H as <-.
    apply map_opt_Forall2_iff in E.
    destruct (Hkids x t vs Hk Hl' Hl Ht) as [vs' [H1 H2]].
    { eapply Forall2_impl; [|exact E]. intros c vc Hc. split; [now exists f|]. intros Hkc. now apply IH. }
    exists (h t vs'). split; [now apply (GF_gate g' x t)|exact H2].
  - injection H as <-. exists (h t []). split; [now apply GF_leaf|now apply Hleaf].
Qed.

Lemma gf_transfer x v : keep x -> GF g x v -> exists v', GF g' x v' /\ R v' v.
Proof. intros Hk [f Hf]. now apply (gf_transfer_fuel f). Qed.
End Transfer.
End Fold.

(* ---------- the instances ---------- *)
(* features below a node (Circuit.vars_node) *)
Definition hvars (t : tid) (vs : list (list Z)) : list Z :=
  match t with GLit l => [Z.abs l] | GAnd | GOr => concat vs | _ => [] end.
(* forced literals (Circuit.forced_node) *)
Definition hforced (t : tid) (vs : list (list Z)) : list Z :=
  match t with
  | GLit l => [l]
  | GAnd => concat vs
  | GOr => match vs with [] => [] | v :: r => fold_left interZ r v end
  | _ => []
  end.
(* model counts (Circuit.count_node) *)
Definition hcount (t : tid) (vs : list Z) : Z :=
  match t with GLit _ => 1%Z | GAnd => zprod vs | GOr => zsum vs | GTrue => 1%Z | GFalse => 0%Z end.

(* a node has SOME value: the part of the graph below it is a DAG without vacant nodes *)
Definition hunit (t : tid) (vs : list unit) : unit := tt.
Definition GDef (g : sgraph) (x : nat) : Prop := GF hunit g x tt.

Lemma GF_GDef {A} (h : tid -> list A -> A) g : forall f x v, gfold h f g x = Some v -> gfold hunit f g x = Some tt.
Proof.
  induction f as [|f IH]; intros x v H; [discriminate|]. cbn [gfold] in *.
  destruct (sg_label g x) as [t|]; [|discriminate]. destruct (is_gate t); [|reflexivity].
  destruct (map_opt (gfold h f g) (sg_out g x)) as [vs|] eqn:E; [|discriminate].
  apply map_opt_Forall2_iff in E.
  assert (E' : map_opt (gfold hunit f g) (sg_out g x) = Some (map (fun _ => tt) vs)).
  { apply map_opt_Forall2_iff. clear H. induction E as [|c vc l vs Hc _ IHE]; cbn [map]; constructor; eauto. }
  now rewrite E'.
Qed.

Lemma GDef_GF {A} (h : tid -> list A -> A) g : forall f x, gfold hunit f g x = Some tt -> exists v, gfold h f g x = Some v.
Proof.
  induction f as [|f IH]; intros x H; [discriminate|]. cbn [gfold] in *.
  destruct (sg_label g x) as [t|]; [|discriminate]. destruct (is_gate t); [|eexists; reflexivity].
  destruct (map_opt (gfold hunit f g) (sg_out g x)) as [us|] eqn:E; [|discriminate].
  apply map_opt_Forall2_iff in E.
  assert (E' : exists vs, map_opt (gfold h f g) (sg_out g x) = Some vs).
  { clear H. induction E as [|c u l us Hc _ [vs IHE]]; [now exists []|].
    destruct u. destruct (IH c Hc) as [v Hv]. exists (v :: vs). cbn [map_opt]. now rewrite Hv, IHE. }
  destruct E' as [vs ->]. eexists. reflexivity.
Qed.
