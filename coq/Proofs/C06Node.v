(* C06, core lemma: enumerate_node with range (lo, hi) returns exactly the slice [lo, hi) of the
   node's full enumeration under the assumptions (in the order of enum_node). *)
From Coq Require Import List ZArith Bool Lia.
From DD Require Import Model.Circuit Model.Query Model.Enumerate
     Proofs.PassLemmas Proofs.Enum Proofs.Semantics Proofs.CountsA Proofs.Live Proofs.LiveCounts
     Proofs.C06Prefix.
Import ListNotations.
Open Scope Z_scope.

(* the full enumeration of node i under the assumptions A, in the code's order *)
Definition EO (A : cfg) (C : circuit) (i : nat) : list cfg :=
  filter (okA A) (nth i (enums C) []).

(* what enumerate_node needs from the temps: exact counts under A on every REACHABLE node (the
   root, the children of reachable nodes with a non-zero count: Proofs/Live.v) that is not a true
   node (true nodes are hidden / recomputed, their temp is irrelevant; enumerate_node never
   enters a branch below a node with count zero, where the temps may be stale: Proofs/ExecTemps.v) *)
Definition temps_ok (A : cfg) (C : circuit) (ts : list Z) : Prop :=
  forall i, (i < length C)%nat -> nth i C FalseN <> TrueN -> Reach C i ->
            nth i ts 0 = nth i (countsA A C) 0.

(* no Or node has a true node as a child (a hidden true child would lose its configuration);
   holds for every loader output: true nodes only occur below And nodes *)
Definition is_TrueN (nd : ntype) : bool := match nd with TrueN => true | _ => false end.
Definition or_no_true_child (C : circuit) : bool :=
  forallb (fun nd => match nd with
                     | Or cs => forallb (fun c => negb (is_TrueN (nth c C FalseN))) cs
                     | _ => true
                     end) C.

Lemma is_TrueN_spec nd : is_TrueN nd = true <-> nd = TrueN.
Proof. destruct nd; cbn; split; congruence. Qed.

(* ---------- true_nodes ---------- *)
Lemma true_nodes_from_In (C : circuit) k x :
  In x (true_nodes_from k C) <->
  exists j, x = (k + j)%nat /\ (j < length C)%nat /\ nth j C FalseN = TrueN.
Proof.
  revert k. induction C as [|nd C IH]; intros k.
  - cbn. split; [tauto|]. intros (j & _ & Hj & _). lia.
  - assert (Hrec : In x (true_nodes_from (S k) C) <->
                   exists j, x = (k + S j)%nat /\ (S j < length (nd :: C))%nat /\
                             nth (S j) (nd :: C) FalseN = TrueN).
    { rewrite IH. split; intros (j & H1 & H2 & H3); exists j; cbn in *; repeat split; auto; lia. }
    assert (Hgoal : (exists j, x = (k + j)%nat /\ (j < length (nd :: C))%nat /\
                               nth j (nd :: C) FalseN = TrueN) <->
                    (x = k /\ nd = TrueN) \/
                    exists j, x = (k + S j)%nat /\ (S j < length (nd :: C))%nat /\
                              nth (S j) (nd :: C) FalseN = TrueN).
    { split.
      - intros ([|j] & H1 & H2 & H3); [left; cbn in H3; split; [lia|exact H3]|right; now exists j].
      - intros [[H1 H2]|(j & H)]; [exists 0%nat; cbn; repeat split; [lia|lia|exact H2]|now exists (S j)]. }
    rewrite Hgoal, <- Hrec.
    destruct nd; cbn [true_nodes_from In]; split; intros H; try (now right);
      try (destruct H as [[_ H]|H]; [discriminate|exact H]).
    + destruct H as [H|H]; [left; split; [lia|reflexivity]|now right].
    + destruct H as [[H _]|H]; [left; lia|now right].
Qed.

Lemma is_true_node_spec (d : ddnnf) c :
  is_true_node d c = true <-> (c < length (circ d))%nat /\ nth c (circ d) FalseN = TrueN.
Proof.
  unfold is_true_node, true_nodes. rewrite existsb_exists. split.
  - intros (x & Hx & He). apply Nat.eqb_eq in He. subst x.
    apply true_nodes_from_In in Hx. destruct Hx as (j & -> & H1 & H2). cbn. auto.
  - intros [H1 H2]. exists c. split; [|apply Nat.eqb_refl].
    apply true_nodes_from_In. exists c. cbn. auto.
Qed.

(* ---------- the unfolding equation of enumerate_node in terms of the two loops ---------- *)
Lemma enumerate_node_S d ts f lo hi i :
  enumerate_node d ts (S f) lo hi i =
  if (hi =? 0) || (nth i ts 0 =? 0) then []
  else match nth i (circ d) FalseN with
       | And cs =>
         slice lo hi (prod (rev (fst (fold_left
           (and_step (is_true_node d) (fun c => nth c ts 0)
                     (fun m c => enumerate_node d ts f 0 m c) hi) cs ([], 1)))))
       | Or cs =>
         slice lo hi (fst (fst (fold_left
           (or_step (fun c => nth c ts 0) (fun m c => enumerate_node d ts f 0 m c) hi)
           cs ([], 0, false))))
       | Lit l => [[l]]
       | _ => []
       end.
Proof.
  cbn [enumerate_node]. destruct ((hi =? 0) || (nth i ts 0 =? 0)); [reflexivity|].
  destruct (nth i (circ d) FalseN) as [l|cs|cs| |]; try reflexivity.
  - unfold and_step. destruct (fold_left _ cs ([], 1)) as [a b]. reflexivity.
  - unfold or_step. destruct (fold_left _ cs ([], 0, false)) as [[a b] c]. reflexivity.
Qed.

Lemma enumerate_node_hi0 d ts f lo i : enumerate_node d ts f lo 0 i = [].
Proof. destruct f; reflexivity. Qed.

(* ---------- EO: unfolding ---------- *)
Section Node.
Variables (d : ddnnf) (A : cfg) (ts : list Z).
Let C := circ d.
Hypothesis Hok : idx_ok C = true.
Hypothesis Hts : temps_ok A C ts.

Lemma EO_length i : (i < length C)%nat ->
  Z.of_nat (length (EO A C i)) = nth i (countsA A C) 0.
Proof. intros Hi. unfold EO. now rewrite countsA_filter. Qed.

Lemma EO_And i cs : (i < length C)%nat -> nth i C FalseN = And cs ->
  EO A C i = prod (rev (map (EO A C) cs)).
Proof.
  intros Hi E. unfold EO at 1. rewrite (enums_unfold C Hok i Hi), E. cbn [enum_node].
  rewrite filter_prod; [|reflexivity|apply okA_app].
  now rewrite <- map_rev, map_map, map_rev.
Qed.

Lemma EO_Or i cs : (i < length C)%nat -> nth i C FalseN = Or cs ->
  EO A C i = concat (map (EO A C) cs).
Proof.
  intros Hi E. unfold EO at 1. rewrite (enums_unfold C Hok i Hi), E. cbn [enum_node].
  now rewrite filter_concat, map_map.
Qed.

Lemma EO_True i : (i < length C)%nat -> nth i C FalseN = TrueN -> EO A C i = [[]].
Proof. intros Hi E. unfold EO. now rewrite (enums_unfold C Hok i Hi), E. Qed.

Lemma EO_Lit i l : (i < length C)%nat -> nth i C FalseN = Lit l ->
  EO A C i = if memZ (- l) A then [] else [[l]].
Proof.
  intros Hi E. unfold EO. rewrite (enums_unfold C Hok i Hi), E. cbn [enum_node filter okA forallb].
  destruct (memZ (- l) A); reflexivity.
Qed.

Lemma EO_False i : (i < length C)%nat -> nth i C FalseN = FalseN -> EO A C i = [].
Proof. intros Hi E. unfold EO. now rewrite (enums_unfold C Hok i Hi), E. Qed.

Lemma zprod_nonzero_in l x : zprod l <> 0 -> In x l -> x <> 0.
Proof.
  induction l as [|y l IH]; intros Hp Hin; [destruct Hin|].
  rewrite zprod_cons in Hp. destruct Hin as [->|Hin]; [nia|]. apply IH; [nia|exact Hin].
Qed.

(* ---------- the core lemma ---------- *)
Hypothesis Hor : or_no_true_child C = true.

Lemma or_children_not_true i cs c :
  (i < length C)%nat -> nth i C FalseN = Or cs -> In c cs -> nth c C FalseN <> TrueN.
Proof.
  intros Hi E Hc. unfold or_no_true_child in Hor. rewrite forallb_forall in Hor.
  specialize (Hor _ (node_in C i Hi)). rewrite E in Hor. rewrite forallb_forall in Hor.
  specialize (Hor c Hc). apply negb_true_iff in Hor. intros Ht.
  apply is_TrueN_spec in Ht. congruence.
Qed.

Definition node_spec (i : nat) : Prop :=
  nth i C FalseN <> TrueN -> Reach C i ->
  forall fuel lo hi, (i < fuel)%nat -> 0 <= lo < hi -> hi <= Z.of_nat (length (EO A C i)) ->
    enumerate_node d ts fuel lo hi i = slice lo hi (EO A C i).

(* a child called with range (0, m) *)
Lemma child_call c f m :
  (c < length C)%nat -> node_spec c -> nth c C FalseN <> TrueN -> Reach C c -> (c < f)%nat ->
  0 <= m <= nth c ts 0 ->
  enumerate_node d ts f 0 m c = firstn (Z.to_nat m) (EO A C c).
Proof.
  intros Hc IH Hnt HR Hf Hm.
  assert (Hl : nth c ts 0 = Z.of_nat (length (EO A C c))) by (rewrite EO_length, Hts; auto).
  destruct (Z.eq_dec m 0) as [->|Hm0]; [now rewrite enumerate_node_hi0|].
  rewrite IH; [apply slice_0|exact Hnt|exact HR|exact Hf|lia|lia].
Qed.

Lemma node_step i : (i < length C)%nat ->
  (forall c, In c (children (nth i C FalseN)) -> node_spec c) -> node_spec i.
Proof.
  intros Hi IH Hnt HR fuel lo hi Hf Hr Hhi.
  destruct fuel as [|f]; [lia|]. rewrite enumerate_node_S.
  assert (Hti : nth i ts 0 = Z.of_nat (length (EO A C i))) by (rewrite EO_length, Hts; auto).
  assert (Hcnti : nth i ts 0 = nth i (countsA A C) 0) by (apply Hts; auto).
  assert (HRc : forall c, In c (children (nth i C FalseN)) -> Reach C c).
  { intros c Hc. apply (reach_child C i c HR Hi); [|exact Hc].
    apply (count_of_countsA_nonzero C Hok A i Hi). rewrite <- Hcnti. lia. }
  assert (Hchild : forall c, In c (children (nth i C FalseN)) -> (c < i)%nat)
    by (apply (idx_ok_nth C i FalseN Hok Hi)).
  replace (hi =? 0) with false by (symmetry; apply Z.eqb_neq; lia).
  replace (nth i ts 0 =? 0) with false by (symmetry; apply Z.eqb_neq; lia).
  cbn [orb]. fold C.
  destruct (nth i C FalseN) as [l|cs|cs| |] eqn:E; cbn [children] in *.
  - (* literal *)
    rewrite (EO_Lit i l Hi E) in *. destruct (memZ (- l) A); cbn [length] in Hhi; [lia|].
    assert (lo = 0) by lia. assert (hi = 1) by lia. subst. reflexivity.
  - (* and *)
    rewrite (EO_And i cs Hi E). apply slice_firstn_eq; [lia|].
    apply and_loop_prefix. intros c Hc. unfold child_ok.
    assert (Hci : (c < i)%nat) by now apply Hchild.
    destruct (is_true_node d c) eqn:Et.
    + apply is_true_node_spec in Et. now apply EO_True.
    + assert (Hcnt : nth c C FalseN <> TrueN).
      { intros Ht. assert (is_true_node d c = true); [|congruence].
        apply is_true_node_spec. split; [fold C; lia|exact Ht]. }
      assert (Hl : nth c ts 0 = Z.of_nat (length (EO A C c)))
        by (rewrite EO_length, Hts; auto; lia).
      split; [|split; [exact Hl|]].
      * (* the child has a configuration because the product is non-zero *)
        intros Hnil. rewrite Hnil in Hl. cbn [length] in Hl.
        assert (Hp : nth i (countsA A C) 0 <> 0) by (rewrite <- Hcnti; lia).
        rewrite (countsA_unfold A C i 0 Hok Hi), E in Hp. cbn [countA_node] in Hp.
        apply (zprod_nonzero_in _ (nth c (countsA A C) 0)) in Hp;
          [|apply in_map_iff; now exists c].
        rewrite <- Hts in Hp; auto; lia.
      * intros m Hm. apply child_call; auto; lia.
  - (* or *)
    rewrite (EO_Or i cs Hi E). apply slice_firstn_eq; [lia|].
    apply or_loop_prefix. intros c Hc. unfold ochild_ok.
    assert (Hci : (c < i)%nat) by now apply Hchild.
    assert (Hcnt : nth c C FalseN <> TrueN) by (apply (or_children_not_true i cs c Hi E Hc)).
    split; [rewrite EO_length, Hts; auto; lia|].
    intros m Hm. apply child_call; auto; lia.
  - congruence.
  - rewrite (EO_False i Hi E) in Hhi. cbn [length] in Hhi. lia.
Qed.

Theorem enumerate_node_slice i : (i < length C)%nat -> node_spec i.
Proof. apply (idx_induction C node_spec Hok). exact node_step. Qed.

End Node.
