(* Second traversal of build_d4_ddnnf (true / false elimination, delete_parent_and_chain):
   nodes only disappear, the survivors keep their value under every total assignment and their
   label - except that an or node with a true child becomes a true node (repair F12), which is
   its value under every assignment (`shrink`).  And(..,T) = And(..), Or(..,F) = Or(..), an And with a F child is F and
   so is every And above it; an Or above loses a F child. *)
From Coq Require Import List ZArith Bool Lia Arith.
From DD Require Import Model.Circuit Model.LoadC2d Model.LoadD4 Proofs.LoadD4Graph Proofs.LoadD4Ops.
Import ListNotations.
Local Open Scope nat_scope.

Record shrink (g g' : sgraph) : Prop := {
  sh_label : forall x, sg_alive g' x = true ->
             sg_label g' x = sg_label g x \/ (sg_label g x = Some GOr /\ sg_label g' x = Some GTrue);
  (* leaves are never touched; an or node survives, possibly as a true node *)
  sh_keep : forall x t, sg_label g x = Some t -> t <> GAnd -> t <> GOr -> sg_label g' x = Some t;
  sh_or : forall x, sg_label g x = Some GOr -> sg_label g' x = Some GOr \/ sg_label g' x = Some GTrue;
  sh_val : forall s x b, sg_alive g' x = true -> GV g s x b -> GV g' s x b;
  (* a survivor whose children are all literal leaves keeps its label and its child list *)
  sh_out : forall x, sg_alive g' x = true ->
           (forall c, In c (sg_out g x) -> exists l, sg_label g c = Some (GLit l)) ->
           sg_label g' x = sg_label g x /\ sg_out g' x = sg_out g x
}.

Lemma shrink_refl g : shrink g g.
Proof. constructor; auto. Qed.

Lemma shrink_alive g g' x : shrink g g' -> sg_alive g' x = true -> sg_alive g x = true.
Proof.
  intros H Ha. unfold sg_alive in *. destruct (sh_label _ _ H x Ha) as [E|[E _]]; [now rewrite <- E|now rewrite E].
Qed.

Lemma shrink_trans g1 g2 g3 : shrink g1 g2 -> shrink g2 g3 -> shrink g1 g3.
Proof.
  intros H12 H23. constructor.
  - intros x Ha. pose proof (shrink_alive g2 g3 x H23 Ha) as Ha2.
    destruct (sh_label _ _ H23 x Ha) as [E23|[E2 E3]]; destruct (sh_label _ _ H12 x Ha2) as [E12|[E1 E2']].
    + left. congruence.
    + right. split; [exact E1|congruence].
    + right. split; congruence.
    + congruence.
  - intros x t Hl Ht Ht'. apply (sh_keep _ _ H23); [|exact Ht|exact Ht']. now apply (sh_keep _ _ H12).
  - intros x Hl. destruct (sh_or _ _ H12 x Hl) as [E|E].
    + exact (sh_or _ _ H23 x E).
    + right. apply (sh_keep _ _ H23 x _ E); discriminate.
  - intros s x b Ha Hv. apply (sh_val _ _ H23); [exact Ha|]. apply (sh_val _ _ H12); [|exact Hv].
    now apply (shrink_alive g2 g3).
  - intros x Ha Hc. destruct (sh_out _ _ H12 x (shrink_alive g2 g3 x H23 Ha) Hc) as [L12 E12].
    destruct (sh_out _ _ H23 x Ha) as [L23 E23].
    + rewrite E12. intros c Hin. destruct (Hc c Hin) as [l Hl]. exists l.
      apply (sh_keep _ _ H12 c _ Hl); discriminate.
    + split; congruence.
Qed.

(* ---------- lists ---------- *)
Lemma mem_In x l : mem x l = true <-> In x l.
Proof.
  unfold mem. rewrite existsb_exists. split.
  - intros [y [Hy E]]. apply Nat.eqb_eq in E. now subst.
  - intros H. exists x. split; [exact H|apply Nat.eqb_refl].
Qed.
Lemma mem_notIn x l : mem x l = false <-> ~ In x l.
Proof. rewrite <- mem_In. destruct (mem x l); split; congruence. Qed.

Lemma in_remove1_neq c c' l : c <> c' -> In c l -> In c (remove1 c' l).
Proof.
  intros Hne. induction l as [|y l IH]; [intros []|]. cbn [remove1].
  destruct (Nat.eqb_spec y c') as [->|Hy].
  - intros [E|H]; [congruence|exact H].
  - intros [<-|H]; [now left|right; now apply IH].
Qed.

Lemma remove1_notin c l : ~ In c l -> remove1 c l = l.
Proof.
  induction l as [|y l IH]; intros H; [reflexivity|]. cbn [remove1].
  destruct (Nat.eqb_spec y c) as [->|Hy]; [exfalso; apply H; now left|].
  f_equal. apply IH. intros Hin. apply H. now right.
Qed.

Lemma filter_all {A} (p : A -> bool) l : (forall x, In x l -> p x = true) -> filter p l = l.
Proof.
  induction l as [|x l IH]; intros H; [reflexivity|]. cbn [filter]. rewrite (H x (or_introl eq_refl)).
  f_equal. apply IH. intros y Hy. apply H. now right.
Qed.

(* dropping one child whose value is neutral *)
Lemma Forall2_remove1 (R : nat -> bool -> Prop) c l bs : Forall2 R l bs ->
  exists bs', Forall2 R (remove1 c l) bs' /\
    ((forall b, R c b -> b = true) -> forallb id bs' = forallb id bs) /\
    ((forall b, R c b -> b = false) -> existsb id bs' = existsb id bs).
Proof.
  induction 1 as [|y b l bs Hyb Hr [bs' [H1 [H2 H3]]]].
  - exists []. repeat split; constructor.
  - cbn [remove1]. destruct (Nat.eqb_spec y c) as [->|Hy].
    + exists bs. split; [exact Hr|]. split; intros Hn; rewrite (Hn b Hyb); reflexivity.
    + exists (b :: bs'). split; [now constructor|]. split; intros Hn; cbn [forallb existsb].
      * now rewrite (H2 Hn).
      * now rewrite (H3 Hn).
Qed.

Lemma Forall2_second {A B} (P Q : A -> B -> Prop) l bs :
  Forall2 (fun c b => P c b /\ (True -> Q c b)) l bs -> Forall2 Q l bs.
Proof. intros H. eapply Forall2_impl; [|exact H]. intros a b [_ Hq]. now apply Hq. Qed.

(* ---------- removing a neutral child ---------- *)
Section RemoveNeutral.
Variables (g : sgraph) (nx c : nat).
Hypothesis Hcase :
  (sg_label g nx = Some GAnd /\ sg_label g c = Some GTrue) \/
  (sg_label g nx = Some GOr /\ sg_label g c = Some GFalse).

Lemma remove_neutral_val s x b : GV g s x b -> GV (remove_edge nx c g) s x b.
Proof.
  apply (gv_transfer g (remove_edge nx c g) s (fun _ => True)); [intros; now left| |exact I].
  intros y bs _ _ Hl H. destruct (Nat.eq_dec y nx) as [->|Hne].
  - rewrite remove_edge_out_same.
    destruct (Forall2_remove1 (GV (remove_edge nx c g) s) c _ bs (Forall2_second _ _ _ _ H))
      as [bs' [H1 [H2 H3]]].
    exists bs'. split; [exact H1|]. split; intros Hy.
    + apply H2. intros b' Hb'. destruct Hcase as [[_ Hc]|[Hn _]]; [|congruence].
      now apply (GV_true_inv (remove_edge nx c g) s c).
    + apply H3. intros b' Hb'. destruct Hcase as [[Hn _]|[_ Hc]]; [congruence|].
      now apply (GV_false_inv (remove_edge nx c g) s c).
  - rewrite remove_edge_out_other by exact Hne. exists bs.
    split; [now apply Forall2_second in H|]. split; reflexivity.
Qed.

Lemma remove_neutral_shrink : shrink g (remove_edge nx c g).
Proof.
  constructor.
  - intros x _. now left.
  - intros x t H _ _. exact H.
  - intros x H. now left.
  - intros s x b _. apply remove_neutral_val.
  - intros x _ Hc. split; [reflexivity|].
    destruct (Nat.eq_dec x nx) as [->|Hne]; [|now apply remove_edge_out_other].
    rewrite remove_edge_out_same. apply remove1_notin. intros Hin.
    destruct (Hc c Hin) as [l Hl]. destruct Hcase as [[_ E]|[_ E]]; congruence.
Qed.
End RemoveNeutral.

(* ---------- delete_parent_and_chain ---------- *)
Definition ins (es : list (nat * nat)) (x : nat) : list nat :=
  map fst (filter (fun e => Nat.eqb (snd e) x) es).

Lemma in_ins es x p : In p (ins es x) <-> In (p, x) es.
Proof.
  unfold ins. rewrite in_map_iff. split.
  - intros [[a b] [<- H]]. apply filter_In in H. destruct H as [H E]. cbn [fst snd] in *.
    apply Nat.eqb_eq in E. now subst.
  - intros H. exists (p, x). split; [reflexivity|]. apply filter_In. split; [exact H|].
    cbn [snd]. apply Nat.eqb_refl.
Qed.

Definition notin (R : list nat) (e : nat * nat) : bool := negb (mem (fst e) R) && negb (mem (snd e) R).

Lemma filter_filter {A} (p q : A -> bool) l : filter p (filter q l) = filter (fun x => q x && p x) l.
Proof.
  induction l as [|x l IH]; [reflexivity|]. cbn [filter]. destruct (q x); cbn [filter andb]; [|exact IH].
  destruct (p x); now rewrite IH.
Qed.

Lemma filter_ext_in {A} (p q : A -> bool) l : (forall x, In x l -> p x = q x) -> filter p l = filter q l.
Proof.
  induction l as [|x l IH]; intros H; [reflexivity|]. cbn [filter]. rewrite (H x (or_introl eq_refl)).
  rewrite IH; [reflexivity|]. intros y Hy. apply H. now right.
Qed.

Lemma outs_notin R es x : ~ In x R ->
  outs (filter (notin R) es) x = filter (fun c => negb (mem c R)) (outs es x).
Proof.
  intros Hx. apply mem_notIn in Hx. unfold outs.
  induction es as [|[p q] es IH]; [reflexivity|].
  cbn [filter fst snd]. unfold notin at 1. cbn [fst snd].
  destruct (Nat.eqb_spec p x) as [->|Hp].
  - rewrite Hx. cbn [negb andb map snd filter].
    destruct (mem q R); cbn [negb filter fst].
    + exact IH.
    + rewrite Nat.eqb_refl. cbn [map snd]. now rewrite IH.
  - destruct (negb (mem p R) && negb (mem q R)); cbn [filter fst]; [|exact IH].
    apply Nat.eqb_neq in Hp. now rewrite Hp.
Qed.

(* the graph after removing the nodes of R from g0 *)
Record minus (g0 g : sgraph) (R : list nat) : Prop := {
  mi_inv : Inv g;
  mi_dead : forall x, In x R -> sg_label g0 x = Some GAnd /\ sg_label g x = None;
  mi_live : forall x, ~ In x R -> sg_label g x = sg_label g0 x;
  mi_edges : sg_edges g = filter (notin R) (sg_edges g0)
}.

(* every removed node has a child that is F or removed *)
Definition justified (g0 : sgraph) (R : list nat) (x : nat) : Prop :=
  exists c, In c (sg_out g0 x) /\ (sg_label g0 c = Some GFalse \/ In c R).

(* dead: an And with a F child, or with a dead child *)
Inductive gdead (g : sgraph) : nat -> Prop :=
| gd_false x c : sg_label g x = Some GAnd -> In c (sg_out g x) -> sg_label g c = Some GFalse -> gdead g x
| gd_dead x c : sg_label g x = Some GAnd -> In c (sg_out g x) -> gdead g c -> gdead g x.

(* loop invariant of delete_parent_and_chain with `pend` = current :: current_vec *)
Record chain_inv (g0 g : sgraph) (R pend : list nat) : Prop := {
  ci_minus : minus g0 g R;
  ci_just : forall x, In x R -> justified g0 R x;
  ci_pend : forall q, In q pend -> sg_label g0 q = Some GAnd -> ~ In q R -> justified g0 R q;
  ci_up : forall x p, In x R -> In (p, x) (sg_edges g0) -> sg_label g0 p = Some GAnd ->
          In p R \/ In p pend;
  ci_dead : forall x, In x R -> gdead g0 x
}.

Lemma justified_mono g0 R R' x : incl R R' -> justified g0 R x -> justified g0 R' x.
Proof. intros Hi [c [Hc [H|H]]]; exists c; split; auto. Qed.

Lemma minus_remove g0 g R cur : minus g0 g R -> sg_label g cur = Some GAnd ->
  minus g0 (remove_node cur g) (cur :: R).
Proof.
  intros [HI Hd Hl He] Hc.
  assert (Ha : sg_alive g cur = true) by (unfold sg_alive; now rewrite Hc).
  assert (Hnr : ~ In cur R) by (intros Hin; destruct (Hd cur Hin) as [_ E]; congruence).
  constructor.
  - now apply remove_node_Inv.
  - intros x [<-|Hx].
    + split; [rewrite <- (Hl cur Hnr); exact Hc|now apply remove_node_label_same].
    + destruct (Hd x Hx) as [H1 H2]. split; [exact H1|].
      destruct (Nat.eq_dec x cur) as [->|Hne]; [now apply remove_node_label_same|].
      now rewrite remove_node_label_other.
  - intros x Hx. rewrite remove_node_label_other by (intros ->; apply Hx; now left).
    apply Hl. intros Hin. apply Hx. now right.
  - cbn [remove_node sg_edges]. rewrite He, filter_filter. apply filter_ext_in.
    intros [p q] _. unfold notin, mem. cbn [fst snd existsb].
    destruct (Nat.eqb p cur), (Nat.eqb q cur), (existsb (Nat.eqb p) R), (existsb (Nat.eqb q) R); reflexivity.
Qed.

Lemma chain_step_remove g0 g R cur stk : chain_inv g0 g R (cur :: stk) ->
  sg_label g cur = Some GAnd ->
  chain_inv g0 (remove_node cur g) (cur :: R) (rev (sg_in g cur) ++ stk).
Proof.
  intros [Hm Hj Hp Hu Hd] Hc.
  assert (Hnr : ~ In cur R) by (intros Hin; destruct (mi_dead _ _ _ Hm cur Hin) as [_ E]; congruence).
  assert (Hc0 : sg_label g0 cur = Some GAnd) by (rewrite <- (mi_live _ _ _ Hm cur Hnr); exact Hc).
  assert (Hinc : incl R (cur :: R)) by (intros y Hy; now right).
  assert (Hdc : gdead g0 cur).
  { destruct (Hp cur (or_introl eq_refl) Hc0 Hnr) as [c [Hc1 [Hc2|Hc2]]].
    - exact (gd_false g0 cur c Hc0 Hc1 Hc2).
    - apply (gd_dead g0 cur c Hc0 Hc1). now apply Hd. }
  constructor; [| | | |intros x [<-|Hx]; [exact Hdc|now apply Hd]].
  - now apply minus_remove.
  - intros x [<-|Hx].
    + apply (justified_mono g0 R); [exact Hinc|]. apply Hp; [now left|exact Hc0|exact Hnr].
    + apply (justified_mono g0 R); [exact Hinc|]. now apply Hj.
  - intros q Hq Hlq Hnq. apply in_app_or in Hq. destruct Hq as [Hq|Hq].
    + (* a parent of cur that was just pushed: cur is its dead child *)
      apply in_rev in Hq. unfold sg_in in Hq. fold (ins (sg_edges g) cur) in Hq.
      apply in_ins in Hq. rewrite (mi_edges _ _ _ Hm) in Hq. apply filter_In in Hq.
      exists cur. split; [apply in_outs; exact (proj1 Hq)|right; now left].
    + apply (justified_mono g0 R); [exact Hinc|]. apply Hp; [now right|exact Hlq|].
      intros Hin. apply Hnq. now right.
  - intros x p [<-|Hx] Hpx Hlp.
    + destruct (in_dec Nat.eq_dec p (cur :: R)) as [Hin|Hnin]; [now left|]. right.
      apply in_or_app. left. apply in_rev. rewrite rev_involutive.
      unfold sg_in. fold (ins (sg_edges g) cur). apply in_ins.
      rewrite (mi_edges _ _ _ Hm). apply filter_In. split; [exact Hpx|].
      unfold notin. cbn [fst snd].
      assert (E1 : mem p R = false) by (apply mem_notIn; intros H; apply Hnin; now right).
      assert (E2 : mem cur R = false) by now apply mem_notIn.
      now rewrite E1, E2.
    + destruct (Hu x p Hx Hpx Hlp) as [H|[<-|H]].
      * left. now right.
      * left. now left.
      * right. apply in_or_app. now right.
Qed.

Lemma chain_step_skip g0 g R cur stk t : chain_inv g0 g R (cur :: stk) ->
  sg_label g cur = Some t -> t <> GAnd -> chain_inv g0 g R stk.
Proof.
  intros [Hm Hj Hp Hu Hd] Hc Ht.
  assert (Hnr : ~ In cur R) by (intros Hin; destruct (mi_dead _ _ _ Hm cur Hin) as [_ E]; congruence).
  assert (Hc0 : sg_label g0 cur = Some t) by (rewrite <- (mi_live _ _ _ Hm cur Hnr); exact Hc).
  constructor; [exact Hm|exact Hj| | |exact Hd].
  - intros q Hq. apply Hp. now right.
  - intros x p Hx Hpx Hlp. destruct (Hu x p Hx Hpx Hlp) as [H|[<-|H]]; [now left| |now right].
    congruence.
Qed.

Definition tid_eq_and (t : tid) : {t = GAnd} + {t <> GAnd}.
Proof. destruct t; try (right; discriminate). left; reflexivity. Defined.

Lemma del_chain_inv g0 : forall fuel g cur stk R g',
  chain_inv g0 g R (cur :: stk) -> del_chain fuel g cur stk = Some g' ->
  exists R', chain_inv g0 g' R' [].
Proof.
  induction fuel as [|f IH]; intros g cur stk R g' HI H; [discriminate|]. cbn [del_chain] in H.
  destruct (sg_label g cur) as [t|] eqn:Hc; [|discriminate].
  destruct (tid_eq_and t) as [->|Ht].
  - pose proof (chain_step_remove g0 g R cur stk HI Hc) as HI'.
    destruct (rev (sg_in g cur) ++ stk) as [|h r]; [injection H as <-; now exists (cur :: R)|].
    exact (IH _ _ _ _ _ HI' H).
  - pose proof (chain_step_skip g0 g R cur stk t HI Hc Ht) as HI'.
    assert (E : (let (g'0, stk') := match t with GAnd => (remove_node cur g, rev (sg_in g cur) ++ stk) | _ => (g, stk) end in
                 match stk' with [] => Some g'0 | h :: r => del_chain f g'0 h r end) =
                match stk with [] => Some g | h :: r => del_chain f g h r end)
      by (destruct t; try reflexivity; congruence).
    rewrite E in H. destruct stk as [|h r]; [injection H as <-; now exists R|].
    exact (IH _ _ _ _ _ HI' H).
Qed.

(* removed nodes are false wherever they have a value *)
Lemma forallb_false_member (P : nat -> bool -> Prop) l bs c :
  Forall2 P l bs -> In c l -> (forall b, P c b -> b = false) -> forallb id bs = false.
Proof.
  induction 1 as [|y b l bs Hyb _ IH]; intros Hin Hc; [destruct Hin|].
  cbn [forallb]. destruct Hin as [->|Hin].
  - now rewrite (Hc b Hyb).
  - rewrite (IH Hin Hc). apply andb_false_r.
Qed.

Lemma dead_false g0 R s :
  (forall x, In x R -> sg_label g0 x = Some GAnd /\ justified g0 R x) ->
  forall f x b, In x R -> gval f g0 s x = Some b -> b = false.
Proof.
  intros HR. induction f as [|f IH]; intros x b Hx H; [discriminate|].
  cbn [gval] in H. destruct (HR x Hx) as [Hl [c [Hc Hd]]]. rewrite Hl in H.
  destruct (map_opt _ _) as [bs|] eqn:E; [|discriminate]. injection H as <-.
  apply map_opt_Forall2_iff in E.
  apply (forallb_false_member _ _ _ c E Hc). intros bc Hbc. destruct Hd as [Hf|Hr].
  - destruct f as [|f']; [discriminate|]. cbn [gval] in Hbc. rewrite Hf in Hbc. now injection Hbc as <-.
  - now apply (IH c).
Qed.

Lemma Forall2_filter_keep (P Q : nat -> bool -> Prop) (keep : nat -> Prop) (kb : nat -> bool) l bs :
  (forall c, kb c = true -> keep c) ->
  Forall2 (fun c b => P c b /\ (keep c -> Q c b)) l bs ->
  exists bs', Forall2 Q (filter kb l) bs' /\
    ((forall c, In c l -> kb c = true) -> forallb id bs' = forallb id bs) /\
    ((forall c b, In c l -> kb c = false -> P c b -> b = false) -> existsb id bs' = existsb id bs).
Proof.
  intros Hk. induction 1 as [|y b l bs [Hp Hq] _ [bs' [H1 [H2 H3]]]].
  - exists []. repeat split; constructor.
  - cbn [filter]. destruct (kb y) eqn:Ey.
    + exists (b :: bs'). split; [constructor; [apply Hq, Hk, Ey|exact H1]|]. split; intros Hall; cbn [forallb existsb].
      * rewrite H2; [reflexivity|]. intros c Hc. apply Hall. now right.
      * rewrite H3; [reflexivity|]. intros c bc Hc. apply Hall. now right.
    + exists bs'. split; [exact H1|]. split; intros Hall; cbn [forallb existsb].
      * specialize (Hall y (or_introl eq_refl)). congruence.
      * rewrite (Hall y b (or_introl eq_refl) Ey Hp). cbn [id orb].
        apply H3. intros c bc Hc. apply Hall. now right.
Qed.

Lemma notin_nil es : filter (notin []) es = es.
Proof. induction es as [|e es IH]; [reflexivity|]. cbn. now rewrite IH. Qed.

Lemma chain_shrink g0 g' R : chain_inv g0 g' R [] -> shrink g0 g'.
Proof.
  intros [Hm Hj _ Hu _].
  assert (Hnr : forall x, sg_alive g' x = true -> ~ In x R).
  { intros x Ha Hin. destruct (mi_dead _ _ _ Hm x Hin) as [_ E]. unfold sg_alive in Ha. now rewrite E in Ha. }
  assert (Hkeep : forall x t, sg_label g0 x = Some t -> t <> GAnd -> sg_label g' x = Some t).
  { intros x t Hl Ht. rewrite (mi_live _ _ _ Hm); [exact Hl|].
    intros Hin. destruct (mi_dead _ _ _ Hm x Hin) as [E _]. congruence. }
  constructor.
  - intros x Ha. left. apply (mi_live _ _ _ Hm). now apply Hnr.
  - intros x t Hl Ht _. now apply Hkeep.
  - intros x Hl. left. apply Hkeep; [exact Hl|discriminate].
  - intros s x b Ha. apply (gv_transfer g0 g' s (fun y => ~ In y R));
      [intros y Hy; left; now apply (mi_live _ _ _ Hm)| |now apply Hnr].
    intros y bs Hy _ Hl H. unfold sg_out at 1. rewrite (mi_edges _ _ _ Hm).
    fold (outs (filter (notin R) (sg_edges g0)) y). rewrite (outs_notin R _ y Hy).
    fold (sg_out g0 y).
    destruct (Forall2_filter_keep (GV g0 s) (GV g' s) (fun c => ~ In c R) (fun c => negb (mem c R)) (sg_out g0 y) bs)
      as [bs' [H1 [H2 H3]]]; [|exact H|].
    { intros c Hc. apply negb_true_iff in Hc. now apply mem_notIn. }
    exists bs'. split; [exact H1|]. split; intros Hly.
    + apply H2. intros c Hc. apply negb_true_iff, mem_notIn. intros Hin.
      apply in_outs in Hc. destruct (Hu c y Hin Hc Hly) as [Hr|[]]. now apply Hy.
    + apply H3. intros c bc Hc Hk [f Hf]. apply negb_false_iff, mem_In in Hk.
      apply (dead_false g0 R s) with (f := f) (x := c); [|exact Hk|exact Hf].
      intros z Hz. split; [apply (mi_dead _ _ _ Hm z Hz)|now apply Hj].
  - intros x Ha Hc. split; [apply (mi_live _ _ _ Hm); now apply Hnr|].
    unfold sg_out at 1. rewrite (mi_edges _ _ _ Hm).
    fold (outs (filter (notin R) (sg_edges g0)) x). rewrite (outs_notin R _ x (Hnr x Ha)).
    fold (sg_out g0 x). apply filter_all. intros c Hin. apply negb_true_iff, mem_notIn. intros HR.
    destruct (Hc c Hin) as [l Hl]. destruct (mi_dead _ _ _ Hm c HR) as [E _]. congruence.
Qed.

Lemma del_chain_shrink g nx c g' fuel : Inv g -> sg_label g nx = Some GAnd ->
  In c (sg_out g nx) -> sg_label g c = Some GFalse ->
  del_chain fuel g nx [] = Some g' -> Inv g' /\ shrink g g'.
Proof.
  intros HI Hn Hc Hf H.
  destruct (del_chain_inv g fuel g nx [] [] g') as [R' HC]; [|exact H|].
  { constructor.
    - constructor; [exact HI|intros x []|reflexivity|now rewrite notin_nil].
    - intros x [].
    - intros q [<-|[]] _ _. exists c. split; [exact Hc|now left].
    - intros x p [].
    - intros x []. }
  split; [apply (mi_inv _ _ _ (ci_minus _ _ _ _ HC))|now apply (chain_shrink g g' R')].
Qed.

(* ---------- repair F12: an or node with a true child becomes a true node ---------- *)
Lemma existsb_true_member (P : nat -> bool -> Prop) l bs c :
  Forall2 P l bs -> In c l -> (forall b, P c b -> b = true) -> existsb id bs = true.
Proof.
  induction 1 as [|y b l bs Hyb _ IH]; intros Hin Hc; [destruct Hin|].
  cbn [existsb]. destruct Hin as [->|Hin].
  - now rewrite (Hc b Hyb).
  - rewrite (IH Hin Hc). apply orb_true_r.
Qed.

Section OrTrue.
Variables (g : sgraph) (nx c : nat).
Hypothesis HI : Inv g.
Hypothesis Hnx : sg_label g nx = Some GOr.
Hypothesis Hc : In c (sg_out g nx).
Hypothesis Hlc : sg_label g c = Some GTrue.

Let g' := remove_out_edges nx (set_label nx GTrue g).

Lemma or_true_alive : sg_alive g nx = true.
Proof. unfold sg_alive. now rewrite Hnx. Qed.

Lemma or_true_label_same : sg_label g' nx = Some GTrue.
Proof. unfold g'. rewrite remove_out_edges_label. apply set_label_label_same, or_true_alive. Qed.

Lemma or_true_label_other y : y <> nx -> sg_label g' y = sg_label g y.
Proof. intros H. unfold g'. rewrite remove_out_edges_label. now apply set_label_label_other. Qed.

Lemma or_true_out_other y : y <> nx -> sg_out g' y = sg_out g y.
Proof.
  intros H. unfold g'. rewrite remove_out_edges_out, set_label_out.
  apply Nat.eqb_neq in H. now rewrite H.
Qed.

Lemma or_true_value s b : GV g s nx b -> b = true.
Proof.
  intros Hv. destruct (GV_or_inv g s nx b Hnx Hv) as [bs [Hbs ->]].
  apply (existsb_true_member _ _ _ c Hbs Hc). intros b' Hb'. now apply (GV_true_inv g s c).
Qed.

Lemma or_true_Inv : Inv g'.
Proof. unfold g'. apply remove_out_edges_Inv, set_label_Inv; [exact HI|apply or_true_alive]. Qed.

Lemma or_true_shrink : shrink g g'.
Proof.
  constructor.
  - intros x _. destruct (Nat.eq_dec x nx) as [->|Hne].
    + right. split; [exact Hnx|apply or_true_label_same].
    + left. now apply or_true_label_other.
  - intros x t Hl _ Ht. rewrite or_true_label_other; [exact Hl|]. intros ->. congruence.
  - intros x Hl. destruct (Nat.eq_dec x nx) as [->|Hne].
    + right. apply or_true_label_same.
    + left. now rewrite or_true_label_other.
  - intros s x b _. apply (gv_transfer g g' s (fun _ => True)); [| |exact I].
    + intros y _. destruct (Nat.eq_dec y nx) as [->|Hne].
      * right. split; [apply or_true_label_same|apply or_true_value].
      * left. now apply or_true_label_other.
    + intros y bs _ Hly Hl H.
      assert (Hne : y <> nx) by (intros ->; rewrite or_true_label_same, Hnx in Hly; discriminate).
      rewrite (or_true_out_other y Hne). exists bs. split; [now apply Forall2_second in H|split; reflexivity].
  - intros x _ Hall. assert (Hne : x <> nx).
    { intros ->. destruct (Hall c Hc) as [l Hl]. congruence. }
    split; [now apply or_true_label_other|now apply or_true_out_other].
Qed.
End OrTrue.

(* ---------- the walker and the traversal ---------- *)
Lemma walk2_shrink nx t : forall cs g g', Inv g -> sg_label g nx = Some t ->
  (forall c, In c cs ->
     (t = GAnd /\ sg_label g c = Some GFalse) \/ (t = GOr /\ sg_label g c = Some GTrue) ->
     In c (sg_out g nx)) ->
  walk2 g nx t cs = Some g' -> Inv g' /\ shrink g g'.
Proof.
  induction cs as [|c r IH]; intros g g' HI Hn Hcs H; cbn [walk2] in H.
  - injection H as <-. split; [exact HI|apply shrink_refl].
  - assert (Hr : forall c', In c' r ->
       (t = GAnd /\ sg_label g c' = Some GFalse) \/ (t = GOr /\ sg_label g c' = Some GTrue) ->
       In c' (sg_out g nx)) by (intros c' Hc'; apply Hcs; now right).
    destruct (sg_label g c) as [[l| | | |]|] eqn:Hc; try exact (IH g g' HI Hn Hr H).
    + (* a true child *)
      destruct t; try discriminate.
      * destruct (IH (remove_edge nx c g) g') as [HI' Hs]; [now apply remove_edge_Inv|exact Hn| |exact H|].
        { intros c' Hc' Hl'. rewrite remove_edge_label in Hl'. rewrite remove_edge_out_same.
          destruct Hl' as [[_ Hl']|[E _]]; [|discriminate].
          apply in_remove1_neq; [intros ->; congruence|apply Hr; [exact Hc'|left; now split]]. }
        split; [exact HI'|]. eapply shrink_trans; [|exact Hs]. apply remove_neutral_shrink. left. now split.
      * injection H as <-.
        assert (Hin : In c (sg_out g nx)) by (apply Hcs; [now left|right; now split]).
        split; [now apply (or_true_Inv g nx)|now apply (or_true_shrink g nx c)].
    + (* a false child *)
      destruct t; try discriminate.
      * apply (del_chain_shrink g nx c g' (sg_fuel g)); auto. apply Hcs; [now left|left; now split].
      * destruct (IH (remove_edge nx c g) g') as [HI' Hs]; [now apply remove_edge_Inv|exact Hn| |exact H|].
        { intros c' Hc' Hl'. rewrite remove_edge_label in Hl'. rewrite remove_edge_out_same.
          destruct Hl' as [[E _]|[_ Hl']]; [discriminate|].
          apply in_remove1_neq; [intros ->; congruence|apply Hr; [exact Hc'|right; now split]]. }
        split; [exact HI'|]. eapply shrink_trans; [|exact Hs]. apply remove_neutral_shrink. right. now split.
Qed.

Lemma pass2_body_shrink g nx g' : Inv g -> pass2_body g nx = Some g' -> Inv g' /\ shrink g g'.
Proof.
  intros HI H. unfold pass2_body in H. destruct (sg_label g nx) as [t|] eqn:Hn.
  - apply (walk2_shrink nx t (sg_out g nx) g g' HI Hn); [|exact H]. intros c Hc _. exact Hc.
  - injection H as <-. split; [exact HI|apply shrink_refl].
Qed.

(* any state property preserved by the body is preserved by the traversal *)
Lemma dfs_fold_invariant {St} (nb : St -> nat -> list nat) (body : St -> nat -> option St)
  (P : St -> Prop) :
  (forall s x s', P s -> body s x = Some s' -> P s') ->
  forall fuel s stack disc fin s', P s -> dfs_fold nb body fuel s stack disc fin = Some s' -> P s'.
Proof.
  intros Hb. induction fuel as [|f IH]; intros s stack disc fin s' HP H; [discriminate|].
  cbn [dfs_fold] in H. destruct stack as [|nx rest]; [now injection H as <-|].
  destruct (negb _); [exact (IH _ _ _ _ _ HP H)|].
  destruct (mem nx fin); [exact (IH _ _ _ _ _ HP H)|].
  destruct (body s nx) as [s1|] eqn:E; [|discriminate].
  exact (IH _ _ _ _ _ (Hb _ _ _ HP E) H).
Qed.

Theorem pass2_shrink g root g' : Inv g -> pass2 g root = Some g' -> Inv g' /\ shrink g g'.
Proof.
  intros HI H. unfold pass2 in H.
  apply (dfs_fold_invariant sg_out pass2_body (fun g1 => Inv g1 /\ shrink g g1)) in H; [exact H| |].
  - intros g1 x g2 [HI1 Hs1] Hb. destruct (pass2_body_shrink g1 x g2 HI1 Hb) as [HI2 Hs2].
    split; [exact HI2|]. now apply (shrink_trans g g1 g2).
  - split; [exact HI|apply shrink_refl].
Qed.

(* the same with an invariant that sees the traversal state *)
Lemma dfs_fold_invariant_st {St} (nb : St -> nat -> list nat) (body : St -> nat -> option St)
  (Q : St -> list nat -> list nat -> list nat -> Prop) :
  (forall s nx rest disc fin, Q s (nx :: rest) disc fin -> mem nx disc = false ->
     Q s (push_undiscovered (nx :: disc) (nx :: rest) (nb s nx)) (nx :: disc) fin) ->
  (forall s nx rest disc fin, Q s (nx :: rest) disc fin -> mem nx disc = true -> mem nx fin = true ->
     Q s rest disc fin) ->
  (forall s nx rest disc fin s', Q s (nx :: rest) disc fin -> mem nx disc = true -> mem nx fin = false ->
     body s nx = Some s' -> Q s' rest disc (nx :: fin)) ->
  forall fuel s stack disc fin s', Q s stack disc fin ->
    dfs_fold nb body fuel s stack disc fin = Some s' -> exists disc' fin', Q s' [] disc' fin'.
Proof.
  intros Hd Hp Hb. induction fuel as [|f IH]; intros s stack disc fin s' HQ H; [discriminate|].
  cbn [dfs_fold] in H. destruct stack as [|nx rest]; [injection H as <-; now exists disc, fin|].
  destruct (mem nx disc) eqn:Ed; cbn [negb] in H.
  - destruct (mem nx fin) eqn:Ef.
    + exact (IH _ _ _ _ _ (Hp _ _ _ _ _ HQ Ed Ef) H).
    + destruct (body s nx) as [s1|] eqn:E; [|discriminate]. exact (IH _ _ _ _ _ (Hb _ _ _ _ _ _ HQ Ed Ef E) H).
  - exact (IH _ _ _ _ _ (Hd _ _ _ _ _ HQ Ed) H).
Qed.

(* every neighbour is discovered or pushed *)
Lemma push_cover disc succs : forall stack c, In c succs ->
  mem c disc = true \/ In c (push_undiscovered disc stack succs).
Proof.
  unfold push_undiscovered. induction succs as [|x succs IH]; intros stack c Hc; [destruct Hc|]. cbn [fold_left].
  destruct Hc as [->|Hc].
  - destruct (mem c disc) eqn:E; [now left|]. right.
    assert (Hmono : forall l st, In c st -> In c (fold_left (fun st succ => if mem succ disc then st else succ :: st) l st)).
    { induction l as [|y l IHl]; intros st Hst; [exact Hst|]. cbn [fold_left]. apply IHl. destruct (mem y disc); [exact Hst|now right]. }
    apply Hmono. now left.
  - apply IH. exact Hc.
Qed.

Lemma push_keeps disc succs : forall stack c, In c stack -> In c (push_undiscovered disc stack succs).
Proof.
  unfold push_undiscovered. induction succs as [|x succs IH]; intros stack c Hc; [exact Hc|]. cbn [fold_left].
  apply IH. destruct (mem x disc); [exact Hc|now right].
Qed.
