(* Renumbering of a node vector: C' lists (some of) the nodes of C in another order
   `out : position in C' -> position in C`, every node keeps its kind, its children are the
   images of the REVERSED child list (petgraph's `neighbors` order), the last node of C' is
   the last node of C.  This is what re-flattening a file by rebuild produces (LoadC2d.v) and
   it preserves everything the properties talk about: the function, idx_ok, decomposability,
   smoothness, completeness, determinism (hence WF) -- reusable for every loader theorem. *)
From Coq Require Import List ZArith Bool Lia Permutation.
From DD Require Import Model.Circuit Proofs.PassLemmas Proofs.Enum Proofs.Semantics.
Import ListNotations.
Local Open Scope nat_scope.

Definition child_rel (out : list nat) (j : nat) (c' c : nat) : Prop :=
  c' < j /\ nth c' out 0 = c.

Definition node_renum (out : list nat) (j : nat) (nd' nd : ntype) : Prop :=
  match nd', nd with
  | Lit l', Lit l => l' = l
  | And cs', And cs => Forall2 (child_rel out j) cs' (rev cs)
  | Or cs', Or cs => Forall2 (child_rel out j) cs' (rev cs)
  | TrueN, TrueN => True
  | FalseN, FalseN => True
  | _, _ => False
  end.

Record Renum (C C' : circuit) (out : list nat) : Prop := {
  rn_len : length out = length C';
  rn_ne : C' <> [];
  rn_valid : forall j, j < length C' -> nth j out 0 < length C;
  rn_node : forall j, j < length C' ->
            node_renum out j (nth j C' FalseN) (nth (nth j out 0) C FalseN);
  rn_root : nth (length C' - 1) out 0 = length C - 1;
}.

(* ---------- small list facts ---------- *)
Lemma existsb_rev {A} (p : A -> bool) (l : list A) : existsb p (rev l) = existsb p l.
Proof.
  induction l as [|x l IH]; [reflexivity|]. cbn. rewrite existsb_app, IH. cbn.
  destruct (p x), (existsb p l); reflexivity.
Qed.

Lemma Forall2_map_eq {B} (f g : nat -> B) (R : nat -> nat -> Prop) (l l' : list nat) :
  Forall2 R l l' -> (forall x y, R x y -> f x = g y) -> map f l = map g l'.
Proof. induction 1 as [|x y l l' Hxy _ IH]; intros H; [reflexivity|]. cbn. now rewrite (H x y Hxy), IH. Qed.

Lemma Forall2_In_l {A B} (R : A -> B -> Prop) l l' x :
  Forall2 R l l' -> In x l -> exists y, In y l' /\ R x y.
Proof.
  induction 1 as [|a b l l' Hab _ IH]; intros Hx; [destruct Hx|].
  destruct Hx as [<-|Hx]; [exists b; split; [now left|exact Hab]|].
  destruct (IH Hx) as [y [Hy Hr]]. exists y. split; [now right|exact Hr].
Qed.
Lemma Forall2_In_r {A B} (R : A -> B -> Prop) l l' y :
  Forall2 R l l' -> In y l' -> exists x, In x l /\ R x y.
Proof.
  induction 1 as [|a b l l' Hab _ IH]; intros Hy; [destruct Hy|].
  destruct Hy as [<-|Hy]; [exists a; split; [now left|exact Hab]|].
  destruct (IH Hy) as [x [Hx Hr]]. exists x. split; [now right|exact Hr].
Qed.

Lemma idx_ok_intro (C : circuit) :
  (forall j, j < length C -> forall c, In c (children (nth j C FalseN)) -> c < j) -> idx_ok C = true.
Proof.
  induction C as [|nd C IH] using rev_ind; intros H; [reflexivity|].
  unfold idx_ok. rewrite idx_ok_from_app. cbn [idx_ok_from]. rewrite andb_true_r.
  apply andb_true_iff. split.
  - apply IH. intros j Hj c Hc. apply (H j); [rewrite app_length; cbn; lia|].
    now rewrite app_nth1.
  - apply forallb_forall. intros c Hc. apply Nat.ltb_lt. cbn.
    apply (H (length C)); [rewrite app_length; cbn; lia|].
    now rewrite nth_middle.
Qed.

Lemma forallb_ext {A} (p q : A -> bool) (l : list A) :
  (forall x, p x = q x) -> forallb p l = forallb q l.
Proof. intros H. induction l as [|x l IH]; [reflexivity|]. cbn. now rewrite H, IH. Qed.

Lemma bool_eq_iff (a b : bool) : (a = true <-> b = true) -> a = b.
Proof.
  destruct a, b; intros [H1 H2]; try reflexivity.
  - symmetry. now apply H1.
  - now apply H2.
Qed.

(* ---------- consequences ---------- *)
Section Renum.
Variables (C C' : circuit) (out : list nat).
Hypothesis HR : Renum C C' out.
Hypothesis Hok : idx_ok C = true.

Lemma renum_children j : j < length C' ->
  Forall2 (child_rel out j) (children (nth j C' FalseN)) (rev (children (nth (nth j out 0) C FalseN))).
Proof.
  intros Hj. pose proof (rn_node _ _ _ HR j Hj) as H.
  destruct (nth j C' FalseN), (nth (nth j out 0) C FalseN); cbn in *; try contradiction; auto.
Qed.

Lemma renum_idx_ok : idx_ok C' = true.
Proof.
  apply idx_ok_intro. intros j Hj c Hc.
  destruct (Forall2_In_l _ _ _ _ (renum_children j Hj) Hc) as [y [_ [Hlt _]]]. exact Hlt.
Qed.

Lemma renum_C_ne : C <> [].
Proof.
  intros ->. destruct C' as [|nd D] eqn:E; [now apply (rn_ne _ _ _ HR)|].
  pose proof (rn_valid _ _ _ HR 0 ltac:(cbn; lia)). cbn in *. lia.
Qed.

(* a bottom-up pass computes related values at related positions *)
Lemma renum_pass {A} (f : list A -> ntype -> A) (d : A) (R : A -> A -> Prop) :
  local f d ->
  (forall acc' acc nd' nd j,
      node_renum out j nd' nd ->
      (forall c', c' < j -> R (nth c' acc' d) (nth (nth c' out 0) acc d)) ->
      R (f acc' nd') (f acc nd)) ->
  forall j, j < length C' -> R (nth j (pass f C') d) (nth (nth j out 0) (pass f C) d).
Proof.
  intros Hloc Hnode j. induction j as [j IH] using lt_wf_ind. intros Hj.
  rewrite (pass_unfold f d d C' j Hloc renum_idx_ok Hj).
  rewrite (pass_unfold f d d C (nth j out 0) Hloc Hok (rn_valid _ _ _ HR j Hj)).
  apply (Hnode _ _ _ _ j (rn_node _ _ _ HR j Hj)).
  intros c' Hc'. apply IH; lia.
Qed.

Lemma renum_evals s j : j < length C' ->
  nth j (evals s C') false = nth (nth j out 0) (evals s C) false.
Proof.
  apply (renum_pass (eval_node s) false eq (eval_node_local s)).
  intros acc' acc nd' nd k Hn Hc.
  destruct nd' as [l'|cs'|cs'| |], nd as [l|cs|cs| |]; cbn in Hn; try contradiction; cbn [eval_node].
  - now subst.
  - rewrite (Forall2_map_eq (fun c => nth c acc' false) (fun c => nth c acc false) _ _ _ Hn).
    + now rewrite map_rev, forallb_rev.
    + intros x y [Hx <-]. now apply Hc.
  - rewrite (Forall2_map_eq (fun c => nth c acc' false) (fun c => nth c acc false) _ _ _ Hn).
    + now rewrite map_rev, existsb_rev.
    + intros x y [Hx <-]. now apply Hc.
  - reflexivity.
  - reflexivity.
Qed.

Theorem renum_eval_root s : eval_root s C' = eval_root s C.
Proof.
  rewrite !eval_root_nth. unfold root.
  rewrite renum_evals; [|pose proof (rn_ne _ _ _ HR); destruct C'; [congruence|cbn; lia]].
  now rewrite (rn_root _ _ _ HR).
Qed.

Definition seteq (a b : list Z) : Prop := forall v, In v a <-> In v b.

Lemma in_concat_map (f : nat -> list Z) cs v :
  In v (concat (map f cs)) <-> exists c, In c cs /\ In v (f c).
Proof.
  rewrite in_concat. split.
  - intros [L [HL Hv]]. apply in_map_iff in HL. destruct HL as [c [<- Hc]]. now exists c.
  - intros [c [Hc Hv]]. exists (f c). split; [now apply in_map|exact Hv].
Qed.

Lemma renum_concat_seteq (acc' acc : list (list Z)) cs' cs j :
  Forall2 (child_rel out j) cs' (rev cs) ->
  (forall c', c' < j -> seteq (nth c' acc' []) (nth (nth c' out 0) acc [])) ->
  seteq (concat (map (fun c => nth c acc' []) cs')) (concat (map (fun c => nth c acc []) cs)).
Proof.
  intros HF Hc v. rewrite !in_concat_map. split.
  - intros [c' [Hc' Hv]]. destruct (Forall2_In_l _ _ _ _ HF Hc') as [c [Hin [Hlt <-]]].
    exists (nth c' out 0). split; [now apply in_rev|]. now apply (Hc c' Hlt).
  - intros [c [Hin Hv]]. apply in_rev in Hin.
    destruct (Forall2_In_r _ _ _ _ HF Hin) as [c' [Hc' [Hlt <-]]].
    exists c'. split; [exact Hc'|]. now apply (Hc c' Hlt).
Qed.

Lemma renum_varss j : j < length C' ->
  seteq (nth j (varss C') []) (nth (nth j out 0) (varss C) []).
Proof.
  apply (renum_pass vars_node [] seteq vars_node_local).
  intros acc' acc nd' nd k Hn Hc.
  destruct nd' as [l'|cs'|cs'| |], nd as [l|cs|cs| |]; cbn in Hn; try contradiction; cbn [vars_node].
  - subst. intros v. tauto.
  - now apply (renum_concat_seteq _ _ _ _ k).
  - now apply (renum_concat_seteq _ _ _ _ k).
  - intros v. tauto.
  - intros v. tauto.
Qed.

(* pairwise on a reversed, pointwise-equivalent list *)
Lemma pairwise_app {A} (p : A -> A -> bool) (l1 l2 : list A) :
  pairwise p (l1 ++ l2) =
  pairwise p l1 && pairwise p l2 && forallb (fun x => forallb (p x) l2) l1.
Proof.
  induction l1 as [|x l1 IH]; [cbn; now rewrite andb_true_r|].
  cbn [app pairwise forallb]. rewrite forallb_app, IH.
  destruct (forallb (p x) l1), (forallb (p x) l2), (pairwise p l1), (pairwise p l2); reflexivity.
Qed.

Lemma pairwise_rev {A} (p : A -> A -> bool) (l : list A) :
  (forall x y, p x y = p y x) -> pairwise p (rev l) = pairwise p l.
Proof.
  intros Hs. induction l as [|x l IH]; [reflexivity|].
  cbn [rev pairwise]. rewrite pairwise_app, IH. cbn [pairwise forallb].
  rewrite !andb_true_r, forallb_rev.
  rewrite (forallb_ext (fun y => p y x && true) (p x)); [apply andb_comm|].
  intros y. now rewrite andb_true_r, Hs.
Qed.

Lemma pairwise_Forall2 {A} (p : A -> A -> bool) (E : A -> A -> Prop) (l l' : list A) :
  (forall x x' y y', E x x' -> E y y' -> p x y = p x' y') ->
  Forall2 E l l' -> pairwise p l = pairwise p l'.
Proof.
  intros Hp HF. induction HF as [|x x' l l' Hx HF IH]; [reflexivity|].
  cbn [pairwise]. rewrite IH. f_equal.
  clear IH. induction HF as [|y y' l l' Hy _ IH]; [reflexivity|].
  cbn [forallb]. now rewrite IH, (Hp x x' y y' Hx Hy).
Qed.

Lemma disjointb_sym a b : disjointb a b = disjointb b a.
Proof.
  apply bool_eq_iff. rewrite !disjointb_spec. split; intros H v Hv Hv'; exact (H v Hv' Hv).
Qed.

Lemma disjointb_seteq a a' b b' : seteq a a' -> seteq b b' -> disjointb a b = disjointb a' b'.
Proof.
  intros Ha Hb. apply bool_eq_iff. rewrite !disjointb_spec. split; intros H v Hv Hv'.
  - apply (H v); [now apply Ha|now apply Hb].
  - apply (H v); [now apply Ha|now apply Hb].
Qed.

Lemma inclb_seteq a a' b b' : seteq a a' -> seteq b b' -> inclb a b = inclb a' b'.
Proof.
  intros Ha Hb. apply bool_eq_iff. rewrite !inclb_incl. split; intros H v Hv.
  - apply Hb, H, Ha, Hv.
  - apply Hb, H, Ha, Hv.
Qed.

Lemma Forall2_map_l {A B D} (R : B -> D -> Prop) (f : A -> B) l l' :
  Forall2 (fun x y => R (f x) y) l l' -> Forall2 R (map f l) l'.
Proof. induction 1; cbn; constructor; auto. Qed.
Lemma Forall2_map_r {A B D} (R : D -> B -> Prop) (f : A -> B) l l' :
  Forall2 (fun x y => R x (f y)) l l' -> Forall2 R l (map f l').
Proof. induction 1; cbn; constructor; auto. Qed.
Lemma Forall2_impl {A B} (R R' : A -> B -> Prop) l l' :
  (forall x y, R x y -> R' x y) -> Forall2 R l l' -> Forall2 R' l l'.
Proof. intros H. induction 1; constructor; auto. Qed.

Lemma nth_in_or_nil (C0 : circuit) j : In (nth j C0 FalseN) C0 \/ nth j C0 FalseN = FalseN.
Proof. destruct (nth_in_or_default j C0 FalseN); auto. Qed.

Lemma renum_decomposable : decomposable C = true -> decomposable C' = true.
Proof.
  intros Hd. unfold decomposable in *. rewrite forallb_forall in *.
  intros nd' Hin. destruct (In_nth _ _ FalseN Hin) as [j [Hj <-]].
  pose proof (rn_node _ _ _ HR j Hj) as Hn.
  assert (HdC : decomposable_node (varss C) (nth (nth j out 0) C FalseN) = true).
  { apply Hd, nth_In, (rn_valid _ _ _ HR j Hj). }
  destruct (nth j C' FalseN) as [l'|cs'|cs'| |], (nth (nth j out 0) C FalseN) as [l|cs|cs| |];
    cbn in Hn; try contradiction; try reflexivity.
  cbn [decomposable_node] in *.
  rewrite (pairwise_Forall2 disjointb seteq _ (map (fun c => nth c (varss C) []) (rev cs))).
  - now rewrite map_rev, (pairwise_rev disjointb _ disjointb_sym).
  - intros; now apply disjointb_seteq.
  - apply Forall2_map_l, Forall2_map_r. eapply Forall2_impl; [|exact Hn].
    intros c' c [Hlt <-]. apply renum_varss. lia.
Qed.

Lemma renum_smooth : smooth C = true -> smooth C' = true.
Proof.
  intros Hd. unfold smooth in *. rewrite forallb_forall in *.
  intros nd' Hin. destruct (In_nth _ _ FalseN Hin) as [j [Hj <-]].
  pose proof (rn_node _ _ _ HR j Hj) as Hn.
  assert (HdC : smooth_node (varss C) (nth (nth j out 0) C FalseN) = true).
  { apply Hd, nth_In, (rn_valid _ _ _ HR j Hj). }
  destruct (nth j C' FalseN) as [l'|cs'|cs'| |], (nth (nth j out 0) C FalseN) as [l|cs|cs| |];
    cbn in Hn; try contradiction; try reflexivity.
  cbn [smooth_node] in *. rewrite forallb_forall in *. intros c' Hc'.
  destruct (Forall2_In_l _ _ _ _ Hn Hc') as [c [Hc [Hlt Hout]]]. apply in_rev in Hc.
  rewrite <- (HdC c Hc). apply inclb_seteq.
  - apply (renum_concat_seteq _ _ _ _ j Hn). intros x Hx. apply renum_varss. lia.
  - rewrite <- Hout. apply renum_varss. lia.
Qed.

Lemma renum_complete n : complete C n = true -> complete C' n = true.
Proof.
  unfold complete. rewrite !last_nth.
  assert (HL : length (varss C) = length C) by (unfold varss; apply pass_length).
  assert (HL' : length (varss C') = length C') by (unfold varss; apply pass_length).
  rewrite HL, HL'. intros H.
  assert (Hj : length C' - 1 < length C').
  { pose proof (rn_ne _ _ _ HR). destruct C'; [congruence|cbn; lia]. }
  pose proof (renum_varss _ Hj) as Hs. rewrite (rn_root _ _ _ HR) in Hs.
  apply andb_true_iff in H. destruct H as [H1 H2]. apply andb_true_iff. split.
  - rewrite <- H1. apply inclb_seteq; [exact Hs|intros v; tauto].
  - rewrite <- H2. apply inclb_seteq; [intros v; tauto|exact Hs].
Qed.

Lemma renum_deterministic : deterministic C -> deterministic C'.
Proof.
  intros Hd s j cs' Hnth.
  assert (Hj : j < length C') by (apply nth_error_Some; congruence).
  pose proof (rn_node _ _ _ HR j Hj) as Hn.
  rewrite (nth_error_nth C' j FalseN Hnth) in Hn.
  destruct (nth (nth j out 0) C FalseN) as [l|cs|cs| |] eqn:E; cbn in Hn; try contradiction.
  specialize (Hd s (nth j out 0) cs).
  rewrite (nth_error_nth' C _ (rn_valid _ _ _ HR j Hj)), E in Hd. specialize (Hd eq_refl).
  rewrite (Forall2_map_eq (fun c => nth c (evals s C') false) (fun c => nth c (evals s C) false) _ _ _ Hn).
  - now rewrite map_rev, filter_rev, rev_length.
  - intros x y [Hx <-]. apply renum_evals. lia.
Qed.

Theorem renum_WF n : WF C n -> WF C' n.
Proof.
  intros [H1 H2 H3 H4 H5 H6]. constructor.
  - exact (rn_ne _ _ _ HR).
  - exact renum_idx_ok.
  - now apply renum_decomposable.
  - now apply renum_smooth.
  - now apply renum_complete.
  - now apply renum_deterministic.
Qed.

End Renum.

(* ---------- zero-child gates: `And []` is the true node, `Or []` the false node ---------- *)
Definition norm (nd : ntype) : ntype :=
  match nd with
  | And [] => TrueN
  | Or [] => FalseN
  | _ => nd
  end.

Lemma norm_children nd : children (norm nd) = children nd.
Proof. destruct nd as [l|[|c cs]|[|c cs]| |]; reflexivity. Qed.

Lemma pass_norm {A} (f : list A -> ntype -> A) (C : circuit) :
  (forall acc nd, f acc (norm nd) = f acc nd) -> pass f (map norm C) = pass f C.
Proof.
  intros H. induction C as [|nd C IH] using rev_ind; [reflexivity|].
  rewrite map_app. cbn [map]. now rewrite !pass_snoc, IH, H.
Qed.

Lemma evals_norm s C : evals s (map norm C) = evals s C.
Proof. apply pass_norm. intros acc [l|[|c cs]|[|c cs]| |]; reflexivity. Qed.
Lemma varss_norm C : varss (map norm C) = varss C.
Proof. apply pass_norm. intros acc [l|[|c cs]|[|c cs]| |]; reflexivity. Qed.
Lemma counts_norm C : counts (map norm C) = counts C.
Proof. apply pass_norm. intros acc [l|[|c cs]|[|c cs]| |]; reflexivity. Qed.

Lemma eval_root_norm s C : eval_root s (map norm C) = eval_root s C.
Proof. unfold eval_root. now rewrite evals_norm. Qed.

Lemma idx_ok_from_norm k C : idx_ok_from k (map norm C) = idx_ok_from k C.
Proof.
  revert k. induction C as [|nd C IH]; intros k; [reflexivity|].
  cbn [map idx_ok_from]. now rewrite norm_children, IH.
Qed.

Lemma norm_or nd cs : norm nd = Or cs -> nd = Or cs.
Proof. destruct nd as [l|[|c cs0]|[|c cs0]| |]; cbn; congruence. Qed.

Theorem WF_norm C n : WF C n -> WF (map norm C) n.
Proof.
  intros [H1 H2 H3 H4 H5 H6]. constructor.
  - destruct C; [congruence|discriminate].
  - unfold idx_ok. now rewrite idx_ok_from_norm.
  - unfold decomposable in *. rewrite varss_norm, forallb_map.
    rewrite <- H3. apply forallb_ext. intros [l|[|c cs]|[|c cs]| |]; reflexivity.
  - unfold smooth in *. rewrite varss_norm, forallb_map.
    rewrite <- H4. apply forallb_ext. intros [l|[|c cs]|[|c cs]| |]; reflexivity.
  - unfold complete in *. now rewrite varss_norm.
  - intros s i cs Hn. rewrite evals_norm. apply (H6 s i cs).
    rewrite nth_error_map in Hn. destruct (nth_error C i) as [nd|]; [|discriminate].
    cbn in Hn. injection Hn as Hn. now rewrite (norm_or _ _ Hn).
Qed.
