(* rebuild on the final graph of the d4 loader: the flattened vector evaluates, at the position
   of every emitted node, to the graph value of that node; hence eval_root = value of the root.
   No acyclicity hypothesis: a node that has a value has no edge to itself, and the children of
   a node that has a value have values. *)
From Coq Require Import List ZArith Bool Lia Arith.
From DD Require Import Model.Circuit Model.LoadC2d Model.LoadD4 Proofs.PassLemmas Proofs.C10Load
  Proofs.LoadD4Graph.
Import ListNotations.
Local Open Scope nat_scope.

Lemma nth_map_seq {A} (f : nat -> A) n x d : x < n -> nth x (map f (seq 0 n)) d = f x.
Proof.
  intros H. rewrite (nth_indep _ d (f 0)) by (rewrite map_length, seq_length; exact H).
  rewrite map_nth, seq_nth by exact H. reflexivity.
Qed.

Lemma alive_lt g x : sg_alive g x = true -> x < length (sg_nodes g).
Proof.
  unfold sg_alive, sg_label. intros H. destruct (Nat.lt_ge_cases x (length (sg_nodes g))) as [Hlt|Hge]; [exact Hlt|].
  rewrite nth_overflow in H by exact Hge. discriminate.
Qed.

Lemma to_graph_neighbors g x : sg_alive g x = true -> neighbors (to_graph g) x = sg_out g x.
Proof.
  intros H. unfold neighbors, to_graph. rewrite nth_map_seq by now apply alive_lt. reflexivity.
Qed.

Lemma to_graph_label g x t : sg_label g x = Some t -> label (to_graph g) x = t.
Proof.
  intros H. unfold label, to_graph. rewrite nth_map_seq.
  - cbn [fst]. now rewrite H.
  - apply alive_lt. unfold sg_alive. now rewrite H.
Qed.

Section Flat.
Variables (g : sgraph) (s : asg).

(* num maps emitted nodes to positions of acc that carry their value *)
Definition FI (num : list (nat * nat)) (acc : circuit) : Prop :=
  forall x j, lookup num x = Some j ->
    j < length acc /\ forall b, GV g s x b -> nth j (evals s acc) false = b.

Lemma evals_snoc acc nd : evals s (acc ++ [nd]) = evals s acc ++ [eval_node s (evals s acc) nd].
Proof. unfold evals. apply pass_snoc. Qed.

Lemma evals_length acc : length (evals s acc) = length acc.
Proof. unfold evals. apply pass_length. Qed.

Lemma child_values num acc nx cs neighs bs :
  FI num acc -> ~ In nx cs ->
  Forall2 (fun y c => lookup ((nx, length acc) :: num) y = Some c) cs neighs ->
  Forall2 (GV g s) cs bs ->
  map (fun c => nth c (evals s acc) false) neighs = bs.
Proof.
  intros HI Hn H. revert bs. induction H as [|y c cs neighs Hyc _ IH]; intros bs Hb.
  - inversion Hb. reflexivity.
  - inversion Hb as [|? b ? bs' Hyb Hr]; subst. cbn [map]. f_equal.
    + cbn [lookup] in Hyc. destruct (Nat.eqb_spec nx y) as [->|Hne]; [exfalso; apply Hn; now left|].
      now apply (HI y c Hyc).
    + apply IH; [|exact Hr]. intros Hin. apply Hn. now right.
Qed.

Lemma flat_step num acc nx neighs :
  FI num acc ->
  map_opt (lookup ((nx, length acc) :: num)) (neighbors (to_graph g) nx) = Some neighs ->
  FI ((nx, length acc) :: num) (acc ++ [flat_node (label (to_graph g) nx) neighs]).
Proof.
  intros HI Hm x j Hl. rewrite app_length. cbn [length lookup] in *.
  rewrite evals_snoc.
  destruct (Nat.eqb_spec nx x) as [->|Hne].
  - injection Hl as <-. split; [lia|]. intros b Hb.
    rewrite <- (evals_length acc), nth_middle.
    pose proof (GV_alive _ _ _ _ Hb) as Ha.
    rewrite to_graph_neighbors in Hm by exact Ha.
    apply map_opt_Forall2_iff in Hm.
    unfold sg_alive in Ha. destruct (sg_label g x) as [t|] eqn:Hlab; [|discriminate].
    rewrite (to_graph_label g x t Hlab).
    destruct t as [l| | | |]; cbn [flat_node eval_node].
    + symmetry. now apply (GV_lit_inv g s x l).
    + destruct (GV_and_inv g s x b Hlab Hb) as [bs [Hbs ->]].
      rewrite (child_values num acc x (sg_out g x) neighs bs HI); [reflexivity| |exact Hm|exact Hbs].
      intros Hin. destruct Hb as [f Hf]. rewrite (gval_self_loop g s x Hin (or_introl Hlab)) in Hf. discriminate.
    + destruct (GV_or_inv g s x b Hlab Hb) as [bs [Hbs ->]].
      rewrite (child_values num acc x (sg_out g x) neighs bs HI); [reflexivity| |exact Hm|exact Hbs].
      intros Hin. destruct Hb as [f Hf]. rewrite (gval_self_loop g s x Hin (or_intror Hlab)) in Hf. discriminate.
    + symmetry. now apply (GV_true_inv g s x).
    + symmetry. now apply (GV_false_inv g s x).
  - destruct (HI x j Hl) as [Hj Hv]. split; [lia|]. intros b Hb.
    rewrite app_nth1 by (rewrite evals_length; exact Hj). now apply Hv.
Qed.

Lemma flatten_sem : forall order num acc C,
  FI num acc -> flatten (to_graph g) order num acc = Some C ->
  exists num', FI num' C /\ length C = length acc + length order /\
    (order = [] -> num' = num /\ C = acc) /\
    (forall pre r, order = pre ++ [r] -> lookup num' r = Some (length C - 1)).
Proof.
  induction order as [|nx r IH]; intros num acc C HI H; cbn [flatten] in H.
  - injection H as <-. exists num. split; [exact HI|]. split; [cbn; lia|].
    split; [intros _; split; reflexivity|]. intros pre r E. destruct pre; discriminate.
  - destruct (map_opt _ _) as [neighs|] eqn:Hm; [|discriminate].
    destruct (IH _ _ _ (flat_step num acc nx neighs HI Hm) H) as [num' [HI' [HL [Hnil Hlast]]]].
    rewrite app_length in HL. cbn [length] in HL.
    exists num'. split; [exact HI'|]. split; [cbn [length]; lia|].
    split; [discriminate|].
    intros pre x E. destruct r as [|y r'].
    + destruct (Hnil eq_refl) as [-> ->].
      assert (x = nx) as -> by (destruct pre as [|? [|? ?]]; cbn in E; congruence).
      cbn [lookup]. rewrite Nat.eqb_refl, app_length. cbn [length]. f_equal. lia.
    + destruct pre as [|p pre']; [cbn in E; discriminate|]. cbn [app] in E. injection E as -> E.
      now apply (Hlast pre' x).
Qed.

(* the vector rebuild produces denotes the value of the root *)
Theorem rebuild_sem root order C b :
  dfs_post_order (to_graph g) root = Some order ->
  flatten (to_graph g) order [] [] = Some C ->
  GV g s root b -> eval_root s C = b.
Proof.
  intros Hd Hf Hb. unfold dfs_post_order in Hd.
  destruct (dfs_loop_last (to_graph g) root (dfs_fuel (to_graph g)) [root] [] [] [] order) as [pre Hpre]; [|exact Hd|].
  { right. exists []. split; [reflexivity|]. split; [intros []|]. split; [reflexivity|now right]. }
  destruct (flatten_sem order [] [] C) as [num' [HI [HL [_ Hlast]]]]; [|exact Hf|].
  { intros x j Hl. discriminate. }
  specialize (Hlast pre root Hpre). destruct (HI root _ Hlast) as [_ Hv].
  unfold eval_root. rewrite last_nth, evals_length. now apply Hv.
Qed.

End Flat.
