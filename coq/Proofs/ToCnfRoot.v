(* The unit clause that Cnf::from pushes, [tseitin_index - 1], is the literal of the ROOT node.
   This is not immediate: the root's literal is the last allocated variable only if neither the
   root nor the single-child chain below it is answered from the operation cache.  The argument is
   syntactic: mu (size of the tree unfolding: leaves, constants and nodes with <> 1 children) is
   a function of a node's literal (ToCnfInv.Mu), strictly larger at a node with <> 1 children than
   at its children; every node is below the root (all_reachable), so a node with the same mu as
   the root lies on the chain root, root-1, ... of single-child nodes.  Constants and childless
   operations (repair F20) are nodes of size 1 that allocate (or share) a variable like any other
   operation: a circuit whose root chain ends in a constant consists of that chain only. *)
From Coq Require Import List ZArith Bool Lia.
From DD Require Import Model.Circuit Model.ToCnf Proofs.PassLemmas Proofs.Semantics
  Proofs.ToCnfBase Proofs.ToCnfInv.
Import ListNotations.
Open Scope Z_scope.

(* ---------- parents ---------- *)

Lemma has_parent_spec (C : circuit) (j : nat) :
  idx_ok C = true -> has_parent C j = true ->
  exists p, (j < p < length C)%nat /\ In j (children (nth p C FalseN)).
Proof.
  intros Hok H. unfold has_parent in H. apply existsb_exists in H. destruct H as [nd [Hnd Hj]].
  apply existsb_exists in Hj. destruct Hj as [j' [Hj' E]]. apply Nat.eqb_eq in E. subst j'.
  destruct (In_nth C nd FalseN Hnd) as [p [Hp Hnth]]. exists p. subst nd. split; [|exact Hj'].
  split; [|exact Hp]. now apply (idx_ok_nth C p FalseN Hok Hp).
Qed.

Lemma parent_exists (C : circuit) (j : nat) :
  idx_ok C = true -> all_reachable C = true -> (j < root C)%nat ->
  exists p, (j < p <= root C)%nat /\ In j (children (nth p C FalseN)).
Proof.
  intros Hok Hr Hj. unfold all_reachable in Hr. rewrite forallb_forall in Hr.
  assert (Hin : In j (seq 0 (length C - 1))) by (apply in_seq; unfold root in Hj; lia).
  destruct (has_parent_spec C j Hok (Hr j Hin)) as [p [Hp Hc]]. exists p. split; [|exact Hc].
  unfold root. lia.
Qed.

Lemma children_op nd j : In j (children nd) -> exists op cs, node_op nd = Some (op, cs) /\ In j cs.
Proof.
  destruct nd as [l|cs|cs| |]; cbn; try tauto; intros H; [exists OpAnd, cs|exists OpOr, cs]; auto.
Qed.

(* ---------- every variable below a node is below the root ---------- *)

Lemma vars_child (C : circuit) (p j : nat) :
  idx_ok C = true -> (p < length C)%nat -> In j (children (nth p C FalseN)) ->
  incl (nth j (varss C) []) (nth p (varss C) []).
Proof.
  intros Hok Hp Hj v Hv. rewrite (varss_unfold C Hok p Hp []).
  destruct (nth p C FalseN) as [l|cs|cs| |]; cbn [children vars_node] in *; try contradiction;
    apply in_concat; exists (nth j (varss C) []); (split; [|exact Hv]); apply in_map_iff; now exists j.
Qed.

Lemma vars_below_root (C : circuit) :
  idx_ok C = true -> all_reachable C = true ->
  forall d j, (root C - j <= d)%nat -> (j <= root C)%nat ->
  incl (nth j (varss C) []) (nth (root C) (varss C) []).
Proof.
  intros Hok Hr. induction d as [|d IH]; intros j Hd Hj.
  - replace j with (root C) by lia. apply incl_refl.
  - destruct (Nat.eq_dec j (root C)) as [->|Hne]; [apply incl_refl|].
    destruct (parent_exists C j Hok Hr ltac:(lia)) as [p [Hp Hc]].
    eapply incl_tran; [apply (vars_child C p j Hok); [unfold root in *; lia|exact Hc]|].
    apply IH; lia.
Qed.

Lemma last_varss_root (C : circuit) : last (varss C) [] = nth (root C) (varss C) [].
Proof. unfold root. rewrite last_nth. unfold varss. now rewrite pass_length. Qed.

(* what the C19 theorems need of the C01 bundle WF: non-empty, children before parents, the
   variables below the root are exactly 1..n.  Decomposability, smoothness and determinism matter
   only for root_count = number of models (ToCnfCount.final_count). *)
Definition CWF (C : circuit) (n : nat) : Prop :=
  C <> [] /\ idx_ok C = true /\ complete C n = true.
Lemma cwf_nonempty C n : CWF C n -> C <> []. Proof. now intros [H _]. Qed.
Lemma cwf_idx C n : CWF C n -> idx_ok C = true. Proof. now intros [_ [H _]]. Qed.
Lemma cwf_complete C n : CWF C n -> complete C n = true. Proof. now intros [_ [_ H]]. Qed.
Lemma WF_CWF C n : WF C n -> CWF C n.
Proof. intros H. split; [exact (wf_nonempty C n H)|split; [exact (wf_idx C n H)|exact (wf_complete C n H)]]. Qed.

Lemma wf_lits_ok (C : circuit) (n : nat) :
  CWF C n -> all_reachable C = true -> lits_ok n C.
Proof.
  intros HWF Hr l Hl. pose proof (cwf_idx C n HWF) as Hok.
  destruct (In_nth C (Lit l) FalseN Hl) as [j [Hj Hnth]].
  pose proof (complete_range C n (cwf_complete C n HWF)) as HV. rewrite last_varss_root in HV.
  assert (Hin : In (Z.abs l) (nth (root C) (varss C) [])).
  { apply (vars_below_root C Hok Hr (root C) j); [lia|unfold root; lia|].
    rewrite (varss_unfold C Hok j Hj []), Hnth. now left. }
  apply HV in Hin. lia.
Qed.

(* ---------- mu along edges ---------- *)

Lemma musum_in C j cs : In j cs -> (mu C j <= musum C cs)%nat.
Proof.
  induction cs as [|c cs IH]; [intros []|]. cbn [musum fold_right]. intros [->|H]; [lia|].
  specialize (IH H). unfold musum in IH. lia.
Qed.

Section Root.
Variables (C : circuit) (n : nat) (st : tstate).
Let N := Z.of_nat n.
Hypothesis Hne : C <> [].
Hypothesis Hok : idx_ok C = true.
Hypothesis Hreach : all_reachable C = true.
Hypothesis Hlits : lits_ok n C.
Hypothesis Hrun : run (length C) C (init_state n) = Done st.
Hypothesis Hmu2 : (2 <= mu C (root C))%nat.

Let HS : Shape n C st := shape_run n (length C) C st Hok Hlits Hrun.
Let HN : Nodes C st := nodes_run n (length C) C st Hok Hlits Hrun.
Let HM : Mu n C st := mu_run n (length C) C st Hok Hlits Hrun.

Lemma root_lt' : (root C < length C)%nat.
Proof. now apply root_lt. Qed.

Lemma mu_edge p j :
  (p < length C)%nat -> In j (children (nth p C FalseN)) ->
  (mu C j <= mu C p)%nat /\
  ((mu C j = mu C p) -> exists op, node_op (nth p C FalseN) = Some (op, [j])).
Proof.
  intros Hp Hc. destruct (children_op _ _ Hc) as [op [cs [Hop Hin]]].
  rewrite (mu_op C p op cs Hok Hp Hop).
  destruct cs as [|c1 [|c2 cs]]; [destruct Hin| |].
  - destruct Hin as [->|[]]. cbn [mu_cs]. split; [lia|]. intros _. exists op. exact Hop.
  - pose proof (musum_in C j (c1 :: c2 :: cs) Hin) as Hle. cbn [mu_cs]. split; [lia|].
    intros E. exfalso. lia.
Qed.

Lemma mu_le_root : forall d j, (root C - j <= d)%nat -> (j <= root C)%nat -> (mu C j <= mu C (root C))%nat.
Proof.
  induction d as [|d IH]; intros j Hd Hj.
  - replace j with (root C) by lia. lia.
  - destruct (Nat.eq_dec j (root C)) as [->|Hneq]; [lia|].
    destruct (parent_exists C j Hok Hreach ltac:(lia)) as [p [Hp Hc]].
    pose proof root_lt'.
    destruct (mu_edge p j ltac:(lia) Hc) as [Hle _].
    specialize (IH p ltac:(lia) ltac:(lia)). lia.
Qed.

(* a node with the root's mu sits at the bottom of a chain of single-child nodes
   root, root-1, ..., j+1 *)
Lemma chain : forall d j, (root C - j <= d)%nat -> (j <= root C)%nat -> mu C j = mu C (root C) ->
  forall m, (j < m <= root C)%nat ->
  (exists op, node_op (nth m C FalseN) = Some (op, [(m - 1)%nat])) /\ mu C m = mu C (root C).
Proof.
  pose proof root_lt' as Hrl.
  induction d as [|d IH]; intros j Hd Hj Hmu m Hm; [lia|].
  destruct (parent_exists C j Hok Hreach ltac:(lia)) as [p [Hp Hc]].
  destruct (mu_edge p j ltac:(lia) Hc) as [Hle Hsingle].
  pose proof (mu_le_root (root C) p ltac:(lia) ltac:(lia)) as Hpr.
  assert (Hmup : mu C p = mu C (root C)) by lia.
  destruct (Hsingle ltac:(lia)) as [op Hop].
  specialize (IH p ltac:(lia) ltac:(lia) Hmup).
  assert (Hpj : p = S j).
  { destruct (Nat.eq_dec p (S j)) as [E|Hneq]; [exact E|exfalso].
    (* node p-1 lies strictly between j and p and has no parent *)
    destruct (parent_exists C (p - 1)%nat Hok Hreach ltac:(lia)) as [q [Hq Hcq]].
    destruct (Nat.eq_dec q p) as [->|Hqp].
    - rewrite (node_op_children _ _ _ Hop) in Hcq. destruct Hcq as [E|[]]. lia.
    - destruct (IH q ltac:(lia)) as [[opq Hopq] _].
      rewrite (node_op_children _ _ _ Hopq) in Hcq. destruct Hcq as [E|[]]. lia. }
  subst p. destruct (Nat.eq_dec m (S j)) as [->|Hneq].
  - split; [|exact Hmup]. exists op. rewrite Hop. do 3 f_equal. lia.
  - apply IH. lia.
Qed.

(* the root's literal is a Tseitin variable *)
Lemma root_lit_tseitin : N < Lt st (root C) < ts_idx st.
Proof.
  pose proof root_lt' as Hrl.
  destruct (sh_range n C st HS (root C) Hrl) as [Hnz Hr]. fold N in Hr. split; [|lia].
  destruct (Z_lt_le_dec N (Lt st (root C))) as [H|H]; [exact H|exfalso].
  assert (Z.abs (Lt st (root C)) <= N) by lia.
  pose proof (mu_feat n C st HM (root C) Hrl H0). lia.
Qed.

Lemma bic_of_index v :
  N < v < ts_idx st -> exists bc, In bc (ts_bics st) /\ b_index bc = v.
Proof.
  intros Hv. pose proof (sh_bidx n C st HS) as Hb. pose proof (sh_idx n C st HS) as Hi. fold N in Hb, Hi.
  assert (Hin : In v (map b_index (ts_bics st))).
  { rewrite Hb. apply zseq_In. lia. }
  apply in_map_iff in Hin. destruct Hin as [bc [E Hbc]]. now exists bc.
Qed.

Theorem root_literal : Lt st (root C) = ts_idx st - 1.
Proof.
  pose proof root_lt' as Hrl. pose proof root_lit_tseitin as Hrt.
  destruct (Z.eq_dec (Lt st (root C)) (ts_idx st - 1)) as [E|Hneq]; [exact E|exfalso].
  (* the last allocated variable and its source node a *)
  destruct (bic_of_index (ts_idx st - 1) ltac:(lia)) as [bl [Hbl Hil]].
  destruct (nd_src C st HN bl Hbl) as [a [ca [Ha [Hopa [Hlena [_ [Hia Hlta]]]]]]].
  (* the root's variable and its source node e0 *)
  destruct (bic_of_index (Lt st (root C)) Hrt) as [br [Hbr Hir]].
  destruct (nd_src C st HN br Hbr) as [e0 [ce [He [Hope [Hlene [_ [Hie Hlte]]]]]]].
  assert (Hmue : mu C e0 = mu C (root C)).
  { apply (mu_det n C st HM); auto. now rewrite Hie. }
  assert (He0 : (e0 <= root C)%nat) by (unfold root; lia).
  destruct (lt_eq_lt_dec a e0) as [[Hlt|Heq]|Hgt].
  - specialize (Hlte a Hlt). lia.
  - subst a. lia.
  - destruct (chain (root C) e0 ltac:(lia) He0 Hmue a ltac:(unfold root; lia)) as [[op Hop] _].
    rewrite Hopa in Hop. inversion Hop; subst. cbn in Hlena. lia.
Qed.

Lemma some_allocation : ts_idx st <> N + 1.
Proof. pose proof root_lit_tseitin. lia. Qed.

End Root.
