(* reduce_clause (from_cnf.rs) and prepare (ddnnf.rs prepare_and_apply_incremental_edit). *)
From Coq Require Import List ZArith Bool Lia.
From DD Require Import Model.Circuit Model.Edit Proofs.Semantics Proofs.DetCert.
Import ListNotations.
Open Scope Z_scope.

Lemma lit_true_neg s e : e <> 0 -> lit_true s (- e) = negb (lit_true s e).
Proof.
  intros He. unfold lit_true. rewrite Z.opp_involutive.
  destruct (0 <? e) eqn:H1; destruct (0 <? - e) eqn:H2.
  - apply Z.ltb_lt in H1, H2. lia.
  - reflexivity.
  - now rewrite negb_involutive.
  - apply Z.ltb_ge in H1, H2. lia.
Qed.

Lemma clause_true_app s a b : clause_true s (a ++ b) = clause_true s a || clause_true s b.
Proof. unfold clause_true. apply existsb_app. Qed.

Lemma clause_true_In s c : clause_true s c = true <-> exists l, In l c /\ lit_true s l = true.
Proof. unfold clause_true. apply existsb_exists. Qed.

Lemma clause_true_false s c : clause_true s c = false <-> forall l, In l c -> lit_true s l = false.
Proof.
  split.
  - intros H l Hl. destruct (lit_true s l) eqn:E; [|reflexivity].
    assert (clause_true s c = true) by (apply clause_true_In; eauto). congruence.
  - intros H. destruct (clause_true s c) eqn:E; [|reflexivity].
    apply clause_true_In in E. destruct E as [l [Hl Ht]]. rewrite (H l Hl) in Ht. discriminate.
Qed.

(* the invariant of the loop *)
Record acc_ok (acc : list Z) : Prop := { acc_nodup : NoDup acc; acc_nz : ~ In 0 acc }.

Lemma acc_ok_add acc e : acc_ok acc -> e <> 0 -> acc_ok (if memZ e acc then acc else acc ++ [e]).
Proof.
  intros [Hn Hz] He. destruct (memZ e acc) eqn:E; [split; assumption|].
  apply memZ_false in E. split.
  - apply NoDup_app_intro; [exact Hn|repeat constructor; intros []|].
    intros x Hx [<-|[]]. contradiction.
  - rewrite in_app_iff. intros [H|[H|[]]]; [contradiction|congruence].
Qed.

Lemma clause_true_add s acc e :
  clause_true s (if memZ e acc then acc else acc ++ [e]) = clause_true s acc || lit_true s e.
Proof.
  destruct (memZ e acc) eqn:E.
  - apply memZ_In in E. destruct (lit_true s e) eqn:Ht; [|now rewrite orb_false_r].
    rewrite orb_true_r. apply clause_true_In. eauto.
  - rewrite clause_true_app. cbn. now rewrite orb_false_r.
Qed.

(* soundness w.r.t. every assignment that satisfies the decisions *)
Lemma reduce_go_sound (D : list Z) (s : asg) :
  (forall d, In d D -> lit_true s d = true) ->
  forall c acc, ~ In 0 c -> acc_ok acc ->
  match reduce_go D acc c with
  | None => clause_true s (acc ++ c) = false
  | Some [] => clause_true s (acc ++ c) = true
  | Some r => clause_true s r = clause_true s (acc ++ c) /\ acc_ok r
  end.
Proof.
  intros HD. induction c as [|e c IH]; intros acc Hz Hacc.
  - cbn [reduce_go]. rewrite app_nil_r. destruct acc as [|a acc]; [reflexivity|]. split; [reflexivity|exact Hacc].
  - assert (He : e <> 0) by (intros ->; apply Hz; now left).
    assert (Hz' : ~ In 0 c) by (intros H; apply Hz; now right).
    cbn [reduce_go].
    destruct (memZ (- e) acc) eqn:E1; cbn [orb].
    { (* tautology *)
      apply memZ_In in E1. rewrite clause_true_app. cbn [clause_true existsb].
      destruct (lit_true s e) eqn:Ht; [now rewrite orb_true_r|].
      assert (lit_true s (- e) = true) by (rewrite lit_true_neg, Ht by exact He; reflexivity).
      assert (clause_true s acc = true) by (apply clause_true_In; eauto).
      now rewrite H0. }
    destruct (memZ e D) eqn:E2.
    { apply memZ_In in E2. rewrite clause_true_app. cbn [clause_true existsb].
      rewrite (HD e E2). now rewrite orb_true_r. }
    destruct (memZ (- e) D) eqn:E3; cbn [negb].
    + (* falsified literal dropped *)
      apply memZ_In in E3. pose proof (HD _ E3) as Hne. rewrite lit_true_neg in Hne by exact He.
      apply negb_true_iff in Hne.
      specialize (IH acc Hz' Hacc).
      assert (Heq : clause_true s (acc ++ e :: c) = clause_true s (acc ++ c)).
      { rewrite !clause_true_app. cbn [clause_true existsb]. now rewrite Hne. }
      rewrite Heq. exact IH.
    + specialize (IH _ Hz' (acc_ok_add acc e Hacc He)).
      assert (Heq : clause_true s ((if memZ e acc then acc else acc ++ [e]) ++ c)
                    = clause_true s (acc ++ e :: c)).
      { rewrite !clause_true_app, clause_true_add. cbn [clause_true existsb]. now rewrite orb_assoc. }
      rewrite Heq in IH. exact IH.
Qed.

Theorem reduce_clause_sound (c D : list Z) (s : asg) :
  ~ In 0 c -> (forall d, In d D -> lit_true s d = true) ->
  match reduce_clause c D with
  | None => clause_true s c = false
  | Some [] => c = [] \/ clause_true s c = true
  | Some r => clause_true s r = clause_true s c /\ NoDup r /\ ~ In 0 r
  end.
Proof.
  intros Hz HD. destruct c as [|e c]; [now left|].
  unfold reduce_clause.
  pose proof (reduce_go_sound D s HD (e :: c) [] Hz (Build_acc_ok [] (NoDup_nil _) (fun H => H))) as H.
  cbn [app] in H.
  destruct (reduce_go D [] (e :: c)) as [[|r0 r]|]; [now right| |exact H].
  destruct H as [H1 [H2 H3]]. auto.
Qed.

(* without decisions the result is never None (the panic of prepare_and_apply_incremental_edit
   is unreachable) *)
Lemma reduce_go_nil_some c : forall acc, (acc <> [] \/ c <> []) -> reduce_go [] acc c <> None.
Proof.
  induction c as [|e c IH]; intros acc H.
  - cbn. destruct acc; [destruct H; congruence|discriminate].
  - cbn [reduce_go memZ existsb orb negb]. rewrite orb_false_r.
    destruct (memZ (- e) acc); [discriminate|].
    apply IH. left. destruct (memZ e acc) eqn:E.
    + intros ->. discriminate.
    + destruct acc; discriminate.
Qed.

Theorem reduce_clause_nil_decisions_some c : reduce_clause c [] <> None.
Proof.
  destruct c as [|e c]; [discriminate|]. unfold reduce_clause.
  apply reduce_go_nil_some. right. discriminate.
Qed.

(* ---- characterisation without decisions (what prepare keeps) ---- *)
Definition consistent (acc : list Z) : Prop := forall e, In e acc -> ~ In (- e) acc.

Lemma consistent_add acc e :
  e <> 0 -> consistent acc -> ~ In (- e) acc -> consistent (if memZ e acc then acc else acc ++ [e]).
Proof.
  intros He Hc Hn. destruct (memZ e acc); [exact Hc|].
  intros x Hx. rewrite in_app_iff in *. cbn [In] in *.
  destruct Hx as [Hx|[<-|[]]].
  - intros [H|[H|[]]]; [now apply (Hc x)|]. apply Hn. rewrite H. now rewrite Z.opp_involutive in *.
  - intros [H|[H|[]]]; [contradiction|lia].
Qed.

Lemma in_add x acc e : In x (if memZ e acc then acc else acc ++ [e]) <-> In x acc \/ x = e.
Proof.
  destruct (memZ e acc) eqn:E.
  - apply memZ_In in E. split; [now left|intros [H| ->]; assumption].
  - rewrite in_app_iff. cbn [In]. split.
    + intros [H|[H|[]]]; [now left|right; now symmetry].
    + intros [H|H]; [now left|right; left; now symmetry].
Qed.

Lemma reduce_go_nil_taut c : forall acc,
  reduce_go [] acc c = Some [] -> exists e, In e c /\ In (- e) (acc ++ c).
Proof.
  induction c as [|e c IH]; intros acc H.
  - cbn in H. destruct acc; discriminate.
  - cbn [reduce_go memZ existsb orb negb] in H. rewrite orb_false_r in H.
    destruct (memZ (- e) acc) eqn:E1.
    + apply memZ_In in E1. exists e. split; [now left|]. rewrite in_app_iff. now left.
    + destruct (IH _ H) as [f [Hf Hnf]]. exists f. split; [now right|].
      rewrite in_app_iff in *. destruct Hnf as [Hnf|Hnf]; [|right; now right].
      apply in_add in Hnf. destruct Hnf as [Hnf|Hnf]; [now left|right; left; now symmetry].
Qed.

Lemma reduce_go_nil_taut_conv c : forall acc,
  ~ In 0 c -> consistent acc ->
  (exists e, In e (acc ++ c) /\ In (- e) (acc ++ c)) -> reduce_go [] acc c = Some [].
Proof.
  induction c as [|h c IH]; intros acc Hz Hc [e [H1 H2]].
  - rewrite app_nil_r in *. exfalso. now apply (Hc e).
  - assert (Hh : h <> 0) by (intros ->; apply Hz; now left).
    cbn [reduce_go memZ existsb orb negb]. rewrite orb_false_r.
    destruct (memZ (- h) acc) eqn:E1; [reflexivity|]. apply memZ_false in E1.
    apply IH.
    + intros H; apply Hz; now right.
    + now apply consistent_add.
    + exists e. rewrite !in_app_iff, !in_add. rewrite !in_app_iff in H1, H2. cbn [In] in H1, H2.
      split; [destruct H1 as [?|[?|?]]|destruct H2 as [?|[?|?]]]; auto.
Qed.

Lemma reduce_go_nil_elems c : forall acc r,
  reduce_go [] acc c = Some r -> r <> [] -> forall x, In x r <-> In x acc \/ In x c.
Proof.
  induction c as [|e c IH]; intros acc r H Hr x.
  - cbn in H. destruct acc; [discriminate|]. injection H as <-. split; [now left|intros [H|[]]; exact H].
  - cbn [reduce_go memZ existsb orb negb] in H. rewrite orb_false_r in H.
    destruct (memZ (- e) acc); [injection H as <-; congruence|].
    rewrite (IH _ _ H Hr x), in_add. cbn [In]. split.
    + intros [[H1|H1]|H1]; [now left|right; left; now symmetry|right; now right].
    + intros [H1|[H1|H1]]; [left; now left|left; right; now symmetry|now right].
Qed.

(* a clause is skipped exactly when it is empty or contains a complementary pair *)
Theorem reduce_clause_skipped_iff c :
  ~ In 0 c ->
  (reduce_clause c [] = Some [] <-> c = [] \/ exists e, In e c /\ In (- e) c).
Proof.
  intros Hz. destruct c as [|h c]; [split; [now left|reflexivity]|].
  unfold reduce_clause. split.
  - intros H. right. now apply (reduce_go_nil_taut (h :: c) []).
  - intros [H|H]; [discriminate|]. apply reduce_go_nil_taut_conv; [exact Hz|intros e []|exact H].
Qed.

(* otherwise the same literals, each once *)
Theorem reduce_clause_kept c r :
  ~ In 0 c -> reduce_clause c [] = Some r -> r <> [] ->
  NoDup r /\ (forall x, In x r <-> In x c) /\ (forall s, clause_true s r = clause_true s c).
Proof.
  intros Hz H Hr. destruct c as [|h c]; [cbn in H; injection H as <-; congruence|].
  unfold reduce_clause in H. split; [|split].
  - pose proof (reduce_clause_sound (h :: c) [] (fun _ => true) Hz (fun d Hd => match Hd with end)) as Hs.
    unfold reduce_clause in Hs. rewrite H in Hs. destruct r; [congruence|]. tauto.
  - intros x. rewrite (reduce_go_nil_elems _ _ _ H Hr x). cbn [In]. tauto.
  - intros s. pose proof (reduce_clause_sound (h :: c) [] s Hz (fun d Hd => match Hd with end)) as Hs.
    unfold reduce_clause in Hs. rewrite H in Hs. destruct r; [congruence|]. tauto.
Qed.

(* prepare never panics *)
Lemma prepare_go_no_panic e : forall a r, prepare_go e a r <> PreparePanic.
Proof.
  induction e as [|[c app] e IH]; intros a r; cbn [prepare_go]; [discriminate|].
  pose proof (reduce_clause_nil_decisions_some c) as Hn.
  destruct (reduce_clause c []) as [[|x rc]|]; [apply IH| |congruence].
  destruct app; apply IH.
Qed.

Theorem prepare_no_panic e : prepare e <> PreparePanic.
Proof. apply prepare_go_no_panic. Qed.
