(* The specification edit_spec: adding clauses is conjunction; the unit edit implements it. *)
From Coq Require Import List ZArith Bool Lia.
From DD Require Import Model.Circuit Model.Edit Proofs.PassLemmas Proofs.Semantics Proofs.DetCert
  Proofs.CountsA Proofs.EditReduce Proofs.EditRenumber Proofs.EditUnit.
Import ListNotations.
Open Scope Z_scope.

Lemma subsetZ_In a b : subsetZ a b = true <-> (forall x, In x a -> In x b).
Proof.
  unfold subsetZ. rewrite forallb_forall. split; intros H x Hx.
  - apply memZ_In. now apply H.
  - apply memZ_In. now apply H.
Qed.

Lemma set_eqZ_In a b : set_eqZ a b = true <-> (forall x, In x a <-> In x b).
Proof.
  unfold set_eqZ. rewrite andb_true_iff, !subsetZ_In. split.
  - intros [H1 H2] x. split; auto.
  - intros H. split; intros x Hx; now apply H.
Qed.

Lemma clause_true_ext s a b : (forall x, In x a <-> In x b) -> clause_true s a = clause_true s b.
Proof.
  intros H. destruct (clause_true s a) eqn:Ea; symmetry.
  - apply clause_true_In in Ea. destruct Ea as [l [Hl Ht]]. apply clause_true_In. exists l. split; [now apply H|exact Ht].
  - rewrite clause_true_false in *. intros l Hl. apply Ea. now apply H.
Qed.

Lemma dedup_In c x : In x (dedup c) <-> In x c.
Proof.
  induction c as [|y c IH]; [reflexivity|]. cbn [dedup]. destruct (memZ y c) eqn:E.
  - apply memZ_In in E. rewrite IH. cbn. split; [now right|intros [<-|H]; assumption].
  - cbn. now rewrite IH.
Qed.

Lemma clause_true_dedup s c : clause_true s (dedup c) = clause_true s c.
Proof. apply clause_true_ext. intros x. apply dedup_In. Qed.

Lemma cnf_true_app s F G : cnf_true s (F ++ G) = cnf_true s F && cnf_true s G.
Proof. unfold cnf_true. apply forallb_app. Qed.

Lemma mem_clause_true s c F : mem_clause c F = true -> cnf_true s F = true -> clause_true s c = true.
Proof.
  unfold mem_clause. intros H HF. apply existsb_exists in H. destruct H as [d [Hd He]].
  pose proof (proj1 (set_eqZ_In c d) He) as He'. rewrite (clause_true_ext s c d He').
  unfold cnf_true in HF. rewrite forallb_forall in HF. now apply HF.
Qed.

(* adding clauses one by one (skipping those already present as sets) is conjunction *)
Lemma fold_add_true s adds : forall acc,
  cnf_true s (fold_left (fun acc c => if mem_clause c acc then acc else acc ++ [c]) adds acc)
  = cnf_true s acc && cnf_true s adds.
Proof.
  induction adds as [|c adds IH]; intros acc; [cbn; now rewrite andb_true_r|].
  cbn [fold_left]. rewrite IH. cbn [cnf_true forallb]. fold (cnf_true s adds).
  destruct (mem_clause c acc) eqn:E.
  - destruct (cnf_true s acc) eqn:Ea; [|reflexivity].
    now rewrite (mem_clause_true s c acc E Ea).
  - rewrite cnf_true_app. cbn. rewrite andb_true_r. now rewrite andb_assoc.
Qed.

(* tautological and empty clauses are skipped by the spec; the others are kept up to duplicates *)
Lemma norm_clause_true s c c' : norm_clause c = Some c' -> clause_true s c' = clause_true s c.
Proof.
  unfold norm_clause. destruct (is_nil c || is_taut c); [discriminate|]. intros H. injection H as <-.
  apply clause_true_dedup.
Qed.

Lemma is_taut_true s c : ~ In 0 c -> is_taut c = true -> clause_true s c = true.
Proof.
  intros Hz H. unfold is_taut in H. apply existsb_exists in H. destruct H as [e [He Hn]].
  apply memZ_In in Hn. assert (e <> 0) by (intros ->; contradiction).
  destruct (lit_true s e) eqn:Ht; apply clause_true_In.
  - now exists e.
  - exists (- e). split; [exact Hn|]. rewrite lit_true_neg by assumption. now rewrite Ht.
Qed.

Definition nonempty_clauses (F : cnf) : Prop := forall c, In c F -> c <> [].
Definition nonzero_clauses (F : cnf) : Prop := forall c, In c F -> ~ In 0 c.

Lemma filter_map_norm_true s adds :
  nonempty_clauses adds -> nonzero_clauses adds ->
  cnf_true s (filter_map' norm_clause adds) = cnf_true s adds.
Proof.
  induction adds as [|c adds IH]; intros Hne Hnz; [reflexivity|].
  assert (IH' : cnf_true s (filter_map' norm_clause adds) = cnf_true s adds).
  { apply IH; intros d Hd; [apply Hne|apply Hnz]; now right. }
  cbn [filter_map']. destruct (norm_clause c) as [c'|] eqn:E.
  - cbn [cnf_true forallb]. fold (cnf_true s (filter_map' norm_clause adds)). fold (cnf_true s adds).
    now rewrite (norm_clause_true s c c' E), IH'.
  - cbn [cnf_true forallb]. fold (cnf_true s adds). rewrite IH'.
    unfold norm_clause in E. destruct (is_nil c) eqn:En.
    + destruct c; [exfalso; apply (Hne [] (or_introl eq_refl)); reflexivity|discriminate].
    + cbn in E. destruct (is_taut c) eqn:Et; [|discriminate].
      now rewrite (is_taut_true s c (Hnz c (or_introl eq_refl)) Et).
Qed.

(* adds only: the new clause set is true exactly where the old one and every added clause are *)
Theorem edit_spec_add_true (F : cnf) (n : nat) (adds : cnf) (s : asg) :
  nonempty_clauses adds -> nonzero_clauses adds ->
  cnf_true s (fst (edit_spec F n adds [])) = cnf_true s F && cnf_true s adds.
Proof.
  intros Hne Hnz. unfold edit_spec. cbn [fst].
  rewrite fold_add_true, (filter_map_norm_true s adds Hne Hnz). f_equal.
  cbn [filter_map' mem_clause existsb negb].
  assert (E : filter (fun _ : clause => true) F = F).
  { clear. induction F as [|c F IH]; [reflexivity|]. cbn. now rewrite IH. }
  now rewrite E.
Qed.

(* removal: exactly the clauses that are not (as sets) among the removed ones stay *)
Theorem edit_spec_rmv_In (F : cnf) (n : nat) (rmvs : cnf) (c : clause) :
  In c (fst (edit_spec F n [] rmvs)) <->
  In c F /\ mem_clause c (filter_map' norm_clause rmvs) = false.
Proof.
  unfold edit_spec. cbn [fst filter_map' fold_left]. rewrite filter_In.
  now rewrite negb_true_iff.
Qed.

Theorem edit_spec_n (F : cnf) (n : nat) (adds rmvs : cnf) :
  snd (edit_spec F n adds rmvs) = Nat.max n (Z.to_nat (max_var (filter_map' norm_clause adds))).
Proof. reflexivity. Qed.

(* the unit edit implements edit_spec for a unit clause over an existing variable *)
Theorem unit_edit_is_spec (C : circuit) (F : cnf) (n : nat) (l : Z) :
  WF C n -> 1 <= Z.abs l <= Z.of_nat n -> 0 < MCA C n [l] ->
  Models C n = cnf_models_n F n ->
  Models (unit_edit C l) n = cnf_models_n (fst (edit_spec F n [[l]] [])) n
  /\ snd (edit_spec F n [[l]] []) = n.
Proof.
  intros HWF Hl Hpos HF. split.
  - rewrite (unit_sem C n l HWF Hl Hpos), HF. unfold cnf_models_n. rewrite filter_filter_and.
    apply filter_ext_in. intros m Hm.
    rewrite edit_spec_add_true.
    + f_equal. cbn. rewrite !andb_true_r, orb_false_r. symmetry. now apply lit_true_asg_of with (n := n).
    + intros c [<-|[]]. discriminate.
    + intros c [<-|[]] [H|[]]. lia.
  - rewrite edit_spec_n. cbn [filter_map']. unfold norm_clause. cbn [is_nil orb is_taut existsb memZ].
    assert (E : (- l =? l) = false) by (apply Z.eqb_neq; lia). rewrite E. cbn [orb dedup memZ existsb max_var fold_right].
    lia.
Qed.
