(* C09 pipeline, fitness variant: list-level facts of Model/TwiseFitness.v (merge_sorted_configs,
   swaps / shifts / remove, the stable key sort) - all of them only rearrange configurations - and
   the step lemma of cover_with_caching_sorted. *)
From Coq Require Import List ZArith Bool Arith Lia Permutation.
From DD Require Import Model.Circuit Model.Query Model.Optimal Model.TwiseCfg Model.TwiseMerge Model.TwisePipeline
  Model.TwiseFitness
  Proofs.PassLemmas Proofs.Semantics Proofs.CountsA Proofs.QueryDefs Proofs.C03Proof Proofs.TwiseBase
  Proofs.TwiseSem Proofs.TwiseCfgProof Proofs.TwiseInv Proofs.TwiseAnd.
Import ListNotations.
Open Scope Z_scope.

Section Lists.
Variable vals : list Z.

Lemma merge_sorted_in : forall l r x, In x (merge_sorted vals l r) <-> In x l \/ In x r.
Proof.
  induction l as [|a l IHl]; intros r x.
  - destruct r; cbn; tauto.
  - induction r as [|b r IHr].
    + cbn. tauto.
    + cbn [merge_sorted]. destruct (avg_ge vals a b).
      * cbn [In]. rewrite (IHl (b :: r) x). cbn [In]. tauto.
      * cbn [In]. change ((fix aux (r0 : list config) : list config :=
                             match r0 with
                             | [] => a :: l
                             | b0 :: r' => if avg_ge vals a b0 then a :: merge_sorted vals l r0 else b0 :: aux r'
                             end) r) with (merge_sorted vals (a :: l) r).
        rewrite IHr. cbn [In]. tauto.
Qed.

Lemma merge_sorted_length : forall l r, length (merge_sorted vals l r) = (length l + length r)%nat.
Proof.
  induction l as [|a l IHl]; intros r.
  - destruct r; reflexivity.
  - induction r as [|b r IHr].
    + cbn. lia.
    + cbn [merge_sorted]. destruct (avg_ge vals a b).
      * cbn [length]. rewrite (IHl (b :: r)). cbn [length]. lia.
      * cbn [length]. change ((fix aux (r0 : list config) : list config :=
                             match r0 with
                             | [] => a :: l
                             | b0 :: r' => if avg_ge vals a b0 then a :: merge_sorted vals l r0 else b0 :: aux r'
                             end) r) with (merge_sorted vals (a :: l) r).
        rewrite IHr. cbn [length]. lia.
Qed.

(* ---------- swap / shift / remove ---------- *)
Lemma nth_error_In' {A} (l : list A) i x : nth_error l i = Some x -> In x l.
Proof. apply nth_error_In. Qed.

Lemma swap_at_length i j (l : list config) : length (swap_at i j l) = length l.
Proof. unfold swap_at. destruct (nth_error l i), (nth_error l j); rewrite ?upd_length; reflexivity. Qed.

Lemma swap_at_in i j (l : list config) x : In x (swap_at i j l) <-> In x l.
Proof.
  unfold swap_at. destruct (nth_error l i) as [a|] eqn:Ei; [|tauto].
  destruct (nth_error l j) as [b|] eqn:Ej; [|tauto].
  assert (Hi : (i < length l)%nat) by (apply nth_error_Some; congruence).
  assert (Hj : (j < length l)%nat) by (apply nth_error_Some; congruence).
  split.
  - intros H. apply upd_In in H. destruct H as [->|H]; [now apply nth_error_In with (n := i)|].
    apply upd_In in H. destruct H as [->|H]; [now apply nth_error_In with (n := j)|exact H].
  - intros H. destruct (In_nth_error _ _ H) as [k Hk].
    destruct (Nat.eq_dec k i) as [->|Hki].
    + (* x = a, now at position j *)
      assert (x = a) by congruence. subst x.
      apply nth_error_In with (n := j). apply nth_error_upd_eq. now rewrite upd_length.
    + destruct (Nat.eq_dec k j) as [->|Hkj].
      * assert (x = b) by congruence. subst x.
        apply nth_error_In with (n := i). rewrite nth_error_upd_neq by (intros E; apply Hki; now symmetry).
        now apply nth_error_upd_eq.
      * apply nth_error_In with (n := k).
        rewrite nth_error_upd_neq by (intros E; apply Hkj; now symmetry).
        rewrite nth_error_upd_neq by (intros E; apply Hki; now symmetry). exact Hk.
Qed.

Lemma shift_up_spec c : forall idx l, let (i', l') := shift_up vals c idx l in
  length l' = length l /\ forall x, In x l' <-> In x l.
Proof.
  induction idx as [|i IH]; intros l; cbn [shift_up].
  - split; [reflexivity|tauto].
  - destruct (nth_error l i) as [b|]; [|split; [reflexivity|tauto]].
    destruct (avg_gt vals c b); [|split; [reflexivity|tauto]].
    specialize (IH (swap_at (S i) i l)). destruct (shift_up vals c i (swap_at (S i) i l)) as [i' l'].
    destruct IH as [H1 H2]. split; [now rewrite H1, swap_at_length|].
    intros x. rewrite H2. apply swap_at_in.
Qed.

Lemma shift_down_spec c : forall fuel idx l,
  length (shift_down vals fuel c idx l) = length l /\ forall x, In x (shift_down vals fuel c idx l) <-> In x l.
Proof.
  induction fuel as [|f IH]; intros idx l; cbn [shift_down].
  - split; [reflexivity|tauto].
  - destruct (S idx <? length l)%nat; [|split; [reflexivity|tauto]].
    destruct (nth_error l (S idx)) as [b|]; [|split; [reflexivity|tauto]].
    destruct (avg_lt vals c b); [|split; [reflexivity|tauto]].
    destruct (IH (S idx) (swap_at idx (S idx) l)) as [H1 H2]. split; [now rewrite H1, swap_at_length|].
    intros x. rewrite H2. apply swap_at_in.
Qed.

Lemma remove_at_in {A} : forall (l : list A) i x, In x (remove_at i l) -> In x l.
Proof.
  induction l as [|a l IH]; intros i x H; destruct i; cbn in H; try contradiction.
  - now right.
  - destruct H as [<-|H]; [now left|right; now apply (IH i)].
Qed.

Lemma remove_at_keeps {A} : forall (l : list A) i c x, nth_error l i = Some c -> In x l ->
  x = c \/ In x (remove_at i l).
Proof.
  induction l as [|a l IH]; intros i c x Hn Hx; [destruct Hx|].
  destruct i; cbn in *.
  - injection Hn as <-. destruct Hx; auto.
  - destruct Hx as [<-|Hx]; [right; now left|]. destruct (IH i c x Hn Hx); [now left|right; now right].
Qed.

(* ---------- the stable key sort ---------- *)
Lemma insert_key_in x l y : In y (insert_key x l) <-> y = x \/ In y l.
Proof.
  induction l as [|z l IH]; cbn [insert_key]; [cbn; intuition|].
  destruct (fst x <=? fst z); cbn [In]; [intuition|]. rewrite IH. intuition.
Qed.

Lemma sort_key_in l y : In y (sort_key l) <-> In y l.
Proof.
  unfold sort_key. induction l as [|x l IH]; cbn [fold_right]; [tauto|].
  rewrite insert_key_in, IH. cbn [In]. intuition.
Qed.

Lemma fold_left_map {A B D} (f : A -> B -> A) (g : D -> B) (l : list D) (a : A) :
  fold_left (fun acc x => f acc (g x)) l a = fold_left f (map g l) a.
Proof. revert a. induction l as [|x l IH]; intros a; [reflexivity|]. cbn. apply IH. Qed.

End Lists.

(* ---------- s_insert ---------- *)
Section Ins.
Variables (C : circuit) (n : nat).
Notation CfgOK := (CfgOK C n).
Notation SampOK := (SampOK C n).

Lemma s_insert_iter S c x : In x (s_iter (s_insert S c)) <-> x = c \/ In x (s_iter S).
Proof.
  unfold s_insert, insert_sorted, s_iter. destruct (s_is_complete S c); cbn [s_comp s_part];
    rewrite !in_app_iff; cbn [In]; intuition.
Qed.

Lemma s_insert_vars S c : s_vars (s_insert S c) = s_vars S.
Proof. unfold s_insert. destruct (s_is_complete S c); reflexivity. Qed.

Lemma s_insert_lits S c : s_lits (s_insert S c) = s_lits S.
Proof. unfold s_insert. destruct (s_is_complete S c); reflexivity. Qed.

Lemma s_insert_ok r W S c : SampOK r W S -> CfgOK r W c -> SampOK r W (s_insert S c).
Proof.
  intros [H1 H2 H3 H4] Hc. constructor.
  - now rewrite s_insert_vars.
  - now rewrite s_insert_vars.
  - apply Forall_forall. intros x Hx. apply s_insert_iter in Hx. destruct Hx as [->|Hx]; [exact Hc|].
    rewrite Forall_forall in H3. now apply H3.
  - rewrite s_insert_vars. intros c0 Hc0. unfold s_insert, insert_sorted, s_is_complete in Hc0.
    destruct (Nat.eqb_spec (c_ndec c) (length (s_vars S))) as [E|E]; cbn [s_comp] in Hc0; [|now apply H4].
    apply in_app_iff in Hc0. destruct Hc0 as [Hc0|[<-|[]]]; [now apply H4|exact E].
Qed.

Lemma insert_fold r W : forall cfgs S, Forall (CfgOK r W) cfgs -> SampOK r W S ->
  let S' := fold_left s_insert cfgs S in
  SampOK r W S' /\ s_vars S' = s_vars S /\ s_lits S' = s_lits S /\
  (forall x, In x (s_iter S') <-> In x cfgs \/ In x (s_iter S)).
Proof.
  induction cfgs as [|c cfgs IH]; intros S Hc HS; cbn [fold_left]; cbv zeta.
  - split; [exact HS|]. split; [reflexivity|]. split; [reflexivity|]. intros x. cbn. tauto.
  - inversion Hc; subst. destruct (IH (s_insert S c)) as [G1 [G2 [G3 G4]]]; [assumption|now apply s_insert_ok|].
    cbv zeta in *. split; [exact G1|]. split; [now rewrite G2, s_insert_vars|]. split; [now rewrite G3, s_insert_lits|].
    intros x. rewrite G4, s_insert_iter. cbn [In]. intuition.
Qed.

End Ins.

(* ---------- cover_with_caching_sorted ---------- *)
Section Sorted.
Variables (C : circuit) (n : nat) (vals : list Z).
Hypothesis HQ : WFQ C n.
Let d := build C n.

Notation valid := (valid C).
Notation V := (V C).
Notation CfgOK := (CfgOK C n).
Notation SampOK := (SampOK C n).
Notation LitsC := (LitsC C).

Variables (r : nat) (W : list Z).
Hypothesis Hr : (r < length C)%nat.
Hypothesis HRr : Live.Reach C r.
Hypothesis HW : incl W (V r).

Lemma cover_sorted_step S I : SampOK r W S -> LitsC I -> (forall l, In l I -> In (Z.abs l) W) ->
  0 < cnt C r ->
  let S' := cover_sorted d vals r S I in
  SampOK r W S' /\ s_vars S' = s_vars S /\ s_lits S' = s_lits S /\
  (valid r I -> Covers S' I) /\ (forall J, Covers S J -> Covers S' J).
Proof.
  intros HS HI HIW Hpos. unfold cover_sorted. change (nv d) with n.
  destruct (s_covers S I) eqn:Ecov.
  - cbv zeta. split; [exact HS|]. split; [reflexivity|]. split; [reflexivity|]. split; [|auto].
    intros _. apply (s_covers_spec C n r W S I HS (LitsC_range C n HQ I HI)). exact Ecov.
  - destruct (sat_call C n HQ r [] I (new_state d) Hr Hpos (new_state_inv C n) HI) as [Hans Hinv]. cbn [app] in *.
    fold d in Hans, Hinv.
    destruct (sat_propagate d I (new_state d) (Some r)) as [m b] eqn:Eq. cbn [fst snd] in *.
    destruct b; cbn [negb].
    + assert (Hv : valid r I) by (unfold TwiseSem.valid; apply Z.ltb_lt; now symmetry).
      destruct HS as [H1 H2 H3 H4]. pose proof H3 as H3'. unfold s_iter in H3'. apply Forall_app in H3'.
      destruct H3' as [Hcomp Hpart].
      destruct (cover d r (s_part S) I 0) as [P' res] eqn:Ec.
      destruct (cover_spec C n HQ r W I Hr HRr HW HI HIW (s_part S) 0%nat P' res Hpart Ec) as [G1 [G2 [G3 [_ G5]]]].
      assert (Hall : Forall (CfgOK r W) (s_comp S ++ P')) by (apply Forall_app; now split).
      assert (Hmono : forall (S' : sample), (forall x, In x (s_comp S ++ P') -> In x (s_iter S')) ->
                      forall J, Covers S J -> Covers S' J).
      { intros S' Hsub J [c [Hc HJ]]. unfold s_iter in Hc. apply in_app_iff in Hc. destruct Hc as [Hc|Hc].
        - exists c. split; [|exact HJ]. apply Hsub. apply in_app_iff. now left.
        - destruct (G3 J (ex_intro _ c (conj Hc HJ))) as [c2 [Hc2 HJ2]]. exists c2. split; [|exact HJ2].
          apply Hsub. apply in_app_iff. now right. }
      rewrite Forall_forall in Hall.
      destruct res as [idx|]; cbv zeta.
      * destruct G5 as [_ [c' [Hn Hc']]]. rewrite Nat.sub_0_r in Hn. rewrite Hn.
        assert (Hc'in : In c' P') by now apply nth_error_In with (n := idx).
        unfold s_is_complete. destruct (Nat.eqb_spec (c_ndec c') (length (s_vars S))) as [E|E].
        -- unfold insert_sorted.
           assert (Hsub : forall x, In x (s_comp S ++ P') ->
                     In x (s_iter (mkS (s_comp S ++ [c']) (remove_at idx P') (s_vars S) (s_lits S)))).
           { intros x Hx. unfold s_iter. cbn [s_comp s_part]. rewrite !in_app_iff. apply in_app_iff in Hx.
             destruct Hx as [Hx|Hx]; [left; now left|].
             destruct (remove_at_keeps P' idx c' x Hn Hx) as [->|Hk]; [left; right; now left|now right]. }
           split; [|split; [reflexivity|split; [reflexivity|split]]].
           ++ apply SampOK_of; try assumption.
              ** apply Forall_forall. intros x Hx. rewrite !in_app_iff in Hx. apply Hall. apply in_app_iff.
                 destruct Hx as [[Hx|[<-|[]]]|Hx]; [now left|now right|right; now apply remove_at_in in Hx].
              ** intros c Hc. apply in_app_iff in Hc. destruct Hc as [Hc|[<-|[]]]; [now apply H4|exact E].
           ++ intros _. exists c'. split; [|exact Hc']. apply Hsub. apply in_app_iff. now right.
           ++ now apply Hmono.
        -- pose proof (shift_up_spec vals c' idx P') as Hup.
           destruct (shift_up vals c' idx P') as [i1 P1]. destruct Hup as [U1 U2].
           destruct (shift_down_spec vals c' (length P1) i1 P1) as [D1 D2].
           assert (Hsub : forall x, In x (s_comp S ++ P') ->
                     In x (s_iter (mkS (s_comp S) (shift_down vals (length P1) c' i1 P1) (s_vars S) (s_lits S)))).
           { intros x Hx. unfold s_iter. cbn [s_comp s_part]. apply in_app_iff in Hx. apply in_app_iff.
             destruct Hx as [Hx|Hx]; [now left|right]. apply D2. now apply U2. }
           split; [|split; [reflexivity|split; [reflexivity|split]]].
           ++ apply SampOK_of; try assumption.
              apply Forall_forall. intros x Hx. apply in_app_iff in Hx. apply Hall. apply in_app_iff.
              destruct Hx as [Hx|Hx]; [now left|right]. apply U2. now apply D2.
           ++ intros _. exists c'. split; [|exact Hc']. apply Hsub. apply in_app_iff. now right.
           ++ now apply Hmono.
      * destruct (new_config_ok C n HQ r W Hr HW I m HI HIW Hv (Hinv eq_refl)) as [Hok Hdec].
        set (cn := c_set_state (c_from n I) m) in *.
        set (S0 := mkS (s_comp S) P' (s_vars S) (s_lits S)).
        assert (HS0 : SampOK r W S0).
        { apply SampOK_of; try assumption. now apply Forall_forall. }
        split; [now apply s_insert_ok|]. split; [now rewrite s_insert_vars|]. split; [now rewrite s_insert_lits|]. split.
        -- intros _. exists cn. split; [apply s_insert_iter; now left|]. intros l Hl. now apply Hdec.
        -- apply Hmono. intros x Hx. apply s_insert_iter. now right.
    + cbv zeta. split; [exact HS|]. split; [reflexivity|]. split; [reflexivity|]. split; [|auto].
      intros Hv. unfold TwiseSem.valid in Hv. apply Z.ltb_lt in Hv. congruence.
Qed.

(* the fold over the ordered interactions *)
Lemma fold_sorted : forall Xs S, SampOK r W S -> 0 < cnt C r ->
  (forall X, In X Xs -> LitsC X /\ (forall l, In l X -> In (Z.abs l) W)) ->
  let S' := fold_left (cover_sorted d vals r) Xs S in
  SampOK r W S' /\ s_vars S' = s_vars S /\ s_lits S' = s_lits S /\
  (forall J, Covers S J -> Covers S' J) /\
  (forall X, In X Xs -> valid r X -> Covers S' X).
Proof.
  induction Xs as [|X Xs IH]; intros S HS Hpos HX; cbn [fold_left]; cbv zeta.
  - split; [exact HS|]. split; [reflexivity|]. split; [reflexivity|]. split; [auto|intros X []].
  - destruct (HX X (or_introl eq_refl)) as [A1 A2].
    destruct (cover_sorted_step S X HS A1 A2 Hpos) as [K1 [K2 [K2' [K3 K4]]]]. cbv zeta in *.
    destruct (IH (cover_sorted d vals r S X) K1 Hpos) as [G1 [G2 [G2' [G3 G4]]]]; [intros Y HY; apply HX; now right|].
    cbv zeta in *. split; [exact G1|]. split; [now rewrite G2|]. split; [now rewrite G2'|]. split; [auto|].
    intros Y [<-|HY] Hv; [apply G3; now apply K3|now apply G4].
Qed.

End Sorted.
