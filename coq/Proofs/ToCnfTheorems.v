(* C19: the statements of Props/C19.v, phrased on `to_cnf C n = Ok F` (the code after the repair
   F20), and the witnesses about `to_cnf_v0` (the code before it). *)
From Coq Require Import List ZArith Bool Lia Permutation.
From DD Require Import Model.Circuit Model.ToCnf Proofs.PassLemmas Proofs.Enum Proofs.Semantics
  Proofs.DetCert Proofs.ToCnfBase Proofs.ToCnfInv Proofs.ToCnfRoot Proofs.ToCnfSem Proofs.ToCnfMain
  Proofs.ToCnfCount.
Import ListNotations.
Open Scope Z_scope.

(* ---------- the repaired walk never panics on a well-indexed vector ---------- *)

Lemma run_total len (C : circuit) :
  (forall nd, In nd C -> forallb (fun c => Nat.ltb c len) (children nd) = true) ->
  forall st, exists st', run len C st = Done st'.
Proof.
  induction C as [|nd C IH]; intros H st; [now exists st|].
  cbn [run]. destruct (step_total len st nd (H nd (or_introl eq_refl))) as [st1 ->].
  apply IH. intros nd' Hnd'. apply H. now right.
Qed.

Theorem to_cnf_total (C : circuit) (n : nat) : idx_ok C = true -> exists F, to_cnf C n = Ok F.
Proof.
  intros Hok. unfold to_cnf.
  destruct (run_total (length C) C) with (st := init_state n) as [st ->].
  - intros nd Hnd. destruct (In_nth C nd FalseN Hnd) as [i [Hi <-]].
    apply forallb_forall. intros c Hc. apply Nat.ltb_lt.
    pose proof (idx_ok_nth C i FalseN Hok Hi c Hc). lia.
  - destruct (ts_idx st =? Z.of_nat n + 1); eexists; reflexivity.
Qed.

Lemma wf_lits_range C n l :
  CWF C n -> all_reachable C = true -> In (Lit l) C -> 1 <= Z.abs l <= Z.of_nat n.
Proof. intros HWF Hr H. destruct (wf_lits_ok C n HWF Hr l H) as [H0 H1]. lia. Qed.

Section Top.
Variables (C : circuit) (n : nat) (F : cnf).
Hypothesis Hne : C <> [].
Hypothesis Hok : idx_ok C = true.
Hypothesis Hcomp : complete C n = true.
Hypothesis Hreach : all_reachable C = true.
Hypothesis Hn : (2 <= n)%nat.
Hypothesis HF : to_cnf C n = Ok F.

Let HWF : CWF C n := conj Hne (conj Hok Hcomp).

Lemma F_final : exists st, run (length C) C (init_state n) = Done st /\ F = final_cnf st.
Proof.
  destruct (to_cnf_ok_inv C n F HF) as [st [Hrun HFe]]. exists st. split; [exact Hrun|].
  exact (final_is_result C n st HWF Hreach Hn Hrun F HFe).
Qed.

Theorem tseitin_sound (b : asg) :
  cnf_sat b F = true -> eval_root b C = true /\ In (canon n b) (Models C n).
Proof.
  destruct F_final as [st [Hrun ->]]. intros Hs.
  pose proof (final_sound C n st HWF Hreach Hn Hrun b Hs) as He. split; [exact He|].
  unfold Models. apply filter_In. split; [apply canon_in_all|].
  rewrite (eval_root_ext C (asg_of (canon n b)) b); [exact He|].
  intros l Hl. apply asg_canon. now apply (wf_lits_range C n l HWF Hreach).
Qed.

Theorem tseitin_extension (s : asg) :
  eval_root s C = true ->
  exists b, cnf_sat b F = true /\ (forall v, 1 <= v <= Z.of_nat n -> b v = s v) /\
    forall b', cnf_sat b' F = true -> (forall v, 1 <= v <= Z.of_nat n -> b' v = s v) ->
               forall v, 1 <= v <= Z.of_nat (num_variables F) -> b' v = b v.
Proof.
  destruct F_final as [st [Hrun ->]]. intros He.
  destruct (final_complete C n st HWF Hreach Hn Hrun s He) as [Hsat Hag].
  exists (ext s (ts_bics st)). split; [exact Hsat|]. split; [intros v Hv; apply Hag; lia|].
  intros b' Hs' Hag' v Hv. rewrite (final_num_variables C n st HWF Hreach Hn Hrun) in Hv.
  apply (final_unique C n st HWF Hreach Hn Hrun s b' Hs' Hag'). lia.
Qed.

Theorem tseitin_header :
  header_of F = (length (nodup Z.eq_dec (map Z.abs (concat (clauses F)))), length (clauses F)) /\
  (forall v, In v (map Z.abs (concat (clauses F))) <-> 1 <= v <= Z.of_nat (num_variables F)) /\
  (n < num_variables F)%nat.
Proof.
  destruct F_final as [st [Hrun ->]].
  pose proof (final_num_variables C n st HWF Hreach Hn Hrun) as HK.
  pose proof (idx_gt C n st HWF Hreach Hn Hrun) as Hg.
  split; [reflexivity|]. split.
  - intros v. rewrite HK. apply (final_vars C n st HWF Hreach Hn Hrun).
  - apply Nat2Z.inj_lt. lia.
Qed.

Theorem tseitin_projection : Permutation (map (firstn n) (cnf_models F)) (Models C n).
Proof. destruct F_final as [st [Hrun ->]]. exact (final_projection C n st HWF Hreach Hn Hrun). Qed.

Theorem tseitin_equicount_models : Z.of_nat (length (cnf_models F)) = MC C n.
Proof. destruct F_final as [st [Hrun ->]]. exact (final_count_models C n st HWF Hreach Hn Hrun). Qed.

End Top.

(* the cached root count: needs the d-DNNF properties, i.e. the whole C01 bundle WF *)
Theorem tseitin_equicount (C : circuit) (n : nat) (F : cnf) :
  WF C n -> all_reachable C = true -> (2 <= n)%nat -> to_cnf C n = Ok F ->
  Z.of_nat (length (cnf_models F)) = root_count C.
Proof.
  intros HWF Hreach Hn HF. rewrite (count_is_MC C n HWF).
  exact (tseitin_equicount_models C n F (wf_nonempty C n HWF) (wf_idx C n HWF) (wf_complete C n HWF)
           Hreach Hn HF).
Qed.

(* ---------- the code before the repair F20: to_cnf_v0 ---------- *)

Lemma run_v0_no_true_false len C st st' : run_v0 len C st = Done st' -> no_true_false C = true.
Proof.
  revert st. induction C as [|nd C IH]; intros st H; [reflexivity|].
  cbn [run_v0] in H. destruct (step_v0 len st nd) as [st1|p] eqn:E; [|discriminate].
  unfold no_true_false. cbn [forallb]. apply andb_true_iff. split; [|exact (IH st1 H)].
  destruct nd; try reflexivity; cbn in E; discriminate.
Qed.

Theorem v0_ok_no_true_false C n F : to_cnf_v0 C n = Ok F -> no_true_false C = true.
Proof.
  unfold to_cnf_v0. destruct (run_v0 (length C) C (init_state n)) as [st|p] eqn:E; [|discriminate].
  intros _. exact (run_v0_no_true_false _ _ _ _ E).
Qed.

(* where the old code returned a CNF, the repaired code returns the same CNF *)
Lemma step_v0_done len st nd st' : step_v0 len st nd = Done st' -> step len st nd = Done st'.
Proof.
  destruct nd as [l|cs|cs| |]; cbn [step_v0 step]; try discriminate; try (intros H; exact H);
    unfold step_op_v0, step_op, step_lits, transform_operation_v0;
    destruct (nodes_to_literals len cs (ts_lits st)) as [lits|p]; try discriminate;
    destruct lits as [|l1 lits]; try discriminate; intros H; exact H.
Qed.

Lemma run_v0_done len C st st' : run_v0 len C st = Done st' -> run len C st = Done st'.
Proof.
  revert st. induction C as [|nd C IH]; intros st H; [exact H|].
  cbn [run_v0] in H. cbn [run]. destruct (step_v0 len st nd) as [st1|p] eqn:E; [|discriminate].
  rewrite (step_v0_done _ _ _ _ E). now apply IH.
Qed.

Theorem v0_ok_same C n F : to_cnf_v0 C n = Ok F -> to_cnf C n = Ok F.
Proof.
  unfold to_cnf_v0, to_cnf. destruct (run_v0 (length C) C (init_state n)) as [st|p] eqn:E; [|discriminate].
  now rewrite (run_v0_done _ _ _ _ E).
Qed.

(* ---------- witnesses ---------- *)

(* the flattened `nnf 4 3 2 / A 0 / L 1 / L 2 / A 3 0 1 2` (c2d with a true node) *)
Definition ex_true_node : circuit := [TrueN; Lit 1; Lit 2; And [2; 1; 0]%nat].

Theorem v0_refuted_true_node :
  exists C n, WF C n /\ all_reachable C = true /\ (2 <= n)%nat /\ to_cnf_v0 C n = Panic PanicTrue.
Proof.
  exists ex_true_node, 2%nat. split; [apply check_wf_sound; vm_compute; reflexivity|].
  split; [vm_compute; reflexivity|]. split; [lia|vm_compute; reflexivity].
Qed.

(* what ddnnife loads from the d4 text
     o 1 0 / o 2 0 / f 3 0 / t 4 0 / 1 2 1 0 / 1 4 -1 2 0 / 2 3 2 0     (2 features)
   : the or node 2 lost its only (false) child and stays in the vector without children *)
Definition ex_empty_or : circuit :=
  [Lit (-1); Lit 2; And [1; 0]%nat; Lit 1; Or []; And [4; 3]%nat; Lit (-2); Or [6; 1]%nat;
   And [7; 5]%nat; Or [8; 2]%nat].

Theorem v0_refuted_empty_operation :
  exists C n, WF C n /\ all_reachable C = true /\ no_true_false C = true /\ (2 <= n)%nat /\
              to_cnf_v0 C n = Panic PanicEmptyOp.
Proof.
  exists ex_empty_or, 2%nat. split; [apply check_wf_sound; vm_compute; reflexivity|].
  split; [vm_compute; reflexivity|]. split; [vm_compute; reflexivity|].
  split; [lia|vm_compute; reflexivity].
Qed.

(* Why all_reachable is a hypothesis: WF alone (as in C01) allows garbage nodes in the vector; then
   the last allocated variable need not be the root's and the asserted unit clause is wrong. *)
Definition ex_unreachable : circuit :=
  [Lit 1; Lit 2; Lit (-1); Lit (-2); And [0; 1]%nat; And [2; 3]%nat; Or [4; 5]%nat; And [0; 1]%nat].

Theorem reachability_needed :
  exists C n F b, WF C n /\ (2 <= n)%nat /\ to_cnf C n = Ok F /\
                  cnf_sat b F = true /\ eval_root b C = false.
Proof.
  exists ex_unreachable, 2%nat.
  eexists. exists (fun v => (v =? 4) || (v =? 5)).
  split.
  { constructor; try (vm_compute; reflexivity); [discriminate|].
    apply det_cert_sound; vm_compute; reflexivity. }
  split; [lia|]. split; [vm_compute; reflexivity|]. split; vm_compute; reflexivity.
Qed.

(* Why 2 <= n is a hypothesis: a model that is a single literal allocates no variable and
   Cnf::from returns the EMPTY CNF (`p cnf 0 0`), which says nothing about feature 1. *)
Theorem two_features_needed :
  exists C F, WF C 1 /\ all_reachable C = true /\ to_cnf C 1 = Ok F /\
              Models C 1 = [[1]] /\ map (firstn 1) (cnf_models F) = [[]] /\ header_of F = (0%nat, 0%nat).
Proof.
  exists [Lit 1], (mkCnf 0 []). split; [apply check_wf_sound; vm_compute; reflexivity|].
  repeat split; vm_compute; reflexivity.
Qed.
