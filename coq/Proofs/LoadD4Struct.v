(* Structural bookkeeping for the passes that ADD nodes (edge expansion, free features,
   smoothing): `ext g g' D` = every node of g keeps its label, and keeps its child list unless it
   is in D; the tables next to the graph (literals_nx, or_triangles) described structurally
   (tables_ok); or-triangles (tri_node) and their value; add_literal_node(s). *)
From Coq Require Import List ZArith Bool Lia Arith.
From DD Require Import Model.Circuit Model.LoadC2d Model.LoadD4 Proofs.LoadD4Graph Proofs.LoadD4Ops.
Import ListNotations.
Local Open Scope nat_scope.

Record ext (g g' : sgraph) (D : list nat) : Prop := {
  ex_label : forall y, sg_alive g y = true -> sg_label g' y = sg_label g y;
  ex_out : forall y, sg_alive g y = true -> ~ In y D -> sg_out g' y = sg_out g y
}.

Lemma ext_alive g g' D y : ext g g' D -> sg_alive g y = true -> sg_alive g' y = true.
Proof. intros H Ha. unfold sg_alive in *. now rewrite (ex_label _ _ _ H y Ha). Qed.

Lemma ext_refl g D : ext g g D.
Proof. constructor; auto. Qed.

Lemma ext_weaken g g' D D' : incl D D' -> ext g g' D -> ext g g' D'.
Proof. intros Hi [H1 H2]. constructor; [exact H1|]. intros y Ha Hn. apply H2; [exact Ha|]. intros Hin. apply Hn, Hi, Hin. Qed.

Lemma ext_trans g1 g2 g3 D : ext g1 g2 D -> ext g2 g3 D -> ext g1 g3 D.
Proof.
  intros H12 H23. constructor.
  - intros y Ha. rewrite (ex_label _ _ _ H23 y (ext_alive _ _ _ _ H12 Ha)). now apply (ex_label _ _ _ H12).
  - intros y Ha Hn. rewrite (ex_out _ _ _ H23 y (ext_alive _ _ _ _ H12 Ha) Hn). now apply (ex_out _ _ _ H12).
Qed.

Lemma ext_label_some g g' D y t : ext g g' D -> sg_label g y = Some t -> sg_label g' y = Some t.
Proof. intros H Hl. rewrite (ex_label _ _ _ H y); [exact Hl|]. unfold sg_alive. now rewrite Hl. Qed.

(* ---------- the primitives ---------- *)
Lemma add_node_ext rc t g g' x D : Inv g -> add_node rc t g = (x, g') -> ext g g' D.
Proof.
  intros HI H. constructor.
  - intros y Ha. apply (add_node_label_old rc t g g' x H). intros ->.
    unfold sg_alive in Ha. now rewrite (add_node_fresh rc t g g' x HI H) in Ha.
  - intros y _ _. apply (add_node_out rc t g g' x H).
Qed.

Lemma add_edge_ext a b g g' D : add_edge a b g = Some g' -> In a D -> ext g g' D.
Proof.
  intros H Ha. constructor.
  - intros y _. apply (add_edge_label a b g g' H).
  - intros y _ Hn. apply (add_edge_out_other a b g g' H). intros ->. now apply Hn.
Qed.

Lemma remove_edge_ext a b g D : In a D -> ext g (remove_edge a b g) D.
Proof.
  intros Ha. constructor.
  - reflexivity.
  - intros y _ Hn. apply remove_edge_out_other. intros ->. now apply Hn.
Qed.

(* ---------- or-triangles ---------- *)
Definition tri_node (g : sgraph) (f o : nat) : Prop :=
  1 <= f /\ sg_label g o = Some GOr /\
  exists n p, sg_out g o = [n; p] /\ sg_label g n = Some (GLit (- Z.of_nat f)) /\
              sg_label g p = Some (GLit (Z.of_nat f)).

Lemma lit_or_neg s f : 1 <= f -> lit_true s (- Z.of_nat f) || lit_true s (Z.of_nat f) = true.
Proof.
  intros Hf. unfold lit_true.
  assert (H1 : (0 <? - Z.of_nat f)%Z = false) by (apply Z.ltb_ge; lia).
  assert (H2 : (0 <? Z.of_nat f)%Z = true) by (apply Z.ltb_lt; lia).
  rewrite H1, H2, Z.opp_involutive. apply orb_negb_l.
Qed.

Lemma tri_node_true g f o s : tri_node g f o -> GV g s o true.
Proof.
  intros [Hf [Hl [n [p [Ho [Hn Hp]]]]]].
  replace true with (existsb id [lit_true s (- Z.of_nat f); lit_true s (Z.of_nat f)]).
  - apply GV_or; [exact Hl|]. rewrite Ho. repeat constructor; now apply GV_lit.
  - cbn [existsb id]. rewrite orb_false_r. now apply lit_or_neg.
Qed.

Lemma tri_node_ext g g' D f o : ext g g' D -> ~ In o D -> tri_node g f o -> tri_node g' f o.
Proof.
  intros He Hn [Hf [Hl [n [p [Ho [Hln Hlp]]]]]]. split; [exact Hf|].
  split; [now apply (ext_label_some g g' D)|]. exists n, p.
  split; [|split; now apply (ext_label_some g g' D)].
  rewrite (ex_out _ _ _ He o); [exact Ho| |exact Hn]. unfold sg_alive. now rewrite Hl.
Qed.

(* ---------- the tables ---------- *)
(* P = what is known about every literal that labels a leaf (non-zero, within the feature range);
   literals_nx is exactly the set of literal leaves: one leaf per literal *)
(* st = true: additionally only and / or nodes have outgoing edges (needs a file without edges out of
   t / f nodes; not needed for the semantics theorem) *)
Record core_ok (P : Z -> Prop) (st : bool) (s : lstate) : Prop := {
  co_inv : Inv (ls_g s);
  co_lits : forall l z, lookupZ (ls_lits s) l = Some z -> sg_label (ls_g s) z = Some (GLit l);
  co_pos : forall z l, sg_label (ls_g s) z = Some (GLit l) -> P l;
  co_inj : forall z l, sg_label (ls_g s) z = Some (GLit l) -> lookupZ (ls_lits s) l = Some z;
  co_src : st = true -> srcs_ok (ls_g s)
}.
Definition tris_ok (s : lstate) : Prop :=
  forall f o, lookup_nat (ls_tri s) f = Some o -> tri_node (ls_g s) f o.
Definition tables_ok (P : Z -> Prop) (st : bool) (s : lstate) : Prop := core_ok P st s /\ tris_ok s.

Lemma lookupZ_cons m k v k' : lookupZ ((k, v) :: m) k' = if Z.eqb k k' then Some v else lookupZ m k'.
Proof. reflexivity. Qed.
Lemma lookup_nat_cons m k v k' : lookup_nat ((k, v) :: m) k' = if Nat.eqb k k' then Some v else lookup_nat m k'.
Proof. reflexivity. Qed.

Lemma ext_drop_dead g g' D o : sg_alive g o = false -> ext g g' (o :: D) -> ext g g' D.
Proof.
  intros Ho [H1 H2]. constructor; [exact H1|]. intros y Ha Hn. apply H2; [exact Ha|].
  intros [<-|Hin]; [congruence|now apply Hn].
Qed.

(* the or-triangles of the table survive every extension whose D contains no Or node *)
Lemma tris_ok_ext s s' D :
  tris_ok s -> ext (ls_g s) (ls_g s') D -> (forall y, In y D -> sg_label (ls_g s) y <> Some GOr) ->
  ls_tri s' = ls_tri s -> tris_ok s'.
Proof.
  intros Ht He HD Htri f o Hfo. rewrite Htri in Hfo. apply (tri_node_ext _ _ D f o He); [|now apply Ht].
  intros Hin. destruct (Ht f o Hfo) as [_ [Hl _]]. now apply (HD o Hin).
Qed.

(* ---------- provenance of labels, growth of the triangle table ---------- *)
Definition in_tab (s : lstate) (o : nat) : Prop := exists f, lookup_nat (ls_tri s) f = Some o.
Definition tri_grow (s s' : lstate) : Prop :=
  forall f o, lookup_nat (ls_tri s) f = Some o -> lookup_nat (ls_tri s') f = Some o.
Definition is_litk (t : tid) : Prop := exists l, t = GLit l.
(* every label of s' is a label of s, or belongs to a new leaf, a triangle of the table, or one
   of the and nodes `ands` *)
Definition lprov (s s' : lstate) (ands : list nat) : Prop :=
  forall y t, sg_label (ls_g s') y = Some t ->
    sg_label (ls_g s) y = Some t \/ is_litk t \/ (t = GOr /\ in_tab s' y) \/ (t = GAnd /\ In y ands).

Lemma tri_grow_refl s : tri_grow s s.
Proof. intros f o H. exact H. Qed.
Lemma tri_grow_trans s1 s2 s3 : tri_grow s1 s2 -> tri_grow s2 s3 -> tri_grow s1 s3.
Proof. intros H12 H23 f o H. apply H23, H12, H. Qed.
Lemma tri_grow_eq s s' : ls_tri s' = ls_tri s -> tri_grow s s'.
Proof. intros E f o H. now rewrite E. Qed.

Lemma lprov_refl s : lprov s s [].
Proof. intros y t H. now left. Qed.
Lemma lprov_same s s' : (forall y, sg_label (ls_g s') y = sg_label (ls_g s) y) -> lprov s s' [].
Proof. intros E y t H. left. now rewrite <- E. Qed.
Lemma lprov_trans s1 s2 s3 a1 a2 : lprov s1 s2 a1 -> lprov s2 s3 a2 -> tri_grow s2 s3 ->
  lprov s1 s3 (a1 ++ a2).
Proof.
  intros H12 H23 Hg y t H. destruct (H23 y t H) as [H2|[H2|[H2|[H2 Hin]]]].
  - destruct (H12 y t H2) as [H1|[H1|[[H1 [f Hf]]|[H1 Hin]]]]; auto.
    + right. right. left. split; [exact H1|]. exists f. now apply Hg.
    + right. right. right. split; [exact H1|]. apply in_or_app. now left.
  - auto.
  - auto.
  - right. right. right. split; [exact H2|]. apply in_or_app. now right.
Qed.
Lemma lprov_weaken s s' a a' : incl a a' -> lprov s s' a -> lprov s s' a'.
Proof. intros Hi H y t Hl. destruct (H y t Hl) as [H1|[H1|[H1|[H1 H2]]]]; auto. right. right. right. split; auto. Qed.

Lemma of_nat_neq0 f : 1 <= f -> Z.of_nat f <> 0%Z /\ (- Z.of_nat f)%Z <> 0%Z.
Proof. lia. Qed.

Section Tables.
Variable rc : bool.
Context {P : Z -> Prop} {st : bool}.
Definition PF (f : nat) : Prop := P (Z.of_nat f) /\ P (- Z.of_nat f)%Z.

Lemma get_lit_core l s z s' D : core_ok P st s -> P l -> get_lit rc l s = (z, s') ->
  core_ok P st s' /\ ext (ls_g s) (ls_g s') D /\ sg_label (ls_g s') z = Some (GLit l) /\
  ls_tri s' = ls_tri s.
Proof.
  intros [HI Hl Hp Hj Hs] Hl0 H. unfold get_lit in H.
  destruct (lookupZ (ls_lits s) l) as [x|] eqn:E.
  - injection H as <- <-. split; [now constructor|]. split; [apply ext_refl|]. split; [now apply Hl|reflexivity].
  - destruct (add_node rc (GLit l) (ls_g s)) as [x g'] eqn:Ha. injection H as <- <-. cbn [ls_g ls_tri ls_lits].
    pose proof (add_node_ext rc _ _ _ _ D HI Ha) as He.
    split; [|split; [exact He|split; [apply (add_node_label_new rc _ _ _ _ HI Ha)|reflexivity]]].
    constructor; cbn [ls_g ls_lits ls_tri].
    + apply (add_node_Inv rc _ _ _ _ HI Ha).
    + intros l' z' Hz. rewrite lookupZ_cons in Hz. destruct (Z.eqb_spec l l') as [->|Hne].
      * injection Hz as <-. apply (add_node_label_new rc _ _ _ _ HI Ha).
      * apply (ext_label_some _ _ D _ _ He). now apply Hl.
    + intros z' l' Hz. destruct (Nat.eq_dec z' x) as [->|Hne].
      * rewrite (add_node_label_new rc _ _ _ _ HI Ha) in Hz. now injection Hz as <-.
      * rewrite (add_node_label_old rc _ _ _ _ Ha z' Hne) in Hz. now apply (Hp z').
    + intros z' l' Hz. rewrite lookupZ_cons. destruct (Nat.eq_dec z' x) as [->|Hne].
      * rewrite (add_node_label_new rc _ _ _ _ HI Ha) in Hz. injection Hz as <-. now rewrite Z.eqb_refl.
      * rewrite (add_node_label_old rc _ _ _ _ Ha z' Hne) in Hz. pose proof (Hj z' l' Hz) as Hz'.
        destruct (Z.eqb_spec l l') as [->|_]; [congruence|exact Hz'].
    + intros Hst. exact (add_node_srcs rc _ _ _ _ HI Ha (Hs Hst)).
Qed.

Lemma ls_add_edge_core a b s s' D : core_ok P st s -> In a D -> (st = true -> gate_at (ls_g s) a) ->
  ls_add_edge a b s = Some s' ->
  core_ok P st s' /\ ext (ls_g s) (ls_g s') D /\ ls_tri s' = ls_tri s /\ ls_lits s' = ls_lits s /\
  sg_out (ls_g s') a = b :: sg_out (ls_g s) a.
Proof.
  intros [HI Hl Hp Hj Hs] Ha Hga H. unfold ls_add_edge in H.
  destruct (add_edge a b (ls_g s)) as [g'|] eqn:E; [|discriminate]. injection H as <-.
  cbn [with_g ls_g ls_tri ls_lits].
  split; [|split; [now apply (add_edge_ext a b _ _ D E)|split; [reflexivity|split; [reflexivity|apply (add_edge_out_same a b _ _ E)]]]].
  constructor; cbn [ls_g ls_lits ls_tri].
  - now apply (add_edge_Inv a b _ _ E).
  - intros l z Hz. rewrite (add_edge_label a b _ _ E). now apply Hl.
  - intros z l Hz. rewrite (add_edge_label a b _ _ E) in Hz. now apply (Hp z).
  - intros z l Hz. rewrite (add_edge_label a b _ _ E) in Hz. now apply (Hj z).
  - intros Hst. exact (add_edge_srcs a b _ _ E (Hga Hst) (Hs Hst)).
Qed.

Lemma get_lit_S l s z s' : get_lit rc l s = (z, s') ->
  (forall y t, sg_label (ls_g s') y = Some t -> sg_label (ls_g s) y = Some t \/ is_litk t) /\ ls_tri s' = ls_tri s.
Proof.
  unfold get_lit. destruct (lookupZ (ls_lits s) l) as [x|].
  - intros H. injection H as <- <-. split; [intros y t Hy; now left|reflexivity].
  - destruct (add_node rc (GLit l) (ls_g s)) as [x g'] eqn:Ha. intros H. injection H as <- <-.
    split; [|reflexivity]. intros y t Hy. cbn [ls_g] in *.
    destruct (Nat.eq_dec y x) as [->|Hne].
    + right. exists l. unfold add_node in Ha.
      destruct (if rc then sg_free (ls_g s) else []) as [|f r]; injection Ha as Hx <-.
      * unfold sg_label in Hy. cbn [sg_nodes] in Hy. rewrite <- Hx, app_nth2, Nat.sub_diag in Hy by lia. cbn in Hy. congruence.
      * subst f. unfold sg_label in Hy. cbn [sg_nodes] in Hy.
        destruct (Nat.lt_ge_cases x (length (sg_nodes (ls_g s)))) as [Hlt|Hge].
        -- rewrite nth_set_nth_eq in Hy by exact Hlt. congruence.
        -- rewrite nth_overflow in Hy by (rewrite set_nth_length; exact Hge). discriminate.
    + left. now rewrite <- (add_node_label_old rc _ _ _ _ Ha y Hne).
Qed.

Lemma ls_add_edge_S a b s s' : ls_add_edge a b s = Some s' ->
  (forall y, sg_label (ls_g s') y = sg_label (ls_g s) y) /\ ls_tri s' = ls_tri s.
Proof.
  unfold ls_add_edge. destruct (add_edge a b (ls_g s)) as [g'|] eqn:E; [|discriminate].
  intros H. injection H as <-. split; [intros y; apply (add_edge_label a b _ _ E)|reflexivity].
Qed.

Lemma add_node_label_cases t g g' x y t' : add_node rc t g = (x, g') -> sg_label g' y = Some t' ->
  (y = x /\ t' = t) \/ (y <> x /\ sg_label g y = Some t').
Proof.
  intros Ha Hy. destruct (Nat.eq_dec y x) as [->|Hne].
  - left. split; [reflexivity|]. unfold add_node in Ha.
    destruct (if rc then sg_free g else []) as [|f r]; injection Ha as Hx <-.
    + unfold sg_label in Hy. cbn [sg_nodes] in Hy. rewrite <- Hx, app_nth2, Nat.sub_diag in Hy by lia. cbn in Hy. congruence.
    + subst f. unfold sg_label in Hy. cbn [sg_nodes] in Hy.
      destruct (Nat.lt_ge_cases x (length (sg_nodes g))) as [Hlt|Hge].
      * rewrite nth_set_nth_eq in Hy by exact Hlt. congruence.
      * rewrite nth_overflow in Hy by (rewrite set_nth_length; exact Hge). discriminate.
  - right. split; [exact Hne|]. now rewrite <- (add_node_label_old rc _ _ _ _ Ha y Hne).
Qed.

Lemma add_literal_node_S f at_ s s' : add_literal_node rc f at_ s = Some s' ->
  lprov s s' [] /\ tri_grow s s'.
Proof.
  unfold add_literal_node. destruct (lookup_nat (ls_tri s) f) as [o|] eqn:E.
  - intros H. destruct (ls_add_edge_S _ _ _ _ H) as [Hl Ht]. split; [now apply lprov_same|now apply tri_grow_eq].
  - destruct (add_node rc GOr (ls_g s)) as [o g1] eqn:Ha.
    set (s1 := mkLS g1 (ls_lits s) ((f, o) :: ls_tri s)).
    destruct (get_lit rc (Z.of_nat f) s1) as [pos s2] eqn:Hpos.
    destruct (get_lit rc (- Z.of_nat f)%Z s2) as [neg s3] eqn:Hneg.
    destruct (ls_add_edge at_ o s3) as [s4|] eqn:E4; [|discriminate].
    destruct (ls_add_edge o pos s4) as [s5|] eqn:E5; [|discriminate].
    intros H.
    destruct (get_lit_S _ _ _ _ Hpos) as [P12 T2]. destruct (get_lit_S _ _ _ _ Hneg) as [P23 T3].
    destruct (ls_add_edge_S _ _ _ _ E4) as [L4 T4]. destruct (ls_add_edge_S _ _ _ _ E5) as [L5 T5].
    destruct (ls_add_edge_S _ _ _ _ H) as [L6 T6].
    assert (Ttab : ls_tri s' = (f, o) :: ls_tri s) by (rewrite T6, T5, T4, T3, T2; reflexivity).
    split.
    + intros y t Hy. rewrite L6, L5, L4 in Hy.
      destruct (P23 y t Hy) as [H2|H2]; [|auto].
      destruct (P12 y t H2) as [H1|H1]; [|auto].
      cbn [s1 ls_g] in H1. destruct (add_node_label_cases _ _ _ _ _ _ Ha H1) as [[-> ->]|[_ H0]]; [|now left].
      right. right. left. split; [reflexivity|]. exists f. rewrite Ttab, lookup_nat_cons, Nat.eqb_refl. reflexivity.
    + intros f' o' Hfo. rewrite Ttab, lookup_nat_cons. destruct (Nat.eqb_spec f f') as [<-|_]; [congruence|exact Hfo].
Qed.

Lemma gate_at_ext g g' D a : ext g g' D -> gate_at g a -> gate_at g' a.
Proof. intros He [t [Hl Ht]]. exists t. split; [exact (ext_label_some _ _ _ _ _ He Hl)|exact Ht]. Qed.

Lemma gate_and g a : sg_label g a = Some GAnd -> gate_at g a.
Proof. intros H. now exists GAnd. Qed.
Lemma gate_or g a : sg_label g a = Some GOr -> gate_at g a.
Proof. intros H. now exists GOr. Qed.

(* ---------- add_literal_node ---------- *)
(* where the entries of the triangle table come from *)
Definition tri_origin (s s' : lstate) : Prop :=
  forall f o, lookup_nat (ls_tri s') f = Some o ->
    lookup_nat (ls_tri s) f = Some o \/ sg_alive (ls_g s) o = false.

Lemma tri_origin_refl s : tri_origin s s.
Proof. intros f o H. now left. Qed.

Lemma tri_origin_trans s1 s2 s3 D : ext (ls_g s1) (ls_g s2) D ->
  tri_origin s1 s2 -> tri_origin s2 s3 -> tri_origin s1 s3.
Proof.
  intros He H12 H23 f o H. destruct (H23 f o H) as [H2|H2]; [now apply H12|]. right.
  destruct (sg_alive (ls_g s1) o) eqn:E; [|reflexivity]. now rewrite (ext_alive _ _ _ _ He E) in H2.
Qed.

Lemma add_literal_node_spec f at_ s s' : tables_ok P st s -> 1 <= f -> PF f ->
  sg_label (ls_g s) at_ = Some GAnd ->
  add_literal_node rc f at_ s = Some s' ->
  tables_ok P st s' /\ ext (ls_g s) (ls_g s') [at_] /\ tri_origin s s' /\
  exists o, sg_out (ls_g s') at_ = o :: sg_out (ls_g s) at_ /\ tri_node (ls_g s') f o /\
            (lookup_nat (ls_tri s) f = Some o \/ sg_alive (ls_g s) o = false) /\
            lookup_nat (ls_tri s') f = Some o.
Proof.
  intros [Hc Ht] Hf [Hfp Hfn] Hat H. unfold add_literal_node in H.
  assert (Haa : sg_alive (ls_g s) at_ = true) by (unfold sg_alive; now rewrite Hat).
  destruct (lookup_nat (ls_tri s) f) as [o|] eqn:E.
  - (* the triangle exists already *)
    destruct (ls_add_edge_core at_ o s s' [at_] Hc (or_introl eq_refl) (fun _ => gate_and _ _ Hat) H) as [Hc' [He [Htri [_ Ho]]]].
    assert (Ht' : tris_ok s').
    { apply (tris_ok_ext s s' [at_] Ht He); [|exact Htri]. intros y [<-|[]]. congruence. }
    split; [split; assumption|]. split; [exact He|].
    split; [intros f' o' Hfo; left; now rewrite <- Htri|].
    exists o. split; [exact Ho|]. split; [|split; [now left|now rewrite Htri]].
    apply Ht'. now rewrite Htri.
  - (* a new triangle *)
    destruct (add_node rc GOr (ls_g s)) as [o g1] eqn:Ha.
    destruct Hc as [HI Hl Hp Hj Hsr].
    pose proof (add_node_label_new rc _ _ _ _ HI Ha) as Hlo1.
    pose proof (add_node_no_out rc _ _ _ _ HI Ha) as Hoo1.
    pose proof (add_node_fresh rc _ _ _ _ HI Ha) as Hfresh.
    assert (Hod : sg_alive (ls_g s) o = false) by (unfold sg_alive; now rewrite Hfresh).
    assert (Hne : at_ <> o) by (intros ->; congruence).
    set (s1 := mkLS g1 (ls_lits s) ((f, o) :: ls_tri s)) in H.
    assert (Hc1 : core_ok P st s1).
    { constructor; cbn [s1 ls_g ls_lits ls_tri].
      - apply (add_node_Inv rc _ _ _ _ HI Ha).
      - intros l z Hz. apply (ext_label_some _ _ [] _ _ (add_node_ext rc _ _ _ _ [] HI Ha)). now apply Hl.
      - intros z l Hz. destruct (Nat.eq_dec z o) as [->|Hzo]; [congruence|].
        rewrite (add_node_label_old rc _ _ _ _ Ha z Hzo) in Hz. now apply (Hp z).
      - intros z l Hz. destruct (Nat.eq_dec z o) as [->|Hzo]; [congruence|].
        rewrite (add_node_label_old rc _ _ _ _ Ha z Hzo) in Hz. now apply (Hj z).
      - intros Hst. exact (add_node_srcs rc _ _ _ _ HI Ha (Hsr Hst)). }
    pose proof (add_node_ext rc _ _ _ _ [o; at_] HI Ha) as He01. change g1 with (ls_g s1) in He01, Hlo1, Hoo1.
    destruct (get_lit rc (Z.of_nat f) s1) as [pos s2] eqn:Hpos.
    destruct (get_lit_core (Z.of_nat f) s1 pos s2 [o; at_] Hc1 Hfp Hpos) as [Hc2 [He12 [Hlp2 Htri2]]].
    destruct (get_lit rc (- Z.of_nat f)%Z s2) as [neg s3] eqn:Hneg.
    destruct (get_lit_core (- Z.of_nat f)%Z s2 neg s3 [o; at_] Hc2 Hfn Hneg) as [Hc3 [He23 [Hln3 Htri3]]].
    destruct (ls_add_edge at_ o s3) as [s4|] eqn:E4; [|discriminate].
    assert (Hg3 : gate_at (ls_g s3) at_)
      by exact (gate_at_ext _ _ _ _ He23 (gate_at_ext _ _ _ _ He12 (gate_at_ext _ _ _ _ He01 (gate_and _ _ Hat)))).
    assert (Hg3o : gate_at (ls_g s3) o)
      by exact (gate_at_ext _ _ _ _ He23 (gate_at_ext _ _ _ _ He12 (gate_or _ _ Hlo1))).
    destruct (ls_add_edge_core at_ o s3 s4 [o; at_] Hc3 (or_intror (or_introl eq_refl)) (fun _ => Hg3) E4) as [Hc4 [He34 [Htri4 [_ Ho4]]]].
    pose proof (gate_at_ext _ _ _ _ He34 Hg3o) as Hg4o.
    destruct (ls_add_edge o pos s4) as [s5|] eqn:E5; [|discriminate].
    destruct (ls_add_edge_core o pos s4 s5 [o; at_] Hc4 (or_introl eq_refl) (fun _ => Hg4o) E5) as [Hc5 [He45 [Htri5 [_ Ho5]]]].
    pose proof (gate_at_ext _ _ _ _ He45 Hg4o) as Hg5o.
    destruct (ls_add_edge_core o neg s5 s' [o; at_] Hc5 (or_introl eq_refl) (fun _ => Hg5o) H) as [Hc6 [He56 [Htri6 [_ Ho6]]]].
    (* the same steps with the sharper sets of changed nodes *)
    pose proof (add_node_ext rc _ _ _ _ [] HI Ha) as He01'. change g1 with (ls_g s1) in He01'.
    pose proof (get_lit_core (Z.of_nat f) s1 pos s2 [] Hc1 Hfp Hpos) as [_ [He12' _]].
    pose proof (get_lit_core (- Z.of_nat f)%Z s2 neg s3 [] Hc2 Hfn Hneg) as [_ [He23' _]].
    pose proof (ls_add_edge_core at_ o s3 s4 [at_] Hc3 (or_introl eq_refl) (fun _ => Hg3) E4) as [_ [He34' _]].
    pose proof (ls_add_edge_core o pos s4 s5 [o] Hc4 (or_introl eq_refl) (fun _ => Hg4o) E5) as [_ [He45' _]].
    pose proof (ls_add_edge_core o neg s5 s' [o] Hc5 (or_introl eq_refl) (fun _ => Hg5o) H) as [_ [He56' _]].
    pose proof (ext_trans _ _ _ _ He12' He23') as He13'.
    pose proof (ext_trans _ _ _ _ He45' He56') as He46'.
    pose proof (ext_trans _ _ _ _ He34 (ext_trans _ _ _ _ He45 He56)) as He36.
    pose proof (ext_trans _ _ _ _ He23 He36) as He26.
    pose proof (ext_trans _ _ _ _ He12 He26) as He16.
    pose proof (ext_trans _ _ _ _ He01 He16) as He06.
    pose proof (ext_drop_dead _ _ _ _ Hod He06) as He.
    (* liveness along the way *)
    assert (Ha1 : sg_alive (ls_g s1) at_ = true) by exact (ext_alive _ _ _ _ He01 Haa).
    assert (Ha3 : sg_alive (ls_g s3) at_ = true) by exact (ext_alive _ _ _ _ He13' Ha1).
    assert (Ha4 : sg_alive (ls_g s4) at_ = true) by exact (ext_alive _ _ _ _ He34' Ha3).
    assert (Ho1 : sg_alive (ls_g s1) o = true) by (unfold sg_alive; now rewrite Hlo1).
    assert (Ho3 : sg_alive (ls_g s3) o = true) by exact (ext_alive _ _ _ _ He13' Ho1).
    (* child lists *)
    assert (Hat6 : sg_out (ls_g s') at_ = o :: sg_out (ls_g s) at_).
    { rewrite (ex_out _ _ _ He46' at_ Ha4) by (intros [E'|[]]; now apply Hne).
      rewrite Ho4. f_equal.
      rewrite (ex_out _ _ _ He13' at_ Ha1) by (intros []).
      apply (ex_out _ _ _ He01' at_ Haa). intros []. }
    assert (Hoo6 : sg_out (ls_g s') o = [neg; pos]).
    { rewrite Ho6, Ho5. do 2 f_equal.
      rewrite (ex_out _ _ _ He34' o Ho3) by (intros [E'|[]]; now apply Hne).
      rewrite (ex_out _ _ _ He13' o Ho1) by (intros []). exact Hoo1. }
    assert (Htn : tri_node (ls_g s') f o).
    { split; [exact Hf|]. split; [exact (ext_label_some _ _ _ _ _ He16 Hlo1)|].
      exists neg, pos. split; [exact Hoo6|].
      split; [exact (ext_label_some _ _ _ _ _ He36 Hln3)|exact (ext_label_some _ _ _ _ _ He26 Hlp2)]. }
    assert (Htab : ls_tri s' = (f, o) :: ls_tri s)
      by (rewrite Htri6, Htri5, Htri4, Htri3, Htri2; reflexivity).
    split; [split; [exact Hc6|]|split; [exact He|split; [|exists o; split; [exact Hat6|split; [exact Htn|split; [now right|]]]]]].
    2:{ intros f' o' Hfo. rewrite Htab, lookup_nat_cons in Hfo.
        destruct (Nat.eqb f f'); [injection Hfo as <-; now right|now left]. }
    2:{ rewrite Htab, lookup_nat_cons, Nat.eqb_refl. reflexivity. }
    intros f' o' Hfo. rewrite Htri6, Htri5, Htri4, Htri3, Htri2 in Hfo. cbn [s1 ls_tri] in Hfo.
    rewrite lookup_nat_cons in Hfo. destruct (Nat.eqb_spec f f') as [<-|Hff].
    + injection Hfo as <-. exact Htn.
    + apply (tri_node_ext _ _ [at_] f' o' He); [|now apply Ht].
      intros [<-|[]]. destruct (Ht f' at_ Hfo) as [_ [Hlo' _]]. congruence.
Qed.

(* attaching a list of features: the new children are or-triangles, newest first *)
Definition tri_child (s : lstate) (g' : sgraph) (o : nat) : Prop :=
  (exists f, tri_node g' f o) /\
  ((exists f, lookup_nat (ls_tri s) f = Some o) \/ sg_alive (ls_g s) o = false).

Lemma add_literal_nodes_spec at_ : forall fs s s', tables_ok P st s -> Forall (fun f => 1 <= f /\ PF f) fs ->
  sg_label (ls_g s) at_ = Some GAnd ->
  add_literal_nodes rc fs at_ s = Some s' ->
  tables_ok P st s' /\ ext (ls_g s) (ls_g s') [at_] /\ tri_origin s s' /\
  exists tris, sg_out (ls_g s') at_ = tris ++ sg_out (ls_g s) at_ /\
               Forall (tri_child s (ls_g s')) tris /\
               Forall2 (fun f o => lookup_nat (ls_tri s') f = Some o) (rev fs) tris.
Proof.
  induction fs as [|f r IH]; intros s s' Hok Hfs Hat H; cbn [add_literal_nodes] in H.
  - injection H as <-. split; [exact Hok|]. split; [apply ext_refl|]. split; [apply tri_origin_refl|].
    exists []. split; [reflexivity|split; constructor].
  - inversion Hfs as [|? ? [Hf Hpf] Hr]; subst.
    destruct (add_literal_node rc f at_ s) as [s1|] eqn:E1; [|discriminate].
    destruct (add_literal_node_spec f at_ s s1 Hok Hf Hpf Hat E1) as [Hok1 [He1 [Hor1 [o [Ho [Hto [Hoo Hlk]]]]]]].
    assert (Hat1 : sg_label (ls_g s1) at_ = Some GAnd) by exact (ext_label_some _ _ _ _ _ He1 Hat).
    destruct (IH s1 s' Hok1 Hr Hat1 H) as [Hok' [He2 [Hor2 [tris [Ht1 [Ht2 Ht3]]]]]].
    assert (Hgrow : tri_grow s1 s').
    { clear -H. revert s1 H. induction r as [|f0 r0 IHr]; intros s1 H; cbn [add_literal_nodes] in H.
      - injection H as <-. apply tri_grow_refl.
      - destruct (add_literal_node rc f0 at_ s1) as [s2|] eqn:E2; [|discriminate].
        exact (tri_grow_trans _ _ _ (proj2 (add_literal_node_S _ _ _ _ E2)) (IHr _ H)). }
    split; [exact Hok'|]. split; [exact (ext_trans _ _ _ _ He1 He2)|].
    split; [exact (tri_origin_trans _ _ _ _ He1 Hor1 Hor2)|].
    exists (tris ++ [o]). split; [rewrite Ht1, Ho, <- app_assoc; reflexivity|].
    split; [|cbn [rev]; apply Forall2_app; [exact Ht3|repeat constructor; now apply Hgrow]].
    apply Forall_app. split.
    + eapply Forall_impl; [|exact Ht2]. intros o' [Htn [[f' Hf']|Hd]]; split; try exact Htn.
      * destruct (Hor1 f' o' Hf') as [H1|H1]; [left; now exists f'|now right].
      * right. destruct (sg_alive (ls_g s) o') eqn:E; [|reflexivity].
        now rewrite (ext_alive _ _ _ _ He1 E) in Hd.
    + constructor; [|constructor]. split.
      * exists f. apply (tri_node_ext _ _ [at_] f o He2); [|exact Hto].
        intros [<-|[]]. destruct Hto as [_ [Hl _]]. congruence.
      * destruct Hoo as [Hoo|Hoo]; [left; now exists f|now right].
Qed.
End Tables.
