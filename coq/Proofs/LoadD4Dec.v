(* Decomposability.  After the line loop of a conforming file every node has a feature set,
   bounded by the table T of d4_conform for declared nodes; the children of every and node have
   pairwise disjoint sets (declared and nodes: and_ok; expansion nodes: edge_ok).  Preserved by
   the free-feature root, the second traversal (LoadD4Vars.dec_ok_shrink) and every balancing
   step (LoadD4Vars.step_dec_ok); transferred to the vector by the isomorphism. *)
From Coq Require Import List ZArith Bool Lia Arith.
From DD Require Import Model.Circuit Model.Query Model.LexerD4 Model.LoadC2d Model.LoadD4 Spec.D4Sem Spec.D4Conform
  Proofs.PassLemmas Proofs.Renum Proofs.C10Load Proofs.LoadD4Graph Proofs.LoadD4Ops Proofs.LoadD4Fold
  Proofs.LoadD4Flat Proofs.LoadD4Iso Proofs.LoadD4Pass2 Proofs.LoadD4Pass2S Proofs.LoadD4Struct
  Proofs.LoadD4Pass3 Proofs.LoadD4Free Proofs.LoadD4Parse Proofs.LoadD4Sem Proofs.LoadD4Conf Proofs.LoadD4Vars
  Proofs.LoadD4Det.
Import ListNotations.
Local Open Scope nat_scope.

Lemma zs_lit_vars lits : zs (lit_vars lits) = map Z.abs lits.
Proof. unfold zs, lit_vars. rewrite map_map. apply map_ext. intros l. apply Zabs2Nat.id_abs. Qed.

Lemma concat_singletons (l : list Z) : concat (map (fun z => [z]) l) = l.
Proof. induction l as [|z l IH]; [reflexivity|]. cbn [map concat app]. now rewrite IH. Qed.

Lemma Forall2_len {A B} (R : A -> B -> Prop) l l' : Forall2 R l l' -> length l = length l'.
Proof. induction 1; cbn [length]; congruence. Qed.

Section Rep.
Context {P : Z -> Prop} {st : bool}.
Variables (toks : list d4token) (n n0 : nat) (b : bstate).
Hypothesis Hconf : d4_conform toks n = true.
Hypothesis HR : rep P st n0 toks b.
Let g := ls_g (bs_ls b).
Let idx := bs_idx b.
Let T := tabT toks.
Let HT := tabH toks.
Let K := nk toks.

(* the children and the value of an expansion node *)
Lemma exp_children y lits tx vt : exp_node g y lits tx -> GVs g tx vt ->
  Forall2 (GVs g) (sg_out g y) (vt :: rev (map (fun l => [Z.abs l]) lits)).
Proof.
  intros [_ [lns [Ho Hn]]] Hvt. fold g in Ho. rewrite Ho. constructor; [exact Hvt|]. apply Forall2_rev.
  clear Ho. induction Hn as [|l z lits lns Hz _ IH]; cbn [map]; constructor; [|exact IH].
  exact (GF_leaf hvars g z _ Hz eq_refl).
Qed.

Lemma exp_vars y lits tx vt : exp_node g y lits tx -> GVs g tx vt ->
  exists v, GVs g y v /\ seteq v (zs (lit_vars lits) ++ vt).
Proof.
  intros He Hvt. pose proof (exp_children y lits tx vt He Hvt) as Hc. destruct He as [Hl _]. fold g in Hl.
  exists (hvars GAnd (vt :: rev (map (fun l => [Z.abs l]) lits))). split; [exact (GF_gate hvars g y GAnd _ Hl eq_refl Hc)|].
  cbn [hvars concat]. rewrite zs_lit_vars. intros z. rewrite !in_app_iff.
  assert (E : In z (concat (rev (map (fun l => [Z.abs l]) lits))) <-> In z (map Z.abs lits)).
  { rewrite <- (concat_singletons (map Z.abs lits)), map_map. rewrite !in_concat. split; intros [w [Hw Hz]]; exists w; (split; [|exact Hz]).
    - now apply in_rev in Hw.
    - now apply -> in_rev. }
  rewrite E. tauto.
Qed.

(* declared nodes: a value, bounded by T *)
Lemma decl_vars : forall k i, get HT i 0 < k -> 1 <= i <= K ->
  exists x v, nth_error idx (i - 1) = Some x /\ GVs g x v /\ incl v (zs (get T i [])).
Proof.
  induction k as [|k IH]; intros i Hk Hi; [lia|].
  destruct (cf_kind toks i Hi) as [kd Hkd]. unfold kind in Hkd.
  destruct (Forall2_nth_error_l _ _ _ _ _ (rp_decl _ _ _ _ _ HR) Hkd) as [x [Hx Hlx]]. fold g in Hlx. fold idx in Hx.
  exists x.
  assert (Hedges : Forall2 (edge_rep g idx) (rev (d4_edges_from toks i)) (sg_out g x)).
  { pose proof (rp_edges _ _ _ _ _ HR (i - 1) x Hx) as He. replace (S (i - 1)) with i in He by lia. exact He. }
  assert (Hvals : exists vs, Forall2 (GVs g) (sg_out g x) vs /\
            Forall2 (fun e v => incl v (zs (edge_set T e))) (rev (d4_edges_from toks i)) vs).
  { assert (Hin : forall e, In e (rev (d4_edges_from toks i)) -> In e (edges toks i)) by (intros e He; now apply in_rev in He).
    revert Hin. induction Hedges as [|e y es ys Hey _ IHe]; intros Hin; [exists []; split; constructor|].
    destruct IHe as [vs [V1 V2]]; [intros e' He'; apply Hin; now right|].
    pose proof (Hin e (or_introl eq_refl)) as Hine.
    destruct Hey as [tx [Hto [Htx Hcase]]].
    destruct (IH (snd e)) as [x' [vt [Hx' [Hvt Hit]]]].
    { pose proof (cf_rank toks n Hconf i e Hi Hine). fold HT in H. lia. }
    { exact (cf_edge_to toks n Hconf i e Hine). }
    fold idx in Htx. assert (x' = tx) by congruence. subst x'.
    destruct Hcase as [[Hnil ->]|[Hne [_ Hexp]]].
    - exists (vt :: vs). split; [now constructor|]. constructor; [|exact V2].
      unfold edge_set. rewrite Hnil. cbn [lit_vars map app]. exact Hit.
    - destruct (exp_vars y (fst e) tx vt Hexp Hvt) as [vy [Hvy Hs]].
      exists (vy :: vs). split; [now constructor|]. constructor; [|exact V2].
      intros z Hz. apply Hs in Hz. unfold edge_set, zs. rewrite map_app. apply in_app_or in Hz. apply in_or_app.
      destruct Hz as [Hz|Hz]; [now left|right; now apply Hit]. }
  destruct Hvals as [vs [V1 V2]].
  destruct (is_gate (tid_of_kind kd)) eqn:Hg.
  - exists (hvars (tid_of_kind kd) vs). split; [exact Hx|]. split; [exact (GF_gate hvars g x _ vs Hlx Hg V1)|].
    assert (E : hvars (tid_of_kind kd) vs = concat vs) by (destruct kd; try discriminate; reflexivity). rewrite E.
    intros z Hz. apply in_concat in Hz. destruct Hz as [v [Hv Hz]].
    destruct (Forall2_In_r _ _ _ _ V2 Hv) as [e [He Hev]]. apply in_rev in He.
    destruct (cf_edge_facts toks n Hconf i e Hi He) as [F1 [F2 _]]. fold T in F1, F2.
    apply Hev in Hz. unfold edge_set, zs in Hz. rewrite map_app in Hz. apply in_app_or in Hz.
    unfold zs. apply in_map_iff. destruct Hz as [Hz|Hz]; apply in_map_iff in Hz; destruct Hz as [f [<- Hf]]; exists f; (split; [reflexivity|]).
    + now apply F1.
    + now apply F2.
  - exists (hvars (tid_of_kind kd) []). split; [exact Hx|]. split; [exact (GF_leaf hvars g x _ Hlx Hg)|].
    destruct kd; try discriminate; intros z [].
Qed.

Lemma decl_vars' i : 1 <= i <= K -> exists x v, nth_error idx (i - 1) = Some x /\ GVs g x v /\ incl v (zs (get T i [])).
Proof. intros Hi. apply (decl_vars (S (get HT i 0))); [lia|exact Hi]. Qed.

Lemma idx_range x : In x idx -> exists i, 1 <= i <= K /\ nth_error idx (i - 1) = Some x.
Proof.
  intros Hin. apply In_nth_error in Hin. destruct Hin as [j Hj]. exists (S j). split.
  - split; [lia|]. unfold K, nk. rewrite (Forall2_len _ _ _ (rp_decl _ _ _ _ _ HR)). fold idx.
    assert (j < length idx) by (apply nth_error_Some; congruence). lia.
  - replace (S j - 1) with j by lia. exact Hj.
Qed.

Theorem all_def_rep : all_def g.
Proof.
  intros y Ha. unfold sg_alive in Ha. destruct (sg_label g y) as [t|] eqn:Hl; [|discriminate].
  destruct (rp_class _ _ _ _ _ HR y t Hl) as [Hin|[[l ->]| ->]].
  - destruct (idx_range y Hin) as [i [Hi Hy]]. destruct (decl_vars' i Hi) as [x [v [Hx [Hv _]]]].
    assert (x = y) by congruence. subst x. exact (vars_GDef g y v Hv).
  - exact (vars_GDef g y _ (GF_leaf hvars g y _ Hl eq_refl)).
  - destruct (in_dec Nat.eq_dec y idx) as [Hin|Hnin].
    + destruct (idx_range y Hin) as [i [Hi Hy]]. destruct (decl_vars' i Hi) as [x [v [Hx [Hv _]]]].
      assert (x = y) by congruence. subst x. exact (vars_GDef g y v Hv).
    + destruct (rp_exp _ _ _ _ _ HR y Hl Hnin) as [i [e [tx [He [Hne [Hto [Htx Hexp]]]]]]].
      assert (Hi : 1 <= snd e <= K).
      { apply in_edges_from in He. destruct He as [from [to [fs [Hin [_ ->]]]]].
        destruct (cf_edge toks n Hconf from to fs Hin) as [_ [_ [H3 [H4 _]]]]. cbn [snd]. fold K. lia. }
      destruct (decl_vars' (snd e) Hi) as [x [vt [Hx [Hvt _]]]]. fold idx in Htx. assert (x = tx) by congruence. subst x.
      destruct (exp_vars y (fst e) tx vt Hexp Hvt) as [v [Hv _]]. exact (vars_GDef g y v Hv).
Qed.

Lemma edges_range i e : In e (d4_edges_from toks i) -> 1 <= i <= K /\ 1 <= snd e <= K.
Proof.
  intros He. apply in_edges_from in He. destruct He as [from [to [fs [Hin [-> ->]]]]].
  destruct (cf_edge toks n Hconf _ to fs Hin) as [H1 [H2 [H3 [H4 _]]]]. cbn [snd]. fold K. lia.
Qed.

Lemma rep_value_bound e y v : edge_rep g idx e y -> 1 <= snd e <= K -> GVs g y v -> incl v (zs (edge_set T e)).
Proof.
  intros [tx [_ [Htx Hcase]]] Hto Hv.
  destruct (decl_vars' (snd e) Hto) as [x [vt [Hx [Hvt Hit]]]]. assert (x = tx) by congruence. subst x.
  unfold edge_set, zs. rewrite map_app.
  destruct Hcase as [[Hnil ->]|[_ [_ Hexp]]].
  - rewrite (GF_det hvars g tx v vt Hv Hvt). intros z Hz. apply in_or_app. right. now apply Hit.
  - destruct (exp_vars y (fst e) tx vt Hexp Hvt) as [vy [Hvy Hs]]. rewrite (GF_det hvars g y v vy Hv Hvy).
    intros z Hz. apply Hs in Hz. apply in_app_or in Hz. apply in_or_app. destruct Hz as [Hz|Hz]; [now left|right; now apply Hit].
Qed.

Lemma disj_sym x y : disj x y -> disj y x.
Proof. intros H v Hv Hv'. exact (H v Hv' Hv). Qed.

Lemma PW_disj_singletons (l : list Z) : NoDup l -> PW disj (map (fun z => [z]) l).
Proof.
  induction 1 as [|z l Hz _ IH]; [exact I|]. cbn [map PW]. split; [|exact IH].
  apply Forall_forall. intros w Hw. apply in_map_iff in Hw. destruct Hw as [z' [<- Hz']].
  intros v [<-|[]] [E|[]]. now subst.
Qed.

Theorem dec_ok_rep : dec_ok g.
Proof.
  intros x vs Hl Hvs. destruct (in_dec Nat.eq_dec x idx) as [Hin|Hnin].
  - (* a declared and node *)
    destruct (idx_range x Hin) as [i [Hi Hx]].
    destruct (cf_kind toks i Hi) as [kd Hkd]. unfold kind in Hkd.
    destruct (Forall2_nth_error_l _ _ _ _ _ (rp_decl _ _ _ _ _ HR) Hkd) as [x' [Hx' Hlx]]. fold g in Hlx. fold idx in Hx'.
    assert (x' = x) by congruence. subst x'.
    assert (kd = KAnd) by (rewrite Hl in Hlx; destruct kd; cbn in Hlx; congruence). subst kd.
    pose proof (rp_edges _ _ _ _ _ HR (i - 1) x Hx) as Hedges. replace (S (i - 1)) with i in Hedges by lia. fold g idx in Hedges.
    assert (Hb : Forall2 (fun e v => incl v (zs (edge_set T e))) (rev (d4_edges_from toks i)) vs).
    { assert (Hr : forall e, In e (rev (d4_edges_from toks i)) -> 1 <= snd e <= K)
        by (intros e He; apply in_rev in He; exact (proj2 (edges_range i e He))).
      revert vs Hvs Hr. induction Hedges as [|e y es ys Hey _ IHe]; intros vs Hvs Hr; inversion Hvs; subst; constructor.
      - apply (rep_value_bound e y); [exact Hey|apply Hr; now left|assumption].
      - apply IHe; [assumption|intros e' He'; apply Hr; now right]. }
    pose proof (cf_and toks n Hconf i Hi Hkd) as HP. fold T in HP.
    apply (PW_rev _ _ (fun a b Hab v Hv Hv' => Hab v Hv' Hv)) in HP.
    refine (PW_Forall2 _ _ _ _ _ _ Hb HP). intros a b' va vb Hab Ha Hbb z Hz Hz'.
    apply Ha in Hz. apply Hbb in Hz'. unfold zs in Hz, Hz'. apply in_map_iff in Hz, Hz'.
    destruct Hz as [f [<- Hf]]. destruct Hz' as [f' [E Hf']]. apply Nat2Z.inj in E. subst f'. exact (Hab f Hf Hf').
  - (* an expansion node *)
    destruct (rp_exp _ _ _ _ _ HR x Hl Hnin) as [i [e [tx [He [Hne [Hto [Htx Hexp]]]]]]]. fold g idx in Htx, Hexp.
    destruct (edges_range i e He) as [Hi Htor].
    destruct (decl_vars' (snd e) Htor) as [x' [vt [Hx' [Hvt Hit]]]]. assert (x' = tx) by congruence. subst x'.
    rewrite (Forall2_GF_det hvars g _ _ _ Hvs (exp_children x (fst e) tx vt Hexp Hvt)).
    destruct (cf_edge_facts toks n Hconf i e Hi He) as [_ [_ [Hnd Hdj]]]. fold T in Hdj.
    cbn [PW]. split.
    + apply Forall_forall. intros w Hw. apply in_rev, in_map_iff in Hw. destruct Hw as [l [<- Hlin]].
      intros z Hz [<-|[]]. apply Hit in Hz. rewrite <- Zabs2Nat.id_abs in Hz. apply in_zs in Hz.
      apply (Hdj (Z.abs_nat l)); [|exact Hz]. unfold lit_vars. apply in_map_iff. now exists l.
    + apply PW_rev; [exact disj_sym|]. rewrite <- (map_map Z.abs (fun z => [z])).
      apply PW_disj_singletons. rewrite <- zs_lit_vars. unfold zs. apply FinFun.Injective_map_NoDup; [intros a b' E; now apply Nat2Z.inj|exact Hnd].
Qed.
End Rep.

(* ---------- values do not change when nothing old changes ---------- *)
Lemma ext_nil_vals g g' x v : ext g g' [] -> GVs g x v -> GVs g' x v.
Proof.
  intros He Hv.
  destruct (gf_transfer hvars g g' (fun y => sg_alive g y = true) eq) with (x := x) (v := v) as [v' [H1 H2]].
  - intros y Hy. left. exact (ex_label _ _ _ He y Hy).
  - reflexivity.
  - intros y t vs Hy _ Hl Ht H. rewrite (ex_out _ _ _ He y Hy) by (intros []). exists vs. split; [|reflexivity].
    eapply Forall2_impl; [|exact H]. intros c vc [Hc Hk]. destruct (Hk (GF_alive hvars g c vc Hc)) as [v' [Hv' ->]]. exact Hv'.
  - exact (GF_alive hvars g x v Hv).
  - exact Hv.
  - now subst.
Qed.

(* every feature below a node is the feature of a literal leaf *)
Lemma vars_from_lits g : forall f x v z, gfold hvars f g x = Some v -> In z v ->
  exists y l, sg_label g y = Some (GLit l) /\ z = Z.abs l.
Proof.
  induction f as [|f IH]; intros x v z H Hz; [discriminate|]. cbn [gfold] in H.
  destruct (sg_label g x) as [t|] eqn:Hl; [|discriminate]. destruct (is_gate t) eqn:Ht.
  - destruct (map_opt _ _) as [vs|] eqn:E; [|discriminate]. injection H as <-.
    assert (Ev : hvars t vs = concat vs) by (destruct t; try discriminate; reflexivity). rewrite Ev in Hz.
    apply in_concat in Hz. destruct Hz as [w [Hw Hz]]. apply map_opt_Forall2_iff in E.
    destruct (Forall2_In_r _ _ _ _ E Hw) as [c [_ Hc]]. exact (IH c w z Hc Hz).
  - injection H as <-. destruct t as [l| | | |]; try discriminate; cbn [hvars] in Hz; try (destruct Hz; fail).
    destruct Hz as [<-|[]]. now exists x, l.
Qed.

Section FreeStep.
Context {P : Z -> Prop} {st : bool}.
Variables (s s1 : lstate) (root1 : nat) (occ fs : list nat).
Let g := ls_g s.
Let g1 := ls_g s1.
Hypothesis Hfree : free_result s root1 s1.
Hypothesis Hfeats : free_feats occ fs root1 s1.
Hypothesis Hok1 : tables_ok P st s1.
Hypothesis Hprov : lprov s s1 [root1].
Hypothesis Hdef : all_def g.
Hypothesis Hdec : dec_ok g.
Hypothesis H0 : sg_alive g 0 = true.
Hypothesis Hnd : NoDup fs.
(* the literal leaves are over mentioned features *)
Hypothesis Hlits : forall y l, sg_label g y = Some (GLit l) -> In (Z.abs_nat l) occ.

Lemma free_vals x v : GVs g x v -> GVs g1 x v.
Proof. destruct Hfree as [[_ ->]|[_ [_ [He _]]]]; [auto|now apply ext_nil_vals]. Qed.

Lemma free_root_children : root1 <> 0 -> sg_label g1 root1 = Some GAnd /\ sg_alive g root1 = false /\
  exists tris v0, sg_out g1 root1 = tris ++ [0] /\ GVs g1 0 v0 /\ GVs g 0 v0 /\
    Forall2 (GVs g1) (sg_out g1 root1) (map (fun f => [Z.of_nat f; Z.of_nat f]) (rev (filter (fun i => negb (mem i occ)) fs)) ++ [v0]).
Proof.
  intros Hr. destruct Hfree as [[E _]|[Hd [Hl [He _]]]]; [contradiction|].
  destruct Hfeats as [E|[tris [Ho Ht]]]; [contradiction|]. split; [exact Hl|]. split; [exact Hd|].
  destruct (GDef_vars g 0 (Hdef 0 H0)) as [v0 Hv0]. exists tris, v0. split; [exact Ho|]. split; [now apply free_vals|]. split; [exact Hv0|].
  fold g1 in Ho. rewrite Ho. apply Forall2_app; [|repeat constructor; now apply free_vals].
  clear Ho. induction Ht as [|f o l tris Hfo _ IH]; cbn [map]; constructor; [|exact IH].
  exact (tri_vars g1 f o (proj2 Hok1 f o Hfo)).
Qed.

Lemma free_all_def : all_def g1.
Proof.
  intros y Ha. unfold sg_alive in Ha. destruct (sg_label g1 y) as [t|] eqn:Hl; [|discriminate].
  destruct (Hprov y t Hl) as [H|[[l ->]|[[-> [f Hf]]|[-> [<-|[]]]]]].
  - fold g in H. assert (Hay : sg_alive g y = true) by (unfold sg_alive; now rewrite H).
    destruct (GDef_vars g y (Hdef y Hay)) as [v Hv]. exact (vars_GDef g1 y v (free_vals y v Hv)).
  - exact (vars_GDef g1 y _ (GF_leaf hvars g1 y _ Hl eq_refl)).
  - exact (vars_GDef g1 y _ (tri_vars g1 f y (proj2 Hok1 f y Hf))).
  - destruct (Nat.eq_dec root1 0) as [E|Hne].
    + destruct Hfree as [[_ Es]|[Hd _]]; [|rewrite E in Hd; unfold g in H0; congruence].
      assert (Hay : sg_alive g root1 = true) by (rewrite E; exact H0).
      destruct (GDef_vars g root1 (Hdef root1 Hay)) as [v Hv]. exact (vars_GDef g1 root1 v (free_vals root1 v Hv)).
    + destruct (free_root_children Hne) as [Hlr [_ [tris [v0 [_ [_ [_ Hvals]]]]]]].
      exact (vars_GDef g1 root1 _ (GF_gate hvars g1 root1 GAnd _ Hlr eq_refl Hvals)).
Qed.

Lemma free_dec_ok : dec_ok g1.
Proof.
  intros x vs Hl Hvs. destruct (Hprov x _ Hl) as [H|[[l E]|[[E _]|[_ [<-|[]]]]]]; try discriminate.
  - fold g in H. assert (Ha : sg_alive g x = true) by (unfold sg_alive; now rewrite H).
    destruct (GDef_children g x (Hdef x Ha) _ H eq_refl) as [vs0 Hvs0].
    assert (Eo : sg_out g1 x = sg_out g x).
    { destruct Hfree as [[_ ->]|[_ [_ [He _]]]]; [reflexivity|]. apply (ex_out _ _ _ He x Ha). intros []. }
    rewrite Eo in Hvs.
    assert (E : vs = vs0).
    { apply (Forall2_GF_det hvars g1 _ _ _ Hvs). eapply Forall2_impl; [|exact Hvs0]. intros c v. apply free_vals. }
    rewrite E. exact (Hdec x vs0 H Hvs0).
  - destruct (Nat.eq_dec root1 0) as [E|Hne].
    + (* no free feature: the root is the old node 0 *)
      destruct Hfree as [[_ Es]|[Hd _]]; [|rewrite E in Hd; unfold g in H0; congruence].
      unfold g1 in *. rewrite Es in *. exact (Hdec root1 vs Hl Hvs).
    + destruct (free_root_children Hne) as [_ [_ [tris [v0 [_ [_ [Hv0 Hvals]]]]]]].
      rewrite (Forall2_GF_det hvars g1 _ _ _ Hvs Hvals).
      apply PW_app_last.
      * apply PW_disj_tris. apply NoDup_rev. now apply NoDup_filter.
      * apply Forall_forall. intros w Hw. apply in_map_iff in Hw. destruct Hw as [f [<- Hf]].
        apply in_rev, filter_In in Hf. destruct Hf as [_ Hf]. apply negb_true_iff, mem_notIn in Hf.
        intros z Hz Hz'. assert (z = Z.of_nat f) by (destruct Hz as [E|[E|[]]]; now subst). subst z.
        destruct Hv0 as [fu Hfu]. destruct (vars_from_lits g fu 0 v0 _ Hfu Hz') as [y [l [Hy El]]].
        apply Hf. pose proof (Hlits y l Hy) as Ho. assert (Z.abs_nat l = f) by lia. now subst.
Qed.
End FreeStep.

(* ---------- one iteration of the third traversal ---------- *)
Section P3.
Variable ord : list nat -> list nat.
Hypothesis Hperm : forall l f, In f (ord l) <-> In f l.
Hypothesis Hndp : forall l, NoDup l -> NoDup (ord l).
Context {P : Z -> Prop} {st : bool}.

Definition vars_inv (m : list (nat * list nat)) (s : lstate) : Prop :=
  all_def (ls_g s) /\ dec_ok (ls_g s) /\ mexact (ls_g s) m.

Lemma vars_inv_step m s s' nx : tables_ok P st s -> p3step ord (P := P) (st := st) m s s' nx ->
  vars_inv m s -> vars_inv m s'.
Proof.
  intros Hok [[-> _]|[[-> _]|[Hnx [_ [Hok' [He [_ [cd [Hcd [ans [Hp [_ [Hans Hout]]]]]]]]]]]]] [Hdef [Hdec Hm]];
    try (repeat split; assumption).
  pose proof (co_inv _ _ _ (proj1 Hok)) as HI.
  split; [|split].
  - eapply (step_all_def ord Hperm (P := P) (st := st) m s s' nx cd ans); eassumption.
  - eapply (step_dec_ok ord Hperm (P := P) (st := st) m s s' nx cd ans); eassumption.
  - intros k v Hk. destruct (Hm k v Hk) as [vs [Hvs Hs]].
    destruct (step_vars ord Hperm (P := P) (st := st) m s s' nx cd ans) with (x := k) (v := vs) as [vs' [H1 H2]]; try eassumption.
    exists vs'. split; [exact H1|]. exact (seteq_trans _ _ _ Hs (seteq_sym _ _ H2)).
Qed.
End P3.

(* ---------- to the vector ---------- *)
Lemma vars_bridge acc t cs : vars_node acc (flat_node t cs) =
  hvars t (if is_gate t then map (fun c => nth c acc []) cs else []).
Proof. destruct t; reflexivity. Qed.

Lemma disj_disjointb a b : disj a b -> disjointb a b = true.
Proof.
  intros H. unfold disjointb. apply forallb_forall. intros v Hv. apply negb_true_iff.
  destruct (memZ v b) eqn:E; [|reflexivity]. exfalso. apply (H v Hv).
  unfold memZ in E. apply existsb_exists in E. destruct E as [y [Hy Ey]]. apply Z.eqb_eq in Ey. now subst.
Qed.

Theorem iso_decomposable g root order C : iso g root order C -> dec_ok g -> decomposable C = true.
Proof.
  intros HI Hd. unfold decomposable. apply forallb_forall. intros nd Hnd.
  destruct (In_nth _ _ FalseN Hnd) as [j [Hj <-]].
  destruct (is_node _ _ _ _ HI j Hj) as [t [cs [Hl [E H]]]]. rewrite E.
  destruct t; cbn [flat_node decomposable_node]; try reflexivity.
  pose proof (iso_pass g root order C HI vars_node [] hvars vars_node_local vars_bridge) as Hv. fold (varss C) in Hv.
  apply (PW_pairwise disj); [exact disj_disjointb|]. apply (Hd _ _ Hl).
  clear E. induction H as [|y c ys cs0 [Hy [_ Hlt]] _ IH]; cbn [map]; constructor; [|exact IH].
  rewrite <- Hy. apply Hv. specialize (Hlt eq_refl). lia.
Qed.
