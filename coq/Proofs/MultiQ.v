(* C15, collection phase: invariants of the transition system Model/MultiQ.v over ALL interleavings
   and any number of workers: nothing is lost, nothing is duplicated, every run is finite, no
   reachable state is stuck before the main thread has returned. *)
From Coq Require Import List ZArith Bool Lia Permutation Sorted String.
From DD Require Import Model.MultiQ Proofs.MultiQSort.
Import ListNotations.

Section Inv.
  Variable R : Type.
  Variable answer : mq_query -> R.
  Variable panics : mq_query -> bool.
  Variable rcmp : R -> R -> comparison.
  Variable rshow : R -> string.
  Notation res := (nat * list Z * R)%type.
  Notation state := (mq_state R).
  Notation step := (mq_step R answer panics rcmp rshow).
  Notation run := (mq_run R answer panics rcmp rshow).
  Notation valid_event := (mq_valid_event R answer panics rcmp rshow).
  Notation replay := (mq_replay R answer panics rcmp rshow).
  Notation init := (mq_init R).
  Notation expected := (mq_expected answer).

  (* ---------- executable checker = relation ---------- *)

  Lemma valid_event_step : forall s e s', valid_event s e = Some s' <-> step s e s'.
  Proof.
    intros [Q ws ch rs pc] e s'. split.
    - intros H. destruct e as [w i|w|w i|i|w i| |]; cbn [mq_valid_event] in H.
      + destruct (nth_error ws w) as [[| |]|] eqn:Hw; try discriminate.
        destruct Q as [|[i' q] Q']; try discriminate.
        destruct (Nat.eqb_spec i i') as [->|]; try discriminate.
        injection H as <-. now constructor.
      + destruct (nth_error ws w) as [[| |]|] eqn:Hw; try discriminate.
        destruct Q; try discriminate. injection H as <-. now constructor.
      + destruct (nth_error ws w) as [[|i' q|]|] eqn:Hw; try discriminate.
        destruct (Nat.eqb_spec i i') as [->|]; cbn [andb] in H; try discriminate.
        destruct (panics q) eqn:Hp; cbn [negb] in H; try discriminate.
        injection H as <-. now constructor.
      + destruct ch as [|[[i' q] r] ch']; try discriminate.
        destruct pc as [[|k]| |]; try discriminate.
        destruct (Nat.eqb_spec i i') as [->|]; try discriminate.
        injection H as <-. constructor.
      + destruct (nth_error ws w) as [[|i' q|]|] eqn:Hw; try discriminate.
        destruct (Nat.eqb_spec i i') as [->|]; cbn [andb] in H; try discriminate.
        destruct (panics q) eqn:Hp; try discriminate.
        injection H as <-. eapply step_die; eassumption.
      + destruct pc as [[|k]| |]; try discriminate. injection H as <-. constructor.
      + destruct pc as [k|out|out]; try discriminate.
        destruct (forallb mq_is_exited ws) eqn:Hall; try discriminate.
        injection H as <-. now constructor.
    - intros H. inversion H as
        [Q0 ws0 ch0 rs0 pc0 w i q Hw | ws0 ch0 rs0 pc0 w Hw | Q0 ws0 ch0 rs0 pc0 w i q Hw Hp
         | Q0 ws0 ch0 rs0 pc0 w i q Hw Hp
         | Q0 ws0 ch0 rs0 k i q r | Q0 ws0 ch0 rs0 | Q0 ws0 ch0 rs0 out Hall]; subst;
        cbn [mq_valid_event].
      + rewrite Hw, Nat.eqb_refl. reflexivity.
      + rewrite Hw. reflexivity.
      + rewrite Hw, Nat.eqb_refl, Hp. reflexivity.
      + rewrite Hw, Nat.eqb_refl, Hp. reflexivity.
      + rewrite Nat.eqb_refl. reflexivity.
      + reflexivity.
      + rewrite Hall. reflexivity.
  Qed.

  Lemma replay_run : forall tr s s', replay s tr = Some s' <-> run s tr s'.
  Proof.
    intros tr. induction tr as [|e tr IH]; intros s s'; cbn [mq_replay].
    - split; intros H; [injection H as <-; constructor|inversion H; reflexivity].
    - split.
      + intros H. destruct (valid_event s e) as [s1|] eqn:He; [|discriminate].
        econstructor; [apply valid_event_step, He|now apply IH].
      + intros H. inversion H as [|? ? s1 ? ? Hst Hr]; subst.
        apply valid_event_step in Hst. rewrite Hst. now apply IH.
  Qed.

  Lemma run_snoc : forall s tr s1 e s2, run s tr s1 -> step s1 e s2 -> run s (tr ++ [e]) s2.
  Proof.
    intros s tr s1 e s2 Hr. induction Hr as [s|s e0 sa tr sb Hst Hr IH]; intros Hs; cbn [app].
    - econstructor; [exact Hs|constructor].
    - econstructor; [exact Hst|now apply IH].
  Qed.

  Lemma run_app : forall s tr1 s1 tr2 s2, run s tr1 s1 -> run s1 tr2 s2 -> run s (tr1 ++ tr2) s2.
  Proof.
    intros s tr1 s1 tr2 s2 Hr. induction Hr as [s|s e0 sa tr sb Hst Hr IH]; intros H2; cbn [app].
    - exact H2.
    - econstructor; [exact Hst|now apply IH].
  Qed.

  (* ---------- the conservation invariant ---------- *)

  Definition busy_res (x : mq_wst) : list res :=
    match x with WBusy i q => [(i, q, answer q)] | _ => [] end.

  (* every work item is at exactly one place: already collected, in the channel, in the hands of a
     worker, or still in the queue *)
  Definition in_flight (s : state) : list res :=
    mq_results s ++ mq_chan s ++ flat_map busy_res (mq_workers s) ++ expected (mq_queue s).

  Definition Inv (W : list mq_item) (j : nat) (s : state) : Prop :=
    Permutation (expected W) (in_flight s)
    /\ (forall k, mq_main s = PCollect k -> List.length (mq_results s) + k = List.length W)
    /\ (forall out, mq_output s = Some out ->
          out = mq_render rshow (mq_sort rcmp (mq_results s))
          /\ List.length (mq_results s) = List.length W)
    /\ (In WExited (mq_workers s) -> mq_queue s = [])
    /\ List.length (mq_workers s) = j
    /\ (forall it, In it (mq_queue s) -> panics (snd it) = false)
    /\ (forall i q, In (WBusy i q) (mq_workers s) -> panics q = false).

  (* no query of the file makes the operation panic *)
  Definition no_panic (W : list mq_item) : Prop := forall it, In it W -> panics (snd it) = false.

  Lemma upd_busy : forall ws w old x,
    nth_error ws w = Some old ->
    Permutation (busy_res old ++ flat_map busy_res (mq_upd ws w x))
                (busy_res x ++ flat_map busy_res ws).
  Proof.
    intros ws. induction ws as [|y ws IH]; intros w old x Hn.
    - destruct w; discriminate.
    - destruct w as [|w]; cbn [nth_error] in Hn; cbn [mq_upd flat_map].
      + injection Hn as ->. apply Permutation_app_swap_app.
      + eapply perm_trans; [apply Permutation_app_swap_app|].
        eapply perm_trans; [|apply Permutation_app_swap_app].
        apply Permutation_app_head. now apply IH.
  Qed.

  Lemma upd_length : forall ws w x, List.length (mq_upd ws w x) = List.length ws.
  Proof.
    intros ws. induction ws as [|y ws IH]; intros w x; [reflexivity|].
    destruct w; cbn [mq_upd List.length]; [reflexivity|now rewrite IH].
  Qed.

  Lemma upd_in : forall ws w x z, In z (mq_upd ws w x) -> z = x \/ In z ws.
  Proof.
    intros ws. induction ws as [|y ws IH]; intros w x z Hin; [destruct Hin|].
    destruct w; cbn [mq_upd] in Hin.
    - destruct Hin as [<-|Hin]; [now left|right; now right].
    - destruct Hin as [<-|Hin]; [right; now left|].
      apply IH in Hin. destruct Hin; [now left|right; now right].
  Qed.

  Lemma init_inv : forall W j, no_panic W -> Inv W j (init W j).
  Proof.
    intros W j Hnp. unfold Inv, mq_init, in_flight.
    cbn [mq_results mq_chan mq_workers mq_queue mq_main mq_output app List.length].
    split; [|split; [|split; [|split; [|split; [|split]]]]].
    - assert (Hf : flat_map busy_res (repeat WIdle j) = []).
      { induction j as [|j IH]; cbn [repeat flat_map busy_res app]; [reflexivity|exact IH]. }
      rewrite Hf. apply Permutation_refl.
    - intros k Hk. injection Hk as <-. reflexivity.
    - intros out Ho. discriminate.
    - intros Hin. apply repeat_spec in Hin. discriminate.
    - apply repeat_length.
    - exact Hnp.
    - intros i q Hin. apply repeat_spec in Hin. discriminate.
  Qed.

  Lemma step_inv : forall W j s e s', Inv W j s -> step s e s' -> Inv W j s'.
  Proof.
    intros W j s e s' (Hperm & Hcnt & Hout & Hex & Hlen & Hqn & Hbn) Hst.
    inversion Hst as
      [Q ws ch rs pc w i q Hw | ws ch rs pc w Hw | Q ws ch rs pc w i q Hw Hp
       | Q ws ch rs pc w i q Hw Hp
       | Q ws ch rs k i q r | Q ws ch rs | Q ws ch rs out Hall]; subst;
      unfold Inv, in_flight in *;
      cbn [mq_results mq_chan mq_workers mq_queue mq_main mq_output] in *.
    - (* pull *)
      pose proof (upd_busy ws w WIdle (WBusy i q) Hw) as Hu. cbn [busy_res app] in Hu.
      split; [|split; [|split; [|split; [|split; [|split]]]]].
      + eapply perm_trans; [exact Hperm|].
        apply Permutation_app_head, Permutation_app_head.
        cbn [mq_expected map]. fold (mq_expected answer Q).
        eapply perm_trans; [apply Permutation_sym, Permutation_middle|].
        change (mq_result_of answer (i, q) :: flat_map busy_res ws ++ expected Q)
          with (((i, q, answer q) :: flat_map busy_res ws) ++ expected Q).
        apply Permutation_app_tail, Permutation_sym, Hu.
      + exact Hcnt.
      + exact Hout.
      + intros Hin. apply upd_in in Hin. destruct Hin as [Hin|Hin]; [discriminate|].
        specialize (Hex Hin). discriminate.
      + now rewrite upd_length.
      + intros it Hin. apply Hqn. now right.
      + intros i' q' Hin. apply upd_in in Hin. destruct Hin as [Hin|Hin].
        * injection Hin as -> ->. apply (Hqn (i, q)). now left.
        * now apply (Hbn i' q').
    - (* pull-none *)
      pose proof (upd_busy ws w WIdle WExited Hw) as Hu. cbn [busy_res app] in Hu.
      split; [|split; [|split; [|split; [|split; [|split]]]]].
      + eapply perm_trans; [exact Hperm|].
        apply Permutation_app_head, Permutation_app_head, Permutation_app_tail, Permutation_sym, Hu.
      + exact Hcnt.
      + exact Hout.
      + reflexivity.
      + now rewrite upd_length.
      + exact Hqn.
      + intros i' q' Hin. apply upd_in in Hin. destruct Hin as [Hin|Hin]; [discriminate|].
        now apply (Hbn i' q').
    - (* send *)
      pose proof (upd_busy ws w (WBusy i q) WIdle Hw) as Hu. cbn [busy_res app] in Hu.
      split; [|split; [|split; [|split; [|split; [|split]]]]].
      + eapply perm_trans; [exact Hperm|].
        apply Permutation_app_head. rewrite <- app_assoc. apply Permutation_app_head.
        cbn [app].
        change ((i, q, answer q) :: flat_map busy_res (mq_upd ws w WIdle) ++ expected Q)
          with (((i, q, answer q) :: flat_map busy_res (mq_upd ws w WIdle)) ++ expected Q).
        apply Permutation_app_tail, Permutation_sym, Hu.
      + exact Hcnt.
      + exact Hout.
      + intros Hin. apply upd_in in Hin. destruct Hin as [Hin|Hin]; [discriminate|]. now apply Hex.
      + now rewrite upd_length.
      + exact Hqn.
      + intros i' q' Hin. apply upd_in in Hin. destruct Hin as [Hin|Hin]; [discriminate|].
        now apply (Hbn i' q').
    - (* die: excluded by the invariant *)
      exfalso. apply nth_error_In in Hw. rewrite (Hbn i q Hw) in Hp. discriminate.
    - (* recv *)
      split; [|split; [|split; [|split; [|split; [|split]]]]].
      + rewrite <- app_assoc. cbn [app]. exact Hperm.
      + intros k' Hk. injection Hk as <-. specialize (Hcnt (S k) eq_refl).
        rewrite app_length. cbn [List.length]. lia.
      + intros out Ho. discriminate.
      + exact Hex.
      + reflexivity.
      + exact Hqn.
      + exact Hbn.
    - (* write *)
      split; [|split; [|split; [|split; [|split; [|split]]]]].
      + exact Hperm.
      + intros k Hk. discriminate.
      + intros out Ho. injection Ho as <-. split; [reflexivity|].
        specialize (Hcnt 0 eq_refl). lia.
      + exact Hex.
      + reflexivity.
      + exact Hqn.
      + exact Hbn.
    - (* join *)
      split; [|split; [|split; [|split; [|split; [|split]]]]].
      + exact Hperm.
      + intros k Hk. discriminate.
      + intros out' Ho. injection Ho as <-. exact (Hout out eq_refl).
      + exact Hex.
      + reflexivity.
      + exact Hqn.
      + exact Hbn.
  Qed.

  Lemma run_inv : forall W j s tr s', Inv W j s -> run s tr s' -> Inv W j s'.
  Proof.
    intros W j s tr s' Hi Hr. induction Hr as [s|s e s1 tr s2 Hst Hr IH]; [exact Hi|].
    apply IH. eapply step_inv; eauto.
  Qed.

  Lemma reachable_inv : forall W j tr s, no_panic W -> run (init W j) tr s -> Inv W j s.
  Proof. intros W j tr s Hnp Hr. eapply run_inv; [now apply init_inv|exact Hr]. Qed.

  (* all results collected -> nothing is anywhere else *)
  Lemma full_results : forall W j s,
    Inv W j s -> List.length (mq_results s) = List.length W ->
    Permutation (mq_results s) (expected W)
    /\ mq_chan s = [] /\ flat_map busy_res (mq_workers s) = [] /\ mq_queue s = [].
  Proof.
    intros W j s (Hperm & _) Hl. unfold in_flight in Hperm.
    pose proof (Permutation_length Hperm) as Hlen.
    unfold mq_expected in Hlen at 1. rewrite map_length in Hlen.
    rewrite !app_length in Hlen.
    assert (Hc : mq_chan s = []) by (apply length_zero_iff_nil; lia).
    assert (Hb : flat_map busy_res (mq_workers s) = []) by (apply length_zero_iff_nil; lia).
    assert (Hq : mq_queue s = []).
    { destruct (mq_queue s) as [|x Q]; [reflexivity|].
      unfold mq_expected in Hlen. cbn [map List.length] in Hlen. lia. }
    repeat split; try assumption.
    rewrite Hc, Hb, Hq in Hperm. cbn [mq_expected map app] in Hperm. rewrite app_nil_r in Hperm.
    now apply Permutation_sym.
  Qed.

  (* C15_collect *)
  Lemma collect : forall W j tr s,
    no_panic W ->
    run (init W j) tr s -> mq_main s = PCollect 0 -> Permutation (mq_results s) (expected W).
  Proof.
    intros W j tr s Hnp Hr Hpc. pose proof (reachable_inv W j tr s Hnp Hr) as Hi.
    pose proof Hi as (_ & Hcnt & _). specialize (Hcnt 0 Hpc).
    apply (full_results W j s Hi). lia.
  Qed.

  (* C15_byte_identical *)
  Lemma byte_identical : forall W j tr s out,
    mq_file_order W -> no_panic W -> run (init W j) tr s -> mq_output s = Some out ->
    out = mq_render_single answer rshow W.
  Proof.
    intros W j tr s out Hfo Hnp Hr Ho. pose proof (reachable_inv W j tr s Hnp Hr) as Hi.
    pose proof Hi as (_ & _ & Hout & _). destruct (Hout out Ho) as [-> Hl].
    destruct (full_results W j s Hi Hl) as (Hp & _).
    now apply sorted_output.
  Qed.

  (* the same, starting from the text of the query file *)
  Lemma file_byte_identical : forall content W j tr s out,
    mq_parse_file content = Some W -> no_panic W -> run (init W j) tr s -> mq_output s = Some out ->
    out = mq_render_single answer rshow W
    /\ List.length W = List.length (mq_file_lines content).
  Proof.
    intros content W j tr s out Hp Hnp Hr Ho. unfold mq_parse_file in Hp. split.
    - eapply byte_identical; eauto. eapply mq_parse_lines_file_order; eauto.
    - eapply mq_parse_lines_length; eauto.
  Qed.

  (* ---------- every run is finite ---------- *)

  Lemma upd_weight : forall ws w old x,
    nth_error ws w = Some old ->
    list_sum (map mq_wweight (mq_upd ws w x)) + mq_wweight old
    = list_sum (map mq_wweight ws) + mq_wweight x.
  Proof.
    intros ws. induction ws as [|y ws IH]; intros w old x Hn; [destruct w; discriminate|].
    destruct w as [|w]; cbn [nth_error] in Hn; cbn [mq_upd map list_sum fold_right].
    - injection Hn as ->. lia.
    - specialize (IH w old x Hn). unfold list_sum in IH. lia.
  Qed.

  Lemma step_measure : forall s e s', step s e s' -> S (mq_measure s') <= mq_measure s.
  Proof.
    intros s e s' Hst.
    inversion Hst as
      [Q ws ch rs pc w i q Hw | ws ch rs pc w Hw | Q ws ch rs pc w i q Hw Hp
       | Q ws ch rs pc w i q Hw Hp
       | Q ws ch rs k i q r | Q ws ch rs | Q ws ch rs out Hall]; subst;
      unfold mq_measure; cbn [mq_results mq_chan mq_workers mq_queue mq_main List.length mq_pcweight].
    - pose proof (upd_weight ws w WIdle (WBusy i q) Hw) as Hu. cbn [mq_wweight] in Hu. lia.
    - pose proof (upd_weight ws w WIdle WExited Hw) as Hu. cbn [mq_wweight] in Hu. lia.
    - pose proof (upd_weight ws w (WBusy i q) WIdle Hw) as Hu. cbn [mq_wweight] in Hu.
      rewrite app_length. cbn [List.length]. lia.
    - pose proof (upd_weight ws w (WBusy i q) WExited Hw) as Hu. cbn [mq_wweight] in Hu. lia.
    - lia.
    - lia.
    - lia.
  Qed.

  Lemma run_measure : forall s tr s', run s tr s' -> List.length tr + mq_measure s' <= mq_measure s.
  Proof.
    intros s tr s' Hr. induction Hr as [s|s e s1 tr s2 Hst Hr IH]; cbn [List.length]; [lia|].
    apply step_measure in Hst. lia.
  Qed.

  Lemma init_measure : forall W j, mq_measure (init W j) = 3 * List.length W + j + 2.
  Proof.
    intros W j. unfold mq_measure, mq_init.
    cbn [mq_results mq_chan mq_workers mq_queue mq_main List.length mq_pcweight].
    assert (Hs : list_sum (map mq_wweight (repeat WIdle j)) = j).
    { unfold list_sum. induction j as [|j IH]; cbn [repeat map fold_right mq_wweight]; [reflexivity|now rewrite IH]. }
    rewrite Hs. lia.
  Qed.

  (* no run is longer than 3|W| + j + 2 events (pull, send, recv per item; one pull-none per
     worker; write; join), whether or not the operation panics *)
  Lemma run_bounded : forall W j tr s,
    run (init W j) tr s -> List.length tr <= 3 * List.length W + j + 2.
  Proof.
    intros W j tr s Hr. pose proof (run_measure _ _ _ Hr) as Hm. rewrite init_measure in Hm. lia.
  Qed.

  (* ---------- no reachable state is stuck ---------- *)

  Lemma workers_cases : forall ws : list mq_wst,
    (exists w i q, nth_error ws w = Some (WBusy i q))
    \/ (exists w, nth_error ws w = Some WIdle)
    \/ forallb mq_is_exited ws = true.
  Proof.
    intros ws. induction ws as [|x ws IH].
    - right. right. reflexivity.
    - destruct x as [|i q|].
      + right. left. exists 0. reflexivity.
      + left. exists 0, i, q. reflexivity.
      + destruct IH as [(w & i & q & H)|[(w & H)|H]].
        * left. exists (S w), i, q. exact H.
        * right. left. exists (S w). exact H.
        * right. right. cbn [forallb mq_is_exited]. exact H.
  Qed.

  Lemma progress : forall W j tr s,
    1 <= j -> no_panic W -> run (init W j) tr s -> (forall out, mq_main s <> PJoined out) ->
    exists e s', step s e s'.
  Proof.
    intros W j tr s Hj Hnp Hr Hnj. pose proof (reachable_inv W j tr s Hnp Hr) as Hi.
    assert (Hbusy : forall w i q, nth_error (mq_workers s) w = Some (WBusy i q) -> panics q = false).
    { intros w i q Hw. destruct Hi as (_ & _ & _ & _ & _ & _ & Hbn). apply (Hbn i q).
      eapply nth_error_In; eauto. }
    destruct s as [Q ws ch rs pc].
    cbn [mq_main mq_workers] in Hnj, Hbusy.
    destruct pc as [[|k]|out|out].
    - eexists. eexists. apply step_write.
    - destruct ch as [|[[i q] r] ch].
      + destruct (workers_cases ws) as [(w & i & q & H)|[(w & H)|H]].
        * eexists. eexists. apply step_send; [exact H|eapply Hbusy; eauto].
        * destruct Q as [|[i q] Q]; eexists; eexists; [apply step_pull_none|apply step_pull]; exact H.
        * exfalso.
          pose proof Hi as (Hperm & Hcnt & _ & Hex & Hlen & _).
          cbn [mq_results mq_chan mq_workers mq_queue mq_main] in *.
          assert (HQ : Q = []).
          { apply Hex. destruct ws as [|x ws]; [cbn [List.length] in Hlen; lia|].
            cbn [forallb] in H. apply andb_true_iff in H. destruct H as [H _].
            destruct x; try discriminate. now left. }
          assert (Hb : flat_map busy_res ws = []).
          { clear -H. induction ws as [|x ws IH]; [reflexivity|].
            cbn [forallb] in H. apply andb_true_iff in H. destruct H as [Hx H].
            destruct x; try discriminate. cbn [flat_map busy_res app]. now apply IH. }
          unfold in_flight in Hperm. cbn [mq_results mq_chan mq_workers mq_queue] in Hperm.
          rewrite HQ, Hb in Hperm. cbn [mq_expected map app] in Hperm. rewrite app_nil_r in Hperm.
          apply Permutation_length in Hperm. unfold mq_expected in Hperm. rewrite map_length in Hperm.
          specialize (Hcnt (S k) eq_refl). lia.
      + eexists. eexists. apply step_recv.
    - destruct (workers_cases ws) as [(w & i & q & H)|[(w & H)|H]].
      + eexists. eexists. apply step_send; [exact H|eapply Hbusy; eauto].
      + destruct Q as [|[i q] Q]; eexists; eexists; [apply step_pull_none|apply step_pull]; exact H.
      + eexists. eexists. apply step_join. exact H.
    - exfalso. now apply (Hnj out).
  Qed.

  (* from every reachable state the system can run to completion *)
  Lemma completes_from : forall W j n tr s,
    1 <= j -> no_panic W -> run (init W j) tr s -> mq_measure s <= n ->
    exists tr' s' out, run s tr' s' /\ mq_main s' = PJoined out.
  Proof.
    intros W j n. induction n as [|n IH]; intros tr s Hj Hnp Hr Hm.
    - destruct (mq_main s) as [k|out|out] eqn:Hpc.
      + unfold mq_measure in Hm. rewrite Hpc in Hm. cbn [mq_pcweight] in Hm. lia.
      + unfold mq_measure in Hm. rewrite Hpc in Hm. cbn [mq_pcweight] in Hm. lia.
      + exists [], s, out. split; [constructor|exact Hpc].
    - destruct (mq_main s) as [k|out|out] eqn:Hpc.
      1,2: destruct (progress W j tr s Hj Hnp Hr) as (e & s1 & Hst); [rewrite Hpc; discriminate|];
        pose proof (step_measure _ _ _ Hst) as Hm1;
        destruct (IH (tr ++ [e]) s1 Hj Hnp (run_snoc _ _ _ _ _ Hr Hst)) as (tr' & s' & o & Hr' & Ho); [lia|];
        exists (e :: tr'), s', o; split; [econstructor; eauto|exact Ho].
      exists [], s, out. split; [constructor|exact Hpc].
  Qed.

  Lemma terminates : forall W j,
    1 <= j -> mq_file_order W -> no_panic W ->
    exists tr s, run (init W j) tr s /\ mq_main s = PJoined (mq_render_single answer rshow W).
  Proof.
    intros W j Hj Hfo Hnp.
    destruct (completes_from W j _ [] (init W j) Hj Hnp (run_nil _ _ _ _ _ _) (le_n _))
      as (tr & s & out & Hr & Ho).
    exists tr, s. split; [exact Hr|].
    rewrite Ho. f_equal. eapply byte_identical; eauto.
    unfold mq_output. now rewrite Ho.
  Qed.

  (* the single-thread loop without panics writes mq_render_single and returns *)
  Lemma single_no_panic : forall W,
    no_panic W -> mq_single R answer panics rshow W = (mq_render_single answer rshow W, false).
  Proof.
    intros W. induction W as [|it W IH]; intros Hnp; cbn [mq_single]; [reflexivity|].
    rewrite (Hnp it (or_introl eq_refl)). rewrite IH; [reflexivity|].
    intros it' Hin. apply Hnp. now right.
  Qed.
End Inv.

(* ---------- a panicking operation: the witness of C15_worker_panic_blocks_refuted ---------- *)
Definition ref_W : list mq_item := [(0, [1]%Z); (1, [-2147483648]%Z); (2, [2]%Z)]%nat.
Definition ref_panics (q : mq_query) : bool :=
  match q with [z] => Z.eqb z (-2147483648) | _ => false end.
Definition ref_answer (q : mq_query) : string := "7"%string.
Definition ref_rcmp (_ _ : string) : comparison := Eq.
Definition ref_show (s : string) : string := s.
Definition ref_trace : list mq_event :=
  [EPull 0 0; EPull 1 1; ESend 0 0; EDie 1 1; EPull 0 2; ESend 0 2; ERecv 0; ERecv 2; EPullNone 0]%nat.
Lemma worker_panic_blocks :
  exists s,
    mq_run string ref_answer ref_panics ref_rcmp ref_show (mq_init string ref_W 2) ref_trace s
    /\ mq_main s = PCollect 1
    /\ (forall e, mq_valid_event string ref_answer ref_panics ref_rcmp ref_show s e = None)
    /\ mq_single string ref_answer ref_panics ref_show ref_W = (("1,7" ++ mq_nl)%string, true).
Proof.
  destruct (mq_replay string ref_answer ref_panics ref_rcmp ref_show (mq_init string ref_W 2) ref_trace)
    as [s|] eqn:E; [|vm_compute in E; discriminate].
  exists s. split; [apply replay_run; exact E|].
  vm_compute in E. injection E as <-. split; [reflexivity|]. split; [|vm_compute; reflexivity].
  intros [w i|w|w i|i|w i| |]; try reflexivity;
    destruct w as [|[|w]]; try reflexivity; destruct w; reflexivity.
Qed.
