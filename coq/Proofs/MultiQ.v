(* C15, collection phase: invariants of the transition system Model/MultiQ.v over ALL interleavings
   and any number of workers: nothing is lost, nothing is duplicated, every run is finite, no
   reachable state is stuck before the main thread has returned or panicked.
   [fx] is the Section variable drop_tx of the model: true = the repaired code (the main thread
   drops its own Sender), false = v0.  Everything that does not mention [fx = true] holds for both. *)
From Coq Require Import List ZArith Bool Lia Permutation Sorted String.
From DD Require Import Model.MultiQ Proofs.MultiQSort.
Import ListNotations.

Section Inv.
  Variable R : Type.
  Variable answer : mq_query -> R.
  Variable panics : mq_query -> bool.
  Variable rcmp : R -> R -> comparison.
  Variable rshow : R -> string.
  Variable fx : bool.
  Notation res := (nat * list Z * R)%type.
  Notation state := (mq_state R).
  Notation step := (mq_step R answer panics rcmp rshow fx).
  Notation run := (mq_run R answer panics rcmp rshow fx).
  Notation valid_event := (mq_valid_event R answer panics rcmp rshow fx).
  Notation replay := (mq_replay R answer panics rcmp rshow fx).
  Notation init := (mq_init R).
  Notation expected := (mq_expected answer).

  (* ---------- executable checker = relation ---------- *)

  Lemma valid_event_step : forall s e s', valid_event s e = Some s' <-> step s e s'.
  Proof.
    intros [Q ws ch rs pc] e s'. split.
    - intros H. destruct e as [w i|w|w i|i|w i| | | |w]; cbn [mq_valid_event] in H.
      + destruct (nth_error ws w) as [[| | |]|] eqn:Hw; try discriminate.
        destruct Q as [|[i' q] Q']; try discriminate.
        destruct (Nat.eqb_spec i i') as [->|]; try discriminate.
        injection H as <-. now constructor.
      + destruct (nth_error ws w) as [[| | |]|] eqn:Hw; try discriminate.
        destruct Q; try discriminate. injection H as <-. now constructor.
      + destruct (nth_error ws w) as [[|i' q| |]|] eqn:Hw; try discriminate.
        destruct (Nat.eqb_spec i i') as [->|]; cbn [andb] in H; try discriminate.
        destruct (panics q) eqn:Hp; cbn [negb] in H; try discriminate.
        injection H as <-. now constructor.
      + destruct ch as [|[[i' q] r] ch']; try discriminate.
        destruct pc as [[|k]| | |]; try discriminate.
        destruct (Nat.eqb_spec i i') as [->|]; try discriminate.
        injection H as <-. constructor.
      + destruct (nth_error ws w) as [[|i' q| |]|] eqn:Hw; try discriminate.
        destruct (Nat.eqb_spec i i') as [->|]; cbn [andb] in H; try discriminate.
        destruct (panics q) eqn:Hp; try discriminate.
        injection H as <-. eapply step_die; eassumption.
      + destruct pc as [[|k]| | |]; try discriminate. injection H as <-. constructor.
      + destruct pc as [k|out|out|o]; try discriminate.
        destruct (forallb mq_is_exited ws) eqn:Hall; try discriminate.
        injection H as <-. now constructor.
      + destruct ch as [|x ch']; try discriminate.
        destruct pc as [[|k]| | |]; try discriminate.
        destruct fx eqn:Hfx; cbn [andb] in H; try discriminate.
        destruct (forallb mq_is_done ws) eqn:Hall; try discriminate.
        injection H as <-. now constructor.
      + destruct pc as [k|out|out|o]; try discriminate.
        destruct (nth_error ws w) as [[|i q| |i q]|] eqn:Hw; try discriminate.
        destruct (forallb mq_is_exited (firstn w ws)) eqn:Hall; try discriminate.
        injection H as <-. eapply step_join_dead; eassumption.
    - intros H. inversion H as
        [Q0 ws0 ch0 rs0 pc0 w i q Hw | ws0 ch0 rs0 pc0 w Hw | Q0 ws0 ch0 rs0 pc0 w i q Hw Hp
         | Q0 ws0 ch0 rs0 pc0 w i q Hw Hp
         | Q0 ws0 ch0 rs0 k i q r | Q0 ws0 ch0 rs0 | Q0 ws0 ch0 rs0 out Hall
         | Q0 ws0 rs0 k Hfx Hall | Q0 ws0 ch0 rs0 out w i q Hw Hall]; subst;
        cbn [mq_valid_event].
      + rewrite Hw, Nat.eqb_refl. reflexivity.
      + rewrite Hw. reflexivity.
      + rewrite Hw, Nat.eqb_refl, Hp. reflexivity.
      + rewrite Hw, Nat.eqb_refl, Hp. reflexivity.
      + rewrite Nat.eqb_refl. reflexivity.
      + reflexivity.
      + rewrite Hall. reflexivity.
      + rewrite Hall. reflexivity.
      + rewrite Hw, Hall. reflexivity.
  Qed.

  Lemma replay_run : forall tr s s', replay s tr = Some s' <-> run s tr s'.
  Proof.
    intros tr. induction tr as [|e tr IH]; intros s s'; cbn [mq_replay].
    - split; intros H; [injection H as <-; constructor|inversion H; reflexivity].
    - split.
      + intros H. destruct (valid_event s e) as [s1|] eqn:He; [|discriminate].
        econstructor; [apply valid_event_step, He|now apply IH].
      + intros H. inversion H as [|? ? s1 ? ? Hst Hr]; subst.
        apply valid_event_step in Hst. rewrite Hst. now apply IH.
  Qed.

  Lemma run_snoc : forall s tr s1 e s2, run s tr s1 -> step s1 e s2 -> run s (tr ++ [e]) s2.
  Proof.
    intros s tr s1 e s2 Hr. induction Hr as [s|s e0 sa tr sb Hst Hr IH]; intros Hs; cbn [app].
    - econstructor; [exact Hs|constructor].
    - econstructor; [exact Hst|now apply IH].
  Qed.

  Lemma run_app : forall s tr1 s1 tr2 s2, run s tr1 s1 -> run s1 tr2 s2 -> run s (tr1 ++ tr2) s2.
  Proof.
    intros s tr1 s1 tr2 s2 Hr. induction Hr as [s|s e0 sa tr sb Hst Hr IH]; intros H2; cbn [app].
    - exact H2.
    - econstructor; [exact Hst|now apply IH].
  Qed.

  (* ---------- the conservation invariant ---------- *)

  (* the item a worker holds (WBusy) or has taken with it when it died (WDied) *)
  Definition held_res (x : mq_wst) : list res :=
    match x with WBusy i q | WDied i q => [(i, q, answer q)] | _ => [] end.

  (* every work item is at exactly one place: already collected, in the channel, in the hands of a
     worker (alive or dead), or still in the queue *)
  Definition in_flight (s : state) : list res :=
    mq_results s ++ mq_chan s ++ flat_map held_res (mq_workers s) ++ expected (mq_queue s).

  (* no hypothesis about panics: the invariant holds in every reachable state of both systems *)
  Definition Inv (W : list mq_item) (j : nat) (s : state) : Prop :=
    Permutation (expected W) (in_flight s)
    /\ (forall k, mq_main s = PCollect k -> List.length (mq_results s) + k = List.length W)
    /\ (forall out, mq_output s = Some out ->
          out = mq_render rshow (mq_sort rcmp (mq_results s))
          /\ List.length (mq_results s) = List.length W)
    /\ (In WExited (mq_workers s) -> mq_queue s = [])
    /\ List.length (mq_workers s) = j
    /\ (forall i q, In (WDied i q) (mq_workers s) -> panics q = true)
    /\ (forall r, In r (mq_results s ++ mq_chan s) -> panics (snd (fst r)) = false).

  (* no query of the file makes the operation panic *)
  Definition no_panic (W : list mq_item) : Prop := forall it, In it W -> panics (snd it) = false.
  (* some query of the file does *)
  Definition some_panic (W : list mq_item) : Prop := exists it, In it W /\ panics (snd it) = true.

  Lemma upd_held : forall ws w old x,
    nth_error ws w = Some old ->
    Permutation (held_res old ++ flat_map held_res (mq_upd ws w x))
                (held_res x ++ flat_map held_res ws).
  Proof.
    intros ws. induction ws as [|y ws IH]; intros w old x Hn.
    - destruct w; discriminate.
    - destruct w as [|w]; cbn [nth_error] in Hn; cbn [mq_upd flat_map].
      + injection Hn as ->. apply Permutation_app_swap_app.
      + eapply perm_trans; [apply Permutation_app_swap_app|].
        eapply perm_trans; [|apply Permutation_app_swap_app].
        apply Permutation_app_head. now apply IH.
  Qed.

  Lemma upd_length : forall ws w x, List.length (mq_upd ws w x) = List.length ws.
  Proof.
    intros ws. induction ws as [|y ws IH]; intros w x; [reflexivity|].
    destruct w; cbn [mq_upd List.length]; [reflexivity|now rewrite IH].
  Qed.

  Lemma upd_in : forall ws w x z, In z (mq_upd ws w x) -> z = x \/ In z ws.
  Proof.
    intros ws. induction ws as [|y ws IH]; intros w x z Hin; [destruct Hin|].
    destruct w; cbn [mq_upd] in Hin.
    - destruct Hin as [<-|Hin]; [now left|right; now right].
    - destruct Hin as [<-|Hin]; [right; now left|].
      apply IH in Hin. destruct Hin; [now left|right; now right].
  Qed.

  Lemma init_inv : forall W j, Inv W j (init W j).
  Proof.
    intros W j. unfold Inv, mq_init, in_flight.
    cbn [mq_results mq_chan mq_workers mq_queue mq_main mq_output app List.length].
    split; [|split; [|split; [|split; [|split; [|split]]]]].
    - assert (Hf : flat_map held_res (repeat WIdle j) = []).
      { induction j as [|j IH]; cbn [repeat flat_map held_res app]; [reflexivity|exact IH]. }
      rewrite Hf. apply Permutation_refl.
    - intros k Hk. injection Hk as <-. reflexivity.
    - intros out Ho. discriminate.
    - intros Hin. apply repeat_spec in Hin. discriminate.
    - apply repeat_length.
    - intros i q Hin. apply repeat_spec in Hin. discriminate.
    - intros r [].
  Qed.

  Lemma step_inv : forall W j s e s', Inv W j s -> step s e s' -> Inv W j s'.
  Proof.
    intros W j s e s' (Hperm & Hcnt & Hout & Hex & Hlen & Hdn & Hsn) Hst.
    inversion Hst as
      [Q ws ch rs pc w i q Hw | ws ch rs pc w Hw | Q ws ch rs pc w i q Hw Hp
       | Q ws ch rs pc w i q Hw Hp
       | Q ws ch rs k i q r | Q ws ch rs | Q ws ch rs out Hall
       | Q ws rs k Hfx Hall | Q ws ch rs out w i q Hw Hall]; subst;
      unfold Inv, in_flight in *;
      cbn [mq_results mq_chan mq_workers mq_queue mq_main mq_output] in *.
    - (* pull *)
      pose proof (upd_held ws w WIdle (WBusy i q) Hw) as Hu. cbn [held_res app] in Hu.
      split; [|split; [|split; [|split; [|split; [|split]]]]].
      + eapply perm_trans; [exact Hperm|].
        apply Permutation_app_head, Permutation_app_head.
        cbn [mq_expected map]. fold (mq_expected answer Q).
        eapply perm_trans; [apply Permutation_sym, Permutation_middle|].
        change (mq_result_of answer (i, q) :: flat_map held_res ws ++ expected Q)
          with (((i, q, answer q) :: flat_map held_res ws) ++ expected Q).
        apply Permutation_app_tail, Permutation_sym, Hu.
      + exact Hcnt.
      + exact Hout.
      + intros Hin. apply upd_in in Hin. destruct Hin as [Hin|Hin]; [discriminate|].
        specialize (Hex Hin). discriminate.
      + now rewrite upd_length.
      + intros i' q' Hin. apply upd_in in Hin. destruct Hin as [Hin|Hin]; [discriminate|].
        now apply (Hdn i' q').
      + exact Hsn.
    - (* pull-none *)
      pose proof (upd_held ws w WIdle WExited Hw) as Hu. cbn [held_res app] in Hu.
      split; [|split; [|split; [|split; [|split; [|split]]]]].
      + eapply perm_trans; [exact Hperm|].
        apply Permutation_app_head, Permutation_app_head, Permutation_app_tail, Permutation_sym, Hu.
      + exact Hcnt.
      + exact Hout.
      + reflexivity.
      + now rewrite upd_length.
      + intros i' q' Hin. apply upd_in in Hin. destruct Hin as [Hin|Hin]; [discriminate|].
        now apply (Hdn i' q').
      + exact Hsn.
    - (* send *)
      pose proof (upd_held ws w (WBusy i q) WIdle Hw) as Hu. cbn [held_res app] in Hu.
      split; [|split; [|split; [|split; [|split; [|split]]]]].
      + eapply perm_trans; [exact Hperm|].
        apply Permutation_app_head. rewrite <- app_assoc. apply Permutation_app_head.
        cbn [app].
        change ((i, q, answer q) :: flat_map held_res (mq_upd ws w WIdle) ++ expected Q)
          with (((i, q, answer q) :: flat_map held_res (mq_upd ws w WIdle)) ++ expected Q).
        apply Permutation_app_tail, Permutation_sym, Hu.
      + exact Hcnt.
      + exact Hout.
      + intros Hin. apply upd_in in Hin. destruct Hin as [Hin|Hin]; [discriminate|]. now apply Hex.
      + now rewrite upd_length.
      + intros i' q' Hin. apply upd_in in Hin. destruct Hin as [Hin|Hin]; [discriminate|].
        now apply (Hdn i' q').
      + intros r Hin. rewrite app_assoc in Hin. apply in_app_or in Hin. destruct Hin as [Hin|Hin].
        * now apply Hsn.
        * destruct Hin as [<-|[]]. exact Hp.
    - (* die: the item stays with the dead worker *)
      pose proof (upd_held ws w (WBusy i q) (WDied i q) Hw) as Hu. cbn [held_res app] in Hu.
      apply Permutation_cons_inv in Hu.
      split; [|split; [|split; [|split; [|split; [|split]]]]].
      + eapply perm_trans; [exact Hperm|].
        apply Permutation_app_head, Permutation_app_head, Permutation_app_tail, Permutation_sym, Hu.
      + exact Hcnt.
      + exact Hout.
      + intros Hin. apply upd_in in Hin. destruct Hin as [Hin|Hin]; [discriminate|]. now apply Hex.
      + now rewrite upd_length.
      + intros i' q' Hin. apply upd_in in Hin. destruct Hin as [Hin|Hin].
        * injection Hin as -> ->. exact Hp.
        * now apply (Hdn i' q').
      + exact Hsn.
    - (* recv *)
      split; [|split; [|split; [|split; [|split; [|split]]]]].
      + rewrite <- app_assoc. cbn [app]. exact Hperm.
      + intros k' Hk. injection Hk as <-. specialize (Hcnt (S k) eq_refl).
        rewrite app_length. cbn [List.length]. lia.
      + intros out Ho. discriminate.
      + exact Hex.
      + reflexivity.
      + exact Hdn.
      + intros r' Hin. apply Hsn. rewrite <- app_assoc in Hin. exact Hin.
    - (* write *)
      split; [|split; [|split; [|split; [|split; [|split]]]]].
      + exact Hperm.
      + intros k Hk. discriminate.
      + intros out Ho. injection Ho as <-. split; [reflexivity|].
        specialize (Hcnt 0 eq_refl). lia.
      + exact Hex.
      + reflexivity.
      + exact Hdn.
      + exact Hsn.
    - (* join *)
      split; [|split; [|split; [|split; [|split; [|split]]]]].
      + exact Hperm.
      + intros k Hk. discriminate.
      + intros out' Ho. injection Ho as <-. exact (Hout out eq_refl).
      + exact Hex.
      + reflexivity.
      + exact Hdn.
      + exact Hsn.
    - (* closed *)
      split; [|split; [|split; [|split; [|split; [|split]]]]].
      + exact Hperm.
      + intros k' Hk. discriminate.
      + intros out Ho. discriminate.
      + exact Hex.
      + reflexivity.
      + exact Hdn.
      + exact Hsn.
    - (* join-dead *)
      split; [|split; [|split; [|split; [|split; [|split]]]]].
      + exact Hperm.
      + intros k Hk. discriminate.
      + intros out' Ho. injection Ho as <-. exact (Hout out eq_refl).
      + exact Hex.
      + reflexivity.
      + exact Hdn.
      + exact Hsn.
  Qed.

  Lemma run_inv : forall W j s tr s', Inv W j s -> run s tr s' -> Inv W j s'.
  Proof.
    intros W j s tr s' Hi Hr. induction Hr as [s|s e s1 tr s2 Hst Hr IH]; [exact Hi|].
    apply IH. eapply step_inv; eauto.
  Qed.

  Lemma reachable_inv : forall W j tr s, run (init W j) tr s -> Inv W j s.
  Proof. intros W j tr s Hr. eapply run_inv; [apply init_inv|exact Hr]. Qed.

  (* whatever is in flight is an item of the file *)
  Lemma in_flight_item : forall W j s i q r,
    Inv W j s -> In (i, q, r) (in_flight s) -> In (i, q) W.
  Proof.
    intros W j s i q r (Hperm & _) Hin.
    apply (Permutation_in _ (Permutation_sym Hperm)) in Hin.
    unfold mq_expected in Hin. apply in_map_iff in Hin. destruct Hin as [[i' q'] [Heq Hin]].
    unfold mq_result_of in Heq. cbn [fst snd] in Heq. injection Heq as -> -> _. exact Hin.
  Qed.

  Lemma held_in_flight : forall (s : state) x r,
    In x (mq_workers s) -> In r (held_res x) -> In r (in_flight s).
  Proof.
    intros s x r Hx Hr. unfold in_flight. apply in_or_app. right. apply in_or_app. right.
    apply in_or_app. left. apply in_flat_map. exists x. split; assumption.
  Qed.

  (* under no_panic no worker ever dies and no worker holds a panicking query *)
  Lemma np_no_died : forall W j s i q,
    Inv W j s -> no_panic W -> In (WDied i q) (mq_workers s) -> False.
  Proof.
    intros W j s i q Hi Hnp Hin.
    assert (HW : In (i, q) W).
    { apply (in_flight_item W j s i q (answer q) Hi).
      eapply held_in_flight; [exact Hin|]. now left. }
    destruct Hi as (_ & _ & _ & _ & _ & Hdn & _).
    specialize (Hdn i q Hin). specialize (Hnp (i, q) HW). cbn [snd] in Hnp.
    rewrite Hnp in Hdn. discriminate.
  Qed.

  Lemma np_busy : forall W j s i q,
    Inv W j s -> no_panic W -> In (WBusy i q) (mq_workers s) -> panics q = false.
  Proof.
    intros W j s i q Hi Hnp Hin.
    apply (Hnp (i, q)). apply (in_flight_item W j s i q (answer q) Hi).
    eapply held_in_flight; [exact Hin|]. now left.
  Qed.

  (* all results collected -> nothing is anywhere else *)
  Lemma full_results : forall W j s,
    Inv W j s -> List.length (mq_results s) = List.length W ->
    Permutation (mq_results s) (expected W)
    /\ mq_chan s = [] /\ flat_map held_res (mq_workers s) = [] /\ mq_queue s = [].
  Proof.
    intros W j s (Hperm & _) Hl. unfold in_flight in Hperm.
    pose proof (Permutation_length Hperm) as Hlen.
    unfold mq_expected in Hlen at 1. rewrite map_length in Hlen.
    rewrite !app_length in Hlen.
    assert (Hc : mq_chan s = []) by (apply length_zero_iff_nil; lia).
    assert (Hb : flat_map held_res (mq_workers s) = []) by (apply length_zero_iff_nil; lia).
    assert (Hq : mq_queue s = []).
    { destruct (mq_queue s) as [|x Q]; [reflexivity|].
      unfold mq_expected in Hlen. cbn [map List.length] in Hlen. lia. }
    repeat split; try assumption.
    rewrite Hc, Hb, Hq in Hperm. cbn [mq_expected map app] in Hperm. rewrite app_nil_r in Hperm.
    now apply Permutation_sym.
  Qed.

  (* C15_collect (no hypothesis on panics: PCollect 0 means that all |W| results have arrived) *)
  Lemma collect : forall W j tr s,
    run (init W j) tr s -> mq_main s = PCollect 0 -> Permutation (mq_results s) (expected W).
  Proof.
    intros W j tr s Hr Hpc. pose proof (reachable_inv W j tr s Hr) as Hi.
    pose proof Hi as (_ & Hcnt & _). specialize (Hcnt 0 Hpc).
    apply (full_results W j s Hi). lia.
  Qed.

  (* C15_byte_identical *)
  Lemma byte_identical : forall W j tr s out,
    mq_file_order W -> run (init W j) tr s -> mq_output s = Some out ->
    out = mq_render_single answer rshow W.
  Proof.
    intros W j tr s out Hfo Hr Ho. pose proof (reachable_inv W j tr s Hr) as Hi.
    pose proof Hi as (_ & _ & Hout & _). destruct (Hout out Ho) as [-> Hl].
    destruct (full_results W j s Hi Hl) as (Hp & _).
    now apply sorted_output.
  Qed.

  (* the same, starting from the text of the query file *)
  Lemma file_byte_identical : forall content W j tr s out,
    mq_parse_file content = Some W -> run (init W j) tr s -> mq_output s = Some out ->
    out = mq_render_single answer rshow W
    /\ List.length W = List.length (mq_file_lines content).
  Proof.
    intros content W j tr s out Hp Hr Ho. unfold mq_parse_file in Hp. split.
    - eapply byte_identical; eauto. eapply mq_parse_lines_file_order; eauto.
    - eapply mq_parse_lines_length; eauto.
  Qed.

  (* an output exists only if no query of the file panics: a panicking query is never sent, so the
     main thread never gets |W| results, never sorts and never writes *)
  Lemma output_no_panic : forall W j tr s out,
    run (init W j) tr s -> mq_output s = Some out -> no_panic W.
  Proof.
    intros W j tr s out Hr Ho [i q] Hin. cbn [snd].
    pose proof (reachable_inv W j tr s Hr) as Hi.
    pose proof Hi as (_ & _ & Hout & _ & _ & _ & Hsn). destruct (Hout out Ho) as [_ Hl].
    destruct (full_results W j s Hi Hl) as (Hp & _).
    assert (Hr' : In (i, q, answer q) (mq_results s)).
    { eapply Permutation_in; [apply Permutation_sym, Hp|].
      unfold mq_expected. apply in_map_iff. exists (i, q). split; [reflexivity|exact Hin]. }
    apply (Hsn (i, q, answer q)). apply in_or_app. now left.
  Qed.

  Lemma some_panic_no_output : forall W j tr s,
    some_panic W -> run (init W j) tr s -> mq_output s = None.
  Proof.
    intros W j tr s (it & Hin & Hp) Hr. destruct (mq_output s) as [out|] eqn:Ho; [|reflexivity].
    pose proof (output_no_panic W j tr s out Hr Ho it Hin) as Hnp. rewrite Hnp in Hp. discriminate.
  Qed.

  (* ---------- every run is finite ---------- *)

  Lemma upd_weight : forall ws w old x,
    nth_error ws w = Some old ->
    list_sum (map mq_wweight (mq_upd ws w x)) + mq_wweight old
    = list_sum (map mq_wweight ws) + mq_wweight x.
  Proof.
    intros ws. induction ws as [|y ws IH]; intros w old x Hn; [destruct w; discriminate|].
    destruct w as [|w]; cbn [nth_error] in Hn; cbn [mq_upd map list_sum fold_right].
    - injection Hn as ->. lia.
    - specialize (IH w old x Hn). unfold list_sum in IH. lia.
  Qed.

  Lemma step_measure : forall s e s', step s e s' -> S (mq_measure s') <= mq_measure s.
  Proof.
    intros s e s' Hst.
    inversion Hst as
      [Q ws ch rs pc w i q Hw | ws ch rs pc w Hw | Q ws ch rs pc w i q Hw Hp
       | Q ws ch rs pc w i q Hw Hp
       | Q ws ch rs k i q r | Q ws ch rs | Q ws ch rs out Hall
       | Q ws rs k Hfx Hall | Q ws ch rs out w i q Hw Hall]; subst;
      unfold mq_measure; cbn [mq_results mq_chan mq_workers mq_queue mq_main List.length mq_pcweight].
    - pose proof (upd_weight ws w WIdle (WBusy i q) Hw) as Hu. cbn [mq_wweight] in Hu. lia.
    - pose proof (upd_weight ws w WIdle WExited Hw) as Hu. cbn [mq_wweight] in Hu. lia.
    - pose proof (upd_weight ws w (WBusy i q) WIdle Hw) as Hu. cbn [mq_wweight] in Hu.
      rewrite app_length. cbn [List.length]. lia.
    - pose proof (upd_weight ws w (WBusy i q) (WDied i q) Hw) as Hu. cbn [mq_wweight] in Hu. lia.
    - lia.
    - lia.
    - lia.
    - lia.
    - lia.
  Qed.

  Lemma run_measure : forall s tr s', run s tr s' -> List.length tr + mq_measure s' <= mq_measure s.
  Proof.
    intros s tr s' Hr. induction Hr as [s|s e s1 tr s2 Hst Hr IH]; cbn [List.length]; [lia|].
    apply step_measure in Hst. lia.
  Qed.

  Lemma init_measure : forall W j, mq_measure (init W j) = 3 * List.length W + j + 2.
  Proof.
    intros W j. unfold mq_measure, mq_init.
    cbn [mq_results mq_chan mq_workers mq_queue mq_main List.length mq_pcweight].
    assert (Hs : list_sum (map mq_wweight (repeat WIdle j)) = j).
    { unfold list_sum. induction j as [|j IH]; cbn [repeat map fold_right mq_wweight]; [reflexivity|now rewrite IH]. }
    rewrite Hs. lia.
  Qed.

  (* no run is longer than 3|W| + j + 2 events (pull, send, recv per item; one pull-none per
     worker; write; join), whether or not the operation panics *)
  Lemma run_bounded : forall W j tr s,
    run (init W j) tr s -> List.length tr <= 3 * List.length W + j + 2.
  Proof.
    intros W j tr s Hr. pose proof (run_measure _ _ _ Hr) as Hm. rewrite init_measure in Hm. lia.
  Qed.

  (* ---------- no reachable state is stuck ---------- *)

  Lemma workers_cases : forall ws : list mq_wst,
    (exists w i q, nth_error ws w = Some (WBusy i q))
    \/ (exists w, nth_error ws w = Some WIdle)
    \/ forallb mq_is_done ws = true.
  Proof.
    intros ws. induction ws as [|x ws IH].
    - right. right. reflexivity.
    - destruct x as [|i q| |i q].
      + right. left. exists 0. reflexivity.
      + left. exists 0, i, q. reflexivity.
      + destruct IH as [(w & i & q & H)|[(w & H)|H]].
        * left. exists (S w), i, q. exact H.
        * right. left. exists (S w). exact H.
        * right. right. cbn [forallb mq_is_done]. exact H.
      + destruct IH as [(w & i' & q' & H)|[(w & H)|H]].
        * left. exists (S w), i', q'. exact H.
        * right. left. exists (S w). exact H.
        * right. right. cbn [forallb mq_is_done]. exact H.
  Qed.

  (* all threads have ended: either all of them normally, or there is a first dead one *)
  Lemma done_cases : forall ws : list mq_wst,
    forallb mq_is_done ws = true ->
    forallb mq_is_exited ws = true
    \/ exists w i q, nth_error ws w = Some (WDied i q) /\ forallb mq_is_exited (firstn w ws) = true.
  Proof.
    intros ws. induction ws as [|x ws IH]; intros H; [now left|].
    cbn [forallb] in H. apply andb_true_iff in H. destruct H as [Hx H].
    destruct x as [|i q| |i q]; try discriminate.
    - destruct (IH H) as [Hall|(w & i & q & Hw & Hall)].
      + left. cbn [forallb mq_is_exited]. exact Hall.
      + right. exists (S w), i, q. split; [exact Hw|]. cbn [firstn forallb mq_is_exited]. exact Hall.
    - right. exists 0, i, q. split; reflexivity.
  Qed.

  Lemma done_no_held_exited : forall ws : list mq_wst,
    forallb mq_is_done ws = true -> (forall i q, ~ In (WDied i q) ws) ->
    forallb mq_is_exited ws = true /\ flat_map held_res ws = [].
  Proof.
    intros ws. induction ws as [|x ws IH]; intros H Hnd; [split; reflexivity|].
    cbn [forallb] in H. apply andb_true_iff in H. destruct H as [Hx H].
    destruct x as [|i q| |i q]; try discriminate.
    - destruct (IH H) as [Ha Hb]; [intros i q Hin; apply (Hnd i q); now right|].
      split; [cbn [forallb mq_is_exited]; exact Ha|cbn [flat_map held_res app]; exact Hb].
    - exfalso. apply (Hnd i q). now left.
  Qed.

  (* without a panicking query and with at least one worker, the main thread cannot find the
     channel closed while it still waits for a result *)
  Lemma np_not_closed : forall W j Q ws rs k,
    1 <= j -> no_panic W -> Inv W j (MQState Q ws [] rs (PCollect (S k))) ->
    forallb mq_is_done ws = true -> False.
  Proof.
    intros W j Q ws rs k Hj Hnp Hi H.
    destruct (done_no_held_exited ws H) as [Hall Hb].
    { intros i q Hin. apply (np_no_died W j _ i q Hi Hnp). exact Hin. }
    destruct Hi as (Hperm & Hcnt & _ & Hex & Hlen & _).
    cbn [mq_results mq_chan mq_workers mq_queue mq_main] in *.
    assert (HQ : Q = []).
    { apply Hex. destruct ws as [|x ws]; [cbn [List.length] in Hlen; lia|].
      cbn [forallb] in Hall. apply andb_true_iff in Hall. destruct Hall as [Hx _].
      destruct x; try discriminate. now left. }
    unfold in_flight in Hperm. cbn [mq_results mq_chan mq_workers mq_queue] in Hperm.
    rewrite HQ, Hb in Hperm. cbn [mq_expected map app] in Hperm. rewrite app_nil_r in Hperm.
    apply Permutation_length in Hperm. unfold mq_expected in Hperm. rewrite map_length in Hperm.
    specialize (Hcnt (S k) eq_refl). lia.
  Qed.

  (* ... hence (both systems) the main thread never panics *)
  Lemma np_step_not_panicked : forall W j s e s',
    1 <= j -> no_panic W -> Inv W j s -> step s e s' ->
    (forall o, mq_main s <> PPanicked o) -> forall o, mq_main s' <> PPanicked o.
  Proof.
    intros W j s e s' Hj Hnp Hi Hst Hn o.
    inversion Hst as
      [Q ws ch rs pc w i q Hw | ws ch rs pc w Hw | Q ws ch rs pc w i q Hw Hp
       | Q ws ch rs pc w i q Hw Hp
       | Q ws ch rs k i q r | Q ws ch rs | Q ws ch rs out Hall
       | Q ws rs k Hfx Hall | Q ws ch rs out w i q Hw Hall]; subst;
      cbn [mq_main] in *; try (apply Hn); try discriminate.
    - exfalso. eapply np_not_closed; eauto.
    - exfalso. apply (np_no_died W j _ i q Hi Hnp). cbn [mq_workers]. eapply nth_error_In; eauto.
  Qed.

  Lemma np_run_not_panicked : forall W j s tr s',
    1 <= j -> no_panic W -> Inv W j s -> run s tr s' ->
    (forall o, mq_main s <> PPanicked o) -> forall o, mq_main s' <> PPanicked o.
  Proof.
    intros W j s tr s' Hj Hnp Hi Hr. induction Hr as [s|s e s1 tr s2 Hst Hr IH]; intros Hn; [exact Hn|].
    apply IH; [eapply step_inv; eauto|eapply np_step_not_panicked; eauto].
  Qed.

  Lemma np_not_panicked : forall W j tr s,
    1 <= j -> no_panic W -> run (init W j) tr s -> forall o, mq_main s <> PPanicked o.
  Proof.
    intros W j tr s Hj Hnp Hr. eapply np_run_not_panicked; eauto; [apply init_inv|].
    intros o. discriminate.
  Qed.

  (* C15_no_deadlock *)
  Lemma progress : forall W j tr s,
    1 <= j -> no_panic W -> run (init W j) tr s -> (forall out, mq_main s <> PJoined out) ->
    exists e s', step s e s'.
  Proof.
    intros W j tr s Hj Hnp Hr Hnj. pose proof (reachable_inv W j tr s Hr) as Hi.
    pose proof (np_not_panicked W j tr s Hj Hnp Hr) as Hnpk.
    assert (Hbusy : forall w i q, nth_error (mq_workers s) w = Some (WBusy i q) -> panics q = false).
    { intros w i q Hw. apply (np_busy W j s i q Hi Hnp). eapply nth_error_In; eauto. }
    assert (Hdied : forall i q, ~ In (WDied i q) (mq_workers s)).
    { intros i q Hin. exact (np_no_died W j s i q Hi Hnp Hin). }
    destruct s as [Q ws ch rs pc].
    cbn [mq_main mq_workers] in Hnj, Hbusy, Hdied, Hnpk.
    destruct pc as [[|k]|out|out|o].
    - eexists. eexists. apply step_write.
    - destruct ch as [|[[i q] r] ch].
      + destruct (workers_cases ws) as [(w & i & q & H)|[(w & H)|H]].
        * eexists. eexists. apply step_send; [exact H|eapply Hbusy; eauto].
        * destruct Q as [|[i q] Q]; eexists; eexists; [apply step_pull_none|apply step_pull]; exact H.
        * exfalso. eapply np_not_closed; eauto.
      + eexists. eexists. apply step_recv.
    - destruct (workers_cases ws) as [(w & i & q & H)|[(w & H)|H]].
      + eexists. eexists. apply step_send; [exact H|eapply Hbusy; eauto].
      + destruct Q as [|[i q] Q]; eexists; eexists; [apply step_pull_none|apply step_pull]; exact H.
      + eexists. eexists. apply step_join. now apply done_no_held_exited.
    - exfalso. now apply (Hnj out).
    - exfalso. now apply (Hnpk o).
  Qed.

  (* from every reachable state the system can run to completion *)
  Lemma completes_from : forall W j n tr s,
    1 <= j -> no_panic W -> run (init W j) tr s -> mq_measure s <= n ->
    exists tr' s' out, run s tr' s' /\ mq_main s' = PJoined out.
  Proof.
    intros W j n. induction n as [|n IH]; intros tr s Hj Hnp Hr Hm.
    - destruct (mq_main s) as [k|out|out|o] eqn:Hpc.
      + unfold mq_measure in Hm. rewrite Hpc in Hm. cbn [mq_pcweight] in Hm. lia.
      + unfold mq_measure in Hm. rewrite Hpc in Hm. cbn [mq_pcweight] in Hm. lia.
      + exists [], s, out. split; [constructor|exact Hpc].
      + exfalso. exact (np_not_panicked W j tr s Hj Hnp Hr o Hpc).
    - destruct (mq_main s) as [k|out|out|o] eqn:Hpc.
      1,2: destruct (progress W j tr s Hj Hnp Hr) as (e & s1 & Hst); [rewrite Hpc; discriminate|];
        pose proof (step_measure _ _ _ Hst) as Hm1;
        destruct (IH (tr ++ [e]) s1 Hj Hnp (run_snoc _ _ _ _ _ Hr Hst)) as (tr' & s' & o & Hr' & Ho); [lia|];
        exists (e :: tr'), s', o; split; [econstructor; eauto|exact Ho].
      + exists [], s, out. split; [constructor|exact Hpc].
      + exfalso. exact (np_not_panicked W j tr s Hj Hnp Hr o Hpc).
  Qed.

  Lemma terminates : forall W j,
    1 <= j -> mq_file_order W -> no_panic W ->
    exists tr s, run (init W j) tr s /\ mq_main s = PJoined (mq_render_single answer rshow W).
  Proof.
    intros W j Hj Hfo Hnp.
    destruct (completes_from W j _ [] (init W j) Hj Hnp (run_nil _ _ _ _ _ _ _) (le_n _))
      as (tr & s & out & Hr & Ho).
    exists tr, s. split; [exact Hr|].
    rewrite Ho. f_equal. eapply byte_identical; eauto.
    unfold mq_output. now rewrite Ho.
  Qed.

  (* the single-thread loop without panics writes mq_render_single and returns *)
  Lemma single_no_panic : forall W,
    no_panic W -> mq_single R answer panics rshow W = (mq_render_single answer rshow W, false).
  Proof.
    intros W. induction W as [|it W IH]; intros Hnp; cbn [mq_single]; [reflexivity|].
    rewrite (Hnp it (or_introl eq_refl)). rewrite IH; [reflexivity|].
    intros it' Hin. apply Hnp. now right.
  Qed.

  (* ... and with a panicking query it panics (after the lines before the first such query) *)
  Lemma single_some_panic : forall W,
    some_panic W -> snd (mq_single R answer panics rshow W) = true.
  Proof.
    intros W. induction W as [|it W IH]; intros (it' & Hin & Hp); [destruct Hin|].
    cbn [mq_single]. destruct (panics (snd it)) eqn:Hit; [reflexivity|].
    destruct Hin as [->|Hin]; [rewrite Hp in Hit; discriminate|].
    specialize (IH (ex_intro _ it' (conj Hin Hp))).
    destruct (mq_single R answer panics rshow W) as [o p]. exact IH.
  Qed.

  (* ---------- the repaired system: never blocked, a worker's panic reaches the main thread ---------- *)

  (* EVERY state (reachable or not) in which the main thread has neither returned nor panicked has
     an enabled action; no hypothesis on j, on W or on panics *)
  Lemma no_block : forall s : state,
    fx = true -> mq_final s = false -> exists e s', step s e s'.
  Proof.
    intros [Q ws ch rs pc] Hfx Hnf. unfold mq_final in Hnf. cbn [mq_main] in Hnf.
    assert (Hw : (exists w i q, nth_error ws w = Some (WBusy i q))
                 \/ (exists w, nth_error ws w = Some WIdle) ->
                 exists e s', step (MQState Q ws ch rs pc) e s').
    { intros [(w & i & q & H)|(w & H)].
      - destruct (panics q) eqn:Hp; eexists; eexists;
          [eapply step_die; eassumption|eapply step_send; eassumption].
      - destruct Q as [|[i q] Q]; eexists; eexists; [apply step_pull_none|apply step_pull]; exact H. }
    destruct pc as [[|k]|out|out|o]; try discriminate.
    - eexists. eexists. apply step_write.
    - destruct ch as [|[[i q] r] ch]; [|eexists; eexists; apply step_recv].
      destruct (workers_cases ws) as [H|[H|H]]; [apply Hw; now left|apply Hw; now right|].
      eexists. eexists. apply step_closed; assumption.
    - destruct (workers_cases ws) as [H|[H|H]]; [apply Hw; now left|apply Hw; now right|].
      destruct (done_cases ws H) as [Hall|(w & i & q & Hd & Hall)].
      + eexists. eexists. apply step_join. exact Hall.
      + eexists. eexists. eapply step_join_dead; eassumption.
  Qed.

  (* every state can run on until the main thread has returned or panicked *)
  Lemma reaches_final : forall n (s : state),
    fx = true -> mq_measure s <= n -> exists tr s', run s tr s' /\ mq_final s' = true.
  Proof.
    intros n. induction n as [|n IH]; intros s Hfx Hm.
    - destruct (mq_final s) eqn:Hf; [exists [], s; split; [constructor|exact Hf]|].
      destruct (no_block s Hfx Hf) as (e & s1 & Hst). apply step_measure in Hst. lia.
    - destruct (mq_final s) eqn:Hf; [exists [], s; split; [constructor|exact Hf]|].
      destruct (no_block s Hfx Hf) as (e & s1 & Hst).
      pose proof (step_measure _ _ _ Hst) as Hm1.
      destruct (IH s1 Hfx) as (tr & s' & Hr & Hf'); [lia|].
      exists (e :: tr), s'. split; [econstructor; eauto|exact Hf'].
  Qed.

  (* C15_worker_panic_propagates *)
  Lemma worker_panic_propagates : forall W j tr s,
    fx = true -> some_panic W -> run (init W j) tr s ->
    mq_output s = None
    /\ ((forall e s', ~ step s e s') -> mq_main s = PPanicked None).
  Proof.
    intros W j tr s Hfx Hsp Hr.
    pose proof (some_panic_no_output W j tr s Hsp Hr) as Ho. split; [exact Ho|].
    intros Hstuck. destruct (mq_final s) eqn:Hf.
    - unfold mq_final in Hf. unfold mq_output in Ho.
      destruct (mq_main s) as [k|out|out|[out|]]; try discriminate. reflexivity.
    - exfalso. destruct (no_block s Hfx Hf) as (e & s1 & Hst). exact (Hstuck e s1 Hst).
  Qed.

  (* ... and such runs exist: from every reachable state the main-thread panic can be reached *)
  Lemma worker_panic_reaches_panic : forall W j tr s,
    fx = true -> some_panic W -> run (init W j) tr s ->
    exists tr' s', run s tr' s' /\ mq_main s' = PPanicked None.
  Proof.
    intros W j tr s Hfx Hsp Hr.
    destruct (reaches_final _ s Hfx (le_n _)) as (tr' & s' & Hr' & Hf).
    exists tr', s'. split; [exact Hr'|].
    pose proof (some_panic_no_output W j (tr ++ tr') s' Hsp (run_app _ _ _ _ _ Hr Hr')) as Ho.
    unfold mq_final in Hf. unfold mq_output in Ho.
    destruct (mq_main s') as [k|out|out|[out|]]; try discriminate. reflexivity.
  Qed.

  (* the outcome of the repaired function, for every file and every j >= 1: all maximal runs end
     alike, as the single-thread loop does *)
  Lemma outcome : forall W j tr s,
    fx = true -> 1 <= j -> mq_file_order W -> run (init W j) tr s -> (forall e s', ~ step s e s') ->
    (no_panic W /\ mq_main s = PJoined (mq_render_single answer rshow W))
    \/ (some_panic W /\ mq_main s = PPanicked None).
  Proof.
    intros W j tr s Hfx Hj Hfo Hr Hstuck.
    destruct (mq_final s) eqn:Hf;
      [|exfalso; destruct (no_block s Hfx Hf) as (e & s1 & Hst); exact (Hstuck e s1 Hst)].
    assert (Hdec : no_panic W \/ some_panic W).
    { clear. induction W as [|it W IH]; [left; intros it []|].
      destruct (panics (snd it)) eqn:Hp; [right; exists it; split; [now left|exact Hp]|].
      destruct IH as [Hnp|(it' & Hin & Hp')].
      - left. intros it' [<-|Hin]; [exact Hp|now apply Hnp].
      - right. exists it'. split; [now right|exact Hp']. }
    destruct Hdec as [Hnp|Hsp].
    - left. split; [exact Hnp|]. unfold mq_final in Hf.
      destruct (mq_main s) as [k|out|out|o] eqn:Hpc; try discriminate.
      + f_equal. eapply byte_identical; eauto. unfold mq_output. now rewrite Hpc.
      + exfalso. exact (np_not_panicked W j tr s Hj Hnp Hr o Hpc).
    - right. split; [exact Hsp|]. now apply (worker_panic_propagates W j tr s Hfx Hsp Hr).
  Qed.
End Inv.

(* the same for the repaired system as such (drop_tx = true) *)
Lemma no_block_fixed : forall (R : Type) (answer : mq_query -> R) panics rcmp rshow (s : mq_state R),
  mq_final s = false -> exists e s', mq_step R answer panics rcmp rshow true s e s'.
Proof. intros R answer panics rcmp rshow s. exact (no_block R answer panics rcmp rshow true s eq_refl). Qed.

Lemma worker_panic_propagates_fixed : forall (R : Type) (answer : mq_query -> R) panics rcmp rshow W j tr s,
  some_panic panics W ->
  mq_run R answer panics rcmp rshow true (mq_init R W j) tr s ->
  mq_output s = None
  /\ ((forall e s', ~ mq_step R answer panics rcmp rshow true s e s') -> mq_main s = PPanicked None).
Proof.
  intros R answer panics rcmp rshow W j tr s.
  exact (worker_panic_propagates R answer panics rcmp rshow true W j tr s eq_refl).
Qed.

Lemma worker_panic_reaches_panic_fixed : forall (R : Type) (answer : mq_query -> R) panics rcmp rshow W j tr s,
  some_panic panics W ->
  mq_run R answer panics rcmp rshow true (mq_init R W j) tr s ->
  exists tr' s', mq_run R answer panics rcmp rshow true s tr' s' /\ mq_main s' = PPanicked None.
Proof.
  intros R answer panics rcmp rshow W j tr s.
  exact (worker_panic_reaches_panic R answer panics rcmp rshow true W j tr s eq_refl).
Qed.

Lemma outcome_fixed : forall (R : Type) (answer : mq_query -> R) panics rcmp rshow W j tr s,
  1 <= j ->
  mq_file_order W ->
  mq_run R answer panics rcmp rshow true (mq_init R W j) tr s ->
  (forall e s', ~ mq_step R answer panics rcmp rshow true s e s') ->
  (no_panic panics W /\ mq_main s = PJoined (mq_render_single answer rshow W))
  \/ (some_panic panics W /\ mq_main s = PPanicked None).
Proof.
  intros R answer panics rcmp rshow W j tr s.
  exact (outcome R answer panics rcmp rshow true W j tr s eq_refl).
Qed.

(* ---------- a panicking operation: the witness of C15_worker_panic_blocks_refuted ---------- *)
Definition ref_W : list mq_item := [(0, [1]%Z); (1, [-2147483648]%Z); (2, [2]%Z)]%nat.
Definition ref_panics (q : mq_query) : bool :=
  match q with [z] => Z.eqb z (-2147483648) | _ => false end.
Definition ref_answer (q : mq_query) : string := "7"%string.
Definition ref_rcmp (_ _ : string) : comparison := Eq.
Definition ref_show (s : string) : string := s.
Definition ref_trace : list mq_event :=
  [EPull 0 0; EPull 1 1; ESend 0 0; EDie 1 1; EPull 0 2; ESend 0 2; ERecv 0; ERecv 2; EPullNone 0]%nat.
(* v0 (drop_tx = false): after ref_trace nothing is enabled *)
Lemma worker_panic_blocks :
  exists s,
    mq_run string ref_answer ref_panics ref_rcmp ref_show false (mq_init string ref_W 2) ref_trace s
    /\ mq_main s = PCollect 1
    /\ (forall e, mq_valid_event string ref_answer ref_panics ref_rcmp ref_show false s e = None)
    /\ mq_single string ref_answer ref_panics ref_show ref_W = (("1,7" ++ mq_nl)%string, true).
Proof.
  destruct (mq_replay string ref_answer ref_panics ref_rcmp ref_show false (mq_init string ref_W 2) ref_trace)
    as [s|] eqn:E; [|vm_compute in E; discriminate].
  exists s. split; [apply replay_run; exact E|].
  vm_compute in E. injection E as <-. split; [reflexivity|]. split; [|vm_compute; reflexivity].
  intros [w i|w|w i|i|w i| | | |w]; try reflexivity;
    destruct w as [|[|w]]; try reflexivity; destruct w; reflexivity.
Qed.

(* the repaired system on the same schedule: the same state is reached, and there exactly the
   main-thread panic is enabled *)
Lemma worker_panic_fixed_example :
  exists s,
    mq_run string ref_answer ref_panics ref_rcmp ref_show true (mq_init string ref_W 2) ref_trace s
    /\ mq_main s = PCollect 1
    /\ (forall e s', mq_valid_event string ref_answer ref_panics ref_rcmp ref_show true s e = Some s' ->
                     e = EClosed /\ mq_main s' = PPanicked None)
    /\ exists s', mq_valid_event string ref_answer ref_panics ref_rcmp ref_show true s EClosed = Some s'.
Proof.
  destruct (mq_replay string ref_answer ref_panics ref_rcmp ref_show true (mq_init string ref_W 2) ref_trace)
    as [s|] eqn:E; [|vm_compute in E; discriminate].
  exists s. split; [apply replay_run; exact E|].
  vm_compute in E. injection E as <-. split; [reflexivity|]. split; [|eexists; vm_compute; reflexivity].
  intros [w i|w|w i|i|w i| | | |w] s' H; try (vm_compute in H; discriminate).
  - destruct w as [|[|w]]; try (vm_compute in H; discriminate). destruct w; vm_compute in H; discriminate.
  - destruct w as [|[|w]]; try (vm_compute in H; discriminate). destruct w; vm_compute in H; discriminate.
  - destruct w as [|[|w]]; try (vm_compute in H; discriminate). destruct w; vm_compute in H; discriminate.
  - destruct w as [|[|w]]; try (vm_compute in H; discriminate). destruct w; vm_compute in H; discriminate.
  - vm_compute in H. injection H as <-. split; reflexivity.
Qed.
