(* C03: the SAT propagation (anomalies/sat.rs) decides satisfiability of a partial configuration.
   Main results: sat_subroot_inv (one call on an invariant mark vector), sat_correct,
   sat_incremental (+ the strong form), sat_incremental_proviso_needed, sat_subroot. *)
From Coq Require Import List ZArith Bool Lia.
From DD Require Import Model.Circuit Model.Query Proofs.PassLemmas Proofs.Enum Proofs.Semantics
  Proofs.DetCert Proofs.CountsA Proofs.QueryDefs Proofs.Live.
Import ListNotations.
Open Scope Z_scope.

(* ---------- lists ---------- *)

Lemma upd_length {A} (i : nat) (x : A) (l : list A) : length (upd i x l) = length l.
Proof.
  revert i. induction l as [|h t IH]; intros i; [now destruct i|].
  destruct i as [|i]; cbn [upd length]; [reflexivity|]. now rewrite IH.
Qed.

Lemma nth_upd_eq {A} (i : nat) (x d : A) (l : list A) :
  (i < length l)%nat -> nth i (upd i x l) d = x.
Proof.
  revert i. induction l as [|h t IH]; intros i Hi; [cbn in Hi; lia|].
  destruct i as [|i]; cbn [upd nth]; [reflexivity|]. apply IH. cbn in Hi. lia.
Qed.

Lemma nth_upd_neq {A} (i j : nat) (x d : A) (l : list A) :
  i <> j -> nth j (upd i x l) d = nth j l d.
Proof.
  revert i j. induction l as [|h t IH]; intros i j Hij; [now destruct i|].
  destruct i as [|i], j as [|j]; cbn [upd nth]; try reflexivity; try lia.
  apply IH. lia.
Qed.

Lemma nth_upd_true (i p : nat) (m : list bool) :
  nth i m false = true -> nth i (upd p true m) false = true.
Proof.
  intros H. destruct (Nat.eq_dec p i) as [->|Hne].
  - destruct (Nat.lt_ge_cases i (length m)) as [Hlt|Hge].
    + now apply nth_upd_eq.
    + rewrite nth_overflow in H by exact Hge. discriminate.
  - now rewrite nth_upd_neq.
Qed.

Lemma forallb_false_exists {A} (f : A -> bool) (l : list A) :
  forallb f l = false -> exists x, In x l /\ f x = false.
Proof.
  induction l as [|x l IH]; intros H; [discriminate|].
  cbn [forallb] in H. destruct (f x) eqn:Hx.
  - destruct (IH H) as [y [Hy Hfy]]. exists y. split; [now right|exact Hfy].
  - exists x. split; [now left|exact Hx].
Qed.

Lemma filter_none_length {A} (p : A -> bool) (l : list A) :
  (forall x, In x l -> p x = false) -> length (filter p l) = 0%nat.
Proof.
  induction l as [|x l IH]; intros H; [reflexivity|].
  cbn [filter]. rewrite (H x (or_introl eq_refl)). apply IH. intros y Hy. apply H. now right.
Qed.

Lemma zprod_zero (l : list Z) : zprod l = 0 <-> In 0 l.
Proof.
  induction l as [|x l IH].
  - cbn. split; [lia|tauto].
  - rewrite zprod_cons. cbn [In]. rewrite Z.mul_eq_0, IH. tauto.
Qed.

Lemma zsum_zero (l : list Z) : (forall x, In x l -> 0 <= x) ->
  (zsum l = 0 <-> forall x, In x l -> x = 0).
Proof.
  induction l as [|x l IH]; intros Hnn.
  - cbn. split; [intros _ x []|reflexivity].
  - rewrite zsum_cons.
    assert (Hx : 0 <= x) by (apply Hnn; now left).
    assert (Hl : forall y, In y l -> 0 <= y) by (intros y Hy; apply Hnn; now right).
    pose proof (zsum_nonneg l Hl) as Hs. specialize (IH Hl). split.
    + intros H y [<-|Hy]; [lia|]. apply IH; [lia|exact Hy].
    + intros H. assert (x = 0) by (apply H; now left).
      assert (zsum l = 0) by (apply IH; intros y Hy; apply H; now right). lia.
Qed.

Lemma zsum_pos_exists (l : list Z) : 0 < zsum l -> exists x, In x l /\ x <> 0.
Proof.
  induction l as [|x l IH]; intros H; [cbn in H; lia|].
  rewrite zsum_cons in H. destruct (Z.eq_dec x 0) as [->|Hx].
  - destruct (IH ltac:(lia)) as [y [Hy Hy0]]. exists y. split; [now right|exact Hy0].
  - exists x. split; [now left|exact Hx].
Qed.

Lemma in_prod_elem (Ls : list (list cfg)) (c : cfg) (x : Z) :
  In c (prod Ls) -> In x c -> exists L y, In L Ls /\ In y L /\ In x y.
Proof.
  revert c. induction Ls as [|L0 Ls IH]; intros c Hc Hx.
  - cbn in Hc. destruct Hc as [<-|[]]. destruct Hx.
  - apply in_prod_cons in Hc. destruct Hc as [y [r [Hy [Hr ->]]]].
    apply in_app_iff in Hx. destruct Hx as [Hx|Hx].
    + exists L0, y. split; [now left|]. split; assumption.
    + destruct (IH r Hr Hx) as [L [z [HL [Hz Hxz]]]]. exists L, z. split; [now right|]. split; assumption.
Qed.

Lemma nth_map_false {A} (l : list A) (i : nat) : nth i (map (fun _ => false) l) false = false.
Proof. revert i. induction l as [|x l IH]; intros [|i]; cbn; auto. Qed.

(* ---------- Ddnnf.literals ---------- *)

Lemma lits_of_cons nd C :
  lits_of (nd :: C) = match nd with Lit l => [l] | _ => [] end ++ lits_of C.
Proof. reflexivity. Qed.

Lemma in_lits_of C l : In l (lits_of C) <-> In (Lit l) C.
Proof.
  unfold lits_of. rewrite in_flat_map. split.
  - intros [nd [Hnd Hl]]. destruct nd as [l'|cs|cs| |]; cbn in Hl; try contradiction.
    destruct Hl as [<-|[]]. exact Hnd.
  - intros H. exists (Lit l). split; [exact H|now left].
Qed.

Lemma lit_idx_from_notin k C l acc : ~ In l (lits_of C) -> lit_idx_from k C l acc = acc.
Proof.
  revert k acc. induction C as [|nd C IH]; intros k acc Hn; [reflexivity|].
  cbn [lit_idx_from]. rewrite lits_of_cons in Hn. rewrite IH.
  - destruct nd as [l'|cs|cs| |]; try reflexivity.
    destruct (l' =? l) eqn:E; [|reflexivity]. apply Z.eqb_eq in E. subst.
    exfalso. apply Hn. now left.
  - intros H. apply Hn. apply in_app_iff. now right.
Qed.

Lemma lit_idx_from_some k C l acc j :
  lit_idx_from k C l acc = Some j ->
  acc = Some j \/ exists j', j = (k + j')%nat /\ nth_error C j' = Some (Lit l).
Proof.
  revert k acc. induction C as [|nd C IH]; intros k acc H; [now left|].
  cbn [lit_idx_from] in H. apply IH in H. destruct H as [H|[j' [-> Hj']]].
  - destruct nd as [l'|cs|cs| |]; try (now left).
    destruct (l' =? l) eqn:E; [|now left]. apply Z.eqb_eq in E. subst.
    right. exists 0%nat. inversion H. split; [lia|reflexivity].
  - right. exists (S j'). split; [lia|exact Hj'].
Qed.

Lemma nodupb_app_r l1 l2 : nodupb (l1 ++ l2) = true -> nodupb l2 = true.
Proof.
  induction l1 as [|x l1 IH]; intros H; [exact H|].
  cbn [app nodupb] in H. apply andb_true_iff in H. apply IH, H.
Qed.

Lemma lit_idx_from_unique k C l acc j :
  nodupb (lits_of C) = true -> nth_error C j = Some (Lit l) ->
  lit_idx_from k C l acc = Some (k + j)%nat.
Proof.
  revert k acc j. induction C as [|nd C IH]; intros k acc j Hnd Hj; [destruct j; discriminate|].
  cbn [lit_idx_from]. rewrite lits_of_cons in Hnd. destruct j as [|j].
  - cbn in Hj. inversion Hj. subst nd. cbn [app nodupb] in Hnd.
    apply andb_true_iff in Hnd. destruct Hnd as [Hn _]. apply negb_true_iff, memZ_false in Hn.
    rewrite lit_idx_from_notin by exact Hn. rewrite Z.eqb_refl. f_equal. lia.
  - cbn in Hj. rewrite (IH (S k) _ j); [f_equal; lia| |exact Hj].
    now apply nodupb_app_r in Hnd.
Qed.

Lemma lit_idx_some C l i : lit_idx C l = Some i ->
  (i < length C)%nat /\ nth i C FalseN = Lit l.
Proof.
  unfold lit_idx. intros H. apply lit_idx_from_some in H.
  destruct H as [H|[j [-> Hj]]]; [discriminate|]. cbn. split.
  - apply nth_error_Some. congruence.
  - now apply nth_error_nth.
Qed.

Lemma lit_idx_unique C l i : unique_leaves C = true -> (i < length C)%nat ->
  nth i C FalseN = Lit l -> lit_idx C l = Some i.
Proof.
  intros Hu Hi Hn. unfold lit_idx.
  rewrite (lit_idx_from_unique 0 C l None i Hu); [reflexivity|].
  rewrite (nth_error_nth' C i Hi). now rewrite Hn.
Qed.

Lemma lit_idx_from_in k C l acc : In l (lits_of C) -> exists j, lit_idx_from k C l acc = Some j.
Proof.
  revert k acc. induction C as [|nd C IH]; intros k acc H; [destruct H|].
  cbn [lit_idx_from]. rewrite lits_of_cons in H.
  destruct (memZ l (lits_of C)) eqn:E.
  - apply memZ_In in E. now apply IH.
  - apply memZ_false in E. rewrite lit_idx_from_notin by exact E.
    apply in_app_iff in H. destruct H as [H|H]; [|contradiction].
    destruct nd as [l'|cs|cs| |]; cbn in H; try contradiction.
    destruct H as [->|[]]. rewrite Z.eqb_refl. now exists k.
Qed.

Lemma has_lit_false C l : has_lit C l = false -> ~ In l (lits_of C).
Proof.
  unfold has_lit, lit_idx. intros H Hin.
  destruct (lit_idx_from_in 0 C l None Hin) as [j Hj]. rewrite Hj in H. discriminate.
Qed.

(* ---------- Node.parents ---------- *)

Lemma parents_from_In k C c p :
  In p (parents_from k C c) <->
  exists j, p = (k + j)%nat /\ (j < length C)%nat /\ In c (children (nth j C FalseN)).
Proof.
  revert k. induction C as [|nd C IH]; intros k.
  - cbn. split; [tauto|]. intros [j [_ [Hj _]]]. lia.
  - cbn [parents_from]. rewrite in_app_iff, IH, in_map_iff. split.
    + intros [[x [<- Hx]]|[j [-> [Hj Hc]]]].
      * apply filter_In in Hx. destruct Hx as [Hx Hcx]. apply Nat.eqb_eq in Hcx. subst x.
        exists 0%nat. cbn. split; [lia|]. split; [lia|exact Hx].
      * exists (S j). cbn. split; [lia|]. split; [lia|exact Hc].
    + intros [j [-> [Hj Hc]]]. destruct j as [|j].
      * left. exists c. split; [lia|]. apply filter_In. split; [exact Hc|apply Nat.eqb_refl].
      * right. exists j. cbn in Hj, Hc. split; [lia|]. split; [lia|exact Hc].
Qed.

Lemma parents_nth C c : (c < length C)%nat -> nth c (parents C) [] = parents_from 0 C c.
Proof.
  intros Hc. unfold parents.
  rewrite (nth_indep _ [] (parents_from 0 C 0%nat)) by (rewrite map_length, seq_length; exact Hc).
  rewrite (map_nth (parents_from 0 C)). now rewrite seq_nth.
Qed.

Lemma parents_spec C c p : (c < length C)%nat ->
  (In p (nth c (parents C) []) <-> (p < length C)%nat /\ In c (children (nth p C FalseN))).
Proof.
  intros Hc. rewrite parents_nth by exact Hc. rewrite parents_from_In. split.
  - intros [j [-> [Hj H]]]. now split.
  - intros [Hp H]. exists p. now split.
Qed.

(* ---------- the propagation on a fixed circuit ---------- *)

(* a sequence of sat_propagate calls sharing one mark vector (root_index = None); the answers *)
Fixpoint sat_chain (d : ddnnf) (As : list cfg) (mark : list bool) : list bool :=
  match As with
  | [] => []
  | A :: As' =>
    let res := sat_propagate d A mark None in
    snd res :: sat_chain d As' (fst res)
  end.

Definition is_or (nd : ntype) : bool := match nd with Or _ => true | _ => false end.

Section Sat.
Variables (C : circuit) (n : nat).
Hypothesis HQ : WFQ C n.

Let d := build C n.
Let Hok : idx_ok C = true := wf_idx C n (wfq_wf C n HQ).

Definition cnt (i : nat) : Z := nth i (counts C) 0.
Definition cA (A : cfg) (i : nat) : Z := nth i (countsA A C) 0.

Definition or_pass (m : list bool) (cs : list nat) : bool :=
  forallb (fun c => nth c m false || (nth c (counts C) 0 =? 0)) cs.

Lemma propagate_S f p m :
  propagate_mark d (S f) p m =
  if nth p m false then m
  else if match nth p C FalseN with Or cs => negb (or_pass m cs) | _ => false end then m
       else fold_left (fun m' q => propagate_mark d f q m') (nth p (parents C) []) (upd p true m).
Proof. reflexivity. Qed.

(* countsA / counts at a node *)
Lemma cA_lit A i l : (i < length C)%nat -> nth i C FalseN = Lit l ->
  cA A i = if memZ (- l) A then 0 else 1.
Proof. intros Hi E. unfold cA. rewrite (countsA_unfold A C i 0 Hok Hi), E. reflexivity. Qed.
Lemma cA_and A i cs : (i < length C)%nat -> nth i C FalseN = And cs ->
  cA A i = zprod (map (cA A) cs).
Proof. intros Hi E. unfold cA. rewrite (countsA_unfold A C i 0 Hok Hi), E. reflexivity. Qed.
Lemma cA_or A i cs : (i < length C)%nat -> nth i C FalseN = Or cs ->
  cA A i = zsum (map (cA A) cs).
Proof. intros Hi E. unfold cA. rewrite (countsA_unfold A C i 0 Hok Hi), E. reflexivity. Qed.
Lemma cA_true A i : (i < length C)%nat -> nth i C FalseN = TrueN -> cA A i = 1.
Proof. intros Hi E. unfold cA. rewrite (countsA_unfold A C i 0 Hok Hi), E. reflexivity. Qed.

Lemma cnt_cA i : cnt i = cA [] i.
Proof. unfold cnt, cA. rewrite <- (countsA_nil C). reflexivity. Qed.

Lemma cA_bounds A i : (i < length C)%nat -> 0 <= cA A i <= cnt i.
Proof. intros Hi. apply (countsA_bounds A C Hok i Hi). Qed.

Lemma child_lt i c : (i < length C)%nat -> In c (children (nth i C FalseN)) -> (c < i)%nat.
Proof. intros Hi Hc. exact (idx_ok_nth C i FalseN Hok Hi c Hc). Qed.

Lemma and_child_zero A i cs c : (i < length C)%nat -> nth i C FalseN = And cs -> In c cs ->
  cA A c = 0 -> cA A i = 0.
Proof.
  intros Hi E Hc H0. rewrite (cA_and A i cs Hi E). apply zprod_zero.
  rewrite <- H0. now apply in_map.
Qed.

Lemma or_children_zero A i cs : (i < length C)%nat -> nth i C FalseN = Or cs ->
  (cA A i = 0 <-> forall c, In c cs -> cA A c = 0).
Proof.
  intros Hi E. rewrite (cA_or A i cs Hi E).
  assert (Hnn : forall x, In x (map (cA A) cs) -> 0 <= x).
  { intros x Hx. apply in_map_iff in Hx. destruct Hx as [c [<- Hc]].
    apply cA_bounds. assert (c < i)%nat by (apply child_lt; [exact Hi|now rewrite E]). lia. }
  rewrite (zsum_zero _ Hnn). split.
  - intros H c Hc. apply H. now apply in_map.
  - intros H x Hx. apply in_map_iff in Hx. destruct Hx as [c [<- Hc]]. now apply H.
Qed.

(* more assumptions: zero stays zero *)
Lemma cA_zero_mono A A' : incl A A' ->
  forall i, (i < length C)%nat -> cA A i = 0 -> cA A' i = 0.
Proof.
  intros Hinc.
  apply (idx_induction C (fun i => cA A i = 0 -> cA A' i = 0) Hok).
  intros i Hi IH H0.
  destruct (nth i C FalseN) as [l|cs|cs| |] eqn:E; cbn [children] in IH.
  - rewrite (cA_lit A i l Hi E) in H0. rewrite (cA_lit A' i l Hi E).
    destruct (memZ (- l) A) eqn:Hm; [|lia].
    apply memZ_In in Hm. apply Hinc in Hm. apply memZ_In in Hm. now rewrite Hm.
  - rewrite (cA_and A i cs Hi E) in H0. apply zprod_zero in H0.
    apply in_map_iff in H0. destruct H0 as [c [Hc0 Hc]].
    apply (and_child_zero A' i cs c Hi E Hc). now apply IH.
  - apply (or_children_zero A' i cs Hi E). intros c Hc. apply IH; [exact Hc|].
    now apply (or_children_zero A i cs Hi E).
  - rewrite (cA_true A i Hi E) in H0. lia.
  - unfold cA in *. rewrite (countsA_unfold A' C i 0 Hok Hi), E. reflexivity.
Qed.

(* ---- length and monotonicity of the mark vector ---- *)

Lemma prop_length fuel : forall p m, length (propagate_mark d fuel p m) = length m.
Proof.
  induction fuel as [|f IH]; intros p m; [reflexivity|].
  rewrite propagate_S. destruct (nth p m false); [reflexivity|].
  destruct (match nth p C FalseN with Or cs => negb (or_pass m cs) | _ => false end); [reflexivity|].
  rewrite <- (upd_length p true m). generalize (upd p true m) as m1.
  induction (nth p (parents C) []) as [|q ps IHps]; intros m1; [reflexivity|].
  cbn [fold_left]. rewrite IHps. apply IH.
Qed.

Lemma prop_mono fuel : forall p m i, nth i m false = true ->
  nth i (propagate_mark d fuel p m) false = true.
Proof.
  induction fuel as [|f IH]; intros p m i H; [exact H|].
  rewrite propagate_S. destruct (nth p m false); [exact H|].
  destruct (match nth p C FalseN with Or cs => negb (or_pass m cs) | _ => false end); [exact H|].
  apply (nth_upd_true i p) in H. revert H. generalize (upd p true m) as m1.
  induction (nth p (parents C) []) as [|q ps IHps]; intros m1 H; [exact H|].
  cbn [fold_left]. apply IHps. now apply IH.
Qed.

Lemma prop_marks_nonor f p m : (p < length m)%nat -> is_or (nth p C FalseN) = false ->
  nth p (propagate_mark d (S f) p m) false = true.
Proof.
  intros Hp Hno. rewrite propagate_S. destruct (nth p m false) eqn:E; [exact E|].
  destruct (nth p C FalseN) as [l|cs|cs| |]; try discriminate.
  all: assert (H1 : nth p (upd p true m) false = true) by now apply nth_upd_eq.
  all: revert H1; generalize (upd p true m) as m1.
  all: induction (nth p (parents C) []) as [|q ps IHps]; intros m1 H1; [exact H1|].
  all: cbn [fold_left]; apply IHps; now apply prop_mono.
Qed.

(* ---- soundness: marked nodes have count 0 under the assumptions ---- *)

Definition Sound (A : cfg) (m : list bool) : Prop :=
  forall i, (i < length C)%nat -> nth i m false = true -> cA A i = 0.

Lemma Sound_mono A A' m : incl A A' -> Sound A m -> Sound A' m.
Proof. intros Hinc H i Hi Hm. apply (cA_zero_mono A A' Hinc i Hi). now apply H. Qed.

Lemma or_pass_zero A m i cs : Sound A m -> (i < length C)%nat -> nth i C FalseN = Or cs ->
  or_pass m cs = true -> cA A i = 0.
Proof.
  intros HS Hi E Hp. apply (or_children_zero A i cs Hi E). intros c Hc.
  unfold or_pass in Hp. rewrite forallb_forall in Hp. specialize (Hp c Hc).
  assert (Hci : (c < i)%nat) by (apply child_lt; [exact Hi|now rewrite E]).
  apply orb_true_iff in Hp. destruct Hp as [Hp|Hp].
  - apply HS; [lia|exact Hp].
  - apply Z.eqb_eq in Hp. pose proof (cA_bounds A c ltac:(lia)) as Hb. unfold cnt in Hb. lia.
Qed.

Lemma Sound_upd A m p : Sound A m -> cA A p = 0 -> Sound A (upd p true m).
Proof.
  intros HS H0 i Hi Hm. destruct (Nat.eq_dec p i) as [->|Hne]; [exact H0|].
  rewrite nth_upd_neq in Hm by exact Hne. now apply HS.
Qed.

Lemma prop_sound A fuel : forall p m, (p < length C)%nat -> Sound A m ->
  (is_or (nth p C FalseN) = false -> cA A p = 0) ->
  Sound A (propagate_mark d fuel p m).
Proof.
  induction fuel as [|f IH]; intros p m Hp HS Hj; [exact HS|].
  rewrite propagate_S. destruct (nth p m false); [exact HS|].
  assert (H0 : (match nth p C FalseN with Or cs => negb (or_pass m cs) | _ => false end) = false ->
               cA A p = 0).
  { destruct (nth p C FalseN) as [l|cs|cs| |] eqn:E; intros Hb; try (now apply Hj).
    apply negb_false_iff in Hb. exact (or_pass_zero A m p cs HS Hp E Hb). }
  destruct (match nth p C FalseN with Or cs => negb (or_pass m cs) | _ => false end); [exact HS|].
  specialize (H0 eq_refl).
  pose proof (Sound_upd A m p HS H0) as HS1. revert HS1. generalize (upd p true m) as m1.
  assert (Hps : forall q, In q (nth p (parents C) []) ->
                (q < length C)%nat /\ (is_or (nth q C FalseN) = false -> cA A q = 0)).
  { intros q Hq. apply (parents_spec C p q Hp) in Hq. destruct Hq as [Hq Hc]. split; [exact Hq|].
    intros Hno. destruct (nth q C FalseN) as [l|cs|cs| |] eqn:E; cbn [children] in Hc;
      try contradiction; try discriminate.
    exact (and_child_zero A q cs p Hq E Hc H0). }
  induction (nth p (parents C) []) as [|q ps IHps]; intros m1 HS1; [exact HS1|].
  cbn [fold_left]. apply IHps.
  - intros q' Hq'. apply Hps. now right.
  - destruct (Hps q (or_introl eq_refl)) as [Hq Hjq]. now apply IH.
Qed.

(* ---- closure: every parent of a marked node is marked or is an Or that is still satisfiable ---- *)

Definition OKn (m : list bool) (p : nat) : Prop :=
  nth p m false = true \/
  exists cs c, nth p C FalseN = Or cs /\ In c cs /\ nth c m false = false /\ cnt c <> 0.

(* all parents of marked nodes are settled, except possibly the pending ones *)
Definition Pend (m : list bool) (S : list nat) : Prop :=
  forall p c, (p < length C)%nat -> In c (children (nth p C FalseN)) -> nth c m false = true ->
              OKn m p \/ In p S.

Lemma Pend_weaken m S S' : incl S S' -> Pend m S -> Pend m S'.
Proof.
  intros Hinc H p c Hp Hc Hm. destruct (H p c Hp Hc Hm) as [H1|H1]; [now left|right; now apply Hinc].
Qed.

Lemma prop_pend fuel : forall p m S, (p < length C)%nat -> (length C < p + fuel)%nat ->
  length m = length C -> Pend m (p :: S) -> Pend (propagate_mark d fuel p m) S.
Proof.
  induction fuel as [|f IH]; intros p m S Hp Hfuel Hlen HP; [lia|].
  rewrite propagate_S. destruct (nth p m false) eqn:Emp.
  { intros q c Hq Hc Hm. destruct (HP q c Hq Hc Hm) as [H|[<-|H]]; [now left| |now right].
    left. now left. }
  destruct (match nth p C FalseN with Or cs => negb (or_pass m cs) | _ => false end) eqn:Eb.
  { assert (HOK : OKn m p).
    { destruct (nth p C FalseN) as [l|cs|cs| |] eqn:E; try discriminate.
      apply negb_true_iff in Eb. unfold or_pass in Eb. apply forallb_false_exists in Eb.
      destruct Eb as [c [Hc Hf]]. apply orb_false_iff in Hf. destruct Hf as [Hf1 Hf2].
      apply Z.eqb_neq in Hf2. right. exists cs, c. repeat split; assumption. }
    intros q c Hq Hc Hm. destruct (HP q c Hq Hc Hm) as [H|[<-|H]]; [now left|now left|now right]. }
  (* the node gets marked *)
  assert (HP1 : Pend (upd p true m) (nth p (parents C) [] ++ S)).
  { intros q c Hq Hc Hm.
    destruct (Nat.eq_dec q p) as [->|Hqp].
    { left. left. apply nth_upd_eq. lia. }
    destruct (in_dec Nat.eq_dec p (children (nth q C FalseN))) as [Hin|Hnin].
    { right. apply in_app_iff. left. apply (parents_spec C p q Hp). now split. }
    assert (Hcp : p <> c) by (intros ->; contradiction).
    rewrite nth_upd_neq in Hm by exact Hcp.
    destruct (HP q c Hq Hc Hm) as [H|[H|H]].
    - left. destruct H as [H|[cs [c' [E [Hc' [Hm' Hn]]]]]].
      + left. rewrite nth_upd_neq by auto. exact H.
      + right. exists cs, c'. repeat split; try assumption.
        rewrite nth_upd_neq; [exact Hm'|]. intros ->. apply Hnin. rewrite E. exact Hc'.
    - congruence.
    - right. apply in_app_iff. now right. }
  assert (Hlen1 : length (upd p true m) = length C) by now rewrite upd_length.
  revert HP1 Hlen1. generalize (upd p true m) as m1.
  assert (Hps : forall q, In q (nth p (parents C) []) -> (q < length C)%nat /\ (p < q)%nat).
  { intros q Hq. apply (parents_spec C p q Hp) in Hq. destruct Hq as [Hq Hc]. split; [exact Hq|].
    now apply child_lt. }
  induction (nth p (parents C) []) as [|q ps IHps]; intros m1 HP1 Hlen1; [exact HP1|].
  cbn [fold_left]. destruct (Hps q (or_introl eq_refl)) as [Hq Hpq]. apply IHps.
  - intros q' Hq'. apply Hps. now right.
  - apply IH; [exact Hq|lia|exact Hlen1|exact HP1].
  - now rewrite prop_length.
Qed.

(* ---- completeness of a closed vector in which all assumed complementary leaves are marked ---- *)

Definition LeavesMarked (P : cfg) (m : list bool) : Prop :=
  forall f i, In f P -> lit_idx C (- f) = Some i -> nth i m false = true.

Lemma cnt_and i cs : (i < length C)%nat -> nth i C FalseN = And cs -> cnt i = zprod (map cnt cs).
Proof.
  intros Hi E. exact (cA_and [] i cs Hi E).
Qed.
Lemma cnt_or i cs : (i < length C)%nat -> nth i C FalseN = Or cs -> cnt i = zsum (map cnt cs).
Proof.
  intros Hi E. exact (cA_or [] i cs Hi E).
Qed.

Lemma complete_marks P m : Pend m [] -> LeavesMarked P m ->
  forall i, (i < length C)%nat -> 0 < cnt i -> cA P i = 0 -> nth i m false = true.
Proof.
  intros HP HL.
  apply (idx_induction C (fun i => 0 < cnt i -> cA P i = 0 -> nth i m false = true) Hok).
  intros i Hi IH Hpos H0.
  destruct (nth i C FalseN) as [l|cs|cs| |] eqn:E.
  - rewrite (cA_lit P i l Hi E) in H0. destruct (memZ (- l) P) eqn:Hm; [|lia].
    apply memZ_In in Hm. apply (HL (- l) i Hm). rewrite Z.opp_involutive.
    apply lit_idx_unique; [apply HQ|exact Hi|exact E].
  - cbn [children] in IH.
    rewrite (cA_and P i cs Hi E) in H0. apply zprod_zero in H0.
    apply in_map_iff in H0. destruct H0 as [c [Hc0 Hc]].
    assert (Hci : (c < i)%nat) by (apply child_lt; [exact Hi|now rewrite E]).
    assert (Hcpos : 0 < cnt c).
    { pose proof (cA_bounds P c ltac:(lia)) as Hb.
      destruct (Z.eq_dec (cnt c) 0) as [Hz|Hz]; [|lia].
      rewrite (cnt_and i cs Hi E) in Hpos.
      assert (zprod (map cnt cs) = 0) by (apply zprod_zero; rewrite <- Hz; now apply in_map). lia. }
    pose proof (IH c Hc Hcpos Hc0) as Hmc.
    destruct (HP i c Hi ltac:(rewrite E; exact Hc) Hmc) as [[H|[cs' [c' [E' _]]]]|[]]; [exact H|congruence].
  - cbn [children] in IH.
    pose proof (proj1 (or_children_zero P i cs Hi E) H0) as Hall.
    assert (Hch : forall c, In c cs -> cnt c <> 0 -> nth c m false = true).
    { intros c Hc Hnz. assert (Hci : (c < i)%nat) by (apply child_lt; [exact Hi|now rewrite E]).
      pose proof (cA_bounds P c ltac:(lia)) as Hb. apply IH; [exact Hc|lia|now apply Hall]. }
    rewrite (cnt_or i cs Hi E) in Hpos. apply zsum_pos_exists in Hpos.
    destruct Hpos as [x [Hx Hx0]]. apply in_map_iff in Hx. destruct Hx as [c0 [<- Hc0]].
    pose proof (Hch c0 Hc0 Hx0) as Hm0.
    destruct (HP i c0 Hi ltac:(rewrite E; exact Hc0) Hm0) as [[H|[cs' [c' [E' [Hc' [Hm' Hn']]]]]]|[]]; [exact H|].
    rewrite E in E'. inversion E'; subst cs'. rewrite (Hch c' Hc' Hn') in Hm'. discriminate.
  - rewrite (cA_true P i Hi E) in H0. lia.
  - unfold cnt in Hpos. rewrite (counts_unfold C Hok i Hi), E in Hpos. cbn in Hpos. lia.
Qed.

(* ---- the invariant of a mark vector into which exactly the literals P were fully propagated ---- *)

Record Inv (P : cfg) (m : list bool) : Prop := {
  inv_len : length m = length C;
  inv_sound : Sound P m;
  inv_closed : Pend m [];
  inv_leaves : LeavesMarked P m;
}.

Definition mark0 : list bool := map (fun _ => false) C.

Lemma mark0_nth i : nth i mark0 false = false.
Proof. apply nth_map_false. Qed.

Lemma inv_init : Inv [] mark0.
Proof.
  constructor.
  - apply map_length.
  - intros i _ H. rewrite mark0_nth in H. discriminate.
  - intros p c _ _ H. rewrite mark0_nth in H. discriminate.
  - intros f i [].
Qed.

Lemma Inv_equiv P P' m : incl P P' -> incl P' P -> Inv P m -> Inv P' m.
Proof.
  intros H1 H2 [Hl Hs Hc Hlv]. constructor; [exact Hl| |exact Hc|].
  - exact (Sound_mono P P' m H1 Hs).
  - intros f i Hf. apply Hlv. now apply H2.
Qed.

(* one literal of the loop *)
Definition step (f : Z) (m : list bool) : list bool :=
  match lit_idx C (- f) with
  | Some idx => propagate_mark d (S (length C)) idx m
  | None => m
  end.

Lemma step_mono f m i : nth i m false = true -> nth i (step f m) false = true.
Proof. unfold step. destruct (lit_idx C (- f)); [apply prop_mono|auto]. Qed.

Lemma step_length f m : length (step f m) = length m.
Proof. unfold step. destruct (lit_idx C (- f)); [apply prop_length|auto]. Qed.

Lemma step_sound A f m : In f A -> Sound A m -> Sound A (step f m).
Proof.
  intros Hf HS. unfold step. destruct (lit_idx C (- f)) as [idx|] eqn:E; [|exact HS].
  apply lit_idx_some in E. destruct E as [Hidx E].
  apply prop_sound; [exact Hidx|exact HS|]. intros _.
  rewrite (cA_lit A idx (- f) Hidx E), Z.opp_involutive.
  apply memZ_In in Hf. now rewrite Hf.
Qed.

Lemma inv_step P f m : Inv P m -> Inv (P ++ [f]) (step f m).
Proof.
  intros [Hl Hs Hc Hlv]. constructor.
  - now rewrite step_length.
  - apply step_sound; [apply in_app_iff; right; now left|].
    apply (Sound_mono P); [apply incl_appl, incl_refl|exact Hs].
  - unfold step. destruct (lit_idx C (- f)) as [idx|] eqn:E; [|exact Hc].
    apply lit_idx_some in E. destruct E as [Hidx E].
    apply prop_pend; [exact Hidx|lia|exact Hl|]. apply (Pend_weaken m []); [intros x []|exact Hc].
  - intros f' i Hf' Hi. apply in_app_iff in Hf'. destruct Hf' as [Hf'|[<-|[]]].
    + apply step_mono. now apply (Hlv f' i).
    + unfold step. rewrite Hi. apply lit_idx_some in Hi. destruct Hi as [Hidx E].
      apply prop_marks_nonor; [lia|now rewrite E].
Qed.

(* the loop over the literals of one call *)
Lemma sat_loop_spec r : forall fs P m, Inv P m ->
  (snd (sat_loop d fs m r) = true ->
     Inv (P ++ fs) (fst (sat_loop d fs m r)) /\ nth r (fst (sat_loop d fs m r)) false = false) /\
  (snd (sat_loop d fs m r) = false ->
     Sound (P ++ fs) (fst (sat_loop d fs m r)) /\ nth r (fst (sat_loop d fs m r)) false = true).
Proof.
  induction fs as [|f fs IH]; intros P m HI.
  - cbn [sat_loop fst snd]. rewrite app_nil_r. split; intros H.
    + split; [exact HI|]. now apply negb_true_iff in H.
    + split; [apply HI|]. now apply negb_false_iff in H.
  - pose proof (inv_step P f m HI) as H1. unfold step in H1.
    cbn [sat_loop]. change (circ d) with C.
    assert (Happ : (P ++ [f]) ++ fs = P ++ f :: fs) by now rewrite <- app_assoc.
    destruct (lit_idx C (- f)) as [idx|] eqn:E.
    + destruct (nth r (propagate_mark d (S (length C)) idx m) false) eqn:Er.
      * cbn [fst snd]. split; [discriminate|]. intros _. split; [|exact Er].
        apply (Sound_mono (P ++ [f])); [|apply H1].
        rewrite <- Happ. apply incl_appl, incl_refl.
      * specialize (IH _ _ H1). rewrite Happ in IH. exact IH.
    + specialize (IH _ _ H1). rewrite Happ in IH. exact IH.
Qed.

Lemma sat_loop_dead r A : forall fs m, incl fs A -> Sound A m -> nth r m false = true ->
  snd (sat_loop d fs m r) = false /\ Sound A (fst (sat_loop d fs m r)) /\
  nth r (fst (sat_loop d fs m r)) false = true.
Proof.
  induction fs as [|f fs IH]; intros m Hinc HS Hr.
  - cbn [sat_loop fst snd]. rewrite Hr. now repeat split.
  - assert (Hf : In f A) by (apply Hinc; now left).
    assert (Hinc' : incl fs A) by (intros x Hx; apply Hinc; now right).
    pose proof (step_sound A f m Hf HS) as H1. pose proof (step_mono f m r Hr) as H2.
    unfold step in H1, H2. cbn [sat_loop]. change (circ d) with C.
    destruct (lit_idx C (- f)) as [idx|] eqn:E.
    + rewrite H2. cbn [fst snd]. now repeat split.
    + now apply IH.
Qed.

Definition ridx (ro : option nat) : nat := match ro with Some r => r | None => root C end.

Lemma sat_propagate_eq A m ro :
  sat_propagate d A m ro =
  if existsb (makes_unsat d) A then (m, false) else sat_loop d A m (ridx ro).
Proof. reflexivity. Qed.

(* one call on an invariant vector, no literal refuted by the core *)
Lemma call_inv P A m ro : (ridx ro < length C)%nat -> 0 < cnt (ridx ro) -> Inv P m ->
  existsb (makes_unsat d) A = false ->
  snd (sat_propagate d A m ro) = (0 <? cA (P ++ A) (ridx ro)) /\
  (snd (sat_propagate d A m ro) = true -> Inv (P ++ A) (fst (sat_propagate d A m ro))) /\
  (snd (sat_propagate d A m ro) = false ->
     Sound (P ++ A) (fst (sat_propagate d A m ro)) /\
     nth (ridx ro) (fst (sat_propagate d A m ro)) false = true).
Proof.
  intros Hr Hpos HI Hcore. rewrite sat_propagate_eq, Hcore.
  destruct (sat_loop_spec (ridx ro) A P m HI) as [HT HF].
  destruct (snd (sat_loop d A m (ridx ro))) eqn:Eb.
  - destruct (HT eq_refl) as [HI' Hm']. split; [|split; [intros _; exact HI'|discriminate]].
    symmetry. apply Z.ltb_lt.
    pose proof (cA_bounds (P ++ A) (ridx ro) Hr) as Hb.
    destruct (Z.eq_dec (cA (P ++ A) (ridx ro)) 0) as [Hz|Hz]; [|lia].
    rewrite (complete_marks (P ++ A) _ (inv_closed _ _ HI') (inv_leaves _ _ HI') (ridx ro) Hr Hpos Hz) in Hm'.
    discriminate.
  - destruct (HF eq_refl) as [HS' Hm']. split; [|split; [discriminate|intros _; now split]].
    symmetry. apply Z.ltb_ge. rewrite (HS' (ridx ro) Hr Hm'). lia.
Qed.

(* one call on a vector whose root is already marked *)
Lemma call_dead P A m ro : (ridx ro < length C)%nat -> Sound P m -> nth (ridx ro) m false = true ->
  snd (sat_propagate d A m ro) = false /\
  Sound (P ++ A) (fst (sat_propagate d A m ro)) /\
  nth (ridx ro) (fst (sat_propagate d A m ro)) false = true.
Proof.
  intros Hr HS Hm. rewrite sat_propagate_eq.
  assert (HS' : Sound (P ++ A) m) by (apply (Sound_mono P); [apply incl_appl, incl_refl|exact HS]).
  destruct (existsb (makes_unsat d) A); [cbn [fst snd]; now repeat split|].
  apply sat_loop_dead; [apply incl_appr, incl_refl|exact HS'|exact Hm].
Qed.

(* ---- the core shortcut ---- *)

Lemma enum_lits : forall i, (i < length C)%nat ->
  forall c x, In c (nth i (enums C) []) -> In x c -> In x (lits_of C).
Proof.
  apply (idx_induction C (fun i => forall c x, In c (nth i (enums C) []) -> In x c -> In x (lits_of C)) Hok).
  intros i Hi IH c x Hc Hx. rewrite (enums_unfold C Hok i Hi) in Hc.
  destruct (nth i C FalseN) as [l|cs|cs| |] eqn:E; cbn [enum_node children] in *.
  - destruct Hc as [<-|[]]. destruct Hx as [<-|[]]. apply in_lits_of. rewrite <- E. now apply nth_In.
  - destruct (in_prod_elem _ c x Hc Hx) as [L [y [HL [Hy Hxy]]]].
    apply in_rev in HL. apply in_map_iff in HL. destruct HL as [ch [<- Hch]].
    exact (IH ch Hch y x Hy Hxy).
  - apply in_concat in Hc. destruct Hc as [L [HL HcL]].
    apply in_map_iff in HL. destruct HL as [ch [<- Hch]]. exact (IH ch Hch c x HcL Hx).
  - destruct Hc as [<-|[]]. destruct Hx.
  - destruct Hc.
Qed.

Lemma core_unsat A : in_range n A -> existsb (makes_unsat d) A = true -> cA A (root C) = 0.
Proof.
  intros HA Hex. pose proof (wfq_wf C n HQ) as HWF.
  apply existsb_exists in Hex. destruct Hex as [f [Hf Hmu]].
  unfold makes_unsat in Hmu. apply andb_true_iff in Hmu. destruct Hmu as [_ Hmu].
  apply memZ_In in Hmu. change (core d) with (calculate_core C n) in Hmu.
  (* no configuration of the root contains f (Proofs/Live.v; f may be a leaf of a dead branch) *)
  pose proof (core_enum_spec C n (- f) Hok (wf_nonempty C n HWF) Hmu) as Hnf.
  assert (Hroot : (root C < length C)%nat) by (apply root_lt; apply HWF).
  unfold cA. rewrite (countsA_filter A C Hok (root C) Hroot).
  rewrite filter_none_length; [reflexivity|]. intros c Hc.
  assert (Hc' : In c (enum_root C)) by now rewrite enum_root_nth.
  assert (HG : Good c (last (varss C) [])) by (apply (root_good C n HWF); exact Hc').
  pose proof (complete_range C n (wf_complete C n HWF)) as HV.
  destruct HG as [_ Hcov].
  assert (Hin : In (Z.abs f) (map Z.abs c)) by (apply Hcov, HV, HA, Hf).
  apply in_map_iff in Hin. destruct Hin as [x [Habs Hx]].
  assert (Hxf : x = - f).
  { assert (x = f \/ x = - f) as [->| ->] by lia; [|reflexivity].
    exfalso. apply (Hnf c Hc'). now rewrite Z.opp_involutive. }
  destruct (okA A c) eqn:Eok; [|reflexivity]. unfold okA in Eok. rewrite forallb_forall in Eok.
  specialize (Eok x Hx). rewrite Hxf, Z.opp_involutive in Eok.
  apply negb_true_iff, memZ_false in Eok. contradiction.
Qed.

Lemma existsb_app_true {A} (p : A -> bool) l1 l2 : existsb p l2 = true -> existsb p (l1 ++ l2) = true.
Proof. intros H. rewrite existsb_app, H. apply orb_true_r. Qed.

Lemma in_range_app A B : in_range n A -> in_range n B -> in_range n (A ++ B).
Proof. intros HA HB l Hl. apply in_app_iff in Hl. destruct Hl; [now apply HA|now apply HB]. Qed.

(* ---- a chain of calls on one vector (root_index = None) ---- *)

Hypothesis Hrc : 0 < root_count C.

Lemma root_ok : (root C < length C)%nat /\ 0 < cnt (root C).
Proof.
  split; [apply root_lt; apply HQ|]. unfold cnt. now rewrite <- root_count_nth.
Qed.

(* the state of the shared vector: invariant, or root already marked (soundly) *)
Definition St (P : cfg) (m : list bool) : Prop :=
  Inv P m \/ (Sound P m /\ nth (root C) m false = true).

Lemma call_St P A m : in_range n P -> in_range n A -> St P m ->
  snd (sat_propagate d A m None) = (0 <? MCA C n (P ++ A)) /\
  (existsb (makes_unsat d) A = false -> St (P ++ A) (fst (sat_propagate d A m None))) /\
  (snd (sat_propagate d A m None) = true -> Inv (P ++ A) (fst (sat_propagate d A m None))).
Proof.
  intros HP HA HSt. destruct root_ok as [Hr Hpos].
  pose proof (in_range_app P A HP HA) as HPA.
  rewrite <- (countsA_MCA C n (P ++ A) (wfq_wf C n HQ) HPA). change (nth (root C) (countsA (P ++ A) C) 0) with (cA (P ++ A) (root C)).
  destruct (existsb (makes_unsat d) A) eqn:Ecore.
  - rewrite sat_propagate_eq, Ecore. cbn [fst snd].
    rewrite (core_unsat (P ++ A) HPA (existsb_app_true _ P A Ecore)).
    split; [reflexivity|]. split; discriminate.
  - destruct HSt as [HI|[HS Hm]].
    + destruct (call_inv P A m None Hr Hpos HI Ecore) as [H1 [H2 H3]]. change (ridx None) with (root C) in *.
      split; [exact H1|]. split; [intros _|exact H2].
      destruct (snd (sat_propagate d A m None)); [left; now apply H2|right; now apply H3].
    + destruct (call_dead P A m None Hr HS Hm) as [H1 [H2 H3]]. change (ridx None) with (root C) in *.
      rewrite H1. split; [|split; [intros _; right; now split|discriminate]].
      symmetry. apply Z.ltb_ge. rewrite (H2 (root C) Hr H3). lia.
Qed.

Lemma chain_strong : forall As P m, in_range n P -> Forall (in_range n) As -> St P m ->
  forall k, (k < length As)%nat ->
  (forall j, (j < k)%nat -> existsb (makes_unsat d) (nth j As []) = false) ->
  nth k (sat_chain d As m) false = (0 <? MCA C n (P ++ concat (firstn (S k) As))).
Proof.
  induction As as [|A As IH]; intros P m HP HAs HSt k Hk Hprev; [cbn in Hk; lia|].
  inversion HAs as [|? ? HA HAs']; subst.
  destruct (call_St P A m HP HA HSt) as [H1 [H2 _]].
  cbn [sat_chain]. destruct k as [|k].
  - cbn [nth firstn concat]. rewrite app_nil_r. exact H1.
  - cbn [nth]. change (firstn (S (S k)) (A :: As)) with (A :: firstn (S k) As).
    cbn [concat]. rewrite app_assoc. apply IH.
    + now apply in_range_app.
    + exact HAs'.
    + apply H2. apply (Hprev 0%nat). lia.
    + cbn in Hk. lia.
    + intros j Hj. apply (Hprev (S j)). lia.
Qed.

Lemma chain_true_no_core : forall As m j, nth j (sat_chain d As m) false = true ->
  existsb (makes_unsat d) (nth j As []) = false.
Proof.
  induction As as [|A As IH]; intros m j H; [destruct j; discriminate|].
  cbn [sat_chain] in H. destruct j as [|j]; cbn [nth] in *.
  - rewrite sat_propagate_eq in H. destruct (existsb (makes_unsat d) A); [discriminate|reflexivity].
  - exact (IH _ _ H).
Qed.

End Sat.

(* ---------- the theorems ---------- *)

Lemma in_range_nil n : in_range n [].
Proof. intros l []. Qed.

(* anomalies/sat.rs `sat` on a fresh vector decides satisfiability of the partial configuration *)
Theorem sat_correct : forall C n A, WFQ C n -> 0 < root_count C -> in_range n A ->
  sat (build C n) A = (0 <? MCA C n A).
Proof.
  intros C n A HQ Hrc HA.
  destruct (call_St C n HQ Hrc [] A (mark0 C) (in_range_nil n) HA (or_introl (inv_init C))) as [H _].
  exact H.
Qed.

(* One shared mark vector, root_index = None.  The k-th answer is the satisfiability of everything
   asserted so far, provided no EARLIER call was cut short by the core test (an early `return false`
   inside the loop is harmless: the root stays marked and every later answer is `false`, which is
   right because the accumulated configuration stays unsatisfiable). *)
Theorem sat_incremental_strong : forall C n (As : list cfg),
  WFQ C n -> 0 < root_count C -> Forall (in_range n) As ->
  let answers := sat_chain (build C n) As (map (fun _ => false) C) in
  forall k, (k < length As)%nat ->
    (forall j, (j < k)%nat -> existsb (makes_unsat (build C n)) (nth j As []) = false) ->
    nth k answers false = (0 <? MCA C n (concat (firstn (S k) As))).
Proof.
  intros C n As HQ Hrc HAs answers k Hk Hprev.
  exact (chain_strong C n HQ Hrc As [] (mark0 C) (in_range_nil n) HAs (or_introl (inv_init C)) k Hk Hprev).
Qed.

Theorem sat_incremental : forall C n (As : list cfg),
  WFQ C n -> 0 < root_count C -> Forall (in_range n) As ->
  let answers := sat_chain (build C n) As (map (fun _ => false) C) in
  forall k, (k < length As)%nat ->
    (forall j, (j < k)%nat -> nth j answers false = true) ->
    nth k answers false = (0 <? MCA C n (concat (firstn (S k) As))).
Proof.
  intros C n As HQ Hrc HAs answers k Hk Hprev.
  apply (sat_incremental_strong C n As HQ Hrc HAs k Hk).
  intros j Hj. apply (chain_true_no_core C n As (mark0 C) j). now apply Hprev.
Qed.

(* ---- sub-root variant (t_wise_sampling/sat_wrapper.rs is_sat_in_subgraph_cached) ---- *)

(* calls with arbitrary root_index sharing one vector *)
Fixpoint sat_chain_sub (d : ddnnf) (Qs : list (cfg * option nat)) (mark : list bool) : list bool :=
  match Qs with
  | [] => []
  | (A, ro) :: Qs' =>
    let res := sat_propagate d A mark ro in
    snd res :: sat_chain_sub d Qs' (fst res)
  end.

(* the node a root_index stands for *)
Definition root_of (C : circuit) (ro : option nat) : nat :=
  match ro with Some r => r | None => (length C - 1)%nat end.

Definition live_root (C : circuit) (ro : option nat) : Prop :=
  (root_of C ro < length C)%nat /\ 0 < nth (root_of C ro) (counts C) 0.

Lemma chain_sub_gen C n (HQ : WFQ C n) : forall Qs P m,
  Forall (fun q => live_root C (snd q)) Qs -> Inv C P m ->
  forall k, (k < length Qs)%nat ->
  (forall j, (j < k)%nat -> nth j (sat_chain_sub (build C n) Qs m) false = true) ->
  nth k (sat_chain_sub (build C n) Qs m) false =
  negb (existsb (makes_unsat (build C n)) (fst (nth k Qs ([], None)))) &&
  (0 <? nth (root_of C (snd (nth k Qs ([], None))))
            (countsA (P ++ concat (map fst (firstn (S k) Qs))) C) 0).
Proof.
  induction Qs as [|[A ro] Qs IH]; intros P m HL HI k Hk Hprev; [cbn in Hk; lia|].
  inversion HL as [|? ? [Hr Hpos] HL']; subst. cbn [snd] in Hr, Hpos.
  cbn [sat_chain_sub] in *.
  destruct (existsb (makes_unsat (build C n)) A) eqn:Ecore.
  - (* the call is answered by the core test *)
    assert (Hres : sat_propagate (build C n) A m ro = (m, false)) by (rewrite sat_propagate_eq, Ecore; reflexivity).
    destruct k as [|k].
    + cbn [nth fst snd]. rewrite Hres, Ecore. reflexivity.
    + specialize (Hprev 0%nat ltac:(lia)). cbn [nth] in Hprev. rewrite Hres in Hprev. discriminate.
  - destruct (call_inv C n HQ P A m ro Hr Hpos HI Ecore) as [H1 [H2 _]].
    destruct k as [|k].
    + cbn [nth fst snd firstn map concat]. rewrite app_nil_r, Ecore. exact H1.
    + cbn [nth]. change (firstn (S (S k)) ((A, ro) :: Qs)) with ((A, ro) :: firstn (S k) Qs).
      cbn [map fst concat]. rewrite app_assoc. apply IH.
      * exact HL'.
      * apply H2. apply (Hprev 0%nat). lia.
      * cbn in Hk. lia.
      * intros j Hj. apply (Hprev (S j)). lia.
Qed.

(* With `Some r` (or None) as root_index, as long as every earlier call on the shared vector
   answered `true`, the answer is: no literal is refuted by the core, and the node r still has a
   model under everything asserted so far (countsA at r is positive). *)
Theorem sat_subroot_incremental : forall C n (Qs : list (cfg * option nat)),
  WFQ C n -> Forall (fun q => live_root C (snd q)) Qs ->
  let answers := sat_chain_sub (build C n) Qs (map (fun _ => false) C) in
  forall k, (k < length Qs)%nat ->
    (forall j, (j < k)%nat -> nth j answers false = true) ->
    nth k answers false =
    negb (existsb (makes_unsat (build C n)) (fst (nth k Qs ([], None)))) &&
    (0 <? nth (root_of C (snd (nth k Qs ([], None))))
              (countsA (concat (map fst (firstn (S k) Qs))) C) 0).
Proof.
  intros C n Qs HQ HL answers k Hk Hprev.
  exact (chain_sub_gen C n HQ Qs [] (mark0 C) HL (inv_init C) k Hk Hprev).
Qed.

Theorem sat_subroot : forall C n A r,
  WFQ C n -> (r < length C)%nat -> 0 < nth r (counts C) 0 ->
  snd (sat_propagate (build C n) A (map (fun _ => false) C) (Some r)) =
  negb (existsb (makes_unsat (build C n)) A) && (0 <? nth r (countsA A C) 0).
Proof.
  intros C n A r HQ Hr Hpos.
  assert (HL : Forall (fun q : cfg * option nat => live_root C (snd q)) [(A, Some r)]).
  { constructor; [|constructor]. split; assumption. }
  pose proof (sat_subroot_incremental C n [(A, Some r)] HQ HL 0%nat ltac:(cbn; lia)
                ltac:(intros j Hj; lia)) as H.
  cbn [sat_chain_sub nth fst snd firstn map concat root_of] in H. rewrite app_nil_r in H. exact H.
Qed.

(* ---------- witnesses: why the provisos are stated ---------- *)

(* x1 /\ (x2 \/ -x2): feature 1 is core *)
Definition ex_core : circuit := [Lit 1; Lit 2; Lit (-2); Or [1;2]%nat; And [0;3]%nat].
(* x1 <-> x2 (the same vector as Props/C01.v ex_iff) *)
Definition ex_iff' : circuit :=
  [Lit 1; Lit (-1); Lit 2; Lit (-2); And [0;2]%nat; And [1;3]%nat; Or [4;5]%nat].

Lemma ex_core_wfq : WFQ ex_core 2 /\ 0 < root_count ex_core.
Proof. split; [apply check_wf_WFQ|]; vm_compute; reflexivity. Qed.
Lemma ex_iff'_wfq : WFQ ex_iff' 2 /\ 0 < root_count ex_iff'.
Proof. split; [apply check_wf_WFQ|]; vm_compute; reflexivity. Qed.

(* A call that is answered by the core test leaves the vector untouched, so its literals are
   forgotten: [-1] is refuted by the core, then [] is answered `true` although -1 was asserted. *)
Theorem sat_incremental_proviso_needed : exists C n (As : list cfg) k,
  WFQ C n /\ 0 < root_count C /\ Forall (in_range n) As /\ (k < length As)%nat /\
  let answers := sat_chain (build C n) As (map (fun _ => false) C) in
  (exists j, (j < k)%nat /\ nth j answers false = false) /\
  nth k answers false = true /\
  sat (build C n) (concat (firstn (S k) As)) = false /\
  MCA C n (concat (firstn (S k) As)) = 0.
Proof.
  exists ex_core, 2%nat, [[-1]; []], 1%nat.
  split; [apply ex_core_wfq|]. split; [apply ex_core_wfq|]. split.
  { constructor; [|constructor; [|constructor]]; intros l Hl; cbn in Hl; [|contradiction].
    destruct Hl as [<-|[]]. cbn. lia. }
  split; [cbn; lia|]. cbv zeta. split; [exists 0%nat; split; [lia|vm_compute; reflexivity]|].
  repeat split; vm_compute; reflexivity.
Qed.

(* With sub-roots the early `return false` inside the loop matters too: the call ([-1;-2], node 4)
   stops after -1 (node 4 is marked), -2 is never propagated, and the next call ([], node 2 = Lit 2)
   answers `true` although node 2 has no model under the accumulated literals. *)
Theorem sat_subroot_proviso_needed : exists C n (Qs : list (cfg * option nat)) k,
  WFQ C n /\ Forall (fun q => live_root C (snd q)) Qs /\ (k < length Qs)%nat /\
  let answers := sat_chain_sub (build C n) Qs (map (fun _ => false) C) in
  (exists j, (j < k)%nat /\ nth j answers false = false) /\
  existsb (makes_unsat (build C n)) (concat (map fst Qs)) = false /\
  nth k answers false = true /\
  nth (root_of C (snd (nth k Qs ([], None)))) (countsA (concat (map fst (firstn (S k) Qs))) C) 0 = 0.
Proof.
  exists ex_iff', 2%nat, [([-1; -2], Some 4%nat); ([], Some 2%nat)], 1%nat.
  split; [apply ex_iff'_wfq|]. split.
  { repeat constructor; vm_compute; reflexivity || lia. }
  split; [cbn; lia|]. cbv zeta. split; [exists 0%nat; split; [lia|vm_compute; reflexivity]|].
  repeat split; vm_compute; reflexivity.
Qed.

(* The core test is part of the sub-root answer: it refutes [-1] although node 1 (Lit 2) has a model. *)
Theorem sat_subroot_core_guard_needed : exists C n A r,
  WFQ C n /\ (r < length C)%nat /\ 0 < nth r (counts C) 0 /\ in_range n A /\
  snd (sat_propagate (build C n) A (map (fun _ => false) C) (Some r)) = false /\
  0 < nth r (countsA A C) 0.
Proof.
  exists ex_core, 2%nat, [-1], 1%nat.
  split; [apply ex_core_wfq|]. split; [cbn; lia|]. split; [vm_compute; reflexivity|]. split.
  { intros l [<-|[]]. cbn. lia. }
  split; vm_compute; reflexivity.
Qed.
