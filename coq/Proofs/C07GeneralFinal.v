(* C07 (6), part 3: the root and uniform_random_sampling.  With ideal random primitives the law of
   the j-th configuration returned by uniform_random_sampling, for every amount k >= 1 and every
   position j < k, gives probability exactly 1 / MCA to every member of ModelsA and 0 to everything
   else; the law is a probability distribution on choice streams (weights >= 0, total 1) each of
   which respects the contract and is consumed entirely by the model. *)
From Coq Require Import List ZArith QArith Bool Lia Permutation.
From DD Require Import Model.Circuit Model.Query Model.Enumerate
     Proofs.PassLemmas Proofs.Enum Proofs.Semantics Proofs.CountsA Proofs.QueryDefs Proofs.Live
     Proofs.C07Defs Proofs.C07Valid Proofs.C07Urs Proofs.C07IdealDefs Proofs.C07Uniform Proofs.C07Align
     Proofs.ExecTemps Proofs.C07Final
     Proofs.C07GeneralDefs Proofs.C07GeneralDist Proofs.C07GeneralAlign Proofs.C07GeneralUniform.
Import ListNotations.
Open Scope Z_scope.

(* ---------- weights are non-negative ---------- *)

Definition nonneg {X} (D : dist X) : Prop := forall x w, In (x, w) D -> (0 <= w)%Q.

Lemma nonneg_ret {X} (x : X) : nonneg (dret x).
Proof. intros y w H. apply in_dret in H. destruct H as [_ ->]. discriminate. Qed.

Lemma nonneg_bind {X Y} (D : dist X) (f : X -> dist Y) :
  nonneg D -> (forall x w, In (x, w) D -> nonneg (f x)) -> nonneg (dbind D f).
Proof.
  intros HD Hf y v H. apply in_dbind in H. destruct H as [x [wx [wy [Hx [Hy ->]]]]].
  apply Qmult_le_0_compat; [exact (HD x wx Hx)|exact (Hf x wx Hx y wy Hy)].
Qed.

Lemma nonneg_uperm m : nonneg (uperm m).
Proof. intros p w H. now destruct (uperm_support m p w H) as [_ [_ [_ Hw]]]. Qed.

Lemma nonneg_shuffled (J : dist rs) : nonneg J -> nonneg (shuffled J).
Proof.
  intros HJ. unfold shuffled. apply nonneg_bind; [exact HJ|]. intros r w _.
  apply nonneg_bind; [apply nonneg_uperm|]. intros p w' _. apply nonneg_ret.
Qed.

Section NonNeg.
Variables (d : ddnnf) (A : cfg) (ts : list Z) (SL : nat -> Z -> dist (list Z)).
Notation C := (circ d).
Hypothesis Hok : idx_ok C = true.
Hypothesis Hts : temps_ok A C ts.
Hypothesis HSL : splits_ideal C ts SL.
Notation cnt c := (nth c (countsA A C) 0%Z).

Lemma nonneg_and_fold f a (cs : list nat) :
  (forall c, In c cs -> nonneg (jointk d ts SL f a c)) ->
  forall D, nonneg D -> nonneg (fold_left (and_stepK (jointk d ts SL f a)) cs D).
Proof.
  induction cs as [|c cs IH]; intros Hcs D HD; [exact HD|]. cbn [fold_left]. apply IH.
  - intros c0 Hc0. apply Hcs. now right.
  - unfold and_stepK. apply nonneg_bind; [exact HD|]. intros r0 w0 _.
    apply nonneg_bind; [apply nonneg_shuffled, Hcs; now left|]. intros r1 w1 _. apply nonneg_ret.
Qed.

Lemma jointk_nonneg : forall i, (i < length C)%nat ->
  forall f, (i < f)%nat -> Reach C i -> forall a, 0 <= a -> a = 0 \/ cnt i <> 0 ->
  nonneg (jointk d ts SL f a i).
Proof.
  apply (idx_induction C (fun i => forall f, (i < f)%nat -> Reach C i -> forall a, 0 <= a ->
                                   a = 0 \/ cnt i <> 0 -> nonneg (jointk d ts SL f a i)) Hok).
  intros i Hi IH f Hif HR a Ha Hlive. destruct f as [|f]; [lia|].
  rewrite jointk_S. destruct (a =? 0) eqn:Ea; [apply nonneg_ret|]. apply Z.eqb_neq in Ea.
  destruct Hlive as [Hlive|Hcnt]; [contradiction|].
  pose proof (reach_children d A Hok i Hi HR Hcnt) as HRc.
  pose proof (idx_ok_nth C i FalseN Hok Hi) as Hch.
  pose proof (countsA_unfold A C i 0 Hok Hi) as Hcu.
  destruct (nth i C FalseN) as [l|cs|cs| |] eqn:E; cbn [children countA_node] in *; try apply nonneg_ret.
  - apply nonneg_and_fold; [|apply nonneg_ret]. intros c Hc. specialize (Hch c Hc).
    apply IH; [exact Hc|lia|exact (HRc c Hc)|exact Ha|]. right.
    rewrite Hcu in Hcnt. apply (zprod_nonzero _ Hcnt). apply in_map_iff. now exists c.
  - assert (Hti : nth i ts 0 = cnt i) by (apply Hts; [exact Hi|congruence|exact HR]).
    destruct (HSL i cs a Hi E ltac:(lia) ltac:(congruence) HR) as [Hsup _].
    apply nonneg_bind; [intros v w Hv; now destruct (Hsup v w Hv)|]. intros v w Hv.
    destruct (Hsup v w Hv) as [_ Hsp]. destruct (split_ok_spec ts cs v a Hsp) as [_ [Hnn _]].
    apply nonneg_bind.
    + (* the amounts handed to the children are entries of v, hence >= 0 *)
      assert (Hgen : forall cs', incl cs' cs ->
                forall k, nonneg (or_seq ts (fun a' c => jointk d ts SL f a' c) v k cs')).
      { induction cs' as [|c cs' IHcs]; intros Hincl k; cbn [or_seq]; [apply nonneg_ret|].
        assert (Hrest : forall k', nonneg (or_seq ts (fun a' c0 => jointk d ts SL f a' c0) v k' cs')).
        { apply IHcs. intros c0 Hc0. apply Hincl. now right. }
        destruct (nth c ts 0 =? 0) eqn:Et; [apply Hrest|]. apply Z.eqb_neq in Et.
        assert (Hak : 0 <= nth k v 0).
        { destruct (Nat.lt_ge_cases k (length v)) as [Hk|Hk].
          - rewrite Forall_forall in Hnn. apply Hnn. now apply nth_In.
          - rewrite nth_overflow by exact Hk. lia. }
        assert (Hc : In c cs) by (apply Hincl; now left).
        pose proof (Hch c Hc) as Hci.
        apply nonneg_bind.
        - apply (IH c Hc); [lia|exact (HRc c Hc)|exact Hak|]. right.
          destruct (nth c C FalseN) eqn:Ec; try (apply (live_cnt d A ts Hts); [lia|exact Et|congruence|exact (HRc c Hc)]).
          rewrite (true_cnt d A Hok c); [lia|lia|exact Ec].
        - intros r1 w1 _. apply nonneg_bind; [apply Hrest|]. intros r2 w2 _. apply nonneg_ret. }
      apply Hgen. apply incl_refl.
    + intros r w' _. apply nonneg_bind; [apply nonneg_uperm|]. intros p w'' _. apply nonneg_ret.
Qed.

End NonNeg.

(* ---------- point masses as expectations ---------- *)

Definition ind (x m : cfg) : Q := if cfg_eqb x m then 1%Q else 0%Q.

Lemma mass_expect {X} (phi : X -> cfg) (D : dist X) m :
  (mass (map (fun e => (phi (fst e), snd e)) D) m == expect D (fun x => ind (phi x) m))%Q.
Proof.
  unfold mass. induction D as [|[x w] D IH]; [reflexivity|].
  cbn [map filter fst snd]. rewrite expect_cons. unfold ind at 1.
  destruct (cfg_eqb (phi x) m); cbn [map snd]; [rewrite qsum_cons|]; rewrite IH; ring.
Qed.

Lemma ind_sum_NoDup (l : list cfg) m : NoDup l ->
  (In m l -> (qsumf (fun x => ind x m) l == 1)%Q) /\ (~ In m l -> (qsumf (fun x => ind x m) l == 0)%Q).
Proof.
  induction 1 as [|x l Hx Hnd IH]; [split; [intros []|reflexivity]|].
  rewrite qsumf_cons. unfold ind at 1 3. destruct (cfg_eqb x m) eqn:Ex.
  - apply cfg_eqb_eq in Ex. subst x. split; [|intros H; exfalso; apply H; now left].
    intros _. rewrite (proj2 IH Hx). ring.
  - assert (Hne : x <> m) by (intros ->; assert (cfg_eqb m m = true) by (now apply cfg_eqb_eq); congruence).
    split.
    + intros [H|H]; [contradiction|]. rewrite (proj1 IH H). ring.
    + intros H. rewrite (proj2 IH); [ring|]. intros H'. apply H. now right.
Qed.

Lemma canon_cfg_perm n x y : Permutation x y -> canon_cfg n x = canon_cfg n y.
Proof.
  intros HP. unfold canon_cfg, canon. apply map_ext. intros v. unfold asg_of.
  assert (E : memZ v x = memZ v y).
  { apply eq_true_iff_eq. rewrite !memZ_In. split; apply Permutation_in; [exact HP|now symmetry]. }
  now rewrite E.
Qed.

(* ---------- the root ---------- *)

Section RootK.
Variables (C : circuit) (n : nat) (A : cfg) (ts : list Z) (SL : nat -> Z -> dist (list Z)).
Hypothesis HWF : WF C n.
Hypothesis HA : in_range n A.
Hypothesis Hts : temps_ok A C ts.
Hypothesis Hnt : forall i cs c, (i < length C)%nat -> nth i C FalseN = Or cs -> In c cs ->
                                nth c C FalseN <> TrueN.
Hypothesis Hsat : 0 < MCA C n A.
Hypothesis HSL : splits_ideal C ts SL.
Notation d := (build C n).

Definition lawk (a : Z) : dist rs := jointk d ts SL (length C) a (root C).

Lemma canonF_perm :
  Permutation (map (canon_cfg n) (filter (okA A) (nth (root C) (enums C) []))) (ModelsA C n A).
Proof.
  pose proof (complete_range C n (wf_complete C n HWF)) as HV.
  unfold ModelsA. rewrite <- (Permutation_filter (contains_all A) _ _ (models_enum_perm C n HWF)).
  rewrite filter_map_comm, <- enum_root_nth.
  erewrite (filter_ext_in (fun x => contains_all A (canon_cfg n x))); [reflexivity|].
  intros c Hc'. apply (contains_all_canon n c (last (varss C) []) A); [|exact HV|exact HA].
  now apply (root_good C n HWF).
Qed.

Lemma root_cnt_nonzero : nth (root C) (countsA A C) 0 <> 0.
Proof. rewrite (countsA_MCA C n A HWF HA). lia. Qed.

(* every sample of the support is (a rearrangement of) a configuration of the root *)
Lemma lawk_Vp a r w j : 0 <= a -> (j < Z.to_nat a)%nat -> In (r, w) (lawk a) ->
  Vp A C (root C) (nth j (snd r) []).
Proof.
  intros Ha Hj Hr. pose proof (wf_idx C n HWF) as Hok. pose proof (root_lt C (wf_nonempty C n HWF)) as Hrl.
  destruct (nth (root C) C FalseN) eqn:E.
  4:{ (* a true root: the sample list is empty, position j reads [] *)
    pose proof (Vp_true d A Hok (root C) Hrl E) as HVt.
    unfold lawk in Hr. destruct (length C) as [|f] eqn:El; [lia|].
    rewrite (jointk_S d ts SL f a (root C)) in Hr. change (circ d) with C in Hr. rewrite E in Hr.
    assert (Hr' : r = ([], [])) by (destruct (a =? 0); apply in_dret in Hr; now destruct Hr).
    subst r. cbn [snd]. destruct j; cbn [nth]; exact HVt. }
  all: assert (Hroot : nth (root C) C FalseN <> TrueN) by congruence.
  all: destruct (jointk_valid d A ts SL Hok Hts HSL (root C) (length C) a r w Hrl Hrl Ha Hroot
                   (reach_root C) root_cnt_nonzero Hr) as [Hlen HV];
    rewrite Forall_forall in HV; apply HV; apply nth_In; lia.
Qed.

Theorem lawk_marginal a j : 1 <= a -> (j < Z.to_nat a)%nat ->
  (total (lawk a) == 1)%Q /\
  forall m,
    (In m (ModelsA C n A) -> (mass (margk j (lawk a)) m == 1 / inject_Z (MCA C n A))%Q) /\
    (~ In m (ModelsA C n A) -> (mass (margk j (lawk a)) m == 0)%Q).
Proof.
  intros Ha Hj. pose proof (wf_idx C n HWF) as Hok. pose proof (root_lt C (wf_nonempty C n HWF)) as Hrl.
  pose proof (complete_range C n (wf_complete C n HWF)) as HV.
  destruct (jointk_good d A ts SL Hok Hts Hnt HSL (root C) Hrl (length C) Hrl (reach_root C) a ltac:(lia)
              root_cnt_nonzero) as [Htot Hpos].
  split; [exact Htot|]. intros m.
  assert (Hmass : (mass (margk j (lawk a)) m
                   == 1 / inject_Z (MCA C n A)
                      * qsumf (fun x => ind x m) (ModelsA C n A))%Q).
  { unfold margk.
    rewrite (mass_expect (fun r : rs => sort_abs (nth j (snd r) [])) (lawk a) m).
    rewrite (expect_ext _ _ (fun r => ind (canon_cfg n (nth j (snd r) [])) m)).
    - change (expect (lawk a) (fun r => ind (canon_cfg n (nth j (snd r) [])) m))
        with (posE (lawk a) j (fun x => ind (canon_cfg n x) m)).
      unfold lawk. rewrite (Hpos j Hj).
      + change (circ d) with C. rewrite (countsA_MCA C n A HWF HA). apply Qmult_comp; [reflexivity|].
        rewrite <- (qsumf_map (canon_cfg n) (fun y => ind y m)). apply qsumf_perm. apply canonF_perm.
      + intros x y Hxy. now rewrite (canon_cfg_perm n x y Hxy).
    - intros r w Hr. destruct (lawk_Vp a r w j ltac:(lia) Hj Hr) as [c [Hc Hp]].
      apply filter_In in Hc. destruct Hc as [Hc _]. rewrite <- enum_root_nth in Hc.
      pose proof (root_good C n HWF c Hc) as HG.
      rewrite (sort_abs_canon n _ c _ HG HV Hp), (canon_cfg_perm n _ c Hp). reflexivity. }
  destruct (ind_sum_NoDup (ModelsA C n A) m (ModelsA_NoDup C n A)) as [H1 H0].
  split; intros Hm; rewrite Hmass; [rewrite (H1 Hm)|rewrite (H0 Hm)]; ring.
Qed.

(* the law lives on the model's sample_node *)
Theorem lawk_runs a r w : 0 <= a -> In (r, w) (lawk a) ->
  (0 <= w)%Q /\
  sample_node d ts (length C) a (root C) (fst r) = (snd r, [], true) /\
  choices_ok d ts (length C) a (root C) (fst r).
Proof.
  intros Ha Hr. pose proof (wf_idx C n HWF) as Hok. pose proof (root_lt C (wf_nonempty C n HWF)) as Hrl.
  split; [exact (jointk_nonneg d A ts SL Hok Hts HSL (root C) Hrl (length C) Hrl (reach_root C) a Ha
                   (or_intror root_cnt_nonzero) r w Hr)|].
  pose proof (jointk_runs d A ts SL Hok Hts HSL (root C) Hrl (length C) Hrl (reach_root C) a Ha
                (or_intror root_cnt_nonzero) r w Hr []) as Hrun.
  rewrite app_nil_r in Hrun.
  split; [exact (sample_node_c_eq _ _ _ _ _ _ _ _ _ _ Hrun)|].
  unfold choices_ok, choices_okb. change (circ d) with C. now rewrite Hrun.
Qed.

End RootK.

(* ---------- uniform_random_sampling ---------- *)

(* the temps sample_node is called with *)
Definition urs_temps (d : ddnnf) (A : cfg) (s : scratch) : list Z :=
  match preprocess d A s with
  | Some s1 => temps (fst (execute_query d A s1))
  | None => []
  end.

(* the ideal law on choice streams for the call uniform_random_sampling d A k _ s *)
Definition urs_stream_law (d : ddnnf) (A : cfg) (SL : nat -> Z -> dist (list Z)) (k : Z) (s : scratch)
  : dist (list choice) :=
  map (fun e => (fst (fst e), snd e))
      (jointk d (urs_temps d A s) SL (length (circ d)) k (rootn d)).

(* configuration number j of the list uniform_random_sampling returns on a stream *)
Definition urs_pos (d : ddnnf) (A : cfg) (k : Z) (s : scratch) (j : nat) (chs : list choice) : cfg :=
  match snd (fst (uniform_random_sampling d A k chs s)) with
  | Some L => nth j L []
  | None => []
  end.

(* push-forward of the stream law to position j *)
Definition urs_marginal (d : ddnnf) (A : cfg) (SL : nat -> Z -> dist (list Z)) (k : Z) (s : scratch)
           (j : nat) : list (cfg * Q) :=
  map (fun e => (urs_pos d A k s j (fst e), snd e)) (urs_stream_law d A SL k s).

Lemma mass_ext (D D' : list (cfg * Q)) m : D = D' -> mass D m = mass D' m.
Proof. now intros ->. Qed.

Theorem urs_uniform_marginal C n A s SL :
  WFQ C n -> (0 < n)%nat -> in_range n A -> Clean C s ->
  (forall i cs c, (i < length C)%nat -> nth i C FalseN = Or cs -> In c cs -> nth c C FalseN <> TrueN) ->
  0 < MCA C n A ->
  splits_ideal C (urs_temps (build C n) A s) SL ->
  forall k, 1 <= k ->
  (total (urs_stream_law (build C n) A SL k s) == 1)%Q /\
  (forall chs w, In (chs, w) (urs_stream_law (build C n) A SL k s) ->
     (0 <= w)%Q /\
     urs_choices_okb (build C n) A k chs s = true /\
     snd (uniform_random_sampling (build C n) A k chs s) = true /\
     exists L, snd (fst (uniform_random_sampling (build C n) A k chs s)) = Some L /\
               length L = Z.to_nat k) /\
  forall j, (j < Z.to_nat k)%nat -> forall m,
    (In m (ModelsA C n A) ->
     (mass (urs_marginal (build C n) A SL k s j) m == 1 / inject_Z (MCA C n A))%Q) /\
    (~ In m (ModelsA C n A) -> (mass (urs_marginal (build C n) A SL k s j) m == 0)%Q).
Proof.
  intros HQ Hn HA Hcl Hnt Hsat HSL k Hk.
  pose proof (wfq_wf C n HQ) as HWF.
  pose proof (exec_ok_holds C n A s HQ HA Hcl Hsat) as Hexec.
  pose proof (root_not_true C n HWF Hn) as Hroot.
  pose proof (wf_idx C n HWF) as Hok. pose proof (root_lt C (wf_nonempty C n HWF)) as Hrl.
  destruct (preprocess (build C n) A s) as [s1|] eqn:Ep.
  2:{ exfalso. apply (in_range_not_out n A HA). now apply (preprocess_none C n A s). }
  destruct (Hexec s1 Ep) as [Hr Hts].
  assert (Etemps : urs_temps (build C n) A s = temps (fst (execute_query (build C n) A s1))).
  { unfold urs_temps. now rewrite Ep. }
  set (ts := urs_temps (build C n) A s) in *. rewrite <- Etemps in Hts.
  assert (Epos : (0 <? MCA C n A) = true) by now apply Z.ltb_lt.
  (* what the model does on a stream of the law *)
  assert (Hrun : forall r w, In (r, w) (lawk C n ts SL k) ->
            (0 <= w)%Q /\ urs_choices_okb (build C n) A k (fst r) s = true /\
            snd (uniform_random_sampling (build C n) A k (fst r) s) = true /\
            snd (fst (uniform_random_sampling (build C n) A k (fst r) s)) = Some (map sort_abs (snd r)) /\
            length (snd r) = Z.to_nat k).
  { intros r w Hr'.
    destruct (lawk_runs C n A ts SL HWF HA Hts Hsat HSL k r w ltac:(lia) Hr') as [Hw [Hs Hc]].
    destruct (jointk_valid (build C n) A ts SL Hok Hts HSL (root C) (length C) k r w Hrl Hrl ltac:(lia) Hroot
                (reach_root C) (root_cnt_nonzero C n A HWF HA Hsat) Hr') as [Hlen _].
    split; [exact Hw|].
    unfold urs_choices_okb, uniform_random_sampling. rewrite Ep.
    destruct (execute_query (build C n) A s1) as [s2 r0] eqn:Eq. cbn [fst snd] in Hr, Etemps. subst r0.
    rewrite Epos. rewrite <- Etemps.
    change (rootn (build C n)) with (root C). change (length (circ (build C n))) with (length C).
    split; [exact Hc|]. rewrite Hs. cbn [fst snd]. repeat split. exact Hlen. }
  unfold urs_stream_law. change (rootn (build C n)) with (root C). change (length (circ (build C n))) with (length C).
  fold ts. fold (lawk C n ts SL k).
  split; [|split].
  - destruct (lawk_marginal C n A ts SL HWF HA Hts Hnt Hsat HSL k 0 Hk ltac:(lia)) as [Htot _].
    rewrite <- Htot. unfold total. rewrite !expect_qsumf, qsumf_map. reflexivity.
  - intros chs w Hin. apply in_map_iff in Hin. destruct Hin as [[r w'] [E Hin]].
    cbn [fst snd] in E. injection E as <- <-.
    destruct (Hrun r w' Hin) as [Hw [Hc [Hokf [Hout Hlen]]]].
    split; [exact Hw|]. split; [exact Hc|]. split; [exact Hokf|].
    exists (map sort_abs (snd r)). split; [exact Hout|]. now rewrite map_length.
  - intros j Hj m.
    assert (Emarg : urs_marginal (build C n) A SL k s j = margk j (lawk C n ts SL k)).
    { unfold urs_marginal, urs_stream_law, margk.
      change (rootn (build C n)) with (root C). change (length (circ (build C n))) with (length C).
      fold ts. fold (lawk C n ts SL k). rewrite map_map. apply map_ext_in.
      intros [r w] Hin. cbn [fst snd]. f_equal. unfold urs_pos.
      destruct (Hrun r w Hin) as [_ [_ [_ [Hout Hlen]]]]. rewrite Hout.
      rewrite (nth_indep _ [] (sort_abs [])) by (rewrite map_length; lia). apply map_nth. }
    rewrite Emarg.
    destruct (lawk_marginal C n A ts SL HWF HA Hts Hnt Hsat HSL k j Hk Hj) as [_ Hm]. apply Hm.
Qed.
