(* C07 (2): every sample returned by sample_node is a partial configuration of the node that is
   compatible with the assumptions, and exactly `amount` samples are returned -- for EVERY choice
   stream that respects the contract of the random primitives (choices_ok). *)
From Coq Require Import List ZArith Bool Lia Permutation.
From DD Require Import Model.Circuit Model.Query Model.Enumerate
     Proofs.PassLemmas Proofs.Enum Proofs.Semantics Proofs.CountsA Proofs.Live Proofs.LiveCounts
     Proofs.C07Defs.
Import ListNotations.
Open Scope Z_scope.

(* what preprocess + execute_query leave in the temps (proved with execute_query; a hypothesis here):
   the count under the assumptions on every REACHABLE node (the root, the children of reachable
   nodes with a non-zero count: Proofs/Live.v), except at true nodes (hidden / implementation
   dependent); below a node with count zero the temps may be stale (Proofs/ExecTemps.v), the
   sampler never goes there *)
Definition temps_ok (A : cfg) (C : circuit) (ts : list Z) : Prop :=
  forall i, (i < length C)%nat -> nth i C FalseN <> TrueN -> Reach C i ->
            nth i ts 0 = nth i (countsA A C) 0.

(* s is, up to the order of its literals, a configuration of node i compatible with A *)
Definition Vp (A : cfg) (C : circuit) (i : nat) (s : cfg) : Prop :=
  exists c, In c (filter (okA A) (nth i (enums C) [])) /\ Permutation s c.

(* ---------- list facts ---------- *)

Lemma repeat_n_length {X} (x : X) n : length (repeat_n x n) = n.
Proof. induction n as [|n IH]; cbn [repeat_n length]; congruence. Qed.

Lemma repeat_n_Forall {X} (P : X -> Prop) (x : X) n : P x -> Forall P (repeat_n x n).
Proof. intros Hx. induction n as [|n IH]; cbn [repeat_n]; constructor; assumption. Qed.

Lemma is_perm_incl p : is_perm p = true -> incl (seq 0 (length p)) p.
Proof.
  unfold is_perm. rewrite forallb_forall. intros H x Hx. specialize (H x Hx).
  apply existsb_exists in H. destruct H as [y [Hy Hxy]]. apply Nat.eqb_eq in Hxy. now subst.
Qed.

Lemma is_perm_bound p : is_perm p = true -> forall x, In x p -> (x < length p)%nat.
Proof.
  intros H x Hx.
  assert (Hincl : incl p (seq 0 (length p))).
  { apply NoDup_length_incl; [apply seq_NoDup|rewrite seq_length; lia|now apply is_perm_incl]. }
  apply Hincl in Hx. apply in_seq in Hx. lia.
Qed.

Lemma is_perm_Permutation p : is_perm p = true -> Permutation p (seq 0 (length p)).
Proof.
  intros H. symmetry. apply NoDup_Permutation_bis.
  - apply seq_NoDup.
  - rewrite seq_length. lia.
  - now apply is_perm_incl.
Qed.

Lemma apply_perm_length {X} p (l : list X) dflt : length (apply_perm p l dflt) = length p.
Proof. unfold apply_perm. apply map_length. Qed.

Lemma apply_perm_Forall {X} (P : X -> Prop) p (l : list X) dflt :
  (forall x, In x p -> (x < length l)%nat) -> Forall P l -> Forall P (apply_perm p l dflt).
Proof.
  intros Hb Hl. unfold apply_perm. apply Forall_forall. intros y Hy.
  apply in_map_iff in Hy. destruct Hy as [x [<- Hx]].
  rewrite Forall_forall in Hl. apply Hl. apply nth_In. now apply Hb.
Qed.

Lemma stitch_nil_r acc : stitch acc [] = acc.
Proof. destruct acc; reflexivity. Qed.

Lemma stitch_length acc : forall l, length (stitch acc l) = length acc.
Proof.
  induction acc as [|a acc IH]; intros l; [reflexivity|].
  destruct l as [|x l]; [reflexivity|]. cbn [stitch length]. now rewrite IH.
Qed.

Lemma stitch_Forall (P Q R : cfg -> Prop) :
  (forall a x, P a -> Q x -> R (a ++ x)) ->
  forall acc l, length l = length acc -> Forall P acc -> Forall Q l -> Forall R (stitch acc l).
Proof.
  intros HR. induction acc as [|a acc IH]; intros l Hlen Ha Hl; [constructor|].
  destruct l as [|x l]; [discriminate|]. cbn [stitch].
  inversion Ha; subst. inversion Hl; subst. constructor; [now apply HR|].
  apply IH; auto.
Qed.

Lemma zprod_nonzero l : zprod l <> 0 -> forall x, In x l -> x <> 0.
Proof.
  induction l as [|y l IH]; intros H x Hx; [destruct Hx|].
  rewrite zprod_cons in H. destruct Hx as [->|Hx]; [nia|]. apply IH; [nia|exact Hx].
Qed.

Lemma in_prod_app a b L1 L2 : In a (prod L1) -> In b (prod L2) -> In (a ++ b) (prod (L1 ++ L2)).
Proof.
  revert a. induction L1 as [|L L1 IH]; intros a Ha Hb.
  - cbn in Ha. destruct Ha as [<-|[]]. exact Hb.
  - cbn [app]. apply in_prod_cons in Ha. destruct Ha as [x [r [Hx [Hr ->]]]].
    apply in_prod_cons. exists x, (r ++ b). split; [exact Hx|]. split; [now apply IH|].
    now rewrite app_assoc.
Qed.

Lemma in_prod_single y L : In y L -> In y (prod [L]).
Proof.
  intros Hy. apply in_prod_cons. exists y, []. split; [exact Hy|]. split; [now left|].
  now rewrite app_nil_r.
Qed.

(* ---------- the three node kinds ---------- *)

Section Valid.
Variables (d : ddnnf) (A : cfg) (ts : list Z).
Notation C := (circ d).
Hypothesis Hok : idx_ok C = true.
Hypothesis Hts : temps_ok A C ts.

Notation V := (Vp A C).

Lemma Vp_intro i s c : In c (nth i (enums C) []) -> okA A c = true -> Permutation s c -> V i s.
Proof. intros H1 H2 H3. exists c. split; [|exact H3]. apply filter_In. now split. Qed.

Lemma Vp_true c : (c < length C)%nat -> nth c C FalseN = TrueN -> V c [].
Proof.
  intros Hc E. apply (Vp_intro c [] []); [|reflexivity|constructor].
  rewrite (enums_unfold C Hok c Hc), E. now left.
Qed.

Lemma Vp_lit i l : (i < length C)%nat -> nth i C FalseN = Lit l ->
  nth i (countsA A C) 0 <> 0 -> V i [l].
Proof.
  intros Hi E Hc. rewrite (countsA_unfold A C i 0 Hok Hi), E in Hc. cbn [countA_node] in Hc.
  apply (Vp_intro i [l] [l]); [| |reflexivity].
  - rewrite (enums_unfold C Hok i Hi), E. now left.
  - unfold okA. cbn [forallb]. destruct (memZ (- l) A); [congruence|reflexivity].
Qed.

(* And: one sample of every child, concatenated in child order *)
Definition AndV (cs : list nat) (s : cfg) : Prop :=
  exists xs, Forall2 V cs xs /\ s = concat xs.

Lemma AndV_nil : AndV [] [].
Proof. exists []. split; [constructor|reflexivity]. Qed.

Lemma AndV_snoc done c a x : AndV done a -> V c x -> AndV (done ++ [c]) (a ++ x).
Proof.
  intros [xs [HF ->]] Hx. exists (xs ++ [x]). split.
  - apply Forall2_app; [exact HF|]. constructor; [exact Hx|constructor].
  - rewrite concat_app. cbn [concat]. now rewrite app_nil_r.
Qed.

Lemma and_member cs xs : Forall2 V cs xs ->
  exists z, In z (prod (rev (map (fun c => nth c (enums C) []) cs))) /\ okA A z = true /\
            Permutation (concat xs) z.
Proof.
  induction 1 as [|c x cs xs Hx HF IH].
  - exists []. split; [now left|]. split; [reflexivity|constructor].
  - destruct IH as [z [Hz [Hokz Hp]]]. destruct Hx as [y [Hy Hxy]].
    apply filter_In in Hy. destruct Hy as [Hy Hoky].
    exists (z ++ y). split; [|split].
    + cbn [map rev]. apply in_prod_app; [exact Hz|now apply in_prod_single].
    + rewrite okA_app, Hokz, Hoky. reflexivity.
    + cbn [concat]. transitivity (y ++ z); [now apply Permutation_app|apply Permutation_app_comm].
Qed.

Lemma AndV_Vp i cs s : (i < length C)%nat -> nth i C FalseN = And cs -> AndV cs s -> V i s.
Proof.
  intros Hi E [xs [HF ->]]. destruct (and_member cs xs HF) as [z [Hz [Hokz Hp]]].
  apply (Vp_intro i _ z); [|exact Hokz|exact Hp].
  rewrite (enums_unfold C Hok i Hi), E. exact Hz.
Qed.

(* Or: a sample of one of the children *)
Definition OrV (cs : list nat) (s : cfg) : Prop := exists c, In c cs /\ V c s.

Lemma OrV_Vp i cs s : (i < length C)%nat -> nth i C FalseN = Or cs -> OrV cs s -> V i s.
Proof.
  intros Hi E [c [Hc [y [Hy Hp]]]]. apply filter_In in Hy. destruct Hy as [Hy Hoky].
  apply (Vp_intro i s y); [|exact Hoky|exact Hp].
  rewrite (enums_unfold C Hok i Hi), E. cbn [enum_node]. apply in_concat.
  exists (nth c (enums C) []). split; [|exact Hy]. apply in_map_iff. now exists c.
Qed.

(* ---------- unfolding sample_node_c with named step functions ---------- *)

Definition and_step (f : nat) (amount : Z) (st : list cfg * list choice * bool * bool) (c : nat) :=
  let '(acc, chs1, ok, ct) := st in
  let '(l, chs2, ok2, ct2) := sample_node_c d ts f amount c chs1 in
  match take_choice chs2 with
  | (Some (Perm p), chs3) =>
    (stitch acc (apply_perm p l []), chs3,
     ok && ok2 && Nat.eqb (length p) (length l), ct && ct2 && is_perm p)
  | (_, chs3) => (acc, chs3, false, ct && ct2)
  end.

Definition or_step (f : nat) (v : list Z) (st : list cfg * list choice * bool * nat * bool) (c : nat) :=
  let '(l, chs2, ok, k, ct) := st in
  if nth c ts 0 =? 0 then (l, chs2, ok, S k, ct)
  else
    let '(l', chs3, ok3, ct3) := sample_node_c d ts f (nth k v 0) c chs2 in
    (l ++ l', chs3, ok && ok3, S k, ct && ct3).

Lemma sample_node_c_S f amount i chs :
  sample_node_c d ts (S f) amount i chs =
  if amount =? 0 then ([], chs, true, true)
  else
    match nth i C FalseN with
    | And cs => fold_left (and_step f amount) cs (repeat_n [] (Z.to_nat amount), chs, true, true)
    | Or cs =>
      match take_choice chs with
      | (Some (Split v), chs1) =>
        let '(l, chs2, ok, _, ct) :=
          fold_left (or_step f v) cs
                    ([], chs1, Nat.eqb (length v) (length cs), O, split_ok ts cs v amount) in
        let padded := l ++ repeat_n [] (Z.to_nat amount - length l) in
        match take_choice chs2 with
        | (Some (Perm p), chs3) =>
          (apply_perm p padded [], chs3, ok && Nat.eqb (length p) (length padded), ct && is_perm p)
        | (_, chs3) => (padded, chs3, false, ct)
        end
      | (_, chs1) => ([], chs1, false, true)
      end
    | Lit l => (repeat_n [l] (Z.to_nat amount), chs, true, true)
    | _ => ([], chs, true, true)
    end.
Proof. reflexivity. Qed.

Lemma sample_true f amount c chs : (c < f)%nat -> nth c C FalseN = TrueN ->
  sample_node_c d ts f amount c chs = ([], chs, true, true).
Proof.
  intros Hc E. destruct f as [|f]; [lia|]. rewrite sample_node_c_S, E.
  destruct (amount =? 0); reflexivity.
Qed.

(* what the induction carries for a node: a successful contract-respecting run returns exactly
   `amount` valid samples *)
Definition node_valid (f : nat) (c : nat) : Prop :=
  forall amount chs l rest ok ct, 0 <= amount ->
    sample_node_c d ts f amount c chs = (l, rest, ok, ct) -> ok = true -> ct = true ->
    length l = Z.to_nat amount /\ Forall (V c) l.

(* ---------- And ---------- *)

(* the flags are monotone: once false they stay false *)
Lemma and_fold_flags f amount (cs : list nat) :
  forall acc chs1 ok ct acc' chs' ok' ct',
    fold_left (and_step f amount) cs (acc, chs1, ok, ct) = (acc', chs', ok', ct') ->
    ok' = true -> ct' = true -> ok = true /\ ct = true.
Proof.
  induction cs as [|c cs IH]; intros acc chs1 ok ct acc' chs' ok' ct' Hf Hok' Hct'.
  - cbn [fold_left] in Hf. inversion Hf; subst. auto.
  - cbn [fold_left] in Hf. unfold and_step at 2 in Hf.
    destruct (sample_node_c d ts f amount c chs1) as [[[l chs2] ok2] ct2].
    destruct (take_choice chs2) as [[[v|p]|] chs3];
      destruct (IH _ _ _ _ _ _ _ _ Hf Hok' Hct') as [H1 H2]; try discriminate.
    apply andb_true_iff in H1. destruct H1 as [H1 _]. apply andb_true_iff in H1. destruct H1 as [H1 _].
    apply andb_true_iff in H2. destruct H2 as [H2 _]. apply andb_true_iff in H2. destruct H2 as [H2 _].
    auto.
Qed.

Lemma ntype_true_dec (nd : ntype) : {nd = TrueN} + {nd <> TrueN}.
Proof. destruct nd; (now left) || (right; discriminate). Qed.

Lemma and_fold_valid f amount (cs : list nat) :
  (forall c, In c cs -> (c < f)%nat /\ (c < length C)%nat /\
                        (nth c C FalseN <> TrueN -> node_valid f c)) ->
  0 <= amount ->
  forall done acc chs1 ok ct acc' chs' ok' ct',
    fold_left (and_step f amount) cs (acc, chs1, ok, ct) = (acc', chs', ok', ct') ->
    ok' = true -> ct' = true ->
    length acc = Z.to_nat amount -> Forall (AndV done) acc ->
    length acc' = Z.to_nat amount /\ Forall (AndV (done ++ cs)) acc'.
Proof.
  intros Hcs Hamt. induction cs as [|c cs IH];
    intros done acc chs1 ok ct acc' chs' ok' ct' Hf Hok' Hct' Hlen Hacc.
  - cbn [fold_left] in Hf. inversion Hf; subst. rewrite app_nil_r. auto.
  - cbn [fold_left] in Hf.
    destruct (Hcs c (or_introl eq_refl)) as [Hcf [HcC Hchild]].
    assert (Hcs' : forall c0, In c0 cs -> (c0 < f)%nat /\ (c0 < length C)%nat /\
                                         (nth c0 C FalseN <> TrueN -> node_valid f c0))
      by (intros c0 Hc0; apply Hcs; now right).
    specialize (IH Hcs').
    unfold and_step at 2 in Hf.
    destruct (sample_node_c d ts f amount c chs1) as [[[l chs2] ok2] ct2] eqn:Es.
    destruct (take_choice chs2) as [[[v|p]|] chs3] eqn:Et;
      destruct (and_fold_flags _ _ _ _ _ _ _ _ _ _ _ Hf Hok' Hct') as [Hfl1 Hfl2]; try discriminate.
    apply andb_true_iff in Hfl1. destruct Hfl1 as [Hfl1 Hpl]. apply andb_true_iff in Hfl1.
    destruct Hfl1 as [_ Hok2]. apply andb_true_iff in Hfl2. destruct Hfl2 as [Hfl2 Hperm].
    apply andb_true_iff in Hfl2. destruct Hfl2 as [_ Hct2]. apply Nat.eqb_eq in Hpl.
    replace (done ++ c :: cs) with ((done ++ [c]) ++ cs) by (rewrite <- app_assoc; reflexivity).
    apply (IH _ _ _ _ _ _ _ _ _ Hf Hok' Hct'); [now rewrite stitch_length|].
    destruct (ntype_true_dec (nth c C FalseN)) as [E|E].
    + (* a true child contributes nothing *)
      rewrite (sample_true f amount c chs1 Hcf E) in Es. inversion Es; subst.
      destruct p; [|discriminate]. cbn [apply_perm map]. rewrite stitch_nil_r.
      eapply Forall_impl; [|exact Hacc]. intros a Ha.
      rewrite <- (app_nil_r a). apply AndV_snoc; [exact Ha|now apply Vp_true].
    + destruct (Hchild E amount chs1 l chs2 ok2 ct2 Hamt Es Hok2 Hct2) as [Hl HV].
      apply (stitch_Forall (AndV done) (V c)).
      * intros a x Ha Hx. now apply AndV_snoc.
      * rewrite apply_perm_length. congruence.
      * exact Hacc.
      * apply apply_perm_Forall; [|exact HV]. rewrite <- Hpl. now apply is_perm_bound.
Qed.

(* ---------- Or ---------- *)

Lemma or_fold_flags f v (cs : list nat) :
  forall l chs2 ok k ct l' chs' ok' k' ct',
    fold_left (or_step f v) cs (l, chs2, ok, k, ct) = (l', chs', ok', k', ct') ->
    ok' = true -> ct' = true -> ok = true /\ ct = true.
Proof.
  induction cs as [|c cs IH]; intros l chs2 ok k ct l' chs' ok' k' ct' Hf Hok' Hct'.
  - cbn [fold_left] in Hf. inversion Hf; subst. auto.
  - cbn [fold_left] in Hf. unfold or_step at 2 in Hf.
    destruct (nth c ts 0 =? 0); [exact (IH _ _ _ _ _ _ _ _ _ _ Hf Hok' Hct')|].
    destruct (sample_node_c d ts f (nth k v 0) c chs2) as [[[l1 chs3] ok3] ct3].
    destruct (IH _ _ _ _ _ _ _ _ _ _ Hf Hok' Hct') as [H1 H2].
    apply andb_true_iff in H1. apply andb_true_iff in H2. tauto.
Qed.

(* cs0: all children of the or node; cs: the children still to be processed, v' their split entries *)
Lemma or_fold_valid f v (cs0 cs : list nat) :
  (forall c, In c cs -> In c cs0 /\ (c < f)%nat /\ (c < length C)%nat /\
                        (nth c C FalseN <> TrueN -> nth c ts 0 <> 0 -> node_valid f c)) ->
  forall vpre v', v = vpre ++ v' -> length v' = length cs ->
    Forall (fun x => 0 <= x) v' ->
    Forall (fun cx => nth (fst cx) ts 0 = 0 -> snd cx = 0) (combine cs v') ->
  forall l chs2 ok ct l' chs' ok' k' ct',
    fold_left (or_step f v) cs (l, chs2, ok, length vpre, ct) = (l', chs', ok', k', ct') ->
    ok' = true -> ct' = true ->
    exists l'', l' = l ++ l'' /\ Forall (OrV cs0) l'' /\
                Z.of_nat (length l'') <= zsum v' /\
                (Z.of_nat (length l'') = zsum v' \/ exists c, In c cs /\ nth c C FalseN = TrueN).
Proof.
  induction cs as [|c cs IH]; intros Hcs vpre v' Hv Hlen Hnn Hz l chs2 ok ct l' chs' ok' k' ct' Hf Hok' Hct'.
  - cbn [fold_left] in Hf. injection Hf as Hl _ _ _ _. destruct v'; [|discriminate].
    exists []. rewrite app_nil_r. cbn. repeat split; auto; lia.
  - destruct v' as [|x v']; [discriminate|]. cbn [length] in Hlen.
    cbn [combine] in Hz. pose proof (Forall_inv Hz) as Hzx. pose proof (Forall_inv_tail Hz) as Hz'.
    cbn [fst snd] in Hzx.
    pose proof (Forall_inv Hnn) as Hx. pose proof (Forall_inv_tail Hnn) as Hnn'. cbn beta in Hx.
    clear Hz Hnn.
    destruct (Hcs c (or_introl eq_refl)) as [Hc0 [Hcf [HcC Hchild]]].
    assert (Hcs' : forall c1, In c1 cs -> In c1 cs0 /\ (c1 < f)%nat /\ (c1 < length C)%nat /\
                  (nth c1 C FalseN <> TrueN -> nth c1 ts 0 <> 0 -> node_valid f c1))
      by (intros c1 Hc1; apply Hcs; now right).
    assert (Hv' : v = (vpre ++ [x]) ++ v') by (rewrite <- app_assoc; exact Hv).
    assert (Hk : nth (length vpre) v 0 = x)
      by (rewrite Hv, app_nth2, Nat.sub_diag by lia; reflexivity).
    assert (Hk' : S (length vpre) = length (vpre ++ [x])) by (rewrite app_length; cbn; lia).
    specialize (IH Hcs' (vpre ++ [x]) v' Hv' ltac:(lia) Hnn' Hz').
    cbn [fold_left] in Hf. unfold or_step at 2 in Hf. rewrite zsum_cons.
    destruct (nth c ts 0 =? 0) eqn:Et.
    + apply Z.eqb_eq in Et. rewrite (Hzx Et). rewrite Hk' in Hf.
      destruct (IH _ _ _ _ _ _ _ _ _ Hf Hok' Hct') as [l2 [-> [HV [Hle Heq]]]].
      exists l2. split; [reflexivity|]. split; [exact HV|]. split; [lia|].
      destruct Heq as [Heq|[c1 [Hc1 E1]]]; [left; lia|right; exists c1; split; [now right|exact E1]].
    + apply Z.eqb_neq in Et. rewrite Hk in Hf.
      destruct (sample_node_c d ts f x c chs2) as [[[l1 chs3] ok3] ct3] eqn:Es.
      rewrite Hk' in Hf.
      destruct (or_fold_flags _ _ _ _ _ _ _ _ _ _ _ _ _ Hf Hok' Hct') as [Hfl1 Hfl2].
      apply andb_true_iff in Hfl1. destruct Hfl1 as [_ Hok3].
      apply andb_true_iff in Hfl2. destruct Hfl2 as [_ Hct3].
      destruct (IH _ _ _ _ _ _ _ _ _ Hf Hok' Hct') as [l2 [-> [HV [Hle Heq]]]].
      exists (l1 ++ l2). rewrite app_assoc. split; [reflexivity|].
      destruct (ntype_true_dec (nth c C FalseN)) as [E|E].
      * (* a true child that was not hidden: it returns nothing, the padding will supply [] *)
        rewrite (sample_true f x c chs2 Hcf E) in Es. inversion Es; subst. cbn [app].
        split; [exact HV|]. split; [lia|]. right. exists c. split; [now left|exact E].
      * destruct (Hchild E Et x chs2 l1 chs3 ok3 ct3 Hx Es Hok3 Hct3) as [Hl1 HV1].
        split; [|split].
        -- apply Forall_app. split; [|exact HV]. eapply Forall_impl; [|exact HV1].
           intros s Hs. exists c. now split.
        -- rewrite app_length. lia.
        -- rewrite app_length. destruct Heq as [Heq|[c1 [Hc1 E1]]]; [left; lia|].
           right. exists c1. split; [now right|exact E1].
Qed.

Lemma split_ok_spec cs v amount : split_ok ts cs v amount = true ->
  length v = length cs /\ Forall (fun x => 0 <= x) v /\ zsum v = amount /\
  Forall (fun cx => nth (fst cx) ts 0 = 0 -> snd cx = 0) (combine cs v).
Proof.
  unfold split_ok. intros H.
  apply andb_true_iff in H. destruct H as [H H4]. apply andb_true_iff in H. destruct H as [H H3].
  apply andb_true_iff in H. destruct H as [H1 H2].
  apply Nat.eqb_eq in H1. apply Z.eqb_eq in H3. rewrite forallb_forall in H2, H4.
  split; [exact H1|]. split; [|split; [exact H3|]].
  - apply Forall_forall. intros x Hx. apply H2 in Hx. now apply Z.leb_le in Hx.
  - apply Forall_forall. intros cx Hcx Ht. apply H4 in Hcx. apply orb_true_iff in Hcx.
    destruct Hcx as [Hcx|Hcx]; [|now apply Z.eqb_eq in Hcx].
    apply negb_true_iff, Z.eqb_neq in Hcx. contradiction.
Qed.

(* ---------- the induction over the node vector ---------- *)

Lemma sample_node_c_valid : forall i, (i < length C)%nat ->
  forall f, (i < f)%nat -> nth i C FalseN <> TrueN -> Reach C i ->
  nth i (countsA A C) 0 <> 0 -> node_valid f i.
Proof.
  apply (idx_induction C (fun i => forall f, (i < f)%nat -> nth i C FalseN <> TrueN -> Reach C i ->
                                   nth i (countsA A C) 0 <> 0 -> node_valid f i) Hok).
  intros i Hi IH f Hif Hnt HR Hcnt amount chs l rest ok ct Hamt Hs Hokf Hctf.
  assert (HRc : forall c, In c (children (nth i C FalseN)) -> Reach C c).
  { intros c Hc. apply (reach_child C i c HR Hi); [|exact Hc].
    exact (count_of_countsA_nonzero C Hok A i Hi Hcnt). }
  destruct f as [|f]; [lia|]. rewrite sample_node_c_S in Hs.
  destruct (amount =? 0) eqn:Ea.
  { apply Z.eqb_eq in Ea. injection Hs as <- _ _ _. subst amount. split; [reflexivity|constructor]. }
  apply Z.eqb_neq in Ea.
  pose proof (idx_ok_nth C i FalseN Hok Hi) as Hch.
  destruct (nth i C FalseN) as [l0|cs|cs| |] eqn:E; cbn [children] in Hch, IH, HRc.
  - (* Lit *)
    injection Hs as <- _ _ _. split; [apply repeat_n_length|].
    apply repeat_n_Forall. now apply Vp_lit.
  - (* And *)
    rewrite (countsA_unfold A C i 0 Hok Hi), E in Hcnt. cbn [countA_node] in Hcnt.
    destruct (and_fold_valid f amount cs) with (done := @nil nat) (acc := repeat_n (@nil Z) (Z.to_nat amount))
      (chs1 := chs) (ok := true) (ct := true) (acc' := l) (chs' := rest) (ok' := ok) (ct' := ct)
      as [Hlen HV]; try assumption.
    + intros c Hc. specialize (Hch c Hc). split; [lia|]. split; [lia|]. intros Hct.
      apply IH; [exact Hc|lia|exact Hct|exact (HRc c Hc)|].
      apply (zprod_nonzero _ Hcnt). apply in_map_iff. now exists c.
    + apply repeat_n_length.
    + apply repeat_n_Forall. apply AndV_nil.
    + split; [exact Hlen|]. eapply Forall_impl; [|exact HV]. intros s Hs'. now apply (AndV_Vp i cs).
  - (* Or *)
    destruct (take_choice chs) as [[[v|p]|] chs1]; try (injection Hs as _ _ <- _; discriminate).
    destruct (fold_left (or_step f v) cs ([], chs1, Nat.eqb (length v) (length cs), O, split_ok ts cs v amount))
      as [[[[l1 chs2] ok1] k1] ct1] eqn:Ef.
    destruct (take_choice chs2) as [[[v'|p]|] chs3]; try (injection Hs as _ _ <- _; discriminate).
    injection Hs as <- _ <- <-.
    apply andb_true_iff in Hokf. destruct Hokf as [Hok1 Hpl]. apply Nat.eqb_eq in Hpl.
    apply andb_true_iff in Hctf. destruct Hctf as [Hct1 Hperm].
    destruct (or_fold_flags _ _ _ _ _ _ _ _ _ _ _ _ _ Ef Hok1 Hct1) as [_ Hsp].
    destruct (split_ok_spec cs v amount Hsp) as [Hlv [Hnn [Hsum Hz]]].
    destruct (or_fold_valid f v cs cs) with (vpre := @nil Z) (v' := v) (l := @nil cfg) (chs2 := chs1)
      (ok := Nat.eqb (length v) (length cs)) (ct := split_ok ts cs v amount)
      (l' := l1) (chs' := chs2) (ok' := ok1) (k' := k1) (ct' := ct1)
      as [l2 [Hl2 [HV [Hle Heq]]]]; try assumption; try reflexivity.
    + intros c Hc. specialize (Hch c Hc). split; [exact Hc|]. split; [lia|]. split; [lia|].
      intros Hct Ht. apply IH; [exact Hc|lia|exact Hct|exact (HRc c Hc)|].
      rewrite <- (Hts c ltac:(lia) Hct (HRc c Hc)). exact Ht.
    + cbn [app] in Hl2. subst l1.
      assert (Hpad : length (l2 ++ repeat_n [] (Z.to_nat amount - length l2)) = Z.to_nat amount).
      { rewrite app_length, repeat_n_length. lia. }
      split; [rewrite apply_perm_length; congruence|].
      apply apply_perm_Forall; [rewrite <- Hpl; now apply is_perm_bound|].
      apply Forall_app. split.
      * eapply Forall_impl; [|exact HV]. intros s Hs'. now apply (OrV_Vp i cs).
      * destruct Heq as [Heq|[c [Hc Ec]]].
        -- replace (Z.to_nat amount - length l2)%nat with 0%nat by lia. constructor.
        -- apply repeat_n_Forall. apply (OrV_Vp i cs); [exact Hi|exact E|].
           exists c. split; [exact Hc|]. apply Vp_true; [|exact Ec]. specialize (Hch c Hc). lia.
  - congruence.
  - rewrite (countsA_unfold A C i 0 Hok Hi), E in Hcnt. cbn [countA_node] in Hcnt. congruence.
Qed.

(* (2) on the model's sample_node.  For every choice stream that respects the contract:
   exactly `amount` samples, each one (up to the order of its literals) a configuration of node i
   that is compatible with the assumptions. *)
Theorem sample_node_valid (fuel : nat) (amount : Z) (i : nat) (chs : list choice) :
  (i < length C)%nat -> (i < fuel)%nat -> 0 <= amount -> Reach C i ->
  amount = 0 \/ (nth i C FalseN <> TrueN /\ nth i ts 0 <> 0) ->
  choices_ok d ts fuel amount i chs ->
  exists l rest, sample_node d ts fuel amount i chs = (l, rest, true) /\
                 length l = Z.to_nat amount /\ Forall (Vp A C i) l.
Proof.
  intros Hi Hf Hamt HR Hlive Hch. unfold choices_ok, choices_okb in Hch.
  destruct (sample_node_c d ts fuel amount i chs) as [[[l rest] ok] ct] eqn:Es.
  apply andb_true_iff in Hch. destruct Hch as [-> ->].
  exists l, rest. split; [exact (sample_node_c_eq _ _ _ _ _ _ _ _ _ _ Es)|].
  destruct Hlive as [->|[Hnt Ht]].
  - destruct fuel as [|f]; [lia|]. rewrite sample_node_c_S in Es. cbn [Z.eqb] in Es.
    injection Es as <- _. split; [reflexivity|constructor].
  - apply (sample_node_c_valid i Hi fuel Hf Hnt HR) with (chs := chs) (rest := rest) (ok := true) (ct := true);
      try assumption; try reflexivity.
    rewrite <- (Hts i Hi Hnt HR). exact Ht.
Qed.

End Valid.
