(* What execute_query leaves in the temps when it runs on the scratch that
   preprocess_config_creation prepared (temps := cached counts, complementary leaves zeroed, true
   nodes hidden): whenever it does not answer through the "unsatisfiable" core shortcut, every
   REACHABLE node (the root, the children of reachable nodes with a non-zero count: Proofs/Live.v)
   that is not a true node holds its count under the assumptions afterwards.  Inside a dead branch
   a temp may be stale since the core ignores dead branches (F22): a core literal is dropped from
   the query although its complement is a leaf of a dead branch; enumeration and sampling never
   enter such a branch.
     marker strategy  : marked nodes are recomputed, unmarked nodes have no zeroed leaf below them
                        and keep the cached count, which is their count under the assumptions;
     default strategy : every position is recomputed;
     core shortcuts that return the cached root count: nothing was zeroed.
   This discharges the hypotheses exec_spec (C06) and exec_ok (C07). *)
From Coq Require Import List ZArith Bool Lia Permutation.
From DD Require Import Model.Circuit Model.Query Model.Enumerate
  Proofs.PassLemmas Proofs.Enum Proofs.Semantics Proofs.CountsA Proofs.QueryDefs
  Proofs.C02Basics Proofs.C02Marking Proofs.C02Proof Proofs.Live Proofs.LiveCounts Proofs.C06Node.
Import ListNotations.
Open Scope Z_scope.

(* calc_count_marked_node writes only the position it is called for *)
Lemma process_frame d : forall (l : list nat) (s : scratch) (j : nat),
  ~ In j l ->
  nth j (temps (fold_left (fun s' a => calc_count_marked_node d a s') l s)) 0 = nth j (temps s) 0.
Proof.
  induction l as [|a l IH]; intros s j Hn; [reflexivity|].
  cbn [fold_left]. rewrite IH by (intros H; apply Hn; now right).
  unfold calc_count_marked_node. cbn [temps]. apply nth_upd_neq. intros ->. apply Hn. now left.
Qed.

Section Temps.
Variables (C : circuit) (n : nat).
Hypothesis HQ : WFQ C n.
Notation d := (build C n).

(* ================= marker strategy ================= *)
Section Marker.
Variables (A : cfg) (idxs : list nat).
Hypothesis Hidx : forall i, In i idxs <->
  exists l, nth_error C i = Some (Lit l) /\ memZ (- l) A = true.
Notation cA := (countsA A C).

(* a position that held the cached count before (unless it is one of the zeroed leaves) holds the
   count under A afterwards *)
Lemma operate_on_marker_temps (s : scratch) :
  Clean C s ->
  forall j, (j < length C)%nat ->
    (~ In j idxs -> nth j (temps s) 0 = nth j (counts C) 0) ->
    nth j (temps (fst (operate_on_marker d idxs s))) 0 = nth j cA 0.
Proof.
  intros HC j Hj Hpre.
  pose proof (Hok C n HQ) as Hok'.
  assert (HX : forall i, In i idxs -> (i < length C)%nat /\ (fun j => In j idxs) i)
    by (intros i Hi; split; [now apply (idxs_lt C A idxs Hidx)|exact Hi]).
  pose proof (mark_assumptions_spec C n Hok' (fun j => In j idxs) idxs s HC HX) as Hs1.
  cbv zeta in Hs1.
  unfold operate_on_marker. cbv zeta. cbn [fst temps].
  pose proof (mark_assumptions_eq C n idxs s) as Heq.
  set (s1 := mark_assumptions d idxs s) in *.
  destruct Hs1 as [HT1 [Hp1 [Hz1 [Hm1 [Hasc HI1]]]]].
  destruct HI1 as [HL1 [Hmd1 [Hmk1 Hcl1]]].
  pose proof (unmarked_counts C n HQ A idxs Hidx (marks s1) Hcl1 Hm1) as HU.
  assert (HD : forall j, nth j (marks s1) false = true -> ~ In j (mdl s1) ->
                         nth j (temps s1) 0 = nth j cA 0).
  { intros k Hk Hnin. destruct (Hmk1 k Hk) as [H|H]; [contradiction|].
    rewrite (Hz1 k H). symmetry. now apply (idxs_zero C n HQ A idxs Hidx). }
  pose proof (process_spec C n HQ A (mdl s1) s1 HT1 Hasc Hmd1 HU HD) as Hs2.
  cbv zeta in Hs2. destruct Hs2 as [G1 [G2 [G3 [G4 G5]]]].
  destruct (nth j (marks s1) false) eqn:Ej.
  - now apply G5.
  - assert (Hni : ~ In j idxs) by (intros H; rewrite (Hm1 j H) in Ej; discriminate Ej).
    rewrite process_frame.
    + rewrite Heq. cbn [temps]. rewrite fold_upd_nth_notin by exact Hni.
      rewrite (Hpre Hni). symmetry. now apply HU.
    + intros H. destruct (Hmd1 j H) as [H1 _]. rewrite H1 in Ej. discriminate Ej.
Qed.

End Marker.

(* ================= nothing zeroed ================= *)

Lemma opposing_none_counts (A : cfg) :
  (forall j, ~ In j (opposing_indexes d A)) -> countsA A C = counts C.
Proof.
  intros H. apply countsA_no_zero. intros l Hl.
  destruct (memZ (- l) A) eqn:Em; [|reflexivity]. exfalso.
  destruct (In_nth_error C (Lit l) Hl) as [i Hi].
  apply (H i). apply (opposing_spec C n HQ). now exists l.
Qed.

Lemma Hok' : idx_ok C = true. Proof. exact (Hok C n HQ). Qed.
Lemma Hne' : C <> []. Proof. exact (Hne C n HQ). Qed.

(* a reachable leaf that the query zeroes is still zeroed by the reduced query: its literal is
   live, so the complement is not a core literal *)
Lemma opposing_reduce_reach (A : cfg) (j : nat) :
  Reach C j -> In j (opposing_indexes d A) -> In j (opposing_indexes d (reduce_query d A)).
Proof.
  intros HR. rewrite !(opposing_spec C n HQ). intros [l [Hl Hm]]. exists l. split; [exact Hl|].
  rewrite (reduce_memZ_live C n Hok' Hne'); [exact Hm|].
  destruct (nth_error_node C j (Lit l) Hl) as [Hj Ej].
  exists j. split; [exact Hj|]. split; [|exact Ej]. split; [exact HR|].
  rewrite (counts_unfold C Hok' j Hj), Ej. cbn [count_node]. lia.
Qed.

(* ================= the shape of the temps before the query ================= *)

(* every node that is not a true node and not a zeroed leaf holds its cached count *)
Definition pre_temps (A : cfg) (ts : list Z) : Prop :=
  forall j, (j < length C)%nat -> nth j C FalseN <> TrueN ->
            ~ In j (opposing_indexes d A) -> nth j ts 0 = nth j (counts C) 0.

Definition post_temps (A : cfg) (ts : list Z) : Prop :=
  forall j, (j < length C)%nat -> nth j C FalseN <> TrueN -> Reach C j ->
            nth j ts 0 = nth j (countsA A C) 0.

(* nothing is zeroed by the reduced query: the cached counts are the counts under A on the
   reachable part *)
Lemma untouched_temps (A : cfg) (ts : list Z) :
  (forall j, ~ In j (opposing_indexes d (reduce_query d A))) -> pre_temps A ts -> post_temps A ts.
Proof.
  intros Hno Hpre j Hj Hnt HR.
  rewrite <- (reduce_countsA_reach C n Hok' Hne' A j Hj HR).
  rewrite (opposing_none_counts (reduce_query d A) Hno). apply Hpre; auto.
  intros H. exact (Hno j (opposing_reduce_reach A j HR H)).
Qed.

Lemma reduce_nil : reduce_query d [] = [].
Proof. reflexivity. Qed.

Lemma opposing_single (f : Z) :
  opposing_indexes d [f] = match lit_idx C (- f) with Some i => [i] | None => [] end.
Proof. unfold opposing_indexes. cbn [filter_map circ build]. destruct (lit_idx C (- f)); reflexivity. Qed.

(* ================= dispatch ================= *)

Lemma single_temps (f : Z) (s : scratch) :
  Clean C s -> pre_temps [f] (temps s) ->
  0 < snd (card_of_feature_with_marker d f s) ->
  post_temps [f] (temps (fst (card_of_feature_with_marker d f s))).
Proof.
  intros HC Hpre. unfold card_of_feature_with_marker.
  destruct (has_no_effect d f) eqn:E1.
  - intros _. cbn [fst]. apply untouched_temps; [|exact Hpre].
    intros j. unfold reduce_query. cbn [filter]. rewrite E1. cbn [negb].
    unfold opposing_indexes. cbn [filter_map]. intros [].
  - destruct (makes_unsat d f) eqn:E2; [cbn [snd]; lia|].
    cbn [circ build]. destruct (lit_idx C (- f)) as [i|] eqn:E3.
    + intros _ j Hj Hnt _.
      apply (operate_on_marker_temps [f] [i]); [|exact HC|exact Hj|].
      * intros k. split.
        -- intros [<-|[]]. exists (- f). split; [now apply lit_idx_some|].
           rewrite Z.opp_involutive. cbn. now rewrite Z.eqb_refl.
        -- intros [l [Hl Hm]]. left. cbn in Hm. rewrite orb_false_r in Hm. apply Z.eqb_eq in Hm.
           assert (l = - f) by lia. subst l.
           apply (lit_idx_spec C (- f) k (wfq_unique C n HQ)) in Hl. congruence.
      * intros Hni. apply Hpre; [exact Hj|exact Hnt|]. now rewrite opposing_single, E3.
    + intros _. cbn [fst]. apply untouched_temps; [|exact Hpre].
      intros j Hin.
      assert (Hsub : In j (opposing_indexes d [f])).
      { unfold opposing_indexes in *. rewrite in_filter_map in *. destruct Hin as [x [Hx Hl]].
        exists x. split; [|exact Hl]. unfold reduce_query in Hx. apply filter_In in Hx. apply Hx. }
      rewrite opposing_single, E3 in Hsub. destruct Hsub.
Qed.

Lemma marker_temps (A : cfg) (s : scratch) :
  Clean C s -> pre_temps A (temps s) ->
  0 < snd (operate_on_partial_config_marker d A s) ->
  post_temps A (temps (fst (operate_on_partial_config_marker d A s))).
Proof.
  intros HC Hpre. unfold operate_on_partial_config_marker.
  destruct (query_is_not_sat d A) eqn:EU; [cbn [snd]; lia|].
  cbv zeta. destruct (opposing_indexes d (reduce_query d A)) as [|i0 rest] eqn:EI.
  - intros _. cbn [fst]. apply untouched_temps; [|exact Hpre].
    intros j Hin. rewrite EI in Hin. destruct Hin.
  - rewrite <- EI. intros _ j Hj Hnt HR.
    rewrite <- (reduce_countsA_reach C n Hok' Hne' A j Hj HR).
    apply (operate_on_marker_temps (reduce_query d A) (opposing_indexes d (reduce_query d A))
             (opposing_spec C n HQ (reduce_query d A)) s HC j Hj).
    intros Hni. apply Hpre; [exact Hj|exact Hnt|]. intros H. apply Hni.
    now apply opposing_reduce_reach.
Qed.

Lemma default_temps (A : cfg) (s : scratch) :
  Clean C s ->
  0 < snd (operate_on_partial_config_default d A s) ->
  post_temps A (temps (fst (operate_on_partial_config_default d A s))).
Proof.
  intros HC. unfold operate_on_partial_config_default.
  destruct (query_is_not_sat d A) eqn:EU; [cbn [snd]; lia|].
  cbv zeta. cbn [fst snd]. intros _ j Hj _ HR.
  pose proof (default_loop_spec C n HQ (reduce_query d A) (length C) s (Nat.le_refl _)
                                (cl_temps C s HC)) as H.
  cbv zeta in H. cbn [circ build] in *.
  destruct H as [_ [_ [_ [_ F5]]]]. rewrite (F5 j Hj).
  exact (reduce_countsA_reach C n Hok' Hne' A j Hj HR).
Qed.

Theorem execute_query_temps (A : cfg) (s : scratch) :
  Clean C s -> pre_temps A (temps s) ->
  0 < snd (execute_query d A s) ->
  post_temps A (temps (fst (execute_query d A s))).
Proof.
  intros HC Hpre. unfold execute_query.
  destruct A as [|f [|g A']].
  - intros _. cbn [fst]. apply untouched_temps; [|exact Hpre]. intros j [].
  - now apply single_temps.
  - destruct (Nat.leb _ _); [now apply marker_temps|now apply default_temps].
Qed.

(* ================= preprocess ================= *)

Lemma preprocess_fold (A : cfg) : forall t : list Z,
  fold_left (fun t l => match lit_idx C (- l) with Some x => upd x 0 t | None => t end) A t
  = fold_left (fun t x => upd x 0 t) (opposing_indexes d A) t.
Proof.
  unfold opposing_indexes. cbn [circ build].
  induction A as [|l A IH]; intros t; [reflexivity|].
  cbn [fold_left filter_map]. destruct (lit_idx C (- l)) as [x|]; cbn [fold_left]; apply IH.
Qed.

Lemma true_nodes_spec (j : nat) :
  In j (true_nodes C) -> nth j C FalseN = TrueN.
Proof.
  unfold true_nodes. intros H. apply true_nodes_from_In in H.
  destruct H as (k & -> & _ & Hk). exact Hk.
Qed.

Lemma preprocess_spec (A : cfg) (s s1 : scratch) :
  preprocess d A s = Some s1 ->
  marks s1 = marks s /\ pds s1 = pds s /\ mdl s1 = mdl s /\
  length (temps s1) = length C /\ pre_temps A (temps s1) /\
  (forall l, In l A -> Z.abs l <= Z.of_nat n).
Proof.
  unfold preprocess. cbn [nv circ cnts build].
  destruct (existsb (fun f => Z.of_nat n <? Z.abs f) A) eqn:E; [discriminate|].
  intros H. injection H as <-. cbn [temps marks pds mdl].
  split; [reflexivity|]. split; [reflexivity|]. split; [reflexivity|].
  rewrite preprocess_fold. split; [|split].
  - rewrite !fold_upd_length. unfold counts. apply pass_length.
  - intros j Hj Hnt Hni.
    rewrite fold_upd_nth_notin by (intros H; apply Hnt; now apply true_nodes_spec).
    now rewrite fold_upd_nth_notin.
  - intros l Hl. destruct (Z_le_gt_dec (Z.abs l) (Z.of_nat n)) as [Hle|Hgt]; [exact Hle|].
    exfalso. assert (Ht : existsb (fun f => Z.of_nat n <? Z.abs f) A = true); [|congruence].
    apply existsb_exists. exists l. split; [exact Hl|]. apply Z.ltb_lt. lia.
Qed.

Lemma preprocess_clean (A : cfg) (s s1 : scratch) :
  Clean C s -> preprocess d A s = Some s1 -> Clean C s1.
Proof.
  intros HC Hp. destruct (preprocess_spec A s s1 Hp) as [H1 [H2 [H3 [H4 _]]]].
  constructor; [exact H4|rewrite H1; apply HC|rewrite H2; apply HC|rewrite H1; apply HC|
                rewrite H3; apply HC].
Qed.

Lemma pre_temps_same (A A' : cfg) (ts : list Z) :
  (forall l, In l A <-> In l A') -> pre_temps A ts -> pre_temps A' ts.
Proof.
  intros HAA Hpre j Hj Hnt Hni. apply Hpre; [exact Hj|exact Hnt|].
  intros H. apply Hni. unfold opposing_indexes in *. rewrite in_filter_map in *.
  destruct H as [x [Hx Hl]]. exists x. split; [now apply HAA|exact Hl].
Qed.

(* preprocess on A followed by execute_query on a list A' with the same literals
   (the same list for sampling, the abs-sorted list for enumeration) *)
Theorem preprocess_execute (A A' : cfg) (s s1 : scratch) :
  in_range n A' -> (forall l, In l A <-> In l A') ->
  Clean C s -> preprocess d A s = Some s1 ->
  snd (execute_query d A' s1) = MCA C n A' /\
  Clean C (fst (execute_query d A' s1)) /\
  (0 < snd (execute_query d A' s1) -> post_temps A' (temps (fst (execute_query d A' s1)))).
Proof.
  intros HA HAA HC Hp.
  pose proof (preprocess_clean A s s1 HC Hp) as HC1.
  destruct (preprocess_spec A s s1 Hp) as [_ [_ [_ [_ [Hpre _]]]]].
  pose proof (execute_query_correct C n A' s1 HQ HA HC1) as Hex.
  destruct (execute_query d A' s1) as [s2 r] eqn:Eq. destruct Hex as [Hr Hcl].
  cbn [fst snd]. split; [exact Hr|]. split; [exact Hcl|].
  intros Hpos. pose proof (execute_query_temps A' s1 HC1 (pre_temps_same A A' _ HAA Hpre)) as H.
  rewrite Eq in H. cbn [fst snd] in H. now apply H.
Qed.

End Temps.
