(* C20: calc_top_k_configs (repaired bound) returns the k best models containing the assumptions,
   for every tie-breaking policy of the heap. *)
From Coq Require Import List ZArith Bool Lia Permutation.
From DD Require Import Model.Circuit Model.Optimal Proofs.PassLemmas Proofs.Enum Proofs.Semantics
  Proofs.TopK Proofs.OptimalBridge Proofs.OptimalOr Proofs.OptimalTuples Proofs.OptimalAnd.
Import ListNotations.
Open Scope Z_scope.

Notation oDom := (Dom (@snd cfg Z)).

Lemma oTopK_desc k Q R : oTopK k Q R -> odesc R.
Proof. now intros (_ & H & _). Qed.

Lemma all_done_spec {A} (P : nat -> A -> Prop) (acc : list (outcome A)) (cs : list nat) :
  (forall c, In c cs -> exists R, nth c acc Panic = Done R /\ P c R) ->
  exists Rs, all_done (map (fun c => nth c acc Panic) cs) = Some Rs /\ Forall2 P cs Rs.
Proof.
  induction cs as [|c cs IH]; intros H; [exists []; split; [reflexivity|constructor]|].
  destruct (H c (or_introl eq_refl)) as (R & HR & HP).
  destruct (IH (fun c' Hc' => H c' (or_intror Hc'))) as (Rs & HRs & HF).
  exists (R :: Rs). split; [|now constructor]. cbn. now rewrite HR, HRs.
Qed.

Lemma Forall2_map_l {A B D} (P : D -> B -> Prop) (f : A -> D) l l' :
  Forall2 (fun a b => P (f a) b) l l' -> Forall2 P (map f l) l'.
Proof. induction 1; cbn; constructor; auto. Qed.

Lemma Forall2_impl {A B} (P Q : A -> B -> Prop) l l' :
  (forall a b, P a b -> Q a b) -> Forall2 P l l' -> Forall2 Q l l'.
Proof. intros H. induction 1; constructor; auto. Qed.

Lemma Forall2_Forall_r {A B} (P : A -> B -> Prop) (Q : B -> Prop) l l' :
  (forall a b, P a b -> Q b) -> Forall2 P l l' -> Forall Q l'.
Proof. intros H. induction 1; constructor; eauto. Qed.

Section Nodes.
Variables (umax : Z) (pick : picker) (vals : list Z) (A : cfg) (k : nat) (C : circuit).
Hypothesis Hu : 1 <= umax.
Hypothesis Hk1 : (1 <= k)%nat.
Hypothesis Hk : Z.of_nat k <= umax.
Hypothesis Hok : idx_ok C = true.

Let tks := topks (bound_sat umax) pick vals A k C.
Let QE (i : nat) : list oc := map (tag vals) (EA A C i).

Lemma topk_node_local : local (topk_node (bound_sat umax) pick vals A k) Panic.
Proof.
  intros acc acc' [l|cs|cs| |] H; cbn [topk_node children] in *; try reflexivity;
    now rewrite (map_nth_ext acc acc').
Qed.

Lemma topks_unfold i : (i < length C)%nat ->
  nth i tks Panic = topk_node (bound_sat umax) pick vals A k tks (nth i C FalseN).
Proof. intros Hi. apply (pass_unfold _ Panic Panic C i topk_node_local Hok Hi). Qed.

Theorem topk_nodes : forall i, (i < length C)%nat ->
  exists R, nth i tks Panic = Done R /\ oTopK k (QE i) R.
Proof.
  apply (idx_induction C (fun i => exists R, nth i tks Panic = Done R /\ oTopK k (QE i) R) Hok).
  intros i Hi IH. rewrite (topks_unfold i Hi). unfold QE at 1. rewrite (EA_unfold A C i Hok Hi).
  destruct (nth i C FalseN) as [l|cs|cs| |]; cbn [topk_node children] in *.
  - destruct (memZ (- l) A).
    + exists []. split; [reflexivity|apply TopK_nil].
    + exists [tag vals [l]]. split; [reflexivity|]. now apply TopK_single.
  - destruct (all_done_spec (fun c R => oTopK k (QE c) R) tks cs IH) as (Rs & HRs & HF).
    rewrite HRs.
    assert (Hdesc : Forall odesc Rs) by (eapply Forall2_Forall_r; [|exact HF]; intros a b; apply oTopK_desc).
    destruct (merge_and_correct umax pick k Rs Hu Hk Hdesc) as (R & HR & HT).
    exists R. split.
    + unfold merge_and in *. destruct (existsb (fun L => Nat.eqb (length L) 0) Rs); exact HR.
    + rewrite map_tag_prod, map_rev, map_map. fold QE.
      eapply Dom_TopK; [exact HT|]. apply Dom_nprod; [apply snd_uni|exact Hk1|].
      apply Forall2_rev_both. apply Forall2_map_l.
      eapply Forall2_impl; [|exact HF]. intros c Rc. apply TopK_Dom.
  - destruct (all_done_spec (fun c R => oTopK k (QE c) R) tks cs IH) as (Rs & HRs & HF).
    rewrite HRs.
    assert (Hdesc : Forall odesc Rs) by (eapply Forall2_Forall_r; [|exact HF]; intros a b; apply oTopK_desc).
    destruct (merge_or_correct k Rs Hdesc) as (R & HR & HT).
    exists R. split; [exact HR|].
    rewrite concat_map, map_map. fold QE.
    eapply Dom_TopK; [exact HT|]. apply Dom_concat. apply Forall2_map_l.
    eapply Forall2_impl; [|exact HF]. intros c Rc. apply TopK_Dom.
  - exists [oc_empty]. split; [reflexivity|]. now apply TopK_single.
  - exists []. split; [reflexivity|apply TopK_nil].
Qed.

Lemma topks_no_panic : existsb is_panic tks = false.
Proof.
  destruct (existsb is_panic tks) eqn:E; [|reflexivity]. exfalso.
  apply existsb_exists in E. destruct E as (x & Hx & Hp).
  destruct (In_nth _ _ Panic Hx) as (i & Hi & Hn).
  unfold tks, topks in Hi. rewrite pass_length in Hi.
  destruct (topk_nodes i Hi) as (R & HR & _). rewrite HR in Hn. subst x. cbn in Hp. discriminate.
Qed.

Theorem topk_root : C <> [] ->
  exists R, calc_top_k_gen (bound_sat umax) pick vals A k C = Done R /\ oTopK k (QE (root C)) R.
Proof.
  intros Hne. unfold calc_top_k_gen. fold tks. rewrite topks_no_panic.
  destruct (topk_nodes (root C) (root_lt C Hne)) as (R & HR & HT). exists R. split; [|exact HT].
  rewrite <- HR. unfold root. rewrite last_nth. unfold tks, topks. now rewrite pass_length.
Qed.

End Nodes.

(* ---------- the statement about the truth table ---------- *)

Definition cfg_of (n : nat) (r : oc) : cfg := canon_cfg n (fst r).

Theorem topk_correct (pick : picker) (vals : list Z) (C : circuit) (n : nat) (A : cfg) (k : nat) :
  WF C n -> in_range n A -> (1 <= k)%nat -> Z.of_nat k <= usize_max ->
  exists R, calc_top_k_configs pick vals A k C = Done R
    /\ length R = Nat.min k (Z.to_nat (MCA C n A))
    /\ NoDup (map (cfg_of n) R)
    /\ (forall r, In r R -> In (cfg_of n r) (ModelsA C n A) /\ snd r = cval vals (cfg_of n r))
    /\ (forall i j, (i <= j < length R)%nat -> snd (nth j R oc_empty) <= snd (nth i R oc_empty))
    /\ (forall m, In m (ModelsA C n A) -> ~ In m (map (cfg_of n) R) ->
                  forall r, In r R -> cval vals m <= snd r).
Proof.
  intros HWF HA Hk1 Hk.
  assert (Hu : 1 <= usize_max) by (unfold usize_max; lia).
  destruct (topk_root usize_max pick vals A k C Hu Hk1 Hk (wf_idx C n HWF) (wf_nonempty C n HWF))
    as (R & HR & Hlen & Hdesc & rest & Hperm & Hrest).
  exists R. split; [exact HR|].
  set (E := EA A C (root C)) in *.
  assert (Htag : forall x, In x (R ++ rest) -> exists c, In c E /\ x = tag vals c).
  { intros x Hx. apply (Permutation_in _ Hperm) in Hx. apply in_map_iff in Hx.
    destruct Hx as (c & <- & Hc). now exists c. }
  assert (Hcanon : Permutation (map (cfg_of n) (R ++ rest)) (ModelsA C n A)).
  { rewrite <- (EA_root_models C n A HWF HA). fold E.
    rewrite (Permutation_map (cfg_of n) Hperm), map_map. apply Permutation_refl. }
  split; [|split; [|split; [|split]]].
  - rewrite Hlen, map_length. rewrite (MCA_length C n A HWF HA). fold E. lia.
  - apply (NoDup_app_l _ (map (cfg_of n) rest)). rewrite <- map_app.
    apply (Permutation_NoDup (Permutation_sym Hcanon)). apply ModelsA_NoDup.
  - intros r Hr. destruct (Htag r) as (c & Hc & ->); [apply in_app_iff; now left|].
    unfold cfg_of, tag. cbn [fst snd]. split.
    + apply (Permutation_in _ (EA_root_models C n A HWF HA)). now apply in_map.
    + symmetry. now apply (EA_root_cval C n A HWF).
  - intros i j Hij. apply desc_nth_mono; [exact Hdesc|lia|lia].
  - intros m Hm Hnot r Hr.
    apply (Permutation_in _ (Permutation_sym Hcanon)) in Hm. rewrite map_app in Hm.
    apply in_app_iff in Hm. destruct Hm as [Hm|Hm]; [contradiction|].
    apply in_map_iff in Hm. destruct Hm as (x & <- & Hx).
    destruct (Htag x) as (c & Hc & ->); [apply in_app_iff; now right|].
    specialize (Hrest _ r Hx Hr). unfold cfg_of, tag in *. cbn [fst snd] in *.
    now rewrite (EA_root_cval C n A HWF vals c Hc).
Qed.
