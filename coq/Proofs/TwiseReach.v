(* C09 pipeline: the bottom-up pass (Proofs/TwisePass.v) for node invariants that can only be
   established at REACHABLE nodes (Proofs/Live.v).
   The sampler computes a partial sample for every node of the vector, also inside dead branches.
   Its cached SAT calls go through the core shortcut of sat_propagate, which is relative to the ROOT
   and - since the core ignores dead branches (F22) - may answer "unsatisfiable" for a literal
   that is live only inside a dead branch.  So the node invariant NI0 (valid samples, t-wise
   coverage) is claimed for reachable nodes only; for every node, reachable or not, the result is
   Void exactly when the count is zero (structural: no SAT call is involved).  A reachable node
   with a positive count has reachable children only, and a dead branch always ends in a Void
   result below an And node or among the children of an Or node, so nothing computed inside a dead
   branch reaches the root. *)
From Coq Require Import List ZArith Bool Arith Lia Permutation.
From DD Require Import Model.Circuit Model.Query Model.TwiseCfg Model.TwiseMerge Model.TwisePipeline
  Proofs.PassLemmas Proofs.Enum Proofs.Semantics Proofs.CountsA Proofs.QueryDefs Proofs.Live Proofs.C03Proof
  Proofs.TwiseBase Proofs.TwiseSem Proofs.TwiseNode Proofs.TwisePass.
Import ListNotations.
Open Scope Z_scope.

Section PassReach.
Variables (C : circuit) (n : nat).
Hypothesis HQ : WFQ C n.
Let d := build C n.
Let Hok : idx_ok C = true := wf_idx C n (wfq_wf C n HQ).

Variable NI0 : nat -> sres -> Prop.
Variable psample : nat -> list (option sres) -> option (sres * list (option sres)).
Variables andres orres : nat -> list sres -> sres.

Hypothesis Hps : forall i ps, psample i ps =
  match nth i C FalseN with
  | Lit l => Some (WithSample (s_from_literal n l), ps)
  | And cs =>
    match lookup ps cs with
    | None => None
    | Some rs => option_map (fun ps' => (andres i rs, ps')) (remove_unneeded d i cs ps)
    end
  | Or cs =>
    match lookup ps cs with
    | None => None
    | Some rs => option_map (fun ps' => (orres i rs, ps')) (remove_unneeded d i cs ps)
    end
  | TrueN => Some (Empty, ps)
  | FalseN => Some (Void, ps)
  end.

(* the results are Void exactly as the mergers' short-circuit says *)
Hypothesis Hand_void : forall i rs, is_void (andres i rs) = existsb is_void rs.
Hypothesis Hor_void : forall i rs, is_void (orres i rs) = forallb is_void rs.
(* NI0 at a Void result only says that the count is zero *)
Hypothesis Hvoid0 : forall i, cnt C i = 0 -> NI0 i Void.
(* the node cases, at reachable nodes *)
Hypothesis Hlit0 : forall i l, (i < length C)%nat -> Reach C i -> nth i C FalseN = Lit l ->
  NI0 i (WithSample (s_from_literal n l)).
Hypothesis Hand0 : forall i cs rs, (i < length C)%nat -> Reach C i -> nth i C FalseN = And cs ->
  Forall2 NI0 cs rs -> NI0 i (andres i rs).
Hypothesis Hor0 : forall i cs rs, (i < length C)%nat -> Reach C i -> nth i C FalseN = Or cs ->
  Forall2 NI0 cs rs -> NI0 i (orres i rs).
Hypothesis Htrue0 : forall i, (i < length C)%nat -> Reach C i -> nth i C FalseN = TrueN -> NI0 i Empty.

Definition NIR (i : nat) (r : sres) : Prop :=
  (is_void r = true <-> cnt C i = 0) /\ (Reach C i -> NI0 i r).

Lemma cnt_unfold i : (i < length C)%nat -> cnt C i = count_node (counts C) (nth i C FalseN).
Proof. intros Hi. unfold cnt. apply (counts_unfold C Hok i Hi). Qed.

Lemma cnt_nn i : 0 <= cnt C i.
Proof. unfold cnt. rewrite <- enum_count_nth. lia. Qed.

Lemma void_exists cs rs : Forall2 NIR cs rs ->
  (existsb is_void rs = true <-> exists c, In c cs /\ cnt C c = 0).
Proof.
  induction 1 as [|c r cs rs [Hv _] HF IH]; cbn [existsb].
  - split; [discriminate|intros [c [[] _]]].
  - rewrite orb_true_iff, IH, Hv. split.
    + intros [H|[c0 [H1 H2]]]; [exists c; split; [now left|exact H]|exists c0; split; [now right|exact H2]].
    + intros [c0 [[<-|H1] H2]]; [now left|right; now exists c0].
Qed.

Lemma void_forall cs rs : Forall2 NIR cs rs ->
  (forallb is_void rs = true <-> forall c, In c cs -> cnt C c = 0).
Proof.
  induction 1 as [|c r cs rs [Hv _] HF IH]; cbn [forallb].
  - split; [intros _ c []|reflexivity].
  - rewrite andb_true_iff, IH, Hv. split.
    + intros [H1 H2] c0 [<-|Hc0]; [exact H1|now apply H2].
    + intros H. split; [apply H; now left|intros c0 Hc0; apply H; now right].
Qed.

Lemma NIR_NI0 i cs rs : (i < length C)%nat -> Reach C i -> cnt C i <> 0 ->
  children (nth i C FalseN) = cs -> Forall2 NIR cs rs -> Forall2 NI0 cs rs.
Proof.
  intros Hi HR Hnz Hcs HF.
  assert (Hall : forall c, In c cs -> Reach C c).
  { intros c Hc. apply (reach_child C i c HR Hi); [exact Hnz|now rewrite Hcs]. }
  clear Hcs. induction HF as [|c r cs rs [_ Hr] HF IH]; constructor.
  - apply Hr. apply Hall. now left.
  - apply IH. intros c0 Hc0. apply Hall. now right.
Qed.

Theorem pass_root_reach : exists ps res,
  fold_left (gstep psample) (seq 0 (length C)) (Some (map (fun _ => None) C)) = Some ps /\
  nth (root C) ps None = Some res /\ NI0 (root C) res.
Proof.
  destruct (pass_root C n HQ NIR psample andres orres Hps) as [ps [res [H1 [H2 [_ H3]]]]].
  - (* Lit *)
    intros i l Hi E. split.
    + cbn [is_void]. rewrite (cnt_unfold i Hi), E. cbn [count_node]. split; [discriminate|lia].
    + intros HR. now apply (Hlit0 i l).
  - (* And *)
    intros i cs rs Hi E HF. split.
    + rewrite Hand_void, (void_exists cs rs HF), (cnt_and C n HQ i cs Hi E), zprod_zero, in_map_iff.
      split; intros [c [Hc1 Hc2]]; exists c; tauto.
    + intros HR. destruct (Z.eq_dec (cnt C i) 0) as [Hz|Hnz].
      * assert (Ev : is_void (andres i rs) = true).
        { rewrite Hand_void, (void_exists cs rs HF). rewrite (cnt_and C n HQ i cs Hi E), zprod_zero, in_map_iff in Hz.
          destruct Hz as [c [Hc1 Hc2]]. exists c. tauto. }
        destruct (andres i rs); try discriminate. now apply Hvoid0.
      * apply (Hand0 i cs rs Hi HR E). apply (NIR_NI0 i cs rs Hi HR Hnz); [now rewrite E|exact HF].
  - (* Or *)
    intros i cs rs Hi E HF.
    assert (Hnn : forall x, In x (map (cnt C) cs) -> 0 <= x).
    { intros x Hx. apply in_map_iff in Hx. destruct Hx as [c [<- _]]. apply cnt_nn. }
    assert (Hiff : is_void (orres i rs) = true <-> cnt C i = 0).
    { rewrite Hor_void, (void_forall cs rs HF), (cnt_or C n HQ i cs Hi E), (zsum_zero _ Hnn). split.
      - intros H x Hx. apply in_map_iff in Hx. destruct Hx as [c [<- Hc]]. now apply H.
      - intros H c Hc. apply H. now apply in_map. }
    split; [exact Hiff|].
    intros HR. destruct (Z.eq_dec (cnt C i) 0) as [Hz|Hnz].
    + apply Hiff in Hz. destruct (orres i rs); try discriminate. apply Hvoid0. now apply Hiff.
    + apply (Hor0 i cs rs Hi HR E). apply (NIR_NI0 i cs rs Hi HR Hnz); [now rewrite E|exact HF].
  - (* True *)
    intros i Hi E. split.
    + cbn [is_void]. rewrite (cnt_unfold i Hi), E. cbn [count_node]. split; [discriminate|lia].
    + intros HR. now apply Htrue0.
  - (* False *)
    intros i Hi E.
    assert (Hz : cnt C i = 0) by (rewrite (cnt_unfold i Hi), E; reflexivity).
    split; [cbn [is_void]; tauto|]. intros _. now apply Hvoid0.
  - exists ps, res. split; [exact H1|]. split; [exact H2|]. apply H3. apply reach_root.
Qed.

End PassReach.
