(* C07 (6), part 4: a concrete ideal split law for every circuit.  multi_split is the law of the
   counts of m independent categorical draws with probabilities temp_c / temp_node (what m draws of
   WeightedAliasIndex realise; for two live children the count of the first is Binomial(m, w0/(w0+w1))).
   It satisfies split_ideal, hence the hypothesis splits_ideal of the uniformity theorems is
   satisfiable on every circuit and the theorems can be stated without it for this law. *)
From Coq Require Import List ZArith QArith Bool Lia Permutation.
From DD Require Import Model.Circuit Model.Query Model.Enumerate
     Proofs.PassLemmas Proofs.Enum Proofs.Semantics Proofs.CountsA Proofs.Live Proofs.LiveCounts
     Proofs.C07Defs Proofs.C07Valid Proofs.C07Urs Proofs.C07IdealDefs Proofs.C07Uniform Proofs.C07Align
     Proofs.QueryDefs Proofs.ExecTemps Proofs.C07Final
     Proofs.C07GeneralDefs Proofs.C07GeneralDist Proofs.C07GeneralAlign Proofs.C07GeneralUniform Proofs.C07GeneralFinal.
Import ListNotations.
Open Scope Z_scope.

(* ---------- split_ok, componentwise ---------- *)

Lemma split_ok_intro ts cs v a :
  length v = length cs -> Forall (fun x => 0 <= x) v -> zsum v = a ->
  Forall (fun cx => nth (fst cx) ts 0 = 0 -> snd cx = 0) (combine cs v) ->
  split_ok ts cs v a = true.
Proof.
  intros H1 H2 H3 H4. unfold split_ok. repeat (apply andb_true_iff; split).
  - now apply Nat.eqb_eq.
  - apply forallb_forall. intros x Hx. rewrite Forall_forall in H2. apply Z.leb_le. now apply H2.
  - now apply Z.eqb_eq.
  - apply forallb_forall. intros cx Hcx. rewrite Forall_forall in H4. specialize (H4 cx Hcx).
    destruct (nth (fst cx) ts 0 =? 0) eqn:Et; [|reflexivity].
    apply Z.eqb_eq in Et. cbn [negb orb]. apply Z.eqb_eq. now apply H4.
Qed.

Lemma vadd_length u : forall v, length u = length v -> length (vadd u v) = length u.
Proof.
  induction u as [|x u IH]; intros [|y v] H; try discriminate; [reflexivity|].
  cbn [vadd length]. f_equal. apply IH. now injection H.
Qed.

Lemma nth_vadd u : forall v k, length u = length v -> nth k (vadd u v) 0 = nth k u 0 + nth k v 0.
Proof.
  induction u as [|x u IH]; intros [|y v] k H; try discriminate.
  - destruct k; reflexivity.
  - destruct k as [|k]; [reflexivity|]. cbn [vadd nth]. apply IH. now injection H.
Qed.

Lemma zsum_vadd u : forall v, length u = length v -> zsum (vadd u v) = zsum u + zsum v.
Proof.
  induction u as [|x u IH]; intros [|y v] H; try discriminate; [reflexivity|].
  cbn [vadd]. rewrite !zsum_cons, IH by now injection H. lia.
Qed.

Lemma split_ok_vadd ts cs u v a b :
  split_ok ts cs u a = true -> split_ok ts cs v b = true -> split_ok ts cs (vadd u v) (a + b) = true.
Proof.
  intros Hu Hv.
  destruct (split_ok_spec ts cs u a Hu) as [Hu1 [Hu2 [Hu3 Hu4]]].
  destruct (split_ok_spec ts cs v b Hv) as [Hv1 [Hv2 [Hv3 Hv4]]].
  assert (Hl : length u = length v) by congruence.
  apply split_ok_intro.
  - rewrite vadd_length; assumption.
  - clear -Hu2 Hv2 Hl. revert v Hv2 Hl. induction Hu2 as [|x u Hx Hu IH]; intros [|y v] Hv2 Hl; try discriminate.
    + constructor.
    + inversion Hv2; subst. cbn [vadd]. constructor; [lia|]. apply IH; [assumption|now injection Hl].
  - rewrite zsum_vadd by exact Hl. lia.
  - clear -Hu4 Hv4 Hl Hu1. revert u v Hu4 Hv4 Hl Hu1.
    induction cs as [|c cs IH]; intros u v Hu4 Hv4 Hl Hu1; [constructor|].
    destruct u as [|x u]; [discriminate|]. destruct v as [|y v]; [discriminate|].
    cbn [combine vadd] in *. inversion Hu4; subst. inversion Hv4; subst. constructor.
    + cbn [fst snd] in *. intros Ht. rewrite H1, H3 by exact Ht. reflexivity.
    + apply IH; try assumption; [now injection Hl|now injection Hu1].
Qed.

Lemma split_ok_zeros ts cs : split_ok ts cs (repeat_n 0 (length cs)) 0 = true.
Proof.
  unfold split_ok. repeat (apply andb_true_iff; split).
  - apply Nat.eqb_eq. apply repeat_n_length.
  - now apply forallb_zeros.
  - apply Z.eqb_eq. apply zsum_zeros.
  - apply forallb_combine_zeros.
Qed.

(* ---------- one categorical draw ---------- *)

Section Cat.
Variables (ts : list Z) (ti : Z).
Hypothesis Hti : ti <> 0.

Notation t c := (nth c ts 0%Z).

Lemma in_cat_draw u w (cs : list nat) : forall pre, In (u, w) (cat_draw ts ti pre cs) ->
  exists cs1 c cs2, cs = cs1 ++ c :: cs2 /\ t c <> 0 /\
    u = unit_split (pre + length cs1) (length cs2) /\ w = (inject_Z (t c) / inject_Z ti)%Q.
Proof.
  induction cs as [|c cs IH]; intros pre H; [destruct H|].
  cbn [cat_draw] in H. apply in_app_or in H. destruct H as [H|H].
  - destruct (t c =? 0) eqn:Et; [destruct H|]. apply Z.eqb_neq in Et.
    destruct H as [H|[]]. injection H as <- <-.
    exists [], c, cs. cbn [length app]. rewrite Nat.add_0_r. repeat split; assumption.
  - destruct (IH (S pre) H) as [cs1 [c1 [cs2 [-> [Ht [Hu Hw]]]]]].
    exists (c :: cs1), c1, cs2. cbn [length app].
    replace (pre + S (length cs1))%nat with (S pre + length cs1)%nat by lia. repeat split; assumption.
Qed.

Lemma total_cat_draw (cs : list nat) : forall pre,
  (total (cat_draw ts ti pre cs) == inject_Z (zsum (map (fun c => t c) cs)) / inject_Z ti)%Q.
Proof.
  induction cs as [|c cs IH]; intros pre.
  - cbn [cat_draw map]. unfold total. rewrite expect_nil. change (zsum []) with 0. field.
    now apply inject_Z_nonzero.
  - cbn [cat_draw map]. unfold total in *. rewrite expect_app, IH, zsum_cons, inject_Z_plus.
    destruct (t c =? 0) eqn:Et.
    + apply Z.eqb_eq in Et. rewrite Et, expect_nil. field. now apply inject_Z_nonzero.
    + rewrite expect_cons, expect_nil. field. now apply inject_Z_nonzero.
Qed.

Lemma expect_cat_draw k (cs : list nat) : forall pre,
  (expect (cat_draw ts ti pre cs) (fun u => inject_Z (nth k u 0%Z))
   == if (pre <=? k)%nat && (k <? pre + length cs)%nat
      then inject_Z (t (nth (k - pre) cs 0%nat)) / inject_Z ti else 0)%Q.
Proof.
  induction cs as [|c cs IH]; intros pre.
  - cbn [cat_draw length]. rewrite expect_nil. rewrite Nat.add_0_r.
    destruct (pre <=? k)%nat eqn:E1; destruct (k <? pre)%nat eqn:E2; cbn [andb]; try reflexivity.
    apply Nat.leb_le in E1. apply Nat.ltb_lt in E2. lia.
  - cbn [cat_draw length]. rewrite expect_app, IH.
    assert (Hhead : (expect (if t c =? 0 then []
                             else [(unit_split pre (length cs), inject_Z (t c) / inject_Z ti)])
                            (fun u => inject_Z (nth k u 0%Z))
                     == if Nat.eqb k pre then inject_Z (t c) / inject_Z ti else 0)%Q).
    { destruct (t c =? 0) eqn:Et.
      - apply Z.eqb_eq in Et. rewrite Et, expect_nil. destruct (Nat.eqb k pre); [|reflexivity].
        field. now apply inject_Z_nonzero.
      - rewrite expect_cons, expect_nil, nth_unit_split. destruct (Nat.eqb k pre); ring. }
    rewrite Hhead.
    destruct (Nat.eqb k pre) eqn:Ek.
    + apply Nat.eqb_eq in Ek. subst k.
      replace (S pre <=? pre)%nat with false by (symmetry; apply Nat.leb_gt; lia).
      rewrite Nat.leb_refl. replace (pre <? pre + S (length cs))%nat with true
        by (symmetry; apply Nat.ltb_lt; lia).
      cbn [andb]. rewrite Nat.sub_diag. cbn [nth]. ring.
    + apply Nat.eqb_neq in Ek.
      destruct (pre <=? k)%nat eqn:E1.
      * apply Nat.leb_le in E1.
        replace (S pre <=? k)%nat with true by (symmetry; apply Nat.leb_le; lia).
        replace (pre + S (length cs))%nat with (S pre + length cs)%nat by lia.
        destruct (k <? S pre + length cs)%nat; cbn [andb]; [|ring].
        replace (k - pre)%nat with (S (k - S pre)) by lia. cbn [nth]. ring.
      * apply Nat.leb_gt in E1.
        replace (S pre <=? k)%nat with false by (symmetry; apply Nat.leb_gt; lia).
        cbn [andb]. ring.
Qed.

(* ---------- m independent draws ---------- *)

Variable cs : list nat.
Hypothesis Hsum : zsum (map (fun c => t c) cs) = ti.
Hypothesis Hnn : forall c, In c cs -> 0 <= t c.

Lemma ti_pos : 0 < ti.
Proof.
  assert (0 <= ti); [|lia]. rewrite <- Hsum. apply zsum_nonneg. intros x Hx.
  apply in_map_iff in Hx. destruct Hx as [c [<- Hc]]. now apply Hnn.
Qed.

Lemma cat_draw_support u w : In (u, w) (cat_draw ts ti 0 cs) ->
  (0 <= w)%Q /\ split_ok ts cs u 1 = true.
Proof.
  intros H. destruct (in_cat_draw u w cs 0 H) as [cs1 [c [cs2 [Ecs [Ht [-> ->]]]]]].
  cbn [Nat.add]. split.
  - assert (Hc : 0 <= t c) by (apply Hnn; rewrite Ecs; apply in_app_iff; right; now left).
    pose proof ti_pos as Hp. apply Qle_shift_div_l.
    + unfold Qlt, inject_Z. cbn. lia.
    + rewrite Qmult_0_l. unfold Qle, inject_Z. cbn. lia.
  - rewrite Ecs. now apply split_ok_unit.
Qed.

Lemma multi_split_ideal m : split_ideal ts cs ti (Z.of_nat m) (multi_split ts ti cs m).
Proof.
  induction m as [|m [IHs [IHt IHe]]].
  - cbn [multi_split]. split; [|split].
    + intros v w H. apply in_dret in H. destruct H as [-> ->]. split; [discriminate|].
      apply split_ok_zeros.
    + apply total_ret.
    + intros k Hk Hl. rewrite expect_ret.
      rewrite nth_repeat_n.
      cbn. field. now apply inject_Z_nonzero.
  - cbn [multi_split]. split; [|split].
    + intros v w H. apply in_dbind in H. destruct H as [u [w1 [w2 [Hu [H ->]]]]].
      apply in_dbind in H. destruct H as [v' [w3 [w4 [Hv' [H ->]]]]].
      apply in_dret in H. destruct H as [-> ->].
      destruct (cat_draw_support u w1 Hu) as [Hw1 Hsu]. destruct (IHs v' w3 Hv') as [Hw3 Hsv].
      split.
      * apply Qmult_le_0_compat; [exact Hw1|]. apply Qmult_le_0_compat; [exact Hw3|discriminate].
      * rewrite Nat2Z.inj_succ. replace (Z.succ (Z.of_nat m)) with (1 + Z.of_nat m) by lia.
        now apply split_ok_vadd.
    + rewrite total_bind.
      * rewrite total_cat_draw, Hsum. field. now apply inject_Z_nonzero.
      * intros u w _. rewrite total_bind; [exact IHt|]. intros v w' _. apply total_ret.
    + intros k Hk Hl. rewrite expect_bind.
      rewrite (expect_ext _ _ (fun u => inject_Z (nth k u 0%Z)
                                        + inject_Z (Z.of_nat m) * inject_Z (t (nth k cs 0%nat)) / inject_Z ti)%Q).
      * rewrite expect_plus, expect_const, expect_cat_draw, total_cat_draw, Hsum.
        cbn [Nat.leb andb Nat.add]. replace (k <? length cs)%nat with true by (symmetry; now apply Nat.ltb_lt).
        rewrite Nat.sub_0_r. rewrite Nat2Z.inj_succ. unfold Z.succ. rewrite inject_Z_plus.
        field. now apply inject_Z_nonzero.
      * intros u w Hu. destruct (cat_draw_support u w Hu) as [_ Hsu].
        destruct (split_ok_spec ts cs u 1 Hsu) as [Hlu _].
        rewrite expect_bind.
        rewrite (expect_ext _ _ (fun v => inject_Z (nth k u 0%Z) + inject_Z (nth k v 0%Z))%Q).
        -- rewrite expect_plus, expect_const, IHt, (IHe k Hk Hl). ring.
        -- intros v w' Hv. rewrite expect_ret. destruct (IHs v w' Hv) as [_ Hsv].
           destruct (split_ok_spec ts cs v _ Hsv) as [Hlv _].
           rewrite nth_vadd by congruence. rewrite inject_Z_plus. reflexivity.
Qed.

End Cat.

(* ---------- on every circuit ---------- *)

Theorem SL_multi_ideal (C : circuit) (A : cfg) (ts : list Z) :
  idx_ok C = true -> temps_ok A C ts ->
  (forall i cs c, (i < length C)%nat -> nth i C FalseN = Or cs -> In c cs -> nth c C FalseN <> TrueN) ->
  splits_ideal C ts (SL_multi C ts).
Proof.
  intros Hok Hts Hnt i cs a Hi E Ha Hti HR. unfold SL_multi. rewrite E.
  pose proof (idx_ok_nth C i FalseN Hok Hi) as Hch. rewrite E in Hch. cbn [children] in Hch.
  assert (Htie : nth i ts 0 = nth i (countsA A C) 0) by (apply Hts; [exact Hi|congruence|exact HR]).
  assert (Hc : forall c, In c cs -> nth c ts 0 = nth c (countsA A C) 0).
  { intros c Hc. apply Hts; [specialize (Hch c Hc); lia|exact (Hnt i cs c Hi E Hc)|].
    apply (reach_child C i c HR Hi); [|now rewrite E].
    apply (count_of_countsA_nonzero C Hok A i Hi). now rewrite <- Htie. }
  rewrite <- (Z2Nat.id a) at 1 by lia.
  apply multi_split_ideal; [exact Hti| |].
  - rewrite Htie, (countsA_unfold A C i 0 Hok Hi), E. cbn [countA_node].
    f_equal. apply map_ext_in. exact Hc.
  - intros c Hc'. rewrite (Hc c Hc'). apply (countsA_bounds A C Hok). specialize (Hch c Hc'). lia.
Qed.

(* the temps uniform_random_sampling hands to sample_node are the counts under A *)
Lemma urs_temps_ok C n A s :
  WFQ C n -> in_range n A -> Clean C s -> 0 < MCA C n A ->
  temps_ok A C (urs_temps (build C n) A s).
Proof.
  intros HQ HA Hcl Hsat. pose proof (exec_ok_holds C n A s HQ HA Hcl Hsat) as Hexec.
  unfold urs_temps. destruct (preprocess (build C n) A s) as [s1|] eqn:Ep.
  - now destruct (Hexec s1 Ep).
  - exfalso. apply (in_range_not_out n A HA). now apply (preprocess_none C n A s).
Qed.

(* the final form for the multinomial law: no hypothesis on the split law is left *)
Theorem urs_uniform_marginal_multi C n A s :
  WFQ C n -> (0 < n)%nat -> in_range n A -> Clean C s ->
  (forall i cs c, (i < length C)%nat -> nth i C FalseN = Or cs -> In c cs -> nth c C FalseN <> TrueN) ->
  0 < MCA C n A ->
  forall k, 1 <= k ->
  let SL := SL_multi C (urs_temps (build C n) A s) in
  (total (urs_stream_law (build C n) A SL k s) == 1)%Q /\
  (forall chs w, In (chs, w) (urs_stream_law (build C n) A SL k s) ->
     (0 <= w)%Q /\
     urs_choices_okb (build C n) A k chs s = true /\
     snd (uniform_random_sampling (build C n) A k chs s) = true /\
     exists L, snd (fst (uniform_random_sampling (build C n) A k chs s)) = Some L /\
               length L = Z.to_nat k) /\
  forall j, (j < Z.to_nat k)%nat -> forall m,
    (In m (ModelsA C n A) ->
     (mass (urs_marginal (build C n) A SL k s j) m == 1 / inject_Z (MCA C n A))%Q) /\
    (~ In m (ModelsA C n A) -> (mass (urs_marginal (build C n) A SL k s j) m == 0)%Q).
Proof.
  intros HQ Hn HA Hcl Hnt Hsat k Hk SL.
  apply (urs_uniform_marginal C n A s SL HQ Hn HA Hcl Hnt Hsat); [|exact Hk].
  apply (SL_multi_ideal C A); [apply (wf_idx C n (wfq_wf C n HQ))| |exact Hnt].
  now apply urs_temps_ok.
Qed.
