(* Shared definitions for the theorems about Model/Query.v. *)
From Coq Require Import List ZArith Bool Lia.
From DD Require Import Model.Circuit Model.Query Proofs.Semantics Proofs.DetCert Proofs.CountsA.
Import ListNotations.

(* The invariant every operation re-establishes: all markers false, md empty
   (and the scratch vectors have one entry per node).  temps and pds are arbitrary. *)
Record Clean (C : circuit) (s : scratch) : Prop := {
  cl_temps : length (temps s) = length C;
  cl_marks : length (marks s) = length C;
  cl_pds : length (pds s) = length C;
  cl_unmarked : Forall (fun b => b = false) (marks s);
  cl_md : mdl s = [];
}.

(* what the query algorithms need on top of WF (all established by check_wf) *)
Record WFQ (C : circuit) (n : nat) : Prop := {
  wfq_wf : WF C n;
  wfq_unique : unique_leaves C = true;
  wfq_reach : all_reachable C = true;
  wfq_nonzero : lits_nonzero C = true;
}.

Lemma check_wf_WFQ C n : check_wf C n = true -> WFQ C n.
Proof.
  intros H. pose proof (DetCert.check_wf_sound C n H) as HWF.
  unfold check_wf in H. repeat (apply andb_true_iff in H; destruct H as [H ?]).
  constructor; assumption.
Qed.

Lemma fresh_clean C : Clean C (fresh_scratch C).
Proof.
  constructor; cbn; try apply map_length; [|reflexivity].
  induction C; cbn; constructor; auto.
Qed.
