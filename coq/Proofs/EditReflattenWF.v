(* The re-flattening (DfsPostOrder model: reflatten = renumber (post_order C) C) of a well-formed
   vector is well-formed again - for ANY WF vector, reachable or not: what is not reachable from
   the root disappears.  (The proofs follow the assembly of unit_edit_WF / unit_edit_WFQ.) *)
From Coq Require Import List ZArith Bool Lia.
From DD Require Import Model.Circuit Model.Edit Proofs.PassLemmas Proofs.Semantics Proofs.QueryDefs
  Proofs.C04Proof Proofs.EditRenumber Proofs.EditWF.
Import ListNotations.
Open Scope Z_scope.

Theorem reflatten_WF (P : circuit) (n : nat) : WF P n -> WF (reflatten P) n.
Proof.
  intros [HPne HPok Hdec Hsm Hco Hdet].
  destruct (post_order_good P HPne HPok) as [Hgo [pre Epre]].
  unfold reflatten in *. set (ord := post_order P) in *.
  constructor.
  - now apply reflatten_nonempty.
  - now apply renumber_idx_ok.
  - unfold decomposable. apply (forallb_renumber vars_node decomposable_node [] P ord
                                  vars_node_natural decomposable_node_natural HPok Hgo).
    intros i Hi. unfold decomposable in Hdec. rewrite forallb_forall in Hdec. apply Hdec.
    apply node_in. now apply (go_lt P ord Hgo).
  - unfold smooth. apply (forallb_renumber vars_node smooth_node [] P ord
                            vars_node_natural smooth_node_natural HPok Hgo).
    intros i Hi. unfold smooth in Hsm. rewrite forallb_forall in Hsm. apply Hsm.
    apply node_in. now apply (go_lt P ord Hgo).
  - unfold complete. rewrite last_nth. unfold varss at 1 3. rewrite pass_length.
    fold (root (renumber ord P)). fold (varss (renumber ord P)).
    pose proof (pass_reflatten_root vars_node [] P vars_node_natural HPne HPok) as Hv.
    unfold reflatten in Hv. fold ord in Hv. fold (varss (renumber ord P)) in Hv. fold (varss P) in Hv.
    rewrite Hv. unfold complete in Hco. rewrite last_nth in Hco. unfold varss at 1 3 in Hco.
    rewrite pass_length in Hco. exact Hco.
  - intros s k cs' Hnth.
    assert (Hk : (k < length ord)%nat).
    { rewrite <- (renumber_length ord P). apply nth_error_Some. congruence. }
    pose proof (nth_error_nth (renumber ord P) k FalseN Hnth) as Enode.
    rewrite (renumber_nth ord P k Hk) in Enode.
    destruct (nth (nth k ord O) P FalseN) as [x|cs0|csP| |] eqn:EP; cbn [rename] in Enode; try discriminate.
    injection Enode as <-. rewrite map_map.
    assert (Hi : In (nth k ord O) ord) by now apply nth_In.
    rewrite (map_ext_in _ (fun c => nth c (evals s P) false)).
    + apply (Hdet s (nth k ord O) csP). rewrite <- EP. apply nth_error_nth'. now apply (go_lt P ord Hgo).
    + intros c Hc.
      assert (Hin : In c (firstn k ord)) by (apply (go_closed P ord Hgo k Hk); now rewrite EP).
      assert (Hin' : In c ord) by (rewrite <- (firstn_skipn k ord); apply in_app_iff; now left).
      unfold evals.
      rewrite (pass_renumber (eval_node s) false P ord (eval_node_natural s) HPok Hgo _ (index_of_lt c ord Hin')).
      now rewrite nth_index_of.
Qed.

(* the remaining components of WFQ: unique leaves and non-zero literals are inherited, every node
   of the result has a parent *)
Theorem reflatten_WFQ (P : circuit) (n : nat) :
  WF P n -> unique_leaves P = true -> lits_nonzero P = true -> WFQ (reflatten P) n.
Proof.
  intros HWF Hun Hnz. pose proof (reflatten_WF P n HWF) as HWF'.
  pose proof HWF as [HPne HPok _ _ _ _].
  destruct (post_order_spec P HPne HPok) as [Hgo [[pre Epre] [Hnodup Hpar]]].
  unfold reflatten in *. set (ord := post_order P) in *.
  assert (Hordlt : forall i, In i ord -> (i < length P)%nat) by (intros i Hi; now apply (go_lt P ord Hgo)).
  assert (Hlitnode : forall k x, (k < length ord)%nat -> nth k (renumber ord P) FalseN = Lit x ->
                                 nth (nth k ord O) P FalseN = Lit x).
  { intros k x Hk E. rewrite (renumber_nth ord P k Hk) in E. now apply rename_lit in E. }
  constructor.
  - exact HWF'.
  - apply unique_leaves_intro. intros u k x Hu Hk Eu Ek. rewrite renumber_length in Hu, Hk.
    pose proof (Hlitnode u x Hu Eu) as Eu'. pose proof (Hlitnode k x Hk Ek) as Ek'.
    assert (E : nth u ord O = nth k ord O).
    { apply (unique_leaves_inj P _ _ x Hun); auto; apply Hordlt; now apply nth_In. }
    apply (proj1 (NoDup_nth ord O) Hnodup u k Hu Hk E).
  - unfold all_reachable. apply forallb_forall. intros k Hk. apply in_seq in Hk.
    rewrite renumber_length in Hk.
    assert (Hk' : (k < length ord)%nat) by lia.
    assert (Hlen : length ord = S (length pre)) by (rewrite Epre, app_length; cbn; lia).
    assert (Hx : In (nth k ord O) ord) by now apply nth_In.
    destruct (Hpar _ Hx) as [Hr|[y [Hy Hxy]]].
    + exfalso. assert (E : nth k ord O = nth (length pre) ord O).
      { rewrite Hr. rewrite Epre, app_nth2, Nat.sub_diag by lia. reflexivity. }
      apply (proj1 (NoDup_nth ord O) Hnodup k (length pre) Hk' ltac:(lia)) in E. lia.
    + unfold has_parent. apply existsb_exists.
      exists (nth (index_of y ord) (renumber ord P) FalseN). split.
      * apply nth_In. rewrite renumber_length. now apply index_of_lt.
      * rewrite (renumber_nth ord P _ (index_of_lt y ord Hy)), (nth_index_of y ord O Hy), children_rename.
        apply existsb_exists. exists (index_of (nth k ord O) ord). split.
        -- apply in_map_iff. now exists (nth k ord O).
        -- rewrite (index_of_nth_nodup ord k Hnodup Hk'). apply Nat.eqb_refl.
  - unfold lits_nonzero in *. rewrite forallb_forall in *. intros x Hx.
    apply lits_of_In in Hx. apply (In_nth _ _ FalseN) in Hx. destruct Hx as [k [Hk Ek]].
    rewrite renumber_length in Hk. pose proof (Hlitnode k x Hk Ek) as E.
    apply Hnz. apply lits_of_In. rewrite <- E. apply nth_In. apply Hordlt. now apply nth_In.
Qed.
