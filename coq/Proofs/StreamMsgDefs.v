(* Shared definitions for the theorems about Model/StreamMsg.v (specification predicates and the
   suffix form of the keyword loop used in the proofs).  No proofs here. *)
From Coq Require Import List ZArith Bool String Ascii Lia.
From DD Require Import Model.Circuit Model.Query Model.Enumerate Model.StreamMsg.
Import ListNotations.
Open Scope Z_scope.

(* an error text starts with its code and a blank *)
Definition err_ok (c : code) (t : string) : Prop := prefix (code_str c ++ " ") t = true.

(* a boundary: number_of_variables or the value given with total-features *)
Definition tf_ok (b : Z) : Prop := 0 <= b <= i32_max.
(* what get_numbers hands on: no zero, everything within the boundary *)
Definition nums_ok (b : Z) (l : cfg) : Prop := Forall (fun x => 1 <= Z.abs x <= b) l.

Record parsed_ok (b : Z) (p : parsed) : Prop := {
  pk_params : nums_ok b (p_params p);
  pk_values : nums_ok b (p_values p);
  pk_seed : 0 <= p_seed p <= u64_max;
  pk_limit : forall l, p_limit p = Some l -> 0 <= l <= u64_max;
  pk_add : Forall (nums_ok b) (p_add p);
  pk_rmv : Forall (nums_ok b) (p_rmv p);
}.

(* the plugged contains_conflicting_clauses does not panic *)
Definition conf_total (conf : option (Z -> ares bool)) : Prop :=
  forall cf x, conf = Some cf -> exists b, cf x = AOk b.

(* ---- the keyword loop on the remaining tokens instead of (args, param_index) ---- *)
Fixpoint clause_loop_s (ver : version) (dbg : bool) (tf : Z) (is_add : bool)
         (split : list (list string)) (rest : list string) (acc : parsed)
  : res (list string * parsed) :=
  match split with
  | [] => ROk (rest, acc)
  | s :: more =>
    rbind (get_numbers ver dbg s tf) (fun '(nums, len) =>
      let rest1 := skipn len rest in
      let rest2 := match rest1 with
                   | z :: r => if is_zero_tok z then r else rest1
                   | [] => rest1
                   end in
      clause_loop_s ver dbg tf is_add more rest2 (push_clause is_add acc (to_set nums)))
  end.

Fixpoint kw_loop_s (ver : version) (dbg : bool) (tf : Z) (fuel : nat) (rest : list string)
         (acc : parsed) : res parsed :=
  match fuel with
  | O => RPanic "keyword loop: out of fuel (would not terminate)"
  | S f =>
    match rest with
    | [] => ROk acc
    | kw :: sl =>
      if kw_in kw "a" "assumptions" then
        rbind (get_numbers ver dbg sl tf) (fun '(nums, len) =>
          kw_loop_s ver dbg tf f (skipn len sl) (set_params acc nums))
      else if kw_in kw "v" "variables" then
        rbind (get_numbers ver dbg sl tf) (fun '(nums, len) =>
          kw_loop_s ver dbg tf f (skipn len sl) (set_values acc nums))
      else if kw_in kw "f" "fitness" then
        rbind (get_floats sl) (fun '(fl, len) =>
          kw_loop_s ver dbg tf f (skipn len sl) (set_fitness acc fl))
      else if kw_in kw "seed" "s" || kw_in kw "limit" "l" || kw_in kw "path" "p" then
        match sl with
        | [] => RErr E4 ("E4 error: param " ++ quote kw ++ " was used, but no value supplied")
        | val :: sl' =>
          if kw_in kw "seed" "s" then
            match parse_unsigned u64_max val with
            | inl x => kw_loop_s ver dbg tf f sl' (set_seed acc x)
            | inr e => RErr E3 ("E3 error: " ++ pie_text e)
            end
          else if kw_in kw "limit" "l" then
            match parse_unsigned u64_max val with
            | inl x => kw_loop_s ver dbg tf f sl' (set_limit acc x)
            | inr e => RErr E3 ("E3 error: " ++ pie_text e)
            end
          else kw_loop_s ver dbg tf f sl' (set_path acc val)
        end
      else if kw_in kw "add" "rmv" then
        rbind (split_clauses sl) (fun split =>
        rbind (clause_loop_s ver dbg tf (String.eqb kw "add") split sl acc) (fun '(rest', acc') =>
          kw_loop_s ver dbg tf f rest' acc'))
      else RErr E4 ("E4 error: the option " ++ quote kw ++ " is not valid in this context")
    end
  end.

(* ---- keyword groups (for the parameter-order theorem) ---- *)
Inductive gclass := GA | GV | GSeed | GLimit | GPath.
Definition kw_class (kw : string) : option gclass :=
  if kw_in kw "a" "assumptions" then Some GA
  else if kw_in kw "v" "variables" then Some GV
  else if kw_in kw "seed" "s" then Some GSeed
  else if kw_in kw "limit" "l" then Some GLimit
  else if kw_in kw "path" "p" then Some GPath
  else None.
Definition no_alpha (t : string) : Prop := sany is_alpha t = false.
(* a well-formed group: keyword, then its values, all of them consumed by the keyword *)
Definition group_ok (dbg : bool) (b : Z) (c : gclass) (g : list string) : Prop :=
  match g with
  | kw :: vals =>
    kw_class kw = Some c /\
    match c with
    | GA | GV => Forall no_alpha vals /\
                 exists l, get_numbers V1 dbg vals b = ROk (l, length vals)
    | GSeed | GLimit => exists v x, vals = [v] /\ parse_unsigned u64_max v = inl x
    | GPath => exists v, vals = [v]
    end
  | [] => False
  end.
(* what may follow a number list: the end of the line or a token with a letter (a keyword) *)
Definition stops (r : list string) : Prop :=
  match r with [] => True | t :: _ => sany is_alpha t = true end.
