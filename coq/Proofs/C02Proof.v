(* C02: execute_query (marker strategy with the divide-the-cached-product shortcut, default
   strategy, core shortcuts, dispatch on the length) returns the number of models containing all
   assumed literals, from every Clean state, and re-establishes Clean. *)
From Coq Require Import List ZArith Bool Lia.
From DD Require Import Model.Circuit Model.Query Proofs.PassLemmas Proofs.Enum Proofs.Semantics
  Proofs.CountsA Proofs.QueryDefs Proofs.C02Basics Proofs.C02Marking Proofs.Live Proofs.LiveCounts.
Import ListNotations.
Open Scope Z_scope.

(* ---------- the division shortcut ---------- *)

Lemma fold_div_spec (cnt tmp : nat -> Z) : forall (l : list nat) (K : Z),
  (forall c, In c l -> cnt c = 0 -> tmp c = 0) ->
  fold_left (fun acc c => (if cnt c =? 0 then acc else acc / cnt c) * tmp c) l
            (K * zprod (map cnt l)) = K * zprod (map tmp l).
Proof.
  induction l as [|a l IH]; intros K H; [reflexivity|].
  cbn [fold_left map]. rewrite !zprod_cons.
  assert (Hl : forall c, In c l -> cnt c = 0 -> tmp c = 0) by (intros c Hc; apply H; now right).
  destruct (cnt a =? 0) eqn:E.
  - apply Z.eqb_eq in E. pose proof (H a (or_introl eq_refl) E) as Ht.
    replace (K * (cnt a * zprod (map cnt l)) * tmp a) with (0 * zprod (map cnt l))
      by (rewrite Ht; ring).
    rewrite (IH 0 Hl), Ht. ring.
  - apply Z.eqb_neq in E.
    replace (K * (cnt a * zprod (map cnt l))) with (K * zprod (map cnt l) * cnt a) by ring.
    rewrite Z.div_mul by exact E.
    replace (K * zprod (map cnt l) * tmp a) with (K * tmp a * zprod (map cnt l)) by ring.
    rewrite (IH (K * tmp a) Hl). ring.
Qed.

Lemma filter_all_false {A} (p : A -> bool) (l : list A) :
  (forall x, In x l -> p x = false) -> filter p l = [].
Proof.
  induction l as [|a l IH]; intros H; [reflexivity|].
  cbn [filter]. rewrite (H a (or_introl eq_refl)). apply IH. intros x Hx. apply H. now right.
Qed.

Lemma fold_reset_false (js : list nat) (m : list bool) (j : nat) :
  nth j m false = false \/ In j js ->
  nth j (fold_left (fun m j => upd j false m) js m) false = false.
Proof.
  intros H. destruct (in_dec Nat.eq_dec j js) as [Hin|Hnin].
  - destruct (Nat.lt_ge_cases j (length m)) as [Hl|Hl].
    + now apply fold_upd_nth_in.
    + apply nth_overflow. now rewrite fold_upd_length.
  - rewrite fold_upd_nth_notin by exact Hnin. destruct H as [H|H]; [exact H|contradiction].
Qed.

Lemma in_prod_lit (Ls : list (list cfg)) : forall c, In c (prod Ls) ->
  forall x, In x c -> exists L c', In L Ls /\ In c' L /\ In x c'.
Proof.
  induction Ls as [|L Ls IH]; intros c Hc x Hx.
  - cbn in Hc. destruct Hc as [<-|[]]. destruct Hx.
  - apply in_prod_cons in Hc. destruct Hc as [y [r [Hy [Hr ->]]]].
    apply in_app_iff in Hx. destruct Hx as [Hx|Hx].
    + exists L, y. repeat split; [now left|exact Hy|exact Hx].
    + destruct (IH r Hr x Hx) as [L' [c' [HL' [Hc' Hxc']]]].
      exists L', c'. repeat split; [now right|exact Hc'|exact Hxc'].
Qed.

Section Proof.
Variables (C : circuit) (n : nat).
Hypothesis HQ : WFQ C n.
Notation d := (build C n).

Lemma Hwf : WF C n. Proof. apply HQ. Qed.
Lemma Hok : idx_ok C = true. Proof. apply Hwf. Qed.
Lemma Hne : C <> []. Proof. apply Hwf. Qed.
Lemma Hroot : (root C < length C)%nat. Proof. apply root_lt, Hne. Qed.

Lemma nth_error_node i nd : nth_error C i = Some nd -> (i < length C)%nat /\ nth i C FalseN = nd.
Proof.
  intros H. split; [apply nth_error_Some; congruence|now apply nth_error_nth].
Qed.

(* ================= marker strategy, relative to A and its index list ================= *)
Section Marker.
Variables (A : cfg) (idxs : list nat).
Hypothesis Hidx : forall i, In i idxs <->
  exists l, nth_error C i = Some (Lit l) /\ memZ (- l) A = true.
Notation cA := (countsA A C).
Notation X := (fun j => In j idxs).

Lemma idxs_lt i : In i idxs -> (i < length C)%nat.
Proof. intros H. apply Hidx in H. destruct H as [l [H _]]. now apply nth_error_node in H. Qed.

Lemma idxs_zero i : In i idxs -> nth i cA 0 = 0.
Proof.
  intros H. pose proof (idxs_lt i H) as Hi. apply Hidx in H. destruct H as [l [H Hm]].
  apply nth_error_node in H. destruct H as [_ H].
  rewrite (countsA_unfold A C i 0 Hok Hi), H. cbn [countA_node]. now rewrite Hm.
Qed.

Lemma idxs_not_inner i : In i idxs -> ~ Inner C i.
Proof.
  intros H [c Hc]. apply Hidx in H. destruct H as [l [H _]].
  apply nth_error_node in H. destruct H as [_ H]. rewrite H in Hc. destruct Hc.
Qed.

(* an unmarked node has no zeroed leaf below it *)
Lemma unmarked_counts (ms : list bool) :
  Closed C ms NoG -> (forall i, In i idxs -> nth i ms false = true) ->
  forall i, (i < length C)%nat -> nth i ms false = false -> nth i cA 0 = nth i (counts C) 0.
Proof.
  intros Hcl Hm.
  apply (idx_induction C (fun i => nth i ms false = false -> nth i cA 0 = nth i (counts C) 0) Hok).
  intros i Hi IH Hu.
  rewrite (countsA_unfold A C i 0 Hok Hi), (counts_unfold C Hok i Hi 0).
  assert (Hch : forall c, In c (children (nth i C FalseN)) -> nth c cA 0 = nth c (counts C) 0).
  { intros c Hc. apply IH; [exact Hc|]. destruct (nth c ms false) eqn:Ec; [|reflexivity].
    rewrite (Hcl c i Ec (fun F => F) Hc) in Hu. discriminate Hu. }
  destruct (nth i C FalseN) as [l|cs|cs| |] eqn:E; cbn [countA_node count_node children] in *.
  - destruct (memZ (- l) A) eqn:Em; [|reflexivity]. exfalso.
    assert (Hin : In i idxs).
    { apply Hidx. exists l. split; [|exact Em]. rewrite (nth_error_nth' C i Hi). now rewrite E. }
    rewrite (Hm i Hin) in Hu. discriminate Hu.
  - f_equal. now apply map_ext_in.
  - f_equal. now apply map_ext_in.
  - reflexivity.
  - reflexivity.
Qed.

(* one marked inner node *)
Lemma calc_marked_spec (s : scratch) (i : nat) :
  Inner C i -> (i < length (temps s))%nat ->
  (forall c, In c (children (nth i C FalseN)) -> nth c (marks s) false = true ->
             nth c (temps s) 0 = nth c cA 0) ->
  (forall c, In c (children (nth i C FalseN)) -> nth c (marks s) false = false ->
             nth c (counts C) 0 = nth c cA 0) ->
  marks (calc_count_marked_node d i s) = marks s /\
  pds (calc_count_marked_node d i s) = pds s /\
  mdl (calc_count_marked_node d i s) = mdl s /\
  length (temps (calc_count_marked_node d i s)) = length (temps s) /\
  nth i (temps (calc_count_marked_node d i s)) 0 = nth i cA 0 /\
  forall j, j <> i -> nth j (temps (calc_count_marked_node d i s)) 0 = nth j (temps s) 0.
Proof.
  intros Hin Hit Hm1 Hm2. pose proof (Inner_lt C i Hin) as Hi.
  unfold calc_count_marked_node. cbn [temps marks pds mdl circ cnts build].
  split; [reflexivity|]. split; [reflexivity|]. split; [reflexivity|].
  split; [apply upd_length|]. split; [|intros j Hj; apply nth_upd_neq; congruence].
  rewrite nth_upd_eq by exact Hit.
  assert (Hmix : forall c, In c (children (nth i C FalseN)) -> mixed d s c = nth c cA 0).
  { intros c Hc. unfold mixed. cbn [cnts build]. destruct (nth c (marks s) false) eqn:Ec.
    - now apply Hm1.
    - now apply Hm2. }
  assert (Hlt : forall c, In c (children (nth i C FalseN)) -> (c < length C)%nat).
  { intros c Hc. pose proof (idx_ok_nth C i FalseN Hok Hi c Hc). lia. }
  rewrite (countsA_unfold A C i 0 Hok Hi).
  pose proof (counts_unfold C Hok i Hi 0) as Hcnt. unfold Inner in Hin.
  destruct (nth i C FalseN) as [l|cs|cs| |] eqn:E; cbn [children countA_node count_node] in *;
    try (destruct Hin as [c []]).
  - destruct (Nat.leb _ _).
    + rewrite Hcnt.
      rewrite (zprod_filter_split (fun c => nth c (marks s) false) (fun c => nth c (counts C) 0) cs).
      rewrite (fold_div_spec (fun c => nth c (counts C) 0) (fun c => nth c (temps s) 0)).
      * rewrite (zprod_filter_split (fun c => nth c (marks s) false) (fun c => nth c cA 0) cs).
        f_equal; f_equal; apply map_ext_in; intros c Hc; apply filter_In in Hc; destruct Hc as [Hc Hmc].
        -- apply negb_true_iff in Hmc. now apply Hm2.
        -- now apply Hm1.
      * intros c Hc H0. apply filter_In in Hc. destruct Hc as [Hc Hmc].
        rewrite (Hm1 c Hc Hmc). pose proof (countsA_bounds A C Hok c (Hlt c Hc)) as Hb. lia.
    + f_equal. now apply map_ext_in.
  - f_equal. now apply map_ext_in.
Qed.

(* processing md in ascending order *)
Lemma process_spec : forall (l : list nat) (s : scratch),
  length (temps s) = length C -> asc l ->
  (forall j, In j l -> nth j (marks s) false = true /\ Inner C j) ->
  (forall j, (j < length C)%nat -> nth j (marks s) false = false ->
             nth j cA 0 = nth j (counts C) 0) ->
  (forall j, nth j (marks s) false = true -> ~ In j l -> nth j (temps s) 0 = nth j cA 0) ->
  let s' := fold_left (fun s' j => calc_count_marked_node d j s') l s in
  marks s' = marks s /\ pds s' = pds s /\ mdl s' = mdl s /\ length (temps s') = length C /\
  forall j, nth j (marks s) false = true -> nth j (temps s') 0 = nth j cA 0.
Proof.
  induction l as [|a l IH]; intros s HT Hasc Hl HU HD.
  - cbn. repeat split; try reflexivity; [exact HT|]. intros j Hj. apply HD; [exact Hj|intros []].
  - cbn [fold_left]. destruct Hasc as [Hle Hasc].
    destruct (Hl a (or_introl eq_refl)) as [Hma Hia]. pose proof (Inner_lt C a Hia) as Ha.
    assert (Hch : forall c, In c (children (nth a C FalseN)) -> (c < a)%nat).
    { intros c Hc. exact (idx_ok_nth C a FalseN Hok Ha c Hc). }
    destruct (calc_marked_spec s a Hia) as [E1 [E2 [E3 [E4 [E5 E6]]]]].
    + lia.
    + intros c Hc Hmc. apply HD; [exact Hmc|]. intros [->|Hin].
      * specialize (Hch c Hc). lia.
      * specialize (Hle c Hin). specialize (Hch c Hc). lia.
    + intros c Hc Hmc. symmetry. apply HU; [|exact Hmc]. specialize (Hch c Hc). lia.
    + set (s1 := calc_count_marked_node d a s) in *.
      destruct (IH s1) as [F1 [F2 [F3 [F4 F5]]]].
      * lia.
      * exact Hasc.
      * intros j Hj. rewrite E1. apply Hl. now right.
      * intros j Hj. rewrite E1. now apply HU.
      * intros j Hj Hnin. rewrite E1 in Hj. destruct (Nat.eq_dec j a) as [->|Hne]; [exact E5|].
        rewrite (E6 j Hne). apply HD; [exact Hj|]. intros [H|H]; [congruence|contradiction].
      * cbv zeta. rewrite F1, F2, F3, E1, E2, E3. repeat split; try reflexivity; [exact F4|].
        intros j Hj. apply F5. now rewrite E1.
Qed.

(* every marked node has a marked ancestor chain up to the root *)
Lemma root_marked (ms : list bool) :
  Closed C ms NoG -> forall j, (j < length C)%nat -> nth j ms false = true ->
  nth (root C) ms false = true.
Proof.
  intros Hcl j. remember (length C - j)%nat as k eqn:Hk. revert j Hk.
  induction k as [k IH] using lt_wf_ind. intros j Hk Hj Hm.
  destruct (Nat.eq_dec j (root C)) as [->|Hne]; [exact Hm|].
  unfold root in Hne.
  pose proof (wfq_reach C n HQ) as HR. unfold all_reachable in HR. rewrite forallb_forall in HR.
  assert (Hin : In j (seq 0 (length C - 1))) by (apply in_seq; lia).
  specialize (HR j Hin). unfold has_parent in HR. apply existsb_exists in HR.
  destruct HR as [nd [Hnd Hex]]. apply existsb_exists in Hex. destruct Hex as [c [Hc Hjc]].
  apply Nat.eqb_eq in Hjc. subst c.
  destruct (In_nth C nd FalseN Hnd) as [p [Hp Hpn]]. rewrite <- Hpn in Hc.
  pose proof (idx_ok_nth C p FalseN Hok Hp j Hc) as Hjp.
  apply (IH (length C - p)%nat ltac:(lia) p eq_refl Hp).
  exact (Hcl j p Hm (fun F => F) Hc).
Qed.

Lemma operate_on_marker_spec (s : scratch) :
  Clean C s -> idxs <> [] ->
  snd (operate_on_marker d idxs s) = nth (root C) cA 0 /\
  Clean C (fst (operate_on_marker d idxs s)).
Proof.
  intros HC Hnil.
  assert (HX : forall i, In i idxs -> (i < length C)%nat /\ X i)
    by (intros i Hi; split; [now apply idxs_lt|exact Hi]).
  pose proof (mark_assumptions_spec C n Hok X idxs s HC HX) as Hs1. cbv zeta in Hs1.
  unfold operate_on_marker. cbv zeta. cbn [fst snd].
  set (s1 := mark_assumptions d idxs s) in *.
  destruct Hs1 as [HT1 [Hp1 [Hz1 [Hm1 [Hasc HI1]]]]].
  destruct HI1 as [HL1 [Hmd1 [Hmk1 Hcl1]]].
  pose proof (unmarked_counts (marks s1) Hcl1 Hm1) as HU.
  assert (HD : forall j, nth j (marks s1) false = true -> ~ In j (mdl s1) ->
                         nth j (temps s1) 0 = nth j cA 0).
  { intros j Hj Hnin. destruct (Hmk1 j Hj) as [H|H]; [contradiction|].
    rewrite (Hz1 j H). symmetry. now apply idxs_zero. }
  pose proof (process_spec (mdl s1) s1 HT1 Hasc Hmd1 HU HD) as Hs2. cbv zeta in Hs2.
  set (s2 := fold_left (fun s' j => calc_count_marked_node d j s') (mdl s1) s1) in *.
  destruct Hs2 as [G1 [G2 [G3 [G4 G5]]]].
  split.
  - unfold rt. change (rootn d) with (root C). cbn [temps]. apply G5.
    destruct idxs as [|i0 rest] eqn:Ei; [congruence|].
    apply (root_marked (marks s1) Hcl1 i0); [apply HX; now left|apply Hm1; now left].
  - constructor; cbn [temps marks pds mdl].
    + exact G4.
    + now rewrite !fold_upd_length, G1.
    + rewrite G2, Hp1. apply HC.
    + apply nth_false_Forall. intros j. apply fold_reset_false.
      destruct (nth j (marks s2) false) eqn:Ej.
      * rewrite G1 in Ej. destruct (Hmk1 j Ej) as [H|H]; [|now right].
        left. apply fold_reset_false. right. now rewrite G3.
      * left. apply fold_reset_false. now left.
    + reflexivity.
Qed.

End Marker.

(* ================= literal <-> index ================= *)

Lemma opposing_spec (A' : cfg) (i : nat) :
  In i (opposing_indexes d A') <->
  exists l, nth_error C i = Some (Lit l) /\ memZ (- l) A' = true.
Proof.
  unfold opposing_indexes. cbn [circ build]. rewrite in_filter_map. split.
  - intros [f [Hf Hl]]. apply lit_idx_some in Hl. exists (- f). split; [exact Hl|].
    rewrite Z.opp_involutive. now apply memZ_In.
  - intros [l [Hl Hm]]. exists (- l). split; [now apply memZ_In|].
    rewrite Z.opp_involutive. apply lit_idx_spec; [apply HQ|exact Hl].
Qed.

(* ================= core shortcuts ================= *)

(* dropping the core literals of a query changes the count under the assumptions at no
   reachable node (Proofs/LiveCounts.v), in particular not at the root *)
Lemma reduce_countsA (A : cfg) :
  nth (root C) (countsA (reduce_query d A) C) 0 = nth (root C) (countsA A C) 0.
Proof. exact (reduce_countsA_root C n Hok Hne A). Qed.

Lemma enum_lits_are_leaves : forall i, (i < length C)%nat ->
  forall c, In c (nth i (enums C) []) -> forall x, In x c -> In (Lit x) C.
Proof.
  apply (idx_induction C (fun i => forall c, In c (nth i (enums C) []) ->
                                   forall x, In x c -> In (Lit x) C) Hok).
  intros i Hi IH c Hc x Hx. rewrite (enums_unfold C Hok i Hi) in Hc.
  pose proof (node_in C i Hi) as Hnd.
  destruct (nth i C FalseN) as [l|cs|cs| |] eqn:E; cbn [enum_node children] in *.
  - destruct Hc as [<-|[]]. destruct Hx as [<-|[]]. exact Hnd.
  - destruct (in_prod_lit _ c Hc x Hx) as [L [c' [HL [Hc' Hxc']]]].
    apply in_rev in HL. apply in_map_iff in HL. destruct HL as [ch [<- Hch]].
    exact (IH ch Hch c' Hc' x Hxc').
  - apply in_concat in Hc. destruct Hc as [L [HL HcL]].
    apply in_map_iff in HL. destruct HL as [ch [<- Hch]].
    exact (IH ch Hch c HcL x Hx).
  - destruct Hc as [<-|[]]. destruct Hx.
  - destruct Hc.
Qed.

Lemma unsat_zero (A : cfg) (f : Z) :
  in_range n A -> In f A -> (forall c, In c (enum_root C) -> ~ In f c) ->
  nth (root C) (countsA A C) 0 = 0.
Proof.
  intros HA Hf Hnf. rewrite (countsA_filter A C Hok (root C) Hroot).
  rewrite filter_all_false; [reflexivity|]. intros c Hc.
  assert (Hc' : In c (enum_root C)) by now rewrite enum_root_nth.
  assert (HG : Good c (last (varss C) [])) by (apply (root_good C n Hwf); exact Hc').
  pose proof (complete_range C n (wf_complete C n Hwf)) as HV.
  destruct HG as [_ Hcov].
  assert (Hin : In (Z.abs f) (map Z.abs c)) by (apply Hcov, HV, HA, Hf).
  apply in_map_iff in Hin. destruct Hin as [x [Habs Hx]].
  assert (Hxf : x = - f).
  { assert (x = f \/ x = - f) as [->| ->] by lia; [exfalso; exact (Hnf c Hc' Hx)|reflexivity]. }
  subst x. destruct (okA A c) eqn:Eo; [|reflexivity]. exfalso.
  unfold okA in Eo. rewrite forallb_forall in Eo. specialize (Eo _ Hx).
  rewrite Z.opp_involutive in Eo. apply negb_true_iff, memZ_false in Eo. contradiction.
Qed.

Lemma not_sat_zero (A : cfg) :
  in_range n A -> query_is_not_sat d A = true -> nth (root C) (countsA A C) 0 = 0.
Proof.
  intros HA H. unfold query_is_not_sat in H. apply existsb_exists in H.
  destruct H as [f [Hf Hu]]. unfold makes_unsat in Hu. apply andb_true_iff in Hu.
  destruct Hu as [_ Hu]. cbn [core build] in Hu. apply memZ_In, (core_spec C n (- f) Hok Hne) in Hu.
  destruct Hu as [_ Hu]. apply (unsat_zero A f HA Hf). intros c Hc Hin. apply (Hu c Hc).
  now rewrite Z.opp_involutive.
Qed.

Lemma rc_root : rc d = nth (root C) (counts C) 0.
Proof. reflexivity. Qed.

(* ================= marker strategy for a partial configuration ================= *)

Lemma marker_spec (A : cfg) (s : scratch) :
  in_range n A -> Clean C s ->
  snd (operate_on_partial_config_marker d A s) = nth (root C) (countsA A C) 0 /\
  Clean C (fst (operate_on_partial_config_marker d A s)).
Proof.
  intros HA HC. unfold operate_on_partial_config_marker.
  destruct (query_is_not_sat d A) eqn:EU.
  - cbn [fst snd]. split; [symmetry; now apply not_sat_zero|exact HC].
  - cbv zeta. destruct (opposing_indexes d (reduce_query d A)) as [|i0 rest] eqn:EI.
    + cbn [fst snd]. split; [|exact HC]. rewrite rc_root, <- reduce_countsA.
      rewrite countsA_no_zero; [reflexivity|]. intros l Hl.
      destruct (memZ (- l) (reduce_query d A)) eqn:Em; [|reflexivity]. exfalso.
      destruct (In_nth_error C (Lit l) Hl) as [i Hi].
      assert (Hin : In i (opposing_indexes d (reduce_query d A))) by (apply opposing_spec; now exists l).
      rewrite EI in Hin. destruct Hin.
    + rewrite <- EI. rewrite <- (reduce_countsA A).
      apply (operate_on_marker_spec (reduce_query d A) (opposing_indexes d (reduce_query d A))
               (opposing_spec (reduce_query d A)) s HC).
      rewrite EI. discriminate.
Qed.

Lemma reduce_single_core (f : Z) : has_no_effect d f = true ->
  nth (root C) (countsA [f] C) 0 = nth (root C) (counts C) 0.
Proof.
  intros H. rewrite <- (reduce_countsA [f]). unfold reduce_query. cbn [filter]. rewrite H.
  cbn [negb]. now rewrite countsA_nil.
Qed.

Lemma single_spec (f : Z) (s : scratch) :
  in_range n [f] -> Clean C s ->
  snd (card_of_feature_with_marker d f s) = nth (root C) (countsA [f] C) 0 /\
  Clean C (fst (card_of_feature_with_marker d f s)).
Proof.
  intros HA HC. unfold card_of_feature_with_marker.
  destruct (has_no_effect d f) eqn:E1.
  - cbn [fst snd]. split; [|exact HC]. now rewrite reduce_single_core, rc_root.
  - destruct (makes_unsat d f) eqn:E2.
    + cbn [fst snd]. split; [|exact HC]. symmetry. apply not_sat_zero; [exact HA|].
      unfold query_is_not_sat. cbn [existsb]. now rewrite E2.
    + cbn [circ build]. destruct (lit_idx C (- f)) as [i|] eqn:E3.
      * apply (operate_on_marker_spec [f] [i]); [|exact HC|discriminate].
        intros j. split.
        -- intros [<-|[]]. exists (- f). split; [now apply lit_idx_some|].
           rewrite Z.opp_involutive. cbn. now rewrite Z.eqb_refl.
        -- intros [l [Hl Hm]]. left. cbn in Hm. rewrite orb_false_r in Hm. apply Z.eqb_eq in Hm.
           assert (l = - f) by lia. subst l.
           apply (lit_idx_spec C (- f) j (wfq_unique C n HQ)) in Hl. congruence.
      * cbn [fst snd]. split; [|exact HC]. rewrite rc_root.
        rewrite countsA_no_zero; [reflexivity|]. intros l Hl.
        destruct (memZ (- l) [f]) eqn:Em; [|reflexivity]. exfalso.
        cbn in Em. rewrite orb_false_r in Em. apply Z.eqb_eq in Em.
        assert (l = - f) by lia. subst l. apply lit_idx_none in E3. contradiction.
Qed.

(* ================= default strategy ================= *)

Lemma default_step_eq (fs' : cfg) (s : scratch) (i : nat) :
  match nth i (circ d) FalseN with
  | Lit l =>
    if memZ (- l) fs'
    then {| temps := upd i 0 (temps s); marks := marks s; pds := pds s; mdl := mdl s |}
    else calc_count d i s
  | _ => calc_count d i s
  end =
  {| temps := upd i (countA_node fs' (temps s) (nth i C FalseN)) (temps s);
     marks := marks s; pds := pds s; mdl := mdl s |}.
Proof.
  unfold calc_count. cbn [circ build].
  destruct (nth i C FalseN) as [l|cs|cs| |]; cbn [countA_node]; try reflexivity.
  destruct (memZ (- l) fs'); reflexivity.
Qed.

Lemma default_loop_spec (fs' : cfg) : forall (k : nat) (s : scratch),
  (k <= length C)%nat -> length (temps s) = length C ->
  let s' :=
    fold_left (fun s' i =>
                 match nth i (circ d) FalseN with
                 | Lit l =>
                   if memZ (- l) fs'
                   then {| temps := upd i 0 (temps s'); marks := marks s'; pds := pds s'; mdl := mdl s' |}
                   else calc_count d i s'
                 | _ => calc_count d i s'
                 end) (seq 0 k) s in
  marks s' = marks s /\ pds s' = pds s /\ mdl s' = mdl s /\ length (temps s') = length C /\
  forall j, (j < k)%nat -> nth j (temps s') 0 = nth j (countsA fs' C) 0.
Proof.
  induction k as [|k IH]; intros s Hk HT.
  - cbn. repeat split; try reflexivity; [exact HT|]. intros j Hj. lia.
  - rewrite seq_S, fold_left_app. cbn [fold_left Nat.add].
    destruct (IH s ltac:(lia) HT) as [F1 [F2 [F3 [F4 F5]]]]. cbv zeta.
    set (s1 := fold_left _ (seq 0 k) s) in *.
    rewrite (default_step_eq fs' s1 k). cbn [temps marks pds mdl].
    repeat split; try assumption; [now rewrite upd_length|].
    intros j Hj. destruct (Nat.eq_dec j k) as [->|Hne].
    + rewrite nth_upd_eq by lia. rewrite (countsA_unfold fs' C k 0 Hok ltac:(lia)).
      apply (countA_node_local fs'). intros c Hc. apply F5.
      exact (idx_ok_nth C k FalseN Hok ltac:(lia) c Hc).
    + rewrite nth_upd_neq by congruence. apply F5. lia.
Qed.

Lemma default_spec (A : cfg) (s : scratch) :
  in_range n A -> Clean C s ->
  snd (operate_on_partial_config_default d A s) = nth (root C) (countsA A C) 0 /\
  Clean C (fst (operate_on_partial_config_default d A s)).
Proof.
  intros HA HC. unfold operate_on_partial_config_default.
  destruct (query_is_not_sat d A) eqn:EU.
  - cbn [fst snd]. split; [symmetry; now apply not_sat_zero|exact HC].
  - cbv zeta. cbn [fst snd].
    pose proof (default_loop_spec (reduce_query d A) (length C) s (Nat.le_refl _) (cl_temps C s HC)) as H.
    cbv zeta in H. cbn [circ build] in *.
    set (s1 := fold_left _ (seq 0 (length C)) s) in *.
    destruct H as [F1 [F2 [F3 [F4 F5]]]]. split.
    + unfold rt. change (rootn d) with (root C). rewrite (F5 (root C) Hroot).
      now rewrite reduce_countsA.
    + constructor; [exact F4|rewrite F1; apply HC|rewrite F2; apply HC|rewrite F1; apply HC|rewrite F3; apply HC].
Qed.

(* ================= dispatch ================= *)

Lemma execute_query_countsA (A : cfg) (s : scratch) :
  in_range n A -> Clean C s ->
  snd (execute_query d A s) = nth (root C) (countsA A C) 0 /\
  Clean C (fst (execute_query d A s)).
Proof.
  intros HA HC. unfold execute_query.
  destruct A as [|f [|g A']].
  - cbn [fst snd]. split; [|exact HC]. now rewrite countsA_nil.
  - now apply single_spec.
  - destruct (Nat.leb _ _); [now apply marker_spec|now apply default_spec].
Qed.

End Proof.

(* ================= main theorem ================= *)

Theorem execute_query_correct : forall C n A s,
  WFQ C n -> in_range n A -> Clean C s ->
  let '(s', r) := execute_query (build C n) A s in
  r = MCA C n A /\ Clean C s'.
Proof.
  intros C n A s HQ HA HC.
  destruct (execute_query_countsA C n HQ A s HA HC) as [H1 H2].
  destruct (execute_query (build C n) A s) as [s' r]. cbn [fst snd] in H1, H2.
  split; [|exact H2]. rewrite H1. apply countsA_MCA; [apply HQ|exact HA].
Qed.

Theorem strategy_independent : forall C n A s1 s2,
  WFQ C n -> in_range n A -> Clean C s1 -> Clean C s2 ->
  snd (operate_on_partial_config_marker (build C n) A s1) = MCA C n A /\
  snd (operate_on_partial_config_default (build C n) A s2) = MCA C n A.
Proof.
  intros C n A s1 s2 HQ HA H1 H2.
  destruct (marker_spec C n HQ A s1 HA H1) as [M _].
  destruct (default_spec C n HQ A s2 HA H2) as [D _].
  rewrite M, D. split; apply countsA_MCA; try apply HQ; exact HA.
Qed.

Theorem count_history_independent : forall C n A s,
  WFQ C n -> in_range n A -> Clean C s ->
  snd (execute_query (build C n) A s) = snd (execute_query (build C n) A (fresh_scratch C)).
Proof.
  intros C n A s HQ HA HC.
  destruct (execute_query_countsA C n HQ A s HA HC) as [H1 _].
  destruct (execute_query_countsA C n HQ A (fresh_scratch C) HA (fresh_clean C)) as [H2 _].
  now rewrite H1, H2.
Qed.

(* ================= truth-table level: splitting on a feature ================= *)

Lemma filter_split_length {T} (p q : T -> bool) (l : list T) :
  length (filter p l) =
  (length (filter (fun m => q m && p m) l) + length (filter (fun m => negb (q m) && p m) l))%nat.
Proof.
  induction l as [|a l IH]; [reflexivity|].
  cbn [filter]. destruct (p a), (q a); cbn [andb negb length]; lia.
Qed.

Lemma memZ_neg_table (n : nat) (m : cfg) (x : Z) :
  In m (all_cfgs n) -> 1 <= x <= Z.of_nat n -> memZ (- x) m = negb (memZ x m).
Proof.
  intros Hm Hx. rewrite <- (canon_asg_of n m Hm) at 1 2.
  rewrite !memZ_canon by (rewrite ?Z.abs_opp; lia).
  unfold lit_true. destruct (0 <? x) eqn:E1; [|apply Z.ltb_ge in E1; lia].
  destruct (0 <? - x) eqn:E2; [apply Z.ltb_lt in E2; lia|]. now rewrite Z.opp_involutive.
Qed.

Theorem MCA_split : forall C n A x, 1 <= x <= Z.of_nat n ->
  MCA C n A = MCA C n (x :: A) + MCA C n (- x :: A).
Proof.
  intros C n A x Hx. unfold MCA, ModelsA. rewrite <- Nat2Z.inj_add. f_equal.
  rewrite (filter_split_length (contains_all A) (fun m => memZ x m) (Models C n)).
  f_equal. f_equal. apply filter_ext_in. intros m Hm.
  unfold contains_all. cbn [forallb]. f_equal. symmetry. apply (memZ_neg_table n); [|exact Hx].
  unfold Models in Hm. apply filter_In in Hm. apply Hm.
Qed.
