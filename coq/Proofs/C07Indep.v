(* C07 (4): the samples are a function of (circuit, assumptions, amount, choice stream): they do
   not depend on the incoming scratch values (temps are overwritten by preprocess, the partial
   derivatives are never read); only the markers and md matter, and those are fixed by Clean. *)
From Coq Require Import List ZArith Bool Lia.
From DD Require Import Model.Circuit Model.Query Model.Enumerate Proofs.QueryDefs Proofs.C07Defs.
Import ListNotations.
Open Scope Z_scope.

(* two scratch states that agree on everything the counting algorithms read *)
Definition same_core (s s' : scratch) : Prop :=
  temps s = temps s' /\ marks s = marks s' /\ mdl s = mdl s'.

Lemma same_core_refl s : same_core s s.
Proof. repeat split. Qed.

Lemma calc_count_marked_node_core d i s s' :
  same_core s s' -> same_core (calc_count_marked_node d i s) (calc_count_marked_node d i s').
Proof.
  intros [Ht [Hm Hd]]. unfold calc_count_marked_node, mixed, same_core. cbn [temps marks mdl].
  rewrite Ht, Hm, Hd. repeat split.
Qed.

Lemma calc_count_core d i s s' :
  same_core s s' -> same_core (calc_count d i s) (calc_count d i s').
Proof.
  intros [Ht [Hm Hd]]. unfold calc_count, same_core. cbn [temps marks mdl].
  rewrite Ht, Hm, Hd. repeat split.
Qed.

Lemma mark_assumptions_core d idx s s' :
  same_core s s' -> same_core (mark_assumptions d idx s) (mark_assumptions d idx s').
Proof.
  intros [Ht [Hm Hd]]. unfold mark_assumptions. rewrite Ht, Hm, Hd.
  destruct (fold_left _ idx (temps s', (marks s', mdl s'))) as [ts [ms md]].
  repeat split.
Qed.

Lemma operate_on_marker_core d idx s s' : same_core s s' ->
  same_core (fst (operate_on_marker d idx s)) (fst (operate_on_marker d idx s')) /\
  snd (operate_on_marker d idx s) = snd (operate_on_marker d idx s').
Proof.
  intros H. unfold operate_on_marker.
  pose proof (mark_assumptions_core d idx s s' H) as H1.
  set (s1 := mark_assumptions d idx s) in *. set (s1' := mark_assumptions d idx s') in *.
  assert (H2 : same_core (fold_left (fun s0 j => calc_count_marked_node d j s0) (mdl s1) s1)
                         (fold_left (fun s0 j => calc_count_marked_node d j s0) (mdl s1') s1')).
  { destruct H1 as [Ht [Hm Hd]]. rewrite Hd.
    apply (fold_left_rel same_core); [|repeat split; assumption].
    intros a b x _ Hab. now apply calc_count_marked_node_core. }
  set (s2 := fold_left _ (mdl s1) s1) in *. set (s2' := fold_left _ (mdl s1') s1') in *.
  destruct H2 as [Ht [Hm Hd]]. cbn [fst snd]. unfold rt, same_core. cbn [temps marks mdl].
  rewrite Ht, Hm, Hd. repeat split.
Qed.

Lemma default_core d fs s s' : same_core s s' ->
  same_core (fst (operate_on_partial_config_default d fs s)) (fst (operate_on_partial_config_default d fs s')) /\
  snd (operate_on_partial_config_default d fs s) = snd (operate_on_partial_config_default d fs s').
Proof.
  intros H. unfold operate_on_partial_config_default.
  destruct (query_is_not_sat d fs); [split; [exact H|reflexivity]|].
  cbn [fst snd].
  match goal with
  | |- same_core (fold_left ?F ?l s) (fold_left ?F ?l s') /\ _ =>
    assert (H2 : same_core (fold_left F l s) (fold_left F l s'))
  end.
  { apply (fold_left_rel same_core); [|exact H].
    intros a b i _ Hab. destruct (nth i (circ d) FalseN) as [l| | | |]; try now apply calc_count_core.
    destruct (memZ (- l) (reduce_query d fs)); [|now apply calc_count_core].
    destruct Hab as [Ht [Hm Hd]]. unfold same_core. cbn [temps marks mdl]. rewrite Ht, Hm, Hd. repeat split. }
  split; [exact H2|]. unfold rt. destruct H2 as [Ht _]. now rewrite Ht.
Qed.

Lemma execute_query_core d fs s s' : same_core s s' ->
  same_core (fst (execute_query d fs s)) (fst (execute_query d fs s')) /\
  snd (execute_query d fs s) = snd (execute_query d fs s').
Proof.
  intros H. unfold execute_query.
  destruct fs as [|f [|g fs]].
  - split; [exact H|reflexivity].
  - unfold card_of_feature_with_marker.
    destruct (has_no_effect d f); [split; [exact H|reflexivity]|].
    destruct (makes_unsat d f); [split; [exact H|reflexivity]|].
    destruct (lit_idx (circ d) (- f)); [now apply operate_on_marker_core|split; [exact H|reflexivity]].
  - destruct (Nat.leb (length (f :: g :: fs)) 20); [|now apply default_core].
    unfold operate_on_partial_config_marker.
    destruct (query_is_not_sat d (f :: g :: fs)); [split; [exact H|reflexivity]|].
    destruct (opposing_indexes d (reduce_query d (f :: g :: fs))); [split; [exact H|reflexivity]|].
    now apply operate_on_marker_core.
Qed.

Lemma preprocess_core d A s s' : marks s = marks s' -> mdl s = mdl s' ->
  match preprocess d A s, preprocess d A s' with
  | Some s1, Some s1' => same_core s1 s1'
  | None, None => True
  | _, _ => False
  end.
Proof.
  intros Hm Hd. unfold preprocess.
  destruct (existsb (fun f => Z.of_nat (nv d) <? Z.abs f) A); [exact I|].
  unfold same_core. cbn [temps marks mdl]. repeat split; assumption.
Qed.

(* the samples and the ok flag do not depend on the incoming temps / pds *)
Theorem urs_scratch_indep d A amount chs s s' :
  marks s = marks s' -> mdl s = mdl s' ->
  snd (fst (uniform_random_sampling d A amount chs s)) =
  snd (fst (uniform_random_sampling d A amount chs s')) /\
  snd (uniform_random_sampling d A amount chs s) = snd (uniform_random_sampling d A amount chs s').
Proof.
  intros Hm Hd. pose proof (preprocess_core d A s s' Hm Hd) as Hp.
  unfold uniform_random_sampling.
  destruct (preprocess d A s) as [s1|], (preprocess d A s') as [s1'|]; try contradiction;
    [|split; reflexivity].
  destruct (execute_query_core d A s1 s1' Hp) as [Hc Hr].
  destruct (execute_query d A s1) as [s2 r], (execute_query d A s1') as [s2' r'].
  cbn [fst snd] in Hc, Hr. subst r'. destruct Hc as [Ht _]. rewrite Ht.
  destruct (0 <? r); [|split; reflexivity].
  destruct (sample_node d (temps s2') (length (circ d)) amount (rootn d) chs) as [[l rest] ok].
  split; reflexivity.
Qed.

Lemma clean_marks C s s' : Clean C s -> Clean C s' -> marks s = marks s' /\ mdl s = mdl s'.
Proof.
  intros H H'. split; [|now rewrite (cl_md C s H), (cl_md C s' H')].
  pose proof (cl_unmarked C s H) as Hu. pose proof (cl_unmarked C s' H') as Hu'.
  pose proof (cl_marks C s H) as Hl. pose proof (cl_marks C s' H') as Hl'.
  rewrite <- Hl' in Hl. clear - Hu Hu' Hl. revert Hu Hu' Hl.
  generalize (marks s) (marks s'). intros m. induction m as [|b m IH]; intros m' Hu Hu' Hl.
  - destruct m'; [reflexivity|discriminate].
  - destruct m' as [|b' m']; [discriminate|].
    inversion Hu; subst. inversion Hu'; subst. f_equal. apply IH; auto.
Qed.

(* for the record: the result is a function of circuit, assumptions, amount and choice stream *)
Theorem urs_function_of_choices C n A amount chs s s' :
  Clean C s -> Clean C s' ->
  snd (fst (uniform_random_sampling (build C n) A amount chs s)) =
  snd (fst (uniform_random_sampling (build C n) A amount chs s')) /\
  snd (uniform_random_sampling (build C n) A amount chs s) =
  snd (uniform_random_sampling (build C n) A amount chs s').
Proof.
  intros H H'. destruct (clean_marks C s s' H H') as [Hm Hd]. now apply urs_scratch_indep.
Qed.
