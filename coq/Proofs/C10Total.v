(* C10: the loader model does not panic on a written file.
   DfsPostOrder on a graph whose edges go to smaller ids (i) terminates within dfs_fuel and
   (ii) emits every node after all its neighbours, so rebuild's `nd_to_usize.get(&n).unwrap()`
   always succeeds. *)
From Coq Require Import List ZArith NArith Bool Lia String.
From DD Require Import Model.Circuit Model.Writer Model.Lexer Model.LoadC2d
  Proofs.PassLemmas Proofs.Enum Proofs.Semantics Proofs.Renum Proofs.C10Lex Proofs.C10Load.
Import ListNotations.
Local Open Scope nat_scope.

(* ---------- lists ---------- *)
Lemma in_split_first (x : nat) (l : list nat) :
  In x l -> exists a b, l = a ++ x :: b /\ ~ In x a.
Proof.
  induction l as [|y l IH]; intros H; [destruct H|].
  destruct (Nat.eq_dec y x) as [->|Hne].
  - exists [], l. split; [reflexivity|intros []].
  - destruct H as [H|H]; [congruence|]. destruct (IH H) as [a [b [-> Hn]]].
    exists (y :: a), b. split; [reflexivity|]. intros [E|E]; [congruence|contradiction].
Qed.

Lemma split_first_unique (x : nat) (a b a' b' : list nat) :
  a ++ x :: b = a' ++ x :: b' -> ~ In x a -> ~ In x a' -> a = a' /\ b = b'.
Proof.
  revert a'. induction a as [|y a IH]; intros a' E Ha Ha'.
  - destruct a' as [|z a']; cbn in E.
    + injection E as ->. auto.
    + injection E as -> _. exfalso. apply Ha'. now left.
  - destruct a' as [|z a']; cbn in E.
    + injection E as -> _. exfalso. apply Ha. now left.
    + injection E as -> E. destruct (IH a' E) as [-> ->]; auto.
      * intros H. apply Ha. now right.
      * intros H. apply Ha'. now right.
Qed.

Lemma split_prefix (x : nat) (p l above below : list nat) :
  p ++ l = above ++ x :: below -> ~ In x p -> ~ In x above ->
  exists above0, above = p ++ above0 /\ l = above0 ++ x :: below.
Proof.
  revert above. induction p as [|y p IH]; intros above E Hp Ha.
  - exists above. auto.
  - destruct above as [|z above]; cbn in E.
    + injection E as -> _. exfalso. apply Hp. now left.
    + injection E as -> E. destruct (IH above E) as [a0 [-> ->]].
      * intros H. apply Hp. now right.
      * intros H. apply Ha. now right.
      * exists a0. auto.
Qed.

Lemma mem_true_iff x l : mem x l = true <-> In x l.
Proof.
  unfold mem. rewrite existsb_exists. split.
  - intros [y [Hy E]]. apply Nat.eqb_eq in E. now subst.
  - intros H. exists x. split; [exact H|apply Nat.eqb_refl].
Qed.

Lemma push_spec_full disc succs : forall stack,
  exists pushed, push_undiscovered disc stack succs = pushed ++ stack /\
                 (forall x, In x pushed -> mem x disc = false /\ In x succs) /\
                 (forall y, In y succs -> mem y disc = false -> In y pushed) /\
                 length pushed <= length succs.
Proof.
  unfold push_undiscovered. induction succs as [|s succs IH]; intros stack.
  - exists []. repeat split; cbn; auto; intros; contradiction.
  - cbn [fold_left]. destruct (mem s disc) eqn:Hm.
    + destruct (IH stack) as [p [Hp [H1 [H2 H3]]]]. exists p. repeat split.
      * exact Hp.
      * now apply H1.
      * right. now apply H1.
      * intros y [<-|Hy] Hd; [congruence|now apply H2].
      * cbn. lia.
    + destruct (IH (s :: stack)) as [p [Hp [H1 [H2 H3]]]]. exists (p ++ [s]). repeat split.
      * rewrite Hp, <- app_assoc. reflexivity.
      * apply in_app_or in H. destruct H as [H|[<-|[]]]; [now apply H1|exact Hm].
      * apply in_app_or in H. destruct H as [H|[<-|[]]]; [right; now apply H1|now left].
      * intros y [<-|Hy] Hd; apply in_or_app; [right; now left|left; now apply H2].
      * rewrite app_length. cbn. lia.
Qed.

(* ---------- the DFS on a graph whose edges point to smaller ids ---------- *)
Section DFS.
Variable g : graph.
Variable V : nat.
Hypothesis Hg : forall x y, In y (neighbors g x) -> y < x.

Definition gray (disc fin : list nat) (x : nat) : Prop := mem x disc = true /\ mem x fin = false.

Record SInv (stack disc fin out : list nat) : Prop := {
  si_valid : Forall (fun x => x < V) stack;
  si_gray_in : forall x, gray disc fin x -> In x stack;
  si_top : forall above x below, stack = above ++ x :: below -> gray disc fin x -> ~ In x above ->
           (forall a, In a above -> a < x) /\
           (forall y, In y (neighbors g x) -> mem y fin = true \/ In y above);
  si_fin_out : forall y, mem y fin = true -> In y out;
  si_post : forall a x b, out = a ++ x :: b -> forall y, In y (neighbors g x) -> In y b;
}.

(* every emitted node comes after all of its neighbours *)
Definition PostOrd (order : list nat) : Prop :=
  forall pre x post, order = pre ++ x :: post -> forall y, In y (neighbors g x) -> In y pre.

Definition deg (x : nat) : nat := length (neighbors g x).
Definition Wl (l disc : list nat) : nat :=
  fold_right (fun x acc => (if mem x disc then 0 else S (deg x)) + acc) 0 l.

Lemma Wl_notin l disc nx : ~ In nx l -> Wl l (nx :: disc) = Wl l disc.
Proof.
  induction l as [|x l IH]; intros H; [reflexivity|].
  cbn [Wl fold_right]. fold (Wl l (nx :: disc)) (Wl l disc). rewrite IH by (intros H'; apply H; now right).
  rewrite mem_cons. destruct (Nat.eqb_spec x nx) as [->|_]; [exfalso; apply H; now left|reflexivity].
Qed.

Lemma Wl_in l disc nx : NoDup l -> In nx l -> mem nx disc = false ->
  Wl l (nx :: disc) + S (deg nx) = Wl l disc.
Proof.
  induction l as [|x l IH]; intros Hnd Hin Hm; [destruct Hin|].
  apply NoDup_cons_iff in Hnd. destruct Hnd as [Hx Hnd'].
  cbn [Wl fold_right]. fold (Wl l (nx :: disc)) (Wl l disc). rewrite mem_cons.
  destruct (Nat.eqb_spec x nx) as [->|Hne].
  - rewrite Hm, Wl_notin by exact Hx. cbn [orb]. lia.
  - destruct Hin as [E|Hin]; [congruence|]. cbn [orb]. specialize (IH Hnd' Hin Hm). lia.
Qed.

Definition W (disc : list nat) : nat := Wl (seq 0 V) disc.

Lemma W_visit disc nx : nx < V -> mem nx disc = false -> W (nx :: disc) + S (deg nx) = W disc.
Proof.
  intros Hlt Hm. apply Wl_in; [apply seq_NoDup| |exact Hm]. apply in_seq. lia.
Qed.

Lemma SInv_visit nx rest disc fin out p :
  SInv (nx :: rest) disc fin out -> mem nx disc = false ->
  (forall x, In x p -> mem x (nx :: disc) = false /\ In x (neighbors g nx)) ->
  (forall y, In y (neighbors g nx) -> mem y (nx :: disc) = false -> In y p) ->
  SInv (p ++ nx :: rest) (nx :: disc) fin out.
Proof.
  intros HI Hm Hp1 Hp2.
  assert (Hnxp : ~ In nx p).
  { intros H. destruct (Hp1 nx H) as [_ Hin]. apply Hg in Hin. lia. }
  constructor.
  - apply Forall_app. split; [|exact (si_valid _ _ _ _ HI)].
    apply Forall_forall. intros y Hy. destruct (Hp1 y Hy) as [_ Hin]. apply Hg in Hin.
    pose proof (si_valid _ _ _ _ HI) as Hv. inversion Hv; subst. lia.
  - intros x [Hd Hf]. rewrite mem_cons in Hd. apply in_or_app. right.
    destruct (Nat.eq_dec x nx) as [E|Hne]; [left; now symmetry|].
    apply Nat.eqb_neq in Hne. rewrite Hne in Hd.
    cbn [orb] in Hd. exact (si_gray_in _ _ _ _ HI x (conj Hd Hf)).
  - intros above x below E [Hd Hf] Hna.
    destruct (Nat.eq_dec x nx) as [->|Hne].
    + destruct (split_first_unique nx above below p rest (eq_sym E) Hna Hnxp) as [-> ->].
      split.
      * intros a Ha. destruct (Hp1 a Ha) as [_ Hin]. now apply Hg.
      * intros y Hy. destruct (mem y (nx :: disc)) eqn:Hyd; [|right; now apply Hp2].
        assert (Hlt : y < nx) by now apply Hg.
        rewrite mem_cons in Hyd. destruct (Nat.eqb_spec y nx) as [->|_]; [lia|]. cbn [orb] in Hyd.
        destruct (mem y fin) eqn:Hyf; [now left|]. exfalso.
        assert (Hin : In y (nx :: rest)) by (apply (si_gray_in _ _ _ _ HI); now split).
        destruct (in_split_first y _ Hin) as [a [b [Es Hya]]].
        destruct (si_top _ _ _ _ HI a y b Es (conj Hyd Hyf) Hya) as [Hlt' _].
        destruct a as [|z a]; cbn in Es; injection Es as Ez Es'; [lia|].
        subst z. specialize (Hlt' nx (or_introl eq_refl)). lia.
    + rewrite mem_cons in Hd. destruct (Nat.eqb_spec x nx) as [->|_]; [congruence|]. cbn [orb] in Hd.
      assert (Hxp : ~ In x p).
      { intros H. destruct (Hp1 x H) as [Hmx _]. rewrite mem_cons, Hd, orb_true_r in Hmx. discriminate. }
      destruct (split_prefix x p (nx :: rest) above below E Hxp Hna) as [a0 [-> E0]].
      assert (Hna0 : ~ In x a0) by (intros H; apply Hna, in_or_app; now right).
      destruct (si_top _ _ _ _ HI a0 x below E0 (conj Hd Hf) Hna0) as [H1 H2].
      assert (Hnx : nx < x).
      { destruct a0 as [|z a0]; cbn in E0; injection E0 as Ez E0'; [congruence|].
        subst z. apply H1. now left. }
      split.
      * intros a Ha. apply in_app_or in Ha. destruct Ha as [Ha|Ha]; [|now apply H1].
        destruct (Hp1 a Ha) as [_ Hin]. apply Hg in Hin. lia.
      * intros y Hy. destruct (H2 y Hy) as [H|H]; [now left|right; apply in_or_app; now right].
  - exact (si_fin_out _ _ _ _ HI).
  - exact (si_post _ _ _ _ HI).
Qed.

Lemma SInv_pop_finished nx rest disc fin out :
  SInv (nx :: rest) disc fin out -> mem nx fin = true -> SInv rest disc fin out.
Proof.
  intros HI Hf. constructor.
  - pose proof (si_valid _ _ _ _ HI) as Hv. now inversion Hv.
  - intros x Hgx. destruct (si_gray_in _ _ _ _ HI x Hgx) as [<-|H]; [|exact H].
    destruct Hgx as [_ Hx]. congruence.
  - intros above x below E Hgx Hna.
    assert (Hne : x <> nx) by (intros ->; destruct Hgx; congruence).
    destruct (si_top _ _ _ _ HI (nx :: above) x below) as [H1 H2].
    + cbn. now rewrite E.
    + exact Hgx.
    + intros [H|H]; [congruence|contradiction].
    + split.
      * intros a Ha. apply H1. now right.
      * intros y Hy. destruct (H2 y Hy) as [H|[<-|H]]; [now left|now left|now right].
  - exact (si_fin_out _ _ _ _ HI).
  - exact (si_post _ _ _ _ HI).
Qed.

Lemma SInv_pop_emit nx rest disc fin out :
  SInv (nx :: rest) disc fin out -> mem nx disc = true -> mem nx fin = false ->
  SInv rest disc (nx :: fin) (nx :: out).
Proof.
  intros HI Hd Hf. constructor.
  - pose proof (si_valid _ _ _ _ HI) as Hv. now inversion Hv.
  - intros x [Hxd Hxf]. rewrite mem_cons in Hxf. apply orb_false_iff in Hxf. destruct Hxf as [Hne Hxf].
    apply Nat.eqb_neq in Hne.
    destruct (si_gray_in _ _ _ _ HI x (conj Hxd Hxf)) as [E|H]; [congruence|exact H].
  - intros above x below E [Hxd Hxf] Hna. rewrite mem_cons in Hxf.
    apply orb_false_iff in Hxf. destruct Hxf as [Hne Hxf]. apply Nat.eqb_neq in Hne.
    destruct (si_top _ _ _ _ HI (nx :: above) x below) as [H1 H2].
    + cbn. now rewrite E.
    + now split.
    + intros [H|H]; [congruence|contradiction].
    + split.
      * intros a Ha. apply H1. now right.
      * intros y Hy. rewrite mem_cons. destruct (H2 y Hy) as [H|[<-|H]].
        -- left. now rewrite H, orb_true_r.
        -- left. now rewrite Nat.eqb_refl.
        -- now right.
  - intros y Hy. rewrite mem_cons in Hy. apply orb_true_iff in Hy. destruct Hy as [Hy|Hy].
    + apply Nat.eqb_eq in Hy. subst. now left.
    + right. now apply (si_fin_out _ _ _ _ HI).
  - intros a x b E y Hy. destruct a as [|z a]; cbn in E; injection E as Ez E'.
    + subst x b. destruct (si_top _ _ _ _ HI [] nx rest eq_refl (conj Hd Hf) (fun H => H)) as [_ H2].
      destruct (H2 y Hy) as [H|[]]. now apply (si_fin_out _ _ _ _ HI).
    + now apply (si_post _ _ _ _ HI a x b E').
Qed.

Lemma dfs_loop_total : forall fuel stack disc fin out,
  SInv stack disc fin out -> length stack + W disc < fuel ->
  exists order, dfs_loop fuel g stack disc fin out = Some order /\ PostOrd order.
Proof.
  induction fuel as [|f IH]; intros stack disc fin out HI Hfuel; [lia|].
  cbn [dfs_loop]. destruct stack as [|nx rest].
  - exists (rev out). split; [reflexivity|].
    intros pre x post E y Hy. apply in_rev.
    apply (si_post _ _ _ _ HI (rev post) x (rev pre)); [|exact Hy].
    rewrite <- (rev_involutive out), E, rev_app_distr. cbn [rev]. now rewrite <- app_assoc.
  - destruct (mem nx disc) eqn:Hd; cbn [negb].
    + destruct (mem nx fin) eqn:Hf.
      * apply IH; [now apply (SInv_pop_finished nx)|cbn [length] in Hfuel; lia].
      * apply IH; [now apply SInv_pop_emit|cbn [length] in Hfuel; lia].
    + destruct (push_spec_full (nx :: disc) (neighbors g nx) (nx :: rest)) as [p [Hp [H1 [H2 H3]]]].
      rewrite Hp. apply IH; [now apply SInv_visit|].
      pose proof (si_valid _ _ _ _ HI) as Hv. inversion Hv as [|? ? Hnx _]; subst.
      pose proof (W_visit disc nx Hnx Hd). rewrite app_length. unfold deg in *.
      cbn [length] in *. lia.
Qed.

Lemma SInv_init root : root < V -> SInv [root] [] [] [].
Proof.
  intros Hr. constructor.
  - constructor; [exact Hr|constructor].
  - intros x [H _]. discriminate.
  - intros above x below _ [H _]. discriminate.
  - intros y H. discriminate.
  - intros a x b E. destruct a; discriminate.
Qed.

(* rebuild's numbering loop succeeds on a post-order *)
Lemma map_opt_total {A B} (f : A -> option B) (l : list A) :
  (forall x, In x l -> f x <> None) -> exists l', map_opt f l = Some l'.
Proof.
  induction l as [|x l IH]; intros H; [now exists []|].
  cbn [map_opt]. destruct (f x) as [y|] eqn:E; [|exfalso; apply (H x); [now left|exact E]].
  destruct IH as [ys ->]; [intros z Hz; apply H; now right|]. now exists (y :: ys).
Qed.

Lemma flatten_total : forall order processed num acc,
  (forall y, In y processed -> lookup num y <> None) ->
  (forall pre x post, order = pre ++ x :: post ->
     forall y, In y (neighbors g x) -> In y processed \/ In y pre) ->
  exists C', flatten g order num acc = Some C'.
Proof.
  induction order as [|nx r IH]; intros processed num acc Hnum Hpo; [now exists acc|].
  cbn [flatten].
  destruct (map_opt_total (lookup ((nx, length acc) :: num)) (neighbors g nx)) as [neighs ->].
  - intros y Hy. cbn [lookup]. destruct (Nat.eqb nx y); [discriminate|].
    apply Hnum. destruct (Hpo [] nx r eq_refl y Hy) as [H|[]]. exact H.
  - apply (IH (nx :: processed)).
    + intros y [<-|Hy]; cbn [lookup]; [now rewrite Nat.eqb_refl|].
      destruct (Nat.eqb nx y); [discriminate|now apply Hnum].
    + intros pre x post E y Hy.
      destruct (Hpo (nx :: pre) x post) with (y := y) as [H|[H|H]]; [now rewrite E|exact Hy| | |].
      * left. now right.
      * left. now left.
      * now right.
Qed.

End DFS.

(* ---------- the loader never panics on the tokens of an indexed, non-empty vector ---------- *)
Lemma W_nil (g : graph) : W g (length g) [] + 2 = dfs_fuel g.
Proof.
  unfold W, dfs_fuel, edge_count, Wl, deg.
  assert (H : forall l, fold_right (fun x acc => (if mem x [] then 0 else S (length (neighbors g x))) + acc) 0 l
                        = length l + fold_right (fun x acc => length (neighbors g x) + acc) 0 l).
  { induction l as [|x l IH]; [reflexivity|]. cbn [fold_right length]. rewrite IH.
    change (mem x []) with false. cbn iota. lia. }
  rewrite H, seq_length. lia.
Qed.

Theorem load_body_total (C : circuit) :
  idx_ok C = true -> C <> [] -> exists C', load_c2d_body (map token_of C) = Some C'.
Proof.
  intros Hok Hne. unfold load_c2d_body. rewrite build_graph_spec. cbn [length app].
  fold (idx_ok C). rewrite Hok.
  destruct (map gnode_of C) as [|g0 g'] eqn:Eg; [destruct C; [congruence|discriminate]|].
  rewrite <- Eg. clear g0 g' Eg.
  set (g := map gnode_of C).
  assert (Hlen : length g = length C) by apply map_length.
  assert (Hg : forall x y, In y (neighbors g x) -> y < x).
  { intros x y Hy. unfold g in Hy. rewrite neighbors_graph in Hy. apply in_rev in Hy.
    destruct (Nat.lt_ge_cases x (length C)) as [Hx|Hx].
    - exact (idx_ok_nth C x FalseN Hok Hx y Hy).
    - rewrite nth_overflow in Hy by lia. destruct Hy. }
  assert (Hroot : length g - 1 < length g) by (rewrite Hlen; destruct C; [congruence|cbn; lia]).
  destruct (dfs_loop_total g (length g) Hg (dfs_fuel g) [length g - 1] [] [] [])
    as [order [Hd Hpo]].
  - now apply SInv_init.
  - pose proof (W_nil g). cbn [length]. lia.
  - unfold dfs_post_order. rewrite Hd.
    apply (flatten_total g order [] [] []).
    + intros y [].
    + intros pre x post E y Hy. right. exact (Hpo pre x post E y Hy).
Qed.

Theorem load_tokens_total (C : circuit) (n : nat) :
  idx_ok C = true -> C <> [] -> (N.of_nat n < two32)%N ->
  exists C', load_c2d (tokens_of C n) = Some (C', n).
Proof.
  intros Hok Hne Hn. destruct (load_body_total C Hok Hne) as [C' H]. exists C'.
  unfold load_c2d, tokens_of. rewrite H. cbn. rewrite N.mod_small by exact Hn. now rewrite Nat2N.id.
Qed.

(* save / reload as a whole: for every well-formed model in machine range the reload succeeds,
   with the same n, a well-formed vector, the same function, count and truth table *)
Theorem save_reload (C : circuit) (n : nat) :
  WF C n -> file_in_range C n -> (N.of_nat n < two32)%N ->
  exists C', load_c2d_lines (write_c2d C n) = Some (C', n) /\
             WF C' n /\
             (forall s, eval_root s C' = eval_root s C) /\
             root_count C' = root_count C /\
             Models C' n = Models C n.
Proof.
  intros HW Hr Hn.
  destruct (load_tokens_total C n (wf_idx _ _ HW) (wf_nonempty _ _ HW) Hn) as [C' H].
  rewrite <- (load_lines_tokens _ _ Hr) in H. exists C'. split; [exact H|].
  split; [exact (reload_lines_wf _ _ _ _ Hr HW H)|].
  split; [exact (proj2 (reload_lines_sem _ _ _ _ Hr Hn H))|].
  split; [exact (reload_lines_count _ _ _ _ Hr HW H)|].
  exact (proj1 (reload_lines_models _ _ _ _ Hr H)).
Qed.
