(* Soundness of the syntactic determinism certificate det_cert. *)
From Coq Require Import List ZArith Bool Lia Permutation.
From DD Require Import Model.Circuit Proofs.PassLemmas Proofs.Enum Proofs.Semantics.
Import ListNotations.

Lemma forced_node_local : local forced_node [].
Proof.
  intros acc acc' [l|cs|cs| |] H; cbn in *; try reflexivity.
  - now rewrite (map_nth_ext acc acc').
  - destruct cs as [|c cs]; [reflexivity|].
    rewrite (H c (or_introl eq_refl)).
    assert (H' : forall c', In c' cs -> nth c' acc [] = nth c' acc' []) by (intros; apply H; now right).
    clear H. generalize (nth c acc' []). induction cs as [|c' cs IH]; intros a; [reflexivity|].
    cbn. rewrite (H' c' (or_introl eq_refl)). apply IH. intros; apply H'; now right.
Qed.

Lemma forceds_unfold C i d : idx_ok C = true -> (i < length C)%nat ->
  nth i (forceds C) d = forced_node (forceds C) (nth i C FalseN).
Proof. intros Hok Hi. apply (pass_unfold forced_node [] d C i forced_node_local Hok Hi). Qed.

Lemma in_prod_component (Ls : list (list cfg)) c :
  In c (prod Ls) -> forall L, In L Ls -> exists x, In x L /\ incl x c.
Proof.
  revert c. induction Ls as [|L0 Ls IH]; intros c Hc L HL; [destruct HL|].
  apply in_prod_cons in Hc. destruct Hc as [x [r [Hx [Hr ->]]]].
  destruct HL as [<-|HL].
  - exists x. split; [exact Hx|]. apply incl_appl, incl_refl.
  - destruct (IH r Hr L HL) as [y [Hy Hinc]]. exists y. split; [exact Hy|].
    apply incl_appr, Hinc.
Qed.

Lemma interZ_In x l1 l2 : In x (interZ l1 l2) <-> In x l1 /\ In x l2.
Proof. unfold interZ. rewrite filter_In, memZ_In. tauto. Qed.

Lemma fold_inter_In (f : nat -> list Z) cs a0 x :
  In x (fold_left (fun a c' => interZ a (f c')) cs a0) ->
  In x a0 /\ forall c', In c' cs -> In x (f c').
Proof.
  revert a0. induction cs as [|c cs IH]; intros a0 H; [split; [exact H|intros ? []]|].
  cbn in H. apply IH in H. destruct H as [H1 H2]. apply interZ_In in H1. destruct H1 as [H1 H1'].
  split; [exact H1|]. intros c' [<-|Hc']; auto.
Qed.

Lemma forced_in_cfg (C : circuit) :
  idx_ok C = true ->
  forall i, (i < length C)%nat ->
  forall c, In c (nth i (enums C) []) -> forall l, In l (nth i (forceds C) []) -> In l c.
Proof.
  intros Hok.
  apply (idx_induction C (fun i => forall c, In c (nth i (enums C) []) ->
                                   forall l, In l (nth i (forceds C) []) -> In l c) Hok).
  intros i Hi IH c Hc l Hl.
  rewrite (enums_unfold C Hok i Hi) in Hc. rewrite (forceds_unfold C i [] Hok Hi) in Hl.
  destruct (nth i C FalseN) as [l0|cs|cs| |] eqn:E; cbn [enum_node forced_node children] in *.
  - destruct Hc as [<-|[]]. exact Hl.
  - apply in_concat in Hl. destruct Hl as [F [HF HlF]].
    apply in_map_iff in HF. destruct HF as [ch [<- Hch]].
    destruct (in_prod_component _ c Hc (nth ch (enums C) [])) as [x [Hx Hinc]].
    { apply in_rev. rewrite rev_involutive. apply in_map_iff. now exists ch. }
    apply Hinc. now apply (IH ch Hch x Hx l).
  - apply in_concat in Hc. destruct Hc as [L [HL HcL]].
    apply in_map_iff in HL. destruct HL as [ch [<- Hch]].
    apply (IH ch Hch c HcL l).
    destruct cs as [|c0 cs]; [destruct Hch|].
    apply fold_inter_In in Hl. destruct Hl as [Hl0 Hlr].
    destruct Hch as [<-|Hch]; [exact Hl0|now apply Hlr].
  - destruct Hl.
  - destruct Hc.
Qed.

Lemma lit_true_conflict s l : l <> 0 -> lit_true s l = true -> lit_true s (- l) = true -> False.
Proof.
  unfold lit_true. intros Hl. destruct (0 <? l) eqn:H1, (0 <? - l) eqn:H2.
  - apply Z.ltb_lt in H1, H2. lia.
  - rewrite Z.opp_involutive. intros H H'. rewrite H in H'. discriminate.
  - intros H H'. rewrite H' in H. discriminate.
  - apply Z.ltb_ge in H1, H2. lia.
Qed.

Lemma pairwise_filter_le1 {A} (R : A -> A -> bool) (p : A -> bool) (cs : list A) :
  pairwise R cs = true ->
  (forall a b, In a cs -> In b cs -> R a b = true -> p a = true -> p b = true -> False) ->
  (length (filter id (map p cs)) <= 1)%nat.
Proof.
  intros Hpw HR. induction cs as [|a cs IH]; [cbn; lia|].
  cbn in Hpw. apply andb_true_iff in Hpw. destruct Hpw as [H1 H2].
  assert (IH' := IH H2 (fun x y Hx Hy => HR x y (or_intror Hx) (or_intror Hy))).
  cbn [map filter]. destruct (p a) eqn:Hpa; unfold id at 1; [|exact IH'].
  assert (Hnil : filter id (map p cs) = []).
  { rewrite forallb_forall in H1.
    assert (HR' : forall b, In b cs -> p b = true -> False).
    { intros b Hb Hpb. apply (HR a b); auto; [now left|now right]. }
    clear - HR'. induction cs as [|b cs IHb]; [reflexivity|].
    cbn [map filter]. destruct (p b) eqn:Hpb; unfold id at 1.
    - exfalso. apply (HR' b); auto. now left.
    - apply IHb. intros x Hx. apply HR'. now right. }
  rewrite Hnil. cbn. lia.
Qed.

Theorem det_cert_sound (C : circuit) :
  idx_ok C = true -> det_cert C = true -> deterministic C.
Proof.
  intros Hok Hcert s i cs Hnth.
  assert (Hi : (i < length C)%nat) by (apply nth_error_Some; congruence).
  assert (Hin : In (Or cs) C) by (eapply nth_error_In; eauto).
  unfold det_cert in Hcert. rewrite forallb_forall in Hcert. specialize (Hcert _ Hin).
  cbn [det_cert_node] in Hcert.
  assert (Hch : forall c, In c cs -> (c < length C)%nat).
  { intros c Hc. assert (nth i C FalseN = Or cs) by (apply nth_error_nth; exact Hnth).
    pose proof (idx_ok_nth C i FalseN Hok Hi c) as Hlt. rewrite H in Hlt. specialize (Hlt Hc). lia. }
  assert (Hgen : forall cs', incl cs' cs ->
     pairwise (fun c1 c2 => (nth c1 (counts C) 0 =? 0) || (nth c2 (counts C) 0 =? 0)
                            || conflictb (nth c1 (forceds C) []) (nth c2 (forceds C) [])) cs' = true ->
     (length (filter id (map (fun c => nth c (evals s C) false) cs')) <= 1)%nat).
  2:{ apply Hgen; [apply incl_refl|exact Hcert]. }
  intros cs' Hinc Hpw. eapply pairwise_filter_le1; [exact Hpw|].
  intros a b Hina Hinb HR Ha Hb. cbn beta in *.
  assert (Hlta : (a < length C)%nat) by (apply Hch, Hinc, Hina).
  assert (Hltb : (b < length C)%nat) by (apply Hch, Hinc, Hinb).
  rewrite eval_enum_nth in Ha, Hb. apply existsb_exists in Ha, Hb.
  destruct Ha as [xa [Hxa Hsa]]. destruct Hb as [xb [Hxb Hsb]].
  apply orb_true_iff in HR. destruct HR as [HR|HR]; [apply orb_true_iff in HR; destruct HR as [HR|HR]|].
  - apply Z.eqb_eq in HR. rewrite <- enum_count_nth in HR.
    destruct (nth a (enums C) []); [destruct Hxa|cbn in HR; lia].
  - apply Z.eqb_eq in HR. rewrite <- enum_count_nth in HR.
    destruct (nth b (enums C) []); [destruct Hxb|cbn in HR; lia].
  - unfold conflictb in HR. apply existsb_exists in HR. destruct HR as [l [Hl Hc]].
    apply andb_true_iff in Hc. destruct Hc as [Hnz Hc]. apply negb_true_iff, Z.eqb_neq in Hnz.
    apply memZ_In in Hc.
    assert (Hla : In l xa) by (eapply (forced_in_cfg C Hok a); eauto).
    assert (Hlb : In (- l) xb) by (eapply (forced_in_cfg C Hok b); eauto).
    unfold sat_cfg in Hsa, Hsb. rewrite forallb_forall in Hsa, Hsb.
    exact (lit_true_conflict s l Hnz (Hsa _ Hla) (Hsb _ Hlb)).
Qed.

(* The boolean checker establishes the WF bundle. *)
Theorem check_wf_sound (C : circuit) (n : nat) : check_wf C n = true -> WF C n.
Proof.
  unfold check_wf. intros H.
  repeat (apply andb_true_iff in H; destruct H as [H ?]).
  constructor; auto.
  - intros ->. cbn in H. discriminate.
  - now apply det_cert_sound.
Qed.
