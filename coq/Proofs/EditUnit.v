(* The unit-clause edit (add_unit_clause + rebuild) on the flattened vector:
   Models (unit_edit C l) n = the models of C that contain l. *)
From Coq Require Import List ZArith Bool Lia.
From DD Require Import Model.Circuit Model.Query Model.Edit Proofs.PassLemmas Proofs.Enum Proofs.Semantics
  Proofs.DetCert Proofs.CountsA Proofs.EditReduce Proofs.EditRenumber.
Import ListNotations.
Open Scope Z_scope.

(* ---------- pruning or-children keeps the vector well-indexed ---------- *)
Lemma children_prune_incl rm nd c : In c (children (prune_node rm nd)) -> In c (children nd).
Proof. destruct nd; cbn; auto. intros H. apply filter_In in H. tauto. Qed.

Lemma prune_length rm C : length (prune rm C) = length C.
Proof. apply map_length. Qed.

Lemma prune_nth rm C i : nth i (prune rm C) FalseN = prune_node rm (nth i C FalseN).
Proof. unfold prune. now rewrite <- (map_nth (prune_node rm) C FalseN i). Qed.

Lemma prune_idx_ok rm C : idx_ok C = true -> idx_ok (prune rm C) = true.
Proof.
  intros Hok. apply idx_ok_intro. intros i Hi c Hc. rewrite prune_length in Hi.
  rewrite prune_nth in Hc. apply children_prune_incl in Hc.
  now apply (idx_ok_nth C i FalseN Hok Hi).
Qed.

(* ---------- G1: dropping or-children that are false under s does not change any value ---------- *)
Lemma existsb_filter_false {A} (v : A -> bool) (keep : A -> bool) (cs : list A) :
  (forall c, In c cs -> keep c = false -> v c = false) ->
  existsb id (map v (filter keep cs)) = existsb id (map v cs).
Proof.
  induction cs as [|c cs IH]; intros H; [reflexivity|].
  cbn [filter map existsb]. destruct (keep c) eqn:E.
  - cbn [map existsb]. f_equal. apply IH. intros c' Hc'. apply H. now right.
  - rewrite (H c (or_introl eq_refl) E). cbn [id orb]. apply IH. intros c' Hc'. apply H. now right.
Qed.

Lemma evals_prune (s : asg) (rm : list bool) (C : circuit) :
  idx_ok C = true ->
  (forall i, (i < length C)%nat -> nth i rm false = true -> nth i (evals s C) false = false) ->
  forall i, (i < length C)%nat -> nth i (evals s (prune rm C)) false = nth i (evals s C) false.
Proof.
  intros Hok Hrm.
  pose proof (prune_idx_ok rm C Hok) as Hok'.
  apply (idx_induction C (fun i => nth i (evals s (prune rm C)) false = nth i (evals s C) false) Hok).
  intros i Hi IH.
  assert (Hi' : (i < length (prune rm C))%nat) by now rewrite prune_length.
  rewrite (evals_unfold (prune rm C) Hok' i Hi' s false), (evals_unfold C Hok i Hi s false), prune_nth.
  destruct (nth i C FalseN) as [l|cs|cs| |] eqn:E; cbn [prune_node eval_node children] in *; try reflexivity.
  - f_equal. apply map_ext_in. intros c Hc. now apply IH.
  - rewrite (existsb_filter_false (fun c => nth c (evals s (prune rm C)) false)
               (fun c => negb (nth c rm false)) cs).
    + f_equal. apply map_ext_in. intros c Hc. now apply IH.
    + intros c Hc Hk. apply negb_false_iff in Hk. rewrite (IH c Hc).
      apply Hrm; [|exact Hk]. pose proof (idx_ok_nth C i FalseN Hok Hi c) as Hlt.
      rewrite E in Hlt. specialize (Hlt Hc). lia.
Qed.

(* ---------- the removed set ---------- *)
Lemma existsb_ext_in {A} (f g : A -> bool) (l : list A) :
  (forall x, In x l -> f x = g x) -> existsb f l = existsb g l.
Proof.
  induction l as [|x l IH]; intros H; [reflexivity|]. cbn. rewrite (H x (or_introl eq_refl)).
  f_equal. apply IH. intros y Hy. apply H. now right.
Qed.

Lemma removed_node_local l : local (removed_node l) false.
Proof.
  intros acc acc' [x|cs|cs| |] H; cbn in *; try reflexivity. apply existsb_ext_in. exact H.
Qed.

Lemma removeds_length C l : length (removeds C l) = length C.
Proof. apply pass_length. Qed.

Lemma removeds_unfold C l i : idx_ok C = true -> (i < length C)%nat ->
  nth i (removeds C l) false = removed_node l (removeds C l) (nth i C FalseN).
Proof. intros Hok Hi. apply (pass_unfold (removed_node l) false false C i (removed_node_local l) Hok Hi). Qed.

Lemma forallb_id_false {A} (v : A -> bool) (cs : list A) c :
  In c cs -> v c = false -> forallb id (map v cs) = false.
Proof.
  induction cs as [|x cs IH]; intros Hin Hv; [destruct Hin|]. cbn.
  destruct Hin as [->|Hin]; [now rewrite Hv|]. rewrite (IH Hin Hv). apply andb_false_r.
Qed.

(* removed nodes are false under every assignment that satisfies l *)
Lemma removed_false (s : asg) (C : circuit) (l : Z) :
  idx_ok C = true -> l <> 0 -> lit_true s l = true ->
  forall i, (i < length C)%nat -> nth i (removeds C l) false = true -> nth i (evals s C) false = false.
Proof.
  intros Hok Hl Hs.
  apply (idx_induction C (fun i => nth i (removeds C l) false = true -> nth i (evals s C) false = false) Hok).
  intros i Hi IH Hr.
  rewrite (removeds_unfold C l i Hok Hi) in Hr. rewrite (evals_unfold C Hok i Hi s false).
  destruct (nth i C FalseN) as [x|cs|cs| |] eqn:E; cbn [removed_node eval_node children] in *; try discriminate.
  - apply Z.eqb_eq in Hr. subst x. rewrite lit_true_neg by exact Hl. now rewrite Hs.
  - apply existsb_exists in Hr. destruct Hr as [c [Hc Hrc]].
    apply (forallb_id_false (fun c => nth c (evals s C) false) cs c Hc). now apply IH.
Qed.

(* ---------- P2: a surviving node over the variable of l can only be true when l is ---------- *)
Lemma smooth_or_child (C : circuit) i cs :
  idx_ok C = true -> smooth C = true -> (i < length C)%nat -> nth i C FalseN = Or cs ->
  forall c v, In c cs -> In v (nth i (varss C) []) -> In v (nth c (varss C) []).
Proof.
  intros Hok Hsm Hi E c v Hc Hv.
  unfold smooth in Hsm. rewrite forallb_forall in Hsm. specialize (Hsm _ (node_in C i Hi)).
  rewrite E in Hsm. cbn [smooth_node] in Hsm. rewrite forallb_forall in Hsm. specialize (Hsm c Hc).
  rewrite inclb_incl in Hsm. apply Hsm.
  rewrite (varss_unfold C Hok i Hi), E in Hv. exact Hv.
Qed.

Lemma abs_eq_cases x l : Z.abs x = Z.abs l -> x = l \/ x = - l.
Proof. lia. Qed.

Lemma pruned_needs_l (s : asg) (C : circuit) (l : Z) :
  idx_ok C = true -> smooth C = true -> l <> 0 ->
  forall i, (i < length C)%nat ->
  nth i (removeds C l) false = false -> In (Z.abs l) (nth i (varss C) []) ->
  nth i (evals s (prune (removeds C l) C)) false = true -> lit_true s l = true.
Proof.
  intros Hok Hsm Hl.
  pose proof (prune_idx_ok (removeds C l) C Hok) as Hok'.
  apply (idx_induction C (fun i => nth i (removeds C l) false = false ->
                                   In (Z.abs l) (nth i (varss C) []) ->
                                   nth i (evals s (prune (removeds C l) C)) false = true ->
                                   lit_true s l = true) Hok).
  intros i Hi IH Hr Hv He.
  assert (Hi' : (i < length (prune (removeds C l) C))%nat) by now rewrite prune_length.
  rewrite (removeds_unfold C l i Hok Hi) in Hr.
  rewrite (evals_unfold _ Hok' i Hi' s false), prune_nth in He.
  pose proof (smooth_or_child C i) as Hsmi.
  rewrite (varss_unfold C Hok i Hi) in Hv.
  destruct (nth i C FalseN) as [x|cs|cs| |] eqn:E;
    cbn [removed_node prune_node eval_node vars_node children] in *.
  - destruct Hv as [Hv|[]]. apply Z.eqb_neq in Hr.
    destruct (abs_eq_cases x l Hv) as [->| ->]; [exact He|congruence].
  - apply in_concat in Hv. destruct Hv as [V [HV Hin]].
    apply in_map_iff in HV. destruct HV as [c [<- Hc]].
    apply (IH c Hc).
    + destruct (nth c (removeds C l) false) eqn:Ec; [|reflexivity].
      assert (existsb (fun c0 => nth c0 (removeds C l) false) cs = true)
        by (apply existsb_exists; now exists c). congruence.
    + exact Hin.
    + rewrite forallb_forall in He. apply (He (nth c (evals s (prune (removeds C l) C)) false)).
      apply in_map_iff. now exists c.
  - apply existsb_exists in He. destruct He as [b [Hb Hid]]. unfold id in Hid. subst b.
    apply in_map_iff in Hb. destruct Hb as [c [Hev Hc]]. apply filter_In in Hc. destruct Hc as [Hc Hk].
    apply negb_true_iff in Hk.
    apply (IH c Hc Hk); [|exact Hev].
    apply (Hsmi cs Hok Hsm Hi eq_refl c (Z.abs l) Hc).
    rewrite (varss_unfold C Hok i Hi), E. exact Hv.
  - destruct Hv.
  - destruct Hv.
Qed.

(* ---------- the value at the root ---------- *)
Lemma last_removeds C l : C <> [] -> last (removeds C l) false = nth (root C) (removeds C l) false.
Proof. intros _. rewrite last_nth, removeds_length. reflexivity. Qed.

Lemma prune_nonempty rm C : C <> [] -> prune rm C <> [].
Proof. destruct C; [congruence|discriminate]. Qed.

Lemma root_prune rm C : root (prune rm C) = root C.
Proof. unfold root. now rewrite prune_length. Qed.

Theorem unit_edit_eval (C : circuit) (n : nat) (l : Z) (s : asg) :
  C <> [] -> idx_ok C = true -> smooth C = true -> complete C n = true ->
  1 <= Z.abs l <= Z.of_nat n ->
  last (removeds C l) false = false ->
  eval_root s (unit_edit C l) = eval_root s C && lit_true s l.
Proof.
  intros Hne Hok Hsm Hco Hl Hlast.
  assert (Hl0 : l <> 0) by lia.
  unfold unit_edit. rewrite Hlast.
  rewrite (eval_root_reflatten s _ (prune_nonempty _ C Hne) (prune_idx_ok _ C Hok)).
  rewrite !eval_root_nth, root_prune.
  pose proof (root_lt C Hne) as Hr.
  rewrite (last_removeds C l Hne) in Hlast.
  destruct (lit_true s l) eqn:Hs.
  - rewrite andb_true_r. apply evals_prune; [exact Hok| |exact Hr].
    intros i Hi Hrm. now apply (removed_false s C l Hok Hl0 Hs).
  - rewrite andb_false_r.
    destruct (nth (root C) (evals s (prune (removeds C l) C)) false) eqn:He; [|reflexivity].
    assert (Hv : In (Z.abs l) (nth (root C) (varss C) [])).
    { pose proof (complete_range C n Hco) as Hrange.
      rewrite last_nth in Hrange. unfold varss in Hrange. rewrite pass_length in Hrange.
      apply Hrange. lia. }
    pose proof (pruned_needs_l s C l Hok Hsm Hl0 (root C) Hr Hlast Hv He). congruence.
Qed.

(* the root survives when some model contains l *)
Lemma lit_true_asg_of n m l : In m (all_cfgs n) -> 1 <= Z.abs l <= Z.of_nat n ->
  lit_true (asg_of m) l = memZ l m.
Proof.
  intros Hm Hl. rewrite <- (canon_asg_of n m Hm) at 2. symmetry. now apply memZ_canon.
Qed.

Lemma root_not_removed (C : circuit) (n : nat) (l : Z) :
  C <> [] -> idx_ok C = true -> 1 <= Z.abs l <= Z.of_nat n -> 0 < MCA C n [l] ->
  last (removeds C l) false = false.
Proof.
  intros Hne Hok Hl Hpos.
  destruct (last (removeds C l) false) eqn:Hlast; [|reflexivity]. exfalso.
  unfold MCA in Hpos. destruct (ModelsA C n [l]) as [|m ms] eqn:Em; [cbn in Hpos; lia|].
  assert (Hin : In m (ModelsA C n [l])) by (rewrite Em; now left).
  unfold ModelsA in Hin. apply filter_In in Hin. destruct Hin as [HM Hc].
  unfold Models in HM. apply filter_In in HM. destruct HM as [Hall Hev].
  cbn in Hc. rewrite andb_true_r in Hc.
  rewrite (last_removeds C l Hne) in Hlast.
  rewrite eval_root_nth in Hev.
  rewrite (removed_false (asg_of m) C l Hok ltac:(lia)) in Hev; [discriminate| |now apply root_lt|exact Hlast].
  now rewrite (lit_true_asg_of n m l Hall Hl).
Qed.

Lemma filter_filter_and {A} (p q : A -> bool) (L : list A) :
  filter p (filter q L) = filter (fun x => q x && p x) L.
Proof.
  induction L as [|x L IH]; [reflexivity|]. cbn. destruct (q x); cbn; [destruct (p x)|]; now rewrite IH.
Qed.

(* Models of the edited vector = the models of C that contain l (list equality) *)
Theorem unit_sem (C : circuit) (n : nat) (l : Z) :
  WF C n -> 1 <= Z.abs l <= Z.of_nat n -> 0 < MCA C n [l] ->
  Models (unit_edit C l) n = filter (contains_all [l]) (Models C n).
Proof.
  intros HWF Hl Hpos. destruct HWF as [Hne Hok _ Hsm Hco _].
  pose proof (root_not_removed C n l Hne Hok Hl Hpos) as Hlast.
  unfold Models. rewrite filter_filter_and. apply filter_ext_in. intros m Hm.
  rewrite (unit_edit_eval C n l (asg_of m) Hne Hok Hsm Hco Hl Hlast).
  f_equal. cbn. rewrite andb_true_r. now apply lit_true_asg_of with (n := n).
Qed.

Corollary unit_sem_A (C : circuit) (n : nat) (l : Z) :
  WF C n -> 1 <= Z.abs l <= Z.of_nat n -> 0 < MCA C n [l] ->
  Models (unit_edit C l) n = ModelsA C n [l].
Proof. intros. unfold ModelsA. now apply unit_sem. Qed.

Corollary unit_MC (C : circuit) (n : nat) (l : Z) :
  WF C n -> 1 <= Z.abs l <= Z.of_nat n -> 0 < MCA C n [l] ->
  MC (unit_edit C l) n = MCA C n [l].
Proof. intros HWF Hl Hp. unfold MC, MCA. now rewrite (unit_sem_A C n l HWF Hl Hp). Qed.

(* every later partial count, SAT answer, enumeration, sample of the edited vector is about the
   conjunction: the models containing A of the edited vector are the models of C containing l and A *)
Corollary unit_sem_assumptions (C : circuit) (n : nat) (l : Z) (A : cfg) :
  WF C n -> 1 <= Z.abs l <= Z.of_nat n -> 0 < MCA C n [l] ->
  ModelsA (unit_edit C l) n A = ModelsA C n (l :: A).
Proof.
  intros HWF Hl Hp. unfold ModelsA. rewrite (unit_sem C n l HWF Hl Hp), filter_filter_and.
  apply filter_ext. intros m. cbn. now rewrite andb_true_r.
Qed.

(* ---------- the cached count of the edited vector (no WF of the edited vector needed) ---------- *)
Lemma zprod_zero_factor (v : nat -> Z) (cs : list nat) c :
  In c cs -> v c = 0 -> zprod (map v cs) = 0.
Proof.
  induction cs as [|x cs IH]; intros Hin Hv; [destruct Hin|]. cbn [map]. rewrite zprod_cons.
  destruct Hin as [->|Hin]; [rewrite Hv; lia|]. rewrite (IH Hin Hv). lia.
Qed.

Lemma countsA_removed (C : circuit) (l : Z) :
  idx_ok C = true ->
  forall i, (i < length C)%nat -> nth i (removeds C l) false = true -> nth i (countsA [l] C) 0 = 0.
Proof.
  intros Hok.
  apply (idx_induction C (fun i => nth i (removeds C l) false = true -> nth i (countsA [l] C) 0 = 0) Hok).
  intros i Hi IH Hr.
  rewrite (removeds_unfold C l i Hok Hi) in Hr. rewrite (countsA_unfold [l] C i 0 Hok Hi).
  destruct (nth i C FalseN) as [x|cs|cs| |] eqn:E; cbn [removed_node countA_node children] in *; try discriminate.
  - apply Z.eqb_eq in Hr. subst x. rewrite Z.opp_involutive. cbn. now rewrite Z.eqb_refl.
  - apply existsb_exists in Hr. destruct Hr as [c [Hc Hrc]].
    apply (zprod_zero_factor (fun c => nth c (countsA [l] C) 0) cs c Hc). now apply IH.
Qed.

Lemma zsum_filter_zero (v w : nat -> Z) (keep : nat -> bool) (cs : list nat) :
  (forall c, In c cs -> keep c = true -> v c = w c) ->
  (forall c, In c cs -> keep c = false -> w c = 0) ->
  zsum (map v (filter keep cs)) = zsum (map w cs).
Proof.
  induction cs as [|c cs IH]; intros H1 H2; [reflexivity|].
  cbn [filter map]. destruct (keep c) eqn:E.
  - cbn [map]. rewrite !zsum_cons, (H1 c (or_introl eq_refl) E). f_equal.
    apply IH; intros c' Hc'; [apply H1|apply H2]; now right.
  - rewrite zsum_cons, (H2 c (or_introl eq_refl) E). cbn.
    apply IH; intros c' Hc'; [apply H1|apply H2]; now right.
Qed.

Lemma counts_prune (C : circuit) (l : Z) :
  idx_ok C = true -> l <> 0 ->
  forall i, (i < length C)%nat -> nth i (removeds C l) false = false ->
  nth i (counts (prune (removeds C l) C)) 0 = nth i (countsA [l] C) 0.
Proof.
  intros Hok Hl.
  pose proof (prune_idx_ok (removeds C l) C Hok) as Hok'.
  apply (idx_induction C (fun i => nth i (removeds C l) false = false ->
            nth i (counts (prune (removeds C l) C)) 0 = nth i (countsA [l] C) 0) Hok).
  intros i Hi IH Hr.
  assert (Hi' : (i < length (prune (removeds C l) C))%nat) by now rewrite prune_length.
  rewrite (removeds_unfold C l i Hok Hi) in Hr.
  rewrite (counts_unfold _ Hok' i Hi' 0), prune_nth, (countsA_unfold [l] C i 0 Hok Hi).
  assert (Hlt : forall c, In c (children (nth i C FalseN)) -> (c < length C)%nat).
  { intros c Hc. pose proof (idx_ok_nth C i FalseN Hok Hi c Hc). lia. }
  destruct (nth i C FalseN) as [x|cs|cs| |] eqn:E;
    cbn [removed_node prune_node count_node countA_node children] in *; try reflexivity.
  - apply Z.eqb_neq in Hr. cbn. destruct (- x =? l) eqn:E2; [apply Z.eqb_eq in E2; lia|reflexivity].
  - f_equal. apply map_ext_in. intros c Hc. apply IH; [exact Hc|].
    destruct (nth c (removeds C l) false) eqn:Ec; [|reflexivity].
    assert (existsb (fun c0 => nth c0 (removeds C l) false) cs = true)
      by (apply existsb_exists; now exists c). congruence.
  - apply zsum_filter_zero.
    + intros c Hc Hk. apply negb_true_iff in Hk. now apply IH.
    + intros c Hc Hk. apply negb_false_iff in Hk. apply countsA_removed; auto.
Qed.

Theorem unit_root_count (C : circuit) (n : nat) (l : Z) :
  WF C n -> 1 <= Z.abs l <= Z.of_nat n -> 0 < MCA C n [l] ->
  root_count (unit_edit C l) = MCA C n [l].
Proof.
  intros HWF Hl Hpos. pose proof HWF as [Hne Hok _ _ _ _].
  pose proof (root_not_removed C n l Hne Hok Hl Hpos) as Hlast.
  unfold unit_edit. rewrite Hlast.
  rewrite (root_count_reflatten _ (prune_nonempty _ C Hne) (prune_idx_ok _ C Hok)).
  rewrite root_count_nth, root_prune.
  rewrite (last_removeds C l Hne) in Hlast.
  rewrite (counts_prune C l Hok ltac:(lia) (root C) (root_lt C Hne) Hlast).
  apply countsA_MCA; [exact HWF|]. intros x [<-|[]]. exact Hl.
Qed.

(* ---------- structure of the edited vector ---------- *)
Theorem unit_edit_idx_ok (C : circuit) (n : nat) (l : Z) :
  WF C n -> 1 <= Z.abs l <= Z.of_nat n -> 0 < MCA C n [l] ->
  unit_edit C l <> [] /\ idx_ok (unit_edit C l) = true.
Proof.
  intros HWF Hl Hpos. pose proof HWF as [Hne Hok _ _ _ _].
  pose proof (root_not_removed C n l Hne Hok Hl Hpos) as Hlast.
  unfold unit_edit. rewrite Hlast. split.
  - apply reflatten_nonempty; [now apply prune_nonempty|now apply prune_idx_ok].
  - apply reflatten_idx_ok; [now apply prune_nonempty|now apply prune_idx_ok].
Qed.

(* the complementary literal is gone: no leaf -l is left in the edited vector *)
