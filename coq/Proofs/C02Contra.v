(* C02: a contradictory assumption list (both x and -x) is contained in no model, whatever its
   length and whichever strategy the length selects: every strategy answers 0. *)
From Coq Require Import List ZArith Bool Lia.
From DD Require Import Model.Circuit Model.Query Proofs.Semantics Proofs.CountsA Proofs.QueryDefs
  Proofs.C05Proof Proofs.C02Proof.
Import ListNotations.
Open Scope Z_scope.

Lemma model_consistent n m x : In m (all_cfgs n) -> In x m -> In (- x) m -> False.
Proof.
  intros Hm Hx Hnx. rewrite <- (canon_asg_of n m Hm) in Hx, Hnx. unfold canon in Hx, Hnx.
  apply in_map_iff in Hx. apply in_map_iff in Hnx.
  destruct Hx as [v [Ev Hv]]. destruct Hnx as [w [Ew Hw]].
  apply zseq_In in Hv. apply zseq_In in Hw.
  destruct (asg_of m v) eqn:Sv; destruct (asg_of m w) eqn:Sw; try lia.
  - assert (v = w) by lia. subst w. congruence.
  - assert (v = w) by lia. subst w. congruence.
Qed.

Lemma filter_nil_all {T} (p : T -> bool) (l : list T) :
  (forall a, In a l -> p a = false) -> filter p l = [].
Proof.
  induction l as [|a l IH]; intros H; [reflexivity|]. cbn [filter].
  rewrite (H a (or_introl eq_refl)). apply IH. intros b Hb. apply H. right. exact Hb.
Qed.

Lemma MCA_contradictory C n A x : In x A -> In (- x) A -> MCA C n A = 0.
Proof.
  intros Hx Hnx. unfold MCA, ModelsA. rewrite filter_nil_all; [reflexivity|].
  intros m Hm. unfold Models in Hm. apply filter_In in Hm. destruct Hm as [Hm _].
  destruct (contains_all A m) eqn:E; [|reflexivity]. exfalso.
  pose proof (proj1 (contains_all_spec A m) E) as Hall.
  exact (model_consistent n m x Hm (Hall x Hx) (Hall (- x) Hnx)).
Qed.

Theorem execute_query_contradictory : forall C n A s x,
  WFQ C n -> in_range n A -> Clean C s -> In x A -> In (- x) A ->
  snd (execute_query (build C n) A s) = 0.
Proof.
  intros C n A s x HW HA HC Hx Hnx.
  pose proof (execute_query_correct C n A s HW HA HC) as H.
  destruct (execute_query (build C n) A s) as [s' r]. destruct H as [Hr _]. cbn [snd].
  rewrite Hr. exact (MCA_contradictory C n A x Hx Hnx).
Qed.
