(* C06, plain-list part: the MIXED-RADIX PREFIX lemma for the cartesian product and the prefix
   lemma for the concatenation, as invariants of the two accumulation loops of enumerate_node.
   Nothing here mentions circuits. *)
From Coq Require Import List ZArith Bool Lia.
From DD Require Import Model.Circuit Model.Query Model.Enumerate Proofs.Enum.
Import ListNotations.
Open Scope Z_scope.

(* ---------- firstn / slice ---------- *)

Lemma firstn_app_le {X} (h : nat) (l1 l2 : list X) :
  (h <= length l1)%nat -> firstn h (l1 ++ l2) = firstn h l1.
Proof.
  intros H. rewrite firstn_app. replace (h - length l1)%nat with 0%nat by lia.
  cbn [firstn]. apply app_nil_r.
Qed.

Lemma firstn_eq_length {X} (h : nat) (l1 l2 : list X) :
  firstn h l1 = firstn h l2 -> (h <= length l1)%nat -> (h <= length l2)%nat.
Proof.
  intros He Hl. apply (f_equal (@length X)) in He. rewrite !firstn_length in He. lia.
Qed.

Lemma slice_firstn_eq {X} (lo hi : Z) (l1 l2 : list X) :
  0 <= lo <= hi ->
  firstn (Z.to_nat hi) l1 = firstn (Z.to_nat hi) l2 -> slice lo hi l1 = slice lo hi l2.
Proof.
  intros Hr He. unfold slice. rewrite !firstn_skipn_comm.
  replace (Z.to_nat lo + Z.to_nat (hi - lo))%nat with (Z.to_nat hi) by lia.
  now rewrite He.
Qed.

Lemma slice_0 {X} (hi : Z) (l : list X) : slice 0 hi l = firstn (Z.to_nat hi) l.
Proof. unfold slice. now rewrite Z.sub_0_r. Qed.

Lemma slice_all {X} (l : list X) : slice 0 (Z.of_nat (length l)) l = l.
Proof. rewrite slice_0, Nat2Z.id. apply firstn_all. Qed.

Lemma slice_length {X} (lo hi : Z) (l : list X) :
  0 <= lo <= hi -> hi <= Z.of_nat (length l) -> Z.of_nat (length (slice lo hi l)) = hi - lo.
Proof. intros H1 H2. unfold slice. rewrite firstn_length, skipn_length. lia. Qed.

Lemma slice_empty {X} (lo : Z) (l : list X) : slice lo lo l = [].
Proof. unfold slice. now rewrite Z.sub_diag. Qed.

Lemma slice_nil {X} (lo hi : Z) : @slice X lo hi [] = [].
Proof. unfold slice. now rewrite skipn_nil, firstn_nil. Qed.

(* consecutive slices glue *)
Lemma skipn_add {X} (a n : nat) (l : list X) : skipn (a + n) l = skipn n (skipn a l).
Proof.
  revert l. induction a as [|a IH]; intros l; [reflexivity|].
  destruct l as [|x l]; [now rewrite !skipn_nil|]. cbn [Nat.add skipn]. apply IH.
Qed.

Lemma firstn_add {X} (n m : nat) (l : list X) :
  firstn n l ++ firstn m (skipn n l) = firstn (n + m) l.
Proof.
  revert l. induction n as [|n IH]; intros l; [reflexivity|].
  destruct l as [|x l]; [now rewrite skipn_nil, !firstn_nil|].
  cbn [Nat.add firstn skipn app]. now rewrite IH.
Qed.

Lemma slice_app {X} (a b c : Z) (l : list X) :
  0 <= a <= b -> b <= c -> slice a b l ++ slice b c l = slice a c l.
Proof.
  intros H1 H2. unfold slice.
  replace (Z.to_nat b) with (Z.to_nat a + Z.to_nat (b - a))%nat by lia.
  rewrite skipn_add, firstn_add. f_equal. lia.
Qed.

(* ---------- one factor of the product ---------- *)

(* prod (T :: Ls) = ext T (prod Ls): T is the slowest factor *)
Definition ext (T P : list cfg) : list cfg := flat_map (fun x => map (fun r => x ++ r) P) T.

Lemma prod_cons T Ls : prod (T :: Ls) = ext T (prod Ls).
Proof. reflexivity. Qed.

Lemma ext_length T P : length (ext T P) = (length T * length P)%nat.
Proof. unfold ext. apply flat_map_length_const. intros x _. apply map_length. Qed.

Lemma ext_app T1 T2 P : ext (T1 ++ T2) P = ext T1 P ++ ext T2 P.
Proof. unfold ext. apply flat_map_app. Qed.

(* the factor of a hidden true node *)
Lemma ext_true P : ext [[]] P = P.
Proof. unfold ext. cbn [flat_map app]. rewrite app_nil_r. apply map_id. Qed.

Lemma ext_single x P : ext [x] P = map (fun r => x ++ r) P.
Proof. unfold ext. cbn [flat_map]. apply app_nil_r. Qed.

Lemma ext_cons x T P : ext (x :: T) P = map (fun r => x ++ r) P ++ ext T P.
Proof. reflexivity. Qed.

(* ---------- invariant of the And loop ----------
   P' = product of the truncated child lists so far, P = product of the full child lists so far
   (both with the LAST child slowest), acc = the running product of the minima. *)
Definition PInv (hi : Z) (P' P : list cfg) (acc : Z) : Prop :=
  Z.of_nat (length P') = acc /\
  firstn (Z.to_nat hi) P' = firstn (Z.to_nat hi) P /\
  (acc < hi -> P' = P) /\
  1 <= acc.

Lemma PInv_init hi : PInv hi (prod []) (prod []) 1.
Proof. repeat split; intros; lia. Qed.

(* a skipped true node: the full product gets the factor [[]] *)
Lemma PInv_true hi P' P acc : PInv hi P' P acc -> PInv hi P' (ext [[]] P) acc.
Proof. now rewrite ext_true. Qed.

(* while acc < hi the child is enumerated up to min hi |T| *)
Lemma PInv_step_lt hi P' P acc (T : list cfg) m :
  PInv hi P' P acc -> acc < hi -> T <> [] -> m = Z.min hi (Z.of_nat (length T)) ->
  PInv hi (ext (firstn (Z.to_nat m) T) P') (ext T P) (acc * m).
Proof.
  intros (Hlen & Hfst & Heq & H1) Hlt HT Hm.
  specialize (Heq Hlt). subst P'.
  assert (HlT : (1 <= length T)%nat) by (destruct T; [congruence|cbn; lia]).
  assert (HL : length (firstn (Z.to_nat m) T) = Z.to_nat m) by (apply firstn_length_le; lia).
  repeat split.
  - rewrite ext_length, HL. nia.
  - destruct (Z.le_gt_cases (Z.of_nat (length T)) hi) as [Hle|Hgt].
    + rewrite (firstn_all2 (n:=Z.to_nat m) T) by lia. reflexivity.
    + assert (Hmh : m = hi) by lia. clear Hm. subst m.
      pose proof (firstn_skipn (Z.to_nat hi) T) as HS.
      set (L := firstn (Z.to_nat hi) T) in *. rewrite <- HS, ext_app.
      symmetry. apply firstn_app_le. rewrite ext_length, HL. nia.
  - intros Hlt'. assert (m < hi) by nia.
    rewrite (firstn_all2 (n:=Z.to_nat m) T) by lia. reflexivity.
  - nia.
Qed.

(* once acc >= hi only the first configuration of the child is used *)
Lemma PInv_step_ge hi P' P acc (T : list cfg) :
  PInv hi P' P acc -> hi <= acc -> T <> [] ->
  PInv hi (ext (firstn 1 T) P') (ext T P) acc.
Proof.
  intros (Hlen & Hfst & Heq & H1) Hge HT.
  destruct T as [|x R]; [congruence|]. cbn [firstn].
  rewrite ext_single, ext_cons.
  repeat split.
  - now rewrite map_length.
  - rewrite firstn_map, Hfst, <- firstn_map. symmetry. apply firstn_app_le.
    rewrite map_length. apply (firstn_eq_length _ P' P Hfst). lia.
  - intros. lia.
  - exact H1.
Qed.

(* ---------- the And loop over abstract children ----------
   istrue c: c is a hidden true node;  tmp c: its temp;  en m c: the recursive call with range
   (0, m);  EOf c: the full enumeration of the child. *)
Section AndLoop.
Variables (istrue : nat -> bool) (tmp : nat -> Z) (en : Z -> nat -> list cfg)
          (EOf : nat -> list cfg) (hi : Z).

Definition and_step (st : list (list cfg) * Z) (c : nat) : list (list cfg) * Z :=
  let '(ls, acc) := st in
  if istrue c then (ls, acc)
  else if acc <? hi then
         let m := Z.min hi (tmp c) in (ls ++ [en m c], acc * m)
       else (ls ++ [firstn 1 (en 1 c)], acc).

Definition child_ok (c : nat) : Prop :=
  if istrue c then EOf c = [[]]
  else EOf c <> [] /\ tmp c = Z.of_nat (length (EOf c)) /\
       forall m, 0 <= m <= tmp c -> en m c = firstn (Z.to_nat m) (EOf c).

Lemma and_step_inv c ls acc Ts :
  child_ok c -> PInv hi (prod (rev ls)) (prod (rev Ts)) acc ->
  PInv hi (prod (rev (fst (and_step (ls, acc) c)))) (prod (rev (Ts ++ [EOf c])))
       (snd (and_step (ls, acc) c)).
Proof.
  intros Hc HI. unfold child_ok in Hc. unfold and_step.
  rewrite (rev_app_distr Ts). cbn [rev app]. rewrite prod_cons.
  destruct (istrue c) eqn:Et.
  - cbn [fst snd]. rewrite Hc. now apply PInv_true.
  - destruct Hc as (Hne & Htmp & Hen).
    pose proof HI as (_ & _ & _ & H1).
    assert (Hl : (1 <= length (EOf c))%nat) by (destruct (EOf c); [congruence|cbn; lia]).
    destruct (acc <? hi) eqn:El; cbn [fst snd]; rewrite rev_app_distr; cbn [rev app];
      rewrite prod_cons.
    + apply Z.ltb_lt in El. rewrite Hen by lia. apply PInv_step_lt; auto. now rewrite Htmp.
    + apply Z.ltb_ge in El. rewrite Hen by lia. rewrite firstn_firstn.
      change (Z.to_nat 1) with 1%nat. cbn [Nat.min]. now apply PInv_step_ge.
Qed.

Lemma and_loop cs :
  (forall c, In c cs -> child_ok c) ->
  forall ls acc Ts,
    PInv hi (prod (rev ls)) (prod (rev Ts)) acc ->
    let st := fold_left and_step cs (ls, acc) in
    PInv hi (prod (rev (fst st))) (prod (rev (Ts ++ map EOf cs))) (snd st).
Proof.
  induction cs as [|c cs IH]; intros Hok ls acc Ts HI.
  - cbn [fold_left map fst snd]. now rewrite app_nil_r.
  - cbn [fold_left map].
    assert (Hc : child_ok c) by (apply Hok; now left).
    assert (Hok' : forall c', In c' cs -> child_ok c') by (intros; apply Hok; now right).
    replace (Ts ++ EOf c :: map EOf cs) with ((Ts ++ [EOf c]) ++ map EOf cs)
      by (now rewrite <- app_assoc).
    pose proof (and_step_inv c ls acc Ts Hc HI) as HI1.
    destruct (and_step (ls, acc) c) as [ls1 acc1]. cbn [fst snd] in HI1.
    now apply IH.
Qed.

Theorem and_loop_prefix cs :
  (forall c, In c cs -> child_ok c) ->
  firstn (Z.to_nat hi) (prod (rev (fst (fold_left and_step cs ([], 1))))) =
  firstn (Z.to_nat hi) (prod (rev (map EOf cs))).
Proof.
  intros Hok. pose proof (and_loop cs Hok [] 1 [] (PInv_init hi)) as H.
  cbn [app] in H. apply H.
Qed.
End AndLoop.

(* ---------- invariant of the Or loop ----------
   l = what was collected, F = concatenation of the full child lists so far *)
Definition OInv (hi : Z) (l F : list cfg) (acc : Z) : Prop :=
  Z.of_nat (length l) = acc /\
  firstn (Z.to_nat hi) l = firstn (Z.to_nat hi) F /\
  (acc < hi -> l = F).

Lemma OInv_init hi : OInv hi [] [] 0.
Proof. repeat split. Qed.

Lemma OInv_step_lt hi l F acc (T : list cfg) m :
  OInv hi l F acc -> acc < hi -> m = Z.min hi (Z.of_nat (length T)) ->
  OInv hi (l ++ firstn (Z.to_nat m) T) (F ++ T) (acc + m).
Proof.
  intros (Hlen & Hfst & Heq) Hlt Hm. specialize (Heq Hlt). subst l.
  assert (HL : length (firstn (Z.to_nat m) T) = Z.to_nat m) by (apply firstn_length_le; lia).
  repeat split.
  - rewrite app_length, HL. lia.
  - destruct (Z.le_gt_cases (Z.of_nat (length T)) hi) as [Hle|Hgt].
    + rewrite (firstn_all2 (n:=Z.to_nat m) T) by lia. reflexivity.
    + rewrite !firstn_app. f_equal. rewrite firstn_firstn. f_equal. lia.
  - intros Hlt'. rewrite (firstn_all2 (n:=Z.to_nat m) T) by lia. reflexivity.
Qed.

Lemma OInv_stop hi l F acc (T : list cfg) :
  OInv hi l F acc -> hi <= acc -> OInv hi l (F ++ T) acc.
Proof.
  intros (Hlen & Hfst & Heq) Hge. repeat split; [exact Hlen| |intros; lia].
  rewrite Hfst. symmetry. apply firstn_app_le. apply (firstn_eq_length _ l F Hfst). lia.
Qed.

Lemma OInv_skip hi l F acc : OInv hi l F acc -> OInv hi l (F ++ []) acc.
Proof. now rewrite app_nil_r. Qed.

Section OrLoop.
Variables (tmp : nat -> Z) (en : Z -> nat -> list cfg) (EOf : nat -> list cfg) (hi : Z).

Definition or_step (st : list cfg * Z * bool) (c : nat) : list cfg * Z * bool :=
  let '(l, acc, stop) := st in
  if stop then st
  else if tmp c =? 0 then st
  else if acc <? hi then
         let m := Z.min hi (tmp c) in (l ++ en m c, acc + m, false)
       else (l, acc, true).

Definition ochild_ok (c : nat) : Prop :=
  tmp c = Z.of_nat (length (EOf c)) /\
  forall m, 0 <= m <= tmp c -> en m c = firstn (Z.to_nat m) (EOf c).

Lemma or_step_inv c l acc stop F :
  ochild_ok c -> OInv hi l F acc -> (stop = true -> hi <= acc) ->
  let st := or_step (l, acc, stop) c in
  OInv hi (fst (fst st)) (F ++ EOf c) (snd (fst st)) /\ (snd st = true -> hi <= snd (fst st)).
Proof.
  intros (Htmp & Hen) HI Hs. unfold or_step.
  pose proof HI as (Hlen & _ & _).
  destruct stop.
  - cbn [fst snd]. split; [|exact Hs]. apply OInv_stop; auto.
  - destruct (tmp c =? 0) eqn:E0.
    + apply Z.eqb_eq in E0. cbn [fst snd]. split; [|exact Hs].
      assert (EOf c = []) as -> by (destruct (EOf c); [reflexivity|cbn in Htmp; lia]).
      now apply OInv_skip.
    + destruct (acc <? hi) eqn:El; cbn [fst snd].
      * apply Z.ltb_lt in El. split; [|discriminate].
        rewrite Hen by lia. apply OInv_step_lt; auto. now rewrite Htmp.
      * apply Z.ltb_ge in El. split; [|intros; lia]. now apply OInv_stop.
Qed.

Lemma or_loop cs :
  (forall c, In c cs -> ochild_ok c) ->
  forall l acc stop F,
    OInv hi l F acc -> (stop = true -> hi <= acc) ->
    let st := fold_left or_step cs (l, acc, stop) in
    OInv hi (fst (fst st)) (F ++ concat (map EOf cs)) (snd (fst st)).
Proof.
  induction cs as [|c cs IH]; intros Hok l acc stop F HI Hs.
  - cbn [fold_left map concat fst snd]. now rewrite app_nil_r.
  - cbn [fold_left map concat]. rewrite app_assoc.
    assert (Hc : ochild_ok c) by (apply Hok; now left).
    assert (Hok' : forall c', In c' cs -> ochild_ok c') by (intros; apply Hok; now right).
    pose proof (or_step_inv c l acc stop F Hc HI Hs) as [HI1 Hs1].
    destruct (or_step (l, acc, stop) c) as [[l1 acc1] stop1]. cbn [fst snd] in HI1, Hs1.
    now apply IH.
Qed.

Theorem or_loop_prefix cs :
  (forall c, In c cs -> ochild_ok c) ->
  firstn (Z.to_nat hi) (fst (fst (fold_left or_step cs ([], 0, false)))) =
  firstn (Z.to_nat hi) (concat (map EOf cs)).
Proof.
  intros Hok.
  pose proof (or_loop cs Hok [] 0 false [] (OInv_init hi) ltac:(discriminate)) as H.
  cbn [app] in H. apply H.
Qed.
End OrLoop.

(* ---------- the mixed-radix prefix lemma, stated without the loop ----------
   trunc hi acc Ts: the child lists as the And loop truncates them (first child first) *)
Fixpoint trunc (hi acc : Z) (Ts : list (list cfg)) : list (list cfg) :=
  match Ts with
  | [] => []
  | T :: Ts' =>
    if acc <? hi then
      let m := Z.min hi (Z.of_nat (length T)) in firstn (Z.to_nat m) T :: trunc hi (acc * m) Ts'
    else firstn 1 T :: trunc hi acc Ts'
  end.

Lemma trunc_inv hi Ts :
  (forall T, In T Ts -> T <> []) ->
  forall Ls0 Ts0 acc, PInv hi (prod (rev Ls0)) (prod (rev Ts0)) acc ->
  firstn (Z.to_nat hi) (prod (rev (Ls0 ++ trunc hi acc Ts))) =
  firstn (Z.to_nat hi) (prod (rev (Ts0 ++ Ts))).
Proof.
  induction Ts as [|T Ts IH]; intros Hne Ls0 Ts0 acc HI.
  - cbn [trunc]. rewrite !app_nil_r. apply HI.
  - assert (HT : T <> []) by (apply Hne; now left).
    assert (Hne' : forall T', In T' Ts -> T' <> []) by (intros; apply Hne; now right).
    cbn [trunc]. destruct (acc <? hi) eqn:El.
    + apply Z.ltb_lt in El.
      replace (Ls0 ++ firstn (Z.to_nat (Z.min hi (Z.of_nat (length T)))) T ::
                   trunc hi (acc * Z.min hi (Z.of_nat (length T))) Ts)
        with ((Ls0 ++ [firstn (Z.to_nat (Z.min hi (Z.of_nat (length T)))) T]) ++
              trunc hi (acc * Z.min hi (Z.of_nat (length T))) Ts) by (now rewrite <- app_assoc).
      replace (Ts0 ++ T :: Ts) with ((Ts0 ++ [T]) ++ Ts) by (now rewrite <- app_assoc).
      apply IH; [exact Hne'|]. rewrite !rev_app_distr. cbn [rev app]. rewrite !prod_cons.
      now apply PInv_step_lt.
    + apply Z.ltb_ge in El.
      replace (Ls0 ++ firstn 1 T :: trunc hi acc Ts)
        with ((Ls0 ++ [firstn 1 T]) ++ trunc hi acc Ts) by (now rewrite <- app_assoc).
      replace (Ts0 ++ T :: Ts) with ((Ts0 ++ [T]) ++ Ts) by (now rewrite <- app_assoc).
      apply IH; [exact Hne'|]. rewrite !rev_app_distr. cbn [rev app]. rewrite !prod_cons.
      now apply PInv_step_ge.
Qed.

(* The first hi elements of the product of the truncated lists are the first hi elements of the
   full product (first list = fastest digit). *)
Theorem mixed_radix_prefix hi (Ts : list (list cfg)) :
  (forall T, In T Ts -> T <> []) ->
  firstn (Z.to_nat hi) (prod (rev (trunc hi 1 Ts))) = firstn (Z.to_nat hi) (prod (rev Ts)).
Proof. intros Hne. exact (trunc_inv hi Ts Hne [] [] 1 (PInv_init hi)). Qed.
