(* C20: calc_best_config returns a maximal-value model containing the assumptions. *)
From Coq Require Import List ZArith Bool Lia Permutation.
From DD Require Import Model.Circuit Model.Optimal Proofs.PassLemmas Proofs.Enum Proofs.Semantics
  Proofs.TopK Proofs.OptimalBridge.
Import ListNotations.
Open Scope Z_scope.

Definition best_ok (vals : list Z) (E : list cfg) (r : option oc) : Prop :=
  match r with
  | None => E = []
  | Some x => (exists c, In c E /\ x = tag vals c) /\ forall e, In e E -> cval vals e <= snd x
  end.

(* ---------- max_last ---------- *)

Lemma max_step_fold (l : list oc) (b : option oc) :
  match fold_left max_step l b with
  | None => b = None /\ l = []
  | Some x => (Some x = b \/ In x l)
              /\ (forall y, b = Some y -> snd y <= snd x) /\ (forall y, In y l -> snd y <= snd x)
  end.
Proof.
  revert b. induction l as [|a l IH]; intros b.
  - cbn. destruct b as [x|]; [|now split]. split; [now left|]. split; [|intros y []].
    intros y Hy. inversion Hy. lia.
  - cbn [fold_left]. specialize (IH (max_step b a)).
    destruct (fold_left max_step l (max_step b a)) as [x|].
    + destruct IH as (Hin & Hb & Hl). split; [|split].
      * destruct Hin as [Hin|Hin]; [|right; now right].
        unfold max_step in Hin. destruct b as [y|].
        -- destruct (snd a <? snd y); inversion Hin; subst; [now left|right; now left].
        -- inversion Hin. right. now left.
      * intros y ->. cbn [max_step] in Hb. destruct (snd a <? snd y) eqn:E.
        -- now apply Hb.
        -- apply Z.ltb_ge in E. specialize (Hb a eq_refl). lia.
      * intros y [->|Hy]; [|now apply Hl].
        unfold max_step in Hb. destruct b as [z|].
        -- destruct (snd y <? snd z) eqn:E; [|now apply Hb].
           apply Z.ltb_lt in E. specialize (Hb z eq_refl). lia.
        -- now apply Hb.
    + destruct IH as [IH _]. unfold max_step in IH. destruct b as [y|]; [destruct (snd a <? snd y)|]; discriminate.
Qed.

Lemma max_last_spec (l : list oc) :
  match max_last l with
  | None => l = []
  | Some x => In x l /\ forall y, In y l -> snd y <= snd x
  end.
Proof.
  unfold max_last. pose proof (max_step_fold l None) as H.
  destruct (fold_left max_step l None) as [x|].
  - destruct H as ([H|H] & _ & Hl); [discriminate|]. now split.
  - now destruct H.
Qed.

(* ---------- Or ---------- *)

Lemma in_flat_some {A} (l : list (option A)) x : In x (flat_some l) <-> In (Some x) l.
Proof.
  unfold flat_some. rewrite in_flat_map. split.
  - intros (o & Ho & Hx). destruct o as [y|]; [|destruct Hx]. destruct Hx as [->|[]]. exact Ho.
  - intros H. exists (Some x). split; [exact H|now left].
Qed.

Lemma best_or vals (Es : list (list cfg)) (rs : list (option oc)) :
  Forall2 (best_ok vals) Es rs -> best_ok vals (concat Es) (max_last (flat_some rs)).
Proof.
  intros HF. pose proof (max_last_spec (flat_some rs)) as H.
  destruct (max_last (flat_some rs)) as [x|]; cbn [best_ok].
  - destruct H as [Hin Hmax]. apply in_flat_some in Hin. split.
    + destruct (Forall2_in_r_ex _ _ _ HF (Some x) Hin) as (E & HE & Hok).
      cbn in Hok. destruct Hok as [(c & Hc & ->) _]. exists c. split; [|reflexivity].
      apply in_concat. now exists E.
    + intros e He. apply in_concat in He. destruct He as (E & HE & He).
      destruct (Forall2_in_l_ex _ _ _ HF E HE) as (r & Hr & Hok).
      destruct r as [y|]; cbn in Hok; [|rewrite Hok in He; destruct He].
      destruct Hok as [_ Hok]. specialize (Hok e He).
      assert (snd y <= snd x) by (apply Hmax; now apply in_flat_some). lia.
  - clear - HF H. induction HF as [|E r Es rs Hok _ IH]; [reflexivity|].
    destruct r as [y|]; [cbn in H; discriminate|]. cbn in Hok. subst E. cbn. apply IH. exact H.
Qed.

(* ---------- And ---------- *)

Lemma prod_empty_factor (Ls : list (list cfg)) : In [] Ls -> prod Ls = [].
Proof.
  induction Ls as [|L Ls IH]; intros H; [destruct H|].
  destruct H as [->|H]; [reflexivity|]. cbn [prod]. rewrite (IH H).
  induction L as [|x L IHL]; [reflexivity|]. cbn. exact IHL.
Qed.

Lemma best_prod vals (Ms : list (list cfg)) (ys : list oc) :
  Forall2 (fun M y => best_ok vals M (Some y)) Ms ys ->
  best_ok vals (prod Ms) (Some (fold_right (fun x r => uni r x) oc_empty ys)).
Proof.
  induction 1 as [|M y Ms ys Hy _ IH]; cbn [fold_right best_ok].
  - split; [exists []; split; [now left|reflexivity]|]. intros e [<-|[]]. cbn. lia.
  - cbn in Hy, IH. destruct Hy as [(c & Hc & ->) Hmax]. destruct IH as [(c' & Hc' & IHeq) IHmax].
    rewrite IHeq. split.
    + exists (c ++ c'). split; [apply in_prod_cons; now exists c, c'|]. symmetry. apply tag_app.
    + intros e He. apply in_prod_cons in He. destruct He as (x & r & Hx & Hr & ->).
      rewrite cval_app, snd_uni. specialize (Hmax x Hx). specialize (IHmax r Hr).
      rewrite IHeq in IHmax. lia.
Qed.

Lemma flat_some_all_some {A} (l : list (option A)) :
  existsb is_none l = false -> l = map Some (flat_some l).
Proof.
  induction l as [|o l IH]; intros H; [reflexivity|]. cbn in H. apply orb_false_iff in H.
  destruct H as [H1 H2]. destruct o as [x|]; [|discriminate]. cbn. f_equal. now apply IH.
Qed.

Lemma best_and vals (Es : list (list cfg)) (rs : list (option oc)) :
  Forall2 (best_ok vals) Es rs ->
  best_ok vals (prod (rev Es))
          (if existsb is_none rs then None else Some (fold_left uni (flat_some rs) oc_empty)).
Proof.
  intros HF. destruct (existsb is_none rs) eqn:Ex.
  - cbn. apply prod_empty_factor. apply in_rev. rewrite rev_involutive.
    apply existsb_exists in Ex. destruct Ex as (r & Hr & Hn). destruct r; [discriminate|].
    destruct (Forall2_in_r_ex _ _ _ HF None Hr) as (E & HE & Hok). cbn in Hok. now subst.
  - rewrite <- fold_left_rev_right. apply best_prod.
    rewrite (flat_some_all_some rs Ex) in HF. clear Ex.
    apply Forall2_rev_both. revert HF. generalize (flat_some rs). intros xs HF.
    remember (map Some xs) as rs' eqn:Heq. revert xs Heq.
    induction HF as [|E r Es rs' Hok _ IH]; intros xs Heq.
    + destruct xs; [constructor|discriminate].
    + destruct xs as [|x xs]; [discriminate|]. cbn in Heq. inversion Heq; subst. constructor; [exact Hok|].
      now apply IH.
Qed.

(* ---------- every node ---------- *)

Lemma best_node_local vals A : local (best_node vals A) None.
Proof.
  intros acc acc' [l|cs|cs| |] H; cbn [best_node children] in *; try reflexivity;
    now rewrite (map_nth_ext acc acc').
Qed.

Lemma bests_unfold vals A C i :
  idx_ok C = true -> (i < length C)%nat ->
  nth i (bests vals A C) None = best_node vals A (bests vals A C) (nth i C FalseN).
Proof. intros Hok Hi. apply (pass_unfold (best_node vals A) None None C i (best_node_local vals A) Hok Hi). Qed.

Theorem best_nodes vals A C :
  idx_ok C = true ->
  forall i, (i < length C)%nat -> best_ok vals (EA A C i) (nth i (bests vals A C) None).
Proof.
  intros Hok.
  apply (idx_induction C (fun i => best_ok vals (EA A C i) (nth i (bests vals A C) None)) Hok).
  intros i Hi IH. rewrite (bests_unfold vals A C i Hok Hi), (EA_unfold A C i Hok Hi).
  destruct (nth i C FalseN) as [l|cs|cs| |]; cbn [best_node children] in *.
  - destruct (memZ (- l) A); cbn; [reflexivity|]. split.
    + exists [l]. split; [now left|reflexivity].
    + intros e [<-|[]]. cbn. lia.
  - rewrite <- (map_map (fun c => nth c (bests vals A C) None) (fun o => o)), map_id.
    apply best_and. now apply Forall2_map_both.
  - apply best_or. now apply Forall2_map_both.
  - cbn. split; [exists []; split; [now left|reflexivity]|]. intros e [<-|[]]. cbn. lia.
  - reflexivity.
Qed.

(* ---------- the root ---------- *)

Lemma calc_best_root vals A C :
  calc_best_config vals A C = nth (root C) (bests vals A C) None.
Proof. unfold calc_best_config, root. rewrite last_nth. unfold bests. now rewrite pass_length. Qed.

Theorem best_correct vals C n A :
  WF C n -> in_range n A ->
  let r := calc_best_config vals A C in
  (r = None <-> MCA C n A = 0) /\
  forall c v, r = Some (c, v) ->
    In (canon_cfg n c) (ModelsA C n A) /\ v = cval vals (canon_cfg n c) /\
    forall m, In m (ModelsA C n A) -> cval vals m <= v.
Proof.
  intros HWF HA r.
  pose proof (best_nodes vals A C (wf_idx C n HWF) (root C) (root_lt C (wf_nonempty C n HWF))) as Hok.
  rewrite <- calc_best_root in Hok. fold r in Hok.
  rewrite (MCA_length C n A HWF HA). split.
  - split.
    + intros Hr. rewrite Hr in Hok. cbn in Hok. now rewrite Hok.
    + intros Hlen. destruct r as [x|]; [|reflexivity]. cbn in Hok.
      destruct Hok as [(c & Hc & _) _]. destruct (EA A C (root C)); [destruct Hc|cbn in Hlen; lia].
  - intros c v Hr. rewrite Hr in Hok. cbn in Hok. destruct Hok as [(c0 & Hc0 & Heq) Hmax].
    unfold tag in Heq. inversion Heq; subst c0 v. clear Heq.
    split; [|split].
    + apply (Permutation_in _ (EA_root_models C n A HWF HA)). now apply in_map.
    + symmetry. now apply (EA_root_cval C n A HWF).
    + intros m Hm. destruct (ModelsA_from_EA C n A HWF HA m Hm) as (e & He & ->).
      rewrite (EA_root_cval C n A HWF vals e He). cbn [snd] in Hmax. now apply Hmax.
Qed.
