(* C14: the invariant of Model/StreamTS.v and its preservation by every atomic action, for any
   number of workers, any input and either version of the main thread. *)
From Coq Require Import List Bool Arith ZArith String Lia Permutation.
From DD Require Import Model.StreamTS.
Import ListNotations.
Open Scope nat_scope.

(* ---- list facts ---- *)
Lemma upd_split : forall A (l : list A) n x y,
  nth_error l n = Some x ->
  exists l1 l2, l = l1 ++ x :: l2 /\ upd l n y = l1 ++ y :: l2 /\ List.length l1 = n.
Proof.
  induction l as [|h t IH]; intros n x y H; destruct n as [|n]; cbn in H; try discriminate.
  - inversion H; subst. exists [], t. repeat split.
  - destruct (IH n x y H) as (l1 & l2 & E1 & E2 & E3).
    exists (h :: l1), l2. cbn [upd]. rewrite E1 at 1. rewrite E2. cbn. repeat split. now rewrite E3.
Qed.

Lemma upd_length : forall A (l : list A) n y, List.length (upd l n y) = List.length l.
Proof. induction l as [|h t IH]; intros [|n] y; cbn; auto. Qed.

Lemma nth_error_app_mono : forall A (a b : list A) i x,
  nth_error a i = Some x -> nth_error (a ++ b) i = Some x.
Proof.
  intros A a b i x H. rewrite nth_error_app1; [exact H|].
  apply nth_error_Some. rewrite H. discriminate.
Qed.

Lemma firstn_snoc : forall A (l : list A) n x,
  nth_error l n = Some x -> firstn (S n) l = firstn n l ++ [x].
Proof.
  induction l as [|h t IH]; intros [|n] x H; cbn in H; try discriminate.
  - inversion H; reflexivity.
  - cbn [firstn app]. f_equal. apply IH; exact H.
Qed.

Lemma firstn_app_le : forall A (a b : list A) n, n <= List.length a -> firstn n (a ++ b) = firstn n a.
Proof.
  intros A a b n H. rewrite firstn_app.
  replace (n - List.length a) with 0 by lia. cbn. apply app_nil_r.
Qed.

(* ---- the heap ---- *)
Fixpoint hsorted (h : list (nat * string)) : Prop :=
  match h with
  | [] => True
  | x :: t => (forall y, In y t -> fst x <= fst y) /\ hsorted t
  end.

Lemma hinsert_perm : forall x h, Permutation (hinsert x h) (x :: h).
Proof.
  induction h as [|y t IH]; cbn [hinsert]; [reflexivity|].
  destruct (fst x <=? fst y); [reflexivity|].
  rewrite IH. apply perm_swap.
Qed.

Lemma hinsert_sorted : forall x h, hsorted h -> hsorted (hinsert x h).
Proof.
  induction h as [|y t IH]; intros Hs; cbn [hinsert].
  - cbn. split; [intros ? []|exact I].
  - destruct (fst x <=? fst y) eqn:E.
    + apply Nat.leb_le in E. cbn [hsorted] in *. destruct Hs as [Hy Ht].
      split; [|split; assumption].
      intros z [->|Hz]; [exact E|]. specialize (Hy z Hz). lia.
    + apply Nat.leb_gt in E. cbn [hsorted] in *. destruct Hs as [Hy Ht].
      split; [|apply IH; exact Ht].
      intros z Hz. apply (Permutation_in _ (hinsert_perm x t)) in Hz.
      destruct Hz as [->|Hz]; [lia|apply Hy; exact Hz].
Qed.

(* ---- the result channel ---- *)
Lemma chan_take_split : forall i c seen a c',
  chan_take i seen c = Some (a, c') ->
  exists l1 w l2, c = l1 ++ (w, (i, a)) :: l2 /\ c' = l1 ++ l2.
Proof.
  induction c as [|[w [j b]] t IH]; intros seen a c' H; cbn [chan_take] in H; [discriminate|].
  destruct (j =? i) eqn:E.
  - apply Nat.eqb_eq in E; subst j. destruct (existsb (Nat.eqb w) seen); [discriminate|].
    inversion H; subst. exists [], w, c'. split; reflexivity.
  - destruct (chan_take i (w :: seen) t) as [[a' t']|] eqn:E2; [|discriminate].
    inversion H; subst. destruct (IH _ _ _ E2) as (l1 & w' & l2 & -> & ->).
    exists ((w, (j, b)) :: l1), w', l2. split; reflexivity.
Qed.

(* per-sender FIFO: what is taken is the oldest message of its sender *)
Lemma chan_take_fifo : forall i c seen a c',
  chan_take i seen c = Some (a, c') ->
  exists l1 w l2, c = l1 ++ (w, (i, a)) :: l2 /\ c' = l1 ++ l2 /\
                  ~ In w seen /\ (forall x, In x l1 -> fst x <> w /\ fst (snd x) <> i).
Proof.
  induction c as [|[w [j b]] t IH]; intros seen a c' H; cbn [chan_take] in H; [discriminate|].
  destruct (j =? i) eqn:E.
  - apply Nat.eqb_eq in E; subst j. destruct (existsb (Nat.eqb w) seen) eqn:Ex; [discriminate|].
    inversion H; subst. exists [], w, c'. split; [reflexivity|]. split; [reflexivity|].
    split; [|intros ? []].
    intro Hin. assert (existsb (Nat.eqb w) seen = true) as X.
    { apply existsb_exists. exists w. split; [exact Hin|apply Nat.eqb_refl]. }
    congruence.
  - destruct (chan_take i (w :: seen) t) as [[a' t']|] eqn:E2; [|discriminate].
    inversion H; subst. destruct (IH _ _ _ E2) as (l1 & w' & l2 & -> & -> & Hs & Hl).
    exists ((w, (j, b)) :: l1), w', l2. split; [reflexivity|]. split; [reflexivity|]. split.
    + intro Hin. apply Hs. right. exact Hin.
    + intros x [<-|Hx]; [|apply Hl; exact Hx]. cbn. split.
      * intro; subst. apply Hs. left. reflexivity.
      * apply Nat.eqb_neq. exact E.
Qed.

(* ---- the requests owned by workers ---- *)
Definition busy_of (k : worker) : list (nat * line) :=
  match w_pc k with WBusy i l => [(i, l)] | _ => [] end.
Definition busy (l : list worker) : list (nat * line) := flat_map busy_of l.

Lemma busy_upd : forall l n k y,
  nth_error l n = Some k ->
  Permutation (busy_of k ++ busy (upd l n y)) (busy_of y ++ busy l).
Proof.
  intros l n k y H. destruct (upd_split _ l n k y H) as (l1 & l2 & -> & -> & _).
  unfold busy. rewrite !flat_map_app. cbn [flat_map].
  rewrite (Permutation_app_swap_app (busy_of k) (flat_map busy_of l1)).
  rewrite (Permutation_app_swap_app (busy_of y) (flat_map busy_of l1)).
  apply Permutation_app_head. apply Permutation_app_swap_app.
Qed.

Lemma busy_upd_same : forall l n k y,
  nth_error l n = Some k -> busy_of y = busy_of k -> busy (upd l n y) = busy l.
Proof.
  intros l n k y H E. destruct (upd_split _ l n k y H) as (l1 & l2 & -> & -> & _).
  unfold busy. rewrite !flat_map_app. cbn [flat_map]. rewrite E. reflexivity.
Qed.

Lemma busy_repeat : forall n, busy (repeat (mkw WTop false) n) = [].
Proof. induction n as [|n IH]; cbn; auto. Qed.

Definition chan_ids (c : list (nat * (nat * string))) : list nat := map (fun x => fst (snd x)) c.

(* every request id that is somewhere in the pipeline, and the ids already printed *)
Definition ids (s : state) : list nat :=
  map fst (queue s) ++ map fst (busy (ws s)) ++ chan_ids (chan s) ++ map fst (heap s)
      ++ seq 0 (output_id s).

Definition post_flush (p : mpc) : bool :=
  match p with DCheck | DRecv | MStop | MJoinU _ | MJoinW _ | MDone => true | _ => false end.
Definition post_drain (p : mpc) : bool :=
  match p with MStop | MJoinU _ | MJoinW _ | MDone => true | _ => false end.

Section S.
Variable answer : line -> string.
Variable repaired : bool.
Notation step := (step answer repaired).
Notation reachable := (reachable answer repaired).

Definition has_line (a : list line) (x : nat * line) : Prop := nth_error a (fst x) = Some (snd x).
Definition has_ans (a : list line) (x : nat * string) : Prop :=
  nth_error (map answer a) (fst x) = Some (snd x).

Record Inv (s : state) : Prop := {
  I_len : List.length (acc s) = next_id s;
  I_le : output_id s <= next_id s;
  (* every id below `id` is at exactly one place: work queue, a busy worker, the result channel,
     the heap, or it has been printed *)
  I_perm : Permutation (ids s) (seq 0 (next_id s));
  I_queue : Forall (has_line (acc s)) (queue s);
  I_busy : Forall (has_line (acc s)) (busy (ws s));
  I_chan : Forall (fun x => has_ans (acc s) (snd x)) (chan s);
  I_heap : Forall (has_ans (acc s)) (heap s);
  I_printed : printed s = map answer (firstn (output_id s) (acc s));
  (* remaining_answers = accepted and not yet received *)
  I_rem : remaining s = Z.of_nat (List.length (queue s) + List.length (busy (ws s)) + List.length (chan s));
  I_sorted : hsorted (heap s);
  I_flushed : repaired = true -> post_flush (pc s) = true -> flushed (heap s) (output_id s) = true;
  I_drained : post_drain (pc s) = true -> remaining s = 0%Z
}.

Ltac sim :=
  cbn [inp sch sclosed acc queue ws chan heap output_id next_id remaining printed pc stop
       set_inp set_sch set_sclosed set_acc set_queue set_ws set_chan set_heap set_output_id
       set_next_id set_remaining set_printed set_pc set_stop set_worker] in *.

Lemma has_line_mono : forall a b x, has_line a x -> has_line (a ++ b) x.
Proof. intros a b x H. unfold has_line in *. apply nth_error_app_mono. exact H. Qed.
Lemma has_ans_mono : forall a b x, has_ans a x -> has_ans (a ++ b) x.
Proof. intros a b x H. unfold has_ans in *. rewrite map_app. apply nth_error_app_mono. exact H. Qed.

Lemma Forall_mono_line : forall a b l, Forall (has_line a) l -> Forall (has_line (a ++ b)) l.
Proof. intros a b l H. eapply Forall_impl; [|exact H]. intros x; apply has_line_mono. Qed.
Lemma Forall_mono_ans : forall a b l, Forall (has_ans a) l -> Forall (has_ans (a ++ b)) l.
Proof. intros a b l H. eapply Forall_impl; [|exact H]. intros x; apply has_ans_mono. Qed.
Lemma Forall_mono_chan : forall a b (l : list (nat * (nat * string))),
  Forall (fun x => has_ans a (snd x)) l -> Forall (fun x => has_ans (a ++ b) (snd x)) l.
Proof. intros a b l H. eapply Forall_impl; [|exact H]. intros x; apply has_ans_mono. Qed.

(* permutations of lists of ids, decided by counting occurrences *)
Ltac permc :=
  apply (Permutation_count_occ Nat.eq_dec); let x := fresh "x" in intro x;
  repeat match goal with
         | H : @Permutation nat _ _ |- _ =>
           let H' := fresh in
           pose proof (proj1 (Permutation_count_occ Nat.eq_dec _ _) H x) as H'; clear H
         end;
  unfold ids, chan_ids in *; sim;
  repeat (rewrite ?map_app, ?count_occ_app, ?seq_S in *; cbn [map fst snd count_occ plus] in * );
  repeat match goal with
         | |- context [Nat.eq_dec ?a ?b] => destruct (Nat.eq_dec a b)
         | H : context [Nat.eq_dec ?a ?b] |- _ => destruct (Nat.eq_dec a b)
         end; lia.

Lemma init_inv : forall input n, Inv (init input n).
Proof.
  intros input n. unfold init. constructor; sim; unfold ids; sim; rewrite ?busy_repeat; cbn;
    try constructor; try reflexivity; try discriminate; auto.
Qed.

Lemma ids_lt : forall s i, Inv s -> In i (ids s) -> i < next_id s.
Proof.
  intros s i H Hi. apply (Permutation_in _ (I_perm s H)) in Hi. apply in_seq in Hi. lia.
Qed.

(* worker-only steps that do not move a request *)
Lemma inv_worker_same : forall s w k y,
  Inv s -> nth_error (ws s) w = Some k -> busy_of y = busy_of k -> Inv (set_worker w y s).
Proof.
  intros s w k y H Hn Hb. pose proof (busy_upd_same _ _ _ _ Hn Hb) as E.
  destruct H. constructor; sim; unfold ids in *; sim; rewrite ?E; assumption.
Qed.

Lemma inv_set_pc : forall s p,
  Inv s ->
  (repaired = true -> post_flush p = true -> flushed (heap s) (output_id s) = true) ->
  (post_drain p = true -> remaining s = 0%Z) ->
  Inv (set_pc p s).
Proof. intros s p H H1 H2. destruct H. constructor; sim; unfold ids in *; sim; assumption. Qed.

Lemma recv_inv : forall s i a c p,
  Inv s -> chan_take i [] (chan s) = Some (a, c) ->
  post_flush p = false -> post_drain p = false ->
  Inv (set_pc p (set_remaining (remaining s - 1)%Z (set_heap (hinsert (i, a) (heap s)) (set_chan c s)))).
Proof.
  intros s i a c p H Ht Hp1 Hp2.
  destruct (chan_take_split _ _ _ _ _ Ht) as (l1 & w & l2 & Ec & ->).
  pose proof (I_chan s H) as Hc. rewrite Ec in Hc.
  apply Forall_app in Hc. destruct Hc as [Hc1 Hc2]. inversion Hc2 as [|? ? Hx Hc3]; subst.
  pose proof (hinsert_perm (i, a) (heap s)) as Hh.
  pose proof (Permutation_map fst Hh) as Hh1. cbn [map fst] in Hh1.
  pose proof (I_perm s H) as Hperm.
  constructor; sim.
  - apply (I_len s H).
  - apply (I_le s H).
  - unfold ids in Hperm. rewrite Ec in Hperm. permc.
  - apply (I_queue s H).
  - apply (I_busy s H).
  - apply Forall_app. split; assumption.
  - eapply Permutation_Forall; [symmetry; exact Hh|]. constructor; [exact Hx|apply (I_heap s H)].
  - apply (I_printed s H).
  - rewrite (I_rem s H), Ec, !app_length. cbn [List.length]. lia.
  - apply hinsert_sorted. apply (I_sorted s H).
  - rewrite Hp1. discriminate.
  - rewrite Hp2. discriminate.
Qed.

Lemma step_inv : forall s e s', Inv s -> step s e s' -> Inv s'.
Proof.
  intros s e s' H Hs. destruct Hs.
  - (* in_read *) destruct H. constructor; sim; unfold ids in *; sim; assumption.
  - (* in_close *) destruct H. constructor; sim; unfold ids in *; sim; assumption.
  - (* stop_seen *) eapply inv_worker_same; eauto. unfold busy_of; cbn [w_pc]. rewrite H1. reflexivity.
  - (* stop_not *) eapply inv_worker_same; eauto. unfold busy_of; cbn [w_pc]. rewrite H1. reflexivity.
  - (* pull *)
    pose proof (busy_upd _ _ _ (mkw (WBusy i l) (w_tok k)) H0) as Hb.
    unfold busy_of at 1 2 in Hb. cbn [w_pc] in Hb. rewrite H1 in Hb. cbn [app] in Hb.
    pose proof (Permutation_map fst Hb) as Hb1. cbn [map fst] in Hb1.
    pose proof (I_perm s H) as Hperm. pose proof (I_queue s H) as Hq. rewrite H2 in Hq.
    inversion Hq as [|? ? Hx Hq']; subst.
    constructor; sim.
    + apply (I_len s H).
    + apply (I_le s H).
    + unfold ids in Hperm. rewrite H2 in Hperm. permc.
    + exact Hq'.
    + eapply Permutation_Forall; [symmetry; exact Hb|]. constructor; [exact Hx|apply (I_busy s H)].
    + apply (I_chan s H).
    + apply (I_heap s H).
    + apply (I_printed s H).
    + rewrite (I_rem s H), H2. rewrite (Permutation_length Hb). cbn [List.length]. lia.
    + apply (I_sorted s H).
    + apply (I_flushed s H).
    + apply (I_drained s H).
  - (* pull_none *) eapply inv_worker_same; eauto. unfold busy_of; cbn [w_pc]. rewrite H1. reflexivity.
  - (* send *)
    pose proof (busy_upd _ _ _ (mkw WTop (w_tok k)) H0) as Hb.
    unfold busy_of at 1 2 in Hb. cbn [w_pc] in Hb. rewrite H1 in Hb. cbn [app] in Hb.
    pose proof (Permutation_map fst Hb) as Hb1. cbn [map fst] in Hb1.
    pose proof (I_perm s H) as Hperm.
    pose proof (I_busy s H) as Hbusy.
    eapply Permutation_Forall in Hbusy; [|symmetry; exact Hb].
    inversion Hbusy as [|? ? Hx Hb']; subst.
    constructor; sim.
    + apply (I_len s H).
    + apply (I_le s H).
    + unfold ids in Hperm. permc.
    + apply (I_queue s H).
    + exact Hb'.
    + apply Forall_app. split; [apply (I_chan s H)|]. constructor; [|constructor].
      unfold has_ans, has_line in *. cbn [fst snd] in *. rewrite nth_error_map, Hx. reflexivity.
    + apply (I_heap s H).
    + apply (I_printed s H).
    + rewrite (I_rem s H). rewrite <- (Permutation_length Hb). rewrite app_length. cbn [List.length]. lia.
    + apply (I_sorted s H).
    + apply (I_flushed s H).
    + apply (I_drained s H).
  - (* wake *) eapply inv_worker_same; eauto. unfold busy_of; cbn [w_pc]. rewrite H1. reflexivity.
  - (* print *)
    subst i. pose proof (I_perm s H) as Hperm. pose proof (I_heap s H) as Hh. rewrite H1 in Hh.
    inversion Hh as [|? ? Hx Hh']; subst.
    assert (output_id s < next_id s) as Hlt.
    { apply ids_lt; [exact H|]. unfold ids. rewrite H1. rewrite !in_app_iff. cbn [map fst In]. do 3 right. left. left. reflexivity. }
    pose proof (I_sorted s H) as Hsrt. rewrite H1 in Hsrt. cbn [hsorted] in Hsrt. destruct Hsrt as [Hmin Hsrt].
    constructor; sim.
    + apply (I_len s H).
    + lia.
    + unfold ids in Hperm. rewrite H1 in Hperm. permc.
    + apply (I_queue s H).
    + apply (I_busy s H).
    + apply (I_chan s H).
    + exact Hh'.
    + rewrite (I_printed s H). unfold has_ans in Hx. cbn [fst snd] in Hx.
      rewrite <- !firstn_map. symmetry. apply firstn_snoc. exact Hx.
    + apply (I_rem s H).
    + exact Hsrt.
    + intros Hr Hp. destruct (pc s); discriminate.
    + intros Hp. destruct (pc s); discriminate.
  - (* print_done *)
    apply inv_set_pc; [exact H| |].
    + intros _ _. exact H1.
    + destruct (pc s); cbn in *; discriminate.
  - (* recv *) apply recv_inv; auto.
  - (* recv_none *) apply inv_set_pc; [exact H| |]; discriminate.
  - (* stdin *)
    apply inv_set_pc; [|discriminate|discriminate].
    destruct H. constructor; sim; unfold ids in *; sim; assumption.
  - (* exit *)
    apply inv_set_pc.
    + destruct H. constructor; sim; unfold ids in *; sim; assumption.
    + unfold after_loop. intros ->. discriminate.
    + unfold after_loop. destruct repaired; discriminate.
  - (* eof *)
    apply inv_set_pc; [exact H| |].
    + unfold after_loop. intros ->. discriminate.
    + unfold after_loop. destruct repaired; discriminate.
  - (* stdin_none *) apply inv_set_pc; [exact H| |]; discriminate.
  - (* push *)
    pose proof (I_perm s H) as Hperm. pose proof (I_len s H) as Hlen. pose proof (I_le s H) as Hle.
    constructor; sim.
    + rewrite app_length. cbn [List.length]. lia.
    + lia.
    + permc.
    + apply Forall_app. split; [apply Forall_mono_line; apply (I_queue s H)|].
      constructor; [|constructor]. unfold has_line. cbn [fst snd].
      rewrite nth_error_app2 by lia. rewrite <- Hlen, Nat.sub_diag. reflexivity.
    + apply Forall_mono_line. apply (I_busy s H).
    + apply Forall_mono_chan. apply (I_chan s H).
    + apply Forall_mono_ans. apply (I_heap s H).
    + rewrite firstn_app_le by lia. apply (I_printed s H).
    + rewrite (I_rem s H), app_length. cbn [List.length]. lia.
    + apply (I_sorted s H).
    + discriminate.
    + discriminate.
  - (* unpark *)
    apply inv_set_pc; [|discriminate|discriminate].
    eapply inv_worker_same; eauto.
  - (* unpark_done *) apply inv_set_pc; [exact H| |]; discriminate.
  - (* drain_more *)
    apply inv_set_pc; [exact H| |].
    + intros Hr _. apply (I_flushed s H Hr). rewrite H0. reflexivity.
    + discriminate.
  - (* drain_done *)
    apply inv_set_pc; [exact H| |].
    + intros Hr _. apply (I_flushed s H Hr). rewrite H0. reflexivity.
    + intros _. exact H1.
  - (* drain_recv *) apply recv_inv; auto.
  - (* stop *)
    apply inv_set_pc.
    + destruct H. constructor; sim; unfold ids in *; sim; assumption.
    + sim. intros Hr _. apply (I_flushed s H Hr). rewrite H0. reflexivity.
    + sim. intros _. apply (I_drained s H). rewrite H0. reflexivity.
  - (* join_unpark *)
    apply inv_set_pc.
    + eapply inv_worker_same; eauto.
    + sim. intros Hr _. apply (I_flushed s H Hr). rewrite H0. reflexivity.
    + sim. intros _. apply (I_drained s H). rewrite H0. reflexivity.
  - (* join *)
    apply inv_set_pc; [exact H| |].
    + intros Hr _. apply (I_flushed s H Hr). rewrite H0. reflexivity.
    + intros _. apply (I_drained s H). rewrite H0. reflexivity.
  - (* finish *)
    apply inv_set_pc; [exact H| |].
    + intros Hr _. apply (I_flushed s H Hr). rewrite H0. reflexivity.
    + intros _. apply (I_drained s H). rewrite H0. reflexivity.
Qed.

Theorem reachable_inv : forall input n s, reachable (init input n) s -> Inv s.
Proof.
  intros input n s R. induction R as [|s e s' R IH Hs]; [apply init_inv|].
  eapply step_inv; eauto.
Qed.

(* ---- consequences ---- *)
Lemma inv_received : forall s, Inv s ->
  remaining s = (Z.of_nat (next_id s) - Z.of_nat (List.length (heap s) + output_id s))%Z.
Proof.
  intros s H. pose proof (Permutation_length (I_perm s H)) as L.
  unfold ids, chan_ids in L. rewrite !app_length, !map_length, !seq_length in L.
  rewrite (I_rem s H). lia.
Qed.

Lemma inv_heap_ge : forall s x, Inv s -> In x (heap s) -> output_id s <= fst x < next_id s.
Proof.
  intros s x H Hx. pose proof (I_perm s H) as P.
  assert (In (fst x) (ids s)) as Hin.
  { unfold ids. rewrite !in_app_iff. right; right; right; left. apply in_map. exact Hx. }
  split; [|apply ids_lt; assumption].
  destruct (le_lt_dec (output_id s) (fst x)) as [|Hlt]; [assumption|exfalso].
  (* fst x would occur twice in ids s, but seq has no duplicates *)
  pose proof (proj1 (Permutation_count_occ Nat.eq_dec _ _) P (fst x)) as C.
  assert (count_occ Nat.eq_dec (seq 0 (next_id s)) (fst x) <= 1) as C1.
  { apply (proj1 (NoDup_count_occ Nat.eq_dec _) (seq_NoDup _ _)). }
  assert (count_occ Nat.eq_dec (map fst (heap s)) (fst x) >= 1) as C2.
  { apply count_occ_In. apply in_map. exact Hx. }
  assert (count_occ Nat.eq_dec (seq 0 (output_id s)) (fst x) >= 1) as C3.
  { apply count_occ_In. apply in_seq. lia. }
  unfold ids in C. rewrite !count_occ_app in C. lia.
Qed.

Lemma order_prefix : forall s, Inv s -> exists rest, map answer (acc s) = printed s ++ rest.
Proof.
  intros s H. exists (map answer (skipn (output_id s) (acc s))).
  rewrite (I_printed s H), <- map_app, firstn_skipn. reflexivity.
Qed.

(* after the drain loop of the repaired main thread nothing is left anywhere *)
Lemma all_answered : forall s,
  repaired = true -> Inv s -> post_drain (pc s) = true -> printed s = map answer (acc s).
Proof.
  intros s Hr H Hp.
  pose proof (I_drained s H Hp) as Hrem.
  assert (post_flush (pc s) = true) as Hpf by (destruct (pc s); try discriminate; reflexivity).
  pose proof (I_flushed s H Hr Hpf) as Hfl.
  pose proof (inv_received s H) as Hrec. rewrite Hrem in Hrec.
  assert (heap s = []) as Hheap.
  { destruct (heap s) as [|[i a] t] eqn:Eh; [reflexivity|exfalso].
    cbn [flushed] in Hfl. apply negb_true_iff, Nat.eqb_neq in Hfl.
    (* output_id is below next_id and neither printed nor anywhere but the heap *)
    pose proof (inv_heap_ge s (i, a) H) as Hi. rewrite Eh in Hi. specialize (Hi (or_introl eq_refl)). cbn in Hi.
    assert (In (output_id s) (ids s)) as Hin.
    { apply (Permutation_in _ (Permutation_sym (I_perm s H))). apply in_seq. lia. }
    pose proof (I_rem s H) as Hr2. rewrite Hrem in Hr2.
    unfold ids in Hin.
    destruct (queue s); [|cbn in Hr2; lia]. destruct (busy (ws s)); [|cbn in Hr2; lia].
    destruct (chan s); [|cbn in Hr2; lia]. cbn [map app chan_ids] in Hin. rewrite Eh in Hin.
    apply in_app_iff in Hin. destruct Hin as [Hin|Hin]; [|apply in_seq in Hin; lia].
    cbn [map fst] in Hin. destruct Hin as [Hin|Hin]; [lia|].
    pose proof (I_sorted s H) as Hs. rewrite Eh in Hs. cbn [hsorted] in Hs. destruct Hs as [Hmin _].
    apply in_map_iff in Hin. destruct Hin as (y & Ey & Hy). specialize (Hmin y Hy). cbn in Hmin. lia. }
  rewrite Hheap in Hrec. cbn [List.length] in Hrec.
  rewrite (I_printed s H). f_equal.
  replace (output_id s) with (List.length (acc s)); [apply firstn_all|].
  rewrite (I_len s H). lia.
Qed.

End S.
