(* Well-formedness of the vector after a unit edit: when the edited vector has no dead node it
   is WF again (so the C02..C07 theorems apply to it verbatim).  Without that hypothesis smooth
   fails (C11_unit_core_refuted). *)
From Coq Require Import List ZArith Bool Lia.
From DD Require Import Model.Circuit Model.Query Model.Edit Proofs.PassLemmas Proofs.Enum Proofs.Semantics
  Proofs.DetCert Proofs.CountsA Proofs.QueryDefs Proofs.C04Proof Proofs.EditReduce Proofs.EditRenumber Proofs.EditUnit.
Import ListNotations.
Open Scope Z_scope.

(* ---------- transport of node-level checks through a renumbering ---------- *)
Definition natural_b {A} (g : list A -> ntype -> bool) (d : A) : Prop :=
  forall acc acc' nd r,
    (forall c, In c (children nd) -> nth (r c) acc' d = nth c acc d) ->
    g acc' (rename r nd) = g acc nd.

Lemma forallb_renumber {A} (f : list A -> ntype -> A) (g : list A -> ntype -> bool) (d : A)
  (P : circuit) (ord : list nat) :
  natural f d -> natural_b g d -> idx_ok P = true -> good_order P ord ->
  (forall i, In i ord -> g (pass f P) (nth i P FalseN) = true) ->
  forallb (g (pass f (renumber ord P))) (renumber ord P) = true.
Proof.
  intros Hf Hg Hok Hgo H. apply forallb_forall. intros nd Hnd.
  apply (In_nth _ _ FalseN) in Hnd. destruct Hnd as [k [Hk <-]].
  rewrite renumber_length in Hk. rewrite (renumber_nth ord P k Hk).
  rewrite (Hg (pass f P) (pass f (renumber ord P)) (nth (nth k ord O) P FalseN) (fun c => index_of c ord)).
  - apply H. now apply nth_In.
  - intros c Hc.
    assert (Hin : In c (firstn k ord)) by now apply (go_closed P ord Hgo k Hk).
    assert (Hin' : In c ord) by (rewrite <- (firstn_skipn k ord); apply in_app_iff; now left).
    rewrite (pass_renumber f d P ord Hf Hok Hgo _ (index_of_lt c ord Hin')).
    now rewrite nth_index_of.
Qed.

Lemma forallb_ext_in {A} (p q : A -> bool) (l : list A) :
  (forall x, In x l -> p x = q x) -> forallb p l = forallb q l.
Proof.
  induction l as [|x l IH]; intros H; [reflexivity|]. cbn. rewrite (H x (or_introl eq_refl)).
  f_equal. apply IH. intros y Hy. apply H. now right.
Qed.

Lemma decomposable_node_natural : natural_b decomposable_node [].
Proof.
  intros acc acc' [l|cs|cs| |] r H; cbn in *; try reflexivity. now rewrite (map_nth_rename acc acc').
Qed.

Lemma smooth_node_natural : natural_b smooth_node [].
Proof.
  intros acc acc' [l|cs|cs| |] r H; cbn in *; try reflexivity.
  rewrite (map_nth_rename acc acc' [] r cs H).
  rewrite forallb_map. apply forallb_ext_in. intros c Hc. now rewrite (H c Hc).
Qed.

(* ---------- the variable sets of the pruned vector ---------- *)
Section Pruned.
Variables (C : circuit) (l : Z).
Hypothesis Hok : idx_ok C = true.
Local Notation rm := (removeds C l).
Local Notation P := (prune (removeds C l) C).

Lemma P_ok : idx_ok P = true.
Proof. apply prune_idx_ok. exact Hok. Qed.

Lemma P_len : length P = length C.
Proof. apply prune_length. Qed.

Lemma varsP_unfold i : (i < length C)%nat ->
  nth i (varss P) [] = vars_node (varss P) (prune_node rm (nth i C FalseN)).
Proof.
  intros Hi. rewrite (varss_unfold P P_ok i ltac:(rewrite P_len; exact Hi)). now rewrite prune_nth.
Qed.

Lemma child_lt i c : (i < length C)%nat -> In c (children (nth i C FalseN)) -> (c < length C)%nat.
Proof. intros Hi Hc. pose proof (idx_ok_nth C i FalseN Hok Hi c Hc). lia. Qed.

Lemma varsP_incl : forall i, (i < length C)%nat ->
  forall v, In v (nth i (varss P) []) -> In v (nth i (varss C) []).
Proof.
  apply (idx_induction C (fun i => forall v, In v (nth i (varss P) []) -> In v (nth i (varss C) [])) Hok).
  intros i Hi IH v Hv. rewrite (varsP_unfold i Hi) in Hv. rewrite (varss_unfold C Hok i Hi).
  destruct (nth i C FalseN) as [x|cs|cs| |] eqn:E; cbn [prune_node vars_node children] in *; try exact Hv.
  - apply in_concat in Hv. destruct Hv as [V [HV Hin]]. apply in_map_iff in HV. destruct HV as [c [<- Hc]].
    apply in_concat. exists (nth c (varss C) []). split; [apply in_map_iff; now exists c|now apply IH].
  - apply in_concat in Hv. destruct Hv as [V [HV Hin]]. apply in_map_iff in HV. destruct HV as [c [<- Hc]].
    apply filter_In in Hc. destruct Hc as [Hc _].
    apply in_concat. exists (nth c (varss C) []). split; [apply in_map_iff; now exists c|now apply IH].
Qed.

(* pairwise disjointness survives shrinking the sets *)
Lemma pairwise_disjoint_shrink (V W : nat -> list Z) (cs : list nat) :
  (forall c, In c cs -> forall v, In v (W c) -> In v (V c)) ->
  pairwise disjointb (map V cs) = true -> pairwise disjointb (map W cs) = true.
Proof.
  induction cs as [|c cs IH]; intros Hsub H; [reflexivity|].
  cbn [map pairwise] in *. apply andb_true_iff in H. destruct H as [H1 H2].
  apply andb_true_iff. split.
  - rewrite forallb_forall in *. intros X HX. apply in_map_iff in HX. destruct HX as [c' [<- Hc']].
    apply disjointb_spec. intros v Hv Hv'.
    specialize (H1 (V c') ltac:(apply in_map_iff; now exists c')).
    rewrite disjointb_spec in H1. apply (H1 v).
    + apply Hsub; [now left|exact Hv].
    + apply Hsub; [now right|exact Hv'].
  - apply IH; [|exact H2]. intros c' Hc'. apply Hsub. now right.
Qed.

Lemma P_decomposable : decomposable C = true -> decomposable P = true.
Proof.
  intros Hdec. unfold decomposable. apply forallb_forall. intros nd Hnd.
  apply (In_nth _ _ FalseN) in Hnd. destruct Hnd as [i [Hi <-]]. rewrite P_len in Hi.
  rewrite prune_nth.
  unfold decomposable in Hdec. rewrite forallb_forall in Hdec. specialize (Hdec _ (node_in C i Hi)).
  destruct (nth i C FalseN) as [x|cs|cs| |] eqn:E; cbn [prune_node decomposable_node] in *; try reflexivity.
  apply (pairwise_disjoint_shrink (fun c => nth c (varss C) []) (fun c => nth c (varss P) []) cs); [|exact Hdec].
  intros c Hc v Hv. apply varsP_incl; [|exact Hv]. apply (child_lt i c Hi). now rewrite E.
Qed.

End Pruned.

(* ---------- live nodes keep their variable set ---------- *)
Lemma counts_nonneg (C : circuit) i : 0 <= nth i (counts C) 0.
Proof. rewrite <- enum_count_nth. lia. Qed.

Lemma zprod_pos_factors (v : nat -> Z) (cs : list nat) :
  (forall c, In c cs -> 0 <= v c) -> 0 < zprod (map v cs) -> forall c, In c cs -> 0 < v c.
Proof.
  induction cs as [|x cs IH]; intros Hnn Hp c Hc; [destruct Hc|].
  cbn [map] in Hp. rewrite zprod_cons in Hp.
  assert (H0 : 0 <= v x) by (apply Hnn; now left).
  assert (H1 : 0 <= zprod (map v cs)).
  { apply zprod_nonneg. intros y Hy. apply in_map_iff in Hy. destruct Hy as [c' [<- Hc']]. apply Hnn. now right. }
  destruct Hc as [->|Hc].
  - destruct (Z.eq_dec (v c) 0) as [E|E]; [rewrite E in Hp; lia|lia].
  - apply IH; auto. intros c' Hc'. apply Hnn. now right. nia.
Qed.

Lemma zsum_pos_exists (v : nat -> Z) (cs : list nat) :
  (forall c, In c cs -> 0 <= v c) -> 0 < zsum (map v cs) -> exists c, In c cs /\ 0 < v c.
Proof.
  induction cs as [|x cs IH]; intros Hnn Hp; [cbn in Hp; lia|].
  cbn [map] in Hp. rewrite zsum_cons in Hp.
  destruct (Z_lt_le_dec 0 (v x)) as [H|H]; [exists x; split; [now left|exact H]|].
  assert (H0 : 0 <= v x) by (apply Hnn; now left).
  destruct IH as [c [Hc Hpos]]; [intros c' Hc'; apply Hnn; now right|lia|].
  exists c. split; [now right|exact Hpos].
Qed.

Section Live.
Variables (C : circuit) (l : Z).
Hypothesis Hok : idx_ok C = true.
Hypothesis Hsm : smooth C = true.
Local Notation rm := (removeds C l).
Local Notation P := (prune (removeds C l) C).

Lemma countsP_unfold i : (i < length C)%nat ->
  nth i (counts P) 0 = count_node (counts P) (prune_node rm (nth i C FalseN)).
Proof.
  intros Hi. rewrite (counts_unfold P (P_ok C l Hok) i ltac:(rewrite prune_length; exact Hi) 0).
  now rewrite prune_nth.
Qed.

Lemma live_vars : forall i, (i < length C)%nat -> 0 < nth i (counts P) 0 ->
  forall v, In v (nth i (varss C) []) -> In v (nth i (varss P) []).
Proof.
  apply (idx_induction C (fun i => 0 < nth i (counts P) 0 ->
            forall v, In v (nth i (varss C) []) -> In v (nth i (varss P) [])) Hok).
  intros i Hi IH Hlive v Hv.
  rewrite (countsP_unfold i Hi) in Hlive. rewrite (varsP_unfold C l Hok i Hi).
  pose proof (smooth_or_child C i) as Hsmi.
  pose proof Hv as Hv0. rewrite (varss_unfold C Hok i Hi) in Hv.
  destruct (nth i C FalseN) as [x|cs|cs| |] eqn:E; cbn [prune_node count_node vars_node children] in *; try exact Hv.
  - apply in_concat in Hv. destruct Hv as [V [HV Hin]]. apply in_map_iff in HV. destruct HV as [c [<- Hc]].
    apply in_concat. exists (nth c (varss P) []). split; [apply in_map_iff; now exists c|].
    apply (IH c Hc); [|exact Hin].
    apply (zprod_pos_factors (fun c => nth c (counts P) 0) cs); auto. intros c' _. apply counts_nonneg.
  - destruct (zsum_pos_exists (fun c => nth c (counts P) 0) _ (fun c' _ => counts_nonneg P c') Hlive) as [c [Hc Hpos]].
    pose proof Hc as Hc'. apply filter_In in Hc'. destruct Hc' as [Hc0 _].
    apply in_concat. exists (nth c (varss P) []). split; [apply in_map_iff; now exists c|].
    apply (IH c Hc0 Hpos). apply (Hsmi cs Hok Hsm Hi eq_refl c v Hc0 Hv0).
Qed.

(* the smoothness check of a node of P all of whose (remaining) children are live *)
Lemma P_smooth_node i : (i < length C)%nat ->
  (forall c, In c (children (nth i P FalseN)) -> 0 < nth c (counts P) 0) ->
  smooth_node (varss P) (nth i P FalseN) = true.
Proof.
  intros Hi Hlive. rewrite prune_nth in *.
  pose proof (smooth_or_child C i) as Hsmi.
  destruct (nth i C FalseN) as [x|cs|cs| |] eqn:E; cbn [prune_node smooth_node children] in *; try reflexivity.
  apply forallb_forall. intros c Hc. apply inclb_incl. intros v Hv.
  pose proof Hc as Hc'. apply filter_In in Hc'. destruct Hc' as [Hc0 _].
  assert (Hclt : (c < length C)%nat) by (apply (child_lt C Hok i c Hi); now rewrite E).
  apply (live_vars c Hclt (Hlive c Hc)).
  apply (Hsmi cs Hok Hsm Hi eq_refl c v Hc0).
  rewrite (varss_unfold C Hok i Hi), E. cbn [vars_node].
  apply in_concat in Hv. destruct Hv as [V [HV Hin]]. apply in_map_iff in HV. destruct HV as [c2 [<- Hc2]].
  apply filter_In in Hc2. destruct Hc2 as [Hc2 _].
  apply in_concat. exists (nth c2 (varss C) []). split; [apply in_map_iff; now exists c2|].
  apply (varsP_incl C l Hok c2); [|exact Hin]. apply (child_lt C Hok i c2 Hi). now rewrite E.
Qed.

End Live.

(* ---------- determinism of the pruned vector ---------- *)
Lemma filter_id_filter_le (v : nat -> bool) (keep : nat -> bool) (cs : list nat) :
  (length (filter id (map v (filter keep cs))) <= length (filter id (map v cs)))%nat.
Proof.
  induction cs as [|c cs IH]; [cbn; lia|]. cbn [filter map].
  destruct (keep c); cbn [map filter]; destruct (v c); unfold id in *; cbn [length]; lia.
Qed.

Lemma filter_all_true {A} (p : A -> bool) (cs : list A) :
  (forall c, In c cs -> p c = true) -> filter p cs = cs.
Proof.
  induction cs as [|c cs IH]; intros H; [reflexivity|]. cbn. rewrite (H c (or_introl eq_refl)).
  f_equal. apply IH. intros c' Hc'. apply H. now right.
Qed.

Section Det.
Variables (C : circuit) (l : Z).
Hypothesis Hok : idx_ok C = true.
Hypothesis Hsm : smooth C = true.
Hypothesis Hl : l <> 0.
Local Notation rm := (removeds C l).
Local Notation P := (prune (removeds C l) C).

(* a node whose variables do not include the variable of l is untouched *)
Lemma untouched (s : asg) : forall i, (i < length C)%nat -> ~ In (Z.abs l) (nth i (varss C) []) ->
  nth i rm false = false /\ nth i (evals s P) false = nth i (evals s C) false.
Proof.
  apply (idx_induction C (fun i => ~ In (Z.abs l) (nth i (varss C) []) ->
            nth i rm false = false /\ nth i (evals s P) false = nth i (evals s C) false) Hok).
  intros i Hi IH Hv.
  rewrite (removeds_unfold C l i Hok Hi).
  rewrite (evals_unfold P (P_ok C l Hok) i ltac:(rewrite prune_length; exact Hi) s false), prune_nth.
  rewrite (evals_unfold C Hok i Hi s false).
  rewrite (varss_unfold C Hok i Hi) in Hv.
  destruct (nth i C FalseN) as [x|cs|cs| |] eqn:E; cbn [removed_node prune_node eval_node vars_node children] in *;
    try (split; reflexivity).
  - split; [|reflexivity]. apply Z.eqb_neq. intros ->. apply Hv. left. lia.
  - assert (Hch : forall c, In c cs -> nth c rm false = false /\
                                       nth c (evals s P) false = nth c (evals s C) false).
    { intros c Hc. apply (IH c Hc). intros Hin. apply Hv. apply in_concat.
      exists (nth c (varss C) []). split; [apply in_map_iff; now exists c|exact Hin]. }
    split.
    + destruct (existsb (fun c => nth c rm false) cs) eqn:Ex; [|reflexivity].
      apply existsb_exists in Ex. destruct Ex as [c [Hc Hr]]. destruct (Hch c Hc) as [H0 _]. congruence.
    + f_equal. apply map_ext_in. intros c Hc. apply (Hch c Hc).
  - assert (Hch : forall c, In c cs -> nth c rm false = false /\
                                       nth c (evals s P) false = nth c (evals s C) false).
    { intros c Hc. apply (IH c Hc). intros Hin. apply Hv. apply in_concat.
      exists (nth c (varss C) []). split; [apply in_map_iff; now exists c|exact Hin]. }
    split; [reflexivity|].
    rewrite (filter_all_true _ cs); [|intros c Hc; destruct (Hch c Hc) as [H0 _]; now rewrite H0].
    f_equal. apply map_ext_in. intros c Hc. apply (Hch c Hc).
Qed.

Lemma P_det (s : asg) : deterministic C ->
  forall i csP, (i < length C)%nat -> nth i P FalseN = Or csP ->
  (length (filter id (map (fun c => nth c (evals s P) false) csP)) <= 1)%nat.
Proof.
  intros Hdet i csP Hi E. rewrite prune_nth in E.
  destruct (nth i C FalseN) as [x|cs0|cs| |] eqn:EC; cbn [prune_node] in E; try discriminate.
  injection E as <-.
  pose proof (Hdet s i cs) as HdC. rewrite (nth_error_nth' C i Hi), EC in HdC. specialize (HdC eq_refl).
  assert (Hclt : forall c, In c cs -> (c < length C)%nat).
  { intros c Hc. apply (child_lt C Hok i c Hi). now rewrite EC. }
  destruct (lit_true s l) eqn:Hs.
  - (* all values unchanged *)
    assert (Hev : forall c, In c cs -> nth c (evals s P) false = nth c (evals s C) false).
    { intros c Hc. apply evals_prune; [exact Hok| |now apply Hclt].
      intros j Hj Hr. now apply (removed_false s C l Hok Hl Hs). }
    rewrite (map_ext_in _ (fun c => nth c (evals s C) false)).
    + pose proof (filter_id_filter_le (fun c => nth c (evals s C) false) (fun c => negb (nth c rm false)) cs). lia.
    + intros c Hc. apply filter_In in Hc. now apply Hev.
  - destruct (in_dec Z.eq_dec (Z.abs l) (nth i (varss C) [])) as [Hin|Hnin].
    + (* every remaining child mentions the variable of l, hence is false *)
      assert (Hall : forall c, In c (filter (fun c => negb (nth c rm false)) cs) ->
                               nth c (evals s P) false = false).
      { intros c Hc. apply filter_In in Hc. destruct Hc as [Hc Hk]. apply negb_true_iff in Hk.
        destruct (nth c (evals s P) false) eqn:Ev; [|reflexivity].
        pose proof (pruned_needs_l s C l Hok Hsm Hl c (Hclt c Hc) Hk
                      (smooth_or_child C i cs Hok Hsm Hi EC c (Z.abs l) Hc Hin) Ev). congruence. }
      rewrite (map_ext_in _ (fun _ => false) _ Hall).
      clear. induction (filter (fun c => negb (nth c rm false)) cs) as [|c r IH]; cbn; [lia|exact IH].
    + assert (Hch : forall c, In c cs -> nth c rm false = false /\
                                         nth c (evals s P) false = nth c (evals s C) false).
      { intros c Hc. apply (untouched s c (Hclt c Hc)). intros Hcin. apply Hnin.
        rewrite (varss_unfold C Hok i Hi), EC. cbn [vars_node]. apply in_concat.
        exists (nth c (varss C) []). split; [apply in_map_iff; now exists c|exact Hcin]. }
      rewrite (filter_all_true _ cs); [|intros c Hc; destruct (Hch c Hc) as [H0 _]; now rewrite H0].
      rewrite (map_ext_in _ (fun c => nth c (evals s C) false)); [exact HdC|].
      intros c Hc. apply (Hch c Hc).
Qed.

End Det.

(* ---------- assembly ---------- *)
Theorem unit_edit_WF (C : circuit) (n : nat) (l : Z) :
  WF C n -> 1 <= Z.abs l <= Z.of_nat n -> 0 < MCA C n [l] ->
  no_dead (unit_edit C l) = true -> WF (unit_edit C l) n.
Proof.
  intros HWF Hl Hpos Hnd. pose proof HWF as [Hne Hok Hdec Hsm Hco Hdet].
  assert (Hl0 : l <> 0) by lia.
  pose proof (root_not_removed C n l Hne Hok Hl Hpos) as Hlast.
  unfold unit_edit in *. rewrite Hlast in *.
  set (P := prune (removeds C l) C) in *.
  assert (HPne : P <> []) by now apply prune_nonempty.
  assert (HPok : idx_ok P = true) by now apply prune_idx_ok.
  destruct (post_order_good P HPne HPok) as [Hgo [pre Epre]].
  unfold reflatten in *. set (ord := post_order P) in *.
  assert (Hordlt : forall i, In i ord -> (i < length C)%nat).
  { intros i Hi. pose proof (go_lt P ord Hgo i Hi) as H. unfold P in H. now rewrite prune_length in H. }
  (* every node of the order is live *)
  assert (Hlive : forall i, In i ord -> 0 < nth i (counts P) 0).
  { intros i Hi. apply (In_nth _ _ O) in Hi. destruct Hi as [k [Hk <-]].
    unfold counts. rewrite <- (pass_renumber count_node 0 P ord count_node_natural HPok Hgo k Hk).
    unfold no_dead, counts in Hnd. rewrite forallb_forall in Hnd. apply Z.ltb_lt. apply Hnd.
    apply nth_In. rewrite pass_length, renumber_length. exact Hk. }
  assert (Hchild : forall i, In i ord -> forall c, In c (children (nth i P FalseN)) -> In c ord).
  { intros i Hi c Hc. apply (In_nth _ _ O) in Hi. destruct Hi as [k [Hk <-]].
    pose proof (go_closed P ord Hgo k Hk c Hc) as Hin.
    rewrite <- (firstn_skipn k ord). apply in_app_iff. now left. }
  assert (Hroot : In (root C) ord).
  { rewrite Epre. apply in_app_iff. right. left. unfold root, P. now rewrite prune_length. }
  constructor.
  - now apply reflatten_nonempty.
  - now apply renumber_idx_ok.
  - (* decomposable *)
    unfold decomposable. apply (forallb_renumber vars_node decomposable_node [] P ord
                                  vars_node_natural decomposable_node_natural HPok Hgo).
    intros i Hi. pose proof (P_decomposable C l Hok Hdec) as HPd. unfold decomposable in HPd.
    rewrite forallb_forall in HPd. apply HPd. apply node_in. now apply (go_lt P ord Hgo).
  - (* smooth *)
    unfold smooth. apply (forallb_renumber vars_node smooth_node [] P ord
                            vars_node_natural smooth_node_natural HPok Hgo).
    intros i Hi. apply (P_smooth_node C l Hok Hsm i (Hordlt i Hi)).
    intros c Hc. apply Hlive. now apply (Hchild i Hi).
  - (* complete *)
    unfold complete. rewrite last_nth. unfold varss at 1 3. rewrite pass_length.
    fold (root (renumber ord P)). fold (varss (renumber ord P)).
    pose proof (pass_reflatten_root vars_node [] P vars_node_natural HPne HPok) as Hv.
    unfold reflatten in Hv. fold ord in Hv. fold (varss (renumber ord P)) in Hv. fold (varss P) in Hv.
    rewrite Hv. replace (root P) with (root C) by (unfold root, P; now rewrite prune_length).
    unfold complete in Hco. rewrite last_nth in Hco. unfold varss at 1 3 in Hco. rewrite pass_length in Hco.
    fold (root C) in Hco. fold (varss C) in Hco.
    apply andb_true_iff in Hco. destruct Hco as [H1 H2]. rewrite inclb_incl in H1, H2.
    apply andb_true_iff. split; apply inclb_incl; intros v Hvv.
    + apply H1. apply (varsP_incl C l Hok (root C) (root_lt C Hne) v Hvv).
    + apply (live_vars C l Hok Hsm (root C) (root_lt C Hne) (Hlive _ Hroot)). now apply H2.
  - (* deterministic *)
    intros s k cs' Hnth.
    assert (Hk : (k < length ord)%nat).
    { rewrite <- (renumber_length ord P). apply nth_error_Some. congruence. }
    pose proof (nth_error_nth (renumber ord P) k FalseN Hnth) as Enode.
    rewrite (renumber_nth ord P k Hk) in Enode.
    destruct (nth (nth k ord O) P FalseN) as [x|cs0|csP| |] eqn:EP; cbn [rename] in Enode; try discriminate.
    injection Enode as <-. rewrite map_map.
    assert (Hi : In (nth k ord O) ord) by now apply nth_In.
    rewrite (map_ext_in _ (fun c => nth c (evals s P) false)).
    + apply (P_det C l Hok Hsm Hl0 s Hdet (nth k ord O) csP (Hordlt _ Hi) EP).
    + intros c Hc.
      assert (Hin : In c (firstn k ord)) by (apply (go_closed P ord Hgo k Hk); now rewrite EP).
      assert (Hin' : In c ord) by (rewrite <- (firstn_skipn k ord); apply in_app_iff; now left).
      unfold evals.
      rewrite (pass_renumber (eval_node s) false P ord (eval_node_natural s) HPok Hgo _ (index_of_lt c ord Hin')).
      now rewrite nth_index_of.
Qed.

(* ---------- the remaining components of WFQ ---------- *)
Lemma lits_of_In (C : circuit) x : In x (lits_of C) <-> In (Lit x) C.
Proof.
  unfold lits_of. rewrite in_flat_map. split.
  - intros [nd [Hnd Hx]]. destruct nd as [y|cs|cs| |]; try (now destruct Hx). destruct Hx as [<-|[]]. exact Hnd.
  - intros H. exists (Lit x). split; [exact H|now left].
Qed.

Lemma rename_lit r nd x : rename r nd = Lit x -> nd = Lit x.
Proof. destruct nd; cbn; congruence. Qed.

Lemma prune_node_lit rm nd x : prune_node rm nd = Lit x -> nd = Lit x.
Proof. destruct nd; cbn; congruence. Qed.

Lemma unique_leaves_intro (C : circuit) :
  (forall u k x, (u < length C)%nat -> (k < length C)%nat ->
                 nth u C FalseN = Lit x -> nth k C FalseN = Lit x -> u = k) ->
  unique_leaves C = true.
Proof.
  unfold unique_leaves. induction C as [|nd C IH]; intros H; [reflexivity|].
  assert (IH' : nodupb (lits_of C) = true).
  { apply IH. intros u k x Hu Hk Eu Ek.
    specialize (H (S u) (S k) x ltac:(cbn; lia) ltac:(cbn; lia) Eu Ek). lia. }
  destruct nd as [x|cs|cs| |]; cbn [lits_of flat_map app]; fold (lits_of C); try exact IH'.
  cbn [nodupb]. rewrite IH', andb_true_r. apply negb_true_iff. apply memZ_false. intros Hin.
  apply lits_of_In in Hin. apply (In_nth _ _ FalseN) in Hin. destruct Hin as [k [Hk Ek]].
  specialize (H O (S k) x ltac:(cbn; lia) ltac:(cbn; lia) eq_refl Ek). discriminate.
Qed.

Lemma index_of_nth_nodup (l : list nat) k : NoDup l -> (k < length l)%nat -> index_of (nth k l O) l = k.
Proof.
  revert k. induction l as [|y l IH]; intros k Hn Hk; [cbn in Hk; lia|].
  inversion Hn as [|y' l' Hy Hn']; subst. destruct k as [|k]; cbn [nth index_of].
  - now rewrite Nat.eqb_refl.
  - cbn in Hk. destruct (Nat.eqb (nth k l O) y) eqn:E.
    + apply Nat.eqb_eq in E. exfalso. apply Hy. rewrite <- E. apply nth_In. lia.
    + f_equal. apply IH; [exact Hn'|lia].
Qed.

Theorem unit_edit_WFQ (C : circuit) (n : nat) (l : Z) :
  WFQ C n -> 1 <= Z.abs l <= Z.of_nat n -> 0 < MCA C n [l] ->
  no_dead (unit_edit C l) = true -> WFQ (unit_edit C l) n.
Proof.
  intros [HWF Hun Hreach Hnz] Hl Hpos Hnd.
  pose proof (unit_edit_WF C n l HWF Hl Hpos Hnd) as HWF'.
  pose proof HWF as [Hne Hok _ _ _ _].
  pose proof (root_not_removed C n l Hne Hok Hl Hpos) as Hlast.
  unfold unit_edit in *. rewrite Hlast in *.
  set (P := prune (removeds C l) C) in *.
  assert (HPne : P <> []) by now apply prune_nonempty.
  assert (HPok : idx_ok P = true) by now apply prune_idx_ok.
  destruct (post_order_spec P HPne HPok) as [Hgo [[pre Epre] [Hnodup Hpar]]].
  unfold reflatten in *. set (ord := post_order P) in *.
  assert (Hordlt : forall i, In i ord -> (i < length C)%nat).
  { intros i Hi. pose proof (go_lt P ord Hgo i Hi) as H. unfold P in H. now rewrite prune_length in H. }
  assert (Hlitnode : forall k x, (k < length ord)%nat -> nth k (renumber ord P) FalseN = Lit x ->
                                 nth (nth k ord O) C FalseN = Lit x).
  { intros k x Hk E. rewrite (renumber_nth ord P k Hk) in E. apply rename_lit in E.
    unfold P in E. rewrite prune_nth in E. now apply prune_node_lit in E. }
  constructor.
  - exact HWF'.
  - (* unique leaves *)
    apply unique_leaves_intro. intros u k x Hu Hk Eu Ek. rewrite renumber_length in Hu, Hk.
    pose proof (Hlitnode u x Hu Eu) as Eu'. pose proof (Hlitnode k x Hk Ek) as Ek'.
    assert (E : nth u ord O = nth k ord O).
    { apply (unique_leaves_inj C _ _ x Hun); auto; apply Hordlt; now apply nth_In. }
    apply (proj1 (NoDup_nth ord O) Hnodup u k Hu Hk E).
  - (* every non-root node has a parent *)
    unfold all_reachable. apply forallb_forall. intros k Hk. apply in_seq in Hk.
    rewrite renumber_length in Hk.
    assert (Hk' : (k < length ord)%nat) by lia.
    assert (Hlen : length ord = S (length pre)) by (rewrite Epre, app_length; cbn; lia).
    assert (Hx : In (nth k ord O) ord) by now apply nth_In.
    destruct (Hpar _ Hx) as [Hr|[y [Hy Hxy]]].
    + exfalso. assert (E : nth k ord O = nth (length pre) ord O).
      { rewrite Hr. rewrite Epre, app_nth2, Nat.sub_diag by lia. reflexivity. }
      apply (proj1 (NoDup_nth ord O) Hnodup k (length pre) Hk' ltac:(lia)) in E. lia.
    + unfold has_parent. apply existsb_exists.
      exists (nth (index_of y ord) (renumber ord P) FalseN). split.
      * apply nth_In. rewrite renumber_length. now apply index_of_lt.
      * rewrite (renumber_nth ord P _ (index_of_lt y ord Hy)), (nth_index_of y ord O Hy), children_rename.
        apply existsb_exists. exists (index_of (nth k ord O) ord). split.
        -- apply in_map_iff. now exists (nth k ord O).
        -- rewrite (index_of_nth_nodup ord k Hnodup Hk'). apply Nat.eqb_refl.
  - (* literals are non-zero *)
    unfold lits_nonzero in *. rewrite forallb_forall in *. intros x Hx.
    apply lits_of_In in Hx. apply (In_nth _ _ FalseN) in Hx. destruct Hx as [k [Hk Ek]].
    rewrite renumber_length in Hk. pose proof (Hlitnode k x Hk Ek) as E.
    apply Hnz. apply lits_of_In. rewrite <- E. apply nth_In. apply Hordlt. now apply nth_In.
Qed.
