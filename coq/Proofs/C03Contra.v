(* C03: a contradictory assumption list is unsatisfiable, whatever its length. *)
From Coq Require Import List ZArith Bool Lia.
From DD Require Import Model.Circuit Model.Query Proofs.Semantics Proofs.CountsA Proofs.QueryDefs
  Proofs.C03Proof Proofs.C02Contra.
Import ListNotations.
Open Scope Z_scope.

Theorem sat_contradictory : forall C n A x,
  WFQ C n -> 0 < root_count C -> in_range n A -> In x A -> In (- x) A ->
  sat (build C n) A = false.
Proof.
  intros C n A x HW Hrc HA Hx Hnx. rewrite (sat_correct C n A HW Hrc HA).
  rewrite (MCA_contradictory C n A x Hx Hnx). reflexivity.
Qed.
