(* C14: the statements used by Props/C14.v, for every answer function, worker count, input and
   interleaving. *)
From Coq Require Import List Bool Arith ZArith String Lia Permutation.
From DD Require Import Model.StreamTS Proofs.StreamStepf Proofs.StreamInv Proofs.StreamLive.
Import ListNotations.
Open Scope nat_scope.

Lemma main_inv : forall answer repaired input n s,
  reachable answer repaired (init input n) s -> Inv answer repaired s.
Proof. intros; eapply reachable_inv; eauto. Qed.

Lemma main_counts : forall answer repaired input n s,
  reachable answer repaired (init input n) s ->
  remaining s = (Z.of_nat (next_id s) - Z.of_nat (List.length (heap s) + output_id s))%Z /\
  List.length (acc s) = next_id s /\
  (forall x, In x (heap s) -> output_id s <= fst x < next_id s) /\
  NoDup (ids s).
Proof.
  intros answer repaired input n s R. pose proof (main_inv _ _ _ _ _ R) as H.
  split; [eapply inv_received; eauto|]. split; [apply (I_len _ _ s H)|].
  split; [intros x Hx; eapply inv_heap_ge; eauto|].
  eapply Permutation_NoDup; [symmetry; apply (I_perm _ _ s H)|apply seq_NoDup].
Qed.

Lemma main_order : forall answer repaired input n s,
  reachable answer repaired (init input n) s ->
  printed s = firstn (output_id s) (map answer (acc s)) /\
  exists rest, map answer (acc s) = printed s ++ rest.
Proof.
  intros answer repaired input n s R. pose proof (main_inv _ _ _ _ _ R) as H.
  split; [rewrite firstn_map; apply (I_printed _ _ s H)|eapply order_prefix; eauto].
Qed.

Lemma main_all_answered : forall answer input n s,
  reachable answer true (init input n) s -> terminated s -> printed s = map answer (acc s).
Proof.
  intros answer input n s R T. eapply all_answered; [reflexivity|eapply main_inv; eauto|].
  unfold terminated in T. rewrite T. reflexivity.
Qed.

Lemma main_output_spec : forall answer input n s,
  reachable answer true (init input n) s -> terminated s ->
  printed s = map answer (before_exit input).
Proof.
  intros answer input n s R T. rewrite (main_all_answered _ _ _ _ R T). f_equal.
  eapply accepted_spec; eauto. unfold terminated in T. rewrite T. reflexivity.
Qed.

Lemma main_same_as_single_worker : forall answer input n s s1,
  reachable answer true (init input n) s -> terminated s ->
  reachable answer true (init input 1) s1 -> terminated s1 ->
  printed s = printed s1.
Proof.
  intros answer input n s s1 R T R1 T1.
  rewrite (main_output_spec _ _ _ _ R T), (main_output_spec _ _ _ _ R1 T1). reflexivity.
Qed.

(* two workers, the second request overtakes the first; the heap holds it back *)
Definition ex_input : list line := ["a"; "b"]%string.
Definition ex_trace : list event :=
  [ EInRead; EInRead; EMPrintDone; EMRecvNone; EMStdin "a"%string; EMPush 0; EMUnpark 0; EMUnpark 1; EMUnparkDone;
    EMPrintDone; EMRecvNone; EMStdin "b"%string; EMPush 1; EMUnpark 0; EMUnpark 1; EMUnparkDone;
    EWStopNot 0; EWPull 0 0; EWStopNot 1; EWPull 1 1; EWSend 1 1;
    EMPrintDone; EMRecv 1; EMStdinNone; EMUnpark 0; EMUnpark 1; EMUnparkDone;
    EMPrintDone; EMRecvNone; EInClose; EMEof; EMPrintDone; EMDrainMore;
    EWSend 0 0; EMDrainRecv 0; EMPrint 0; EMPrint 1; EMPrintDone; EMDrainDone; EMStop;
    EMJoinUnpark 0; EWStopSeen 0; EMJoin 0; EMJoinUnpark 1; EWStopSeen 1; EMJoin 1; EMFinish ].
(* what hook H4 would record of that run *)
Definition ex_log : list event :=
  [ EMStdin "a"%string; EMPush 0; EMStdin "b"%string; EMPush 1; EWPull 0 0; EWPull 1 1; EWSend 1 1;
    EMRecv 1; EMEof; EWSend 0 0; EMDrainRecv 0; EMPrint 0; EMPrint 1; EMStop;
    EWStopSeen 0; EWStopSeen 1; EMFinish ].

Lemma ex_run : forall answer,
  exists s, run answer true (init ex_input 2) ex_trace = Some s /\ terminated s /\
            printed s = [answer "a"; answer "b"]%string.
Proof. intros answer. eexists. split; [vm_compute; reflexivity|split; reflexivity]. Qed.

Lemma ex_log_valid : forall answer,
  exists s, valid_trace answer true (init ex_input 2) ex_log 0 = inl s /\ terminated s /\
            printed s = [answer "a"; answer "b"]%string.
Proof. intros answer. eexists. split; [vm_compute; reflexivity|split; reflexivity]. Qed.

(* the log of a run that loses the answer is accepted by the unrepaired model only *)
Definition lost_log : list event :=
  [ EMStdin "count"%string; EMPush 0; EWPull 0 0; EWSend 0 0; EMRecv 0; EMEof; EMStop; EWStopSeen 0; EMFinish ].
Lemma lost_log_v0 : forall answer,
  (exists s, valid_trace answer false (init lost_input 1) lost_log 0 = inl s /\ printed s = []) /\
  valid_trace answer true (init lost_input 1) lost_log 0 = inr 6.
Proof. intros answer. split; [eexists; split; [vm_compute; reflexivity|reflexivity]|vm_compute; reflexivity]. Qed.
