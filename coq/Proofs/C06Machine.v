(* C06, plain-list part: the abstract paging machine (a cursor p over a list E of length c;
   a request of k elements returns E[p .. min c (p+k)) and moves the cursor to min c (p+k) mod c). *)
From Coq Require Import List ZArith Bool Lia.
From DD Require Import Model.Circuit Model.Query Model.Enumerate Proofs.Enum Proofs.C06Prefix.
Import ListNotations.
Open Scope Z_scope.

(* ---------- (3) sequences of requests: the abstract paging machine ---------- *)
Section Machine.
Variables (X : Type) (c : Z) (E : list X).

Definition next_pos (p k : Z) : Z := Z.min c (p + k) mod c.

Fixpoint spec_pages (p : Z) (ks : list Z) : list (list X) :=
  match ks with
  | [] => []
  | k :: ks' => slice p (Z.min c (p + k)) E :: spec_pages (next_pos p k) ks'
  end.
Definition spec_pos (p : Z) (ks : list Z) : Z := fold_left next_pos ks p.

Hypothesis Hc : 0 < c.
Hypothesis HE : Z.of_nat (length E) = c.

Lemma next_pos_range p k : 0 <= p < c -> 0 <= k -> 0 <= next_pos p k < c.
Proof. intros. unfold next_pos. now apply Z.mod_pos_bound. Qed.

Lemma spec_pos_range ks : forall p, 0 <= p < c -> Forall (fun k => 0 <= k) ks ->
  0 <= spec_pos p ks < c.
Proof.
  induction ks as [|k ks IH]; intros p Hp Hk; [exact Hp|]. inversion Hk; subst.
  cbn [spec_pos fold_left]. apply IH; [now apply next_pos_range|assumption].
Qed.

(* size of every page: min k (c - position) *)
Fixpoint spec_lens (p : Z) (ks : list Z) : list Z :=
  match ks with
  | [] => []
  | k :: ks' => Z.min k (c - p) :: spec_lens (next_pos p k) ks'
  end.

Lemma spec_pages_lens ks : forall p, 0 <= p < c -> Forall (fun k => 0 <= k) ks ->
  map (fun pg => Z.of_nat (length pg)) (spec_pages p ks) = spec_lens p ks.
Proof.
  induction ks as [|k ks IH]; intros p Hp Hk; [reflexivity|]. inversion Hk; subst.
  cbn [spec_pages spec_lens map]. f_equal.
  - rewrite slice_length; lia.
  - apply IH; [now apply next_pos_range|assumption].
Qed.

(* as long as the requests stay within the cycle the pages are consecutive slices *)
Lemma spec_pages_within ks : forall p, 0 <= p < c -> Forall (fun k => 0 <= k) ks ->
  p + zsum ks <= c ->
  concat (spec_pages p ks) = slice p (p + zsum ks) E /\
  spec_pos p ks = (p + zsum ks) mod c.
Proof.
  induction ks as [|k ks IH]; intros p Hp Hk Hs.
  - cbn [spec_pages concat zsum fold_right spec_pos fold_left]. rewrite Z.add_0_r, slice_empty.
    split; [reflexivity|]. symmetry. apply Z.mod_small. lia.
  - inversion Hk as [|? ? Hk0 Hk']; subst. rewrite zsum_cons in *.
    assert (Hz : 0 <= zsum ks).
    { clear - Hk'. induction Hk' as [|x l Hx _ IHl]; [cbn; lia|rewrite zsum_cons; lia]. }
    cbn [spec_pages concat spec_pos fold_left]. fold (spec_pos (next_pos p k) ks).
    replace (Z.min c (p + k)) with (p + k) by lia.
    destruct (Z.eq_dec (p + k) c) as [Hfull|Hnf].
    + (* the page ends the cycle: the remaining requests are empty pages at position 0 *)
      assert (Hz0 : zsum ks = 0) by lia.
      unfold next_pos. replace (Z.min c (p + k)) with c by lia. rewrite Z_mod_same_full.
      destruct (IH 0 ltac:(lia) Hk' ltac:(lia)) as [IH1 IH2].
      rewrite IH1, IH2, Hz0. cbn [Z.add]. rewrite slice_empty, app_nil_r.
      split; [f_equal; lia|]. rewrite Zmod_0_l. replace (p + (k + 0)) with c by lia.
      now rewrite Z_mod_same_full.
    + assert (Hnp : next_pos p k = p + k).
      { unfold next_pos. replace (Z.min c (p + k)) with (p + k) by lia. apply Z.mod_small. lia. }
      rewrite Hnp. destruct (IH (p + k) ltac:(lia) Hk' ltac:(lia)) as [IH1 IH2].
      rewrite IH1, IH2, slice_app by lia. split; f_equal; lia.
Qed.

(* one full cycle from position 0 *)
Corollary spec_pages_cycle ks : Forall (fun k => 0 <= k) ks -> zsum ks = c ->
  concat (spec_pages 0 ks) = E /\ spec_pos 0 ks = 0.
Proof.
  intros Hk Hs. destruct (spec_pages_within ks 0 ltac:(lia) Hk ltac:(lia)) as [H1 H2].
  rewrite H1, H2, Hs. cbn [Z.add]. rewrite <- HE at 1. rewrite slice_all.
  split; [reflexivity|apply Z_mod_same_full].
Qed.

(* in general: the j-th element returned overall is E[(p + j) mod c], i.e. the concatenation of
   all pages is a segment of E ++ E ++ E ++ ... starting at p (pages are cut at the cycle
   boundary, so the number of returned elements is spec_total, not the sum of the requests) *)
Variable dflt : X.

Definition cyc (p : Z) (len : nat) : list X :=
  map (fun j => nth (Z.to_nat ((p + Z.of_nat j) mod c)) E dflt) (seq 0 len).

Fixpoint spec_total (p : Z) (ks : list Z) : nat :=
  match ks with
  | [] => 0%nat
  | k :: ks' => (Z.to_nat (Z.min c (p + k) - p) + spec_total (next_pos p k) ks')%nat
  end.

Lemma map_seq_shift {Y} (f : nat -> Y) a b :
  map f (seq a b) = map (fun j => f (a + j)%nat) (seq 0 b).
Proof.
  revert f a. induction b as [|b IH]; intros f a; [reflexivity|].
  cbn [seq map]. f_equal; [f_equal; lia|].
  rewrite (IH f (S a)), (IH (fun j => f (a + j)%nat) 1%nat).
  apply map_ext. intros j. f_equal. lia.
Qed.

Lemma cyc_app p a b : cyc p (a + b) = cyc p a ++ cyc ((p + Z.of_nat a) mod c) b.
Proof.
  unfold cyc. rewrite seq_app, map_app. f_equal. cbn [Nat.add].
  rewrite map_seq_shift. apply map_ext. intros j. do 2 f_equal.
  rewrite Zplus_mod_idemp_l. f_equal. lia.
Qed.

Lemma skipn_nth_cons (l : list X) : forall a, (a < length l)%nat ->
  skipn a l = nth a l dflt :: skipn (S a) l.
Proof.
  induction l as [|x l IH]; intros a Ha; [cbn in Ha; lia|].
  destruct a as [|a]; [reflexivity|]. cbn [skipn nth]. rewrite IH by (cbn in Ha; lia). reflexivity.
Qed.

Lemma firstn_skipn_nth (l : list X) m : forall a, (a + m <= length l)%nat ->
  firstn m (skipn a l) = map (fun j => nth (a + j) l dflt) (seq 0 m).
Proof.
  induction m as [|m IH]; intros a Ha; [reflexivity|].
  rewrite skipn_nth_cons by lia. cbn [firstn seq map]. f_equal; [f_equal; lia|].
  rewrite IH by lia. rewrite (map_seq_shift _ 1%nat m). apply map_ext. intros j. f_equal. lia.
Qed.

Lemma slice_cyc p q : 0 <= p <= q -> q <= c -> slice p q E = cyc p (Z.to_nat (q - p)).
Proof.
  intros Hp Hq. unfold slice, cyc. rewrite firstn_skipn_nth by lia.
  apply map_ext_in. intros j Hj. apply in_seq in Hj. f_equal.
  rewrite Z.mod_small by lia. lia.
Qed.

Theorem spec_pages_cyc ks : forall p, 0 <= p < c -> Forall (fun k => 0 <= k) ks ->
  concat (spec_pages p ks) = cyc p (spec_total p ks).
Proof.
  induction ks as [|k ks IH]; intros p Hp Hk; [reflexivity|]. inversion Hk; subst.
  cbn [spec_pages concat spec_total]. rewrite cyc_app, slice_cyc by lia. f_equal.
  rewrite IH; [|now apply next_pos_range|assumption]. f_equal. unfold next_pos. f_equal. lia.
Qed.

End Machine.

Arguments next_pos c p k : clear implicits.
Arguments spec_pages {X} c E p ks.
Arguments spec_pos c p ks : clear implicits.
Arguments spec_lens c p ks : clear implicits.
Arguments spec_total c p ks : clear implicits.
Arguments cyc {X} c E dflt p len.
