(* C12: the statements used by Props/C12.v, assembled from ClauseCacheRefine / ClauseCacheSimplify
   and from the query theorems of C02 / C03 / C05. *)
From Coq Require Import List ZArith Bool Lia Sorted String.
From DD Require Import Model.Circuit Model.Query Spec.CnfMachine Model.ClauseCache
  Proofs.Semantics Proofs.CountsA Proofs.QueryDefs Proofs.C02Proof Proofs.C03Proof Proofs.C05Proof
  Proofs.ClauseCacheSets Proofs.ClauseCacheRefine Proofs.ClauseCacheSimplify.
Import ListNotations.
Open Scope Z_scope.

(* ---------- the coupling invariant in plain terms ---------- *)
Lemma R_unfold loadable d m : R loadable d m ->
  exists c, cached d = Some c /\
    cclauses c = canon_set (m_cs m) /\
    total c = Some (m_n m) /\
    snd (live_of d) = m_n m /\
    (forall s, cs_sat s (fst (live_of d)) = cs_sat s (m_cs m)) /\
    loadable (fst (live_of d)) (snd (live_of d)) = true /\
    save_cnf d = ASaved (m_save m) /\
    match m_prev m with
    | None => old c = None
    | Some (pcs, pn) => exists ocs, old c = Some (ocs, pn) /\ forall s, cs_sat s ocs = cs_sat s pcs
    end.
Proof.
  intros HR. pose proof (save_refines loadable d m HR) as Hsave.
  destruct HR as [c [Hc [HI [Ht [Hot [[Hl1 [Hl2 Hl3]] Ho]]]]]].
  exists c. split; [exact Hc|]. split.
  { apply canon_set_unique; [exact (inv_sorted _ _ _ HI)|exact (inv_cur _ _ _ HI)]. }
  split; [exact Ht|]. split; [exact Hl1|]. split; [exact Hl2|]. split; [exact Hl3|].
  split; [exact Hsave|].
  destruct (m_prev m) as [[pcs pn]|]; [|exact Ho].
  destruct Ho as [[ocs on] [Ho1 [Ho2 [Ho3 _]]]]. cbn [fst snd] in *. subst on.
  exists ocs. split; [exact Ho1|exact Ho3].
Qed.

(* ---------- loading ---------- *)
(* clause lines without literal 0, satisfiable.  (Before repair F9 "stored set not empty" was a
   third condition: such a CNF got no clause cache, K14.) *)
Definition good_input (raw : list (list Z)) : Prop :=
  nzs raw /\ (exists s0 : asg, cs_sat s0 raw = true).

Lemma stored_equiv_input raw : nzs raw -> (exists s0 : asg, cs_sat s0 raw = true) ->
  forall s, cs_sat s (stored_set raw) = cs_sat s raw.
Proof.
  intros Hnz [s0 H0] s. rewrite stored_set_equiv. apply (simplify_equiv raw s0 Hnz H0).
Qed.

Lemma load_R loadable raw n d : good_input raw -> load_cnf loadable raw n = Some d ->
  R loadable d (m_init (stored_set raw) n).
Proof.
  intros [Hnz Hsat] Hl. apply (R_init loadable raw n (stored_set raw) d Hl).
  - intros s. symmetry. apply stored_equiv_input; assumption.
  - intros x. tauto.
Qed.

Lemma load_has_cache loadable raw n d :
  load_cnf loadable raw n = Some d ->
  cached d = Some (initialize (stored_set raw) n) /\ live_of d = (raw, n) /\ loadable raw n = true.
Proof.
  unfold load_cnf. destruct (loadable raw n); [|discriminate]. intros H. inversion H. repeat split.
Qed.

(* save-cnf right after loading: the stored set, which has the models of the input *)
Theorem initial_save loadable raw n d : good_input raw -> load_cnf loadable raw n = Some d ->
  save_cnf d = ASaved (print_cnf n (stored_set raw)) /\
  forall s, cs_sat s (stored_set raw) = cs_sat s raw.
Proof.
  intros HG Hl. split; [|apply stored_equiv_input; apply HG].
  unfold load_cnf in Hl. destruct (loadable raw n); [|discriminate]. inversion Hl; subst d; clear Hl.
  reflexivity.
Qed.

(* ---------- the refinement, from the loaded state, for every history ---------- *)
Theorem refines loadable raw n d cmds :
  good_input raw -> load_cnf loadable raw n = Some d ->
  let m0 := m_init (stored_set raw) n in
  let '(d', ans) := cc_run false loadable d cmds in
  answers_ok loadable m0 cmds ans /\
  (~ In APanic ans -> R loadable d' (m_run m0 cmds)).
Proof.
  intros HG Hl m0. apply (run_refines loadable cmds d m0). apply load_R; assumption.
Qed.

(* a rejected clause-update changes nothing, an accepted one is the abstract update *)
Theorem update_cases loadable d m t add rmv : R loadable d m ->
  let '(d', a) := clause_update false loadable d t add rmv in
  match a with
  | AOk => m_accepts m t add rmv = true /\ R loadable d' (m_update m t add rmv)
  | AErr _ => m_accepts m t add rmv = false /\ d' = d /\ m_update m t add rmv = m
  | APanic => m_accepts m t add rmv = true /\
              loadable (canon_set (m_cs (m_update m t add rmv))) (m_n (m_update m t add rmv)) = false
  | ASaved _ => False
  end.
Proof.
  intros HR. pose proof (clause_update_refines loadable d m t add rmv HR) as H.
  destruct (clause_update false loadable d t add rmv) as [d' a]. unfold update_ok in H.
  destruct a; try exact H. destruct H as [H1 H2]. split; [exact H1|]. split; [exact H2|].
  unfold m_update. rewrite H1. reflexivity.
Qed.

(* without the possibility of a load panic no history panics *)
Lemma no_panic loadable cmds : (forall cs n, loadable cs n = true) ->
  forall d m, R loadable d m -> ~ In APanic (snd (cc_run false loadable d cmds)).
Proof.
  intros Hall. induction cmds as [|c cmds IH]; intros d m HR; cbn [cc_run].
  - cbn [snd In]. tauto.
  - pose proof (step_refines loadable d m c HR) as HS.
    destruct (cc_step false loadable d c) as [d1 a] eqn:Es.
    destruct a.
    + specialize (IH d1 (m_step m c) (step_ok_R loadable d m c d1 _ HR HS ltac:(discriminate))).
      destruct (cc_run false loadable d1 cmds) as [d2 l]. cbn [snd] in *.
      intros [H|H]; [discriminate|exact (IH H)].
    + specialize (IH d1 (m_step m c) (step_ok_R loadable d m c d1 _ HR HS ltac:(discriminate))).
      destruct (cc_run false loadable d1 cmds) as [d2 l]. cbn [snd] in *.
      intros [H|H]; [discriminate|exact (IH H)].
    + specialize (IH d1 (m_step m c) (step_ok_R loadable d m c d1 _ HR HS ltac:(discriminate))).
      destruct (cc_run false loadable d1 cmds) as [d2 l]. cbn [snd] in *.
      intros [H|H]; [discriminate|exact (IH H)].
    + exfalso. destruct c; cbn [step_ok update_ok] in HS; [|destruct HS; discriminate|destruct HS; discriminate].
      destruct HS as [_ HS]. rewrite Hall in HS. discriminate.
Qed.

(* ---------- the answers of the live model ---------- *)
Section Answers.
Variable loadable : clause_set -> nat -> bool.
(* the compiler + loader: the flattened d-DNNF obtained for the CNF (cs, n) *)
Variable compile : clause_set -> nat -> circuit.
(* its contract (trusted base; checked by the harness on every compilation of a run) *)
Hypothesis compile_ok : forall cs n, loadable cs n = true ->
  check_wf (compile cs n) n = true /\ Models (compile cs n) n = cs_models cs n.

Definition live_circuit (d : dstate) : circuit := compile (fst (live_of d)) (snd (live_of d)).

Lemma cnf_models_equiv a b n : (forall s, cs_sat s a = cs_sat s b) -> cs_models a n = cs_models b n.
Proof. intros H. unfold cs_models. apply filter_ext. intros m. apply H. Qed.

Theorem answers d m : R loadable d m ->
  check_wf (live_circuit d) (m_n m) = true /\
  Models (live_circuit d) (m_n m) = cs_models (m_cs m) (m_n m).
Proof.
  intros HR. destruct (R_unfold loadable d m HR) as [c [_ [_ [_ [Hn [He [Hl _]]]]]]].
  destruct (compile_ok _ _ Hl) as [H1 H2]. unfold live_circuit. rewrite Hn in *.
  split; [exact H1|]. rewrite H2. apply cnf_models_equiv. exact He.
Qed.

Theorem count_answers d m A s : R loadable d m ->
  in_range (m_n m) A -> Clean (live_circuit d) s ->
  snd (execute_query (build (live_circuit d) (m_n m)) A s) = cnf_count (m_cs m) (m_n m) A.
Proof.
  intros HR HA Hc. destruct (answers d m HR) as [H1 H2].
  pose proof (execute_query_correct _ _ A s (check_wf_WFQ _ _ H1) HA Hc) as H.
  destruct (execute_query (build (live_circuit d) (m_n m)) A s) as [s' r]. cbn [snd].
  destruct H as [-> _]. unfold MCA, ModelsA, cnf_count. rewrite H2. reflexivity.
Qed.

Lemma live_root_count d m : R loadable d m -> 0 < cnf_count (m_cs m) (m_n m) [] ->
  0 < root_count (live_circuit d).
Proof.
  intros HR Hpos. destruct (answers d m HR) as [H1 H2].
  pose proof (check_wf_WFQ _ _ H1) as HQ.
  rewrite (count_is_MC _ _ (wfq_wf _ _ HQ)). unfold MC. rewrite H2.
  unfold cnf_count in Hpos. cbn [contains_all forallb] in Hpos.
  rewrite (filter_ext _ (fun _ => true)) in Hpos by reflexivity.
  assert (forall (l : list cfg), filter (fun _ => true) l = l) as F
      by (induction l as [|x l IH]; cbn [filter]; [reflexivity|rewrite IH; reflexivity]).
  rewrite F in Hpos. exact Hpos.
Qed.

Theorem sat_answers d m A : R loadable d m ->
  in_range (m_n m) A -> 0 < cnf_count (m_cs m) (m_n m) [] ->
  sat (build (live_circuit d) (m_n m)) A = (0 <? cnf_count (m_cs m) (m_n m) A).
Proof.
  intros HR HA Hpos. destruct (answers d m HR) as [H1 H2].
  pose proof (check_wf_WFQ _ _ H1) as HQ.
  pose proof (live_root_count d m HR Hpos) as Hrc.
  rewrite (sat_correct _ _ A HQ Hrc HA). unfold MCA, ModelsA, cnf_count. rewrite H2. reflexivity.
Qed.

(* the cached core of the live model (exact whether or not the compiled vector has dead branches:
   C05_core_exact; before F22 this needed no_dead) *)
Theorem core_answers d m s l : R loadable d m -> 0 < cnf_count (m_cs m) (m_n m) [] ->
  (In l (snd (core_dead_with_assumptions (build (live_circuit d) (m_n m)) [] s)) <->
   forall mo, In mo (cs_models (m_cs m) (m_n m)) -> In l mo).
Proof.
  intros HR Hpos. destruct (answers d m HR) as [H1 H2].
  rewrite (core_dead_nil_correct _ _ s l (check_wf_WFQ _ _ H1) (live_root_count d m HR Hpos)).
  rewrite H2. tauto.
Qed.
End Answers.

(* ---------- the unrepaired code (record_all = true) ---------- *)
Definition always (_ : clause_set) (_ : nat) : bool := true.
Definition raw0 : list (list Z) := [[1; 2]; [-1; 3]].
Definition d0 : dstate :=
  match load_cnf always raw0 3 with Some d => d | None => mkD ([], O) None end.
Definition m0 : mstate := m_init (stored_set raw0) 3.

Definition stored (d : dstate) : clause_set :=
  match cached d with Some c => cclauses c | None => [] end.

(* add a clause that is already present, undo: the clause is gone from the stored set, while
   the abstract machine (and the live model) still have it; a further update then compiles the
   wrong CNF: 2 models instead of 1 *)
Lemma refuted_add_existing :
  let h := [CUpdate None [[1; 2]] []; CUndo] in
  let '(d, ans) := cc_run true always d0 h in
  let m := m_run m0 h in
  ans = [AOk; AOk] /\
  stored d = [[-1; 3]] /\ canon_set (m_cs m) = [[-1; 3]; [1; 2]] /\
  save_cnf d <> ASaved (m_save m) /\
  let '(d2, _) := cc_step true always d (CUpdate None [[-3]] []) in
  let m2 := m_step m (CUpdate None [[-3]] []) in
  cnf_count (fst (live_of d2)) (snd (live_of d2)) [] = 2 /\
  cnf_count (m_cs m2) (m_n m2) [] = 1.
Proof. vm_compute. repeat split; try reflexivity. intros H. discriminate H. Qed.

(* the same clause twice in one add list, undo: the second removal of the inverse edit fails,
   the clause set is rolled back, the result is ignored and the models are swapped anyway:
   the stored set keeps -2 while the live model is the original one *)
Lemma refuted_duplicate_add :
  let h := [CUpdate None [[-2]; [-2]] []; CUndo] in
  let '(d, ans) := cc_run true always d0 h in
  let m := m_run m0 h in
  ans = [AOk; AOk] /\
  stored d = [[-2]; [-1; 3]; [1; 2]] /\ canon_set (m_cs m) = [[-1; 3]; [1; 2]] /\
  fst (live_of d) = raw0 /\
  cnf_count (fst (live_of d)) 3 [] = 4 /\ cnf_count (stored d) 3 [] = 1 /\
  save_cnf d <> ASaved (m_save m).
Proof. vm_compute. repeat split; try reflexivity. intros H. discriminate H. Qed.

(* the repaired code on the same histories *)
Lemma fixed_on_refuting_histories :
  let h1 := [CUpdate None [[1; 2]] []; CUndo; CSave] in
  let h2 := [CUpdate None [[-2]; [-2]] []; CUndo; CSave] in
  snd (cc_run false always d0 h1) = [AOk; AOk; ASaved (m_save (m_run m0 h1))] /\
  snd (cc_run false always d0 h2) = [AOk; AOk; ASaved (m_save (m_run m0 h2))].
Proof. vm_compute. split; reflexivity. Qed.

(* ---------- K9: an update that makes the formula unsatisfiable ---------- *)
(* loading the d4 text `f 1 0` panics; the panic leaves the edited clause set behind while the
   live model is still the old one *)
Lemma refuted_unsat_panic :
  let loadable := cnf_satisfiable in
  exists raw n d, good_input raw /\ load_cnf loadable raw n = Some d /\
    let '(d', ans) := cc_run false loadable d [CUpdate None [[1]; [-1]] []] in
    ans = [APanic] /\
    stored d' = [[-1]; [1]; [1; 2]] /\ fst (live_of d') = [[1; 2]] /\
    cnf_count (stored d') n [] = 0 /\ cnf_count (fst (live_of d')) n [] = 3.
Proof.
  exists [[1; 2]], 2%nat.
  eexists. split.
  - split.
    + intros c [<-|[]] l [<-|[<-|[]]]; discriminate.
    + exists (fun _ => true). reflexivity.
  - split; [vm_compute; reflexivity|]. vm_compute. repeat split; reflexivity.
Qed.

(* ---------- K14, the loader BEFORE repair F9: a CNF whose stored set is empty got no cache at
   all; the repaired loader answers the same commands as the abstract machine does ---------- *)
Lemma refuted_empty_cnf_v0 :
  exists raw n d, load_cnf_v0 always raw n = Some d /\ (forall s : asg, cs_sat s raw = true) /\
    save_cnf d = AErr E5_no_save /\
    snd (clause_update false always d None [[1]] []) = AErr E5_no_clauses /\
    snd (clause_update false always d (Some 3) [] []) = AErr E5_no_clauses /\
    exists d', load_cnf always raw n = Some d' /\
      save_cnf d' = ASaved ["p cnf 2 0"%string] /\
      snd (cc_run false always d' [CUpdate None [[1]] []; CSave; CUpdate (Some 3) [] []; CSave; CUndo; CUndo; CSave]) =
      [AOk; ASaved ["p cnf 2 1"; "1 0"]%string; AOk; ASaved ["p cnf 3 1"; "1 0"]%string; AOk; AOk;
       ASaved ["p cnf 3 1"; "1 0"]%string].
Proof.
  exists [[1; -1]], 2%nat. eexists. split; [vm_compute; reflexivity|].
  split; [intros s; cbn; unfold lit_true; cbn; destruct (s 1); reflexivity|].
  split; [vm_compute; reflexivity|]. split; [vm_compute; reflexivity|]. split; [vm_compute; reflexivity|].
  eexists. split; [vm_compute; reflexivity|]. vm_compute. split; reflexivity.
Qed.

(* an input without effective clauses satisfies the hypotheses of the main theorem *)
Lemma empty_cnf_good : good_input [] /\ good_input [[1; -1]] /\ stored_set [[1; -1]] = [] /\
  exists d, load_cnf always [[1; -1]] 2 = Some d.
Proof.
  split; [split; [intros c []|exists (fun _ => true); reflexivity]|].
  split; [split; [intros c [<-|[]] l [<-|[<-|[]]]; discriminate|exists (fun _ => true); reflexivity]|].
  split; [vm_compute; reflexivity|]. eexists. vm_compute. reflexivity.
Qed.
