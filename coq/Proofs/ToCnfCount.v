(* C19: the CNF's models over its declared variables project bijectively onto the models of the
   circuit; equi-countability with the cached root count. *)
From Coq Require Import List ZArith Bool Lia Permutation.
From DD Require Import Model.Circuit Model.ToCnf Proofs.PassLemmas Proofs.Enum Proofs.Semantics
  Proofs.ToCnfBase Proofs.ToCnfInv Proofs.ToCnfRoot Proofs.ToCnfSem Proofs.ToCnfMain.
Import ListNotations.
Open Scope Z_scope.

Lemma firstn_zseq a (n K : nat) : (n <= K)%nat -> firstn n (zseq a K) = zseq a n.
Proof.
  revert a K. induction n as [|n IH]; intros a K H; [reflexivity|].
  destruct K as [|K]; [lia|]. cbn [zseq firstn]. f_equal. apply IH. lia.
Qed.

Lemma canon_firstn (n K : nat) (b : asg) : (n <= K)%nat -> firstn n (canon K b) = canon n b.
Proof. intros H. unfold canon. now rewrite firstn_map, firstn_zseq. Qed.

Lemma canon_ext (K : nat) (b b' : asg) :
  (forall v, 1 <= v <= Z.of_nat K -> b v = b' v) -> canon K b = canon K b'.
Proof.
  intros H. unfold canon. apply map_ext_in. intros v Hv. apply zseq_In in Hv.
  rewrite H by lia. reflexivity.
Qed.

Lemma NoDup_map_inj_on {A B} (f : A -> B) (l : list A) :
  NoDup l -> (forall x y, In x l -> In y l -> f x = f y -> x = y) -> NoDup (map f l).
Proof.
  induction 1 as [|x l Hx Hnd IH]; intros Hinj; [constructor|]. cbn. constructor.
  - intros Hin. apply in_map_iff in Hin. destruct Hin as [y [Hy Hyl]].
    assert (y = x) by (apply Hinj; [now right|now left|exact Hy]). subst. contradiction.
  - apply IH. intros a b Ha Hb. apply Hinj; now right.
Qed.

Lemma clause_sat_ext (b b' : asg) (c : list Z) :
  (forall l, In l c -> b (Z.abs l) = b' (Z.abs l)) -> clause_sat b c = clause_sat b' c.
Proof. intros H. unfold clause_sat. apply existsb_ext_in. intros l Hl. apply lit_true_ext. now apply H. Qed.

Lemma cnf_sat_ext (b b' : asg) (F : cnf) :
  (forall l, In l (concat (clauses F)) -> b (Z.abs l) = b' (Z.abs l)) -> cnf_sat b F = cnf_sat b' F.
Proof.
  intros H. unfold cnf_sat. apply forallb_ext_in. intros c Hc. apply clause_sat_ext.
  intros l Hl. apply H. apply in_concat. now exists c.
Qed.

Section Count.
Variables (C : circuit) (n : nat) (st : tstate).
Let N := Z.of_nat n.
Hypothesis HWF : CWF C n.
Hypothesis Hreach : all_reachable C = true.
Hypothesis Hn : (2 <= n)%nat.
Hypothesis Hrun : run (length C) C (init_state n) = Done st.

Let F := final_cnf st.
Let K := num_variables F.
Let HK : Z.of_nat K = ts_idx st - 1 := final_num_variables C n st HWF Hreach Hn Hrun.
Let Hg : N + 1 < ts_idx st := idx_gt C n st HWF Hreach Hn Hrun.

Lemma K_ge_n : (n <= K)%nat.
Proof. apply Nat2Z.inj_le. fold N. lia. Qed.

Lemma F_lits l : In l (concat (clauses F)) -> 1 <= Z.abs l <= Z.of_nat K.
Proof.
  intros H. rewrite HK. apply (final_vars C n st HWF Hreach Hn Hrun). now apply in_map.
Qed.

Lemma sat_canon (b : asg) : cnf_sat (asg_of (canon K b)) F = cnf_sat b F.
Proof. apply cnf_sat_ext. intros l Hl. apply asg_canon. now apply F_lits. Qed.

Lemma asg_firstn (m : cfg) v :
  In m (all_cfgs K) -> 1 <= v <= N -> asg_of (firstn n m) v = asg_of m v.
Proof.
  intros Hm Hv. rewrite <- (canon_asg_of K m Hm) at 1.
  rewrite (canon_firstn n K _ K_ge_n). apply asg_canon. exact Hv.
Qed.

Lemma lits_range l : In (Lit l) C -> 1 <= Z.abs l <= N.
Proof. intros H. destruct (wf_lits_ok C n HWF Hreach l H) as [H0 H1]. fold N in H1. lia. Qed.

Theorem final_projection : Permutation (map (firstn n) (cnf_models F)) (Models C n).
Proof.
  pose proof K_ge_n as HKn.
  apply NoDup_Permutation.
  - apply NoDup_map_inj_on; [apply NoDup_filter, all_cfgs_NoDup|].
    intros m1 m2 H1 H2 E. unfold cnf_models in H1, H2. apply filter_In in H1, H2. fold K in H1, H2.
    destruct H1 as [Hm1 Hs1], H2 as [Hm2 Hs2].
    rewrite <- (canon_asg_of K m1 Hm1), <- (canon_asg_of K m2 Hm2). apply canon_ext. intros v Hv.
    assert (Hagree : forall v, 1 <= v <= N -> asg_of m2 v = asg_of m1 v).
    { intros w Hw. rewrite <- (asg_firstn m2 w Hm2 Hw), <- (asg_firstn m1 w Hm1 Hw). now rewrite E. }
    rewrite (final_unique C n st HWF Hreach Hn Hrun (asg_of m1) (asg_of m1) Hs1 (fun _ _ => eq_refl) v) by lia.
    rewrite (final_unique C n st HWF Hreach Hn Hrun (asg_of m1) (asg_of m2) Hs2 Hagree v) by lia.
    reflexivity.
  - unfold Models. apply NoDup_filter, all_cfgs_NoDup.
  - intros x. unfold Models. rewrite filter_In, in_map_iff. split.
    + intros [m [<- Hm]]. unfold cnf_models in Hm. apply filter_In in Hm. fold K in Hm.
      destruct Hm as [Hm Hs].
      assert (Hx : firstn n m = canon n (asg_of m)).
      { rewrite <- (canon_asg_of K m Hm) at 1. now apply canon_firstn. }
      split; [rewrite Hx; apply canon_in_all|].
      rewrite (eval_root_ext C (asg_of (firstn n m)) (asg_of m)).
      * now apply (final_sound C n st HWF Hreach Hn Hrun).
      * intros l Hl. apply asg_firstn; [exact Hm|now apply lits_range].
    + intros [Hx He]. set (s := asg_of x) in *. set (b := ext s (ts_bics st)).
      destruct (final_complete C n st HWF Hreach Hn Hrun s He) as [Hsat Hag]. fold b in Hsat, Hag.
      exists (canon K b). split.
      * rewrite (canon_firstn n K b HKn). rewrite (canon_ext n b s).
        -- apply canon_asg_of. exact Hx.
        -- intros v Hv. apply Hag. fold N. lia.
      * unfold cnf_models. apply filter_In. fold K. split; [apply canon_in_all|].
        fold F. now rewrite sat_canon.
Qed.

Theorem final_count_models : Z.of_nat (length (cnf_models F)) = MC C n.
Proof.
  unfold MC. f_equal.
  rewrite <- (Permutation_length final_projection). now rewrite map_length.
Qed.

(* the cached count: this is where the d-DNNF properties (the full C01 bundle) are needed *)
Theorem final_count : WF C n -> Z.of_nat (length (cnf_models F)) = root_count C.
Proof. intros HW. rewrite (count_is_MC C n HW). exact final_count_models. Qed.

End Count.
