(* C07 (5), part 2: the ideal law joint1 talks about the MODEL's sample_node: every stream listed by
   joint1 respects the contract, is consumed entirely by sample_node with amount = 1, and makes it
   return exactly the listed outcome. *)
From Coq Require Import List ZArith QArith Bool Lia.
From DD Require Import Model.Circuit Model.Query Model.Enumerate
     Proofs.PassLemmas Proofs.Enum Proofs.C07Defs Proofs.C07Valid Proofs.C07IdealDefs Proofs.C07Uniform.
Import ListNotations.
Open Scope Z_scope.

(* ---------- unit split vectors ---------- *)

Lemma nth_repeat_n {X} (x : X) n j : nth j (repeat_n x n) x = x.
Proof. revert j. induction n as [|n IH]; intros [|j]; cbn [repeat_n nth]; auto. Qed.

Lemma nth_unit_split pre post j :
  nth j (unit_split pre post) 0 = if Nat.eqb j pre then 1 else 0.
Proof.
  unfold unit_split. destruct (Nat.eqb j pre) eqn:Ej.
  - apply Nat.eqb_eq in Ej. subst j. rewrite app_nth2; rewrite repeat_n_length; [|lia].
    now rewrite Nat.sub_diag.
  - apply Nat.eqb_neq in Ej. destruct (Nat.lt_ge_cases j pre) as [Hlt|Hge].
    + rewrite app_nth1 by (rewrite repeat_n_length; lia). apply nth_repeat_n.
    + rewrite app_nth2; rewrite repeat_n_length; [|lia].
      destruct (j - pre)%nat as [|k] eqn:Ek; [lia|]. cbn [nth]. apply nth_repeat_n.
Qed.

Lemma zsum_app l1 l2 : zsum (l1 ++ l2) = zsum l1 + zsum l2.
Proof. induction l1 as [|x l1 IH]; [reflexivity|]. cbn [app]. rewrite !zsum_cons, IH. lia. Qed.

Lemma zsum_zeros k : zsum (repeat_n 0 k) = 0.
Proof. induction k as [|k IH]; [reflexivity|]. cbn [repeat_n]. rewrite zsum_cons, IH. reflexivity. Qed.

Lemma forallb_zeros (p : Z -> bool) k : p 0 = true -> forallb p (repeat_n 0 k) = true.
Proof. intros H. induction k as [|k IH]; [reflexivity|]. cbn [repeat_n forallb]. now rewrite H, IH. Qed.

Lemma combine_app_eq {X Y} (a a' : list X) (b b' : list Y) :
  length a = length b -> combine (a ++ a') (b ++ b') = combine a b ++ combine a' b'.
Proof.
  revert b. induction a as [|x a IH]; intros [|y b] H; try discriminate; [reflexivity|].
  cbn [app combine]. f_equal. apply IH. now injection H.
Qed.

Lemma forallb_combine_zeros (g : nat * Z -> bool) (cs : list nat) : forall k,
  forallb (fun cx => g cx || (snd cx =? 0)) (combine cs (repeat_n 0 k)) = true.
Proof.
  induction cs as [|c cs IH]; intros [|k]; try reflexivity.
  cbn [repeat_n combine forallb snd]. rewrite IH. cbn [Z.eqb]. now rewrite orb_true_r.
Qed.

Lemma split_ok_unit ts cs1 c cs2 : nth c ts 0 <> 0 ->
  split_ok ts (cs1 ++ c :: cs2) (unit_split (length cs1) (length cs2)) 1 = true.
Proof.
  intros Hc. unfold split_ok, unit_split. repeat (apply andb_true_iff; split).
  - apply Nat.eqb_eq. rewrite !app_length. cbn [length]. now rewrite !repeat_n_length.
  - rewrite forallb_app. cbn [forallb]. now rewrite !forallb_zeros.
  - apply Z.eqb_eq. rewrite zsum_app, zsum_cons, !zsum_zeros. reflexivity.
  - rewrite combine_app_eq by now rewrite repeat_n_length.
    rewrite forallb_app. cbn [combine forallb fst snd].
    rewrite !forallb_combine_zeros. apply Z.eqb_neq in Hc. rewrite Hc. reflexivity.
Qed.

(* ---------- membership in the ideal law ---------- *)

Lemma in_and_pairs e pm acc J : In e (and_pairs pm acc J) ->
  exists a b, In a acc /\ In b J /\ e_chs e = e_chs a ++ e_chs b ++ [Perm pm] /\
              e_out e = e_out a ++ e_out b.
Proof.
  unfold and_pairs. intros H. apply in_flat_map in H. destruct H as [a [Ha H]].
  apply in_map_iff in H. destruct H as [b [<- Hb]]. exists a, b. repeat split; assumption.
Qed.

Lemma in_or_branches e ts ti J cs : forall pre, In e (or_branches ts ti J pre cs) ->
  exists cs1 c cs2 b, cs = cs1 ++ c :: cs2 /\ nth c ts 0 <> 0 /\ In b (J c) /\
    e_chs e = Split (unit_split (pre + length cs1) (length cs2)) :: e_chs b ++ [Perm [0%nat]] /\
    e_out e = e_out b.
Proof.
  induction cs as [|c cs IH]; intros pre H; [destruct H|].
  cbn [or_branches] in H. apply in_app_iff in H. destruct H as [H|H].
  - destruct (nth c ts 0 =? 0) eqn:Et; [destruct H|]. apply Z.eqb_neq in Et.
    apply in_map_iff in H. destruct H as [b [<- Hb]].
    exists [], c, cs, b. cbn [length app]. rewrite Nat.add_0_r. repeat split; assumption.
  - destruct (IH (S pre) H) as [cs1 [c1 [cs2 [b [-> [Ht [Hb [Hs Ho]]]]]]]].
    exists (c :: cs1), c1, cs2, b. cbn [length app].
    replace (pre + S (length cs1))%nat with (S pre + length cs1)%nat by lia. repeat split; assumption.
Qed.

Section Align.
Variables (d : ddnnf) (ts : list Z).
Notation C := (circ d).
Hypothesis Hok : idx_ok C = true.

Definition outs1 (c : nat) (x : cfg) : list cfg :=
  if is_true_nd (nth c C FalseN) then [] else [x].

Definition node_aligned (f : nat) (c : nat) : Prop :=
  forall e, In e (joint1 d ts f c) ->
    (is_true_nd (nth c C FalseN) = true -> e_out e = []) /\
    forall rest, sample_node_c d ts f 1 c (e_chs e ++ rest) = (outs1 c (e_out e), rest, true, true).

(* ---------- And ---------- *)

Lemma and_foldJ_align f (cs : list nat) :
  (forall c, In c cs -> node_aligned f c) ->
  forall J e, In e (fold_left (and_stepJ d ts f) cs J) ->
  exists e0 s' a', In e0 J /\ e_chs e = e_chs e0 ++ s' /\ e_out e = e_out e0 ++ a' /\
    forall acc0 rest, fold_left (and_step d ts f 1) cs ([acc0], s' ++ rest, true, true)
                      = ([acc0 ++ a'], rest, true, true).
Proof.
  induction cs as [|c cs IH]; intros Hcs J e He.
  - cbn [fold_left] in He. exists e, [], []. rewrite !app_nil_r. repeat split; try assumption.
    intros acc0 rest. cbn [fold_left app]. now rewrite app_nil_r.
  - cbn [fold_left] in He.
    destruct (IH (fun c0 Hc0 => Hcs c0 (or_intror Hc0)) _ e He) as [e1 [s2 [a2 [He1 [Hs [Ho Hfold]]]]]].
    unfold and_stepJ in He1. apply in_and_pairs in He1.
    destruct He1 as [a0 [b [Ha0 [Hb [Hs1 Ho1]]]]].
    destruct (Hcs c (or_introl eq_refl) b Hb) as [Htrue Hrun].
    set (pm := if is_true_nd (nth c C FalseN) then [] else [0%nat]) in *.
    exists a0, (e_chs b ++ Perm pm :: s2), (e_out b ++ a2). split; [exact Ha0|]. split; [|split].
    + rewrite Hs, Hs1. rewrite <- !app_assoc. reflexivity.
    + rewrite Ho, Ho1. now rewrite <- app_assoc.
    + intros acc0 rest. cbn [fold_left]. unfold and_step at 2.
      replace ((e_chs b ++ Perm pm :: s2) ++ rest) with (e_chs b ++ (Perm pm :: s2 ++ rest))
        by (rewrite <- app_assoc; reflexivity).
      rewrite Hrun. cbn [take_choice]. unfold outs1, pm.
      destruct (is_true_nd (nth c C FalseN)) eqn:Etrue.
      * rewrite (Htrue eq_refl). cbn [apply_perm map stitch length Nat.eqb andb is_perm seq forallb app].
        rewrite Hfold. reflexivity.
      * cbn [apply_perm map nth stitch length Nat.eqb andb is_perm seq forallb existsb orb].
        rewrite Hfold. now rewrite <- app_assoc.
Qed.

(* ---------- Or ---------- *)

Lemma sample_zero f c chs : (c < f)%nat -> sample_node_c d ts f 0 c chs = ([], chs, true, true).
Proof. intros Hc. destruct f as [|f]; [lia|]. reflexivity. Qed.

(* children that receive 0 samples leave the state unchanged *)
Lemma or_skip f v (cs : list nat) :
  (forall c, In c cs -> (c < f)%nat) ->
  forall j0 l chs ok ct,
    (forall j, (j0 <= j < j0 + length cs)%nat -> nth j v 0 = 0) ->
    fold_left (or_step d ts f v) cs (l, chs, ok, j0, ct) = (l, chs, ok, (j0 + length cs)%nat, ct).
Proof.
  induction cs as [|c cs IH]; intros Hcs j0 l chs ok ct Hz.
  - cbn [fold_left length]. now rewrite Nat.add_0_r.
  - cbn [fold_left length]. unfold or_step at 2.
    rewrite (Hz j0) by (cbn [length]; lia).
    rewrite (sample_zero f c chs (Hcs c (or_introl eq_refl))).
    rewrite app_nil_r, !andb_true_r.
    assert (Hn : (j0 + S (length cs) = S j0 + length cs)%nat) by lia. rewrite Hn.
    destruct (nth c ts 0 =? 0); apply IH; try (intros c0 Hc0; apply Hcs; now right);
      intros j Hj; apply Hz; cbn [length]; lia.
Qed.

Lemma or_align f (cs1 cs2 : list nat) c b :
  (forall c0, In c0 (cs1 ++ c :: cs2) -> (c0 < f)%nat) ->
  nth c ts 0 <> 0 ->
  (is_true_nd (nth c C FalseN) = true -> e_out b = []) ->
  (forall rest, sample_node_c d ts f 1 c (e_chs b ++ rest) = (outs1 c (e_out b), rest, true, true)) ->
  forall rest ok ct,
  fold_left (or_step d ts f (unit_split (length cs1) (length cs2))) (cs1 ++ c :: cs2)
            ([], e_chs b ++ [Perm [0%nat]] ++ rest, ok, O, ct)
  = (outs1 c (e_out b), Perm [0%nat] :: rest, ok, length (cs1 ++ c :: cs2), ct).
Proof.
  intros Hlt Ht Htrue Hrun rest ok ct. rewrite fold_left_app.
  rewrite or_skip.
  - cbn [fold_left Nat.add]. unfold or_step at 2.
    apply Z.eqb_neq in Ht. rewrite Ht.
    rewrite nth_unit_split, Nat.eqb_refl, Hrun. cbn [app]. rewrite !andb_true_r.
    rewrite or_skip.
    + rewrite app_length. cbn [length]. f_equal. f_equal. lia.
    + intros c0 Hc0. apply Hlt. apply in_app_iff. right. now right.
    + intros j Hj. rewrite nth_unit_split. destruct (Nat.eqb j (length cs1)) eqn:Ej; [|reflexivity].
      apply Nat.eqb_eq in Ej. lia.
  - intros c0 Hc0. apply Hlt. apply in_app_iff. now left.
  - intros j Hj. rewrite nth_unit_split. destruct (Nat.eqb j (length cs1)) eqn:Ej; [|reflexivity].
    apply Nat.eqb_eq in Ej. lia.
Qed.

(* ---------- the induction ---------- *)

Lemma joint1_aligned : forall i, (i < length C)%nat -> forall f, (i < f)%nat -> node_aligned f i.
Proof.
  apply (idx_induction C (fun i => forall f, (i < f)%nat -> node_aligned f i) Hok).
  intros i Hi IH f Hif e He. destruct f as [|f]; [lia|].
  pose proof (idx_ok_nth C i FalseN Hok Hi) as Hch.
  cbn [joint1] in He. unfold outs1.
  destruct (nth i C FalseN) as [l|cs|cs| |] eqn:E; cbn [children is_true_nd] in *.
  - destruct He as [<-|[]]. split; [discriminate|]. intros rest.
    rewrite sample_node_c_S, E. reflexivity.
  - (* And *)
    split; [discriminate|]. intros rest.
    destruct (and_foldJ_align f cs) with (J := [(@nil choice, @nil Z, 1%Q)]) (e := e)
      as [e0 [s' [a' [He0 [Hs [Ho Hfold]]]]]].
    + intros c Hc. apply IH; [exact Hc|]. specialize (Hch c Hc). lia.
    + exact He.
    + destruct He0 as [<-|[]]. cbn [e_chs e_out fst snd app] in Hs, Ho.
      rewrite sample_node_c_S, E, Hs, Ho. cbn [Z.eqb Z.to_nat Pos.to_nat Pos.iter_op Nat.add repeat_n].
      exact (Hfold [] rest).
  - (* Or *)
    split; [discriminate|]. intros rest.
    apply in_or_branches in He.
    destruct He as [cs1 [c [cs2 [b [Hcs [Ht [Hb [Hs Ho]]]]]]]]. cbn [Nat.add] in Hs.
    assert (Hc : In c cs) by (rewrite Hcs; apply in_app_iff; right; now left).
    destruct (IH c Hc f ltac:(specialize (Hch c Hc); lia) b Hb) as [Htrue Hrun].
    rewrite sample_node_c_S, E, Hs. cbn [Z.eqb app take_choice].
    subst cs. rewrite <- app_assoc.
    rewrite (or_align f cs1 cs2 c b); try assumption.
    + rewrite (split_ok_unit ts cs1 c cs2 Ht).
      assert (Hlen : Nat.eqb (length (unit_split (length cs1) (length cs2))) (length (cs1 ++ c :: cs2)) = true).
      { apply Nat.eqb_eq. unfold unit_split. rewrite !app_length. cbn [length]. now rewrite !repeat_n_length. }
      rewrite Hlen. cbn [take_choice]. rewrite Ho. unfold outs1.
      destruct (is_true_nd (nth c C FalseN)) eqn:Etrue.
      * rewrite (Htrue eq_refl). reflexivity.
      * reflexivity.
    + intros c0 Hc0. specialize (Hch c0 Hc0). lia.
  - destruct He as [<-|[]]. split; [reflexivity|]. intros rest.
    rewrite sample_node_c_S, E. reflexivity.
  - destruct He.
Qed.

End Align.

(* at the root of a circuit whose root is not a true node: every stream of the ideal law respects
   the contract, is used up, and yields the listed outcome *)
Theorem joint1_runs d ts e :
  idx_ok (circ d) = true -> circ d <> [] -> nth (rootn d) (circ d) FalseN <> TrueN ->
  In e (joint1 d ts (length (circ d)) (rootn d)) ->
  sample_node d ts (length (circ d)) 1 (rootn d) (e_chs e) = ([e_out e], [], true) /\
  choices_ok d ts (length (circ d)) 1 (rootn d) (e_chs e).
Proof.
  intros Hok Hne Hroot He.
  assert (Hrl : (rootn d < length (circ d))%nat).
  { unfold rootn. destruct (circ d); [congruence|cbn [length]; lia]. }
  destruct (joint1_aligned d ts Hok (rootn d) Hrl (length (circ d)) Hrl e He) as [_ Hrun].
  specialize (Hrun []). rewrite app_nil_r in Hrun. unfold outs1 in Hrun.
  destruct (nth (rootn d) (circ d) FalseN) eqn:E; try congruence; cbn [is_true_nd] in Hrun.
  all: split; [exact (sample_node_c_eq _ _ _ _ _ _ _ _ _ _ Hrun)|unfold choices_ok, choices_okb; now rewrite Hrun].
Qed.
