(* The d4 loader on conforming files: the loaded vector passes check_wf (hence WF, and its root
   count is the file's model count).  Witnesses that the conditions of d4_conform which the proof
   uses cannot be dropped, and files showing which conditions are only sufficient. *)
From Coq Require Import List ZArith Bool Lia Arith.
From DD Require Import Model.Circuit Model.Query Model.LexerD4 Model.LoadC2d Model.LoadD4 Spec.D4Sem Spec.D4Conform
  Proofs.Semantics Proofs.DetCert Proofs.LoadD4Conf Proofs.LoadD4Sem Proofs.LoadD4Count Proofs.LoadD4Examples Proofs.LoadD4WF.
Import ListNotations.
Local Open Scope nat_scope.

Theorem load_d4_wf toks n C n' : d4_conform toks n = true -> load_d4 toks n = Some (C, n') ->
  check_wf C n' = true.
Proof.
  intros Hc Hl. apply (load_d4_gen_wf true (fun l => l) (fun l f => iff_refl _) (fun l H => H) toks n C n' Hc Hl).
Qed.

Theorem load_d4_wf_count toks n C n' : d4_conform toks n = true -> load_d4 toks n = Some (C, n') ->
  WF C n' /\ root_count C = Z.of_nat (length (d4_models toks n')).
Proof.
  intros Hc Hl. exact (load_d4_count toks n C n' (cf_d4_ok toks n Hc) Hl (load_d4_wf toks n C n' Hc Hl)).
Qed.

(* whatever order the hash set yields (a duplicate-free enumeration of the set), with or without
   node-index recycling *)
Theorem load_d4_gen_wf_any_order (recycle : bool) (ord : list nat -> list nat) toks n C n' :
  (forall l f, In f (ord l) <-> In f l) -> (forall l, NoDup l -> NoDup (ord l)) ->
  d4_conform toks n = true -> load_d4_gen recycle ord toks n = Some (C, n') -> check_wf C n' = true.
Proof. intros Hp Hn. exact (load_d4_gen_wf recycle ord Hp Hn toks n C n'). Qed.

(* ---------- non-vacuity ---------- *)
Example small_ex_d4_conform : d4_conform small_ex_d4 4 = true.
Proof. vm_compute. reflexivity. Qed.
Example mixed_d4_conform : d4_conform mixed_d4 5 = true.
Proof. vm_compute. reflexivity. Qed.
Example tautology_conform : d4_conform tautology_file 3 = true.
Proof. vm_compute. reflexivity. Qed.
(* sharing (node 3 below 2 and 1), smoothing at both parents with different missing sets, a dead
   branch, a free feature: the hand case "shared or with different missing sets" plus f *)
Definition shared_d4 : list d4token :=
  [DOr; DOr; DOr; DTrue; DFalse; DEdge 3 4 [3]%Z; DEdge 3 4 [-3]%Z; DEdge 2 3 [2]%Z; DEdge 2 4 [-2; 3; 4]%Z;
   DEdge 1 2 [1]%Z; DEdge 1 3 [-1; 2; 4]%Z; DEdge 1 5 [-1; -2]%Z].
Example shared_d4_conform : d4_conform shared_d4 5 = true /\
  exists C, load_d4 shared_d4 5 = Some (C, 5) /\ check_wf C 5 = true /\ 0 < length C.
Proof. split; [vm_compute; reflexivity|]. eexists. split; [vm_compute; reflexivity|]. split; [vm_compute; reflexivity|cbn; lia]. Qed.

(* ---------- the conditions cannot be dropped ---------- *)
Ltac file_ok := split; [intros from to fs H;
  repeat (destruct H as [H|H]; [try discriminate; injection H as <- <- <-; repeat constructor; discriminate|]);
  destruct H|eexists; vm_compute; reflexivity].

(* or node: two edges without a complementary pair.  o 1 0 / t 2 0 / 1 2 1 0 / 1 2 2 0 *)
Definition nondet_or_file : list d4token := [DOr; DTrue; DEdge 1 2 [1]%Z; DEdge 1 2 [2]%Z].
Theorem conform_or_conflict_refuted : exists toks n C n',
  d4_ok toks /\ or_ok toks 1 = false /\ load_d4 toks n = Some (C, n') /\ det_cert C = false /\
  check_wf C n' = false /\ root_count C <> Z.of_nat (length (d4_models toks n')).
Proof.
  exists nondet_or_file, 2. eexists. exists 2. split; [file_ok|].
  split; [vm_compute; reflexivity|]. split; [vm_compute; reflexivity|].
  split; [vm_compute; reflexivity|]. split; [vm_compute; reflexivity|vm_compute; discriminate].
Qed.

(* and node: two edges over the same feature.  a 1 0 / t 2 0 / 1 2 1 0 / 1 2 -1 0 *)
Definition overlap_and_file : list d4token := [DAnd; DTrue; DEdge 1 2 [1]%Z; DEdge 1 2 [-1]%Z].
Theorem conform_and_disjoint_refuted : exists toks n C n',
  d4_ok toks /\ and_ok toks (tabT toks) 1 = false /\ load_d4 toks n = Some (C, n') /\ decomposable C = false /\
  check_wf C n' = false.
Proof.
  exists overlap_and_file, 1. eexists. exists 1. split; [file_ok|].
  split; [vm_compute; reflexivity|]. split; [vm_compute; reflexivity|]. split; vm_compute; reflexivity.
Qed.

(* an edge whose literal is mentioned again below its target.
   o 1 0 / o 2 0 / t 3 0 / 2 3 1 0 / 2 3 -1 0 / 1 2 1 0 / 1 3 -1 0 *)
Definition edge_below_file : list d4token :=
  [DOr; DOr; DTrue; DEdge 2 3 [1]%Z; DEdge 2 3 [-1]%Z; DEdge 1 2 [1]%Z; DEdge 1 3 [-1]%Z].
Theorem conform_edge_target_refuted : exists toks n C n',
  d4_ok toks /\ edge_ok (tabT toks) ([1]%Z, 2) = false /\ In ([1]%Z, 2) (edges toks 1) /\
  load_d4 toks n = Some (C, n') /\ decomposable C = false /\ check_wf C n' = false.
Proof.
  exists edge_below_file, 1. eexists. exists 1. split; [file_ok|].
  split; [vm_compute; reflexivity|]. split; [vm_compute; tauto|]. split; [vm_compute; reflexivity|].
  split; vm_compute; reflexivity.
Qed.

(* an edge that repeats a feature.  o 1 0 / t 2 0 / 1 2 1 1 0 / 1 2 -1 0 *)
Definition edge_twice_file : list d4token := [DOr; DTrue; DEdge 1 2 [1; 1]%Z; DEdge 1 2 [-1]%Z].
Theorem conform_edge_nodup_refuted : exists toks n C n',
  d4_ok toks /\ edge_ok (tabT toks) ([1; 1]%Z, 2) = false /\ In ([1; 1]%Z, 2) (edges toks 1) /\
  load_d4 toks n = Some (C, n') /\ decomposable C = false /\ check_wf C n' = false.
Proof.
  exists edge_twice_file, 1. eexists. exists 1. split; [file_ok|].
  split; [vm_compute; reflexivity|]. split; [vm_compute; tauto|]. split; [vm_compute; reflexivity|].
  split; vm_compute; reflexivity.
Qed.

(* an edge out of a t node: the loader ignores what is below, the feature is neither free nor
   kept.  o 1 0 / t 2 0 / t 3 0 / 1 2 1 0 / 1 2 -1 0 / 2 3 2 0 *)
Definition edge_from_true_file : list d4token :=
  [DOr; DTrue; DTrue; DEdge 1 2 [1]%Z; DEdge 1 2 [-1]%Z; DEdge 2 3 [2]%Z].
Theorem conform_leaf_edges_refuted : exists toks n C n',
  d4_ok toks /\ kind toks 2 = Some KTrue /\ edges toks 2 <> [] /\
  load_d4 toks n = Some (C, n') /\ complete C n' = false /\ check_wf C n' = false /\
  root_count C <> Z.of_nat (length (d4_models toks n')).
Proof.
  exists edge_from_true_file, 2. eexists. exists 2. split; [file_ok|].
  split; [vm_compute; reflexivity|]. split; [vm_compute; discriminate|]. split; [vm_compute; reflexivity|].
  split; [vm_compute; reflexivity|]. split; [vm_compute; reflexivity|vm_compute; discriminate].
Qed.

(* a feature mentioned only in a dead branch (LoadD4Count.dead_only_file):
   all_mentioned is not below L[1] *)
Theorem conform_mentioned_live_refuted : exists toks n C n',
  d4_ok toks /\ incln (all_mentioned toks) (get (tabL toks) 1 []) = false /\
  load_d4 toks n = Some (C, n') /\ complete C n' = false /\ check_wf C n' = false /\
  root_count C <> Z.of_nat (length (d4_models toks n')).
Proof.
  exists dead_only_file, 2. eexists. exists 2. split; [file_ok|].
  split; [vm_compute; reflexivity|]. split; [vm_compute; reflexivity|].
  split; [vm_compute; reflexivity|]. split; [vm_compute; reflexivity|vm_compute; discriminate].
Qed.

(* literal 0 (token level; the lexer ends the line at the first 0) *)
Theorem conform_literal_zero_refuted : exists toks n C n',
  forallb (edge_in_range toks) toks = false /\ load_d4 toks n = Some (C, n') /\ lits_nonzero C = false /\
  check_wf C n' = false.
Proof.
  exists [DOr; DTrue; DEdge 1 2 [0]%Z], 0. eexists. exists 0.
  split; [vm_compute; reflexivity|]. split; [vm_compute; reflexivity|]. split; vm_compute; reflexivity.
Qed.

(* ---------- conditions that are sufficient, not necessary ---------- *)
(* two unlabelled edges into the same f node (the proof wants duplicate-free child lists before
   balancing; the loader removes both edges) *)
Definition twice_false_file : list d4token := [DOr; DFalse; DTrue; DEdge 1 2 []; DEdge 1 2 []; DEdge 1 3 [1]%Z].
(* an or node that is deterministic without being a decision node *)
Definition nondecision_file : list d4token :=
  [DOr; DAnd; DAnd; DTrue; DEdge 1 2 []; DEdge 1 3 []; DEdge 2 4 [1]%Z; DEdge 3 4 [-1]%Z].
Theorem conform_not_necessary :
  (d4_conform twice_false_file 1 = false /\ exists C, load_d4 twice_false_file 1 = Some (C, 1) /\ check_wf C 1 = true) /\
  (d4_conform nondecision_file 1 = false /\ exists C, load_d4 nondecision_file 1 = Some (C, 1) /\ check_wf C 1 = true).
Proof.
  repeat split; try (vm_compute; reflexivity); eexists; split; vm_compute; reflexivity.
Qed.
(* d4_conform also asks for a height certificate over ALL nodes, reachable or not.  The model
   would load a file with a cycle that node 1 does not reach; the implementation asserts
   !is_cyclic_directed on the whole graph (debug_assert in IntermediateGraph::new / rebuild,
   not modelled: see Model/LoadD4.v), so for the code as built by the harness the condition is
   not stronger than needed. *)
